(* C18 model: the local inbounds of the client.
     app/internal/socks5/server.go   dispatch / negotiate / handleTCP / handleUDP (control flow up to the
                                     upstream open) with the wire readers of github.com/txthinking/socks5
                                     (NewNegotiationRequestFrom, NewUserPassNegotiationRequestFrom, NewRequestFrom)
     app/internal/http/server.go     dispatch (Proxy-Authorization gate, CONNECT hand-over), cachedConn.Read
     app/internal/proxymux/mux.go    acceptLoop, mainLoop, dispatch, ListenSOCKS/ListenHTTP, subListener,
                                     connWithOneByte.Read  (manager.go: GetOrCreate/deleteFunc = the m_deleted flag)
   Definitions only.

   A client byte stream is a script: the list of chunks successive Read calls can see.  An empty
   chunk is a Read that returns (0, nil); the end of the script is EOF (the client closed). *)
From Hy Require Export lib.Bytes lib.Base64.
From Coq Require Import ZArith.
Local Open Scope N_scope.

(* ------------------------------------------------------------------------------------------ *)
(* 0. streams                                                                                  *)
(* ------------------------------------------------------------------------------------------ *)
Definition c18_script := list (list byte).

(* conn.Read(p), len p = n (an N: io.Copy's buffer is 32768): (bytes, eof, remaining script).  A reader at the end of the script
   returns (0, EOF). *)
Definition c18_read (n : N) (s : c18_script) : list byte * bool * c18_script :=
  match s with
  | [] => ([], true, [])
  | c :: t => if N.of_nat (length c) <=? n then (c, false, t)
              else (firstn (N.to_nat n) c, false, skipn (N.to_nat n) c :: t)
  end.

(* io.ReadFull(conn, buf), len buf = n.  None = io.EOF / io.ErrUnexpectedEOF (the callers only
   test err != nil).  Structural on the script; one Read per chunk visited. *)
Fixpoint c18_read_full (n : nat) (s : c18_script) {struct s} : option (list byte * c18_script) :=
  match n with
  | O => Some ([], s)
  | S _ =>
      match s with
      | [] => None
      | c :: t =>
          if Nat.leb (length c) n then
            match c18_read_full (n - length c) t with
            | Some (r, s') => Some (c ++ r, s')
            | None => None
            end
          else Some (firstn n c, skipn n c :: t)
      end
  end.

Definition c18_blen (b : byte) : nat := N.to_nat (b2n b).

(* ------------------------------------------------------------------------------------------ *)
(* 1. SOCKS5                                                                                   *)
(* ------------------------------------------------------------------------------------------ *)
Inductive c18_sev :=
| SReply (b : list byte)                              (* bytes written to the client *)
| SAuth (u p : list byte) (ok : bool)                 (* s.AuthFunc(u, p) returned ok *)
| STcp (atyp : byte) (addr port : list byte)          (* s.HyClient.TCP(req.Address()) *)
| SUdp                                                (* s.HyClient.UDP() *)
| SUdpReply                                           (* success reply carrying the relay's bind address *)
| SRelay (b : list byte)                              (* all bytes io.Copy moved client -> upstream *)
| SClose.                                             (* conn.Close() *)

Record c18_scfg := mkSCfg {
  sc_auth : option (list byte -> list byte -> bool);  (* Server.AuthFunc, nil = None *)
  sc_disable_udp : bool;
  sc_dial_ok : bool;          (* HyClient.TCP succeeds *)
  sc_bind_ok : bool;          (* the local UDP relay socket can be opened *)
  sc_udp_ok : bool }.         (* HyClient.UDP succeeds *)

Definition c18_rep (code : byte) : list byte := [x05; code; x00; x01; x00; x00; x00; x00; x00; x00].

(* negotiate: events written so far and, on success, the rest of the stream *)
Definition c18_negotiate (cfg : c18_scfg) (s : c18_script) : list c18_sev * option c18_script :=
  match c18_read_full 2 s with
  | None => ([], None)
  | Some (bb, s1) =>
      let ver := nth 0 bb x00 in
      let nm := nth 1 bb x00 in
      if negb (Byte.eqb ver x05) then ([], None)                       (* ErrVersion *)
      else if Byte.eqb nm x00 then ([], None)                          (* ErrBadRequest *)
      else
        match c18_read_full (c18_blen nm) s1 with
        | None => ([], None)
        | Some (ms, s2) =>
            let sm := match sc_auth cfg with Some _ => x02 | None => x00 end in
            if negb (existsb (Byte.eqb sm) ms) then ([SReply [x05; xff]], None)
            else
              match sc_auth cfg with
              | None => ([SReply [x05; x00]], Some s2)
              | Some f =>
                  let r0 := SReply [x05; x02] in
                  match c18_read_full 2 s2 with
                  | None => ([r0], None)
                  | Some (b2, s3) =>
                      let v := nth 0 b2 x00 in
                      let ul := nth 1 b2 x00 in
                      if negb (Byte.eqb v x01) then ([r0], None)       (* ErrUserPassVersion *)
                      else if Byte.eqb ul x00 then ([r0], None)
                      else
                        match c18_read_full (c18_blen ul + 1) s3 with
                        | None => ([r0], None)
                        | Some (ub, s4) =>
                            let pl := nth (c18_blen ul) ub x00 in
                            if Byte.eqb pl x00 then ([r0], None)
                            else
                              match c18_read_full (c18_blen pl) s4 with
                              | None => ([r0], None)
                              | Some (pw, s5) =>
                                  let u := firstn (c18_blen ul) ub in
                                  if f u pw
                                  then ([r0; SAuth u pw true; SReply [x01; x00]], Some s5)
                                  else ([r0; SAuth u pw false; SReply [x01; x01]], None)
                              end
                        end
                  end
              end
        end
  end.

(* the DST.ADDR part of socks5.NewRequestFrom, by address type *)
Definition c18_addr_read (atyp : byte) (s1 : c18_script) : option (list byte * c18_script) :=
  if Byte.eqb atyp x01 then c18_read_full 4 s1
  else if Byte.eqb atyp x04 then c18_read_full 16 s1
  else if Byte.eqb atyp x03 then
    match c18_read_full 1 s1 with
    | None => None
    | Some (dl, s2) =>
        let l := nth 0 dl x00 in
        if Byte.eqb l x00 then None else c18_read_full (c18_blen l) s2
    end
  else None.

(* socks5.NewRequestFrom: (cmd, atyp, addr-without-length-byte, port, rest) *)
Definition c18_request (s : c18_script) : option (byte * byte * list byte * list byte * c18_script) :=
  match c18_read_full 4 s with
  | None => None
  | Some (bb, s1) =>
      let ver := nth 0 bb x00 in
      let cmd := nth 1 bb x00 in
      let atyp := nth 3 bb x00 in
      if negb (Byte.eqb ver x05) then None
      else
        match c18_addr_read atyp s1 with
        | None => None
        | Some (addr, s3) =>
            match c18_read_full 2 s3 with
            | None => None
            | Some (port, s4) => Some (cmd, atyp, addr, port, s4)
            end
        end
  end.

Definition c18_socks (cfg : c18_scfg) (s : c18_script) : list c18_sev :=
  match c18_negotiate cfg s with
  | (ev, None) => ev ++ [SClose]
  | (ev, Some s1) =>
      match c18_request s1 with
      | None => ev ++ [SClose]
      | Some (cmd, atyp, addr, port, s2) =>
          if Byte.eqb cmd x01 then
            ev ++ [STcp atyp addr port] ++
            (if sc_dial_ok cfg then [SReply (c18_rep x00); SRelay (concat s2); SClose]
             else [SReply (c18_rep x04); SClose])
          else if Byte.eqb cmd x03 then
            if sc_disable_udp cfg then ev ++ [SReply (c18_rep x07); SClose]
            else if negb (sc_bind_ok cfg) then ev ++ [SReply (c18_rep x01); SClose]
            else if sc_udp_ok cfg then ev ++ [SUdp; SUdpReply; SClose]
            else ev ++ [SUdp; SReply (c18_rep x01); SClose]
          else ev ++ [SReply (c18_rep x07); SClose]
      end
  end.

Definition c18_s_upstream (e : c18_sev) : bool :=
  match e with STcp _ _ _ | SUdp => true | _ => false end.

(* ------------------------------------------------------------------------------------------ *)
(* 2. HTTP proxy                                                                               *)
(* ------------------------------------------------------------------------------------------ *)

(* a reader that serves a buffer first and then the connection:
     cachedConn (http/server.go)  : buffer = what bufio had read past the header block
     connWithOneByte (mux.go)     : buffer = the protocol-detection byte (bRead = buffer empty)
   Read(p), len p = n:
     cachedConn:       if Buffer.Len() > 0 { n, err := Buffer.Read(p); hide EOF } else Conn.Read(p)
     connWithOneByte:  if bRead { Conn.Read } else if len(p) == 0 { 0, nil } else { p[0] = b; bRead; 1, nil }
   Both: a non-empty buffer serves min(n, len) bytes ... except that connWithOneByte holds one byte, so
   the same definition covers it.  *)
Record c18_pre := mkPre { pr_buf : list byte; pr_conn : c18_script }.

Definition c18_pre_read (n : N) (r : c18_pre) : list byte * bool * c18_pre :=
  match pr_buf r with
  | _ :: _ =>
      if N.of_nat (length (pr_buf r)) <=? n then (pr_buf r, false, mkPre [] (pr_conn r))
      else (firstn (N.to_nat n) (pr_buf r), false, mkPre (skipn (N.to_nat n) (pr_buf r)) (pr_conn r))
  | [] => let '(b, eof, s') := c18_read n (pr_conn r) in (b, eof, mkPre [] s')
  end.

Definition c18_pre_remaining (r : c18_pre) : list byte := pr_buf r ++ concat (pr_conn r).

(* successive Read calls with the given buffer sizes; stops at EOF *)
Fixpoint c18_drain (sizes : list N) (r : c18_pre) : list byte * c18_pre :=
  match sizes with
  | [] => ([], r)
  | n :: t =>
      let '(b, eof, r1) := c18_pre_read n r in
      if eof then (b, r1)
      else let '(bs, r2) := c18_drain t r1 in (b ++ bs, r2)
  end.

(* io.Copy(upstream, conn): Read with a 32 KiB buffer until EOF; fuel = number of Read calls *)
Definition c18_copy_buf : N := 32768.
Fixpoint c18_copy (fuel : nat) (r : c18_pre) : list byte :=
  match fuel with
  | O => []
  | S f =>
      let '(b, eof, r1) := c18_pre_read c18_copy_buf r in
      if eof then b else b ++ c18_copy f r1
  end.
(* every Read with a non-empty buffer either takes bytes out of the prefix buffer, or takes the
   rest of / a 32 KiB piece of the head chunk *)
Definition c18_copy_fuel (r : c18_pre) : nat :=
  S (length (pr_buf r) + length (pr_conn r) + length (concat (pr_conn r))).
Definition c18_copy_all (r : c18_pre) : list byte := c18_copy (c18_copy_fuel r) r.

(* bufio.Reader in front of the connection while http.ReadRequest parses a header block that ends at
   stream offset h: fill() does one Read per call and is only called while the block is incomplete, so
   the reader holds every chunk up to and including the one carrying byte h-1.  (Buffer size 4096 is
   not reached by the modelled requests - an assumption of the tie, not of the theorems, which take
   the buffered part as an arbitrary input.) *)
Fixpoint c18_bufio_split (h : nat) (s : c18_script) {struct s} : option (list byte * c18_script) :=
  match h with
  | O => Some ([], s)
  | S _ =>
      match s with
      | [] => None
      | c :: t =>
          if Nat.leb h (length c) then Some (skipn h c, t)
          else c18_bufio_split (h - length c) t
      end
  end.

Definition c18_is_ows (c : byte) : bool := Byte.eqb c x20 || Byte.eqb c x09.
Fixpoint c18_triml (l : list byte) : list byte :=
  match l with c :: t => if c18_is_ows c then c18_triml t else l | [] => [] end.
Definition c18_trim (l : list byte) : list byte := rev (c18_triml (rev (c18_triml l))).

Definition c18_ascii_lower (c : byte) : byte :=
  let n := b2n c in if (65 <=? n) && (n <=? 90) then n2b (n + 32) else c.

(* strings.HasPrefix(strings.ToLower(v), pat) for an ASCII lower-case pattern: unicode.ToLower maps the
   ASCII letters and exactly one more code point (U+0130, UTF-8 c4 b0) into the pattern's alphabet
   (constant C18_lower_extra regenerated from the Go tables on every run). *)
Fixpoint c18_lower_prefix (pat v : list byte) : bool :=
  match pat with
  | [] => true
  | p :: pt =>
      match v with
      | [] => false
      | c :: vt =>
          if Byte.eqb (c18_ascii_lower c) p then c18_lower_prefix pt vt
          else if Byte.eqb p x69 then
            match v with
            | xc4 :: xb0 :: vt2 => c18_lower_prefix pt vt2
            | _ => false
            end
          else false
      end
  end.

Definition c18_basic_sp : list byte := [x62; x61; x73; x69; x63; x20].   (* "basic " *)

(* strings.SplitN(s, ":", 2) with len == 2 *)
Fixpoint c18_split_colon (l : list byte) : option (list byte * list byte) :=
  match l with
  | [] => None
  | c :: t =>
      if Byte.eqb c x3a then Some ([], t)
      else match c18_split_colon t with Some (u, p) => Some (c :: u, p) | None => None end
  end.

(* the credentials the server extracts from the raw header value (None = rejected before AuthFunc) *)
Definition c18_basic_creds (raw : option (list byte)) : option (list byte * list byte) :=
  match raw with
  | None => None
  | Some v0 =>
      let v := c18_trim v0 in
      if c18_lower_prefix c18_basic_sp v then
        match b64_decode (skipn 6 v) with        (* pAuth[6:] - a byte offset into the original value *)
        | Some up => c18_split_colon up
        | None => None
        end
      else None
  end.

Definition c18_auth_ok (f : list byte -> list byte -> bool) (raw : option (list byte)) : bool :=
  match c18_basic_creds raw with Some (u, p) => f u p | None => false end.

(* body framing the header block declares (Content-Length / Transfer-Encoding fields).  http.ReadRequest
   turns it into req.Body, a reader over the SAME bufio.Reader the pipelined bytes sit in: reading or
   closing req.Body consumes stream bytes.  dispatch never touches req.Body of a CONNECT, so the
   framing has no influence on c18_http_loop below; the field is carried so that the theorems and the
   differential check quantify over it (CONNECT with Content-Length 0 / n / more than what follows,
   chunked, both). *)
Inductive c18_framing := FrNone | FrLen (n : N) | FrChunked.

(* The request as http.ReadRequest hands it to dispatch.  net/http's parser is not modelled: its result
   is the model's input (the harness reports it for every request of every stream).

   The request-target comes in four forms (RFC 9112 3.2).  ReadRequest decides the form like this:
     method CONNECT and the target does not start with "/"   -> authority-form: parsed as "http://" ++ target,
                                                                scheme stripped again (URL.Scheme = "")
     otherwise url.ParseRequestURI(target):  "*"             -> asterisk-form (URL.Path = "*")
                                             "/..."          -> origin-form: no scheme, no authority - also
                                                                for "//host/path" and for CONNECT "/x"
                                             scheme ":" ...  -> absolute-form (URL.Scheme non-empty; URL.Host
                                                                may still be empty: "http:///x", "http:opaque")
   and req.Host = URL.Host, or the Host header field when URL.Host is empty.  dispatch does not look at the
   form; it is carried (hr_form, with the raw target hr_uri) so that the theorems quantify over it, and
   [c18_form_ok] states what the parser guarantees about the other fields per form - checked on every
   request the harness reports. *)
Inductive c18_form := FOrigin | FAsterisk | FAbsolute | FAuthority.

Record c18_hreq := mkHReq {
  hr_method : list byte;          (* req.Method *)
  hr_uri : list byte;             (* req.RequestURI, the request-target as sent *)
  hr_form : c18_form;             (* its form, as net/http determined it *)
  hr_scheme : list byte;          (* req.URL.Scheme *)
  hr_uhost : list byte;           (* req.URL.Host *)
  hr_host : list byte;            (* req.Host *)
  hr_pauth : option (list byte);  (* raw Proxy-Authorization value as sent *)
  hr_keepalive : bool;            (* plain request: HTTP/1.1 and (Proxy-)Connection: keep-alive *)
  hr_status : N;                  (* plain request: status the upstream answers with *)
  hr_framing : c18_framing }.     (* declared body framing (CONNECT: ignored by the code) *)

Definition c18_set_framing (fr : c18_framing) (r : c18_hreq) : c18_hreq :=
  mkHReq (hr_method r) (hr_uri r) (hr_form r) (hr_scheme r) (hr_uhost r) (hr_host r) (hr_pauth r)
         (hr_keepalive r) (hr_status r) fr.

Fixpoint c18_beq (a b : list byte) : bool :=
  match a, b with
  | [], [] => true
  | x :: s, y :: t => Byte.eqb x y && c18_beq s t
  | _, _ => false
  end.
Definition c18_is_nil (a : list byte) : bool := match a with [] => true | _ => false end.

Definition c18_s_connect : list byte := [x43; x4f; x4e; x4e; x45; x43; x54].   (* "CONNECT" *)
Definition c18_s_http : list byte := [x68; x74; x74; x70].                     (* "http" *)
Definition c18_s_https : list byte := [x68; x74; x74; x70; x73].               (* "https" *)
Definition c18_s_80 : list byte := [x38; x30].                                 (* "80" *)
Definition c18_s_443 : list byte := [x34; x34; x33].                           (* "443" *)

(* req.Method == http.MethodConnect *)
Definition c18_is_connect (r : c18_hreq) : bool := c18_beq (hr_method r) c18_s_connect.

(* the form ReadRequest gives a (method, request-target) pair *)
Definition c18_classify (method uri : list byte) : c18_form :=
  if c18_beq method c18_s_connect then
    match uri with x2f :: _ => FOrigin | _ => FAuthority end
  else
    match uri with
    | [x2a] => FAsterisk
    | x2f :: _ => FOrigin
    | _ => FAbsolute
    end.

Definition c18_form_eqb (a b : c18_form) : bool :=
  match a, b with
  | FOrigin, FOrigin | FAsterisk, FAsterisk | FAbsolute, FAbsolute | FAuthority, FAuthority => true
  | _, _ => false
  end.

(* what the parser guarantees: origin-/asterisk-form carry neither scheme nor authority; authority-form
   has no scheme; absolute-form has one; req.Host is URL.Host whenever that is non-empty *)
Definition c18_form_ok (r : c18_hreq) : bool :=
  c18_form_eqb (hr_form r) (c18_classify (hr_method r) (hr_uri r)) &&
  match hr_form r with
  | FOrigin | FAsterisk => c18_is_nil (hr_scheme r) && c18_is_nil (hr_uhost r)
  | FAuthority => c18_is_nil (hr_scheme r)
  | FAbsolute => negb (c18_is_nil (hr_scheme r))
  end &&
  (c18_is_nil (hr_uhost r) || c18_beq (hr_host r) (hr_uhost r)).

(* ---- host:port helpers of net/url and net, as the handlers use them ---- *)
Fixpoint c18_index (c : byte) (l : list byte) : option nat :=
  match l with
  | [] => None
  | x :: t => if Byte.eqb x c then Some O else option_map S (c18_index c t)
  end.
Fixpoint c18_last_index (c : byte) (l : list byte) : option nat :=
  match l with
  | [] => None
  | x :: t =>
      match c18_last_index c t with
      | Some i => Some (S i)
      | None => if Byte.eqb x c then Some O else None
      end
  end.
Definition c18_has (c : byte) (l : list byte) : bool := existsb (Byte.eqb c) l.
Definition c18_is_digit (b : byte) : bool := (48 <=? b2n b) && (b2n b <=? 57).

(* net/url validOptionalPort: "" or ":" followed by digits only *)
Definition c18_valid_opt_port (p : list byte) : bool :=
  match p with [] => true | c :: t => Byte.eqb c x3a && forallb c18_is_digit t end.

(* net/url splitHostPort = (URL.Hostname(), URL.Port()) of URL.Host: split at the last ':' if what follows
   is an optional port; then strip one pair of square brackets *)
Definition c18_url_split (hp : list byte) : list byte * list byte :=
  let '(host, port) :=
    match c18_last_index x3a hp with
    | Some i => if c18_valid_opt_port (skipn i hp) then (firstn i hp, skipn (S i) hp) else (hp, [])
    | None => (hp, [])
    end in
  match host with
  | x5b :: t => if Byte.eqb (last host x00) x5d then (removelast t, port) else (host, port)
  | _ => (host, port)
  end.
Definition c18_url_hostname (hp : list byte) : list byte := fst (c18_url_split hp).
Definition c18_url_port (hp : list byte) : list byte := snd (c18_url_split hp).

(* net.JoinHostPort: brackets when the host contains a colon *)
Definition c18_join_host_port (h p : list byte) : list byte :=
  if c18_has x3a h then [x5b] ++ h ++ [x5d; x3a] ++ p else h ++ [x3a] ++ p.

(* net.SplitHostPort (None = any of its errors) *)
Definition c18_net_split (hp : list byte) : option (list byte * list byte) :=
  match c18_last_index x3a hp with
  | None => None                                                      (* missing port *)
  | Some i =>
      match hp with
      | x5b :: _ =>
          match c18_index x5d hp with
          | None => None                                              (* missing ']' *)
          | Some e =>
              if Nat.eqb (S e) (length hp) then None                  (* missing port *)
              else if Nat.eqb (S e) i then
                if c18_has x5b (skipn 1 hp) then None                 (* unexpected '[' *)
                else if c18_has x5d (skipn (S e) hp) then None        (* unexpected ']' *)
                else Some (firstn (e - 1) (skipn 1 hp), skipn (S i) hp)
              else None                                               (* too many colons / missing port *)
          end
      | _ =>
          if c18_has x3a (firstn i hp) then None                      (* too many colons *)
          else if c18_has x5b hp then None
          else if c18_has x5d hp then None
          else Some (firstn i hp, skipn (S i) hp)
      end
  end.

(* handleConnect:  port := req.URL.Port(); if port == "" { port = "80" }
                   reqAddr := net.JoinHostPort(req.URL.Hostname(), port)
   - for EVERY URL.Host, the empty one included (CONNECT "/x", CONNECT "" and CONNECT "?q" dial ":80") *)
Definition c18_connect_addr (r : c18_hreq) : list byte :=
  let port := c18_url_port (hr_uhost r) in
  c18_join_host_port (c18_url_hostname (hr_uhost r)) (if c18_is_nil port then c18_s_80 else port).

(* removeExtraHTTPHostPort: the host handleRequest leaves in req.Host and req.URL.Host *)
Definition c18_plain_host (r : c18_hreq) : list byte :=
  let host := if c18_is_nil (hr_host r) then hr_uhost r else hr_host r in
  match c18_net_split host with
  | Some (h, p) => if c18_beq p c18_s_80 then h else host
  | None => host
  end.

(* net/http Transport canonicalAddr of the rewritten URL (ASCII hosts: idnaASCII is the identity) *)
Definition c18_canonical_addr (scheme host : list byte) : list byte :=
  let port := c18_url_port host in
  c18_join_host_port (c18_url_hostname host)
    (if c18_is_nil port then (if c18_beq scheme c18_s_https then c18_s_443 else c18_s_80) else port).

(* What a variant of dispatch that closes (or reads) req.Body of a CONNECT before the hand-over would
   do to the reader: net/http's body.Close on a Content-Length n body reads and discards up to n bytes
   - first what bufio holds, then from the connection.  Not called by c18_http_loop (the code as it is
   does not do this); props/C18.v states what it would break. *)
Fixpoint c18_script_discard (k : nat) (s : c18_script) : c18_script :=
  match s with
  | [] => []
  | c :: t => if Nat.leb k (length c) then skipn k c :: t else c18_script_discard (k - length c) t
  end.
Definition c18_pre_discard (k : nat) (r : c18_pre) : c18_pre :=
  if Nat.leb k (length (pr_buf r)) then mkPre (skipn k (pr_buf r)) (pr_conn r)
  else mkPre [] (c18_script_discard (k - length (pr_buf r)) (pr_conn r)).

Inductive c18_hev :=
| HAuth (u p : list byte) (ok : bool)
| HReply (status : N)
| HTcp (addr : list byte)
| HRelay (b : list byte)
| HClose.

Record c18_hcfg := mkHCfg {
  hc_auth : option (list byte -> list byte -> bool);
  hc_dial_ok : bool }.

Definition c18_h_authev (cfg : c18_hcfg) (r : c18_hreq) : list c18_hev * bool :=
  match hc_auth cfg with
  | None => ([], true)
  | Some f =>
      match c18_basic_creds (hr_pauth r) with
      | Some (u, p) => ([HAuth u p (f u p)], f u p)
      | None => ([], false)
      end
  end.

(* handleConnect(conn, req): dial, 200 / 502, relay until the client closes.  It never returns to the loop. *)
Definition c18_handle_connect (cfg : c18_hcfg) (r : c18_hreq) (tail : c18_pre) : list c18_hev :=
  HTcp (c18_connect_addr r) ::
  (if hc_dial_ok cfg then [HReply 200; HRelay (c18_copy_all tail); HClose] else [HReply 502; HClose]).

(* handleRequest(conn, req): events and the keep-alive result.
     removeExtraHTTPHostPort(req)
     if req.URL.Scheme == "" || req.URL.Host == "" { 400; return false }      - origin-form, asterisk-form, and
                                                                                 absolute-form without any host
     resp, err := s.httpClient.Do(req); err != nil -> 502, false
   http.Client / Transport: a scheme other than http / https is refused before any dial; otherwise one dial
   to canonicalAddr(req.URL).  The scripted upstream answers a forwarded request with hr_status and
   Connection: close; it does not speak TLS, so an https:// exchange fails after the dial. *)
Definition c18_handle_request (cfg : c18_hcfg) (r : c18_hreq) : list c18_hev * bool :=
  let host := c18_plain_host r in
  if c18_is_nil (hr_scheme r) || c18_is_nil host then ([HReply 400], false)
  else if c18_beq (hr_scheme r) c18_s_http || c18_beq (hr_scheme r) c18_s_https then
    let addr := c18_canonical_addr (hr_scheme r) host in
    if negb (hc_dial_ok cfg) then ([HTcp addr; HReply 502], false)
    else if c18_beq (hr_scheme r) c18_s_https then ([HTcp addr; HReply 502], false)
    else ([HTcp addr; HReply (hr_status r)], hr_keepalive r)
  else ([HReply 502], false).

(* one turn of dispatch's for-loop on a request ReadRequest returned: the events, and whether the loop
   goes on to the next request.  [gated r] = whether the credential check is applied to this request:
   the code applies it to EVERY request ([c18_gate_all]); the argument exists only so that
   props/C18.v can state what an exemption by request-target form would break. *)
Definition c18_http_one (gated : c18_hreq -> bool) (cfg : c18_hcfg) (r : c18_hreq) (tail : c18_pre)
  : list c18_hev * bool :=
  let '(aev, ok) := if gated r then c18_h_authev cfg r else ([], true) in
  if negb ok then (aev ++ [HReply 407; HClose], false)
  else if c18_is_connect r then (aev ++ c18_handle_connect cfg r tail, false)
  else
    let '(ev, ka) := c18_handle_request cfg r in
    (aev ++ ev ++ (if ka then [] else [HClose]), ka).

(* the for-loop of dispatch over the requests http.ReadRequest yields; [tail] is the reader handed to
   handleConnect (buffered bytes, then the connection) *)
Fixpoint c18_http_loop_g (gated : c18_hreq -> bool) (cfg : c18_hcfg) (reqs : list c18_hreq) (tail : c18_pre)
  : list c18_hev :=
  match reqs with
  | [] => [HClose]                                   (* ReadRequest error (EOF, malformed request) *)
  | r :: t =>
      let '(ev, go_on) := c18_http_one gated cfg r tail in
      if go_on then ev ++ c18_http_loop_g gated cfg t tail else ev
  end.

Definition c18_gate_all (r : c18_hreq) : bool := true.
Definition c18_http_loop := c18_http_loop_g c18_gate_all.

(* whole connection: header blocks occupy the first h bytes of the stream *)
Definition c18_http (cfg : c18_hcfg) (reqs : list c18_hreq) (h : nat) (s : c18_script) : list c18_hev :=
  match c18_bufio_split h s with
  | Some (buffered, rest) => c18_http_loop cfg reqs (mkPre buffered rest)
  | None => [HClose]
  end.

Definition c18_h_upstream (e : c18_hev) : bool := match e with HTcp _ => true | _ => false end.

(* ------------------------------------------------------------------------------------------ *)
(* 3. the shared port (proxymux)                                                               *)
(* ------------------------------------------------------------------------------------------ *)
Record c18_sub := mkSub {
  sb_closed : bool;      (* closeChan closed (subListener.Close) *)
  sb_upclosed : bool;    (* acceptChan closed by mainLoop's deferred cleanup *)
  sb_waiting : nat;      (* Accept calls blocked in the select *)
  sb_errs : nat }.       (* Accept calls that returned an error *)

Inductive c18_cst :=
| CHeld                              (* returned by base.Accept, acceptLoop has not passed it on *)
| CDisp                              (* dispatch started, blocked in io.ReadFull for the first byte *)
| CByte (b : byte)                   (* first byte read, routing not yet done *)
| CSel (b : byte) (s : nat)          (* target chosen under the lock, blocked in the final select *)
| CHanded (b : byte) (s : nat)       (* sent on target.acceptChan = returned by that Accept *)
| CClosed                            (* conn.Close() called by the mux *)
| CDropped                           (* (old code only) acceptLoop returned on closeChan without closing it *)
| CLeaked                            (* (old code only) dispatch returned on target.closeChan without closing *)
| CPanic.                            (* dispatch: send on closed channel *)

Inductive c18_ml :=
| MLTop                              (* top of the for-loop *)
| MLSel (sc hc : option nat)         (* blocked in select with these close channels captured *)
| MLCheck                            (* after the sub-listener-closed case, before checkIdle *)
| MLExit0                            (* decided to return; deferred function not started *)
| MLExit1                            (* deleteFunc, base.Close, close(closeChan) done; lock not yet taken *)
| MLDone
| MLPanic.                           (* nil dereference of l.socksListener / l.httpListener *)

Inductive c18_al := ALAccept | ALHold (c : nat) | ALDone.

Record c18_ms := mkMS {
  m_socks : option nat; m_http : option nat;
  m_subs : list c18_sub;             (* index = sub-listener id, in creation order *)
  m_conns : list c18_cst;            (* index = connection id, in base.Accept order *)
  m_ml : c18_ml; m_al : c18_al;
  m_closed : bool;                   (* l.closeChan closed *)
  m_base_closed : bool;
  m_deleted : bool;                  (* deleteFunc ran: manager.go removed this listener from its map *)
  m_dying : bool }.                  (* l.dying: checkIdle() decided that mainLoop exits *)

Definition c18_m_init : c18_ms := mkMS None None [] [] MLTop ALAccept false false false false.

(* which revision of mux.go: [true, true, true] is the code as it is now; each flag switched off gives
   the code before one repair (kept for the refuted statements):
     v_f5  dispatch closes the connection when it sees target.closeChan            (commit 7856472)
     v_d1  acceptLoop closes the connection it holds when it sees l.closeChan      (commit 2cea45c)
     v_d2  checkIdle sets l.dying; ListenSOCKS/ListenHTTP refuse when l.dying      (commit c413452) *)
Record c18_ver := mkVer { v_f5 : bool; v_d1 : bool; v_d2 : bool }.
Definition c18_now : c18_ver := mkVer true true true.

Inductive c18_lres := LOk (s : nat) | LInUse | LClosed.
Inductive c18_out := ONone | OListen (r : c18_lres).

Inductive c18_act :=
(* environment *)
| AListen (socks : bool)
| ASubClose (s : nat)
| ASubAccept (s : nat)
| AIncoming
| AFirstByte (c : nat) (b : byte)
| AReadErr (c : nat)
(* the code's own atomic sections *)
| AForward | AAlDrop | AAlErr
| AMlSnap | AMlSeeClose (socks : bool) | AMlCheck | AMlExitA | AMlExitB
| ASelect (c : nat)
| AHandoff (c : nat)
| ASeesSubClosed (c : nat)
| AAcceptErr (s : nat)
| ASendPanic (c : nat).

Fixpoint c18_upd {A} (i : nat) (x : A) (l : list A) : list A :=
  match l, i with
  | [], _ => []
  | _ :: t, O => x :: t
  | h :: t, S j => h :: c18_upd j x t
  end.

Definition c18_sub0 : c18_sub := mkSub false false 0 0.
Definition c18_get_sub (m : c18_ms) (s : nat) : option c18_sub := nth_error (m_subs m) s.
Definition c18_get_conn (m : c18_ms) (c : nat) : option c18_cst := nth_error (m_conns m) c.

Definition c18_set_conn (m : c18_ms) (c : nat) (x : c18_cst) : c18_ms :=
  mkMS (m_socks m) (m_http m) (m_subs m) (c18_upd c x (m_conns m)) (m_ml m) (m_al m)
       (m_closed m) (m_base_closed m) (m_deleted m) (m_dying m).
Definition c18_set_sub (m : c18_ms) (s : nat) (x : c18_sub) : c18_ms :=
  mkMS (m_socks m) (m_http m) (c18_upd s x (m_subs m)) (m_conns m) (m_ml m) (m_al m)
       (m_closed m) (m_base_closed m) (m_deleted m) (m_dying m).
Definition c18_set_ml (m : c18_ms) (x : c18_ml) : c18_ms :=
  mkMS (m_socks m) (m_http m) (m_subs m) (m_conns m) x (m_al m)
       (m_closed m) (m_base_closed m) (m_deleted m) (m_dying m).
Definition c18_set_al (m : c18_ms) (x : c18_al) : c18_ms :=
  mkMS (m_socks m) (m_http m) (m_subs m) (m_conns m) (m_ml m) x
       (m_closed m) (m_base_closed m) (m_deleted m) (m_dying m).
Definition c18_set_slot (m : c18_ms) (socks : bool) (x : option nat) : c18_ms :=
  mkMS (if socks then x else m_socks m) (if socks then m_http m else x) (m_subs m) (m_conns m)
       (m_ml m) (m_al m) (m_closed m) (m_base_closed m) (m_deleted m) (m_dying m).
Definition c18_slot (m : c18_ms) (socks : bool) : option nat := if socks then m_socks m else m_http m.

(* dispatch's routing rule *)
Definition c18_is_socks (b : byte) : bool := Byte.eqb b x05.

(* dispatch's peek at the connection:  var b [1]byte; io.ReadFull(conn, b[:])  over the connection's
   script (zero-length reads included): the detection byte and what is left of the script for the
   wrapper; None = the read failed (the connection is closed).  AFirstByte c b / AReadErr c of the LTS
   are the two outcomes of this call. *)
Definition c18_mux_peek (s : c18_script) : option (byte * c18_script) :=
  match c18_read_full 1 s with
  | Some ([b], s') => Some (b, s')
  | _ => None
  end.

Definition c18_sub_is_closed (m : c18_ms) (s : nat) : bool :=
  match c18_get_sub m s with Some x => sb_closed x | None => false end.

(* mainLoop's deferred cleanup for one slot: close(sl.acceptChan); slot = nil *)
Definition c18_upclose_slot (m : c18_ms) (socks : bool) : c18_ms :=
  match c18_slot m socks with
  | None => m
  | Some s =>
      match c18_get_sub m s with
      | Some x => c18_set_slot (c18_set_sub m s (mkSub (sb_closed x) true (sb_waiting x) (sb_errs x))) socks None
      | None => c18_set_slot m socks None
      end
  end.

Definition c18_mstep (v : c18_ver) (m : c18_ms) (a : c18_act) : option (c18_ms * c18_out) :=
  match a with
  | AListen socks =>
      (* ListenSOCKS / ListenHTTP, one critical section *)
      let go (m1 : c18_ms) :=
        if v_d2 v && m_dying m1 then Some (m1, OListen LClosed)
        else if m_closed m1 then Some (m1, OListen LClosed)
        else
          let n := length (m_subs m1) in
          let m2 := mkMS (m_socks m1) (m_http m1) (m_subs m1 ++ [c18_sub0]) (m_conns m1) (m_ml m1)
                         (m_al m1) (m_closed m1) (m_base_closed m1) (m_deleted m1) (m_dying m1) in
          Some (c18_set_slot m2 socks (Some n), OListen (LOk n)) in
      match c18_slot m socks with
      | Some s => if c18_sub_is_closed m s then go (c18_set_slot m socks None)   (* pending closed: replace *)
                  else Some (m, OListen LInUse)
      | None => go m
      end
  | ASubClose s =>
      match c18_get_sub m s with
      | Some x => Some (c18_set_sub m s (mkSub true (sb_upclosed x) (sb_waiting x) (sb_errs x)), ONone)
      | None => None
      end
  | ASubAccept s =>
      match c18_get_sub m s with
      | Some x => Some (c18_set_sub m s (mkSub (sb_closed x) (sb_upclosed x) (S (sb_waiting x)) (sb_errs x)), ONone)
      | None => None
      end
  | AIncoming =>
      match m_al m with
      | ALAccept =>
          if m_base_closed m then None
          else
            let c := length (m_conns m) in
            Some (mkMS (m_socks m) (m_http m) (m_subs m) (m_conns m ++ [CHeld]) (m_ml m) (ALHold c)
                       (m_closed m) (m_base_closed m) (m_deleted m) (m_dying m), ONone)
      | _ => None
      end
  | AFirstByte c b =>
      match c18_get_conn m c with
      | Some CDisp => Some (c18_set_conn m c (CByte b), ONone)
      | _ => None
      end
  | AReadErr c =>
      match c18_get_conn m c with
      | Some CDisp => Some (c18_set_conn m c CClosed, ONone)
      | _ => None
      end
  | AForward =>
      (* acceptLoop's send meets mainLoop's receive; mainLoop starts dispatch and loops *)
      match m_al m, m_ml m, (match m_al m with ALHold c => c18_get_conn m c | _ => None end) with
      | ALHold c, MLSel _ _, Some CHeld =>
          Some (c18_set_ml (c18_set_al (c18_set_conn m c CDisp) ALAccept) MLTop, ONone)
      | _, _, _ => None
      end
  | AAlDrop =>
      (* acceptLoop: case <-l.closeChan: conn.Close(); return   (before 2cea45c: return without Close) *)
      match m_al m, (match m_al m with ALHold c => c18_get_conn m c | _ => None end) with
      | ALHold c, Some CHeld =>
          if m_closed m
          then Some (c18_set_al (c18_set_conn m c (if v_d1 v then CClosed else CDropped)) ALDone, ONone)
          else None
      | _, _ => None
      end
  | AAlErr =>
      match m_al m with
      | ALAccept => if m_base_closed m then Some (c18_set_al m ALDone, ONone) else None
      | _ => None
      end
  | AMlSnap =>
      match m_ml m with
      | MLTop => Some (c18_set_ml m (MLSel (m_socks m) (m_http m)), ONone)
      | _ => None
      end
  | AMlSeeClose socks =>
      match m_ml m with
      | MLSel sc hc =>
          match (if socks then sc else hc) with
          | Some s =>
              if c18_sub_is_closed m s then
                match c18_slot m socks with
                | Some s' =>
                    let m1 := if Nat.eqb s s' then c18_set_slot m socks None else m in
                    Some (c18_set_ml m1 MLCheck, ONone)
                | None => Some (c18_set_ml m MLPanic, ONone)
                end
              else None
          | None => None
          end
      | _ => None
      end
  | AMlCheck =>
      match m_ml m with
      | MLCheck =>
          match m_socks m, m_http m with
          | None, None =>
              Some (mkMS (m_socks m) (m_http m) (m_subs m) (m_conns m) MLExit0 (m_al m) (m_closed m)
                         (m_base_closed m) (m_deleted m) (v_d2 v), ONone)
          | _, _ => Some (c18_set_ml m MLTop, ONone)
          end
      | _ => None
      end
  | AMlExitA =>
      match m_ml m with
      | MLExit0 => Some (mkMS (m_socks m) (m_http m) (m_subs m) (m_conns m) MLExit1 (m_al m) true true true
                              (m_dying m), ONone)
      | _ => None
      end
  | AMlExitB =>
      match m_ml m with
      | MLExit1 => Some (c18_set_ml (c18_upclose_slot (c18_upclose_slot m false) true) MLDone, ONone)
      | _ => None
      end
  | ASelect c =>
      match c18_get_conn m c with
      | Some (CByte b) =>
          match c18_slot m (c18_is_socks b) with
          | Some s => Some (c18_set_conn m c (CSel b s), ONone)
          | None => Some (c18_set_conn m c CClosed, ONone)
          end
      | _ => None
      end
  | AHandoff c =>
      match c18_get_conn m c with
      | Some (CSel b s) =>
          match c18_get_sub m s with
          | Some x =>
              match sb_waiting x with
              | S w => if sb_upclosed x then None
                       else Some (c18_set_conn (c18_set_sub m s (mkSub (sb_closed x) false w (sb_errs x))) c
                                               (CHanded b s), ONone)
              | O => None
              end
          | None => None
          end
      | _ => None
      end
  | ASeesSubClosed c =>
      match c18_get_conn m c with
      | Some (CSel b s) =>
          if c18_sub_is_closed m s
          then Some (c18_set_conn m c (if v_f5 v then CClosed else CLeaked), ONone)
          else None
      | _ => None
      end
  | AAcceptErr s =>
      match c18_get_sub m s with
      | Some x =>
          match sb_waiting x with
          | S w => if sb_closed x || sb_upclosed x
                   then Some (c18_set_sub m s (mkSub (sb_closed x) (sb_upclosed x) w (S (sb_errs x))), ONone)
                   else None
          | O => None
          end
      | None => None
      end
  | ASendPanic c =>
      match c18_get_conn m c with
      | Some (CSel b s) =>
          match c18_get_sub m s with
          | Some x => if sb_upclosed x then Some (c18_set_conn m c CPanic, ONone) else None
          | None => None
          end
      | _ => None
      end
  end.

Fixpoint c18_mrun (v : c18_ver) (m : c18_ms) (acts : list c18_act) : option c18_ms :=
  match acts with
  | [] => Some m
  | a :: t => match c18_mstep v m a with Some (m1, _) => c18_mrun v m1 t | None => None end
  end.

(* the connection has left dispatch() *)
Definition c18_c_terminal (x : c18_cst) : bool :=
  match x with CHanded _ _ | CClosed | CLeaked | CPanic | CDropped => true | _ => false end.
Definition c18_c_good_end (x : c18_cst) : bool :=
  match x with CHanded _ _ | CClosed => true | _ => false end.
