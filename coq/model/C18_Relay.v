(* C18 model, relay phase of the local inbounds.
     app/internal/socks5/server.go  handleTCP      and
     app/internal/http/server.go    handleConnect  (behind dispatch's cachedConn / the mux's connWithOneByte)
   both end in

       copyErrChan := make(chan error, 2)
       go func() { _, err := io.Copy(rConn, conn); copyErrChan <- err }()      direction DUp
       go func() { _, err := io.Copy(conn, rConn); copyErrChan <- err }()      direction DDown
       closeErr = <-copyErrChan                                                 then the deferred Close calls

   On conns that are not kernel sockets io.Copy runs its generic loop, each call with a buffer of its own:

       buf := make([]byte, 32*1024)
       for {
         nr, er := src.Read(buf)                       RlRead d (len buf) c er     c = buf[0:nr] as stored by Read
         if nr > 0 {
           nw, ew := dst.Write(buf[0:nr])              RlWrite d c nw ew           c = what Write saw in buf[0:nr]
           ... nw < 0 || nr < nw: errInvalidWrite; ew != nil: ew; nr != nw: ErrShortWrite
         }
         if er != nil { if er != EOF { err = er }; break }
       }

   The model is a labelled transition system over these boundary actions with the BUFFERS explicit: a Read
   stores its bytes into the loop's buffer, a Write hands out what the buffer holds when the Write looks at
   it.  The two loops are interleaved arbitrarily; what Read / Write return is the environment's choice (any
   chunking, zero-length reads, data together with an error, refused Writes).  Two variants exist only to be
   refuted (props/C18.v): [shared = true], one buffer used by both loops, and [KErrFirst], a hand-written
   loop that tests the Read error before it forwards the bytes.  Definitions only. *)
From Hy Require Import lib.Bytes.
From Coq Require Import List NArith ZArith Bool.
Import ListNotations.
Local Open Scope N_scope.

Fixpoint rl_beqb (a b : list byte) : bool :=
  match a, b with
  | [], [] => true
  | x :: a', y :: b' => Byte.eqb x y && rl_beqb a' b'
  | _, _ => false
  end.

Inductive rdir := DUp      (* local client -> upstream *)
                | DDown.   (* upstream -> local client *)
(* error value of the environment's Read / Write: nil, io.EOF, anything else *)
Inductive rerr := RN | REOF | RE.
(* what a loop reports on copyErrChan: nil, the environment's error, io.ErrShortWrite, errInvalidWrite *)
Inductive rret := TNil | TErr | TShort | TInvalid.

Inductive rl_kind := KIoCopy | KErrFirst.

Inductive rl_pc :=
| PcRead                           (* at src.Read(buf) *)
| PcWrite (n : nat) (er : rerr)    (* Read returned (n > 0, er): at dst.Write(buf[0:n]) *)
| PcRet (e : rret)                 (* loop left: the value for copyErrChan *)
| PcPanic.                         (* buf[0:n] with n > len(buf) *)

Inductive rl_act :=
| RlRead (d : rdir) (bl : N) (c : list byte) (er : rerr)
| RlWrite (d : rdir) (c : list byte) (nw : Z) (ew : rerr)
| RlClose.                         (* the parent has received from copyErrChan and closes a conn *)

Record rl_st := mkRl { rl_bufU : list byte; rl_bufD : list byte; rl_pcU : rl_pc; rl_pcD : rl_pc }.

Definition rl_init : rl_st := mkRl [] [] PcRead PcRead.

Definition rl_pc_of (d : rdir) (s : rl_st) : rl_pc := match d with DUp => rl_pcU s | DDown => rl_pcD s end.
Definition rl_set_pc (d : rdir) (s : rl_st) (p : rl_pc) : rl_st :=
  match d with
  | DUp => mkRl (rl_bufU s) (rl_bufD s) p (rl_pcD s)
  | DDown => mkRl (rl_bufU s) (rl_bufD s) (rl_pcU s) p
  end.

(* the buffer direction d works on: its own one, or - shared - the one and only *)
Definition rl_buf_of (shared : bool) (d : rdir) (s : rl_st) : list byte :=
  if shared then rl_bufU s else match d with DUp => rl_bufU s | DDown => rl_bufD s end.
Definition rl_set_buf (shared : bool) (d : rdir) (s : rl_st) (b : list byte) : rl_st :=
  if shared then mkRl b (rl_bufD s) (rl_pcU s) (rl_pcD s)
  else match d with
       | DUp => mkRl b (rl_bufD s) (rl_pcU s) (rl_pcD s)
       | DDown => mkRl (rl_bufU s) b (rl_pcU s) (rl_pcD s)
       end.

(* Read stores c at buf[0:len c]; the rest of the buffer keeps what it held *)
Definition rl_overwrite (c buf : list byte) : list byte := c ++ skipn (length c) buf.

(* the `if er != nil` tail of the loop body *)
Definition rl_after (er : rerr) : rl_pc :=
  match er with RN => PcRead | REOF => PcRet TNil | RE => PcRet TErr end.

Definition rl_is_ret (p : rl_pc) : bool := match p with PcRet _ => true | _ => false end.

Definition rl_step (k : rl_kind) (shared : bool) (s : rl_st) (a : rl_act) : option rl_st :=
  match a with
  | RlRead d bl c er =>
      match rl_pc_of d s with
      | PcRead =>
          if bl <? N.of_nat (length c) then Some (rl_set_pc d s PcPanic)
          else
            let s1 := rl_set_buf shared d s (rl_overwrite c (rl_buf_of shared d s)) in
            Some (rl_set_pc d s1
                    (match c with
                     | [] => rl_after er
                     | _ => match k with
                            | KIoCopy => PcWrite (length c) er
                            | KErrFirst => match er with RN => PcWrite (length c) RN | _ => rl_after er end
                            end
                     end))
      | _ => None
      end
  | RlWrite d c nw ew =>
      match rl_pc_of d s with
      | PcWrite n er =>
          if rl_beqb c (firstn n (rl_buf_of shared d s)) then
            let nr := Z.of_nat n in
            let bad := ((nw <? 0) || (nr <? nw))%Z in
            Some (rl_set_pc d s
                    (match ew with
                     | RN => if bad then PcRet TInvalid
                             else if (nr =? nw)%Z then rl_after er else PcRet TShort
                     | _ => PcRet TErr
                     end))
          else None
      | _ => None
      end
  | RlClose =>
      (* closeErr = <-copyErrChan: a loop has sent, i.e. has left its loop *)
      if rl_is_ret (rl_pcU s) || rl_is_ret (rl_pcD s) then Some s else None
  end.

Fixpoint rl_run (k : rl_kind) (shared : bool) (s : rl_st) (tr : list rl_act) : option rl_st :=
  match tr with
  | [] => Some s
  | a :: t => match rl_step k shared s a with Some s' => rl_run k shared s' t | None => None end
  end.

(* ---- what a trace says *)
Definition rdir_eqb (a b : rdir) : bool := match a, b with DUp, DUp | DDown, DDown => true | _, _ => false end.

Definition rl_dir (a : rl_act) : option rdir :=
  match a with RlRead d _ _ _ => Some d | RlWrite d _ _ _ => Some d | RlClose => None end.
Definition rl_is_dir (d : rdir) (a : rl_act) : bool :=
  match rl_dir a with Some d' => rdir_eqb d d' | None => false end.

(* bytes the source of direction d handed out; bytes its sink accepted *)
Definition rl_wrote (c : list byte) (nw : Z) : list byte := firstn (Z.to_nat nw) c.
Definition rl_src (d : rdir) (tr : list rl_act) : list byte :=
  flat_map (fun a => match a with RlRead d' _ c _ => if rdir_eqb d d' then c else [] | _ => [] end) tr.
Definition rl_snk (d : rdir) (tr : list rl_act) : list byte :=
  flat_map (fun a => match a with RlWrite d' c nw _ => if rdir_eqb d d' then rl_wrote c nw else [] | _ => [] end) tr.

(* the last action of direction d *)
Fixpoint rl_last (d : rdir) (tr : list rl_act) (acc : option rl_act) : option rl_act :=
  match tr with
  | [] => acc
  | a :: t => rl_last d t (if rl_is_dir d a then Some a else acc)
  end.
