(* C18 - what the mux replay of corr/C18_Corr.v ([replay]) accepts, stated against the mux LTS
   (model/C18_Inbounds.v c18_mstep).  Definitions only; soundness is proved in proof/C18_Replay.v.

   A recorded history is a list of stimuli.  The harness applies one stimulus to the real mux, and at
   a StWait waits for quiescence and records which parked connections were handed to which Accept
   (the only choice the scheduler makes that the log can see), the state of every connection, the
   error / waiting counters of every sub-listener and whether the base listener is closed.
   [stim_acts] is the list of VISIBLE actions a history claims (the environment's actions and the
   rendezvous AHandoff); every other action of the LTS is one of the code's own atomic sections and
   is inserted by the replay ([settle]). *)
From Hy Require Import lib.Harness model.C18_Inbounds corr.C18_Corr.
From Coq Require Import ZArith.

Definition c18_visible (a : c18_act) : bool :=
  match a with
  | AListen _ | ASubClose _ | ASubAccept _ | AIncoming | AFirstByte _ _ | AReadErr _ | AHandoff _ => true
  | _ => false
  end.

Definition stim_acts1 (st : stim) : list c18_act :=
  match st with
  | StListen socks _ => [AListen socks]
  | StSubClose s => [ASubClose s]
  | StSubAccept s => [ASubAccept s]
  | StIncoming => [AIncoming]
  | StRefused => []
  | StFirstByte c _ b => [AFirstByte c b]
  | StReadErr c _ => [AReadErr c]
  | StWait hs _ _ _ => map (fun p => AHandoff (fst p)) hs
  end.
Definition stim_acts (l : list stim) : list c18_act := flat_map stim_acts1 l.

(* quiescent: none of the code's own atomic sections is enabled, and no rendezvous is possible *)
Definition c18_quiet (m : c18_ms) : Prop :=
  (forall a, c18_visible a = false -> c18_mstep c18_now m a = None) /\
  (forall c, c18_mstep c18_now m (AHandoff c) = None).
