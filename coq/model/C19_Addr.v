(* C19 model, part (d): extras/transport/udphop/addr.go with the server IP made explicit, and the
   hop LTS with full destinations.

   net.IP is a byte string (4 bytes, 16 bytes, or nil = []); a zone is a byte string.  The two
   library calls of ResolveUDPHopAddr are inputs: [split] is what net.SplitHostPort(addr) returned
   (None = error; Some (host, portStr)), [resolver] what net.ResolveIPAddr("ip", host) returns
   (None = error; Some (ip, zone)).  The code keeps ip.IP and DROPS ip.Zone (UDPHopAddr has no
   zone field); addrs() builds &net.UDPAddr{IP: a.IP, Port: int(port)} for every element of
   a.Ports, in order, so every target has the IP bytes of the resolved address and no zone.

       host, portStr, err := net.SplitHostPort(addr)      err -> return            (HESplit)
       ip, err := net.ResolveIPAddr("ip", host)           err -> return            (HEResolve)
       result := &UDPHopAddr{IP: ip.IP, PortStr: portStr}
       pu := utils.ParsePortUnion(portStr)                nil -> InvalidPortError  (HEPort)
       result.Ports = pu.Ports()

   The hop LTS of model/C19_Hop.v names a destination by its port only ("all with the server's
   IP").  [astep] is the same machine over the address list itself: WriteTo hands
   u.Addrs[u.addrIndex], the whole address, to the current socket.  Every other action is the hop
   LTS's own.
   Definitions only. *)
From Hy Require Import lib.Res lib.Bytes model.C19_PortUnion model.C19_Hop.
From Coq Require Import ZArith Bool.
Local Open Scope N_scope.

Definition ip : Type := list byte.

Record udpaddr := mkUA { ua_ip : ip; ua_port : N; ua_zone : list byte }.     (* net.UDPAddr *)

Record hopaddr := mkHA { ha_ip : ip; ha_ports : list N; ha_portstr : list byte }.   (* UDPHopAddr *)

Inductive hoperr := HESplit | HEResolve | HEPort.

Definition resolve_hop_addr (split : option (list byte * list byte))
                            (resolver : list byte -> option (ip * list byte)) : hopaddr + hoperr :=
  match split with
  | None => inr HESplit
  | Some (host, portstr) =>
      match resolver host with
      | None => inr HEResolve
      | Some (i, _zone) =>                                (* IP: ip.IP; the zone is not kept *)
          match parse_port_union portstr with
          | None => inr HEPort
          | Some u => inl (mkHA i (ports u) portstr)
          end
      end
  end.

(* addrs(): one &net.UDPAddr{IP: a.IP, Port: int(port)} per port, in order *)
Definition addrs (a : hopaddr) : list udpaddr := map (fun p => mkUA (ha_ip a) p []) (ha_ports a).

(* net.IP.Equal: the same address, a 4-byte IPv4 address being the same as its 16-byte form *)
Definition v4_in_v6_prefix : list byte := [x00; x00; x00; x00; x00; x00; x00; x00; x00; x00; xff; xff].

Definition ip_equal (a b : ip) : bool :=
  let la := length a in
  let lb := length b in
  if Nat.eqb la lb then bytes_eq a b
  else if Nat.eqb la 4%nat && Nat.eqb lb 16%nat then bytes_eq (firstn 12%nat b) v4_in_v6_prefix && bytes_eq a (skipn 12%nat b)
  else if Nat.eqb la 16%nat && Nat.eqb lb 4%nat then bytes_eq (firstn 12%nat a) v4_in_v6_prefix && bytes_eq (skipn 12%nat a) b
  else false.

(* ---------------- the hop LTS over the address list *)

Inductive aout :=
| AOut (o : out)                                   (* a boundary call / return value of the hop LTS *)
| AOWrite (k : nat) (dst : udpaddr) (d : N).       (* socket k . WriteTo(payload d, dst) *)

Definition erase (o : aout) : out :=
  match o with
  | AOut o => o
  | AOWrite k dst d => OSockWrite k (ua_port dst) d
  end.

Definition astep (az : list udpaddr) (ce : nat -> bool) (s : st) (a : action) : st * list aout :=
  match a with
  | AWrite d =>
      if closed s then (s, [AOut (ORet RClosed)])
      else match nth_error az (idx s) with                (* u.currentConn.WriteTo(b, u.Addrs[u.addrIndex]) *)
           | Some dst => (s, [AOWrite (cur s) dst d; AOut (ORet RWrote)])
           | None => (s, [AOut (ORet RPanic)])
           end
  | _ => let '(s', o) := step (map ua_port az) ce s a in (s', map AOut o)
  end.

Fixpoint arun (az : list udpaddr) (ce : nat -> bool) (s : st) (l : list action) : st * list aout :=
  match l with
  | [] => (s, [])
  | a :: t => let '(s1, o1) := astep az ce s a in
              let '(s2, o2) := arun az ce s1 t in (s2, o1 ++ o2)
  end.

(* NewUDPHopPacketConn: addrs, err := addr.addrs(); ...; addrIndex: rand.Intn(len(addrs)) *)
Definition ainit (az : list udpaddr) (listen_ok : bool) (r0 : nat) : Res st := init (map ua_port az) listen_ok r0.
