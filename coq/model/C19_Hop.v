(* C19 model, part (b): extras/transport/udphop/conn.go as a labelled transition system whose
   actions are the code's atomic sections.

   Sockets are numbered in creation order (the n-th successful ListenUDPFunc call returns socket n);
   [socks] is the census: for every socket ever created, whether it is open and how many times Close
   was called on it.  An action returns the new state and the calls it makes at the socket boundary
   (ListenUDPFunc, Close / Set* / WriteTo on a socket), in program order, plus the value returned to
   the caller.  Every section that takes connMutex is one action: hop (conn.go:172-225), WriteTo
   (245-254), Close (256-273), Set* (282-341).  The receive path has no lock: the atomic points are
   the channel operations: a receiver goroutine's send to recvQueue (recvLoop; one receiver per
   socket, alive while its socket's ReadFrom succeeds, i.e. while the socket is open) and the two
   selects of ReadFrom (first the non-blocking look at closeChan, then recvQueue / closeChan).
   Nondeterministic inputs are arguments of the action: whether ListenUDPFunc succeeds, the value
   drawn by rand.Intn (any natural, reduced mod len(Addrs)), and which ready branch ReadFrom's select
   takes when both the queue and closeChan are ready.
   Socket faults: [ce k] says whether Close() of socket k reports an error (any assignment; the
   socket is closed either way, as with close(2)).  hop and Close discard the error of prevConn's
   Close ("_ = u.prevConn.Close()"); Close returns the error of currentConn's Close, after it has
   closed closeChan and set the closed flag.  The result of a socket Close is part of the boundary
   call [OSockClose k err].
   Definitions only. *)
From Hy Require Import lib.Res gen.ParamsC19.
From Coq Require Import ZArith Bool.
Local Open Scope nat_scope.

Inductive setkind := SDL | SRDL | SWDL | SRB | SWB.
(* SetDeadline | SetReadDeadline | SetWriteDeadline | SetReadBuffer | SetWriteBuffer.
   A time.Time is a Z with 0 standing for the zero Time (IsZero). *)

Inductive item := IPkt (n : N) | ITimeout.    (* udpPacket: a datagram (named by n) or a timeout error *)

Record sock := mkSock { s_open : bool; s_closes : N }.

Record st := mkSt {
  prev : option nat;       (* prevConn (None = nil) *)
  cur : nat;               (* currentConn *)
  idx : nat;               (* addrIndex *)
  closed : bool;           (* closed flag; closeChan is closed iff it is true *)
  socks : list sock;       (* census of every socket ever returned by ListenUDPFunc *)
  queue : list item;       (* recvQueue, capacity packetQueueSize *)
  rbuf : Z; wbuf : Z;      (* readBufferSize, writeBufferSize *)
  dl : Z; rdl : Z; wdl : Z; (* deadline, readDeadline, writeDeadline *)
  armed : list nat         (* ReadFrom calls (named by a caller-chosen id) that passed the closed-first
                              check and now sit in the two-way select *)
}.

Inductive ret := RNil | RWrote | RClosed | RPkt (n : N) | RTimeout | RPanic
                 | RSockErr.   (* the error reported by a socket's own Close, passed on to the caller *)

Inductive out :=
| OListen (ok : bool)                       (* ListenUDPFunc was called *)
| OSockClose (k : nat) (err : bool)         (* socket k . Close() was called and reported an error or not *)
| OSockSet (k : nat) (kd : setkind) (v : Z)
| OSockWrite (k : nat) (port : N) (d : N)   (* socket k . WriteTo(payload d, (server IP, port)) *)
| ORet (r : ret).                           (* value returned to the caller of the API *)

Inductive action :=
| AHop (listen_ok : bool) (r : nat)
| AWrite (d : N)
| AArrive (k : nat) (p : N)                 (* receiver of socket k got datagram p and offers it to the queue *)
| AArriveTimeout (k : nat)                  (* receiver of socket k got a timeout error *)
| AReadBegin (rid : nat)                    (* ReadFrom: the non-blocking check of closeChan at the loop head *)
| AReadSelect (rid : nat) (pick_closed : bool)  (* ReadFrom: the select on recvQueue / closeChan *)
| ASet (kd : setkind) (v : Z)
| AClose.

Fixpoint close_sock (k : nat) (l : list sock) : list sock :=
  match l, k with
  | [], _ => []
  | s :: t, O => mkSock false (s_closes s + 1) :: t
  | s :: t, S k' => s :: close_sock k' t
  end.

Definition sock_open (l : list sock) (k : nat) : bool :=
  match nth_error l k with Some s => s_open s | None => false end.

Definition close_opt (p : option nat) (l : list sock) : list sock :=
  match p with Some k => close_sock k l | None => l end.

Definition out_close_opt (ce : nat -> bool) (p : option nat) : list out :=
  match p with Some k => [OSockClose k (ce k)] | None => [] end.

(* hop(): "Set buffer sizes if previously set", deadlines if non-zero, on the new socket n *)
Definition hop_sets (n : nat) (s : st) : list out :=
  (if (0 <? rbuf s)%Z then [OSockSet n SRB (rbuf s)] else []) ++
  (if (0 <? wbuf s)%Z then [OSockSet n SWB (wbuf s)] else []) ++
  (if (dl s =? 0)%Z then [] else [OSockSet n SDL (dl s)]) ++
  (if (rdl s =? 0)%Z then [] else [OSockSet n SRDL (rdl s)]) ++
  (if (wdl s =? 0)%Z then [] else [OSockSet n SWDL (wdl s)]).

Definition set_fields (s : st) (kd : setkind) (v : Z) : st :=
  match kd with
  | SDL => mkSt (prev s) (cur s) (idx s) (closed s) (socks s) (queue s) (rbuf s) (wbuf s) v v v (armed s)
  | SRDL => mkSt (prev s) (cur s) (idx s) (closed s) (socks s) (queue s) (rbuf s) (wbuf s) 0 v (wdl s) (armed s)
  | SWDL => mkSt (prev s) (cur s) (idx s) (closed s) (socks s) (queue s) (rbuf s) (wbuf s) 0 (rdl s) v (armed s)
  | SRB => mkSt (prev s) (cur s) (idx s) (closed s) (socks s) (queue s) v (wbuf s) (dl s) (rdl s) (wdl s) (armed s)
  | SWB => mkSt (prev s) (cur s) (idx s) (closed s) (socks s) (queue s) (rbuf s) v (dl s) (rdl s) (wdl s) (armed s)
  end.

Definition with_queue (s : st) (q : list item) : st :=
  mkSt (prev s) (cur s) (idx s) (closed s) (socks s) q (rbuf s) (wbuf s) (dl s) (rdl s) (wdl s) (armed s).

Definition with_armed (s : st) (l : list nat) : st :=
  mkSt (prev s) (cur s) (idx s) (closed s) (socks s) (queue s) (rbuf s) (wbuf s) (dl s) (rdl s) (wdl s) l.

Definition remove_rid (rid : nat) (l : list nat) : list nat := filter (fun x => negb (Nat.eqb x rid)) l.

Definition enqueue (s : st) (k : nat) (x : item) : st :=
  if sock_open (socks s) k && (length (queue s) <? packetQueueSize)
  then with_queue s (queue s ++ [x]) else s.

Definition ret_of_item (x : item) : ret :=
  match x with IPkt n => RPkt n | ITimeout => RTimeout end.

(* ps = the ports of Addrs (all with the server's IP), fixed at construction *)
Definition step (ps : list N) (ce : nat -> bool) (s : st) (a : action) : st * list out :=
  match a with
  | AHop ok r =>
      if closed s then (s, [])                           (* ListenUDPFunc is not even called *)
      else if negb ok then (s, [OListen false])          (* "just skip this hop": nothing changes *)
      else
        let n := length (socks s) in                     (* the new socket *)
        (mkSt (Some (cur s)) n (r mod length ps) false
              (close_opt (prev s) (socks s) ++ [mkSock true 0]) (queue s)
              (rbuf s) (wbuf s) (dl s) (rdl s) (wdl s) (armed s),
         [OListen true] ++ out_close_opt ce (prev s) ++ hop_sets n s)   (* "_ = u.prevConn.Close()" *)
  | AWrite d =>
      if closed s then (s, [ORet RClosed])
      else match nth_error ps (idx s) with
           | Some port => (s, [OSockWrite (cur s) port d; ORet RWrote])
           | None => (s, [ORet RPanic])                  (* u.Addrs[u.addrIndex] out of range *)
           end
  | AArrive k p => (enqueue s k (IPkt p), [])            (* full queue: the packet is dropped *)
  | AArriveTimeout k => (enqueue s k ITimeout, [])       (* full queue: the send has not happened yet *)
  | AReadBegin rid =>                                    (* "closed takes priority over packets still in the queue" *)
      if closed s then (s, [ORet RClosed])
      else (with_armed s (rid :: armed s), [])
  | AReadSelect rid pick_closed =>
      if negb (existsb (Nat.eqb rid) (armed s)) then (s, [])  (* that call is not at the select *)
      else
        match queue s with
        | [] => if closed s then (with_armed s (remove_rid rid (armed s)), [ORet RClosed])
                else (s, [])                               (* blocked *)
        | x :: q =>
            if closed s && pick_closed                     (* both ready: Go picks either *)
            then (with_armed s (remove_rid rid (armed s)), [ORet RClosed])
            else (with_armed (with_queue s q) (remove_rid rid (armed s)), [ORet (ret_of_item x)])
        end
  | ASet kd v =>                                         (* no closed check in the code *)
      (set_fields s kd v,
       match prev s with Some p => [OSockSet p kd v] | None => [] end ++ [OSockSet (cur s) kd v])
  | AClose =>
      if closed s then (s, [ORet RNil])
      else
        (* if prevConn != nil { _ = prevConn.Close() }; err := currentConn.Close();
           close(closeChan); closed = true; return err *)
        (mkSt (prev s) (cur s) (idx s) true
              (close_sock (cur s) (close_opt (prev s) (socks s))) (queue s)
              (rbuf s) (wbuf s) (dl s) (rdl s) (wdl s) (armed s),
         out_close_opt ce (prev s) ++
         [OSockClose (cur s) (ce (cur s)); ORet (if ce (cur s) then RSockErr else RNil)])
  end.

(* NewUDPHopPacketConn after the interval check: listen, then rand.Intn(len(addrs)) *)
Definition init (ps : list N) (listen_ok : bool) (r0 : nat) : Res st :=
  if negb listen_ok then Err EOther
  else match ps with
       | [] => Panic 1                                   (* rand.Intn(0) *)
       | _ => Ok (mkSt None 0 (r0 mod length ps) false [mkSock true 0] [] 0 0 0 0 0 [])
       end.

Fixpoint run (ps : list N) (ce : nat -> bool) (s : st) (l : list action) : st * list out :=
  match l with
  | [] => (s, [])
  | a :: t => let '(s1, o1) := step ps ce s a in
              let '(s2, o2) := run ps ce s1 t in (s2, o1 ++ o2)
  end.

(* ---------------- hop interval (conn.go:107-121, 165-170); time.Duration = int64 nanoseconds *)
Local Open Scope Z_scope.

Definition wrap64 (z : Z) : Z := (z + 2 ^ 63) mod 2 ^ 64 - 2 ^ 63.

Definition normalized (mn mx : Z) : option (Z * Z) :=
  if (mn =? 0) && (mx =? 0) then Some (defaultHopInterval, defaultHopInterval)
  else if (mn =? 0) || (mx =? 0) then None
  else if mx <? mn then None
  else if mn <? minHopInterval then None
  else Some (mn, mx).

(* nextHopInterval; r = the raw value of the random source, rand.Int63n(n) = r mod n, panics for n <= 0 *)
Definition next_interval (mn mx : Z) (r : Z) : Res Z :=
  if mn =? mx then Ok mn
  else let n := wrap64 (wrap64 (mx - mn) + 1) in
       if n <=? 0 then Panic 2
       else Ok (wrap64 (mn + r mod n)).
