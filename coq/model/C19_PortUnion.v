(* C19 model, part (a): extras/utils/portunion.go, transcribed statement by statement.
   Go strings are byte strings: an expression is a [list byte].
   PortRange{Start,End uint16} is a pair of N (both < 65536 whenever they come out of the parser);
   the only arithmetic of the code on them is done in uint32 (Normalize: uint32(last.End)+1,
   Ports: the loop counter), which cannot wrap for 16-bit operands, so plain N is exact.
   Definitions only. *)
From Hy Require Import lib.Bytes.
From Coq Require Import ZArith.
Local Open Scope N_scope.

Definition range : Type := (N * N)%type.     (* (Start, End), inclusive *)

Fixpoint bytes_eq (a b : list byte) : bool :=
  match a, b with
  | [], [] => true
  | x :: a', y :: b' => Byte.eqb x y && bytes_eq a' b'
  | _, _ => false
  end.

(* strings.Split(s, sep) for a one-byte separator: never empty, "" gives [""] *)
Fixpoint split_on (sep : byte) (s : list byte) : list (list byte) :=
  match s with
  | [] => [[]]
  | c :: t =>
      match split_on sep t with
      | [] => [[]]
      | h :: r => if Byte.eqb c sep then [] :: h :: r else (c :: h) :: r
      end
  end.

(* strconv.ParseUint(s, 10, 16): err != nil unless s is a non-empty string of ASCII digits whose
   value is <= 65535 (no sign, no underscore for an explicit base, any number of leading zeros). *)
Definition digit (c : byte) : option N :=
  let n := b2n c in if (48 <=? n) && (n <=? 57) then Some (n - 48) else None.

Fixpoint parse_digits (acc : N) (s : list byte) : option N :=
  match s with
  | [] => Some acc
  | c :: t => match digit c with
              | None => None
              | Some d => parse_digits (acc * 10 + d) t
              end
  end.

Definition parse_uint16 (s : list byte) : option N :=
  match s with
  | [] => None
  | _ => match parse_digits 0 s with
         | Some v => if v <=? 65535 then Some v else None
         | None => None
         end
  end.

Definition c_comma : byte := x2c.
Definition c_dash : byte := x2d.
Definition s_all : list byte := [x61; x6c; x6c].
Definition s_star : list byte := [x2a].

(* one iteration of the loop over portStrs *)
Definition parse_item (ps : list byte) : option range :=
  if existsb (Byte.eqb c_dash) ps then          (* strings.Contains(portStr, "-") *)
    match split_on c_dash ps with
    | [a; b] =>
        match parse_uint16 a with
        | None => None
        | Some s =>
            match parse_uint16 b with
            | None => None
            | Some e => if e <? s then Some (e, s) else Some (s, e)   (* start > end: swapped *)
            end
        end
    | _ => None                                  (* len(portRange) != 2 *)
    end
  else
    match parse_uint16 ps with
    | Some p => Some (p, p)
    | None => None
    end.

Fixpoint parse_items (l : list (list byte)) : option (list range) :=
  match l with
  | [] => Some []
  | x :: t =>
      match parse_item x with
      | None => None
      | Some r => match parse_items t with
                  | None => None
                  | Some rs => Some (r :: rs)
                  end
      end
  end.

(* the sort.Slice comparison *)
Definition range_ltb (a b : range) : bool :=
  if fst a =? fst b then snd a <? snd b else fst a <? fst b.

(* sort.Slice is not stable, but two ranges that compare equal both ways are the same pair, so the
   sorted slice is unique; insertion sort computes it. *)
Fixpoint insert (x : range) (l : list range) : list range :=
  match l with
  | [] => [x]
  | y :: t => if range_ltb y x then y :: insert x t else x :: y :: t
  end.

Definition sort_ranges (l : list range) : list range := fold_right insert [] l.

(* the merge loop; [last] is normalized[len(normalized)-1] *)
Fixpoint merge_from (last : range) (l : list range) : list range :=
  match l with
  | [] => [last]
  | c :: t =>
      if fst c <=? snd last + 1 then                 (* uint32(current.Start) <= uint32(last.End)+1 *)
        merge_from (fst last, if snd last <? snd c then snd c else snd last) t
      else last :: merge_from c t
  end.

Definition normalize (u : list range) : list range :=
  match sort_ranges u with
  | [] => []                                        (* len(u) == 0: returned as is *)
  | h :: t => merge_from h t
  end.

(* the raw result of the parsing loop (before Normalize); the wildcard returns directly *)
Definition parse_raw (s : list byte) : option (list range) :=
  if bytes_eq s s_all || bytes_eq s s_star then Some [(0, 65535)]
  else match parse_items (split_on c_comma s) with
       | None => None
       | Some [] => None                            (* result == nil *)
       | Some u => Some u
       end.

(* ParsePortUnion: None is Go's nil *)
Definition parse_port_union (s : list byte) : option (list range) :=
  if bytes_eq s s_all || bytes_eq s s_star then Some [(0, 65535)]
  else match parse_items (split_on c_comma s) with
       | None => None
       | Some [] => None
       | Some u => Some (normalize u)
       end.

Fixpoint seqN (s : N) (n : nat) : list N :=
  match n with O => [] | S k => s :: seqN (s + 1) k end.

(* for i := uint32(r.Start); i <= uint32(r.End); i++ *)
Definition range_ports (r : range) : list N :=
  if snd r <? fst r then [] else seqN (fst r) (N.to_nat (snd r + 1 - fst r)).

Definition ports (u : list range) : list N := flat_map range_ports u.

Definition in_range (p : N) (r : range) : bool := (fst r <=? p) && (p <=? snd r).

Definition contains (u : list range) (p : N) : bool := existsb (in_range p) u.

(* udphop/addr.go: ResolveUDPHopAddr keeps the IP and takes Ports = pu.Ports(); addrs() builds one
   (IP, port) per element, in order.  The IP is carried as an opaque value. *)
Definition hop_ports (s : list byte) : option (list N) :=
  match parse_port_union s with
  | None => None                                    (* InvalidPortError *)
  | Some u => Some (ports u)
  end.
