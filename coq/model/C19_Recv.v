(* C19 model, part (c): the receiver goroutines of extras/transport/udphop/conn.go made explicit.

   recvLoop(conn) (conn.go:123-147), one goroutine per socket, started by the constructor
   ("go hConn.recvLoop(curConn)") and by every successful hop ("go u.recvLoop(newConn)"):

       for {
           n, addr, err := conn.ReadFrom(buf)
           if err != nil {
               if timeout(err) { u.recvQueue <- timeoutPacket; continue }     (RTimeoutErr)
               return                                                         (RPermErr)
           }
           select { case u.recvQueue <- packet: default: (drop) }             (RData)
       }

   The loop has exactly one exit: a permanent (non-timeout) error of the socket's ReadFrom.  A full
   queue costs the packet that met it and nothing else: the goroutine goes round the loop again.

   The extended state pairs the state of the hop LTS (model/C19_Hop.v) with [alive]: for every
   socket ever created, whether its receiver goroutine is still running.  [XRecv k r] is one turn of
   socket k's loop, r being what ReadFrom returned (an input of the environment); it does nothing
   when that goroutine has already returned.  Every other action is the hop LTS's own; a hop that
   creates a socket starts its receiver.  The base LTS's two arrival actions are the RData /
   RTimeoutErr turns of a running receiver.
   Definitions only. *)
From Hy Require Import lib.Res gen.ParamsC19 model.C19_Hop.
From Coq Require Import ZArith Bool.
Local Open Scope nat_scope.

Inductive rres := RData (p : N) | RTimeoutErr | RPermErr.     (* result of conn.ReadFrom in recvLoop *)

Record xst := mkX { base : st; alive : list bool }.

Inductive xaction :=
| XAct (a : action)
| XRecv (k : nat) (r : rres).

Definition recv_alive (x : xst) (k : nat) : bool := nth k (alive x) false.

Fixpoint set_false (k : nat) (l : list bool) : list bool :=
  match l, k with
  | [], _ => []
  | _ :: t, O => false :: t
  | b :: t, S k' => b :: set_false k' t
  end.

Definition recv_step (ps : list N) (ce : nat -> bool) (x : xst) (k : nat) (r : rres) : xst :=
  if negb (recv_alive x k) then x                         (* that goroutine has returned: no such turn *)
  else match r with
       | RData p => mkX (fst (step ps ce (base x) (AArrive k p))) (alive x)          (* send or drop; loop *)
       | RTimeoutErr => mkX (fst (step ps ce (base x) (AArriveTimeout k))) (alive x) (* send; continue *)
       | RPermErr => mkX (base x) (set_false k (alive x))                            (* return *)
       end.

Definition xstep (ps : list N) (ce : nat -> bool) (x : xst) (a : xaction) : xst * list out :=
  match a with
  | XRecv k r => (recv_step ps ce x k r, [])
  | XAct (AArrive k p) => (recv_step ps ce x k (RData p), [])
  | XAct (AArriveTimeout k) => (recv_step ps ce x k RTimeoutErr, [])
  | XAct (AHop ok r) =>
      let '(s', o) := step ps ce (base x) (AHop ok r) in
      (mkX s' (if negb (closed (base x)) && ok then alive x ++ [true] else alive x), o)   (* go u.recvLoop(newConn) *)
  | XAct b =>
      let '(s', o) := step ps ce (base x) b in (mkX s' (alive x), o)
  end.

(* NewUDPHopPacketConn: "go hConn.recvLoop(curConn)" *)
Definition xinit (ps : list N) (listen_ok : bool) (r0 : nat) : Res xst :=
  match init ps listen_ok r0 with
  | Ok s => Ok (mkX s [true])
  | Err e => Err e
  | Panic n => Panic n
  end.

Fixpoint xrun (ps : list N) (ce : nat -> bool) (x : xst) (l : list xaction) : xst * list out :=
  match l with
  | [] => (x, [])
  | a :: t => let '(x1, o1) := xstep ps ce x a in
              let '(x2, o2) := xrun ps ce x1 t in (x2, o1 ++ o2)
  end.

(* The sockets behave like net.PacketConn: ReadFrom reports a permanent error only on a socket that
   has been closed.  This is a condition on the environment's inputs along a run, not a guard of
   the loop (which returns on any permanent error). *)
Definition perm_ok (x : xst) (a : xaction) : bool :=
  match a with
  | XRecv k RPermErr => negb (sock_open (socks (base x)) k)
  | _ => true
  end.

Fixpoint sockets_ok (ps : list N) (ce : nat -> bool) (x : xst) (l : list xaction) : bool :=
  match l with
  | [] => true
  | a :: t => perm_ok x a && sockets_ok ps ce (fst (xstep ps ce x a)) t
  end.
