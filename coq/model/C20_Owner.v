(* C20 model, socket ownership: who calls ReadFrom on the UDP socket that lies under the
   PunchPacketConn, in the server runtime that owns it (app/cmd/server.go: fillRealmConn,
   startRealmServerRuntime, realmServerRuntime.run / registerWithBackoff / connectAddrs / respond,
   refreshAddrs = realm.DiscoverWithDemux, refreshAddrsDirect = realm.Discover on
   punchConn.PacketConn; extras/realm/stun.go Discover, DiscoverWithDemux).  Definitions only.

   model/C20_Punch.v describes what ONE call of PunchPacketConn.ReadFrom does with the datagrams the
   wrapped socket returns to it.  "Every other packet reaches QUIC" needs more: the kernel hands
   each datagram to exactly one caller of ReadFrom on the socket, so it holds only as long as the
   QUIC side's PunchPacketConn.ReadFrom is the only reader.  This file adds the socket (a FIFO
   receive queue), the readers, the read deadline (one per socket, shared by every reader) and the
   two phases of the runtime, and transcribes which discovery each site of server.go runs.

   As in C20_Punch.v the hash is the Section variable H and pion/stun's classification of a
   datagram as a binding-success response with a mapped address is the oracle is_stun_resp
   (Discover and the demultiplexer both go through parseSTUNBindingResponse). *)
From Hy Require Export model.C20_Punch.
From Coq Require Import ZArith.
Local Open Scope N_scope.

(* a caller of ReadFrom on the raw socket *)
Inductive reader :=
| RQuic        (* the QUIC server's receive loop: PunchPacketConn.ReadFrom -> PacketConn.ReadFrom *)
| RDirect      (* realm.Discover(ctx, punchConn.PacketConn, ...): the raw socket, not through the demultiplexer *)
| RVia.        (* somebody else calling PunchPacketConn.ReadFrom (through the demultiplexer, but not QUIC) *)

Definition reader_eqb (a b : reader) : bool :=
  match a, b with RQuic, RQuic | RDirect, RDirect | RVia, RVia => true | _, _ => false end.

(* fillRealmConn: the runtime is started first (PStartup: nothing serves, hyConfig.Conn is not yet
   set); when it returns the conn is handed to the QUIC server (PServing, for the rest of the
   process) *)
Inductive phase := PStartup | PServing.

Record dgram := mkDg { g_bytes : list byte; g_from : addr }.

Section Owner.
  Variable H : list byte -> list byte.
  Variable is_stun_resp : list byte -> bool.

  Record ostate := mkO { o_ph : phase;
                         o_d : dstate;                (* the PunchPacketConn *)
                         o_sock : list dgram;         (* the socket's receive queue, FIFO *)
                         o_quic : list dgram;         (* what the QUIC side's ReadFrom has returned, in order *)
                         o_else : list dgram;         (* non-STUN datagrams that went to anybody else (Discover
                                                         drops them: `continue`) *)
                         o_dl : bool;                 (* a read deadline is armed on the socket *)
                         o_qerr : nat }.              (* QUIC-side ReadFrom calls that failed with a timeout *)

  Definition o_init (eventBuffer : Z) : ostate := mkO PStartup (d_new eventBuffer) [] [] [] false 0.

  Inductive oaction :=
  | OArrive (g : dgram)                        (* the kernel queues a datagram *)
  | ORead (r : reader) (pick : list pev -> nat)
      (* r's ReadFrom on the raw socket returns the head of the queue (no-op on an empty queue:
         the call stays blocked) *)
  | OSetDeadline (r : reader) (on : bool)      (* conn.SetReadDeadline(deadline) / (time.Time{}) on the raw socket *)
  | OExpire                                    (* the armed deadline passes: every ReadFrom blocked on the
                                                  socket - the QUIC side's too - returns a timeout error *)
  | OServe                                     (* startRealmServerRuntime has returned, QUIC starts reading *)
  | ODemux (a : action).                       (* AddPunchAttempt / RemovePunchAttempt / a receive from
                                                  Events() or STUNEvents() *)

  Inductive oout :=
  | OONone
  | OOBlocked                                  (* nothing queued *)
  | OOQuic (o : out)                           (* the QUIC side's loop body ran on the datagram *)
  | OOTaken (g : dgram) (stun : bool)          (* somebody else got it *)
  | OOQuicErr                                  (* the QUIC side's ReadFrom returned a timeout *)
  | OODemux (o : out).

  Definition ostep (s : ostate) (a : oaction) : Res (ostate * oout) :=
    match a with
    | OArrive g => Ok (mkO (o_ph s) (o_d s) (o_sock s ++ [g]) (o_quic s) (o_else s) (o_dl s) (o_qerr s), OONone)
    | ORead r pick =>
        match o_sock s with
        | [] => Ok (s, OOBlocked)
        | g :: q =>
            match r with
            | RQuic =>
                x <- step H is_stun_resp (o_d s) (ARecv (g_bytes g) (g_from g) pick) ;;
                match snd x with
                | OPass _ _ => Ok (mkO (o_ph s) (fst x) q (o_quic s ++ [g]) (o_else s) (o_dl s) (o_qerr s), OOQuic (snd x))
                | _ => Ok (mkO (o_ph s) (fst x) q (o_quic s) (o_else s) (o_dl s) (o_qerr s), OOQuic (snd x))
                end
            | RDirect =>
                (* Discover's loop: parseSTUNBindingResponse(buf[:n]); anything else: continue *)
                if is_stun_resp (g_bytes g)
                then Ok (mkO (o_ph s) (o_d s) q (o_quic s) (o_else s) (o_dl s) (o_qerr s), OOTaken g true)
                else Ok (mkO (o_ph s) (o_d s) q (o_quic s) (o_else s ++ [g]) (o_dl s) (o_qerr s), OOTaken g false)
            | RVia =>
                x <- step H is_stun_resp (o_d s) (ARecv (g_bytes g) (g_from g) pick) ;;
                match snd x with
                | OPass _ _ => Ok (mkO (o_ph s) (fst x) q (o_quic s) (o_else s ++ [g]) (o_dl s) (o_qerr s), OOTaken g false)
                | _ => Ok (mkO (o_ph s) (fst x) q (o_quic s) (o_else s) (o_dl s) (o_qerr s), OOTaken g true)
                end
            end
        end
    | OSetDeadline _ on => Ok (mkO (o_ph s) (o_d s) (o_sock s) (o_quic s) (o_else s) on (o_qerr s), OONone)
    | OExpire =>
        if o_dl s
        then match o_ph s with
             | PServing => Ok (mkO (o_ph s) (o_d s) (o_sock s) (o_quic s) (o_else s) (o_dl s) (S (o_qerr s)), OOQuicErr)
             | PStartup => Ok (s, OONone)
             end
        else Ok (s, OONone)
    | OServe => Ok (mkO PServing (o_d s) (o_sock s) (o_quic s) (o_else s) (o_dl s) (o_qerr s), OONone)
    | ODemux a' =>
        match a' with
        | ARecv _ _ _ => Ok (s, OONone)        (* datagrams enter through the socket only *)
        | _ => x <- step H is_stun_resp (o_d s) a' ;;
               Ok (mkO (o_ph s) (fst x) (o_sock s) (o_quic s) (o_else s) (o_dl s) (o_qerr s), OODemux (snd x))
        end
    end.

  Fixpoint orun (s : ostate) (l : list oaction) : Res (ostate * list oout) :=
    match l with
    | [] => Ok (s, [])
    | a :: t => r <- ostep s a ;; r2 <- orun (fst r) t ;; Ok (fst r2, snd r :: snd r2)
    end.

  (* the datagrams a history puts on the socket *)
  Definition arrivals (l : list oaction) : list dgram :=
    flat_map (fun a => match a with OArrive g => [g] | _ => [] end) l.

  (* every metadata a history ever registers *)
  Definition added (l : list oaction) : list rmeta :=
    flat_map (fun a => match a with ODemux (AAdd _ m) => [m] | _ => [] end) l.

  (* the QUIC side is the only party that touches the socket's read side *)
  Definition quic_only (a : oaction) : bool :=
    match a with
    | ORead r _ => reader_eqb r RQuic
    | OSetDeadline _ _ => false
    | _ => true
    end.

  (* neither a STUN binding response nor decodable under any metadata of ms: a datagram the
     demultiplexer has no business with, whatever subset of ms is registered when it is read *)
  Definition foreign (ms : list rmeta) (g : dgram) : bool :=
    negb (is_stun_resp (g_bytes g)) &&
    forallb (fun m => negb (is_ok (decode_punch H (g_bytes g) m))) ms.

  (* ---------- the runtime of app/cmd/server.go ---------- *)

  (* the places that run a STUN discovery on the realm socket *)
  Inductive site :=
  | SiteStartup        (* startRealmServerRuntime, before the first registration *)
  | SiteReRegister     (* registerWithBackoff, after a lost session (run) *)
  | SiteConnect.       (* connectAddrs, on a punch event (respond), when the cached result is stale *)

  Inductive how :=
  | HowDirect          (* refreshAddrsDirect: realm.Discover on punchConn.PacketConn - reads the socket itself *)
  | HowDemux.          (* refreshAddrs: realm.DiscoverWithDemux - receives from punchConn.STUNEvents() *)

  Definition site_table := site -> how.

  (* server.go as written *)
  Definition site_how : site_table :=
    fun s => match s with SiteStartup => HowDirect | SiteReRegister => HowDemux | SiteConnect => HowDemux end.

  (* when the code of a site can run: startRealmServerRuntime runs to completion before fillRealmConn
     sets hyConfig.Conn; run (hence registerWithBackoff) and respond are goroutines that outlive it *)
  Definition site_phase (s : site) : phase :=
    match s with SiteStartup => PStartup | _ => PServing end.

  (* one discovery, n iterations of its receive loop.
     Discover: { SetReadDeadline(ctx deadline); ReadFrom } n times, then the deferred
     SetReadDeadline(time.Time{}).  DiscoverWithDemux: n receives from STUNEvents(). *)
  Fixpoint direct_loop (n : nat) : list oaction :=
    match n with
    | O => [OSetDeadline RDirect false]
    | S k => OSetDeadline RDirect true :: ORead RDirect (fun _ => 0%nat) :: direct_loop k
    end.

  Definition discovery (h : how) (n : nat) : list oaction :=
    match h with
    | HowDirect => direct_loop n
    | HowDemux => repeat (ODemux ATakeStun) n
    end.

  (* a history of the runtime: discoveries at its sites, the hand-over to QUIC, and everything that
     is not the runtime's doing (datagrams arriving, the QUIC side reading, punch attempts coming
     and going, time passing) *)
  Inductive rtev :=
  | RtDiscover (s : site) (n : nat)
  | RtServe
  | RtEnv (a : oaction).

  Definition rt_actions (tbl : site_table) (e : rtev) : list oaction :=
    match e with
    | RtDiscover s n => discovery (tbl s) n
    | RtServe => [OServe]
    | RtEnv a => [a]
    end.

  Definition rt_trace (tbl : site_table) (h : list rtev) : list oaction := flat_map (rt_actions tbl) h.

  (* well-formed: a site runs in its phase only, QUIC reads only once it serves, there is one
     hand-over, and the environment contains no reader of the socket other than QUIC *)
  Fixpoint rt_wf (ph : phase) (h : list rtev) : bool :=
    match h with
    | [] => true
    | RtDiscover s _ :: t =>
        match site_phase s, ph with
        | PStartup, PStartup | PServing, PServing => rt_wf ph t
        | _, _ => false
        end
    | RtServe :: t => match ph with PStartup => rt_wf PServing t | PServing => false end
    | RtEnv a :: t =>
        match a with
        | ORead RQuic _ => match ph with PServing => rt_wf ph t | PStartup => false end
        | ORead _ _ | OSetDeadline _ _ | OServe => false
        | _ => rt_wf ph t
        end
    end.

End Owner.

Definition ostep256 := ostep sha256.
Definition orun256 := orun sha256.
