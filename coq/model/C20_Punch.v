(* C20 model: extras/realm/punch.go (EncodePunchPacket, DecodePunchPacket, decodePunchMetadata,
   decodeHexSize, xorPunchPacket, validPunchPacketType), extras/realm/punch_conn.go
   (AddPunchAttempt, RemovePunchAttempt, ReadFrom, decodeSTUNPacket, decodePunchPacket, emitPunch,
   emitSTUN), punch_engine.go (addrToAddrPort) and extras/realm/server_punch.go (addAttempt,
   removeAttempt, one iteration of dispatch and its exit on the lifetime context, Respond: the
   argument checks, the registration, every exit).  Definitions only.

   The hash is a Section variable H in the codec and the demultiplexer; the instance tied to the
   code is H := sha256 (lib/Sha256.v), see the definitions at the end of the file.
   pion/stun's classification of a datagram as a binding-success response carrying a mapped
   address (IsMessage + Decode + Type + XOR-MAPPED/MAPPED-ADDRESS) is the Section oracle
   `is_stun_resp`; `stun_hdr_ok` is the RFC 5389 header condition it implies (checked on every
   run, not proved: pion is not modelled).

   Go failure modes written in: integer division by zero in xorPunchPacket when the mask is empty
   (Panic 1), the three slice expressions of DecodePunchPacket (Panic 2..4). *)
From Hy Require Export lib.Bytes lib.Res lib.Sha256 gen.ParamsC20.
From Coq Require Import ZArith.
Local Open Scope N_scope.

(* ---------- bytes.Equal ---------- *)
Fixpoint bytes_eq (a b : list byte) : bool :=
  match a, b with
  | [], [] => true
  | x :: a', y :: b' => Byte.eqb x y && bytes_eq a' b'
  | _, _ => false
  end.

(* ---------- encoding/hex.DecodeString ---------- *)
Definition hexval (c : byte) : option N :=
  let n := b2n c in
  if (48 <=? n) && (n <=? 57) then Some (n - 48)          (* '0'..'9' *)
  else if (97 <=? n) && (n <=? 102) then Some (n - 87)    (* 'a'..'f' *)
  else if (65 <=? n) && (n <=? 70) then Some (n - 55)     (* 'A'..'F' *)
  else None.

(* any error of hex.DecodeString (odd length, non-hex byte) is `None` *)
Fixpoint hex_decode (s : list byte) : option (list byte) :=
  match s with
  | [] => Some []
  | [_] => None
  | p :: q :: t =>
      match hexval p, hexval q, hex_decode t with
      | Some a, Some b, Some r => Some (n2b (a * 16 + b) :: r)
      | _, _, _ => None
      end
  end.

(* PunchMetadata: two Go strings (hex text) *)
Record rmeta := mkMeta { m_nonce : list byte; m_obfs : list byte }.

(* decodeHexSize *)
Definition decode_hex_size (v : list byte) (size : nat) : Res (list byte) :=
  match hex_decode v with
  | None => Err EOther
  | Some b => if Nat.eqb (length b) size then Ok b else Err EOther
  end.

(* decodePunchMetadata: (nonce, obfsKey) *)
Definition decode_meta (m : rmeta) : Res (list byte * list byte) :=
  n <- decode_hex_size (m_nonce m) PunchNonceSize ;;
  k <- decode_hex_size (m_obfs m) PunchObfsKeySize ;;
  Ok (n, k).

Definition valid_type (t : N) : bool := (t =? PunchPacketHello) || (t =? PunchPacketAck).

(* error classes: EShort = "packet too short", ELimit = "packet too long", EOther = metadata
   rejected, EInvalid = bad magic / unknown type / nonce mismatch / unknown type on encode *)

Section Codec.
  Variable H : list byte -> list byte.

  (* for i := range packet { packet[i] ^= mask[i%len(mask)] } *)
  Fixpoint xor_cyc (mask : list byte) (i : nat) (p : list byte) : list byte :=
    match p with
    | [] => []
    | b :: t => bxor b (nth (Nat.modulo i (length mask)) mask x00) :: xor_cyc mask (S i) t
    end.

  (* xorPunchPacket(packet, obfsKey, salt) *)
  Definition xor_punch (p key salt : list byte) : Res (list byte) :=
    let mask := H (key ++ salt) in
    match p, mask with
    | _ :: _, [] => Panic 1            (* i % len(mask), len(mask) = 0 *)
    | _, _ => Ok (xor_cyc mask 0 p)
    end.

  (* EncodePunchPacket.  The random draws are arguments: `padding` = the paddingLength random bytes
     (paddingLength = rand.Int(MaxPunchPadding+1), so length padding <= MaxPunchPadding) and
     `salt` = punchSaltLen random bytes.  plain = magic ++ type ++ nonce ++ padding because
     len(magic) + 1 + PunchNonceSize = punchHeaderLen (Example params_layout in the proofs). *)
  Definition encode_body (ty : N) (nonce key padding salt : list byte) : Res (list byte) :=
    let plain := punchMagic ++ n2b ty :: nonce ++ padding in
    x <- xor_punch plain key salt ;;
    Ok (salt ++ x).

  Definition encode_punch (ty : N) (m : rmeta) (padding salt : list byte) : Res (list byte) :=
    if negb (valid_type ty) then Err EInvalid
    else nk <- decode_meta m ;; encode_body ty (fst nk) (snd nk) padding salt.

  (* DecodePunchPacket after the length window and the metadata decoding *)
  Definition decode_body (packet nonce key : list byte) : Res (N * nat) :=
    let salt := firstn punchSaltLen packet in
    plain <- xor_punch (skipn punchSaltLen packet) key salt ;;
    if Nat.ltb (length plain) (length punchMagic) then Panic 2          (* plain[:len(punchMagic)] *)
    else if negb (bytes_eq (firstn (length punchMagic) plain) punchMagic) then Err EInvalid
    else if Nat.leb (length plain) (length punchMagic) then Panic 3     (* plain[len(punchMagic)] *)
    else
      let ty := b2n (nth (length punchMagic) plain x00) in
      if negb (valid_type ty) then Err EInvalid
      else if Nat.ltb (length plain) punchHeaderLen || Nat.ltb punchHeaderLen (S (length punchMagic))
      then Panic 4                                                       (* plain[len(punchMagic)+1:punchHeaderLen] *)
      else if negb (bytes_eq (firstn (punchHeaderLen - S (length punchMagic))
                                      (skipn (S (length punchMagic)) plain)) nonce)
      then Err EInvalid
      else Ok (ty, (length plain - punchHeaderLen)%nat).

  Definition decode_punch (packet : list byte) (m : rmeta) : Res (N * nat) :=
    if Nat.ltb (length packet) punchMinWireLen then Err EShort
    else if Nat.ltb punchMaxWireLen (length packet) then Err ELimit
    else nk <- decode_meta m ;; decode_body packet (fst nk) (snd nk).

  (* ---------- PunchPacketConn ---------- *)

  (* net.Addr as far as addrToAddrPort looks at it *)
  Record addr := mkAddr { a_udp : bool;          (* dynamic type is *net.UDPAddr *)
                          a_ip : list byte;      (* UDPAddr.IP *)
                          a_port : Z }.          (* UDPAddr.Port (Go int) *)

  (* netip.Addr.Unmap: ::ffff:a.b.c.d -> a.b.c.d *)
  Definition unmap (ip : list byte) : list byte :=
    if Nat.eqb (length ip) 16 && bytes_eq (firstn 12 ip) [x00;x00;x00;x00;x00;x00;x00;x00;x00;x00;xff;xff]
    then skipn 12 ip else ip.

  (* addrToAddrPort *)
  Definition addr_to_addrport (a : addr) : option (list byte * Z) :=
    if negb (a_udp a) then None
    else if negb (Nat.eqb (length (a_ip a)) 4 || Nat.eqb (length (a_ip a)) 16) then None   (* netip.AddrFromSlice *)
    else if (a_port a <=? 0)%Z || (65535 <? a_port a)%Z then None
    else Some (unmap (a_ip a), a_port a).

  (* PunchPacketEvent *)
  Record pev := mkEv { e_id : list byte; e_from : list byte * Z; e_ty : N; e_pad : nat }.

  Definition registry := list (list byte * rmeta).   (* map[string]PunchMetadata, keys distinct *)

  Definition reg_remove (id : list byte) (r : registry) : registry :=
    filter (fun e => negb (bytes_eq (fst e) id)) r.
  Definition reg_add (id : list byte) (m : rmeta) (r : registry) : registry := (id, m) :: reg_remove id r.

  Variable is_stun_resp : list byte -> bool.

  (* the range loop of decodePunchPacket visits the map in an unspecified order and returns at the
     first attempt that decodes: the possible results are exactly `cands` *)
  Definition cands (r : registry) (p : list byte) (from : list byte * Z) : list pev :=
    flat_map (fun e => match decode_punch p (snd e) with
                       | Ok (ty, pad) => [mkEv (fst e) from ty pad]
                       | _ => []
                       end) r.

  Definition any_panic (r : registry) (p : list byte) : bool :=
    existsb (fun e => is_panic (decode_punch p (snd e))) r.

  Inductive verdict := VStun | VPunch (cs : list pev) | VPass.

  (* body of the ReadFrom loop for one datagram p[:n] from `from` *)
  Definition classify (r : registry) (p : list byte) (from : addr) : Res verdict :=
    if is_stun_resp p then Ok VStun
    else match addr_to_addrport from with
         | None => Ok VPass
         | Some ap =>
             if any_panic r p then Panic 5
             else match cands r p ap with
                  | [] => Ok VPass
                  | cs => Ok (VPunch cs)
                  end
         end.

  Record dstate := mkD { d_reg : registry;
                         d_ev : list pev;             (* c.events, FIFO *)
                         d_stun : list (list byte);   (* c.stun: the datagram of each queued event *)
                         d_cap : nat }.               (* capacity of both channels *)

  (* NewPunchPacketConn(conn, eventBuffer) *)
  Definition d_new (eventBuffer : Z) : dstate :=
    mkD [] [] [] (if (eventBuffer <=? 0)%Z then defaultPunchEventBuffer else Z.to_nat eventBuffer).

  (* select { case ch <- ev: default: } *)
  Definition offer {A} (cap : nat) (q : list A) (x : A) : list A :=
    if Nat.ltb (length q) cap then q ++ [x] else q.

  Inductive action :=
  | AAdd (id : list byte) (m : rmeta)                         (* AddPunchAttempt *)
  | ARemove (id : list byte)                                  (* RemovePunchAttempt *)
  | ARecv (p : list byte) (from : addr) (pick : list pev -> nat)
      (* one datagram returned by the wrapped conn without error and run through the loop body;
         `pick` resolves the map iteration order *)
  | ATakeEv                                                   (* <-Events() if ready *)
  | ATakeStun.                                                (* <-STUNEvents() if ready *)

  Inductive out :=
  | OAdd (ok : bool)
  | ONone
  | OStun                                  (* withheld: STUN event offered *)
  | OPunch (ev : pev)                      (* withheld: punch event offered *)
  | OPass (p : list byte) (from : addr)    (* returned to the caller of ReadFrom *)
  | OEv (e : option pev)
  | OStunEv (e : option (list byte)).

  Definition step (s : dstate) (a : action) : Res (dstate * out) :=
    match a with
    | AAdd id m =>
        match id with
        | [] => Ok (s, OAdd false)
        | _ => match decode_meta m with
               | Ok _ => Ok (mkD (reg_add id m (d_reg s)) (d_ev s) (d_stun s) (d_cap s), OAdd true)
               | Err _ => Ok (s, OAdd false)
               | Panic n => Panic n
               end
        end
    | ARemove id => Ok (mkD (reg_remove id (d_reg s)) (d_ev s) (d_stun s) (d_cap s), ONone)
    | ARecv p from pick =>
        v <- classify (d_reg s) p from ;;
        match v with
        | VStun => Ok (mkD (d_reg s) (d_ev s) (offer (d_cap s) (d_stun s) p) (d_cap s), OStun)
        | VPunch cs =>
            let ev := nth (Nat.modulo (pick cs) (length cs)) cs (mkEv [] ([], 0%Z) 0 0) in
            Ok (mkD (d_reg s) (offer (d_cap s) (d_ev s) ev) (d_stun s) (d_cap s), OPunch ev)
        | VPass => Ok (s, OPass p from)
        end
    | ATakeEv =>
        match d_ev s with
        | [] => Ok (s, OEv None)
        | e :: q => Ok (mkD (d_reg s) q (d_stun s) (d_cap s), OEv (Some e))
        end
    | ATakeStun =>
        match d_stun s with
        | [] => Ok (s, OStunEv None)
        | e :: q => Ok (mkD (d_reg s) (d_ev s) q (d_cap s), OStunEv (Some e))
        end
    end.

  Fixpoint run (s : dstate) (l : list action) : Res (dstate * list out) :=
    match l with
    | [] => Ok (s, [])
    | a :: t => r <- step s a ;; r2 <- run (fst r) t ;; Ok (fst r2, snd r :: snd r2)
    end.

  (* ReadFrom(p) over the wrapped conn's future: each item is either a datagram (already cut to
     len(p) by the socket) or an error return (n, addr, err), which is passed on untouched *)
  Inductive uitem := UPkt (p : list byte) (from : addr) (pick : list pev -> nat) | UErr.

  Inductive rres := RPkt (p : list byte) (from : addr) | RErr | RBlocked.

  Fixpoint read_from (s : dstate) (q : list uitem) : Res (dstate * list uitem * rres) :=
    match q with
    | [] => Ok (s, [], RBlocked)                     (* the wrapped ReadFrom does not return *)
    | UErr :: t => Ok (s, t, RErr)
    | UPkt p from pick :: t =>
        r <- step s (ARecv p from pick) ;;
        match snd r with
        | OPass p' from' => Ok (fst r, t, RPkt p' from')
        | _ => read_from (fst r) t                   (* continue *)
        end
    end.

  (* ---------- ServerPuncher (server_punch.go) ---------- *)
  Record sstate := mkS { s_conn : dstate;
                         s_att : list (list byte * list pev);     (* attempt id -> its channel *)
                         s_live : bool }.   (* the dispatch goroutine has not yet taken `case <-ctx.Done(): return` *)

  Definition att_find (id : list byte) (l : list (list byte * list pev)) : option (list pev) :=
    match find (fun e => bytes_eq (fst e) id) l with Some e => Some (snd e) | None => None end.
  Definition att_remove (id : list byte) (l : list (list byte * list pev)) :=
    filter (fun e => negb (bytes_eq (fst e) id)) l.
  Definition att_set (id : list byte) (ch : list pev) (l : list (list byte * list pev)) :=
    map (fun e => if bytes_eq (fst e) id then (fst e, ch) else e) l.

  Inductive saction :=
  | SAdd (id : list byte) (m : rmeta)     (* addAttempt *)
  | SRemove (id : list byte)              (* removeAttempt *)
  | SDispatch                             (* one iteration of dispatch with an event ready *)
  | SStop                                 (* the lifetime context given to NewServerPuncher is cancelled and
                                             dispatch returns: it touches neither registry *)
  | SConn (a : action)                    (* anything happening on the PunchPacketConn *)
  | STake (id : list byte).               (* Respond receives from its channel *)

  Inductive sout := SOAdd (ok : bool) | SONone | SOConn (o : out) | SORouted (to : option (list byte)) | SOTake (e : option pev).

  Definition sstep (s : sstate) (a : saction) : Res (sstate * sout) :=
    match a with
    | SAdd id m =>
        match att_find id (s_att s) with
        | Some _ => Ok (s, SOAdd false)                                   (* duplicate id *)
        | None =>
            r <- step (s_conn s) (AAdd id m) ;;
            match snd r with
            | OAdd true => Ok (mkS (fst r) ((id, []) :: s_att s) (s_live s), SOAdd true)
            | _ => Ok (mkS (fst r) (s_att s) (s_live s), SOAdd false)     (* rolled back *)
            end
        end
    | SRemove id =>
        (* p.conn.RemovePunchAttempt(id) unconditionally, then delete(p.attempts, id) *)
        r <- step (s_conn s) (ARemove id) ;;
        Ok (mkS (fst r) (att_remove id (s_att s)) (s_live s), SONone)
    | SDispatch =>
        if negb (s_live s) then Ok (s, SORouted None)      (* nobody receives from conn.Events() any more *)
        else
        match d_ev (s_conn s) with
        | [] => Ok (s, SORouted None)
        | ev :: q =>
            let c := mkD (d_reg (s_conn s)) q (d_stun (s_conn s)) (d_cap (s_conn s)) in
            match att_find (e_id ev) (s_att s) with
            | None => Ok (mkS c (s_att s) (s_live s), SORouted None)
            | Some ch =>
                if Nat.ltb (length ch) defaultServerPunchEventBuffer
                then Ok (mkS c (att_set (e_id ev) (ch ++ [ev]) (s_att s)) (s_live s), SORouted (Some (e_id ev)))
                else Ok (mkS c (s_att s) (s_live s), SORouted None)
            end
        end
    | SStop => Ok (mkS (s_conn s) (s_att s) false, SONone)
    | SConn a' => r <- step (s_conn s) a' ;; Ok (mkS (fst r) (s_att s) (s_live s), SOConn (snd r))
    | STake id =>
        match att_find id (s_att s) with
        | Some (e :: q) => Ok (mkS (s_conn s) (att_set id q (s_att s)) (s_live s), SOTake (Some e))
        | _ => Ok (s, SOTake None)
        end
    end.

  Fixpoint srun (s : sstate) (l : list saction) : Res (sstate * list sout) :=
    match l with
    | [] => Ok (s, [])
    | a :: t => r <- sstep s a ;; r2 <- srun (fst r) t ;; Ok (fst r2, snd r :: snd r2)
    end.

  (* ---------- ServerPuncher.Respond ---------- *)
  (* the arguments as far as the registries depend on them *)
  Record rargs := mkRA { ra_id : list byte;        (* attemptID *)
                         ra_meta : rmeta;          (* meta *)
                         ra_ncand : nat;           (* len(candidatePunchAddrs(localAddrs, peerAddrs, family)): oracle *)
                         ra_timeout : Z;           (* config.Timeout  (time.Duration, ns) *)
                         ra_interval : Z }.        (* config.Interval (time.Duration, ns) *)

  (* the validation exits, in program order; none of them has touched a registry *)
  Inductive rerr :=
  | REId          (* "id is required" *)
  | REMeta        (* decodePunchMetadata failed *)
  | RECand        (* "no compatible peer addresses" *)
  | RETimeout     (* "timeout must not be negative" *)
  | REInterval.   (* "interval must be positive" *)

  (* Respond up to (not including) p.addAttempt: Ok None = every check passed *)
  Definition respond_precheck (a : rargs) : Res (option rerr) :=
    match ra_id a with
    | [] => Ok (Some REId)
    | _ =>
        match decode_meta (ra_meta a) with
        | Panic n => Panic n
        | Err _ => Ok (Some REMeta)
        | Ok _ =>
            if Nat.eqb (ra_ncand a) 0 then Ok (Some RECand)
            else
              let timeout := if (ra_timeout a =? 0)%Z then defaultPunchTimeout else ra_timeout a in
              if (timeout <? 0)%Z then Ok (Some RETimeout)
              else
                let interval := if (ra_interval a =? 0)%Z then defaultPunchInterval else ra_interval a in
                if (interval <=? 0)%Z then Ok (Some REInterval) else Ok None
        end
    end.

  (* which case of the select loop returned *)
  Inductive wexit :=
  | WEvent        (* case ev := <-events *)
  | WTimeout      (* ctx.Done(), DeadlineExceeded: the WithTimeout timer *)
  | WCancel.      (* ctx.Done(), the caller's context *)

  (* every way Respond returns *)
  Inductive routcome :=
  | RoErr (e : rerr)        (* a validation exit: before addAttempt, so before the defer *)
  | RoDup                   (* addAttempt: the id is in p.attempts ("duplicate id"); returns before the defer *)
  | RoWait (w : wexit).     (* registered, waited, left the loop through w; the deferred removeAttempt runs *)

  (* the outcome is one the code can take from state s with arguments a (the wait exit is decided
     by what happens while it waits, not by the state at the call) *)
  Definition respond_can (s : sstate) (a : rargs) (o : routcome) : Prop :=
    match o with
    | RoErr e => respond_precheck a = Ok (Some e)
    | RoDup => respond_precheck a = Ok None /\ att_find (ra_id a) (s_att s) <> None
    | RoWait _ => respond_precheck a = Ok None /\ att_find (ra_id a) (s_att s) = None
    end.

  (* Respond(ctx, attemptID, ..., meta, config) as the sequence of atomic sections it contributes to
     a history of the server.  A validation exit contributes nothing.  Otherwise addAttempt(attemptID,
     meta); if that is rejected Respond returns at once (no defer yet).  If it is accepted then -
     while Respond is blocked in its select - whatever else happens on the server (`mid`: datagrams,
     dispatch iterations, other attempts, and SStop: the puncher's lifetime context may be cancelled
     at any point, the Respond context is the caller's and need not derive from it), then its own
     receive if it leaves through `case ev := <-events`, then the deferred removeAttempt(attemptID).
     Both registries are Go maps keyed by the string: the id that is removed is byte for byte the id
     that was registered (no normalisation of any kind; the caller passes the rendezvous nonce text
     as it received it). *)
  Definition respond_trace (a : rargs) (o : routcome) (mid : list saction) : list saction :=
    match o with
    | RoErr _ => []
    | RoDup => [SAdd (ra_id a) (ra_meta a)]
    | RoWait w =>
        SAdd (ra_id a) (ra_meta a) :: mid ++
        match w with WEvent => [STake (ra_id a)] | _ => [] end ++ [SRemove (ra_id a)]
    end.

End Codec.

(* RFC 5389 header condition implied by stun.IsMessage + Message.Decode + Type == BindingSuccess:
   at least 20 bytes, magic cookie 0x2112A442 at [4:8], low 14 bits of the type = 0x0101
   (MessageType.ReadValue ignores the two top bits), declared length fits the datagram *)
Definition stun_hdr_ok (p : list byte) : bool :=
  Nat.leb 20 (length p) &&
  bytes_eq (firstn 4 (skipn 4 p)) [x21;x12;xa4;x42] &&
  (N.land (be_dec (firstn 2 p)) 16383 =? 257) &&
  (20 + be_dec (firstn 2 (skipn 2 p)) <=? N.of_nat (length p)).

(* ---------- the instance the code runs: crypto/sha256 ---------- *)
Definition encode_punch256 := encode_punch sha256.
Definition decode_punch256 := decode_punch sha256.
Definition step256 := step sha256.
Definition run256 := run sha256.
Definition read_from256 := read_from sha256.
Definition sstep256 := sstep sha256.
Definition srun256 := srun sha256.
