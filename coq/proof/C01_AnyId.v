(* C01 - the client id of an accepting verdict plays no part in the gate.

   Authenticator.Authenticate(addr, auth, tx) answers (ok, id); ANY id is legal with ok = true: the empty string
   (the http / command authenticators of extras pass a backend's answer through), an id that other connections
   carry too, a very long one.  In the model `authed` and `auth_id` are separate fields (h.authenticated / h.authID):
   whether a connection counts as authenticated is never read off the id.  Stated here for every id at once and
   instantiated with the empty one:

   after an accepting verdict (ok = true, id arbitrary) on connection c in any reachable state, for every later
   action sequence on any connections - rejected credentials, the same credentials again, other accepted ones -
   c stays authenticated under that very id, the authenticator is never called for c again, no verdict is taken
   for c again, and while c is open EVERY auth request on it is answered, in one step, with the 233 response and
   nothing else (no authenticator call, no masquerade call, no second online / connect event, state unchanged). *)
From Hy Require Import gen.ParamsC01 model.C01_ServerAuth proof.C01_ServerAuth.
Local Open Scope N_scope.

Section AnyId.
  Variable cfg : config.
  Variable masq : request -> response.

  Notation step := (step cfg masq).
  Notation run := (run cfg masq).

  (* an auth request on an open, authenticated connection of a reachable state: 233, nothing else, same state *)
  Lemma repeat_auth_step s c r pad :
    Inv s -> authed (s c) = true -> closed (s c) = false -> is_auth_req r = true ->
    step s (HttpReq c r pad) = Some (s, [ObsResp c r (resp_auth_ok cfg pad)]).
  Proof.
    intros HI Ha Hc Hr. destruct (HI c) as [_ [HJ _]]. specialize (HJ Ha).
    cbn [C01_ServerAuth.step]. rewrite Hc, Hr, HJ, Ha. reflexivity.
  Qed.

  (* an accepting verdict sets the flag whatever the id is, and records exactly that id *)
  Lemma accept_sets_flag s c id pad s1 o :
    step s (AuthVerdict c true id pad) = Some (s1, o) ->
    authed (s1 c) = true /\ auth_id (s1 c) = id.
  Proof.
    intros H. cbn [C01_ServerAuth.step] in H. destruct (in_auth (s c)) as [r|]; [|discriminate].
    injection H as <- _. rewrite upd_same. cbn [authed auth_id]. split; reflexivity.
  Qed.

  Theorem accept_with_any_id_is_final acts1 s0 tr0 c id pad s1 o acts2 s2 tr2 :
    run init acts1 = Some (s0, tr0) ->
    step s0 (AuthVerdict c true id pad) = Some (s1, o) ->
    run s1 acts2 = Some (s2, tr2) ->
    authed (s2 c) = true /\ auth_id (s2 c) = id /\
    (forall auth tx, ~ In (EObs (ObsAuthCall c auth tx)) tr2) /\
    (forall ok id' pad', ~ In (EAct (AuthVerdict c ok id' pad')) tr2) /\
    (closed (s2 c) = false -> forall r pad2, is_auth_req r = true ->
       step s2 (HttpReq c r pad2) = Some (s2, [ObsResp c r (resp_auth_ok cfg pad2)])).
  Proof.
    intros H0 Hs H2.
    assert (HI0 : Inv s0) by (eapply run_Inv; [apply Inv_init | eassumption]).
    assert (HI1 : Inv s1) by (eapply step_Inv; eassumption).
    destruct (accept_sets_flag _ _ _ _ _ _ Hs) as [Ha1 Hid1].
    destruct (run_sticky cfg masq acts2 s1 s2 tr2 c HI1 H2 Ha1) as [B1 [B2 [B3 B4]]].
    assert (HI2 : Inv s2) by (eapply run_Inv; eassumption).
    repeat split; try assumption.
    - congruence.
    - intros Hc r pad2 Hr. now apply repeat_auth_step.
  Qed.

  (* the instance the name of this file is about: the authenticator answered (true, "") *)
  Corollary accept_with_empty_id_is_final acts1 s0 tr0 c pad s1 o acts2 s2 tr2 :
    run init acts1 = Some (s0, tr0) ->
    step s0 (AuthVerdict c true [] pad) = Some (s1, o) ->
    run s1 acts2 = Some (s2, tr2) ->
    authed (s2 c) = true /\ auth_id (s2 c) = [] /\
    (forall auth tx, ~ In (EObs (ObsAuthCall c auth tx)) tr2) /\
    (forall ok id' pad', ~ In (EAct (AuthVerdict c ok id' pad')) tr2) /\
    (closed (s2 c) = false -> forall r pad2, is_auth_req r = true ->
       step s2 (HttpReq c r pad2) = Some (s2, [ObsResp c r (resp_auth_ok cfg pad2)])).
  Proof. apply accept_with_any_id_is_final. Qed.
End AnyId.

(* ------------------------------------------------------------------ non-vacuity: the history of the class, run in the model *)

From Coq Require Import String.

Section Example.
  Let cfg := mkCfg true false 0 0.
  Let nf : response := mkResp 404 [] (bs "404 page not found").
  Let masq := fun _ : request => nf.
  Let auth_req (cred : string) := mkReq (bs "POST") (bs "hysteria") (bs "/auth") (bs cred) (bs "1000") 0.
  Let pad := bs "padding".

  (* connection 7: accepted with the EMPTY id, then wrong credentials, then the accepted ones again, then closed *)
  Let acts : list action :=
    [ HttpReq 7 (auth_req "letmein") pad; AuthVerdict 7 true [] pad;
      HttpReq 7 (auth_req "wrong") pad; HttpReq 7 (auth_req "letmein") pad;
      Stream 7 (Some frame_type_tcp_request) (bs "example.com:80"); TcpDial 7 (bs "example.com:80");
      ConnClosed 7 ].

  Example empty_id_history :
    match run cfg masq init acts with
    | Some (s, tr) =>
        authed (s 7) = true /\ auth_id (s 7) = [] /\
        count (fun e => match e with EObs (ObsAuthCall _ _ _) => true | _ => false end) tr = 1%nat /\
        count (fun e => match e with EObs (ObsResp 7 _ p) => status p =? status_auth_ok | _ => false end) tr = 3%nat /\
        count (is_connect 7) tr = 1%nat /\ count (is_online 7 true) tr = 1%nat /\ count (is_online 7 false) tr = 1%nat /\
        In (EObs (ObsOutboundTCP 7 (bs "example.com:80"))) tr
    | None => False
    end.
  Proof. vm_compute. repeat split; try reflexivity. right. tauto. Qed.
End Example.
