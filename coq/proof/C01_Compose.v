(* C01 composed with C06 (handleTCPRequest) and C07 (UDP session manager): proofs.
   (a) no component action before authentication, for THAT connection;
   (b) the product refines the abstract C01 LTS, so the C01 theorems transfer to it. *)
From Hy Require Import gen.ParamsC01 model.C01_ServerAuth proof.C01_ServerAuth model.C01_Compose.
From Hy Require model.C06_Relay model.C06_Hook model.C07_UDPSessions proof.C07_UDPSessions.
From Coq Require Import ZArith Lia Arith Permutation.
Local Open Scope N_scope.

Module UP := Hy.proof.C07_UDPSessions.

(* ------------------------------------------------------------------ small facts *)

Lemma fupd_same {A} (f : cid -> A) c v : fupd f c v c = v.
Proof. unfold fupd. now rewrite N.eqb_refl. Qed.

Lemma fupd_other {A} (f : cid -> A) c v c' : c' <> c -> fupd f c v c' = f c'.
Proof. unfold fupd. intros H. apply N.eqb_neq in H. now rewrite H. Qed.

Lemma lupd_split {A} : forall (l : list A) i h x, nth_error l i = Some h ->
  exists l1 l2, l = l1 ++ h :: l2 /\ lupd i x l = l1 ++ x :: l2.
Proof.
  induction l as [|a t IH]; intros [|i] h x H; cbn in H; try discriminate.
  - injection H as <-. exists [], t. split; reflexivity.
  - destruct (IH _ _ x H) as (l1 & l2 & -> & E). exists (a :: l1), l2. cbn. rewrite E. split; reflexivity.
Qed.

Lemma lupd_In {A} : forall (l : list A) i x y, In y (lupd i x l) -> y = x \/ In y l.
Proof.
  induction l as [|a t IH]; intros [|i] x y H; cbn in H; try contradiction.
  - destruct H as [<-|H]; auto. right. right. exact H.
  - destruct H as [<-|H]; [right; left; reflexivity|]. destruct (IH _ _ _ H); auto. right. right. assumption.
Qed.

Lemma mem_In a l : mem a l = true <-> In a l.
Proof.
  induction l as [|x t IH]; cbn; [split; [discriminate|contradiction]|].
  rewrite orb_true_iff, IH, str_eqb_eq. split; intros [H|H]; auto.
Qed.

Lemma perm_remove1 a l : In a l -> Permutation l (a :: remove1 a l).
Proof.
  induction l as [|x t IH]; cbn; [contradiction|]. intros H.
  destruct (str_eqb a x) eqn:E.
  - apply str_eqb_eq in E. subst. reflexivity.
  - destruct H as [->|H]; [rewrite str_eqb_refl in E; discriminate|].
    etransitivity; [apply perm_skip, IH, H|]. apply perm_swap.
Qed.

Lemma perm_mem a l l' : Permutation l l' -> mem a l = mem a l'.
Proof.
  intros P. destruct (mem a l) eqn:E; symmetry.
  - apply mem_In. eapply Permutation_in; eauto. now apply mem_In.
  - destruct (mem a l') eqn:E'; auto. apply mem_In in E'.
    assert (In a l) by (eapply Permutation_in; [symmetry; eauto|auto]). apply mem_In in H. congruence.
Qed.

(* ------------------------------------------------------------------ handlers: dialed or not *)

Definition pre_dial (p : H.hpc) : Prop :=
  match p with
  | H.HReadReq | H.HCheck | H.HRespHook | H.HHookTCP | H.HDial _ _ | H.HCloseOnly | H.HEnd => True
  | _ => False
  end.
Definition post_dial (p : H.hpc) : Prop :=
  match p with
  | H.HRespOk | H.HRespErr _ | H.HPutback _ | H.HRelay _ _ | H.HCloseOnly | H.HEnd => True
  | _ => False
  end.
Definition hinv (h : hrec) : Prop := if h_dialed h then post_dial (h_pc h) else pre_dial (h_pc h).

Lemma hstep_hinv md h x p' : hinv h -> H.hstep false md (h_pc h) x = Some p' ->
  hinv (mkH (h_addr h) (h_dialed h || is_dial x) p').
Proof.
  destruct h as [a d p]. unfold hinv. cbn [h_dialed h_pc h_addr]. intros I S.
  destruct d, p; cbn in I; try contradiction; destruct x; cbn in S; try discriminate;
    repeat match type of S with
           | context [match ?b with _ => _ end] => destruct b
           end; try discriminate; injection S as <-; cbn; auto.
  unfold H.after_dial_ok. destruct pb; exact I.
Qed.

(* a relay / putback action is only enabled in a handler that has dialed; a dial only in one that has not *)
Lemma hstep_dial_pre md h x p' : hinv h -> H.hstep false md (h_pc h) x = Some p' -> is_dial x = true ->
  h_dialed h = false.
Proof.
  destruct h as [a d p]. unfold hinv. cbn [h_dialed h_pc]. intros I S Dl.
  destruct d; auto. destruct p; cbn in I; try contradiction; destruct x; try discriminate; cbn in S; discriminate.
Qed.

Lemma hstep_relay_post md h c addr x p' : hinv h -> H.hstep false md (h_pc h) x = Some p' ->
  is_dial x = false -> tcp_abs c addr x <> [] -> h_dialed h = true.
Proof.
  destruct h as [a d p]. unfold hinv. cbn [h_dialed h_pc]. intros I S Dl Ab.
  destruct d; auto. destruct p; cbn in I; try contradiction; destruct x; try discriminate; cbn in S;
    try discriminate; cbn in Ab; try congruence.
Qed.

(* ------------------------------------------------------------------ C07: what a manager step does to the
   socket counter and to "a message is in flight in the receive loop" *)

Definition msg_inflight (p : U.rpc) : bool :=
  match p with U.RGot _ _ | U.RNew _ _ | U.RFeed _ _ _ | U.RInit _ _ => true | _ => false end.

Ltac dmatch H :=
  repeat match type of H with
         | context [match ?x with _ => _ end] => let E := fresh "E" in destruct x eqn:E; try discriminate H
         end.

Lemma rl_rl_after s cl x : msg_inflight (U.rl (U.rl_after s cl x)) = false.
Proof. unfold U.rl_after. destruct cl as [[|a t] [p|]]; try destruct x; reflexivity. Qed.

Lemma rl_sw_after s cl : U.rl (U.sw_after s cl) = U.rl s.
Proof. unfold U.sw_after. destruct cl as [[|a t] [p|]]; reflexivity. Qed.

Lemma close1_rl s e s' won ev : U.close1 s e = Some (s', won, ev) -> U.rl s' = U.rl s /\ U.nsock s' = U.nsock s.
Proof.
  unfold U.close1. destruct (U.get s e) as [en|]; [|discriminate].
  destruct (U.e_closed en); intros H; inversion H; subst; split; reflexivity.
Qed.

Lemma closer_c1_rl s cl e s' cl' ev : U.closer_c1 s cl e = Some (s', cl', ev) ->
  U.rl s' = U.rl s /\ U.nsock s' = U.nsock s.
Proof.
  unfold U.closer_c1. destruct cl as [todo [c|]]; [discriminate|].
  destruct (U.mem_nat e todo); [|discriminate].
  destruct (U.close1 s e) as [[[s1 won] ev1]|] eqn:C; [|discriminate].
  intros H; inversion H; subst. eapply close1_rl; eauto.
Qed.

Lemma closer_del_rl s cl s' cl' : U.closer_del s cl = Some (s', cl') -> U.rl s' = U.rl s /\ U.nsock s' = U.nsock s.
Proof.
  unfold U.closer_del. destruct cl as [todo [[e [|]]|]]; try discriminate.
  destruct (U.get s e); [|discriminate]. intros H; inversion H; subst. split; reflexivity.
Qed.

Lemma ustep_facts timeout u x u' ev : U.step timeout u x = Some (u', ev) ->
  (U.nsock u' = U.nsock u \/ (x = U.ADial true /\ U.nsock u' = U.nsock u + 1)) /\
  (msg_inflight (U.rl u') = true ->
     (msg_inflight (U.rl u) = true /\ forall ok, x <> U.ADial ok) \/ exists sid cf, x = U.ARecv sid cf).
Proof.
  destruct x as [sid c| | | | | | |ok|ok| |e ok|e|e ok|t e|t|t| | | |d]; cbn [U.step]; intros S.
  all: dmatch S; inversion S; subst; clear S.
  all: repeat match goal with
              | Hc : U.closer_c1 _ _ _ = Some _ |- _ => apply closer_c1_rl in Hc; destruct Hc as [? ?]
              | Hc : U.close1 _ _ = Some _ |- _ => apply close1_rl in Hc; destruct Hc as [? ?]
              | Hc : U.closer_del _ _ = Some _ |- _ => apply closer_del_rl in Hc; destruct Hc as [? ?]
              end.
  all: repeat match goal with
              | |- context [match ?l with [] => _ | _ :: _ => _ end] => destruct l
              end.
  all: split;
    [ rewrite ?UP.nsock_rl_after, ?UP.nsock_sw_after; cbn [U.nsock U.set_rl U.set_sw U.set_entry U.set_heap U.set_table];
      try (left; reflexivity); try (left; congruence); try (right; split; reflexivity)
    | rewrite ?rl_rl_after, ?rl_sw_after; cbn [U.rl U.set_rl U.set_sw U.set_entry U.set_heap U.set_table msg_inflight];
      intros Hf; try discriminate Hf;
      try (right; eexists; eexists; reflexivity);
      try (left; split; [first [reflexivity | congruence | (rewrite E; reflexivity)] | intros ok0; discriminate]) ].
Qed.

Section Compose.
  Variable cfg : config.
  Variable masq : request -> response.
  Variable md : R.mode.
  Variable timeout : N.

  Notation step := (step cfg masq).
  Notation run := (run cfg masq).
  Notation kstep := (kstep cfg masq md timeout).
  Notation krun := (krun cfg masq md timeout).

  (* ---------------------------------------------------------------- what each kind of product step is *)

  Lemma kstep_ctl_spec k a0 k' o : kstep k (KCtl a0) = Some (k', o) ->
    is_ctl a0 = true /\ step (k_base k) a0 = Some (k_base k', o) /\
    k_got k' = k_got k /\ k_sess k' = k_sess k /\
    k_tcp k' = match a0 with
               | Stream c ft addr =>
                   if hijacks (k_base k c) ft
                   then fupd (k_tcp k) c (k_tcp k c ++ [mkH addr false H.HReadReq]) else k_tcp k
               | _ => k_tcp k
               end /\
    k_udp k' = match k_udp k (act_conn a0) with
               | None => if udp_sm (k_base k' (act_conn a0))
                         then fupd (k_udp k) (act_conn a0) (Some U.init) else k_udp k
               | Some _ => k_udp k
               end.
  Proof.
    cbn [C01_Compose.kstep]. destruct (is_ctl a0); [|discriminate].
    destruct (step (k_base k) a0) as [[b' o']|]; [|discriminate].
    intros E. injection E as <- <-. cbn. repeat split; try reflexivity. destruct a0; reflexivity.
  Qed.

  Lemma kstep_tcp_spec k c i addr x k' o : kstep k (KTcp c i addr x) = Some (k', o) ->
    exists h p', nth_error (k_tcp k c) i = Some h /\ addr = h_addr h /\
      H.hstep false md (h_pc h) x = Some p' /\
      k_base k' = k_base k /\ k_udp k' = k_udp k /\ k_got k' = k_got k /\ k_sess k' = k_sess k /\
      k_tcp k' = fupd (k_tcp k) c (lupd i (mkH (h_addr h) (h_dialed h || is_dial x) p') (k_tcp k c)) /\
      o = tcp_obs c addr x.
  Proof.
    cbn [C01_Compose.kstep]. destruct (nth_error (k_tcp k c) i) as [h|]; [|discriminate].
    destruct (str_eqb addr (h_addr h)) eqn:E; [|discriminate]. apply str_eqb_eq in E.
    destruct (H.hstep false md (h_pc h) x) as [p'|] eqn:S; [|discriminate].
    intros Q. injection Q as <- <-. exists h, p'. cbn. repeat split; auto.
  Qed.

  Inductive udp_kind (k k' : kstate) (c : cid) (addr : str) (n : N) (x : U.action) (o : list obs) : Prop :=
  | UK_recv sid cf : x = U.ARecv sid cf -> mem addr (dq (k_base k c)) = true ->
      k_base k' = upd (k_base k) c (set_dq (k_base k c) (remove1 addr (dq (k_base k c)))) ->
      k_got k' = fupd (k_got k) c (addr :: k_got k c) -> k_sess k' = k_sess k -> o = [] ->
      udp_kind k k' c addr n x o
  | UK_dial ok rest : x = U.ADial ok -> k_got k c = addr :: rest -> k_base k' = k_base k ->
      k_got k' = fupd (k_got k) c rest -> k_sess k' = fupd (k_sess k) c (addr :: k_sess k c) ->
      o = [ObsOutboundUDP c addr] -> udp_kind k k' c addr n x o
  | UK_relay : udp_abs c addr n x = [UdpRelay c addr n] -> mem addr (k_sess k c) = true ->
      k_base k' = k_base k -> k_got k' = k_got k -> k_sess k' = k_sess k -> o = [ObsRelay c n] ->
      udp_kind k k' c addr n x o
  | UK_other : udp_abs c addr n x = [] -> (forall sid cf, x <> U.ARecv sid cf) -> (forall ok, x <> U.ADial ok) ->
      k_base k' = k_base k -> k_got k' = k_got k -> k_sess k' = k_sess k -> o = [] ->
      udp_kind k k' c addr n x o.

  Lemma kstep_udp_spec k c addr n x k' o : kstep k (KUdp c addr n x) = Some (k', o) ->
    exists u u' ev, k_udp k c = Some u /\ U.step timeout u x = Some (u', ev) /\
      k_udp k' = fupd (k_udp k) c (Some u') /\ k_tcp k' = k_tcp k /\ udp_kind k k' c addr n x o.
  Proof.
    cbn [C01_Compose.kstep]. destruct (k_udp k c) as [u|]; [|discriminate].
    destruct (U.step timeout u x) as [[u' ev]|] eqn:S; [|discriminate].
    intros Q. exists u, u', ev. split; [reflexivity|]. split; [exact S|]. clear S.
    destruct x.
    all: try (injection Q as <- <-; cbn; split; [reflexivity|]; split; [reflexivity|];
              eapply UK_other; cbn; try reflexivity; intros; discriminate).
    - destruct (mem addr (dq (k_base k c))) eqn:M; [|discriminate]. injection Q as <- <-. cbn.
      split; [reflexivity|]. split; [reflexivity|]. eapply UK_recv; cbn; eauto.
    - destruct (k_got k c) as [|a0 rest] eqn:G; [discriminate|].
      destruct (str_eqb addr a0) eqn:E; [|discriminate]. apply str_eqb_eq in E. subst a0.
      injection Q as <- <-. cbn. split; [reflexivity|]. split; [reflexivity|]. eapply UK_dial; cbn; eauto.
    - destruct (mem addr (k_sess k c)) eqn:M; [|discriminate]. injection Q as <- <-. cbn.
      split; [reflexivity|]. split; [reflexivity|]. eapply UK_relay; cbn; eauto.
    - destruct (mem addr (k_sess k c)) eqn:M; [|discriminate]. injection Q as <- <-. cbn.
      split; [reflexivity|]. split; [reflexivity|]. eapply UK_relay; cbn; eauto.
  Qed.

  (* ---------------------------------------------------------------- invariant of the product *)

  Definition uinv (u : U.state) (got sess : list str) : Prop :=
    UP.good (UP.socks u) (U.nsock u) /\ U.nsock u <= N.of_nat (length sess) /\
    (msg_inflight (U.rl u) = true -> got <> []).

  Definition KInv (k : kstate) : Prop :=
    Inv (k_base k) /\
    (forall c, k_tcp k c <> [] -> authed (k_base k c) = true) /\
    (forall c, k_udp k c <> None -> udp_sm (k_base k c) = true) /\
    (forall c h, In h (k_tcp k c) -> hinv h) /\
    (forall c u, k_udp k c = Some u -> uinv u (k_got k c) (k_sess k c)).

  Lemma KInv_init : KInv kinit.
  Proof.
    split; [apply Inv_init|]. cbn. repeat split; try congruence; try contradiction.
  Qed.

  Lemma udp_sm_authed s c : Inv s -> udp_sm (s c) = true -> authed (s c) = true.
  Proof.
    intros HI Hu. destruct (authed (s c)) eqn:E; auto.
    destruct (HI c) as [HG _]. destruct (HG E) as (_ & _ & G3 & _). congruence.
  Qed.

  Lemma step_udp_sm_mono s a s' o c : step s a = Some (s', o) -> udp_sm (s c) = true -> udp_sm (s' c) = true.
  Proof.
    intros Hs Hu. destruct (N.eq_dec c (act_conn a)) as [->|Hne].
    2:{ rewrite (step_frame _ _ _ _ _ _ _ Hs Hne). exact Hu. }
    destruct a; cbn [act_conn] in *; step_cases Hs; auto; rewrite upd_same; cbn [udp_sm]; auto.
    rewrite Hu. reflexivity.
  Qed.

  Lemma step_authed_mono s a s' o c : Inv s -> step s a = Some (s', o) -> authed (s c) = true -> authed (s' c) = true.
  Proof. intros HI Hs Ha. destruct (step_sticky _ _ _ _ _ _ c HI Hs Ha) as [A _]. exact A. Qed.

  Lemma uinv_init got sess : uinv U.init got sess.
  Proof.
    split; [|split].
    - intros [|i] k0 Hn; discriminate.
    - cbn. lia.
    - cbn. discriminate.
  Qed.

  Lemma inv_conn_set_dq k q : inv_conn k -> inv_conn (set_dq k q).
  Proof. unfold inv_conn, gate_closed, set_dq. cbn. tauto. Qed.

  Lemma KInv_step k a k' o : KInv k -> kstep k a = Some (k', o) -> KInv k'.
  Proof.
    intros (I0 & I1 & I2 & I3 & I4) Hs. destruct a as [a0|c i addr x|c addr n x].
    - (* control *)
      destruct (kstep_ctl_spec _ _ _ _ Hs) as (Hc & Sb & Eg & Es & Et & Eu).
      assert (I0' : Inv (k_base k')) by (eapply step_Inv; eauto).
      split; [exact I0'|]. split; [|split; [|split]].
      + intros c0 Hn. rewrite Et in Hn.
        assert (Old : k_tcp k c0 <> [] -> authed (k_base k' c0) = true).
        { intros Hn0. apply (step_authed_mono _ _ _ _ c0 I0 Sb). auto. }
        destruct a0; auto.
        destruct (hijacks (k_base k c) ft) eqn:Hj; auto.
        destruct (N.eq_dec c0 c) as [->|Hne]; [|rewrite fupd_other in Hn by auto; auto].
        apply (step_authed_mono _ _ _ _ c I0 Sb). unfold hijacks in Hj. destruct ft; [|discriminate].
        apply andb_true_iff in Hj. tauto.
      + intros c0 Hn. rewrite Eu in Hn.
        assert (Old : k_udp k c0 <> None -> udp_sm (k_base k' c0) = true).
        { intros Hn0. apply (step_udp_sm_mono _ _ _ _ c0 Sb). auto. }
        destruct (k_udp k (act_conn a0)) eqn:Ku; auto.
        destruct (udp_sm (k_base k' (act_conn a0))) eqn:Us; auto.
        destruct (N.eq_dec c0 (act_conn a0)) as [->|Hne]; [exact Us|rewrite fupd_other in Hn by auto; auto].
      + intros c0 h Hin. rewrite Et in Hin. destruct a0; eauto.
        destruct (hijacks (k_base k c) ft); eauto.
        destruct (N.eq_dec c0 c) as [->|Hne]; [|rewrite fupd_other in Hin by auto; eauto].
        rewrite fupd_same in Hin. apply in_app_or in Hin. destruct Hin as [Hin|[<-|[]]]; eauto. exact I.
      + intros c0 u Hu. rewrite Eg, Es. rewrite Eu in Hu.
        destruct (k_udp k (act_conn a0)) eqn:Ku; auto.
        destruct (udp_sm (k_base k' (act_conn a0))); auto.
        destruct (N.eq_dec c0 (act_conn a0)) as [->|Hne]; [|rewrite fupd_other in Hu by auto; auto].
        rewrite fupd_same in Hu. injection Hu as <-. apply uinv_init.
    - (* a handler *)
      destruct (kstep_tcp_spec _ _ _ _ _ _ _ Hs) as (h & p' & Hn & -> & Sh & Eb & Eu & Eg & Es & Et & _).
      unfold KInv. rewrite Eb. split; [exact I0|]. split; [|split; [|split]].
      + intros c0 Hne. apply I1. rewrite Et in Hne.
        destruct (N.eq_dec c0 c) as [->|Hd]; [|rewrite fupd_other in Hne by auto; auto].
        intros E. rewrite E in Hn. destruct i; discriminate.
      + rewrite Eu. exact I2.
      + intros c0 h0 Hin. rewrite Et in Hin.
        destruct (N.eq_dec c0 c) as [->|Hd]; [|rewrite fupd_other in Hin by auto; eauto].
        rewrite fupd_same in Hin. apply lupd_In in Hin. destruct Hin as [->|Hin]; eauto.
        eapply hstep_hinv; eauto. eapply I3. eapply nth_error_In; eauto.
      + rewrite Eu, Eg, Es. exact I4.
    - (* the session manager *)
      destruct (kstep_udp_spec _ _ _ _ _ _ _ Hs) as (u & u' & ev & Ku & Su & Eu & Et & Kd).
      destruct (I4 _ _ Ku) as (G & Ns & Fl).
      pose proof (UP.step_good timeout _ _ _ _ G Su) as G'.
      destruct (ustep_facts _ _ _ _ _ Su) as [Fn Ff].
      assert (Iu : forall got' sess', uinv u' got' sess' ->
                   k_got k' = fupd (k_got k) c got' \/ (k_got k' = k_got k /\ got' = k_got k c) ->
                   k_sess k' = fupd (k_sess k) c sess' \/ (k_sess k' = k_sess k /\ sess' = k_sess k c) ->
                   forall c0 u0, k_udp k' c0 = Some u0 -> uinv u0 (k_got k' c0) (k_sess k' c0)).
      { intros got' sess' Hu' Hg Hss c0 u0 Hk. rewrite Eu in Hk.
        destruct (N.eq_dec c0 c) as [->|Hd].
        - rewrite fupd_same in Hk. injection Hk as <-.
          replace (k_got k' c) with got' by (destruct Hg as [->|[-> ->]]; [now rewrite fupd_same|reflexivity]).
          replace (k_sess k' c) with sess' by (destruct Hss as [->|[-> ->]]; [now rewrite fupd_same|reflexivity]).
          exact Hu'.
        - rewrite fupd_other in Hk by auto.
          replace (k_got k' c0) with (k_got k c0) by (destruct Hg as [->|[-> _]]; [now rewrite fupd_other by auto|reflexivity]).
          replace (k_sess k' c0) with (k_sess k c0) by (destruct Hss as [->|[-> _]]; [now rewrite fupd_other by auto|reflexivity]).
          eauto. }
      assert (Iudp : forall c0, k_udp k' c0 <> None -> k_udp k c0 <> None).
      { intros c0. rewrite Eu. destruct (N.eq_dec c0 c) as [->|Hd]; [congruence|now rewrite fupd_other by auto]. }
      destruct Kd as [sid cf Hx Hm Eb Eg Es _|ok rest Hx Hg Eb Eg Es _|Hab Hm Eb Eg Es _|Hab Hnr Hnd Eb Eg Es _].
      + (* ARecv *)
        split; [|split; [|split; [|split]]].
        * rewrite Eb. intros c0. destruct (N.eq_dec c0 c) as [->|Hd];
            [rewrite upd_same; apply inv_conn_set_dq, I0|rewrite upd_other by auto; apply I0].
        * intros c0 Hn. rewrite Et in Hn. rewrite Eb. destruct (N.eq_dec c0 c) as [->|Hd];
            [rewrite upd_same; cbn; auto|rewrite upd_other by auto; auto].
        * intros c0 Hn. apply Iudp in Hn. rewrite Eb. destruct (N.eq_dec c0 c) as [->|Hd];
            [rewrite upd_same; cbn; auto|rewrite upd_other by auto; auto].
        * rewrite Et. exact I3.
        * apply (Iu (addr :: k_got k c) (k_sess k c)); auto.
          split; [exact G'|]. split; [|intros _; discriminate].
          destruct Fn as [->|[Hd _]]; [exact Ns|subst x; discriminate].
      + (* ADial *)
        unfold KInv. rewrite Eb. split; [exact I0|]. split; [rewrite Et; exact I1|]. split; [intros c0 Hn; apply Iudp in Hn; auto|].
        split; [rewrite Et; exact I3|].
        apply (Iu rest (addr :: k_sess k c)); auto.
        split; [exact G'|]. split.
        * cbn [length]. destruct Fn as [->|[_ ->]]; lia.
        * intros Hf. destruct (Ff Hf) as [[_ Hnd]|(sid & cf & Hr)]; [exfalso; eapply Hnd; eauto|subst x; discriminate].
      + (* AWrite / ASend *)
        unfold KInv. rewrite Eb. split; [exact I0|]. split; [rewrite Et; exact I1|]. split; [intros c0 Hn; apply Iudp in Hn; auto|].
        split; [rewrite Et; exact I3|].
        apply (Iu (k_got k c) (k_sess k c)); auto.
        split; [exact G'|]. split.
        * destruct Fn as [->|[Hd _]]; [exact Ns|subst x; discriminate].
        * intros Hf. destruct (Ff Hf) as [[Hi _]|(sid & cf & Hr)]; [auto|subst x; discriminate].
      + (* anything else *)
        unfold KInv. rewrite Eb. split; [exact I0|]. split; [rewrite Et; exact I1|]. split; [intros c0 Hn; apply Iudp in Hn; auto|].
        split; [rewrite Et; exact I3|].
        apply (Iu (k_got k c) (k_sess k c)); auto.
        split; [exact G'|]. split.
        * destruct Fn as [->|[Hd _]]; [exact Ns|exfalso; eapply Hnd; eauto].
        * intros Hf. destruct (Ff Hf) as [[Hi _]|(sid & cf & Hr)]; [auto|exfalso; eapply Hnr; eauto].
  Qed.

  Lemma KInv_run acts : forall k k' tr, KInv k -> krun k acts = Some (k', tr) -> KInv k'.
  Proof.
    induction acts as [|a t IH]; intros k k' tr HI Hr; cbn [C01_Compose.krun] in Hr.
    - injection Hr as <- _. exact HI.
    - destruct (kstep k a) as [[k1 o]|] eqn:Es; [|discriminate].
      destruct (krun k1 t) as [[k2 tr2]|] eqn:Er; [|discriminate].
      injection Hr as <- _. eapply IH; [|exact Er]. eapply KInv_step; eauto.
  Qed.

  (* ---------------------------------------------------------------- (a) the gate, as a fact about states *)

  (* whatever a handler or the session manager of connection c does - reading the request, the hook,
     the dial, every Read / Write / LogTraffic of the copy loops, the teardown; ReceiveMessage, the
     table, the dial, WriteTo, ReadFrom, SendMessage, closing - it does in a product state whose C01
     component has c authenticated *)
  Lemma component_needs_auth k a k' o c :
    KInv k -> kstep k a = Some (k', o) -> kcomp_conn a = Some c -> authed (k_base k c) = true.
  Proof.
    intros (I0 & I1 & I2 & _) Hs Hc. destruct a as [a0|c1 i addr x|c1 addr n x]; cbn in Hc; [discriminate| |];
      injection Hc as ->.
    - destruct (kstep_tcp_spec _ _ _ _ _ _ _ Hs) as (h & p' & Hn & _).
      apply I1. intros E. rewrite E in Hn. destruct i; discriminate.
    - destruct (kstep_udp_spec _ _ _ _ _ _ _ Hs) as (u & u' & ev & Ku & _).
      apply udp_sm_authed; auto. apply I2. congruence.
  Qed.

  (* ---------------------------------------------------------------- (b) refinement *)

  Definition pendl (l : list hrec) : list str := map h_addr (filter (fun h => negb (h_dialed h)) l).
  Definition estl (l : list hrec) : list str := map h_addr (filter h_dialed l).

  Definition crel (k : kstate) (c : cid) (a : conn) : Prop :=
    authed a = authed (k_base k c) /\ auth_id a = auth_id (k_base k c) /\ in_auth a = in_auth (k_base k c) /\
    udp_sm a = udp_sm (k_base k c) /\ closed a = closed (k_base k c) /\
    Permutation (tcp_pend a) (pendl (k_tcp k c)) /\ Permutation (tcp_est a) (estl (k_tcp k c)) /\
    Permutation (dq a) (dq (k_base k c) ++ k_got k c) /\ Permutation (udp_est a) (k_sess k c).

  Definition Rel (k : kstate) (s : state) : Prop := forall c, crel k c (s c).

  Lemma Rel_init : Rel kinit init.
  Proof. intros c. unfold crel. cbn. repeat split; auto. Qed.

  Lemma Rel_frame k s k' s' c :
    Rel k s ->
    (forall c0, c0 <> c -> s' c0 = s c0 /\ k_base k' c0 = k_base k c0 /\ k_tcp k' c0 = k_tcp k c0 /\
                           k_got k' c0 = k_got k c0 /\ k_sess k' c0 = k_sess k c0) ->
    crel k' c (s' c) -> Rel k' s'.
  Proof.
    intros HR Hf Hc c0. destruct (N.eq_dec c0 c) as [->|Hne]; auto.
    destruct (Hf _ Hne) as (E1 & E2 & E3 & E4 & E5). unfold crel. rewrite E1, E2, E3, E4, E5. apply HR.
  Qed.

  Lemma pendl_snoc l a : pendl (l ++ [mkH a false H.HReadReq]) = pendl l ++ [a].
  Proof. unfold pendl. rewrite filter_app, map_app. reflexivity. Qed.
  Lemma estl_snoc l a : estl (l ++ [mkH a false H.HReadReq]) = estl l.
  Proof. unfold estl. rewrite filter_app, map_app. cbn. apply app_nil_r. Qed.

  Ltac ctl_case s k c Sb Cr :=
    let Esc := fresh "Esc" in let Ebc := fresh "Ebc" in
    destruct (s c) as [a1 a2 a3 a4 a5 a6 a7 a8 a9] eqn:Esc;
    destruct (k_base k c) as [b1 b2 b3 b4 b5 b6 b7 b8 b9] eqn:Ebc;
    unfold crel in Cr; rewrite Ebc in Cr; cbn in Cr;
    destruct Cr as (-> & -> & -> & -> & -> & P1 & P2 & P3 & P4);
    cbn [C01_ServerAuth.step] in Sb |- *; rewrite Ebc in Sb; rewrite Esc; cbn in Sb |- *;
    repeat match type of Sb with
           | context [match ?x with _ => _ end] => let E := fresh "E" in destruct x eqn:E
           end; try discriminate Sb;
    injection Sb as Eb' <-; eexists; (split; [reflexivity|]).

  Lemma sim_ctl k s a0 k' o : KInv k -> Rel k s -> kstep k (KCtl a0) = Some (k', o) ->
    exists s', step s a0 = Some (s', o) /\ Rel k' s'.
  Proof.
    intros HI HR Hs. destruct (kstep_ctl_spec _ _ _ _ Hs) as (Hc & Sb & Eg & Es & Et & _).
    pose proof (HR (act_conn a0)) as Cr.
    destruct a0; try discriminate Hc; cbn [act_conn] in *; ctl_case s k c Sb Cr.
    all: apply (Rel_frame k s _ _ c HR);
      [ intros c0 Hne; rewrite <- Eb', Eg, Es, Et, ?upd_other by auto;
        repeat split; try reflexivity;
        try (match goal with |- context [hijacks] => idtac end;
             rewrite Ebc; cbn [hijacks authed]; rewrite ?E0, ?E1; cbn; try rewrite fupd_other by auto; reflexivity)
      | unfold crel; rewrite <- Eb', Eg, Es, Et, ?upd_same, ?Esc, ?Ebc; cbn; repeat split; auto ].
    all: cbn [hijacks authed];
      match goal with Hb : (_ && _) = _ |- _ => rewrite Hb end;
      rewrite ?fupd_other by auto; rewrite ?fupd_same; try reflexivity;
      try (match goal with
           | Q1 : Permutation ?l5 (pendl (k_tcp ?kk ?cc)) |- Permutation (?ad :: ?l5) _ =>
               change (Permutation (ad :: l5) (pendl (k_tcp kk cc ++ [mkH ad false H.HReadReq])));
               rewrite pendl_snoc; etransitivity; [apply perm_skip, Q1|apply Permutation_cons_append]
           end);
      try (match goal with
           | Q2 : Permutation ?l6 (estl (k_tcp ?kk ?cc)) |- Permutation ?l6 (map h_addr (filter h_dialed (_ ++ [mkH ?ad _ _]))) =>
               change (Permutation l6 (estl (k_tcp kk cc ++ [mkH ad false H.HReadReq])));
               rewrite estl_snoc; exact Q2
           end);
      try assumption.
  Qed.

  Lemma pendl_app l1 l2 : pendl (l1 ++ l2) = pendl l1 ++ pendl l2.
  Proof. unfold pendl. now rewrite filter_app, map_app. Qed.
  Lemma estl_app l1 l2 : estl (l1 ++ l2) = estl l1 ++ estl l2.
  Proof. unfold estl. now rewrite filter_app, map_app. Qed.
  Lemma pendl_cons h l : pendl (h :: l) = if h_dialed h then pendl l else h_addr h :: pendl l.
  Proof. unfold pendl. cbn. destruct (h_dialed h); reflexivity. Qed.
  Lemma estl_cons h l : estl (h :: l) = if h_dialed h then h_addr h :: estl l else estl l.
  Proof. unfold estl. cbn. destruct (h_dialed h); reflexivity. Qed.

  Lemma tcp_abs_cases c addr x :
    (is_dial x = true /\ tcp_abs c addr x = [TcpDial c addr] /\ tcp_obs c addr x = [ObsOutboundTCP c addr]) \/
    (is_dial x = false /\ exists n, tcp_abs c addr x = [TcpRelay c addr n] /\ tcp_obs c addr x = [ObsRelay c n]) \/
    (is_dial x = false /\ tcp_abs c addr x = [] /\ tcp_obs c addr x = []).
  Proof.
    destruct x; cbn; try (right; right; repeat split; reflexivity).
    - left. repeat split; reflexivity.
    - right; left. split; [reflexivity|]. eexists. split; reflexivity.
    - destruct a; try (right; right; repeat split; reflexivity).
      destruct a; try (right; right; repeat split; reflexivity).
      right; left. split; [reflexivity|]. eexists. split; reflexivity.
  Qed.

  Definition sim_result (k' : kstate) (s : state) (abs : list action) (o : list obs) : Prop :=
    (abs = [] /\ o = [] /\ Rel k' s) \/
    (exists a' s', abs = [a'] /\ step s a' = Some (s', o) /\ Rel k' s').

  Lemma sim_tcp k s c i addr x k' o : KInv k -> Rel k s -> kstep k (KTcp c i addr x) = Some (k', o) ->
    sim_result k' s (tcp_abs c addr x) o.
  Proof.
    intros (I0 & I1 & I2 & I3 & I4) HR Hs.
    destruct (kstep_tcp_spec _ _ _ _ _ _ _ Hs) as (h & p' & Hn & -> & Sh & Eb & Eu & Eg & Es & Et & ->).
    assert (Hh : hinv h) by (eapply I3, nth_error_In; eauto).
    destruct (lupd_split _ _ _ (mkH (h_addr h) (h_dialed h || is_dial x) p') Hn) as (l1 & l2 & El & Eup).
    pose proof (HR c) as Cr. destruct Cr as (C1 & C2 & C3 & C4 & C5 & P1 & P2 & P3 & P4).
    rewrite El in P1, P2. rewrite pendl_app, pendl_cons in P1. rewrite estl_app, estl_cons in P2.
    assert (Fr : forall s', (forall c0, c0 <> c -> s' c0 = s c0) ->
                 forall c0, c0 <> c -> s' c0 = s c0 /\ k_base k' c0 = k_base k c0 /\ k_tcp k' c0 = k_tcp k c0 /\
                                        k_got k' c0 = k_got k c0 /\ k_sess k' c0 = k_sess k c0).
    { intros s' Hs' c0 Hne. rewrite Eb, Eg, Es, Et, fupd_other by auto. repeat split; auto. }
    destruct (tcp_abs_cases c (h_addr h) x) as [(Dl & Ab & Ob)|[(Dl & n & Ab & Ob)|(Dl & Ab & Ob)]];
      rewrite Ab, Ob.
    - (* the dial *)
      pose proof (hstep_dial_pre _ _ _ _ Hh Sh Dl) as Hd. rewrite Hd in P1, P2.
      right. exists (TcpDial c (h_addr h)).
      assert (Hm : mem (h_addr h) (tcp_pend (s c)) = true).
      { apply mem_In. eapply Permutation_in; [symmetry; exact P1|]. apply in_or_app. right. left. reflexivity. }
      eexists. split; [reflexivity|]. split; [cbn [C01_ServerAuth.step]; rewrite Hm; reflexivity|].
      apply (Rel_frame k s _ _ c HR); [apply Fr; intros c0 Hne; now rewrite upd_other by auto|].
      unfold crel. rewrite upd_same, Eb, Eg, Es, Et, fupd_same, Eup. cbn [authed auth_id in_auth udp_sm closed tcp_pend tcp_est dq udp_est].
      rewrite pendl_app, pendl_cons, estl_app, estl_cons. cbn [h_dialed h_addr]. rewrite Hd, Dl. cbn [orb].
      repeat split; auto.
      + apply Permutation_cons_inv with (a := h_addr h).
        etransitivity; [symmetry; apply perm_remove1, mem_In, Hm|].
        etransitivity; [exact P1|]. symmetry. apply Permutation_middle.
      + etransitivity; [apply perm_skip, P2|]. apply Permutation_middle.
    - (* a relayed chunk / the putback *)
      pose proof (hstep_relay_post md h c (h_addr h) x p' Hh Sh Dl) as Hd. rewrite Ab in Hd.
      specialize (Hd ltac:(discriminate)). rewrite Hd in P1, P2.
      right. exists (TcpRelay c (h_addr h) n), s. split; [reflexivity|].
      assert (Hm : mem (h_addr h) (tcp_est (s c)) = true).
      { apply mem_In. eapply Permutation_in; [symmetry; exact P2|]. apply in_or_app. right. left. reflexivity. }
      split; [cbn [C01_ServerAuth.step]; rewrite Hm; reflexivity|].
      apply (Rel_frame k s _ _ c HR); [apply Fr; auto|].
      unfold crel. rewrite Eb, Eg, Es, Et, fupd_same, Eup.
      rewrite pendl_app, pendl_cons, estl_app, estl_cons. cbn [h_dialed h_addr]. rewrite Hd, Dl. cbn [orb].
      repeat split; auto.
    - (* anything else a handler does *)
      left. split; [reflexivity|]. split; [reflexivity|].
      apply (Rel_frame k s _ _ c HR); [apply Fr; auto|].
      unfold crel. rewrite Eb, Eg, Es, Et, fupd_same, Eup.
      rewrite pendl_app, pendl_cons, estl_app, estl_cons. cbn [h_dialed h_addr]. rewrite Dl, orb_false_r.
      repeat split; auto.
  Qed.

  Lemma sim_udp k s c addr n x k' o : KInv k -> Rel k s -> kstep k (KUdp c addr n x) = Some (k', o) ->
    sim_result k' s (udp_abs c addr n x) o.
  Proof.
    intros (I0 & I1 & I2 & I3 & I4) HR Hs.
    destruct (kstep_udp_spec _ _ _ _ _ _ _ Hs) as (u & u' & ev & Ku & Su & Eu & Et & Kd).
    pose proof (HR c) as Cr. destruct Cr as (C1 & C2 & C3 & C4 & C5 & P1 & P2 & P3 & P4).
    destruct Kd as [sid cf Hx Hm Eb Eg Es ->|ok rest Hx Hg Eb Eg Es ->|Hab Hm Eb Eg Es ->|Hab Hnr Hnd Eb Eg Es ->].
    - (* ReceiveMessage takes a queued datagram *)
      subst x. left. split; [reflexivity|]. split; [reflexivity|].
      apply (Rel_frame k s _ _ c HR).
      + intros c0 Hne. rewrite Eb, Eg, Es, Et, upd_other, fupd_other by auto. repeat split; auto.
      + unfold crel. rewrite Eb, Eg, Es, Et, upd_same, fupd_same. cbn. repeat split; auto.
        etransitivity; [exact P3|].
        etransitivity; [apply Permutation_app_tail, perm_remove1, mem_In, Hm|].
        cbn. apply Permutation_middle.
    - (* Outbound.UDP *)
      subst x. right. exists (UdpRecv c addr).
      assert (Hsm : udp_sm (s c) = true) by (rewrite C4; apply I2; congruence).
      assert (Hin : In addr (dq (s c))).
      { eapply Permutation_in; [symmetry; exact P3|]. rewrite Hg. apply in_or_app. right. left. reflexivity. }
      eexists. split; [reflexivity|]. split.
      { cbn [C01_ServerAuth.step]. rewrite Hsm. apply mem_In in Hin. rewrite Hin. reflexivity. }
      apply (Rel_frame k s _ _ c HR).
      + intros c0 Hne. rewrite Eb, Eg, Es, Et, upd_other, !fupd_other by auto. repeat split; auto.
      + unfold crel. rewrite Eb, Eg, Es, Et, upd_same, !fupd_same. cbn. repeat split; auto;
          try (rewrite <- C4; symmetry; exact Hsm).
        apply Permutation_cons_inv with (a := addr).
        etransitivity; [symmetry; apply perm_remove1, Hin|].
        etransitivity; [exact P3|]. rewrite Hg. symmetry. apply Permutation_middle.
    - (* WriteTo / SendMessage *)
      right. exists (UdpRelay c addr n), s. split; [exact Hab|]. split.
      { cbn [C01_ServerAuth.step]. rewrite (perm_mem addr _ _ P4), Hm. reflexivity. }
      apply (Rel_frame k s _ _ c HR).
      + intros c0 Hne. rewrite Eb, Eg, Es, Et. repeat split; auto.
      + unfold crel. rewrite Eb, Eg, Es, Et. repeat split; auto.
    - left. split; [exact Hab|]. split; [reflexivity|].
      apply (Rel_frame k s _ _ c HR).
      + intros c0 Hne. rewrite Eb, Eg, Es, Et. repeat split; auto.
      + unfold crel. rewrite Eb, Eg, Es, Et. repeat split; auto.
  Qed.

  Lemma sim_step k s a k' o : KInv k -> Rel k s -> kstep k a = Some (k', o) -> sim_result k' s (kabs a) o.
  Proof.
    intros HI HR Hs. destruct a as [a0|c i addr x|c addr n x]; cbn [kabs].
    - destruct (sim_ctl _ _ _ _ _ HI HR Hs) as (s' & S & R'). right. exists a0, s'. auto.
    - eapply sim_tcp; eauto.
    - eapply sim_udp; eauto.
  Qed.

  (* the projection of a product run is a run of the abstract C01 LTS, with the same trace *)
  Lemma refine_run acts : forall k s k' tr, KInv k -> Rel k s -> krun k acts = Some (k', tr) ->
    exists s', run s (flat_map kabs acts) = Some (s', tr) /\ Rel k' s'.
  Proof.
    induction acts as [|a t IH]; intros k s k' tr HI HR Hr; cbn [C01_Compose.krun] in Hr.
    - injection Hr as <- <-. exists s. split; [reflexivity|exact HR].
    - destruct (kstep k a) as [[k1 o]|] eqn:Es; [|discriminate].
      destruct (krun k1 t) as [[k2 tr2]|] eqn:Er; [|discriminate].
      injection Hr as <- <-.
      pose proof (KInv_step _ _ _ _ HI Es) as HI1.
      destruct (sim_step _ _ _ _ _ HI HR Es) as [(Ab & -> & R1)|(a' & s1 & Ab & S1 & R1)];
        cbn [flat_map]; rewrite Ab.
      + destruct (IH _ _ _ _ HI1 R1 Er) as (s' & Ra & R'). exists s'. split; [exact Ra|exact R'].
      + destruct (IH _ _ _ _ HI1 R1 Er) as (s' & Ra & R'). exists s'. split; [|exact R'].
        cbn [app C01_ServerAuth.run]. rewrite S1, Ra. reflexivity.
  Qed.

  Theorem compose_refines acts k tr : krun kinit acts = Some (k, tr) ->
    exists s, run init (flat_map kabs acts) = Some (s, tr) /\ Rel k s.
  Proof. apply refine_run; [apply KInv_init|apply Rel_init]. Qed.

  (* ---------------------------------------------------------------- the C01 theorems, for the product *)

  Theorem compose_no_outbound_before_auth acts k tr : krun kinit acts = Some (k, tr) ->
    c01_mon [] tr = true /\
    forall pre e post c, tr = pre ++ e :: post -> outbound_conn e = Some c ->
      exists id pad, In (EAct (AuthVerdict c true id pad)) pre.
  Proof.
    intros Hr. destruct (compose_refines _ _ _ Hr) as (s & Ra & _).
    exact (no_outbound_before_auth cfg masq _ _ _ Ra).
  Qed.

  Lemma krun_app acts1 : forall acts2 k k' tr, krun k (acts1 ++ acts2) = Some (k', tr) ->
    exists k1 tr1 tr2, krun k acts1 = Some (k1, tr1) /\ krun k1 acts2 = Some (k', tr2) /\ tr = tr1 ++ tr2.
  Proof.
    induction acts1 as [|a t IH]; intros acts2 k k' tr Hr; cbn [app C01_Compose.krun] in *.
    - exists k, [], tr. repeat split; auto.
    - destruct (kstep k a) as [[k1 o]|] eqn:Es; [|discriminate].
      destruct (krun k1 (t ++ acts2)) as [[k2 tr2]|] eqn:Er; [|discriminate].
      injection Hr as <- <-. destruct (IH _ _ _ _ Er) as (k3 & t1 & t2 & R1 & R2 & ->).
      exists k3, (map EAct (kabs a) ++ map EObs o ++ t1), t2. rewrite R1. repeat split; auto.
      now rewrite <- !app_assoc.
  Qed.

  Lemma run_act_in acts : forall s s' tr a, run s acts = Some (s', tr) -> In (EAct a) tr -> In a acts.
  Proof.
    induction acts as [|a0 t IH]; intros s s' tr a Hr Hin; cbn [C01_ServerAuth.run] in Hr.
    - injection Hr as _ <-. contradiction.
    - destruct (step s a0) as [[s1 o]|]; [|discriminate].
      destruct (run s1 t) as [[s2 tr2]|] eqn:Er; [|discriminate]. injection Hr as _ <-.
      destruct Hin as [Hin|Hin]; [injection Hin as <-; left; reflexivity|].
      apply in_app_or in Hin. destruct Hin as [Hin|Hin].
      + apply in_map_iff in Hin. destruct Hin as (x & Hx & _). discriminate.
      + right. eapply IH; eauto.
  Qed.

  Lemma count_pos_in (f : ev -> bool) tr : count f tr = 1%nat -> exists e, In e tr /\ f e = true.
  Proof.
    unfold count. intros Hc. destruct (filter f tr) as [|e r] eqn:Ef; [discriminate|].
    assert (Hin : In e (filter f tr)) by (rewrite Ef; left; reflexivity).
    apply filter_In in Hin. exists e. exact Hin.
  Qed.

  (* (a), as a fact about runs: in every run of the product, every action of a handler or of the session
     manager of connection c comes after an accepting verdict of the authenticator on c *)
  Theorem compose_component_after_verdict pre a post k tr c :
    krun kinit (pre ++ a :: post) = Some (k, tr) -> kcomp_conn a = Some c ->
    exists id pad, In (KCtl (AuthVerdict c true id pad)) pre.
  Proof.
    intros Hr Hc. destruct (krun_app _ _ _ _ _ Hr) as (k1 & tr1 & tr2 & R1 & R2 & _).
    cbn [C01_Compose.krun] in R2. destruct (kstep k1 a) as [[k2 o]|] eqn:Es; [|discriminate].
    pose proof (KInv_run _ _ _ _ KInv_init R1) as HI.
    pose proof (component_needs_auth _ _ _ _ _ HI Es Hc) as Ha.
    destruct (compose_refines _ _ _ R1) as (s1 & Ra & HR).
    destruct (HR c) as (C1 & _). rewrite <- C1 in Ha.
    destruct (online_paired cfg masq _ _ _ c Ra) as (Cnt & _). rewrite Ha in Cnt.
    destruct (count_pos_in _ _ Cnt) as (e & Hin & He).
    destruct e as [a1|]; [|discriminate He]. destruct a1; try discriminate He.
    destruct ok; [|discriminate He]. cbn in He. apply N.eqb_eq in He. subst c0.
    pose proof (run_act_in _ _ _ _ _ Ra Hin) as Hi2.
    apply in_flat_map in Hi2. destruct Hi2 as (ka & Hk & Hab).
    exists id, pad. destruct ka as [a0|c1 i addr x|c1 addr n x]; cbn [kabs] in Hab.
    - destruct Hab as [->|[]]. exact Hk.
    - exfalso. destruct (tcp_abs_cases c1 addr x) as [(_ & E & _)|[(_ & n & E & _)|(_ & E & _)]];
        rewrite E in Hab; cbn in Hab; intuition discriminate.
    - exfalso. destruct x; cbn in Hab; intuition discriminate.
  Qed.

  (* ---------------------------------------------------------------- the duplicated gate is C01's own *)

  Lemma stream_spawn_spec s c ft addr s' o : step s (Stream c ft addr) = Some (s', o) ->
    tcp_pend (s' c) = if hijacks (s c) ft then addr :: tcp_pend (s c) else tcp_pend (s c).
  Proof.
    intros Hs. unfold hijacks. step_cases Hs; try reflexivity.
    rewrite upd_same. reflexivity.
  Qed.

  (* ---------------------------------------------------------------- labels do not restrict the components *)

  Lemma labels_never_block_tcp k c i h x p' :
    nth_error (k_tcp k c) i = Some h -> H.hstep false md (h_pc h) x = Some p' ->
    kstep k (KTcp c i (h_addr h) x) <> None.
  Proof.
    intros Hn Sh. cbn [C01_Compose.kstep]. rewrite Hn, str_eqb_refl, Sh. discriminate.
  Qed.

  Lemma labels_never_block_udp k c u x u' ev :
    KInv k -> k_udp k c = Some u -> U.step timeout u x = Some (u', ev) ->
    match x with
    | U.ARecv _ _ => forall addr n, mem addr (dq (k_base k c)) = true -> kstep k (KUdp c addr n x) <> None
    | _ => exists addr, forall n, kstep k (KUdp c addr n x) <> None
    end.
  Proof.
    intros (_ & _ & _ & _ & I4) Ku Su. destruct (I4 _ _ Ku) as (G & Ns & Fl).
    assert (Sock : forall e en k0, U.get u e = Some en -> U.e_sock en = Some k0 ->
                   exists a0 r, k_sess k c = a0 :: r).
    { intros e en k0 Ge Hk. destruct (G e k0) as [Lt _].
      - unfold UP.socks. unfold U.get in Ge. rewrite (map_nth_error _ _ _ Ge). now rewrite Hk.
      - destruct (k_sess k c) as [|a0 r]; [cbn in Ns; lia|eauto]. }
    destruct x; cbn [C01_Compose.kstep]; rewrite Ku, Su;
      try (exists []; intros; discriminate).
    - intros addr n Hm. rewrite Hm. discriminate.
    - (* ADial *)
      assert (Hf : msg_inflight (U.rl u) = true).
      { cbn [U.step] in Su. destruct (U.rl u); try discriminate Su. reflexivity. }
      destruct (k_got k c) as [|a0 rest]; [exfalso; now apply Fl|].
      exists a0. intros n0. rewrite str_eqb_refl. discriminate.
    - (* AWrite *)
      cbn [U.step] in Su. destruct (U.rl u); try discriminate Su.
      destruct (U.get u e) as [en|] eqn:Ge; [|discriminate Su].
      destruct (U.e_sock en) as [k0|] eqn:Hk; [|discriminate Su].
      destruct (Sock _ _ _ Ge Hk) as (a0 & r & Eq). exists a0. intros n0. rewrite Eq. cbn [mem]. rewrite str_eqb_refl. discriminate.
    - (* ASend *)
      cbn [U.step] in Su. destruct (U.get u e) as [en|] eqn:Ge; [|discriminate Su].
      destruct (U.e_pc en); try discriminate Su.
      destruct (U.e_sock en) as [k0|] eqn:Hk; [|discriminate Su].
      destruct (Sock _ _ _ Ge Hk) as (a0 & r & Eq). exists a0. intros n0. rewrite Eq. cbn [mem]. rewrite str_eqb_refl. discriminate.
  Qed.
End Compose.

(* ------------------------------------------------------------------ the statements of props/C01.v *)

Lemma composed_no_component_action_before_auth : forall cfg masq md timeout pre a post k tr c,
  krun cfg masq md timeout kinit (pre ++ a :: post) = Some (k, tr) -> kcomp_conn a = Some c ->
  (exists id pad, In (KCtl (AuthVerdict c true id pad)) pre) /\
  (forall k1 tr1 k2 o, krun cfg masq md timeout kinit pre = Some (k1, tr1) ->
     kstep cfg masq md timeout k1 a = Some (k2, o) -> authed (k_base k1 c) = true).
Proof.
  intros cfg masq md timeout pre a post k tr c Hr Hc. split.
  - exact (compose_component_after_verdict cfg masq md timeout pre a post k tr c Hr Hc).
  - intros k1 tr1 k2 o R1 S1.
    eapply component_needs_auth; [|exact S1|exact Hc]. eapply KInv_run; [exact KInv_init|exact R1].
Qed.

Lemma composed_refines_abstract : forall cfg masq md timeout acts k tr,
  krun cfg masq md timeout kinit acts = Some (k, tr) ->
  exists s, run cfg masq init (flat_map kabs acts) = Some (s, tr) /\
    forall c, authed (s c) = authed (k_base k c) /\ auth_id (s c) = auth_id (k_base k c) /\
              in_auth (s c) = in_auth (k_base k c) /\ udp_sm (s c) = udp_sm (k_base k c) /\
              closed (s c) = closed (k_base k c).
Proof.
  intros cfg masq md timeout acts k tr Hr.
  destruct (compose_refines cfg masq md timeout acts k tr Hr) as (s & Ra & HR).
  exists s. split; [exact Ra|]. intros c. destruct (HR c) as (A & B & C & D & E & _). auto.
Qed.

Lemma composed_labels_never_block : forall cfg masq md timeout acts k tr,
  krun cfg masq md timeout kinit acts = Some (k, tr) ->
  (forall c i h x p', nth_error (k_tcp k c) i = Some h -> H.hstep false md (h_pc h) x = Some p' ->
     kstep cfg masq md timeout k (KTcp c i (h_addr h) x) <> None) /\
  (forall c u x u' ev, k_udp k c = Some u -> U.step timeout u x = Some (u', ev) ->
     match x with
     | U.ARecv _ _ => forall addr n, mem addr (dq (k_base k c)) = true -> kstep cfg masq md timeout k (KUdp c addr n x) <> None
     | _ => exists addr, forall n, kstep cfg masq md timeout k (KUdp c addr n x) <> None
     end).
Proof.
  intros cfg masq md timeout acts k tr Hr. split.
  - intros c i h x p'. apply labels_never_block_tcp.
  - intros c u x u' ev. apply labels_never_block_udp.
    eapply KInv_run; [exact KInv_init|exact Hr].
Qed.

(* ------------------------------------------------------------------ the product runs (hypotheses are satisfiable) *)
Section Example.
  Let cfg := mkCfg true false 0 0.
  Let masq (r : request) := mkResp 404 [] [].
  Let areq := mkReq method_post url_host url_path [x61] [] 0.
  Let addr : str := [x74; x3a; x38; x30].
  Let uaddr : str := [x75; x3a; x35; x33].
  Let chunk : list byte := [x68; x69].

  (* c1 authenticates, opens a proxy stream whose handler reads the request, dials, answers, relays two bytes
     (read, approved by the traffic logger, written); a datagram arrives, the session manager takes it, creates
     the session, dials and writes *)
  Definition example_run : list kaction :=
    [KCtl (HttpReq 1 areq []); KCtl (AuthVerdict 1 true [x69; x64] []);
     KCtl (Stream 1 (Some frame_type_tcp_request) addr);
     KTcp 1 0 addr (H.XReadReq true); KTcp 1 0 addr (H.XCheck false); KTcp 1 0 addr (H.XDial None);
     KTcp 1 0 addr (H.XWriteResp true R.Connected);
     KTcp 1 0 addr (H.XRelay (R.ALoop R.Up (R.LRead ParamsC06.CopyBufSize chunk R.EN)));
     KTcp 1 0 addr (H.XRelay (R.ALoop R.Up (R.LLog 2 0 true)));
     KTcp 1 0 addr (H.XRelay (R.ALoop R.Up (R.LWrite chunk 2%Z R.EN)));
     KCtl (Datagram 1 uaddr);
     KUdp 1 uaddr 0 (U.ARecv 7 true); KUdp 1 uaddr 0 U.ALookup; KUdp 1 uaddr 0 U.AInsert; KUdp 1 uaddr 0 U.AFeed;
     KUdp 1 uaddr 0 (U.ADial true); KUdp 1 uaddr 5 (U.AWrite true)].

  Definition proxy_events (tr : list ev) : list ev :=
    filter (fun e => match outbound_conn e with Some _ => true | None => false end) tr.

  Example example_run_accepted :
    option_map (fun r => proxy_events (snd r)) (krun cfg masq R.Logged 60000 kinit example_run)
    = Some [EObs (ObsOutboundTCP 1 addr); EObs (ObsRelay 1 2); EObs (ObsOutboundUDP 1 uaddr); EObs (ObsRelay 1 5)].
  Proof. vm_compute. reflexivity. Qed.

  (* the same stream and datagram on a connection that has not authenticated: the hijacker spawns no handler
     and no session manager exists, so no component action is possible at all *)
  Example no_handler_before_auth :
    krun cfg masq R.Logged 60000 kinit
      [KCtl (HttpReq 2 areq []); KCtl (AuthVerdict 2 false [] []);
       KCtl (Stream 2 (Some frame_type_tcp_request) addr); KTcp 2 0 addr (H.XReadReq true)] = None /\
    krun cfg masq R.Logged 60000 kinit
      [KCtl (HttpReq 1 areq []); KCtl (AuthVerdict 1 true [x69; x64] []);
       KCtl (Datagram 2 uaddr); KUdp 2 uaddr 0 (U.ARecv 7 true)] = None.
  Proof. split; vm_compute; reflexivity. Qed.
End Example.
