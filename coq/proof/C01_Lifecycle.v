(* C01 - proofs about the connection lifecycle layer (model/C01_Lifecycle.v): accepts of new connections on a
   server that has served, and seen the end of, other connections. *)
From Coq Require Import Lia.
From Hy Require Import gen.ParamsC01 model.C01_ServerAuth proof.C01_ServerAuth model.C01_Lifecycle.
Local Open Scope N_scope.

Lemma used_cons c c' u b : used c (mkL b (c' :: u)) = (c =? c') || used c (mkL b u).
Proof. reflexivity. Qed.

Lemma used_base c b b' u : used c (mkL b u) = used c (mkL b' u).
Proof. reflexivity. Qed.

Lemma Forall_EObs c o : Forall (fun x => obs_conn x = c) o -> Forall (fun y => ev_conn y = c) (map EObs o).
Proof. induction 1; cbn [map]; constructor; assumption. Qed.

Section LProofs.
  Variable cfg : config.
  Variable masq : request -> response.

  Notation step := (step cfg masq).
  Notation run := (run cfg masq).
  Notation lstep := (lstep cfg masq).
  Notation lrun := (lrun cfg masq).

  (* ---------------------------------------------------------------- a step of c reads and writes the handler of c only *)

  Lemma step_local s1 s2 a s1' o :
    s1 (act_conn a) = s2 (act_conn a) -> step s1 a = Some (s1', o) ->
    exists s2', step s2 a = Some (s2', o) /\ s1' (act_conn a) = s2' (act_conn a).
  Proof.
    intros Heq H.
    destruct a; cbn [act_conn] in Heq |- *; cbn [C01_ServerAuth.step] in H |- *; rewrite <- Heq;
      repeat match type of H with
             | context [match ?x with _ => _ end] => let E := fresh "E" in destruct x eqn:E
             end;
      try discriminate H; injection H as <- <-; eexists; (split; [reflexivity|]); rewrite ?upd_same; auto.
  Qed.

  Lemma step_ext s1 s2 a s1' o :
    (forall c, s1 c = s2 c) -> step s1 a = Some (s1', o) ->
    exists s2', step s2 a = Some (s2', o) /\ forall c, s1' c = s2' c.
  Proof.
    intros Heq H. destruct (step_local s1 s2 a s1' o (Heq _) H) as [s2' [H2 Hc]].
    exists s2'. split; [assumption|]. intros c.
    destruct (N.eq_dec c (act_conn a)) as [->|Hne]; [assumption|].
    rewrite (step_frame cfg masq _ _ _ _ _ H Hne), (step_frame cfg masq _ _ _ _ _ H2 Hne). apply Heq.
  Qed.

  (* ---------------------------------------------------------------- one lifecycle step *)

  Lemma lstep_evs l x l' e : lstep l x = Some (l', e) -> Forall (fun y => ev_conn y = lact_conn x) e.
  Proof.
    destruct x as [c|a]; cbn [C01_Lifecycle.lstep lact_conn]; intros H.
    - destruct (used c l); [discriminate|]. injection H as <- <-. constructor.
    - destruct (used (act_conn a) l); [|discriminate].
      destruct (step (l_base l) a) as [[s' o]|] eqn:Es; [|discriminate]. injection H as <- <-.
      constructor; [reflexivity|].
      apply Forall_EObs. exact (step_obs_conn cfg masq _ _ _ _ Es).
  Qed.

  Lemma lstep_frame l x l' e c :
    lstep l x = Some (l', e) -> c <> lact_conn x -> l_base l' c = l_base l c /\ used c l' = used c l.
  Proof.
    destruct x as [c0|a]; cbn [C01_Lifecycle.lstep lact_conn]; intros H Hne.
    - destruct (used c0 l); [discriminate|]. injection H as <- <-. cbn [l_base]. split; [now apply upd_other|].
      destruct l as [b u]. cbn [l_used]. rewrite used_cons. apply N.eqb_neq in Hne. rewrite Hne. reflexivity.
    - destruct (used (act_conn a) l); [|discriminate].
      destruct (step (l_base l) a) as [[s' o]|] eqn:Es; [|discriminate]. injection H as <- <-. cbn [l_base].
      split; [exact (step_frame cfg masq _ _ _ _ _ Es Hne)|]. destruct l as [b u]; reflexivity.
  Qed.

  Lemma lstep_local l m x l' e :
    l_base m (lact_conn x) = l_base l (lact_conn x) -> used (lact_conn x) m = used (lact_conn x) l ->
    lstep l x = Some (l', e) ->
    exists m', lstep m x = Some (m', e) /\ l_base m' (lact_conn x) = l_base l' (lact_conn x) /\
               used (lact_conn x) m' = used (lact_conn x) l'.
  Proof.
    destruct x as [c|a]; cbn [C01_Lifecycle.lstep lact_conn]; intros Hb Hu H.
    - rewrite Hu. destruct (used c l); [discriminate|]. injection H as <- <-.
      eexists. split; [reflexivity|]. cbn [l_base]. rewrite !upd_same. split; [reflexivity|].
      destruct l as [b u], m as [b2 u2]. cbn [l_used]. rewrite !used_cons, N.eqb_refl. reflexivity.
    - rewrite Hu. destruct (used (act_conn a) l) eqn:Eu; [|discriminate].
      destruct (step (l_base l) a) as [[s' o]|] eqn:Es; [|discriminate]. injection H as <- <-.
      destruct (step_local (l_base l) (l_base m) a s' o (eq_sym Hb) Es) as [s2' [H2 Hc]].
      rewrite H2. eexists. split; [reflexivity|]. cbn [l_base]. split; [now symmetry|].
      destruct l as [b u], m as [b2 u2]. cbn [l_used] in *. rewrite (used_base _ s2' b2), (used_base _ s' b). congruence.
  Qed.

  Lemma own_tr_app c a b : own_tr c (a ++ b) = own_tr c a ++ own_tr c b.
  Proof. unfold own_tr. apply filter_app. Qed.

  Lemma own_tr_all c e : Forall (fun y => ev_conn y = c) e -> own_tr c e = e.
  Proof.
    induction 1 as [|y e Hy _ IH]; [reflexivity|]. cbn [own_tr filter]. fold (own_tr c e).
    rewrite Hy, N.eqb_refl, IH. reflexivity.
  Qed.

  Lemma own_tr_none c c' e : c <> c' -> Forall (fun y => ev_conn y = c') e -> own_tr c e = [].
  Proof.
    intros Hne. induction 1 as [|y e Hy _ IH]; [reflexivity|]. cbn [own_tr filter]. fold (own_tr c e).
    rewrite Hy. apply not_eq_sym in Hne. apply N.eqb_neq in Hne. rewrite Hne. exact IH.
  Qed.

  (* ---------------------------------------------------------------- the run of c's own history *)

  Lemma lrun_own c : forall xs l l' tr m,
    lrun l xs = Some (l', tr) ->
    l_base m c = l_base l c -> used c m = used c l ->
    exists m', lrun m (own c xs) = Some (m', own_tr c tr) /\ l_base m' c = l_base l' c /\ used c m' = used c l'.
  Proof.
    induction xs as [|x t IH]; intros l l' tr m H Hb Hu; cbn [C01_Lifecycle.lrun] in H.
    - injection H as <- <-. exists m. repeat split; assumption.
    - destruct (lstep l x) as [[l1 e]|] eqn:Es; [|discriminate].
      destruct (lrun l1 t) as [[l2 tr2]|] eqn:Er; [|discriminate]. injection H as <- <-.
      rewrite own_tr_app. unfold own. cbn [filter]. fold (own c t).
      destruct (lact_conn x =? c) eqn:Ec.
      + apply N.eqb_eq in Ec. subst c.
        destruct (lstep_local l m x l1 e Hb Hu Es) as [m1 [Hm1 [Hb1 Hu1]]].
        destruct (IH l1 l2 tr2 m1 Er Hb1 Hu1) as [m' [Hr [Hb' Hu']]].
        exists m'. cbn [C01_Lifecycle.lrun]. rewrite Hm1, Hr.
        rewrite (own_tr_all _ _ (lstep_evs _ _ _ _ Es)). repeat split; assumption.
      + apply N.eqb_neq in Ec.
        destruct (lstep_frame l x l1 e c Es (not_eq_sym Ec)) as [Hb1 Hu1].
        destruct (IH l1 l2 tr2 m Er) as [m' [Hr [Hb' Hu']]]; [congruence | congruence |].
        exists m'. rewrite (own_tr_none c (lact_conn x) e (not_eq_sym Ec) (lstep_evs _ _ _ _ Es)).
        repeat split; assumption.
  Qed.

  (* a run in which only c acts leaves every other handler alone *)
  Lemma lrun_only c : forall xs l l' tr,
    lrun l xs = Some (l', tr) -> Forall (fun x => lact_conn x = c) xs ->
    forall c', c' <> c -> l_base l' c' = l_base l c'.
  Proof.
    induction xs as [|x t IH]; intros l l' tr H HF c' Hne; cbn [C01_Lifecycle.lrun] in H.
    - injection H as <- <-. reflexivity.
    - destruct (lstep l x) as [[l1 e]|] eqn:Es; [|discriminate].
      destruct (lrun l1 t) as [[l2 tr2]|] eqn:Er; [|discriminate]. injection H as <- <-.
      inversion HF as [|? ? Hx Ht]; subst.
      rewrite (IH _ _ _ Er Ht c' Hne).
      apply (lstep_frame l x l1 e c' Es). congruence.
  Qed.

  Lemma own_all c xs : Forall (fun x => lact_conn x = c) (own c xs).
  Proof.
    unfold own. apply Forall_forall. intros x Hin. apply filter_In in Hin. destruct Hin as [_ H]. now apply N.eqb_eq in H.
  Qed.

  Lemma authorisation_depends_only_on_own_history c xs1 l1 tr1 :
    lrun linit xs1 = Some (l1, tr1) ->
    (exists m, lrun linit (own c xs1) = Some (m, own_tr c tr1) /\ l_base m c = l_base l1 c /\
               forall c', c' <> c -> l_base m c' = conn0) /\
    (forall xs2 l2 tr2, lrun linit xs2 = Some (l2, tr2) -> own c xs1 = own c xs2 ->
       l_base l1 c = l_base l2 c /\ own_tr c tr1 = own_tr c tr2).
  Proof.
    intros H1.
    destruct (lrun_own c xs1 linit l1 tr1 linit H1 eq_refl eq_refl) as [m1 [Hr1 [Hb1 _]]].
    split.
    - exists m1. repeat split; try assumption.
      intros c' Hne. exact (lrun_only c _ _ _ _ Hr1 (own_all c xs1) c' Hne).
    - intros xs2 l2 tr2 H2 Ho.
      destruct (lrun_own c xs2 linit l2 tr2 linit H2 eq_refl eq_refl) as [m2 [Hr2 [Hb2 _]]].
      rewrite Ho in Hr1. rewrite Hr1 in Hr2. injection Hr2 as -> Ht. split; congruence.
  Qed.

  (* ---------------------------------------------------------------- refinement: a lifecycle run is a run of the base LTS *)

  (* the handler of an id that has not been accepted is the zero handler *)
  Definition Linv (l : lstate) : Prop := forall c, used c l = false -> l_base l c = conn0.

  Lemma Linv_init : Linv linit.
  Proof. intros c _. reflexivity. Qed.

  Lemma lstep_Linv l x l' e : Linv l -> lstep l x = Some (l', e) -> Linv l'.
  Proof.
    intros HI H c Hu.
    destruct (N.eq_dec c (lact_conn x)) as [->|Hne].
    - exfalso. destruct x as [c0|a]; cbn [C01_Lifecycle.lstep lact_conn] in *.
      + destruct (used c0 l); [discriminate|]. injection H as <- <-. destruct l as [b u]. cbn [l_used] in Hu.
        rewrite used_cons, N.eqb_refl in Hu. discriminate.
      + destruct (used (act_conn a) l) eqn:Eu; [|discriminate].
        destruct (step (l_base l) a) as [[s' o]|]; [|discriminate]. injection H as <- <-.
        destruct l as [b u]. cbn [l_used] in *. rewrite (used_base _ s' b) in Hu. congruence.
    - destruct (lstep_frame l x l' e c H Hne) as [Hb Hu']. rewrite Hb. apply HI. congruence.
  Qed.

  Lemma lrun_refines : forall xs l l' tr s,
    lrun l xs = Some (l', tr) -> Linv l -> (forall c, s c = l_base l c) ->
    exists s', run s (lacts xs) = Some (s', tr) /\ (forall c, s' c = l_base l' c) /\ Linv l'.
  Proof.
    induction xs as [|x t IH]; intros l l' tr s H HI Heq; cbn [C01_Lifecycle.lrun] in H.
    - injection H as <- <-. exists s. repeat split; assumption.
    - destruct (lstep l x) as [[l1 e]|] eqn:Es; [|discriminate].
      destruct (lrun l1 t) as [[l2 tr2]|] eqn:Er; [|discriminate]. injection H as <- <-.
      pose proof (lstep_Linv _ _ _ _ HI Es) as HI1.
      destruct x as [c0|a]; cbn [C01_Lifecycle.lstep] in Es.
      + destruct (used c0 l) eqn:Eu; [discriminate|]. injection Es as <- <-.
        cbn [lacts flat_map app]. fold (lacts t).
        apply (IH _ _ _ s Er HI1). intros c. cbn [l_base].
        destruct (N.eq_dec c c0) as [->|Hne]; [rewrite upd_same, Heq; now apply HI | rewrite upd_other by assumption; apply Heq].
      + destruct (used (act_conn a) l); [|discriminate].
        destruct (step (l_base l) a) as [[s1 o]|] eqn:Est; [|discriminate]. injection Es as <- <-.
        destruct (step_ext (l_base l) s a s1 o (fun c => eq_sym (Heq c)) Est) as [s2 [Hs2 Hc2]].
        destruct (IH _ _ _ s2 Er HI1) as [s' [Hr [Hc' HI']]]. { intros c. cbn [l_base]. symmetry. apply Hc2. }
        exists s'. cbn [lacts flat_map app]. fold (lacts t). cbn [C01_ServerAuth.run]. rewrite Hs2, Hr.
        repeat split; assumption.
  Qed.

  Lemma lifecycle_refines_abstract xs l tr :
    lrun linit xs = Some (l, tr) ->
    exists s, run init (lacts xs) = Some (s, tr) /\ forall c, s c = l_base l c.
  Proof.
    intros H. destruct (lrun_refines xs linit l tr init H Linv_init (fun _ => eq_refl)) as [s [Hr [Hc _]]].
    exists s. split; assumption.
  Qed.

  (* ---------------------------------------------------------------- ids: used ones stay used, events belong to used ids *)

  Lemma lstep_used_mono l x l' e c : lstep l x = Some (l', e) -> used c l = true -> used c l' = true.
  Proof.
    intros H Hu. destruct (N.eq_dec c (lact_conn x)) as [->|Hne].
    - destruct x as [c0|a]; cbn [C01_Lifecycle.lstep lact_conn] in *.
      + rewrite Hu in H. discriminate.
      + destruct (used (act_conn a) l) eqn:Eu; [|discriminate].
        destruct (step (l_base l) a) as [[s' o]|]; [|discriminate]. injection H as <- <-. destruct l as [b u]. exact Eu.
    - destruct (lstep_frame l x l' e c H Hne) as [_ ->]. exact Hu.
  Qed.

  Lemma lstep_used_self l x l' e : lstep l x = Some (l', e) -> used (lact_conn x) l' = true.
  Proof.
    destruct x as [c0|a]; cbn [C01_Lifecycle.lstep lact_conn]; intros H.
    - destruct (used c0 l); [discriminate|]. injection H as <- <-. destruct l as [b u]. cbn [l_used].
      rewrite used_cons, N.eqb_refl. reflexivity.
    - destruct (used (act_conn a) l) eqn:Eu; [|discriminate].
      destruct (step (l_base l) a) as [[s' o]|]; [|discriminate]. injection H as <- <-. destruct l as [b u]. exact Eu.
  Qed.

  Lemma lrun_used : forall xs l l' tr,
    lrun l xs = Some (l', tr) ->
    (forall c, used c l = true -> used c l' = true) /\ (forall e, In e tr -> used (ev_conn e) l' = true).
  Proof.
    induction xs as [|x t IH]; intros l l' tr H; cbn [C01_Lifecycle.lrun] in H.
    - injection H as <- <-. split; [auto | intros e []].
    - destruct (lstep l x) as [[l1 e]|] eqn:Es; [|discriminate].
      destruct (lrun l1 t) as [[l2 tr2]|] eqn:Er; [|discriminate]. injection H as <- <-.
      destruct (IH _ _ _ Er) as [Hm He]. split.
      + intros c Hu. apply Hm. exact (lstep_used_mono _ _ _ _ c Es Hu).
      + intros e0 Hin. apply in_app_or in Hin. destruct Hin as [Hin|Hin]; [|now apply He].
        pose proof (lstep_evs _ _ _ _ Es) as HF. rewrite Forall_forall in HF. rewrite (HF _ Hin).
        apply Hm. exact (lstep_used_self _ _ _ _ Es).
  Qed.

  Lemma lrun_app : forall xs ys l l1 t1 l2 t2,
    lrun l xs = Some (l1, t1) -> lrun l1 ys = Some (l2, t2) -> lrun l (xs ++ ys) = Some (l2, t1 ++ t2).
  Proof.
    induction xs as [|x t IH]; intros ys l l1 t1 l2 t2 H1 H2; cbn [C01_Lifecycle.lrun app] in *.
    - injection H1 as <- <-. exact H2.
    - destruct (lstep l x) as [[la e]|]; [|discriminate].
      destruct (lrun la t) as [[lb trb]|] eqn:Er; [|discriminate]. injection H1 as <- <-.
      rewrite (IH _ _ _ _ _ _ Er H2), app_assoc. reflexivity.
  Qed.

  (* ---------------------------------------------------------------- a new connection *)

  (* Whatever the server has been through - any number of connections accepted, authenticated, ended - a newly
     accepted connection c: nothing in the past belongs to it, its handler is the zero handler, every other handler is
     untouched, nothing becomes observable, and no proxy step is enabled for it. *)
  Lemma new_connection_starts_unauthenticated xs l tr c l' e :
    lrun linit xs = Some (l, tr) -> lstep l (LAccept c) = Some (l', e) ->
    e = [] /\ l_base l' c = conn0 /\ authed (l_base l' c) = false /\ gate_closed (l_base l' c) /\
    (forall c', c' <> c -> l_base l' c' = l_base l c') /\
    (forall e0, In e0 tr -> ev_conn e0 <> c) /\
    (forall addr, lstep l' (LAct (TcpDial c addr)) = None) /\
    (forall addr, lstep l' (LAct (UdpRecv c addr)) = None) /\
    (forall addr n, lstep l' (LAct (TcpRelay c addr n)) = None) /\
    (forall addr n, lstep l' (LAct (UdpRelay c addr n)) = None).
  Proof.
    intros Hr Hs. cbn [C01_Lifecycle.lstep] in Hs. destruct (used c l) eqn:Eu; [discriminate|]. injection Hs as <- <-.
    cbn [l_base]. rewrite upd_same.
    split; [reflexivity|]. split; [reflexivity|]. split; [reflexivity|]. split; [repeat split|].
    split; [intros c' Hne; now apply upd_other|].
    split.
    { intros e0 Hin Hc. destruct (lrun_used _ _ _ _ Hr) as [_ He]. specialize (He _ Hin). congruence. }
    repeat split; intros; cbn [C01_Lifecycle.lstep act_conn l_base l_used]; destruct l as [b u]; cbn [l_base l_used];
      rewrite used_cons, N.eqb_refl; cbn [orb]; cbn [C01_ServerAuth.step]; rewrite upd_same; reflexivity.
  Qed.

  (* ... and whatever follows: an outbound call / relayed payload for c is preceded by an accepting verdict on c that
     was taken AFTER c was accepted - verdicts of the past, on connections that have ended or not, do not count. *)
  Lemma fresh_connection_needs_its_own_verdict xs l tr c ys l2 tr2 :
    lrun linit xs = Some (l, tr) -> lrun l (LAccept c :: ys) = Some (l2, tr2) ->
    forall pre e post, tr2 = pre ++ e :: post -> outbound_conn e = Some c ->
      exists id pad, In (EAct (AuthVerdict c true id pad)) pre.
  Proof.
    intros Hr H2 pre e post Ht Ho.
    assert (Eu : used c l = false).
    { cbn [C01_Lifecycle.lrun C01_Lifecycle.lstep] in H2. destruct (used c l); [discriminate | reflexivity]. }
    pose proof (lrun_app _ _ _ _ _ _ _ Hr H2) as Hall.
    destruct (lifecycle_refines_abstract _ _ _ Hall) as [s [Hrun _]].
    destruct (no_outbound_before_auth cfg masq _ _ _ Hrun) as [_ Hb].
    destruct (Hb (tr ++ pre) e post c) as [id [pad Hin]]; [rewrite Ht, app_assoc; reflexivity | exact Ho |].
    apply in_app_or in Hin. destruct Hin as [Hin|Hin]; [|eauto].
    exfalso. destruct (lrun_used _ _ _ _ Hr) as [_ He]. specialize (He _ Hin). cbn [ev_conn act_conn] in He. congruence.
  Qed.

  (* ---------------------------------------------------------------- an id is accepted once *)

  Lemma lrun_accepts : forall xs l l' tr,
    lrun l xs = Some (l', tr) ->
    NoDup (laccepts xs) /\ (forall c, In c (laccepts xs) -> used c l = false) /\
    (forall c, In c (laccepts xs) -> used c l' = true).
  Proof.
    induction xs as [|x t IH]; intros l l' tr H; cbn [C01_Lifecycle.lrun] in H.
    - injection H as <- <-. cbn. split; [constructor|]. split; intros c [].
    - destruct (lstep l x) as [[l1 e]|] eqn:Es; [|discriminate].
      destruct (lrun l1 t) as [[l2 tr2]|] eqn:Er; [|discriminate]. injection H as <- <-.
      destruct (IH _ _ _ Er) as [Hnd [Hun Hus]].
      destruct (lrun_used _ _ _ _ Er) as [Hm _].
      destruct x as [c0|a]; cbn [laccepts flat_map app]; fold (laccepts t).
      + pose proof (lstep_used_self _ _ _ _ Es) as Hself. cbn [lact_conn] in Hself.
        assert (E0 : used c0 l = false).
        { cbn [C01_Lifecycle.lstep] in Es. destruct (used c0 l); [discriminate | reflexivity]. }
        split; [|split].
        * constructor; [|assumption]. intros Hin. specialize (Hun _ Hin). congruence.
        * intros c [<-|Hin]; [assumption|]. specialize (Hun _ Hin).
          destruct (used c l) eqn:Eu; [|reflexivity]. rewrite (lstep_used_mono _ _ _ _ c Es Eu) in Hun. discriminate.
        * intros c [<-|Hin]; [now apply Hm | now apply Hus].
      + split; [assumption|]. split; [|assumption].
        intros c Hin. specialize (Hun _ Hin).
        destruct (used c l) eqn:Eu; [|reflexivity]. rewrite (lstep_used_mono _ _ _ _ c Es Eu) in Hun. discriminate.
  Qed.

  Lemma lrun_acts_accepted : forall xs l0 l tr, lrun l0 xs = Some (l, tr) ->
    forall a, In (LAct a) xs -> used (act_conn a) l0 = true \/ In (act_conn a) (laccepts xs).
  Proof.
    induction xs as [|x t IH]; intros l0 l tr H a Hin; [destruct Hin|].
    cbn [C01_Lifecycle.lrun] in H.
    destruct (lstep l0 x) as [[l1 e]|] eqn:Es; [|discriminate].
    destruct (lrun l1 t) as [[l2 tr2]|] eqn:Er; [|discriminate]. injection H as <- <-.
    destruct Hin as [->|Hin].
    - left. cbn [C01_Lifecycle.lstep] in Es. destruct (used (act_conn a) l0); [reflexivity | discriminate].
    - destruct (IH _ _ _ Er a Hin) as [Hu|Hi].
      + destruct x as [c0|a0]; cbn [laccepts flat_map app]; fold (laccepts t).
        * cbn [C01_Lifecycle.lstep] in Es. destruct (used c0 l0) eqn:E0; [discriminate|]. injection Es as <- <-.
          destruct l0 as [b u]. cbn [l_used] in Hu. rewrite used_cons in Hu.
          destruct (act_conn a =? c0) eqn:Ec; [apply N.eqb_eq in Ec; right; left; now symmetry|].
          left. exact Hu.
        * left. cbn [C01_Lifecycle.lstep] in Es. destruct (used (act_conn a0) l0); [|discriminate].
          destruct (step (l_base l0) a0) as [[s' o]|]; [|discriminate]. injection Es as <- <-.
          destruct l0 as [b u]. exact Hu.
      + right. destruct x as [c0|a0]; cbn [laccepts flat_map app]; fold (laccepts t); [right|]; assumption.
  Qed.

  (* an id is accepted at most once in a run - whether or not its connection has ended in between -, it can never be
     accepted again, and only accepted connections act *)
  Lemma connection_id_never_reused xs l tr :
    lrun linit xs = Some (l, tr) ->
    NoDup (laccepts xs) /\
    (forall c, In c (laccepts xs) -> lstep l (LAccept c) = None) /\
    (forall a, In (LAct a) xs -> In (act_conn a) (laccepts xs)).
  Proof.
    intros H. destruct (lrun_accepts _ _ _ _ H) as [Hnd [_ Hus]]. split; [assumption|]. split.
    - intros c Hin. cbn [C01_Lifecycle.lstep]. rewrite (Hus _ Hin). reflexivity.
    - intros a Hin. destruct (lrun_acts_accepted _ _ _ _ H a Hin) as [Hu|Hi]; [discriminate Hu | assumption].
  Qed.
End LProofs.

(* ------------------------------------------------------------------ the authentication request is exact *)

(* A request that differs from POST hysteria /auth in the method, in ONE byte of the authority (a port, a trailing
   dot, upper case, ...) or in the path is a plain web request on a connection that is not authenticated ... and on one
   that is: one step, the masquerade handler alone, the authenticator is not consulted, the state does not change. *)
Lemma only_the_exact_auth_request cfg masq s c r pad :
  closed (s c) = false ->
  r_method r <> method_post \/ r_host r <> url_host \/ r_path r <> url_path ->
  step cfg masq s (HttpReq c r pad) = Some (s, [ObsMasq c r; ObsResp c r (masq r)]).
Proof.
  intros Hc Hne. cbn [step]. rewrite Hc.
  destruct (is_auth_req r) eqn:E; [|reflexivity].
  apply is_auth_req_exact in E. destruct E as [E1 [E2 E3]]. tauto.
Qed.

Lemma longer_authority_differs (h : str) x rest : h ++ x :: rest <> h.
Proof.
  intros H. apply (f_equal (@length byte)) in H. rewrite app_length in H. cbn [length] in H. lia.
Qed.

Lemma only_the_exact_auth_request_consults_the_authenticator cfg masq s c r pad :
  closed (s c) = false ->
  (r_method r <> method_post \/ r_host r <> url_host \/ r_path r <> url_path) ->
  step cfg masq s (HttpReq c r pad) = Some (s, [ObsMasq c r; ObsResp c r (masq r)]) /\
  (forall x rest, url_host ++ x :: rest <> url_host).
Proof.
  intros Hc Hne. split; [exact (only_the_exact_auth_request cfg masq s c r pad Hc Hne) | intros x rest; apply longer_authority_differs].
Qed.

(* ------------------------------------------------------------------ non-vacuity *)

From Coq Require Import String.

Section LExamples.
  Let cfg := mkCfg true false 0 0.
  Let nf : response := mkResp 404 [] (bs "404 page not found").
  Let masq := fun _ : request => nf.
  Let auth_req (cred : string) := mkReq (bs "POST") (bs "hysteria") (bs "/auth") (bs cred) (bs "1000") 0.
  Let pad := bs "padding".

  (* connection 1 is accepted, authenticates, proxies and ends; then connection 2 is accepted and opens a proxy
     stream without a word: a behaviour, with an outbound call for 1 only ... *)
  Let hist : list laction :=
    [ LAccept 1; LAct (HttpReq 1 (auth_req "right") pad); LAct (AuthVerdict 1 true (bs "user") pad);
      LAct (Stream 1 (Some 1025) (bs "a:80")); LAct (TcpDial 1 (bs "a:80")); LAct (ConnClosed 1);
      LAccept 2; LAct (Stream 2 (Some 1025) (bs "b:80")); LAct (Datagram 2 (bs "c:53")) ].

  Example lifecycle_history_runs :
    exists l tr, lrun cfg masq linit hist = Some (l, tr) /\
      authed (l_base l 1) = true /\ closed (l_base l 1) = true /\ authed (l_base l 2) = false /\
      In (EObs (ObsOutboundTCP 1 (bs "a:80"))) tr /\ c01_mon [] tr = true.
  Proof. eexists. eexists. split; [vm_compute; reflexivity|]. repeat split; try reflexivity; vm_compute; tauto. Qed.

  (* ... and what the theorems exclude is excluded by the model: an outbound call for 2, the datagram of 2 reaching
     the outbound, accepting id 1 again after its connection has ended, an action of a connection nobody accepted *)
  Example lifecycle_excluded :
    lrun cfg masq linit (hist ++ [LAct (TcpDial 2 (bs "b:80"))]) = None /\
    lrun cfg masq linit (hist ++ [LAct (UdpRecv 2 (bs "c:53"))]) = None /\
    lrun cfg masq linit (hist ++ [LAccept 1]) = None /\
    lrun cfg masq linit (hist ++ [LAct (Stream 3 (Some 1025) (bs "d:80"))]) = None.
  Proof. repeat split; vm_compute; reflexivity. Qed.

  (* POST hysteria:443 /auth with credentials that the authenticator would accept: the masquerade handler alone *)
  Example authority_with_port_is_a_web_request :
    let r := mkReq (bs "POST") (bs "hysteria:443") (bs "/auth") (bs "right") (bs "1000") 0 in
    step cfg masq init (HttpReq 1 r pad) = Some (init, [ObsMasq 1 r; ObsResp 1 r nf]).
  Proof. vm_compute. reflexivity. Qed.
End LExamples.
