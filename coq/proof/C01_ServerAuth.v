(* C01 / C02 - proofs about the model of the server's authentication gate. *)
From Hy Require Import gen.ParamsC01 model.C01_ServerAuth.
From Coq Require Import ZArith Lia Arith.
Local Open Scope N_scope.
Set Warnings "-unused-intro-pattern".

(* ------------------------------------------------------------------ small facts *)

Lemma upd_same s c v : upd s c v c = v.
Proof. unfold upd. now rewrite N.eqb_refl. Qed.

Lemma upd_other s c v c' : c' <> c -> upd s c v c' = s c'.
Proof. unfold upd. intros H. destruct (N.eqb_spec c' c); congruence. Qed.

Lemma byte_eqb_eq a b : Byte.eqb a b = true <-> a = b.
Proof.
  split.
  - intros H. apply Byte.byte_dec_bl in H. exact H.
  - intros ->. apply Byte.byte_dec_lb. reflexivity.
Qed.

Lemma str_eqb_eq a b : str_eqb a b = true <-> a = b.
Proof.
  revert b. induction a as [|x a IH]; intros [|y b]; cbn [str_eqb]; split; intros H; try congruence; try reflexivity.
  - apply andb_true_iff in H. destruct H as [H1 H2]. apply byte_eqb_eq in H1. apply IH in H2. congruence.
  - inversion H; subst. apply andb_true_iff. split. now apply byte_eqb_eq. now apply IH.
Qed.

Lemma str_eqb_refl a : str_eqb a a = true.
Proof. now apply str_eqb_eq. Qed.

Lemma mem_nil a : mem a [] = false.
Proof. reflexivity. Qed.

Lemma hdrs_eqb_eq (a b : list (str * str)) :
  Nat.eqb (length a) (length b) &&
  forallb (fun p => str_eqb (fst (fst p)) (fst (snd p)) && str_eqb (snd (fst p)) (snd (snd p))) (combine a b) = true
  <-> a = b.
Proof.
  revert b. induction a as [|[k v] a IH]; intros [|[k' v'] b]; cbn; split; intros H; try congruence; try reflexivity.
  - apply andb_true_iff in H. destruct H as [Hl H]. apply andb_true_iff in H. destruct H as [H1 H2].
    apply andb_true_iff in H1. destruct H1 as [Hk Hv]. apply str_eqb_eq in Hk. apply str_eqb_eq in Hv. subst.
    f_equal. apply IH. apply andb_true_iff. split; assumption.
  - inversion H; subst. assert (E : b = b) by reflexivity. apply IH in E. apply andb_true_iff in E. destruct E as [E1 E2].
    rewrite E1, E2, !str_eqb_refl. reflexivity.
Qed.

Lemma resp_eqb_eq a b : resp_eqb a b = true <-> a = b.
Proof.
  unfold resp_eqb. destruct a as [sa ha ba], b as [sb hb bb]. cbn [status hdrs body]. split.
  - intros H. apply andb_true_iff in H. destruct H as [H Hb]. apply andb_true_iff in H. destruct H as [Hs Hh].
    apply N.eqb_eq in Hs. apply hdrs_eqb_eq in Hh. apply str_eqb_eq in Hb. congruence.
  - intros H. inversion H; subst. rewrite N.eqb_refl, str_eqb_refl.
    assert (E : hb = hb) by reflexivity. apply hdrs_eqb_eq in E. rewrite E. reflexivity.
Qed.

Lemma existsb_eqb_In c l : existsb (N.eqb c) l = true <-> In c l.
Proof.
  rewrite existsb_exists. split.
  - intros [x [Hi He]]. apply N.eqb_eq in He. now subst.
  - intros H. exists c. split; [assumption | apply N.eqb_refl].
Qed.

Lemma split_skip {A} (l : list A) : forall tr2 pre post e,
  l ++ tr2 = pre ++ e :: post -> ~ In e l -> exists pre', pre = l ++ pre' /\ tr2 = pre' ++ e :: post.
Proof.
  induction l as [|x l IH]; intros tr2 pre post e Heq Hn; cbn [app] in *.
  - exists pre. split; [reflexivity | assumption].
  - destruct pre as [|p pre]; cbn [app] in Heq; inversion Heq; subst.
    + exfalso. apply Hn. now left.
    + destruct (IH _ _ _ _ H1) as [pre' [-> ->]]. { intros Hi. apply Hn. now right. }
      exists pre'. split; reflexivity.
Qed.

(* destruct every match / if in the hypothesis that says a step was taken *)
Ltac step_cases H :=
  cbn [step] in H;
  repeat match type of H with
         | context [match ?x with _ => _ end] => let E := fresh "E" in destruct x eqn:E
         end;
  try discriminate H;
  match type of H with _ = Some (?s', ?o) => injection H as ? ?; subst s' o end.

Section Proofs.
  Variable cfg : config.
  Variable masq : request -> response.

  Notation step := (step cfg masq).
  Notation run := (run cfg masq).

  (* ---------------------------------------------------------------- frame: connections are independent *)

  Lemma step_frame s a s' o c' :
    step s a = Some (s', o) -> c' <> act_conn a -> s' c' = s c'.
  Proof.
    intros H Hc. destruct a; cbn [act_conn] in Hc; step_cases H; try reflexivity; now apply upd_other.
  Qed.

  Lemma step_obs_conn s a s' o :
    step s a = Some (s', o) -> Forall (fun x => obs_conn x = act_conn a) o.
  Proof.
    intros H. destruct a; step_cases H; cbn [act_conn]; repeat constructor.
  Qed.

  Lemma auth_is_per_connection s a s' o :
    step s a = Some (s', o) ->
    (forall c', c' <> act_conn a -> s' c' = s c') /\ Forall (fun x => obs_conn x = act_conn a) o.
  Proof. intros H. split; [intros c' Hc; exact (step_frame s a s' o c' H Hc) | exact (step_obs_conn s a s' o H)]. Qed.

  (* ---------------------------------------------------------------- invariant of reachable states *)

  Definition inv_conn (k : conn) : Prop :=
    (authed k = false -> gate_closed k) /\
    (authed k = true -> in_auth k = None) /\
    (closed k = true -> in_auth k = None) /\
    (forall r, in_auth k = Some r -> is_auth_req r = true).

  Definition Inv (s : state) : Prop := forall c, inv_conn (s c).

  Lemma Inv_init : Inv init.
  Proof. intros c. unfold init, inv_conn, gate_closed, conn0. cbn. repeat split; congruence. Qed.

  Lemma step_Inv s a s' o : Inv s -> step s a = Some (s', o) -> Inv s'.
  Proof.
    intros HI H c0.
    destruct (N.eq_dec c0 (act_conn a)) as [->|Hne].
    2:{ rewrite (step_frame _ _ _ _ _ H Hne). apply HI. }
    pose proof (HI (act_conn a)) as [HG [HJ [HK HL]]]. unfold gate_closed in HG.
    destruct a; cbn [act_conn] in *; step_cases H; try (now apply HI);
      rewrite upd_same; unfold inv_conn, gate_closed; cbn [authed in_auth closed tcp_pend tcp_est udp_sm udp_est];
      (split; [intros Hx | split; [intros Hx | split; [intros Hx | intros r0 Hx]]]);
      try discriminate Hx; try (now apply (HL r0)); try (injection Hx as <-; assumption); try reflexivity; try (now apply HJ); try (now apply HK); try congruence;
      try (destruct (HG Hx) as [G1 [G2 [G3 G4]]]);
      try (rewrite G1 in *; discriminate); try (rewrite G3 in *; discriminate);
      try (repeat split; congruence);
      try (match goal with E : (authed _ && _) = true |- _ => apply andb_true_iff in E; destruct E; congruence end).
  Qed.

  Lemma run_Inv acts : forall s s' tr, Inv s -> run s acts = Some (s', tr) -> Inv s'.
  Proof.
    induction acts as [|a t IH]; intros s s' tr HI H; cbn [C01_ServerAuth.run] in H.
    - now inversion H; subst.
    - destruct (step s a) as [[s1 o]|] eqn:Es; try discriminate.
      destruct (run s1 t) as [[s2 tr2]|] eqn:Er; try discriminate.
      inversion H; subst. eapply IH; [|eassumption]. eapply step_Inv; eassumption.
  Qed.

  (* an outbound / relay observable is emitted only by a step of an authenticated connection *)
  Lemma step_outbound_authed s a s' o x c :
    Inv s -> step s a = Some (s', o) -> In x o -> outbound_conn (EObs x) = Some c -> authed (s c) = true.
  Proof.
    intros HI H Hin Hout.
    destruct a; step_cases H; cbn in Hin; repeat (destruct Hin as [<-|Hin]; try discriminate); try contradiction;
      cbn in Hout; inversion Hout; subst;
      destruct (authed (s c)) eqn:Ea; try reflexivity;
      destruct (HI c) as [HG _]; destruct (HG Ea) as [G1 [G2 [G3 G4]]].
    - rewrite G1 in E. discriminate.
    - rewrite G2 in E. discriminate.
    - rewrite G3 in E. discriminate.
    - rewrite G4 in E. discriminate.
  Qed.

  (* the flag is only ever set by an accepting verdict on that connection *)
  Lemma step_sets_authed s a s' o c :
    step s a = Some (s', o) -> authed (s c) = false -> authed (s' c) = true ->
    exists id pad, a = AuthVerdict c true id pad.
  Proof.
    intros H H0 H1.
    destruct (N.eq_dec c (act_conn a)) as [->|Hne].
    2:{ rewrite (step_frame _ _ _ _ _ H Hne) in H1. congruence. }
    destruct a; cbn [act_conn] in *; step_cases H; try congruence;
      try (rewrite upd_same in H1; cbn [authed] in H1; congruence).
    eauto.
  Qed.

  (* once set, the flag stays, the id stays, the mutex is never taken for Authenticate again *)
  Lemma step_sticky s a s' o c :
    Inv s -> step s a = Some (s', o) -> authed (s c) = true ->
    authed (s' c) = true /\ auth_id (s' c) = auth_id (s c) /\
    (forall auth tx, ~ In (ObsAuthCall c auth tx) o) /\
    (forall ok id pad, a <> AuthVerdict c ok id pad).
  Proof.
    intros HI H Ha.
    destruct (N.eq_dec c (act_conn a)) as [->|Hne].
    2:{ rewrite (step_frame _ _ _ _ _ H Hne). repeat split; try assumption.
        - intros auth tx Hin. pose proof (step_obs_conn _ _ _ _ H) as HF. rewrite Forall_forall in HF.
          apply HF in Hin. cbn in Hin. congruence.
        - intros ok id pad ->. cbn in Hne. congruence. }
    destruct (HI (act_conn a)) as [_ [HJ _]]. specialize (HJ Ha).
    destruct a; cbn [act_conn] in *; step_cases H; try congruence;
      try rewrite upd_same; cbn [authed auth_id];
      (repeat split; [assumption || reflexivity .. | | ]);
      try (intros auth tx Hin; cbn in Hin; repeat (destruct Hin as [Hin|Hin]; try discriminate); contradiction);
      try (intros ok' id' pad' Hq; discriminate).
  Qed.

  (* ---------------------------------------------------------------- C01: monitor holds on every run *)

  Lemma c01_mon_obs seen o tr :
    (forall x c, In x o -> outbound_conn (EObs x) = Some c -> In c seen) ->
    c01_mon seen tr = true -> c01_mon seen (map EObs o ++ tr) = true.
  Proof.
    induction o as [|x o IH]; intros Ho Ht; cbn [map app c01_mon]; [assumption|].
    apply andb_true_iff. split.
    - destruct (outbound_conn (EObs x)) as [c|] eqn:Eo; [|reflexivity].
      apply existsb_eqb_In. eapply Ho; [left; reflexivity | eassumption].
    - apply IH; [|assumption]. intros y c Hy. apply Ho. now right.
  Qed.

  Lemma run_c01_mon acts : forall s s' tr seen,
    Inv s -> (forall c, authed (s c) = true -> In c seen) ->
    run s acts = Some (s', tr) -> c01_mon seen tr = true.
  Proof.
    induction acts as [|a t IH]; intros s s' tr seen HI Hseen H; cbn [C01_ServerAuth.run] in H.
    - inversion H; subst. reflexivity.
    - destruct (step s a) as [[s1 o]|] eqn:Es; try discriminate.
      destruct (run s1 t) as [[s2 tr2]|] eqn:Er; try discriminate.
      inversion H; subst. cbn [c01_mon outbound_conn andb].
      set (seen1 := match a with AuthVerdict c true _ _ => c :: seen | _ => seen end).
      assert (Hs1 : forall c, authed (s1 c) = true -> In c seen1).
      { intros c Hc. destruct (authed (s c)) eqn:Ea.
        - apply Hseen in Ea. subst seen1. destruct a; try assumption. destruct ok; [right|]; assumption.
        - destruct (step_sets_authed _ _ _ _ _ Es Ea Hc) as [id [pad ->]]. subst seen1. now left. }
      assert (Hincl : forall c, In c seen -> In c seen1).
      { intros c Hc. subst seen1. destruct a; try assumption. destruct ok; [right|]; assumption. }
      apply c01_mon_obs.
      + intros x c Hx Hout. apply Hincl, Hseen. eapply step_outbound_authed; eassumption.
      + eapply IH; [eapply step_Inv; eassumption | exact Hs1 | exact Er].
  Qed.

  Lemma c01_mon_sound tr : forall seen,
    c01_mon seen tr = true ->
    forall pre e post c, tr = pre ++ e :: post -> outbound_conn e = Some c ->
      In c seen \/ exists id pad, In (EAct (AuthVerdict c true id pad)) pre.
  Proof.
    induction tr as [|e0 tr IH]; intros seen Hm pre e post c Heq Hout.
    - destruct pre; discriminate.
    - cbn [c01_mon] in Hm. apply andb_true_iff in Hm. destruct Hm as [Hh Ht].
      destruct pre as [|p pre]; cbn in Heq; inversion Heq; subst.
      + rewrite Hout in Hh. left. now apply existsb_eqb_In.
      + specialize (IH _ Ht pre e post c eq_refl Hout). destruct IH as [Hin|[id [pad Hin]]].
        * destruct p as [a|x]; try (now left). destruct a; try (now left). destruct ok; try (now left).
          destruct Hin as [<-|Hin]; [|now left]. right. exists id, pad. now left.
        * right. exists id, pad. now right.
  Qed.

  Theorem no_outbound_before_auth acts s tr :
    run init acts = Some (s, tr) ->
    c01_mon [] tr = true /\
    forall pre e post c, tr = pre ++ e :: post -> outbound_conn e = Some c ->
      exists id pad, In (EAct (AuthVerdict c true id pad)) pre.
  Proof.
    intros H. assert (Hm : c01_mon [] tr = true).
    { eapply run_c01_mon; [apply Inv_init | | exact H]. intros c Hc. cbn in Hc. discriminate. }
    split; [assumption|]. intros pre e post c Heq Hout.
    destruct (c01_mon_sound _ _ Hm _ _ _ _ Heq Hout) as [[]|Hx]. exact Hx.
  Qed.

  (* ---------------------------------------------------------------- C01: sticky, not re-evaluated *)

  Lemma run_sticky acts : forall s s' tr c,
    Inv s -> run s acts = Some (s', tr) -> authed (s c) = true ->
    authed (s' c) = true /\ auth_id (s' c) = auth_id (s c) /\
    (forall auth tx, ~ In (EObs (ObsAuthCall c auth tx)) tr) /\
    (forall ok id pad, ~ In (EAct (AuthVerdict c ok id pad)) tr).
  Proof.
    induction acts as [|a t IH]; intros s s' tr c HI H Ha; cbn [C01_ServerAuth.run] in H.
    - inversion H; subst. repeat split; try assumption; intros; intros [].
    - destruct (step s a) as [[s1 o]|] eqn:Es; try discriminate.
      destruct (run s1 t) as [[s2 tr2]|] eqn:Er; try discriminate.
      inversion H; subst.
      destruct (step_sticky _ _ _ _ c HI Es Ha) as [A1 [A2 [A3 A4]]].
      destruct (IH _ _ _ c (step_Inv _ _ _ _ HI Es) Er A1) as [B1 [B2 [B3 B4]]].
      repeat split.
      + assumption.
      + congruence.
      + intros auth tx [Hin|Hin]; [discriminate|]. apply in_app_or in Hin. destruct Hin as [Hin|Hin].
        * apply in_map_iff in Hin. destruct Hin as [x [Hx Hin]]. inversion Hx; subst. eapply A3; eassumption.
        * eapply B3; eassumption.
      + intros ok id pad [Hin|Hin].
        * inversion Hin; subst. eapply A4; reflexivity.
        * apply in_app_or in Hin. destruct Hin as [Hin|Hin].
          -- apply in_map_iff in Hin. destruct Hin as [x [Hx _]]. discriminate.
          -- eapply B4; eassumption.
  Qed.

  Lemma run_app acts1 : forall acts2 s s' tr,
    run s (acts1 ++ acts2) = Some (s', tr) ->
    exists s1 tr1 tr2, run s acts1 = Some (s1, tr1) /\ run s1 acts2 = Some (s', tr2) /\ tr = tr1 ++ tr2.
  Proof.
    induction acts1 as [|a t IH]; intros acts2 s s' tr H; cbn [app C01_ServerAuth.run] in *.
    - exists s, [], tr. repeat split. assumption.
    - destruct (step s a) as [[s1 o]|] eqn:Es; try discriminate.
      destruct (run s1 (t ++ acts2)) as [[s2 tr2]|] eqn:Er; try discriminate.
      inversion H; subst. destruct (IH _ _ _ _ Er) as [sm [tra [trb [R1 [R2 ->]]]]].
      exists sm, (EAct a :: map EObs o ++ tra), trb. rewrite R1. repeat split; try assumption.
      cbn. now rewrite app_assoc.
  Qed.

  Theorem auth_is_sticky_and_not_reevaluated acts1 acts2 s1 tr1 s2 tr2 c :
    run init acts1 = Some (s1, tr1) -> authed (s1 c) = true ->
    run s1 acts2 = Some (s2, tr2) ->
    authed (s2 c) = true /\ auth_id (s2 c) = auth_id (s1 c) /\
    (forall auth tx, ~ In (EObs (ObsAuthCall c auth tx)) tr2) /\
    (forall ok id pad, ~ In (EAct (AuthVerdict c ok id pad)) tr2).
  Proof.
    intros H1 Ha H2. eapply run_sticky; try eassumption. eapply run_Inv; [apply Inv_init | eassumption].
  Qed.

  (* ---------------------------------------------------------------- C01: online / offline pairing *)

  Lemma count_app f a b : count f (a ++ b) = (count f a + count f b)%nat.
  Proof. unfold count. now rewrite filter_app, app_length. Qed.

  Lemma count_cons f e t : count f (e :: t) = (nb (f e) + count f t)%nat.
  Proof. unfold count. cbn. destruct (f e); reflexivity. Qed.

  Definition ev_conn (e : ev) : cid := match e with EAct a => act_conn a | EObs x => obs_conn x end.

  Lemma count_zero_other f a o c :
    (forall e, f e = true -> ev_conn e = c) -> c <> act_conn a ->
    Forall (fun x => obs_conn x = act_conn a) o -> count f (EAct a :: map EObs o) = 0%nat.
  Proof.
    intros Hf Hne HF. unfold count. cbn [filter]. destruct (f (EAct a)) eqn:E1.
    - apply Hf in E1. cbn in E1. congruence.
    - induction HF as [|x o Hx HF IH]; [reflexivity|]. cbn [map filter].
      destruct (f (EObs x)) eqn:E2.
      + apply Hf in E2. cbn in E2. congruence.
      + exact IH.
  Qed.

  (* what one step contributes, as a function of the flags before and after *)
  Lemma step_counts s a s' o c :
    Inv s -> step s a = Some (s', o) ->
    let tr := EAct a :: map EObs o in
    (count (is_accept c) tr + nb (authed (s c)) = nb (authed (s' c)))%nat /\
    count (is_online c true) tr = count (is_accept c) tr /\
    count (is_connect c) tr = count (is_accept c) tr /\
    (count (is_online c false) tr + nb (authed (s c) && closed (s c)) = nb (authed (s' c) && closed (s' c)))%nat /\
    count (is_disconnect c) tr = count (is_online c false) tr.
  Proof.
    intros HI H.
    destruct (N.eq_dec c (act_conn a)) as [->|Hne].
    2:{ pose proof (step_frame _ _ _ _ _ H Hne) as Hf. pose proof (step_obs_conn _ _ _ _ H) as HF.
        cbn zeta. rewrite Hf.
        assert (Z : forall f, (forall e, f e = true -> ev_conn e = c) -> count f (EAct a :: map EObs o) = 0%nat).
        { intros f Hf'. eapply count_zero_other; eauto. }
        rewrite !Z; [repeat split; reflexivity | ..];
          intros [a'|x] He; cbn in He; try discriminate;
          try (destruct a'; try discriminate; destruct ok; try discriminate; cbn; now apply N.eqb_eq);
          try (destruct x; try discriminate; cbn; try (apply andb_true_iff in He; destruct He as [He _]); now apply N.eqb_eq). }
    destruct (HI (act_conn a)) as [_ [HJ [HK _]]].
    destruct a; cbn [act_conn] in *; step_cases H; cbn zeta;
      try rewrite upd_same; cbn [authed closed];
      unfold count; cbn [map filter is_accept is_online is_connect is_disconnect length app];
      rewrite ?N.eqb_refl; cbn [andb Bool.eqb length filter];
      try (destruct (authed (s c)) eqn:Ea); try (destruct (closed (s c)) eqn:Ec); cbn [nb andb length];
      try (repeat split; reflexivity);
      try (rewrite (HJ Ea) in *; discriminate);
      try (rewrite (HK Ec) in *; discriminate);
      try discriminate.
    all: try (discriminate (HJ eq_refl)); try (discriminate (HK eq_refl)).
  Qed.

  Lemma run_counts acts : forall s s' tr c,
    Inv s -> run s acts = Some (s', tr) ->
    (count (is_accept c) tr + nb (authed (s c)) = nb (authed (s' c)))%nat /\
    count (is_online c true) tr = count (is_accept c) tr /\
    count (is_connect c) tr = count (is_accept c) tr /\
    (count (is_online c false) tr + nb (authed (s c) && closed (s c)) = nb (authed (s' c) && closed (s' c)))%nat /\
    count (is_disconnect c) tr = count (is_online c false) tr.
  Proof.
    induction acts as [|a t IH]; intros s s' tr c HI H; cbn [C01_ServerAuth.run] in H.
    - inversion H; subst. unfold count. cbn. repeat split; reflexivity.
    - destruct (step s a) as [[s1 o]|] eqn:Es; try discriminate.
      destruct (run s1 t) as [[s2 tr2]|] eqn:Er; try discriminate.
      inversion H; subst.
      destruct (step_counts _ _ _ _ c HI Es) as [A1 [A2 [A3 [A4 A5]]]].
      destruct (IH _ _ _ c (step_Inv _ _ _ _ HI Es) Er) as [B1 [B2 [B3 [B4 B5]]]].
      change (EAct a :: map EObs o ++ tr2) with ((EAct a :: map EObs o) ++ tr2).
      rewrite !count_app. repeat split; lia.
  Qed.

  (* every online / offline / connect / disconnect event of c names the id the authenticator gave for c *)
  Lemma step_ids s a s' o c :
    step s a = Some (s', o) ->
    forall x, In x o ->
      match x with
      | ObsOnline c' id _ | ObsConnect c' id _ | ObsDisconnect c' id => c' = c -> authed (s' c) = true /\ id = auth_id (s' c)
      | _ => True
      end.
  Proof.
    intros H x Hin.
    destruct a; step_cases H; cbn in Hin; repeat (destruct Hin as [<-|Hin]; try exact I); try contradiction;
      intros ->; rewrite upd_same; cbn [authed auth_id]; split; congruence.
  Qed.

  Lemma run_ids acts : forall s s' tr c,
    Inv s -> run s acts = Some (s', tr) ->
    forall x, In (EObs x) tr ->
      match x with
      | ObsOnline c' id _ | ObsConnect c' id _ | ObsDisconnect c' id => c' = c -> id = auth_id (s' c)
      | _ => True
      end.
  Proof.
    induction acts as [|a t IH]; intros s s' tr c HI H x Hin; cbn [C01_ServerAuth.run] in H.
    - inversion H; subst. destruct Hin.
    - destruct (step s a) as [[s1 o]|] eqn:Es; try discriminate.
      destruct (run s1 t) as [[s2 tr2]|] eqn:Er; try discriminate.
      inversion H; subst. destruct Hin as [Hin|Hin]; [discriminate|].
      apply in_app_or in Hin. destruct Hin as [Hin|Hin].
      + apply in_map_iff in Hin. destruct Hin as [y [Hy Hin]]. inversion Hy; subst.
        pose proof (step_ids _ _ _ _ c Es _ Hin) as Hs.
        destruct x; try exact I; intros Hc; destruct (Hs Hc) as [Ha ->];
          destruct (run_sticky _ _ _ _ c (step_Inv _ _ _ _ HI Es) Er Ha) as [_ [Hid _]]; congruence.
      + eapply IH; [eapply step_Inv; eassumption | eassumption | assumption].
  Qed.

  (* offline only after online: an offline event is emitted by ConnClosed on an authenticated connection *)
  Lemma run_offline_after_online acts : forall s s' tr c,
    Inv s -> authed (s c) = false -> run s acts = Some (s', tr) ->
    forall pre id post, tr = pre ++ EObs (ObsOnline c id false) :: post ->
      In (EObs (ObsOnline c id true)) pre.
  Proof.
    induction acts as [|a t IH]; intros s s' tr c HI Ha H pre id post Heq; cbn [C01_ServerAuth.run] in H.
    - inversion H; subst. destruct pre; discriminate.
    - destruct (step s a) as [[s1 o]|] eqn:Es; try discriminate.
      destruct (run s1 t) as [[s2 tr2]|] eqn:Er; try discriminate.
      injection H as Hs' Htr; subst s' tr.
      assert (HI1 : Inv s1) by (eapply step_Inv; eassumption).
      destruct (authed (s1 c)) eqn:Ea1.
      + (* this step is the accepting verdict: it emits online(true); later ids are this id *)
        destruct (step_sets_authed _ _ _ _ _ Es Ha Ea1) as [id0 [pad0 ->]].
        assert (Hin : In (EObs (ObsOnline c id false)) (EAct (AuthVerdict c true id0 pad0) :: map EObs o ++ tr2)).
        { rewrite Heq. apply in_or_app. right. now left. }
        step_cases Es. cbn [map app] in *.
        assert (Hid : id = id0).
        { destruct Hin as [Hin|[Hin|[Hin|[Hin|Hin]]]]; try discriminate.
          pose proof (run_ids _ _ _ _ c HI1 Er _ Hin eq_refl) as Hx. cbn in Hx.
          destruct (run_sticky _ _ _ _ c HI1 Er Ea1) as [_ [Hs _]]. rewrite upd_same in Hs. cbn in Hs. congruence. }
        subst id0.
        destruct pre as [|p0 [|p1 [|p2 pre]]]; cbn [app] in Heq; try discriminate Heq.
        injection Heq as <- <- <- _. right. right. left. reflexivity.
      + (* not yet authenticated after this step: no offline event in this step's observables *)
        assert (Ho : forall id', ~ In (ObsOnline c id' false) o).
        { intros id' Hin. pose proof (step_ids _ _ _ _ c Es _ Hin eq_refl) as [Hx _]. congruence. }
        assert (Hsplit : exists pre', pre = (EAct a :: map EObs o) ++ pre' /\ tr2 = pre' ++ EObs (ObsOnline c id false) :: post).
        { apply split_skip.
          - exact Heq.
          - intros [Hin|Hin]; [discriminate|]. apply in_map_iff in Hin. destruct Hin as [x [Hx Hin]].
            inversion Hx; subst. eapply Ho; eassumption. }
        destruct Hsplit as [pre' [-> Htr2]].
        apply in_or_app. right. eapply IH; try eassumption.
  Qed.

  Theorem online_paired acts s tr c :
    run init acts = Some (s, tr) ->
    count (is_accept c) tr = nb (authed (s c)) /\
    count (is_online c true) tr = nb (authed (s c)) /\
    count (is_connect c) tr = nb (authed (s c)) /\
    count (is_online c false) tr = nb (authed (s c) && closed (s c)) /\
    count (is_disconnect c) tr = nb (authed (s c) && closed (s c)) /\
    (forall id b, In (EObs (ObsOnline c id b)) tr -> id = auth_id (s c)) /\
    (forall pre id post, tr = pre ++ EObs (ObsOnline c id false) :: post -> In (EObs (ObsOnline c id true)) pre).
  Proof.
    intros H. destruct (run_counts _ _ _ _ c Inv_init H) as [A1 [A2 [A3 [A4 A5]]]].
    cbn [init conn0 authed closed nb andb] in A1, A4. rewrite Nat.add_0_r in A1, A4.
    repeat split; try congruence.
    - intros id b Hin. exact (run_ids _ _ _ _ c Inv_init H _ Hin eq_refl).
    - intros pre id post Heq. eapply run_offline_after_online; try eassumption. apply Inv_init. reflexivity.
  Qed.

  (* ================================================================ C02 *)

  (* a request that is not an auth request is answered by the masquerade handler, whole response, state untouched *)
  Lemma non_auth_is_masq s c r pad s' o :
    step s (HttpReq c r pad) = Some (s', o) -> is_auth_req r = false ->
    s' = s /\ o = [ObsMasq c r; ObsResp c r (masq r)].
  Proof. intros H Hr. step_cases H; try congruence. split; reflexivity. Qed.

  (* a rejected auth request is answered by the masquerade handler, whole response; nothing but the mutex changes *)
  Lemma rejected_auth_is_masq s c id pad s' o :
    Inv s -> step s (AuthVerdict c false id pad) = Some (s', o) ->
    exists r, in_auth (s c) = Some r /\ is_auth_req r = true /\ authed (s c) = false /\
              o = [ObsMasq c r; ObsResp c r (masq r)] /\
              authed (s' c) = false /\ gate_closed (s' c) /\ in_auth (s' c) = None.
  Proof.
    intros HI H. destruct (HI c) as [HG [HJ [HK HL]]]. step_cases H.
    exists r. rewrite upd_same. cbn [authed in_auth tcp_pend tcp_est udp_sm udp_est].
    assert (Ha : authed (s c) = false).
    { destruct (authed (s c)) eqn:Ea; [|reflexivity]. pose proof (HJ eq_refl) as X. congruence. }
    repeat split; try assumption; try reflexivity; try (now apply HL); try (now apply HG).
  Qed.

  Lemma rejected_auth_is_masq_reachable acts s tr c id pad s' o :
    run init acts = Some (s, tr) ->
    step s (AuthVerdict c false id pad) = Some (s', o) ->
    exists r, in_auth (s c) = Some r /\ is_auth_req r = true /\ authed (s c) = false /\
              o = [ObsMasq c r; ObsResp c r (masq r)] /\
              authed (s' c) = false /\ gate_closed (s' c) /\ in_auth (s' c) = None.
  Proof. intros H. apply rejected_auth_is_masq. exact (run_Inv acts init s tr Inv_init H). Qed.

  Lemma run_obs_ind (P : obs -> Prop) :
    (forall s a s' o x, Inv s -> step s a = Some (s', o) -> In x o -> P x) ->
    forall acts s s' tr, Inv s -> run s acts = Some (s', tr) -> forall x, In (EObs x) tr -> P x.
  Proof.
    intros HP. induction acts as [|a t IH]; intros s s' tr HI H x Hin; cbn [C01_ServerAuth.run] in H.
    - injection H as _ <-. destruct Hin.
    - destruct (step s a) as [[s1 o]|] eqn:Es; try discriminate.
      destruct (run s1 t) as [[s2 tr2]|] eqn:Er; try discriminate.
      injection H as _ <-. destruct Hin as [Hin|Hin]; [discriminate|].
      apply in_app_or in Hin. destruct Hin as [Hin|Hin].
      + apply in_map_iff in Hin. destruct Hin as [y [Hy Hin]]. injection Hy as ->. eapply HP; eassumption.
      + eapply IH; [eapply step_Inv; eassumption | eassumption | assumption].
  Qed.

  (* every response is either the masquerade handler's, or the 233 response to an auth request *)
  Lemma run_resp_shape acts s tr :
    run init acts = Some (s, tr) ->
    forall c r resp, In (EObs (ObsResp c r resp)) tr ->
      resp = masq r \/ (is_auth_req r = true /\ exists pad, resp = resp_auth_ok cfg pad).
  Proof.
    intros H c r resp Hin.
    apply (run_obs_ind (fun x => match x with
                                 | ObsResp _ r resp => resp = masq r \/ (is_auth_req r = true /\ exists pad, resp = resp_auth_ok cfg pad)
                                 | _ => True end)) with (acts := acts) (s := init) (s' := s) (tr := tr) (x := ObsResp c r resp);
      try assumption; try apply Inv_init.
    clear. intros s a s' o x HI H Hin. destruct (HI (act_conn a)) as [_ [_ [_ HL]]].
    destruct a; cbn [act_conn] in *; step_cases H; cbn in Hin;
      repeat (destruct Hin as [<-|Hin]; try exact I); try contradiction;
      try (left; reflexivity); right; (split; [try assumption; now apply HL | eexists; reflexivity]).
  Qed.

  Lemma c02_mon_obs seen o tr :
    (forall c r resp, In (ObsResp c r resp) o -> resp = masq r \/ In c seen) ->
    c02_mon masq seen tr = true -> c02_mon masq seen (map EObs o ++ tr) = true.
  Proof.
    induction o as [|x o IH]; intros Ho Ht; cbn [map app c02_mon]; [assumption|].
    apply andb_true_iff. split.
    - destruct x; try reflexivity. apply orb_true_iff.
      destruct (Ho c r resp (or_introl eq_refl)) as [->|Hin].
      + left. now apply resp_eqb_eq.
      + right. now apply existsb_eqb_In.
    - replace (match EObs x with EAct (AuthVerdict c true _ _) => c :: seen | _ => seen end) with seen by reflexivity.
      apply IH; [|assumption]. intros c r resp Hin. apply Ho. now right.
  Qed.

  Lemma step_resp_authed s a s' o c r resp :
    step s a = Some (s', o) -> In (ObsResp c r resp) o -> resp = masq r \/ authed (s' c) = true.
  Proof.
    intros H Hin.
    destruct a; step_cases H; cbn in Hin; repeat (destruct Hin as [Hin|Hin]; try discriminate); try contradiction;
      injection Hin as <- <- <-; try (left; reflexivity); right; try assumption.
    rewrite upd_same. reflexivity.
  Qed.

  Lemma run_c02_mon acts : forall s s' tr seen,
    Inv s -> (forall c, authed (s c) = true -> In c seen) ->
    run s acts = Some (s', tr) -> c02_mon masq seen tr = true.
  Proof.
    induction acts as [|a t IH]; intros s s' tr seen HI Hseen H; cbn [C01_ServerAuth.run] in H.
    - injection H as _ <-. reflexivity.
    - destruct (step s a) as [[s1 o]|] eqn:Es; try discriminate.
      destruct (run s1 t) as [[s2 tr2]|] eqn:Er; try discriminate.
      injection H as _ <-. cbn [c02_mon andb].
      set (seen1 := match a with AuthVerdict c true _ _ => c :: seen | _ => seen end).
      assert (Hs1 : forall c, authed (s1 c) = true -> In c seen1).
      { intros c Hc. destruct (authed (s c)) eqn:Ea.
        - apply Hseen in Ea. subst seen1. destruct a; try assumption. destruct ok; [right|]; assumption.
        - destruct (step_sets_authed _ _ _ _ _ Es Ea Hc) as [id [pad ->]]. subst seen1. now left. }
      replace (match EAct a with EAct (AuthVerdict c true _ _) => c :: seen | _ => seen end) with seen1 by reflexivity.
      apply c02_mon_obs.
      + intros c r resp Hin. destruct (step_resp_authed _ _ _ _ _ _ _ Es Hin) as [->|Ha]; [now left|].
        right. now apply Hs1.
      + eapply IH; [eapply step_Inv; eassumption | exact Hs1 | exact Er].
  Qed.

  Lemma c02_mon_sound tr : forall seen,
    c02_mon masq seen tr = true ->
    forall pre c r resp post, tr = pre ++ EObs (ObsResp c r resp) :: post ->
      resp = masq r \/ In c seen \/ exists id pad, In (EAct (AuthVerdict c true id pad)) pre.
  Proof.
    induction tr as [|e0 tr IH]; intros seen Hm pre c r resp post Heq.
    - destruct pre; discriminate.
    - cbn [c02_mon] in Hm. apply andb_true_iff in Hm. destruct Hm as [Hh Ht].
      destruct pre as [|p pre]; cbn [app] in Heq; injection Heq as -> ->.
      + apply orb_true_iff in Hh. destruct Hh as [Hh|Hh].
        * left. now apply resp_eqb_eq.
        * right. left. now apply existsb_eqb_In.
      + destruct (IH _ Ht pre c r resp post eq_refl) as [Hx|[Hin|[id [pad Hin]]]].
        * now left.
        * destruct p as [a|x]; try (right; left; exact Hin). destruct a; try (right; left; exact Hin).
          destruct ok; try (right; left; exact Hin).
          destruct Hin as [<-|Hin]; [|right; left; exact Hin]. right. right. exists id, pad. now left.
        * right. right. exists id, pad. now right.
  Qed.

  Theorem no_hysteria_marker_unless_accepted acts s tr :
    run init acts = Some (s, tr) ->
    c02_mon masq [] tr = true /\
    forall pre c r resp post, tr = pre ++ EObs (ObsResp c r resp) :: post -> resp <> masq r ->
      is_auth_req r = true /\ (exists pad, resp = resp_auth_ok cfg pad) /\
      exists id pad, In (EAct (AuthVerdict c true id pad)) pre.
  Proof.
    intros H. assert (Hm : c02_mon masq [] tr = true).
    { eapply run_c02_mon; [apply Inv_init | | exact H]. intros c Hc. cbn in Hc. discriminate. }
    split; [assumption|]. intros pre c r resp post Heq Hne.
    assert (Hin : In (EObs (ObsResp c r resp)) tr) by (rewrite Heq; apply in_or_app; right; now left).
    destruct (run_resp_shape _ _ _ H _ _ _ Hin) as [Hx|[Hr Hp]]; [contradiction|].
    destruct (c02_mon_sound _ _ Hm _ _ _ _ _ Heq) as [Hx|[[]|Hx]]; [contradiction|].
    repeat split; assumption.
  Qed.

  (* unauthenticated: a proxy stream / datagram changes nothing that could ever reply, and no step that
     reaches the outbound or relays is enabled *)
  Theorem unauth_stream_no_reply acts s tr c :
    run init acts = Some (s, tr) -> authed (s c) = false ->
    (forall ft addr s' o, step s (Stream c ft addr) = Some (s', o) ->
        o = [] /\ authed (s' c) = false /\ gate_closed (s' c)) /\
    (forall addr s' o, step s (Datagram c addr) = Some (s', o) ->
        o = [] /\ authed (s' c) = false /\ gate_closed (s' c)) /\
    (forall addr n, step s (TcpDial c addr) = None /\ step s (TcpRelay c addr n) = None /\
                    step s (UdpRecv c addr) = None /\ step s (UdpRelay c addr n) = None).
  Proof.
    intros H Ha. assert (HI : Inv s) by (eapply run_Inv; [apply Inv_init | eassumption]).
    destruct (HI c) as [HG _]. destruct (HG Ha) as [G1 [G2 [G3 G4]]].
    split; [|split].
    - intros ft addr s' o Hs. step_cases Hs; try (repeat split; assumption).
      rewrite Ha in E1. discriminate.
    - intros addr s' o Hs. step_cases Hs. rewrite upd_same. cbn [authed]. repeat split; assumption.
    - intros addr n. cbn [C01_ServerAuth.step]. rewrite G1, G2, G3, G4. cbn. repeat split; reflexivity.
  Qed.

  (* the same on traces: between the start and the first accepting verdict on c nothing of c reaches the
     outbound - this is no_outbound_before_auth; restated for the reply direction: every relay observable of c
     (the only way a Hysteria reply is produced) comes after an accepting verdict on c *)

End Proofs.

(* ------------------------------------------------------------------ is_auth_req is exact *)

Lemma is_auth_req_exact r :
  is_auth_req r = true <-> r_method r = method_post /\ r_host r = url_host /\ r_path r = url_path.
Proof.
  unfold is_auth_req. rewrite !andb_true_iff, !str_eqb_eq. tauto.
Qed.

From Coq Require Import String.
Definition bs (x : string) : str := list_byte_of_string x.

(* near-misses of POST hysteria /auth (method, host, path as the server sees them) *)
Definition near_misses : list (str * str * str) :=
  [ (bs "GET", bs "hysteria", bs "/auth"); (bs "post", bs "hysteria", bs "/auth"); (bs "POST ", bs "hysteria", bs "/auth");
    (bs "PUT", bs "hysteria", bs "/auth"); (bs "HEAD", bs "hysteria", bs "/auth"); (bs "", bs "hysteria", bs "/auth");
    (bs "POST", bs "Hysteria", bs "/auth"); (bs "POST", bs "HYSTERIA", bs "/auth"); (bs "POST", bs "hysteria:443", bs "/auth");
    (bs "POST", bs "hysteria.", bs "/auth"); (bs "POST", bs "hysteri", bs "/auth"); (bs "POST", bs "", bs "/auth");
    (bs "POST", bs "www.hysteria", bs "/auth"); (bs "POST", bs "hysteria", bs "/auth/"); (bs "POST", bs "hysteria", bs "/Auth");
    (bs "POST", bs "hysteria", bs "//auth"); (bs "POST", bs "hysteria", bs "/auth/../auth"); (bs "POST", bs "hysteria", bs "auth");
    (bs "POST", bs "hysteria", bs "/aut"); (bs "POST", bs "hysteria", bs "/auth?x=1"); (bs "POST", bs "hysteria", bs "/auth "); (bs "POST", bs "hysteria", bs "") ].

Lemma near_misses_rejected :
  forallb (fun t => negb (is_auth_req (mkReq (fst (fst t)) (snd (fst t)) (snd t) [] [] 0))) near_misses = true.
Proof. vm_compute. reflexivity. Qed.

Lemma the_auth_request_accepted : is_auth_req (mkReq (bs "POST") (bs "hysteria") (bs "/auth") [] [] 0) = true.
Proof. vm_compute. reflexivity. Qed.

(* ------------------------------------------------------------------ non-vacuity *)

Section Examples.
  Let cfg := mkCfg true false 0 0.
  Let nf : response := mkResp 404 [] (bs "404 page not found").
  Let masq := fun _ : request => nf.
  Let auth_req (cred : string) := mkReq (bs "POST") (bs "hysteria") (bs "/auth") (bs cred) (bs "1000") 0.
  Let pad := bs "padding".

  (* two connections: credentials rejected on 1, accepted on 2, a proxy stream on both;
     the trace contains an outbound call for 2 only, and both monitors hold on it *)
  Let acts : list action :=
    [ HttpReq 1 (auth_req "wrong") pad; AuthVerdict 1 false [] pad;
      HttpReq 2 (auth_req "right") pad; AuthVerdict 2 true (bs "user") pad;
      Stream 1 (Some 1025) (bs "a:80"); Stream 2 (Some 1025) (bs "b:80"); Datagram 1 (bs "c:53"); Datagram 2 (bs "d:53");
      TcpDial 2 (bs "b:80"); TcpRelay 2 (bs "b:80") 10; UdpRecv 2 (bs "d:53");
      HttpReq 2 (auth_req "wrong") pad; ConnClosed 2; ConnClosed 1 ].

  Example run_two_connections :
    exists s tr, run cfg masq init acts = Some (s, tr) /\
      In (EObs (ObsOutboundTCP 2 (bs "b:80"))) tr /\ In (EObs (ObsOutboundUDP 2 (bs "d:53"))) tr /\ In (EObs (ObsRelay 2 10)) tr /\
      (forall e c, In e tr -> outbound_conn e = Some c -> c = 2) /\
      authed (s 1) = false /\ authed (s 2) = true /\
      In (EObs (ObsResp 1 (auth_req "wrong") nf)) tr /\ In (EObs (ObsResp 2 (auth_req "wrong") (resp_auth_ok cfg pad))) tr /\
      c01_mon [] tr = true /\ c02_mon masq [] tr = true.
  Proof.
    eexists. eexists. split; [vm_compute; reflexivity|].
    repeat split; try (vm_compute; tauto); try reflexivity.
    intros e c Hin Hout. cbn in Hin.
    repeat (destruct Hin as [<-|Hin]; [try discriminate Hout; try (injection Hout as <-; reflexivity)|]). destruct Hin.
  Qed.

  (* the steps the theorems exclude are really excluded by the model: outbound for the unauthenticated connection *)
  Example unauth_dial_not_enabled :
    run cfg masq init [HttpReq 1 (auth_req "wrong") pad; AuthVerdict 1 false [] pad; Stream 1 (Some 1025) (bs "a:80"); TcpDial 1 (bs "a:80")] = None
    /\ run cfg masq init [Datagram 1 (bs "c:53"); UdpRecv 1 (bs "c:53")] = None
    /\ run cfg masq init [HttpReq 2 (auth_req "right") pad; AuthVerdict 2 true (bs "user") pad; Stream 1 (Some 1025) (bs "a:80"); TcpDial 1 (bs "a:80")] = None.
  Proof. repeat split; vm_compute; reflexivity. Qed.
End Examples.
