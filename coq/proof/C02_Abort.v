(* C02 - abnormal exits of the callbacks ServeHTTP calls (model/C02_Abort.v): the connection's authMutex is
   released on every exit of the auth branch, so a callback that panics at one request of a connection's
   history takes nothing away from the requests that follow: each of them is still answered, by the
   masquerade handler unless the connection has been accepted. *)
From Hy Require Import gen.ParamsC01 model.C01_ServerAuth proof.C01_ServerAuth model.C02_Abort.
Local Open Scope N_scope.
Set Warnings "-unused-intro-pattern".

(* destruct every match / if in the hypothesis that says an extended step was taken *)
Ltac xstep_cases H :=
  cbn [xstep] in H;
  repeat match type of H with
         | context [match ?x with _ => _ end] => let E := fresh "E" in destruct x eqn:E
         end;
  try discriminate H;
  match type of H with _ = Some (?s', ?o) => injection H as ? ?; subst s' o end;
  (* an action that is delegated to the base LTS *)
  try match goal with E : step _ _ _ _ = Some (_, _) |- _ => step_cases E end.

(* the actions that serve (a part of) the auth branch of ServeHTTP, and those that end a pending Authenticate call *)
Definition in_auth_branch (a : xaction) : bool :=
  match a with
  | XBase (HttpReq _ r _) => is_auth_req r
  | XBase (AuthVerdict _ _ _ _) | XAuthPanic _ | XLogPanic _ _ _ _ => true
  | _ => false
  end.

Definition ends_call (a : xaction) : bool :=
  match a with
  | XBase (AuthVerdict _ _ _ _) | XAuthPanic _ | XLogPanic _ _ _ _ => true
  | _ => false
  end.

Section XProofs.
  Variable cfg : config.
  Variable masq : request -> mres.

  Notation xstep := (xstep cfg masq).
  Notation xrun := (xrun cfg masq).
  Notation bmasq := (fun r => mres_resp (masq r)).

  (* ---------------------------------------------------------------- the extension is conservative *)

  (* when the handler returns for every request, the extended LTS is the LTS shared with C01 *)
  Lemma xstep_conservative (m : request -> response) s b :
    (forall r, masq r = MResp (m r)) ->
    xstep s (XBase b) = match step cfg m s b with Some (s', o) => Some (s', map XO o) | None => None end.
  Proof.
    intros Hm. destruct b; cbn [C02_Abort.xstep step]; unfold masq_call, set_lock;
      repeat match goal with |- context [match ?x with _ => _ end] => destruct x eqn:? end;
      try reflexivity; try congruence; rewrite ?Hm in *; cbn [map]; try reflexivity; try congruence.
  Qed.

  (* ---------------------------------------------------------------- frame and invariant *)

  Lemma xstep_frame s a s' o c' :
    xstep s a = Some (s', o) -> c' <> xact_conn a -> s' c' = s c'.
  Proof.
    intros H Hc. destruct a as [b|c|c id pad site]; [destruct b|..]; cbn [xact_conn act_conn] in Hc;
      xstep_cases H; try reflexivity; now apply upd_other.
  Qed.

  Lemma xstep_Inv s a s' o : Inv s -> xstep s a = Some (s', o) -> Inv s'.
  Proof.
    intros HI H c0.
    destruct (N.eq_dec c0 (xact_conn a)) as [->|Hne].
    2:{ rewrite (xstep_frame _ _ _ _ _ H Hne). apply HI. }
    pose proof (HI (xact_conn a)) as [HG [HJ [HK HL]]]. unfold gate_closed in HG.
    destruct a as [b|c|c id pad site]; [destruct b|..]; cbn [xact_conn act_conn] in *; xstep_cases H; try (now apply HI);
      rewrite upd_same; unfold inv_conn, gate_closed, set_lock; cbn [authed in_auth closed tcp_pend tcp_est udp_sm udp_est];
      (split; [intros Hx | split; [intros Hx | split; [intros Hx | intros r0 Hx]]]);
      try discriminate Hx; try (now apply (HL r0)); try (injection Hx as <-; assumption); try reflexivity; try (now apply HJ); try (now apply HK); try congruence;
      try (destruct (HG Hx) as [G1 [G2 [G3 G4]]]);
      try (rewrite G1 in *; discriminate); try (rewrite G3 in *; discriminate);
      try (repeat split; congruence);
      try (match goal with E : (authed _ && _) = true |- _ => apply andb_true_iff in E; destruct E; congruence end);
      try (apply HG; first [reflexivity | assumption]).
  Qed.

  Lemma xrun_Inv acts : forall s s' tr, Inv s -> xrun s acts = Some (s', tr) -> Inv s'.
  Proof.
    induction acts as [|a t IH]; intros s s' tr HI H; cbn [C02_Abort.xrun] in H.
    - now inversion H; subst.
    - destruct (xstep s a) as [[s1 o]|] eqn:Es; try discriminate.
      destruct (xrun s1 t) as [[s2 tr2]|] eqn:Er; try discriminate.
      inversion H; subst. eapply IH; [|eassumption]. eapply xstep_Inv; eassumption.
  Qed.

  (* ---------------------------------------------------------------- authMutex is released on every exit *)

  (* Whatever a step of the auth branch makes of its request - the 233 response, the masquerade handler's response,
     an abort by the handler, a panic of the authenticator or of a logger - once the request has ended the mutex
     is free; and the mutex is held after a step only if it was held before and the step does not end the pending
     Authenticate call, or the step is the very ServeHTTP that has just entered Authenticate. *)
  Lemma lock_released_on_every_exit s a s' o :
    xstep s a = Some (s', o) ->
    (in_auth_branch a = true -> existsb ends_request o = true -> in_auth (s' (xact_conn a)) = None) /\
    (forall r0, in_auth (s' (xact_conn a)) = Some r0 ->
       (in_auth (s (xact_conn a)) = Some r0 /\ ends_call a = false) \/
       (in_auth (s (xact_conn a)) = None /\ is_auth_req r0 = true /\
        exists pad, a = XBase (HttpReq (xact_conn a) r0 pad) /\
                    o = [XO (ObsAuthCall (xact_conn a) (r_auth r0) (parse_u64 (r_ccrx r0)))])).
  Proof.
    intros H. split.
    - intros Hb He.
      destruct a as [b|c|c id pad site]; [destruct b|..]; cbn [in_auth_branch] in Hb; try discriminate Hb;
        cbn [xact_conn act_conn]; xstep_cases H; try congruence;
        try (rewrite upd_same; reflexivity); try assumption;
        cbn in He; discriminate He.
    - intros r0 Hin.
      destruct a as [b|c|c id pad site]; [destruct b|..]; cbn [xact_conn act_conn] in *; xstep_cases H;
        try (rewrite upd_same in Hin; unfold set_lock in Hin; cbn [in_auth] in Hin);
        try discriminate Hin; try congruence;
        try (left; split; [assumption | reflexivity]).
      right. injection Hin as <-. repeat split; try assumption. exists pad. split; reflexivity.
  Qed.

  (* No request waits for ever: on a connection that is not closed, either the mutex is free and every request is
     taken up at once (and ended at once, unless it has to ask the authenticator), or an Authenticate call is pending
     and EVERY way it can end - accept, reject (the handler then answers or aborts), panic, logger panic - ends the
     request and frees the mutex. *)
  Lemma no_request_starves s c :
    closed (s c) = false ->
    (in_auth (s c) = None ->
       forall r pad, exists s' o, xstep s (XBase (HttpReq c r pad)) = Some (s', o) /\
         (existsb ends_request o = true \/
          (is_auth_req r = true /\ authed (s c) = false /\ in_auth (s' c) = Some r))) /\
    (forall r0, in_auth (s c) = Some r0 ->
       (forall ok id pad, exists s' o, xstep s (XBase (AuthVerdict c ok id pad)) = Some (s', o) /\
                                       in_auth (s' c) = None /\ existsb ends_request o = true) /\
       (exists s' o, xstep s (XAuthPanic c) = Some (s', o) /\ in_auth (s' c) = None /\ existsb ends_request o = true) /\
       (forall id pad site, exists s' o, xstep s (XLogPanic c id pad site) = Some (s', o) /\
                                         in_auth (s' c) = None /\ existsb ends_request o = true)).
  Proof.
    intros Hc. split.
    - intros Hin r pad. cbn [C02_Abort.xstep]. rewrite Hc, Hin.
      destruct (is_auth_req r) eqn:Er.
      + destruct (authed (s c)) eqn:Ea.
        * eexists _, _. split; [reflexivity|]. left. reflexivity.
        * eexists _, _. split; [reflexivity|]. right. repeat split. rewrite upd_same. reflexivity.
      + eexists _, _. split; [reflexivity|]. left. unfold masq_call. destruct (masq r); reflexivity.
    - intros r0 Hin. repeat split.
      + intros ok id pad. cbn [C02_Abort.xstep]. rewrite Hin. destruct ok.
        * eexists _, _. split; [reflexivity|]. rewrite upd_same. split; reflexivity.
        * eexists _, _. split; [reflexivity|]. rewrite upd_same. split; [reflexivity|].
          unfold masq_call. destruct (masq r0); reflexivity.
      + cbn [C02_Abort.xstep]. rewrite Hin. eexists _, _. split; [reflexivity|]. rewrite upd_same. split; reflexivity.
      + intros id pad site. cbn [C02_Abort.xstep]. rewrite Hin. eexists _, _. split; [reflexivity|].
        rewrite upd_same. split; [reflexivity|]. destruct site; reflexivity.
  Qed.

  (* ---------------------------------------------------------------- what a client can see *)

  (* the flag is set only by an accepting verdict (whether or not a logger panics afterwards) *)
  Lemma xstep_sets_authed s a s' o c :
    xstep s a = Some (s', o) -> authed (s c) = false -> authed (s' c) = true -> x_accepts a = Some c.
  Proof.
    intros H Hf Ht.
    destruct (N.eq_dec c (xact_conn a)) as [->|Hne].
    2:{ rewrite (xstep_frame _ _ _ _ _ H Hne) in Ht. congruence. }
    destruct a as [b|c0|c0 id pad site]; [destruct b|..]; cbn [xact_conn act_conn x_accepts] in *; xstep_cases H;
      try congruence; try reflexivity;
      rewrite upd_same in Ht; unfold set_lock in Ht; cbn [authed] in Ht; congruence.
  Qed.

  (* every complete response is the masquerade handler's own, or the 233 response to an auth request on a connection
     whose flag is set; every aborted response is the handler's own abort, or that of an auth request during which the
     authenticator or a logger panicked - and then nothing of a response was delivered *)
  Definition xobs_ok (authed_after : cid -> bool) (x : xobs) : Prop :=
    match x with
    | XO (ObsResp c r resp) =>
        masq r = MResp resp \/
        (is_auth_req r = true /\ (exists pad, resp = resp_auth_ok cfg pad) /\ authed_after c = true)
    | XAbort c r sent =>
        masq r = MAbort sent \/ (is_auth_req r = true /\ sent = None)
    | _ => True
    end.

  Lemma xstep_obs_ok s a s' o x :
    Inv s -> xstep s a = Some (s', o) -> In x o -> xobs_ok (fun c => authed (s' c)) x.
  Proof.
    intros HI H Hin. destruct (HI (xact_conn a)) as [_ [_ [_ HL]]].
    destruct a as [b|c|c id pad site]; [destruct b|..]; cbn [xact_conn act_conn] in *; xstep_cases H;
      unfold masq_call in Hin; cbn [In map app] in Hin;
      repeat match goal with
             | Hm : context [match masq ?r with _ => _ end] |- _ => destruct (masq r) eqn:?; cbn [In] in Hm
             end;
      repeat (destruct Hin as [<-|Hin]; try exact I); try contradiction; cbn [xobs_ok];
      try (left; assumption);
      try (right; split; [now apply HL | reflexivity]);
      try (right; split; [first [assumption | now apply HL] | split; [eexists; reflexivity | first [assumption | rewrite upd_same; reflexivity]]]).
  Qed.

  (* on traces: the accepting action precedes *)
  Definition accepted_in (c : cid) (pre : list xev) : Prop :=
    exists a, In (XA a) pre /\ x_accepts a = Some c.

  Lemma xrun_obs_ok acts : forall s0 s tr,
    Inv s0 -> xrun s0 acts = Some (s, tr) ->
    forall pre x post, tr = pre ++ XE x :: post ->
      xobs_ok (fun c => authed (s0 c) || (if existsb (fun e => match e with
                                                               | XA a => match x_accepts a with Some c' => c' =? c | None => false end
                                                               | _ => false end) pre then true else false)) x.
  Proof.
    induction acts as [|a t IH]; intros s0 s tr HI H pre x post Heq; cbn [C02_Abort.xrun] in H.
    - injection H as _ <-. destruct pre; discriminate.
    - destruct (xstep s0 a) as [[s1 o]|] eqn:Es; try discriminate.
      destruct (xrun s1 t) as [[s2 tr2]|] eqn:Er; try discriminate.
      injection H as _ <-.
      destruct pre as [|p pre]; cbn [app] in Heq; [discriminate|]. injection Heq as <- Heq.
      assert (Hup : forall c, authed (s1 c) = true ->
                      authed (s0 c) || match x_accepts a with Some c' => c' =? c | None => false end = true).
      { intros c Hc. destruct (authed (s0 c)) eqn:Ea; [reflexivity|]. cbn [orb].
        rewrite (xstep_sets_authed _ _ _ _ _ Es Ea Hc). apply N.eqb_refl. }
      apply app_eq_app in Heq. destruct Heq as [l [[Hl1 Hl2]|[Hl1 Hl2]]].
      + (* x is among the observables of this step, or heads the rest *)
        destruct l as [|e l].
        * cbn [app] in Hl2. rewrite app_nil_r in Hl1. subst pre.
          pose proof (IH s1 s2 tr2 (xstep_Inv _ _ _ _ HI Es) Er [] x post (eq_sym Hl2)) as Hx.
          destruct x as [[]|]; cbn [xobs_ok] in *; try exact I; try assumption.
          destruct Hx as [Hx|[Hr [Hp Ha]]]; [now left|]. right. repeat split; try assumption.
          cbn [existsb orb] in Ha. rewrite orb_false_r in Ha.
          apply Hup in Ha. cbn [existsb]. apply orb_true_iff in Ha. destruct Ha as [->|Ha]; [reflexivity|].
          rewrite Ha. cbn [orb]. apply orb_true_r.
        * cbn [app] in Hl2. injection Hl2 as <- _.
          assert (Hin : In x o).
          { assert (Hi : In (XE x) (map XE o)) by (rewrite Hl1; apply in_or_app; right; now left).
            apply in_map_iff in Hi. destruct Hi as [y [Hy Hi]]. now injection Hy as <-. }
          pose proof (xstep_obs_ok _ _ _ _ _ HI Es Hin) as Hx.
          destruct x as [[]|]; cbn [xobs_ok] in *; try exact I; try assumption.
          destruct Hx as [Hx|[Hr [Hp Ha]]]; [now left|]. right. repeat split; try assumption.
          apply Hup in Ha. cbn [existsb]. apply orb_true_iff in Ha. destruct Ha as [->|Ha]; [reflexivity|].
          rewrite Ha. cbn [orb]. apply orb_true_r.
      + (* x comes later *)
        subst pre.
        pose proof (IH s1 s2 tr2 (xstep_Inv _ _ _ _ HI Es) Er l x post Hl2) as Hx.
        destruct x as [[]|]; cbn [xobs_ok] in *; try exact I; try assumption.
        destruct Hx as [Hx|[Hr [Hp Ha]]]; [now left|]. right. repeat split; try assumption.
        cbn [existsb]. rewrite existsb_app.
        apply orb_true_iff in Ha. destruct Ha as [Ha|Ha].
        * apply Hup in Ha. apply orb_true_iff in Ha. destruct Ha as [->|Ha]; [reflexivity|].
          rewrite Ha. cbn [orb]. apply orb_true_r.
        * assert (Hm : existsb (fun e : xev => match e with XA _ => false | XE _ => false end) (map XE o) = false).
          { clear. induction o as [|y o IHo]; [reflexivity|]. cbn [map existsb orb]. exact IHo. }
          destruct (existsb _ l) eqn:El in Ha; [|discriminate].
          match goal with |- context [existsb ?f (map XE o)] =>
            replace (existsb f (map XE o)) with false
          end.
          2:{ clear. induction o as [|y o IHo]; [reflexivity|]. cbn [map existsb orb]. exact IHo. }
          cbn [orb]. rewrite El. rewrite !orb_true_r. reflexivity.
  Qed.

  Theorem aborts_do_not_unmask acts s tr :
    xrun init acts = Some (s, tr) ->
    forall pre x post, tr = pre ++ XE x :: post ->
      match x with
      | XO (ObsResp c r resp) =>
          masq r = MResp resp \/
          (is_auth_req r = true /\ (exists pad, resp = resp_auth_ok cfg pad) /\ accepted_in c pre)
      | XAbort c r sent =>
          masq r = MAbort sent \/ (is_auth_req r = true /\ sent = None)
      | _ => True
      end.
  Proof.
    intros H pre x post Heq.
    pose proof (xrun_obs_ok acts init s tr Inv_init H pre x post Heq) as Hx.
    destruct x as [[]|]; cbn [xobs_ok] in Hx; try exact I; try assumption.
    destruct Hx as [Hx|[Hr [Hp Ha]]]; [now left|]. right. repeat split; try assumption.
    cbn [init conn0 authed orb] in Ha.
    destruct (existsb _ pre) eqn:Ee in Ha; [|discriminate].
    apply existsb_exists in Ee. destruct Ee as [e [Hin He]].
    destruct e as [a|]; [|discriminate]. exists a. split; [assumption|].
    destruct (x_accepts a) as [c'|]; [|discriminate]. apply N.eqb_eq in He. now subst.
  Qed.

  (* reachable states: the two statements about the mutex, for every state of every run *)
  Theorem lock_released_reachable acts s tr :
    xrun init acts = Some (s, tr) ->
    forall a s' o, xstep s a = Some (s', o) ->
      (in_auth_branch a = true -> existsb ends_request o = true -> in_auth (s' (xact_conn a)) = None) /\
      (forall r0, in_auth (s' (xact_conn a)) = Some r0 ->
         (in_auth (s (xact_conn a)) = Some r0 /\ ends_call a = false) \/
         (in_auth (s (xact_conn a)) = None /\ is_auth_req r0 = true /\
          exists pad, a = XBase (HttpReq (xact_conn a) r0 pad) /\
                      o = [XO (ObsAuthCall (xact_conn a) (r_auth r0) (parse_u64 (r_ccrx r0)))])).
  Proof. intros _ a s' o. apply lock_released_on_every_exit. Qed.

  Theorem no_request_starves_reachable acts s tr c :
    xrun init acts = Some (s, tr) -> closed (s c) = false ->
    (in_auth (s c) = None ->
       forall r pad, exists s' o, xstep s (XBase (HttpReq c r pad)) = Some (s', o) /\
         (existsb ends_request o = true \/
          (is_auth_req r = true /\ authed (s c) = false /\ in_auth (s' c) = Some r))) /\
    (forall r0, in_auth (s c) = Some r0 ->
       (forall ok id pad, exists s' o, xstep s (XBase (AuthVerdict c ok id pad)) = Some (s', o) /\
                                       in_auth (s' c) = None /\ existsb ends_request o = true) /\
       (exists s' o, xstep s (XAuthPanic c) = Some (s', o) /\ in_auth (s' c) = None /\ existsb ends_request o = true) /\
       (forall id pad site, exists s' o, xstep s (XLogPanic c id pad site) = Some (s', o) /\
                                         in_auth (s' c) = None /\ existsb ends_request o = true)).
  Proof. intros _. apply no_request_starves. Qed.
End XProofs.

(* ------------------------------------------------------------------ the hypotheses are satisfiable: the seeded history *)
Section AbortExample.
  Let cfg := mkCfg true false 0 0.
  Let areq (a : str) (tag : N) := mkReq method_post url_host url_path a [] tag.
  Let part := mkResp 200 [] [x70].
  (* the handler aborts the response to the request tagged 1 after having flushed `part`; it answers 403 otherwise *)
  Let masq (r : request) := if r_tag r =? 1 then MAbort (Some part) else MResp (mkResp 403 [] (r_path r)).
  Let r1 := areq [x61] 1.
  Let r2 := areq [x62] 2.
  Let hist := [XBase (HttpReq 0 r1 []); XBase (AuthVerdict 0 false [] []);
               XBase (HttpReq 0 r2 []); XBase (AuthVerdict 0 false [] [])].

  (* request 1 (rejected credentials) is aborted by the handler; the retry on the same connection is taken up
     and gets exactly the handler's response; the mutex is free afterwards *)
  Example retry_after_abort_is_answered :
    match xrun cfg masq init hist with
    | Some (s, tr) =>
        tr = [XA (XBase (HttpReq 0 r1 [])); XE (XO (ObsAuthCall 0 [x61] 0));
              XA (XBase (AuthVerdict 0 false [] [])); XE (XO (ObsMasq 0 r1)); XE (XAbort 0 r1 (Some part));
              XA (XBase (HttpReq 0 r2 [])); XE (XO (ObsAuthCall 0 [x62] 0));
              XA (XBase (AuthVerdict 0 false [] [])); XE (XO (ObsMasq 0 r2)); XE (XO (ObsResp 0 r2 (mkResp 403 [] url_path)))] /\
        in_auth (s 0) = None /\ authed (s 0) = false
    | None => False
    end.
  Proof. vm_compute. repeat split; reflexivity. Qed.

  (* the same when the authenticator panics at request 1 *)
  Example retry_after_authenticator_panic_is_answered :
    match xrun cfg masq init [XBase (HttpReq 0 r1 []); XAuthPanic 0; XBase (HttpReq 0 r2 []); XBase (AuthVerdict 0 false [] [])] with
    | Some (s, tr) => In (XE (XAbort 0 r1 None)) tr /\ In (XE (XO (ObsResp 0 r2 (mkResp 403 [] url_path)))) tr /\ in_auth (s 0) = None
    | None => False
    end.
  Proof. vm_compute. repeat split; auto 20. Qed.
End AbortExample.
