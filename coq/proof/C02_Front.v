(* C02 - the HTTP/3 front of a connection (model/C02_Front.v): a request whose header block is within the limit the
   library applies reaches ServeHTTP unchanged, whatever its size and whatever the state of the connection; only a
   header block above the limit - 1 MiB for the http3.Server that handleClient builds - is answered by the library. *)
From Hy Require Import gen.ParamsC01 model.C01_ServerAuth proof.C01_ServerAuth model.C02_Front.
From Coq Require Import Lia.
Local Open Scope N_scope.
Set Warnings "-unused-intro-pattern".

Lemma front_limit_value : front_limit = 1048576.
Proof. reflexivity. Qed.

Lemma too_large_false lim w : too_large lim w = false <-> w_frame w <= lim /\ w_fields w <= lim.
Proof.
  unfold too_large. rewrite orb_false_iff, !N.ltb_ge. reflexivity.
Qed.

Section FrontProofs.
  Variable lim : N.
  Variable cfg : config.
  Variable masq : request -> response.

  Notation step := (step cfg masq).
  Notation run := (run cfg masq).
  Notation fstep := (fstep lim cfg masq).
  Notation frun := (frun lim cfg masq).
  Notation lower1 := (lower1 lim).
  Notation lower := (lower lim).
  Notation base_ev := (base_ev lim).
  Notation base_tr := (base_tr lim).

  Lemma base_tr_app a b : base_tr (a ++ b) = base_tr a ++ base_tr b.
  Proof. unfold C02_Front.base_tr. apply flat_map_app. Qed.

  Lemma base_tr_obs o : base_tr (map FE (map FO o)) = map EObs o.
  Proof. induction o as [|x o IH]; [reflexivity|]. cbn. unfold C02_Front.base_tr in IH. now rewrite IH. Qed.

  (* ---------------------------------------------------------------- per step *)

  (* a request within the limit: exactly ServeHTTP's step for the request, the sizes play no part *)
  Lemma fstep_within s c w pad :
    closed (s c) = false -> too_large lim w = false ->
    fstep s (FReq c w pad) = match step s (HttpReq c (w_req w) pad) with
                             | Some (s', o) => Some (s', map FO o)
                             | None => None
                             end.
  Proof. intros Hc Hl. cbn [C02_Front.fstep]. now rewrite Hc, Hl. Qed.

  (* a request above the limit: the library's 431 and nothing else - no authenticator, no handler, no change *)
  Lemma fstep_above s c w pad :
    closed (s c) = false -> too_large lim w = true -> fstep s (FReq c w pad) = Some (s, [F431 c w]).
  Proof. intros Hc Hl. cbn [C02_Front.fstep]. now rewrite Hc, Hl. Qed.

  (* the masquerade clause in EVERY state of the connection - authenticated or not, with or without an auth request
     inside Authenticate: a request that is not an auth request and whose header block is within the limit is handed
     to the masquerade handler and answered with exactly the handler's response; nothing in the server changes *)
  Lemma front_masq_every_state s c w pad :
    closed (s c) = false -> is_auth_req (w_req w) = false -> too_large lim w = false ->
    fstep s (FReq c w pad) = Some (s, [FO (ObsMasq c (w_req w)); FO (ObsResp c (w_req w) (masq (w_req w)))]).
  Proof.
    intros Hc Hr Hl. rewrite (fstep_within _ _ _ _ Hc Hl). cbn [C01_ServerAuth.step]. now rewrite Hc, Hr.
  Qed.

  (* the size of the header block is irrelevant below the limit *)
  Lemma front_size_irrelevant s c w1 w2 pad :
    too_large lim w1 = false -> too_large lim w2 = false -> w_req w1 = w_req w2 ->
    fstep s (FReq c w1 pad) = fstep s (FReq c w2 pad).
  Proof. intros H1 H2 He. cbn [C02_Front.fstep]. now rewrite H1, H2, He. Qed.

  (* ---------------------------------------------------------------- simulation: a front run is a base run *)

  Lemma fstep_lower s a s' o :
    fstep s a = Some (s', o) -> run s (lower1 a) = Some (s', base_tr (FA a :: map FE o)).
  Proof.
    intros H. destruct a as [c w pad|b].
    - cbn [C02_Front.fstep] in H. destruct (closed (s c)); [discriminate|].
      unfold C02_Front.base_tr. cbn [flat_map C02_Front.base_ev C02_Front.lower1].
      destruct (too_large lim w) eqn:El.
      + injection H as <- <-. reflexivity.
      + destruct (step s (HttpReq c (w_req w) pad)) as [[s1 o1]|] eqn:Es; [|discriminate].
        injection H as <- <-. cbn [C01_ServerAuth.run map app]. rewrite Es.
        pose proof (base_tr_obs o1) as Hb. unfold C02_Front.base_tr in Hb. rewrite Hb. now rewrite app_nil_r.
    - assert (Hs : match step s b with Some (s1, o1) => Some (s1, map FO o1) | None => None end = Some (s', o)).
      { destruct b; try exact H. discriminate H. }
      destruct (step s b) as [[s1 o1]|] eqn:Es; [|discriminate].
      injection Hs as <- <-. unfold C02_Front.base_tr. cbn [flat_map C02_Front.base_ev C02_Front.lower1 map app C01_ServerAuth.run].
      rewrite Es. pose proof (base_tr_obs o1) as Hb. unfold C02_Front.base_tr in Hb. rewrite Hb. now rewrite app_nil_r.
  Qed.

  Lemma run_app_intro acts1 : forall acts2 s s1 s2 tr1 tr2,
    run s acts1 = Some (s1, tr1) -> run s1 acts2 = Some (s2, tr2) -> run s (acts1 ++ acts2) = Some (s2, tr1 ++ tr2).
  Proof.
    induction acts1 as [|a t IH]; intros acts2 s s1 s2 tr1 tr2 H1 H2; cbn [app C01_ServerAuth.run] in *.
    - injection H1 as <- <-. exact H2.
    - destruct (step s a) as [[sa o]|] eqn:Es; [|discriminate].
      destruct (run sa t) as [[sb trb]|] eqn:Er; [|discriminate].
      injection H1 as <- <-. rewrite (IH _ _ _ _ _ _ Er H2). cbn [app]. now rewrite app_assoc.
  Qed.

  Lemma frun_lower acts : forall s s' ftr,
    frun s acts = Some (s', ftr) -> run s (lower acts) = Some (s', base_tr ftr).
  Proof.
    induction acts as [|a t IH]; intros s s' ftr H; cbn [C02_Front.frun] in H.
    - injection H as <- <-. reflexivity.
    - destruct (fstep s a) as [[s1 o]|] eqn:Es; [|discriminate].
      destruct (frun s1 t) as [[s2 tr2]|] eqn:Er; [|discriminate].
      injection H as <- <-.
      change (FA a :: map FE o ++ tr2) with ((FA a :: map FE o) ++ tr2). rewrite base_tr_app.
      unfold C02_Front.lower. cbn [flat_map]. eapply run_app_intro.
      + apply fstep_lower. exact Es.
      + apply IH. exact Er.
  Qed.

  Lemma fstep_431_only s a s' o c w :
    fstep s a = Some (s', o) -> In (F431 c w) o -> too_large lim w = true /\ s' = s /\ exists pad, a = FReq c w pad.
  Proof.
    intros H Hin. destruct a as [c0 w0 pad|b].
    - cbn [C02_Front.fstep] in H. destruct (closed (s c0)); [discriminate|].
      destruct (too_large lim w0) eqn:El.
      + injection H as <- <-. destruct Hin as [Hin|[]]. injection Hin as <- <-. repeat split; [assumption | now exists pad].
      + destruct (step s (HttpReq c0 (w_req w0) pad)) as [[s1 o1]|]; [|discriminate].
        injection H as <- <-. apply in_map_iff in Hin. destruct Hin as [x [Hx _]]. discriminate.
    - assert (Hs : match step s b with Some (s1, o1) => Some (s1, map FO o1) | None => None end = Some (s', o)).
      { destruct b; try exact H. discriminate H. }
      destruct (step s b) as [[s1 o1]|]; [|discriminate].
      injection Hs as <- <-. apply in_map_iff in Hin. destruct Hin as [x [Hx _]]. discriminate.
  Qed.

  Lemma frun_431_only acts : forall s s' ftr c w,
    frun s acts = Some (s', ftr) -> In (FE (F431 c w)) ftr -> too_large lim w = true.
  Proof.
    induction acts as [|a t IH]; intros s s' ftr c w H Hin; cbn [C02_Front.frun] in H.
    - injection H as <- <-. destruct Hin.
    - destruct (fstep s a) as [[s1 o]|] eqn:Es; [|discriminate].
      destruct (frun s1 t) as [[s2 tr2]|] eqn:Er; [|discriminate].
      injection H as <- <-. destruct Hin as [Hin|Hin]; [discriminate|].
      apply in_app_or in Hin. destruct Hin as [Hin|Hin].
      + apply in_map_iff in Hin. destruct Hin as [x [Hx Hin]]. injection Hx as ->.
        exact (proj1 (fstep_431_only _ _ _ _ _ _ Es Hin)).
      + eapply IH; eassumption.
  Qed.

  Lemma accept_in_base_tr pre c id pad :
    In (EAct (AuthVerdict c true id pad)) (base_tr pre) -> In (FA (FAct (AuthVerdict c true id pad))) pre.
  Proof.
    unfold C02_Front.base_tr. intros H. apply in_flat_map in H. destruct H as [e [He Hin]].
    destruct e as [a|o].
    - destruct a as [c0 w0 pad0|b]; cbn [C02_Front.base_ev C02_Front.lower1 map] in Hin.
      + destruct (too_large lim w0); cbn in Hin; [destruct Hin|]. destruct Hin as [Hin|[]]. discriminate.
      + destruct Hin as [Hin|[]]. injection Hin as ->. exact He.
    - destruct o as [x|c0 w0]; cbn in Hin; [|destruct Hin]. destruct Hin as [Hin|[]]. discriminate.
  Qed.

  (* In every run through the front: a response that reaches the client is the masquerade handler's own response to
     that request, or the 233 response to an auth request preceded by an accepting verdict on that connection, or the
     library's 431 - and that only for a header block above the limit. *)
  Theorem front_unmasks_nothing acts s ftr :
    frun init acts = Some (s, ftr) ->
    forall pre x post, ftr = pre ++ FE x :: post ->
      match x with
      | FO (ObsResp c r resp) =>
          resp = masq r \/
          (is_auth_req r = true /\ (exists pad, resp = resp_auth_ok cfg pad) /\
           exists id pad, In (FA (FAct (AuthVerdict c true id pad))) pre)
      | F431 c w => lim < w_frame w \/ lim < w_fields w
      | _ => True
      end.
  Proof.
    intros H pre x post Heq. destruct x as [o|c w].
    - destruct o; try exact I.
      pose proof (frun_lower _ _ _ _ H) as Hr.
      rewrite Heq, base_tr_app in Hr. cbn [C02_Front.base_tr flat_map C02_Front.base_ev app] in Hr.
      fold (base_tr post) in Hr.
      destruct (no_hysteria_marker_unless_accepted cfg masq _ _ _ Hr) as [_ Hm].
      destruct (resp_eqb resp (masq r)) eqn:Ee.
      + left. now apply resp_eqb_eq in Ee.
      + right. assert (Hne : resp <> masq r).
        { intros ->. assert (X : resp_eqb (masq r) (masq r) = true) by now apply resp_eqb_eq. congruence. }
        destruct (Hm _ _ _ _ _ eq_refl Hne) as [Ha [Hp [id [pad Hin]]]].
        repeat split; try assumption. exists id, pad. now apply accept_in_base_tr.
    - assert (Hin : In (FE (F431 c w)) ftr) by (rewrite Heq; apply in_or_app; right; now left).
      pose proof (frun_431_only _ _ _ _ _ _ H Hin) as Hl. unfold too_large in Hl.
      apply orb_true_iff in Hl. destruct Hl as [Hl|Hl]; apply N.ltb_lt in Hl; [now left | now right].
  Qed.
End FrontProofs.

(* ------------------------------------------------------------------ the statements of props/C02.v, for the code's limit *)

Lemma masq_in_every_connection_state :
  (forall cfg masq s c w pad,
     closed (s c) = false -> is_auth_req (w_req w) = false -> w_frame w <= 1048576 -> w_fields w <= 1048576 ->
     fstep front_limit cfg masq s (FReq c w pad) =
     Some (s, [FO (ObsMasq c (w_req w)); FO (ObsResp c (w_req w) (masq (w_req w)))])) /\
  (forall cfg masq s c w1 w2 pad,
     too_large front_limit w1 = false -> too_large front_limit w2 = false -> w_req w1 = w_req w2 ->
     fstep front_limit cfg masq s (FReq c w1 pad) = fstep front_limit cfg masq s (FReq c w2 pad)).
Proof.
  split.
  - intros cfg masq s c w pad Hc Hr H1 H2. apply front_masq_every_state; try assumption.
    apply too_large_false. rewrite front_limit_value. split; assumption.
  - exact (front_size_irrelevant front_limit).
Qed.

Lemma front_limit_is_the_library_default : forall cfg masq s c w pad,
  closed (s c) = false ->
  front_limit = 1048576 /\
  (too_large front_limit w = false <-> w_frame w <= 1048576 /\ w_fields w <= 1048576) /\
  (too_large front_limit w = false ->
     fstep front_limit cfg masq s (FReq c w pad) =
     match step cfg masq s (HttpReq c (w_req w) pad) with Some (s', o) => Some (s', map FO o) | None => None end) /\
  (too_large front_limit w = true -> fstep front_limit cfg masq s (FReq c w pad) = Some (s, [F431 c w])).
Proof.
  intros cfg masq s c w pad Hc. split; [reflexivity|]. split; [|split].
  - rewrite <- front_limit_value. apply too_large_false.
  - intros Hl. now apply fstep_within.
  - intros Hl. now apply fstep_above.
Qed.

(* ------------------------------------------------------------------ the hypotheses are satisfiable *)
Section FrontExample.
  Let cfg := mkCfg true false 0 0.
  Let masq (r : request) := mkResp 404 [(r_method r, r_host r)] (r_path r).
  Let good : str := [x67;x6f;x6f;x64].
  Let get : str := [x47;x45;x54].
  Let auth_req := mkReq method_post url_host url_path good [] 0.
  (* GET hysteria /auth with credentials that were accepted a moment ago, and a 600 KB header block *)
  Let near := mkReq get url_host url_path good [] 1.
  Let hist := [FReq 0 (mkWire auth_req 300 700) []; FAct (AuthVerdict 0 true good []);
               FReq 0 (mkWire near 450000 600000) []; FReq 0 (mkWire auth_req 300 700) []].

  (* on the authenticated connection the near miss gets the handler's response; the repeat of the auth request gets 233 *)
  Example near_miss_after_accept_is_masq :
    match frun front_limit cfg masq init hist with
    | Some (s, tr) =>
        authed (s 0) = true /\
        In (FE (FO (ObsResp 0 near (masq near)))) tr /\
        In (FE (FO (ObsResp 0 auth_req (resp_auth_ok cfg [])))) tr /\
        ~ In (FE (FO (ObsResp 0 near (resp_auth_ok cfg [])))) tr
    | None => False
    end.
  Proof.
    vm_compute. repeat split; auto 20.
    intros H. repeat (destruct H as [H|H]; [discriminate H|]). destruct H.
  Qed.

  (* a header block above 1 MiB is the library's business *)
  Example above_the_limit_is_431 :
    fstep front_limit cfg masq init (FReq 0 (mkWire near 1048000 1048577) []) =
    Some (init, [F431 0 (mkWire near 1048000 1048577)]).
  Proof. reflexivity. Qed.
End FrontExample.
