(* C02 (and C01) - the window in which an auth request is inside Authenticator.Authenticate and the
   authenticator has not answered yet.  Nothing has been accepted on the connection at that point, so the
   connection must look like the masquerade web server to everything that arrives meanwhile. *)
From Hy Require Import gen.ParamsC01 model.C01_ServerAuth proof.C01_ServerAuth.
Local Open Scope N_scope.
Set Warnings "-unused-intro-pattern".

Definition resp_is_masq (masq : request -> response) (x : obs) : Prop :=
  match x with ObsResp _ r resp => resp = masq r | _ => True end.

Definition is_accepting_verdict (a : action) : bool :=
  match a with AuthVerdict _ true _ _ => true | _ => false end.

Section Window.
  Variable cfg : config.
  Variable masq : request -> response.

  Notation step := (step cfg masq).
  Notation run := (run cfg masq).

  Lemma undecided_state s c r0 :
    Inv s -> in_auth (s c) = Some r0 ->
    authed (s c) = false /\ closed (s c) = false /\ gate_closed (s c) /\ is_auth_req r0 = true.
  Proof.
    intros HI Hin. destruct (HI c) as [HG [HJ [HK HL]]].
    assert (Ha : authed (s c) = false).
    { destruct (authed (s c)) eqn:Ea; [|reflexivity]. pose proof (HJ eq_refl) as X. congruence. }
    assert (Hc : closed (s c) = false).
    { destruct (closed (s c)) eqn:Ec; [|reflexivity]. pose proof (HK eq_refl) as X. congruence. }
    repeat split; try assumption; try (now apply HG); now apply (HL r0).
  Qed.

  (* a further auth request on the connection is not handled before the verdict: authMutex *)
  Lemma undecided_auth_req_blocked s c r0 r pad :
    Inv s -> in_auth (s c) = Some r0 -> is_auth_req r = true -> step s (HttpReq c r pad) = None.
  Proof.
    intros HI Hin Hr. destruct (undecided_state s c r0 HI Hin) as [_ [Hc _]].
    cbn [C01_ServerAuth.step]. rewrite Hc, Hr, Hin. reflexivity.
  Qed.

  (* whatever else happens on the connection before the verdict: the connection stays unauthenticated, the call
     stays pending (only a verdict ends it), and every response it produces is the masquerade handler's *)
  Lemma undecided_step s c r0 a s' o :
    Inv s -> in_auth (s c) = Some r0 -> act_conn a = c -> is_accepting_verdict a = false ->
    step s a = Some (s', o) ->
    authed (s' c) = false /\ gate_closed (s' c) /\ Forall (resp_is_masq masq) o /\
    (forall x, In x o -> outbound_conn (EObs x) = None) /\
    (in_auth (s' c) = Some r0 \/ exists id pad, a = AuthVerdict c false id pad).
  Proof.
    intros HI Hin Hc Hv H.
    destruct (undecided_state s c r0 HI Hin) as [Ha [Hcl [[G1 [G2 [G3 G4]]] Hr0]]].
    unfold gate_closed.
    destruct a; cbn [act_conn] in Hc; subst c0; cbn [is_accepting_verdict] in Hv; step_cases H;
      try congruence;
      try (rewrite upd_same; cbn [authed in_auth tcp_pend tcp_est udp_sm udp_est]);
      try (rewrite G1 in *; discriminate); try (rewrite G2 in *; discriminate); try (rewrite G4 in *; discriminate);
      try (rewrite G3 in *; discriminate);
      try (match goal with E : (authed _ && _) = true |- _ => rewrite Ha in E; discriminate end);
      try (match goal with E : (udp_sm _ && _) = true |- _ => rewrite G3 in E; discriminate end);
      (split; [assumption || reflexivity |
       split; [repeat split; assumption |
       split; [repeat constructor |
       split; [intros x Hx; cbn in Hx; repeat (destruct Hx as [<-|Hx]; [reflexivity|]); contradiction |
               first [left; assumption | left; reflexivity | right; eauto]]]]]).
  Qed.

  Theorem undecided_auth_reveals_nothing acts s tr c r0 :
    run init acts = Some (s, tr) -> in_auth (s c) = Some r0 ->
    (authed (s c) = false /\ gate_closed (s c)) /\
    (forall r pad, is_auth_req r = true -> step s (HttpReq c r pad) = None) /\
    (forall a s' o, act_conn a = c -> is_accepting_verdict a = false -> step s a = Some (s', o) ->
        authed (s' c) = false /\ gate_closed (s' c) /\ Forall (resp_is_masq masq) o /\
        (forall x, In x o -> outbound_conn (EObs x) = None) /\
        (in_auth (s' c) = Some r0 \/ exists id pad, a = AuthVerdict c false id pad)).
  Proof.
    intros H Hin. assert (HI : Inv s) by (eapply run_Inv; [apply Inv_init | eassumption]).
    destruct (undecided_state s c r0 HI Hin) as [Ha [_ [HG _]]].
    split; [split; assumption|]. split.
    - intros r pad Hr. eapply undecided_auth_req_blocked; eassumption.
    - intros a s' o Hc Hv Hs. eapply undecided_step; eassumption.
  Qed.
End Window.

(* the hypotheses are satisfiable: after an auth request has entered Authenticate, a second auth request is
   blocked, a 0x401 stream creates nothing, and another request is answered by the masquerade handler *)
Section WindowExample.
  Let cfg := mkCfg true false 0 0.
  Let masq (r : request) := mkResp 404 [] (r_path r).
  Let areq (a : str) := mkReq method_post url_host url_path a [] 0.
  Let s1 := match run cfg masq init [HttpReq 0 (areq [x61]) []] with Some (s, _) => s | None => init end.

  Example window_reachable : in_auth (s1 0) = Some (areq [x61]).
  Proof. vm_compute. reflexivity. Qed.

  Example window_second_auth_blocked : step cfg masq s1 (HttpReq 0 (areq [x62]) []) = None.
  Proof. vm_compute. reflexivity. Qed.

  Example window_stream_ignored :
    match step cfg masq s1 (Stream 0 (Some frame_type_tcp_request) [x74]) with
    | Some (s', o) => o = [] /\ tcp_pend (s' 0) = []
    | None => False
    end.
  Proof. vm_compute. split; reflexivity. Qed.
End WindowExample.
