(* C03 - allocation bounds: every make() whose size a peer chooses, in the modelled decoders, stays under its cap
   for EVERY input.  The per-decoder facts, each proved over the decoder's own model:
     TCP frames (C04 model): bytes allocated for peer-declared lengths, on any reader script, counted by c_alloc;
     Defragger (C05 model):  slots and the size of the reassembled message;
     QUIC Initial parsing (C17 model): connection ids, token, CRYPTO frame data, the assembled CRYPTO stream;
     Gecko receiver: proof/C03_Gecko.v (slots, chunk copies, the reassembled packet);
     hole-punch packets (C20 model): the length window in front of the copy;
     speed test: proof/C03_Speedtest.v.
   Buffers of constant size (udpBufferSize, MaxUDPSize, the 1500-byte STUN buffer, the 64 KiB speed-test chunk) are not
   peer-sized and do not appear. *)
From Hy Require Import lib.Reader model.C04_Framing proof.C04_Framing.
From Hy Require model.C05_Frag proof.C05_Frag model.C17_Sniff proof.C17_Quic model.C20_Punch proof.C20_Punch.
From Coq Require Import ZArith Lia ZifyBool ZifyNat ZifyN Permutation.
Local Open Scope N_scope.

(* ================= TCP request / response readers: any script ================= *)
Definition alloc_of (st : rstate) : N := c_alloc (rs_ctr st).

Lemma io_read_varint_alloc st : alloc_of (snd (io_read_varint st)) = alloc_of st.
Proof. destruct (io_read_varint_quiet st) as [A _]. exact A. Qed.
Lemma io_read_full_alloc n st : alloc_of (snd (io_read_full n st)) = alloc_of st.
Proof. destruct (io_read_full_quiet n st) as [A _]. exact A. Qed.
Lemma io_copyn_alloc n st : alloc_of (snd (io_copyn_discard n st)) = alloc_of st.
Proof. destruct (io_copyn_quiet n st) as [A _]. exact A. Qed.
Lemma io_make_alloc site n st : alloc_of (snd (io_make site n st)) <= alloc_of st + n.
Proof. unfold io_make, alloc_of. destruct (n <=? go_make_limit); cbn; lia. Qed.

Lemma read_padding_alloc {A} (a : A) st : alloc_of (snd (read_padding a st)) = alloc_of st.
Proof.
  unfold read_padding, io_bind.
  pose proof (io_read_varint_alloc st) as H1.
  destruct (io_read_varint st) as [[pl|e|p] st1]; cbn [snd] in *; try exact H1.
  destruct (MaxPaddingLength <? pl); [exact H1|].
  destruct (0 <? pl).
  - pose proof (io_copyn_alloc (N.to_nat pl) st1) as H2.
    destruct (io_copyn_discard (N.to_nat pl) st1) as [[u|e|p] st2]; cbn [snd] in *; unfold io_ret; cbn [snd]; congruence.
  - unfold io_ret. cbn [snd]. exact H1.
Qed.

Lemma request_alloc_bounded st : alloc_of (snd (read_tcp_request st)) <= alloc_of st + MaxAddressLength.
Proof.
  rewrite read_tcp_request_alt. unfold io_bind.
  pose proof (io_read_varint_alloc st) as H1.
  destruct (io_read_varint st) as [[al|e|p] st1]; cbn [snd] in *; try lia.
  destruct ((al =? 0) || (MaxAddressLength <? al)) eqn:E; [unfold io_fail; cbn [snd]; lia|].
  apply orb_false_iff in E as [_ E]. apply N.ltb_ge in E.
  pose proof (io_make_alloc 1 al st1) as H2.
  destruct (io_make 1 al st1) as [[u|e|p] st2]; cbn [snd] in *; try lia.
  pose proof (io_read_full_alloc (N.to_nat al) st2) as H3.
  destruct (io_read_full (N.to_nat al) st2) as [[ab|e|p] st3]; cbn [snd] in *; try lia.
  rewrite read_padding_alloc. lia.
Qed.

Lemma response_alloc_bounded st : alloc_of (snd (read_tcp_response st)) <= alloc_of st + MaxMessageLength.
Proof.
  rewrite read_tcp_response_alt. unfold io_bind.
  pose proof (io_read_full_alloc 1 st) as H0.
  destruct (io_read_full 1 st) as [[sb|e|p] st0]; cbn [snd] in *; try lia.
  pose proof (io_read_varint_alloc st0) as H1.
  destruct (io_read_varint st0) as [[ml|e|p] st1]; cbn [snd] in *; try lia.
  destruct (MaxMessageLength <? ml) eqn:E; [unfold io_fail; cbn [snd]; lia|].
  apply N.ltb_ge in E.
  destruct (0 <? ml).
  - pose proof (io_make_alloc 2 ml st1) as H2.
    destruct (io_make 2 ml st1) as [[u|e|p] st2]; cbn [snd] in *; try lia.
    pose proof (io_read_full_alloc (N.to_nat ml) st2) as H3.
    destruct (io_read_full (N.to_nat ml) st2) as [[mb|e|p] st3]; cbn [snd] in *; try lia.
    rewrite read_padding_alloc. lia.
  - unfold io_ret. rewrite read_padding_alloc. lia.
Qed.

Lemma server_request_alloc_bounded st : alloc_of (snd (server_read_request st)) <= alloc_of st + MaxAddressLength.
Proof.
  unfold server_read_request, io_bind.
  pose proof (io_read_varint_alloc st) as H1.
  destruct (io_read_varint st) as [[ft|e|p] st1]; cbn [snd] in *; try lia.
  pose proof (request_alloc_bounded st1). lia.
Qed.

(* ================= Defragger (frag.go:63 make([]*UDPMessage, FragCount), frag.go:73 make([]byte, d.size)) ======= *)
Section Defrag.
  Import model.C05_Frag proof.C05_Frag.
  Lemma feed_alloc_bounded d m d' o : fcount m < 256 -> feed d m = Ok (d', o) ->
    (length (d_frags d') <= Nat.max (length (d_frags d)) 255)%nat /\
    (d_size d' <= d_size d + length (data m))%nat /\
    (1 < fcount m -> forall out, o = Some out -> length (data out) = d_size d').
  Proof.
    intros Hc. unfold feed.
    destruct (fcount m <=? 1) eqn:E1.
    { apply N.leb_le in E1. intros H. injection H as <- <-. repeat split; try lia. }
    destruct (fcount m <=? fid m); [intros H; injection H as <- <-; repeat split; try lia; discriminate|].
    destruct (negb (pid m =? d_pid d) || negb (fcount m =? N.of_nat (length (d_frags d)) mod 256)).
    - destruct (Nat.ltb (N.to_nat (fid m)) (length (repeat None (N.to_nat (fcount m))))); [|discriminate].
      intros H. injection H as <- <-. cbn [d_frags d_size]. rewrite upd_length, repeat_length.
      repeat split; try lia. discriminate.
    - destruct (nth_error (d_frags d) (N.to_nat (fid m))) as [[x|]|]; [| |discriminate].
      + intros H. injection H as <- <-. repeat split; try lia. discriminate.
      + destruct ((d_count d + 1) mod 256 =? N.of_nat (length (upd (N.to_nat (fid m)) (Some m) (d_frags d)))).
        * destruct (forallb _ _); [|discriminate].
          intros H. injection H as <- <-. cbn [d_frags d_size]. rewrite upd_length. repeat split; try lia.
          intros _ out Ho. injection Ho as <-. cbn [data].
          rewrite app_length, repeat_length, firstn_length. lia.
        * intros H. injection H as <- <-. cbn [d_frags d_size]. rewrite upd_length. repeat split; try lia. discriminate.
  Qed.
End Defrag.

(* ================= QUIC Initial parsing (extras/sniff/internal/quic) ================= *)
Section Quic.
  Import Hy.model.C17_Sniff Hy.proof.C17_Quic.

  Lemma rd_byte_shorter r b r' : rd_byte r = Ok (b, r') -> (length r' <= length r)%nat.
  Proof. destruct r; [discriminate|]. intros H. injection H as _ <-. cbn. lia. Qed.
  Lemma rd_u32_shorter r v r' : rd_u32 r = Ok (v, r') -> (length r' <= length r)%nat.
  Proof.
    unfold rd_u32. destruct (Nat.ltb (length r) 4); [discriminate|]. intros H.
    assert (E : r' = skipn 4 r) by congruence. subst r'. rewrite skipn_length. lia.
  Qed.
  Lemma rd_cid_len n r c r' : rd_cid n r = Ok (c, r') -> length c = n /\ (length r' <= length r)%nat.
  Proof.
    unfold rd_cid. destruct n as [|n].
    - intros H. assert (c = [] /\ r' = r) as [-> ->] by (split; congruence). auto.
    - destruct r as [|x t].
      + intros H. assert (c = repeat x00 (S n) /\ r' = []) as [-> ->] by (split; congruence).
        rewrite repeat_length. auto.
      + destruct (Nat.ltb (length (x :: t)) (S n)) eqn:E; [discriminate|]. apply Nat.ltb_ge in E.
        intros H. assert (c = firstn (S n) (x :: t) /\ r' = skipn (S n) (x :: t)) as [-> ->] by (split; congruence).
        rewrite firstn_length, skipn_length. lia.
  Qed.
  Lemma rd_varint_shorter r v r' : rd_varint r = Ok (v, r') -> (length r' <= length r)%nat.
  Proof.
    unfold rd_varint. destruct (varint_read r) as [[v0 r0]|] eqn:E; [|discriminate].
    intros H. injection H as _ <-. apply varint_read_shorter in E. lia.
  Qed.

  (* header.go:52/60/77: make(destConnIDLen), make(srcConnIDLen) - one byte each - and make(tokenLen): never more than
     the datagram still holds *)
  Lemma parse_long_header_alloc r hd rest : parse_long_header r = Ok (hd, rest) ->
    (length (h_dcid hd) <= 255)%nat /\ (length (h_scid hd) <= 255)%nat /\ (length (h_token hd) <= length r)%nat.
  Proof.
    unfold parse_long_header.
    destruct (rd_byte r) as [[tb r1]|e|p] eqn:E1; cbn [bind]; try discriminate.
    destruct (rd_u32 r1) as [[ver r2]|e|p] eqn:E2; cbn [bind]; try discriminate.
    destruct (negb (ver =? 0) && (N.land (b2n tb) 64 =? 0)); [discriminate|].
    destruct (rd_byte r2) as [[dlen r3]|e|p] eqn:E3; cbn [bind]; try discriminate.
    destruct (rd_cid (N.to_nat (b2n dlen)) r3) as [[dcid r4]|e|p] eqn:E4; cbn [bind]; try discriminate.
    destruct (rd_byte r4) as [[slen r5]|e|p] eqn:E5; cbn [bind]; try discriminate.
    destruct (rd_cid (N.to_nat (b2n slen)) r5) as [[scid r6]|e|p] eqn:E6; cbn [bind]; try discriminate.
    apply rd_byte_shorter in E1. apply rd_u32_shorter in E2. apply rd_byte_shorter in E3. apply rd_byte_shorter in E5.
    apply rd_cid_len in E4 as [L4 S4]. apply rd_cid_len in E6 as [L6 S6].
    pose proof (b2n_lt dlen) as Bd. pose proof (b2n_lt slen) as Bs.
    set (ipt := if ver =? quic_v2 then 1 else 0).
    destruct (N.land (N.shiftr (b2n tb) 4) 3 =? ipt).
    - destruct (rd_varint r6) as [[tl r7]|e|p] eqn:E7; cbn [bind]; try discriminate.
      apply rd_varint_shorter in E7.
      destruct (N.of_nat (length r7) <? tl); [discriminate|].
      destruct (Nat.ltb (length r7) (N.to_nat tl)); [discriminate|]. cbn [bind].
      destruct (rd_varint (skipn (N.to_nat tl) r7)) as [[pl r8]|e|p]; cbn [bind]; try discriminate.
      intros H. injection H as <- _. cbn [h_dcid h_scid h_token]. rewrite firstn_length. repeat split; lia.
    - cbn [bind]. destruct (rd_varint r6) as [[pl r8]|e|p]; cbn [bind]; try discriminate.
      intros H. injection H as <- _. cbn [h_dcid h_scid h_token length]. repeat split; lia.
  Qed.

  (* payload.go:107 make(dataLen): at most maxCryptoFrameDataLen, and never more than the packet still holds *)
  Definition frames_small (l : list (Z * list byte)) : Prop :=
    Forall (fun f => N.of_nat (length (snd f)) <= maxCryptoFrameDataLen) l.

  Lemma extract_frames_alloc : forall fuel r acc, frames_small acc ->
    forall frs, extract_frames fuel r acc = Ok frs -> frames_small frs.
  Proof.
    induction fuel as [|f IH]; intros r acc Ha frs.
    - destruct r; cbn; [intros H; injection H as <-; exact Ha|discriminate].
    - destruct r as [|b0 t] eqn:Hr; [cbn; intros H; injection H as <-; exact Ha|]. rewrite <- Hr in *.
      replace (extract_frames (S f) r acc) with
        (ty <- rd_varint r ;; let '(typ, r) := ty in
            if (typ =? 0) || (typ =? 1) then extract_frames f r acc
            else if negb (typ =? 6) then Err EInvalid
            else
              ofs <- rd_varint r ;; let '(offset, r) := ofs in
              if 9223372036854775807 <? offset then Err EInvalid else
              dl <- rd_varint r ;; let '(dataLen, r) := dl in
              if maxCryptoFrameDataLen <? dataLen then Err ELimit
              else if N.of_nat (length r) <? dataLen then Err EShort
              else if Nat.ltb (length r) (N.to_nat dataLen) then Panic 40
              else extract_frames f (skipn (N.to_nat dataLen) r)
                                  (acc ++ [(Z.of_N offset, firstn (N.to_nat dataLen) r)]))
        by (rewrite Hr; reflexivity).
      unfold rd_varint at 1. destruct (varint_read r) as [[typ r1]|]; cbn [bind]; [|discriminate].
      destruct ((typ =? 0) || (typ =? 1)); [apply IH; exact Ha|].
      destruct (negb (typ =? 6)); [discriminate|].
      unfold rd_varint at 1. destruct (varint_read r1) as [[offset r2]|]; cbn [bind]; [|discriminate].
      destruct (9223372036854775807 <? offset); [discriminate|].
      unfold rd_varint at 1. destruct (varint_read r2) as [[dataLen r3]|]; cbn [bind]; [|discriminate].
      destruct (maxCryptoFrameDataLen <? dataLen) eqn:E4; [discriminate|]. apply N.ltb_ge in E4.
      destruct (N.of_nat (length r3) <? dataLen); [discriminate|].
      destruct (Nat.ltb (length r3) (N.to_nat dataLen)); [discriminate|].
      apply IH. unfold frames_small. apply Forall_app. split; [exact Ha|].
      constructor; [|constructor]. cbn [snd]. rewrite firstn_length. lia.
  Qed.

  (* payload.go:145 make(end): at most maxCryptoPayloadLen (a single frame is returned as it is) *)
  Lemma assemble_alloc sortf : (forall l, Permutation (sortf l) l) ->
    forall frames d, offs_ok frames -> assemble sortf frames = Ok (Some d) ->
    (exists f, frames = [f] /\ d = snd f) \/ (Z.of_nat (length d) <= maxCryptoPayloadLen)%Z.
  Proof.
    intros sort_perm frames d Ho. unfold assemble.
    destruct frames as [|f1 [|f2 rest]]; [discriminate|intros H; injection H as <-; left; eauto|].
    set (fr := f1 :: f2 :: rest) in *.
    pose proof (sort_perm fr) as Hp.
    destruct (sortf fr) as [|f0 fs'] eqn:Hs; [discriminate|].
    destruct (contiguous f0 fs') eqn:Hc; [|discriminate]. cbn [negb].
    set (lf := last (f0 :: fs') f0).
    destruct (fst lf <? 0)%Z eqn:E1; [discriminate|].
    destruct (maxCryptoPayloadLen <? fst lf)%Z eqn:E2; [discriminate|].
    destruct ((frame_end lf <? 0)%Z || (maxCryptoPayloadLen <? frame_end lf)%Z) eqn:E3; [discriminate|].
    apply orb_false_iff in E3. destruct E3 as [E3 E4]. rewrite E3.
    apply Z.ltb_ge in E3. apply Z.ltb_ge in E4.
    destruct (copy_all_ok (f0 :: fs') (repeat x00 (Z.to_nat (frame_end lf)))) as (d0 & Hd & Hl).
    { intros f Hin. rewrite repeat_length, Z2Nat.id by lia. split.
      - assert (Hin' : In f fr) by (eapply Permutation_in; eauto).
        unfold offs_ok in Ho. rewrite Forall_forall in Ho. apply Ho. exact Hin'.
      - pose proof (contiguous_le _ _ Hc f Hin) as Hle.
        assert (Hl : lf = last fs' f0) by (unfold lf; apply last_cons_default).
        rewrite <- Hl in Hle. pose proof (frame_end_ge lf). lia. }
    rewrite Hd. cbn [bind]. intros H. injection H as <-. right.
    rewrite Hl, repeat_length. lia.
  Qed.
End Quic.

(* ================= hole-punch packets: the length window in front of the copy (punch.go:72-84) ================= *)
Section Punch.
  Import Hy.model.C20_Punch.
  Lemma punch_window H packet m :
    ((punchMaxWireLen < length packet)%nat -> decode_punch H packet m = Err ELimit) /\
    (forall ty pad, decode_punch H packet m = Ok (ty, pad) ->
       (punchMinWireLen <= length packet <= punchMaxWireLen)%nat).
  Proof.
    unfold decode_punch. split.
    - intros Hl. assert (E1 : Nat.ltb (length packet) punchMinWireLen = false).
      { apply Nat.ltb_ge. change punchMinWireLen with 33%nat. change punchMaxWireLen with 1057%nat in Hl. lia. }
      rewrite E1. assert (E2 : Nat.ltb punchMaxWireLen (length packet) = true) by (apply Nat.ltb_lt; exact Hl).
      rewrite E2. reflexivity.
    - intros ty pad. destruct (Nat.ltb (length packet) punchMinWireLen) eqn:E1; [discriminate|].
      destruct (Nat.ltb punchMaxWireLen (length packet)) eqn:E2; [discriminate|].
      apply Nat.ltb_ge in E1. apply Nat.ltb_ge in E2. intros _. lia.
  Qed.
End Punch.

(* ================= all of them ================= *)
From Hy Require model.C14_Gecko model.C03_Gecko proof.C03_Gecko model.C03_Speedtest proof.C03_Speedtest gen.ParamsC20.

Lemma alloc_bounded :
  (forall st,
     alloc_of (snd (read_tcp_request st)) <= alloc_of st + MaxAddressLength /\
     alloc_of (snd (server_read_request st)) <= alloc_of st + MaxAddressLength /\
     alloc_of (snd (read_tcp_response st)) <= alloc_of st + MaxMessageLength) /\
  (forall d m d' o, (C05_Frag.fcount m < 256) -> C05_Frag.feed d m = Ok (d', o) ->
     (length (C05_Frag.d_frags d') <= Nat.max (length (C05_Frag.d_frags d)) 255)%nat /\
     (C05_Frag.d_size d' <= C05_Frag.d_size d + length (C05_Frag.data m))%nat /\
     (1 < C05_Frag.fcount m -> forall out, o = Some out -> length (C05_Frag.data out) = C05_Frag.d_size d')) /\
  (forall r hd rest, C17_Sniff.parse_long_header r = Ok (hd, rest) ->
     (length (C17_Sniff.h_dcid hd) <= 255)%nat /\ (length (C17_Sniff.h_scid hd) <= 255)%nat /\
     (length (C17_Sniff.h_token hd) <= length r)%nat) /\
  (forall r frs, C17_Sniff.extract_frames (length r) r [] = Ok frs ->
     Forall (fun f => N.of_nat (length (snd f)) <= C17_Sniff.maxCryptoFrameDataLen) frs) /\
  (forall sortf, (forall l, Permutation (sortf l) l) ->
     forall frames d, Forall (fun f => (0 <= fst f)%Z) frames -> C17_Sniff.assemble sortf frames = Ok (Some d) ->
     (exists f, frames = [f] /\ d = snd f) \/ (Z.of_nat (length d) <= C17_Sniff.maxCryptoPayloadLen)%Z) /\
  (forall rbuf acts, exists allocs,
     C03_Gecko.run_p rbuf C14_Gecko.r_init acts = Ok (C14_Gecko.run rbuf C14_Gecko.r_init acts, allocs) /\
     Forall C03_Gecko.alloc_ok allocs) /\
  (forall H packet m,
     ((ParamsC20.punchMaxWireLen < length packet)%nat -> C20_Punch.decode_punch H packet m = Err ELimit) /\
     (forall ty pad, C20_Punch.decode_punch H packet m = Ok (ty, pad) ->
        (ParamsC20.punchMinWireLen <= length packet <= ParamsC20.punchMaxWireLen)%nat)) /\
  (forall s ok m s', C03_Speedtest.read_response s = (Ok (ok, m), s') -> N.of_nat (length m) <= 65535).
Proof.
  split; [intros st; repeat split; [apply request_alloc_bounded|apply server_request_alloc_bounded|apply response_alloc_bounded]|].
  split; [exact feed_alloc_bounded|].
  split; [exact parse_long_header_alloc|].
  split; [intros r frs; apply extract_frames_alloc; constructor|].
  split; [exact assemble_alloc|].
  split; [exact proof.C03_Gecko.gecko_receiver_never_panics|].
  split; [exact punch_window|].
  intros s. exact (proj1 (proof.C03_Speedtest.st_alloc_bounded s)).
Qed.
