(* C03: the reassembler survives ANY sequence of parsed messages (attacker-chosen packet ids,
   fragment ids and counts), not only fragments produced by the splitter. *)
From Hy Require Import model.C05_Frag.
From Coq Require Import ZArith Lia ZifyBool ZifyNat ZifyN.
Ltac Zify.zify_post_hook ::= Z.div_mod_to_equations.
Local Open Scope N_scope.

Definition is_some {A} (o : option A) : bool := match o with Some _ => true | None => false end.

Fixpoint count_some {A} (l : list (option A)) : nat :=
  match l with [] => 0 | Some _ :: t => S (count_some t) | None :: t => count_some t end.

Definition dinv (d : dstate) : Prop :=
  d_count d = N.of_nat (count_some (d_frags d)) /\ (length (d_frags d) < 256)%nat.

Lemma dinv_init : dinv d_init.
Proof. split; simpl; lia. Qed.

Lemma count_some_le {A} (l : list (option A)) : (count_some l <= length l)%nat.
Proof. induction l as [|[x|] t IH]; simpl; lia. Qed.

Lemma count_some_full {A} (l : list (option A)) :
  count_some l = length l -> forallb is_some l = true.
Proof.
  induction l as [|[x|] t IH]; simpl; intros H; auto.
  pose proof (count_some_le t). lia.
Qed.

Lemma upd_length {A} i (x : A) l : length (upd i x l) = length l.
Proof. revert i; induction l as [|h t IH]; intros [|i]; simpl; auto. Qed.

Lemma count_some_repeat_none {A} n : count_some (repeat (@None A) n) = 0%nat.
Proof. induction n; simpl; auto. Qed.

Lemma count_some_upd_none {A} i (x : A) l :
  nth_error l i = Some None -> count_some (upd i (Some x) l) = S (count_some l).
Proof.
  revert i; induction l as [|h t IH]; intros [|i]; simpl; try discriminate.
  - intros [= ->]. reflexivity.
  - intros H. destruct h; simpl; rewrite IH; auto.
Qed.

Lemma count_some_upd_repeat {A} i (x : A) n :
  (i < n)%nat -> count_some (upd i (Some x) (repeat None n)) = 1%nat.
Proof.
  intros H. rewrite count_some_upd_none.
  - now rewrite count_some_repeat_none.
  - revert i H; induction n as [|n IH]; intros [|i] H; simpl; try lia; auto. apply IH. lia.
Qed.

Lemma feed_any d m :
  dinv d -> fid m < 256 -> fcount m < 256 ->
  exists d' o, feed d m = Ok (d', o) /\ dinv d'.
Proof.
  intros [Hc Hl] Hf Hn. unfold feed.
  destruct (fcount m <=? 1) eqn:E1; [exists d, (Some m); split; [reflexivity|split; assumption]|].
  destruct (fcount m <=? fid m) eqn:E2; [exists d, None; split; [reflexivity|split; assumption]|].
  destruct (negb (pid m =? d_pid d) || negb (fcount m =? N.of_nat (length (d_frags d)) mod 256)) eqn:E3.
  - rewrite repeat_length.
    destruct (Nat.ltb (N.to_nat (fid m)) (N.to_nat (fcount m))) eqn:E4; [|lia].
    eexists _, None. split; [reflexivity|]. split; cbn [d_count d_frags].
    + rewrite count_some_upd_repeat by lia. reflexivity.
    + rewrite upd_length, repeat_length. lia.
  - apply orb_false_elim in E3 as [_ E3]. apply negb_false_iff in E3.
    assert (Hlen : fcount m = N.of_nat (length (d_frags d))) by lia.
    destruct (nth_error (d_frags d) (N.to_nat (fid m))) as [[f|]|] eqn:E4.
    + exists d, None. split; [reflexivity|split; assumption].
    + pose proof (count_some_upd_none (N.to_nat (fid m)) m (d_frags d) E4) as Hcs.
      pose proof (count_some_le (upd (N.to_nat (fid m)) (Some m) (d_frags d))) as Hle.
      rewrite upd_length in Hle.
      assert (Hc' : (d_count d + 1) mod 256 = N.of_nat (count_some (upd (N.to_nat (fid m)) (Some m) (d_frags d)))) by lia.
      rewrite upd_length.
      destruct ((d_count d + 1) mod 256 =? N.of_nat (length (d_frags d))) eqn:E5.
      * assert (Hall : forallb (fun o : option msg => match o with Some _ => true | None => false end)
                         (upd (N.to_nat (fid m)) (Some m) (d_frags d)) = true).
        { apply (count_some_full (upd (N.to_nat (fid m)) (Some m) (d_frags d))). rewrite upd_length. lia. }
        rewrite Hall. eexists _, (Some _). split; [reflexivity|]. split; cbn [d_count d_frags].
        -- exact Hc'.
        -- rewrite upd_length. exact Hl.
      * eexists _, None. split; [reflexivity|]. split; cbn [d_count d_frags].
        -- exact Hc'.
        -- rewrite upd_length. exact Hl.
    + apply nth_error_None in E4. lia.
Qed.

Lemma feed_all_any l : forall d,
  dinv d -> Forall (fun m => fid m < 256 /\ fcount m < 256) l ->
  exists d' outs, feed_all d l = Ok (d', outs) /\ dinv d'.
Proof.
  induction l as [|m t IH]; intros d Hd Hall.
  - exists d, []. split; [reflexivity|assumption].
  - inversion Hall as [|? ? [Hf Hn] Ht]; subst.
    destruct (feed_any d m Hd Hf Hn) as (d1 & o & E & Hd1).
    destruct (IH d1 Hd1 Ht) as (d2 & os & E2 & Hd2).
    cbn [feed_all]. rewrite E. cbn [bind]. rewrite E2. cbn [bind].
    eexists _, _. split; [reflexivity|assumption].
Qed.
