(* C03 - proofs about the explicit-panic transcription of the Gecko receiver (model/C03_Gecko.v):
   it never takes a Panic branch, computes exactly what model/C14_Gecko.v computes, and every make() stays under its cap,
   for every sequence of datagrams and ticks. *)
From Hy Require Import model.C14_Gecko proof.C14_Gecko model.C03_Gecko.
From Coq Require Import ZArith Lia ZifyBool ZifyNat ZifyN.
Local Open Scope Z_scope.
Ltac Zify.zify_post_hook ::= Z.div_mod_to_equations.

(* ------------------------------------------------------------------ decodeFrame *)
Lemma decode_frame_p_eq b : decode_frame_p b = decode_frame b.
Proof.
  unfold decode_frame_p, decode_frame.
  destruct (zlen b <? geckoHeaderSize) eqn:E; [reflexivity|].
  destruct b as [|x0 [|x1 [|x2 [|x3 [|x4 rest]]]]]; try (vm_compute in E; discriminate E).
  cbn [idx nth_error bind nth].
  destruct (N.land (b2n x0) geckoFlagFragment =? 0)%N; [reflexivity|].
  assert (Es : slice 6 (x0 :: x1 :: x2 :: x3 :: x4 :: rest) 3 5 = Ok [x3; x4]) by reflexivity.
  rewrite Es. cbn [bind]. change (u16be 14 [x3; x4]) with (@Ok N (be_dec [x3; x4])). cbn [bind].
  set (h := mkHdr (be_dec [x3; x4]) (b2n x1) (b2n x2 / 16)%N (N.land (b2n x2) 15)).
  destruct ((Z.of_N (h_tot h) <? geckoMinFragmentChunks) || (geckoMaxFragmentChunks <? Z.of_N (h_tot h))); [reflexivity|].
  destruct (h_tot h <=? h_idx h)%N; [reflexivity|].
  destruct (zlen (x0 :: x1 :: x2 :: x3 :: x4 :: rest) <? geckoHeaderSize + Z.of_N (h_pad h)) eqn:E2; [reflexivity|].
  unfold slice_from.
  assert (El : Nat.leb (Z.to_nat (geckoHeaderSize + Z.of_N (h_pad h))) (length (x0 :: x1 :: x2 :: x3 :: x4 :: rest)) = true).
  { apply Nat.leb_le. unfold zlen in E2. unfold geckoHeaderSize in *. lia. }
  rewrite El. reflexivity.
Qed.

Lemma decode_bounds b h p : decode_frame b = Ok (h, p) ->
  Z.of_N (h_tot h) <= geckoMaxFragmentChunks /\ (h_tot h < 256)%N /\ zlen p <= zlen b - geckoHeaderSize.
Proof.
  unfold decode_frame.
  destruct (zlen b <? geckoHeaderSize) eqn:E; [discriminate|].
  destruct (N.land (b2n (nth 0 b x00)) geckoFlagFragment =? 0)%N; [discriminate|].
  match goal with |- context [mkHdr ?a ?b0 ?c ?d] => set (hh := mkHdr a b0 c d) end.
  destruct ((Z.of_N (h_tot hh) <? geckoMinFragmentChunks) || (geckoMaxFragmentChunks <? Z.of_N (h_tot hh))) eqn:E1; [discriminate|].
  destruct (h_tot hh <=? h_idx hh)%N; [discriminate|].
  destruct (zlen b <? geckoHeaderSize + Z.of_N (h_pad hh)) eqn:E2; [discriminate|].
  clearbody hh. intros H.
  assert (Hh : hh = h) by congruence.
  assert (Hp : skipn (Z.to_nat (geckoHeaderSize + Z.of_N (h_pad hh))) b = p) by congruence.
  clear H. subst h p.
  apply orb_false_iff in E1 as [_ E1].
  assert (G1 : geckoHeaderSize = 5) by reflexivity. assert (G2 : geckoMaxFragmentChunks = 8) by reflexivity.
  unfold zlen in *. rewrite skipn_length. rewrite G1 in *. rewrite G2 in *. repeat split; lia.
Qed.

(* ------------------------------------------------------------------ the assembly loop *)
Lemma total_len_from (cs : list (list byte)) : forall a, fold_left (fun a c => a + zlen c) cs a = a + Z.of_nat (length (concat cs)).
Proof.
  induction cs as [|c t IH]; intros a; cbn [fold_left concat]; [cbn; lia|].
  rewrite IH, app_length. unfold zlen. lia.
Qed.
Lemma total_len_concat (cs : list (list byte)) : total_len cs = Z.of_nat (length (concat cs)).
Proof. unfold total_len. rewrite total_len_from. lia. Qed.

Lemma assemble_ok (cs : list (list byte)) : forall pre,
  assemble_p cs (pre ++ repeat x00 (length (concat cs))) (length pre) = Ok (pre ++ concat cs).
Proof.
  induction cs as [|c t IH]; intros pre.
  - cbn. reflexivity.
  - cbn [assemble_p concat]. unfold slice_from.
    assert (El : Nat.leb (length pre) (length (pre ++ repeat x00 (length (c ++ concat t)))) = true)
      by (apply Nat.leb_le; rewrite app_length; lia).
    rewrite El. cbn [bind].
    rewrite skipn_app, skipn_all, Nat.sub_diag. cbn [skipn app].
    rewrite app_length, repeat_length.
    replace (Nat.min (length c + length (concat t)) (length c)) with (length c) by lia.
    rewrite firstn_app, firstn_all, Nat.sub_diag. cbn [firstn]. rewrite app_nil_r, firstn_all.
    replace (length c + length (concat t))%nat with (length c + length (concat t))%nat by reflexivity.
    assert (Es : skipn (length c) (repeat x00 (length c + length (concat t))) = repeat x00 (length (concat t))).
    { rewrite repeat_app, skipn_app, repeat_length, Nat.sub_diag, skipn_all2 by (rewrite repeat_length; lia). reflexivity. }
    rewrite Es.
    replace (pre ++ c ++ repeat x00 (length (concat t)))%list with ((pre ++ c) ++ repeat x00 (length (concat t)))%list
      by (rewrite <- app_assoc; reflexivity).
    replace (length pre + length c)%nat with (length (pre ++ c)) by (rewrite app_length; reflexivity).
    rewrite IH, <- app_assoc. reflexivity.
Qed.

(* ------------------------------------------------------------------ invariant: what the table holds is small *)
Definition chunk_ok (c : option (list byte)) : Prop :=
  match c with Some x => zlen x <= geckoMaxChunkPayload | None => True end.
Definition entry_ok (e : entry) : Prop :=
  zlen (e_chunks e) <= geckoMaxFragmentChunks /\ Forall chunk_ok (e_chunks e).
Definition CInv (st : rstate) : Prop := Forall (fun ke : key * entry => entry_ok (snd ke)) (tbl st).

Lemma CInv_init : CInv r_init.
Proof. constructor. Qed.

Lemma Forall_adel {V} (P : key * V -> Prop) k (m : list (key * V)) : Forall P m -> Forall P (adel keqb k m).
Proof.
  unfold adel. intros H. apply Forall_forall. intros x Hx. apply filter_In in Hx as [Hx _].
  revert x Hx. apply Forall_forall. exact H.
Qed.

Lemma CInv_drop k st : CInv st -> CInv (drop_entry k st).
Proof.
  unfold CInv, drop_entry. intros H. destruct (tget k st); [|exact H]. cbn [tbl]. apply Forall_adel. exact H.
Qed.

Lemma CInv_evict choice st : CInv st -> CInv (evict_oldest choice st).
Proof.
  intros H. unfold evict_oldest. destruct (min_deadline (tbl st)); [|exact H]. apply CInv_drop. exact H.
Qed.

Lemma CInv_gc_loop l now : forall st, CInv st -> CInv (gc_loop l now st).
Proof.
  induction l as [|ke t IH]; intros st H; cbn [gc_loop]; [exact H|].
  apply IH. destruct (e_deadline (snd ke) <? now); [apply CInv_drop|]; exact H.
Qed.

Lemma CInv_tget k e st : CInv st -> tget k st = Some e -> entry_ok e.
Proof.
  unfold CInv, tget. intros H T. apply (aget_In keqb keqb_spec) in T.
  rewrite Forall_forall in H. exact (H _ T).
Qed.

Lemma CInv_set k e st per' : CInv st -> entry_ok e -> CInv (mkR (aset keqb k e (tbl st)) per').
Proof.
  unfold CInv, aset. cbn [tbl]. intros H He. constructor; [exact He|]. apply Forall_adel. exact H.
Qed.

Lemma upd_length {A} (i : nat) (x : A) l : length (upd i x l) = length l.
Proof. revert i; induction l as [|h t IH]; intros [|i]; cbn; auto. Qed.

Lemma Forall_upd {A} (P : A -> Prop) i x l : Forall P l -> P x -> Forall P (upd i x l).
Proof.
  revert i; induction l as [|h t IH]; intros [|i] H Hx; cbn; auto.
  - inversion H; subst. constructor; auto.
  - inversion H; subst. constructor; auto.
Qed.

Lemma total_bound cs : Forall chunk_ok cs ->
  0 <= total_len (map opt_bytes cs) <= zlen cs * geckoMaxChunkPayload.
Proof.
  rewrite total_len_concat. unfold zlen. induction 1 as [|c t Hc Ht IH]; [cbn; lia|].
  cbn [map concat length]. rewrite app_length.
  assert (0 <= Z.of_nat (length (opt_bytes c)) <= geckoMaxChunkPayload).
  { destruct c as [x|]; cbn [opt_bytes chunk_ok] in *; unfold zlen, geckoMaxChunkPayload, geckoBufferSize, geckoHeaderSize in *; cbn [length]; lia. }
  unfold geckoMaxChunkPayload, geckoBufferSize, geckoHeaderSize in *. lia.
Qed.

(* ------------------------------------------------------------------ acceptChunk *)
Lemma make_ok_in site n : 0 <= n <= make_limit -> make_ok site n = Ok tt.
Proof.
  intros H. unfold make_ok. destruct (n <? 0) eqn:E1; [lia|]. destruct (make_limit <? n) eqn:E2; [lia|]. reflexivity.
Qed.

Lemma foc_p_spec now choice src h st :
  CInv st -> Z.of_N (h_tot h) <= geckoMaxFragmentChunks ->
  exists al, find_or_create_p now choice src h st = Ok (find_or_create now choice src h st, al) /\
             Forall alloc_ok al /\
             forall st2 e, find_or_create now choice src h st = Some (st2, e) -> CInv st2 /\ entry_ok e.
Proof.
  intros I Ht. unfold find_or_create_p, find_or_create.
  destruct (tget (src, h_mid h) st) as [e0|] eqn:T.
  - destruct (e_total e0 =? h_tot h)%N.
    + exists []. split; [reflexivity|]. split; [constructor|]. intros st2 e H. injection H as <- <-.
      split; [exact I|]. eapply CInv_tget; eauto.
    + exists []. split; [reflexivity|]. split; [constructor|]. intros st2 e H. discriminate H.
  - destruct (geckoMaxPerSource <=? pget src st).
    + exists []. split; [reflexivity|]. split; [constructor|]. intros st2 e H. discriminate H.
    + rewrite make_ok_in by (unfold make_limit, geckoMaxFragmentChunks in *; lia). cbn [bind].
      exists [(8%N, Z.of_N (h_tot h))]. split; [reflexivity|]. split.
      * constructor; [|constructor]. unfold alloc_ok. cbn [fst snd]. lia.
      * intros st2 e H. injection H as <- <-.
        set (st1 := if geckoMaxReassembly <=? zlen (tbl st) then evict_oldest choice st else st).
        assert (I1 : CInv st1) by (unfold st1; destruct (geckoMaxReassembly <=? zlen (tbl st)); auto using CInv_evict).
        assert (He : entry_ok (mkE (repeat None (N.to_nat (h_tot h))) 0 (h_tot h) (now + geckoReassemblyTTLns))).
        { unfold entry_ok. cbn [e_chunks]. split.
          - unfold zlen. rewrite repeat_length. lia.
          - apply Forall_forall. intros x Hx. apply repeat_spec in Hx. subst x. exact Logic.I. }
        split; [|exact He]. apply CInv_set; assumption.
Qed.

Lemma accept_chunk_p_spec now choice src h payload st :
  CInv st -> Z.of_N (h_tot h) <= geckoMaxFragmentChunks -> zlen payload <= geckoMaxChunkPayload ->
  exists al, accept_chunk_p now choice src h payload st = Ok (accept_chunk now choice src h payload st, al) /\
             Forall alloc_ok al /\ CInv (fst (accept_chunk now choice src h payload st)).
Proof.
  intros I Ht Hp. unfold accept_chunk_p, accept_chunk.
  destruct (foc_p_spec now choice src h st I Ht) as (al0 & F & A0 & Hc). rewrite F. cbn [bind fst snd].
  destruct (find_or_create now choice src h st) as [[st2 e]|].
  2:{ exists al0. auto. }
  destruct (Hc st2 e eq_refl) as [I2 [He1 He2]].
  destruct (Nat.leb (length (e_chunks e)) (N.to_nat (h_idx h))) eqn:El.
  - apply Nat.leb_le in El. apply nth_error_None in El. rewrite El. exists al0. auto.
  - apply Nat.leb_gt in El. destruct (nth_error (e_chunks e) (N.to_nat (h_idx h))) as [c|] eqn:En.
    2:{ apply nth_error_None in En. lia. }
    cbn [bind]. destruct c as [x|]; [exists al0; auto|].
    assert (Hp0 : 0 <= zlen payload) by (unfold zlen; lia).
    rewrite make_ok_in by (unfold make_limit, geckoMaxChunkPayload, geckoBufferSize, geckoHeaderSize in *; lia).
    cbn [bind].
    set (e' := mkE (upd (N.to_nat (h_idx h)) (Some payload) (e_chunks e)) (e_received e + 1) (e_total e) (e_deadline e)).
    assert (He' : entry_ok e').
    { unfold entry_ok, e'. cbn [e_chunks]. split.
      - unfold zlen in *. rewrite upd_length. exact He1.
      - apply Forall_upd; [exact He2|exact Hp]. }
    assert (A1 : Forall alloc_ok (al0 ++ [(10%N, zlen payload)])).
    { apply Forall_app. split; [exact A0|]. constructor; [|constructor]. unfold alloc_ok. cbn [fst snd]. lia. }
    destruct (e_received e' <? Z.of_N (e_total e')).
    + eexists. split; [reflexivity|]. split; [exact A1|]. cbn [fst]. apply CInv_set; assumption.
    + destruct He' as [He1' He2'].
      pose proof (total_bound _ He2') as Hb.
      rewrite make_ok_in
        by (unfold make_limit, geckoMaxChunkPayload, geckoMaxFragmentChunks, geckoBufferSize, geckoHeaderSize in *; nia).
      cbn [bind].
      pose proof (assemble_ok (map opt_bytes (e_chunks e')) []) as Ha. cbn [app length] in Ha.
      rewrite total_len_concat, Nat2Z.id, Ha. cbn [bind].
      eexists. split; [reflexivity|]. split.
      * apply Forall_app. split; [exact A1|]. constructor; [|constructor]. unfold alloc_ok. cbn [fst snd].
        rewrite <- total_len_concat.
        unfold geckoMaxChunkPayload, geckoMaxFragmentChunks, geckoBufferSize, geckoHeaderSize in *. nia.
      * cbn [fst]. apply CInv_drop. apply CInv_set; [assumption|split; assumption].
Qed.

(* ------------------------------------------------------------------ ReadFrom *)
Lemma firstn_min_length {A} (l : list A) k : firstn (Nat.min (length l) k) l = firstn k l.
Proof.
  destruct (Nat.le_ge_cases (length l) k) as [H|H].
  - rewrite Nat.min_l by exact H. rewrite firstn_all, firstn_all2 by exact H. reflexivity.
  - rewrite Nat.min_r by exact H. reflexivity.
Qed.

Lemma on_packet_p_spec rbuf now choice src dg st :
  CInv st ->
  exists al, on_packet_p rbuf now choice src dg st = Ok (on_packet rbuf now choice src dg st, al) /\
             Forall alloc_ok al /\ CInv (fst (on_packet rbuf now choice src dg st)).
Proof.
  intros I. unfold on_packet_p, on_packet.
  set (K := Z.to_nat geckoBufferSize).
  set (n := Nat.min (length dg) K).
  assert (HK : K = 2048%nat) by reflexivity.
  assert (Hb : firstn n dg = firstn K dg) by apply firstn_min_length.
  destruct (Nat.eqb n 0) eqn:En.
  - apply Nat.eqb_eq in En. assert (dg = []) by (destruct dg; [reflexivity|unfold n in En; cbn [length] in En; lia]).
    subst dg. rewrite firstn_nil. exists []. split; [reflexivity|]. split; [constructor|exact I].
  - apply Nat.eqb_neq in En. rewrite <- Hb.
    destruct dg as [|b0 t]; [unfold n in En; cbn in En; lia|].
    destruct n as [|n'] eqn:Hn; [lia|]. cbn [firstn app idx nth_error bind].
    assert (Hlen : (S n' <= length (b0 :: t))%nat) by (rewrite <- Hn; unfold n; lia).
    assert (Es : slice 2 (b0 :: firstn n' t ++ repeat x00 (K - S n')) 0 (S n') = Ok (b0 :: firstn n' t)).
    { unfold slice. cbn [Nat.leb andb length]. rewrite app_length, firstn_length, repeat_length.
      assert (El : Nat.leb n' (Nat.min n' (length t) + (K - S n')) = true).
      { apply Nat.leb_le. cbn [length] in Hlen. lia. }
      rewrite El. cbn [skipn Nat.sub firstn]. f_equal. f_equal.
      rewrite firstn_app, firstn_firstn, firstn_length. cbn [length] in Hlen.
      replace (Nat.min n' n') with n' by lia.
      replace (n' - Nat.min n' (length t))%nat with 0%nat by lia. cbn [firstn]. apply app_nil_r. }
    rewrite Es. cbn [bind].
    destruct (N.land (b2n b0) 128 =? 0)%N.
    + exists []. split; [reflexivity|]. split; [constructor|exact I].
    + rewrite decode_frame_p_eq.
      destruct (decode_frame (b0 :: firstn n' t)) as [[h payload]|e|p] eqn:D.
      * destruct (decode_bounds _ _ _ D) as (B1 & _ & B2).
        assert (Hpl : zlen payload <= geckoMaxChunkPayload).
        { unfold geckoMaxChunkPayload. unfold zlen in *. cbn [length] in *. rewrite firstn_length in B2.
          assert (S n' <= K)%nat by (rewrite <- Hn; unfold n; lia). unfold geckoBufferSize. lia. }
        destruct (accept_chunk_p_spec now choice src h payload st I B1 Hpl) as (al & A & Aok & I').
        rewrite A. cbn [bind fst snd]. exists al. split; [reflexivity|]. split; [exact Aok|exact I'].
      * exists []. split; [reflexivity|]. split; [constructor|exact I].
      * pose proof (decode_no_panic (b0 :: firstn n' t)) as X. rewrite D in X. discriminate X.
Qed.

Lemma step_p_spec rbuf st a : CInv st ->
  exists al, step_p rbuf st a = Ok (step rbuf st a, al) /\ Forall alloc_ok al /\ CInv (fst (step rbuf st a)).
Proof.
  intros I. destruct a as [now src dg choice|now]; cbn [step_p step].
  - destruct (on_packet_p_spec rbuf now choice src dg st I) as (al & A & Aok & I').
    rewrite A. cbn [bind fst snd]. exists al. split; [reflexivity|]. split; [exact Aok|exact I'].
  - exists []. split; [reflexivity|]. split; [constructor|]. cbn [fst]. unfold gc_expired. apply CInv_gc_loop. exact I.
Qed.

(* every sequence of datagrams and ticks *)
Lemma run_p_spec rbuf l : forall st, CInv st ->
  exists al, run_p rbuf st l = Ok (run rbuf st l, al) /\ Forall alloc_ok al.
Proof.
  induction l as [|a t IH]; intros st I.
  - exists []. split; [reflexivity|constructor].
  - cbn [run_p run]. destruct (step_p_spec rbuf st a I) as (al1 & S1 & A1 & I1).
    rewrite S1. cbn [bind fst snd].
    destruct (IH _ I1) as (al2 & S2 & A2). rewrite S2. cbn [bind fst snd].
    exists (al1 ++ al2)%list. split; [reflexivity|]. apply Forall_app. split; assumption.
Qed.

Lemma gecko_receiver_never_panics rbuf acts :
  exists al, run_p rbuf r_init acts = Ok (run rbuf r_init acts, al) /\ Forall alloc_ok al.
Proof. apply run_p_spec. exact CInv_init. Qed.

Lemma decode_frame_p_never_panics b : is_panic (decode_frame_p b) = false.
Proof. rewrite decode_frame_p_eq. apply decode_no_panic. Qed.

(* non-vacuity: two fragments "ab" + "c" of message 7 from source 1 arrive in reverse order and come out as "abc":
   three allocations (slots, two chunk copies, the packet) *)
Example gecko_example :
  run_p 2048 r_init [Packet 0 1 [x80; x07; x12; x00; x01; xff; x63] (0%N, 0%N);
                     Packet 1 1 [x80; x07; x02; x00; x00; x61; x62] (0%N, 0%N)]
  = Ok (r_init, [None; Some (1%N, [x61; x62; x63])], [(8%N, 2); (10%N, 1); (10%N, 2); (12%N, 3)]).
Proof. vm_compute. reflexivity. Qed.
