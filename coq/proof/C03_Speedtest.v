(* C03, gap (b): the speed-test server and the response readers never panic, whatever the peer
   streams (any chunking, zero-length reads, errors anywhere) and whichever writes fail; the
   uint32 `remaining` counters never wrap; the loops' fuel is never exhausted. *)
From Hy Require Import model.C03_Speedtest.
From Coq Require Import ZArith Lia ZifyBool ZifyNat ZifyN.
Ltac Zify.zify_post_hook ::= Z.div_mod_to_equations.
Local Open Scope N_scope.

Lemma rd_np n s : is_panic (fst (rd n s)) = false.
Proof. unfold rd. cbn [fst]. apply read_full_never_panics. Qed.

Lemma read_full_len s : forall need acc c bs s' c',
  read_full_s s need acc c = (Ok bs, s', c') -> length bs = (length acc + need)%nat.
Proof.
  induction s as [|[b oe] t IH]; intros need acc c bs s' c' H; destruct need as [|k].
  - injection H as <- _ _. lia.
  - discriminate H.
  - injection H as <- _ _. lia.
  - cbn [read_full_s] in H. destruct (Nat.leb (length b) (S k)) eqn:E.
    + apply Nat.leb_le in E. destruct oe as [e|].
      * destruct (Nat.eqb (length b) (S k)) eqn:E2; [|discriminate H].
        injection H as <- _ _. rewrite app_length. apply Nat.eqb_eq in E2. lia.
      * apply IH in H. rewrite app_length in H. lia.
    + apply Nat.leb_gt in E. injection H as <- _ _. change (match b with [] => [] | a :: l => a :: firstn k l end) with (firstn (S k) b).
      rewrite app_length, firstn_length. lia.
Qed.

Lemma rd_len n s bs s' : rd n s = (Ok bs, s') -> length bs = n.
Proof.
  unfold rd. destruct (read_full_s s n [] ctr0) as [[r s1] c1] eqn:E. cbn [fst snd].
  intros [= -> <-]. apply read_full_len in E. simpl in E. exact E.
Qed.

Lemma read_u32_np s : is_panic (fst (read_u32 s)) = false.
Proof.
  unfold read_u32. pose proof (rd_np 4 s) as H. destruct (rd 4 s) as [[bs|e|p] s']; cbn in *; congruence.
Qed.

Lemma read_u32_lt s v s' : read_u32 s = (Ok v, s') -> v < 2 ^ 32.
Proof.
  unfold read_u32. destruct (rd 4 s) as [[bs|e|p] s1] eqn:E; try discriminate.
  intros [= <- <-]. apply rd_len in E. pose proof (be_dec_lt bs) as H. rewrite E in H. exact H.
Qed.

Lemma read_u16_np s : is_panic (fst (read_u16 s)) = false.
Proof.
  unfold read_u16. pose proof (rd_np 2 s) as H. destruct (rd 2 s) as [[bs|e|p] s']; cbn in *; congruence.
Qed.

Lemma read_u16_lt s v s' : read_u16 s = (Ok v, s') -> v < 65536.
Proof.
  unfold read_u16. destruct (rd 2 s) as [[bs|e|p] s1] eqn:E; try discriminate.
  intros [= <- <-]. apply rd_len in E. pose proof (be_dec_lt bs) as H. rewrite E in H. exact H.
Qed.

(* readDownloadResponse / readUploadResponse: total; the allocation is the declared uint16 *)
Lemma read_response_np s : is_panic (fst (read_response s)) = false.
Proof.
  unfold read_response. pose proof (rd_np 1 s) as H1.
  destruct (rd 1 s) as [[st|e|p] s1]; cbn in H1; try reflexivity; try discriminate.
  pose proof (read_u16_np s1) as H2. destruct (read_u16 s1) as [[l|e|p] s2] eqn:E2; cbn in H2; try reflexivity; try discriminate.
  destruct (l =? 0); [reflexivity|].
  apply read_u16_lt in E2. destruct (65535 <? l) eqn:E3; [lia|].
  pose proof (rd_np (N.to_nat l) s2) as H3.
  destruct (rd (N.to_nat l) s2) as [[m|e|p] s3]; cbn in H3; try reflexivity; discriminate.
Qed.

Lemma read_response_len s ok m s' : read_response s = (Ok (ok, m), s') -> N.of_nat (length m) <= 65535.
Proof.
  unfold read_response. destruct (rd 1 s) as [[st|e|p] s1]; try discriminate.
  destruct (read_u16 s1) as [[l|e|p] s2] eqn:E2; try discriminate.
  destruct (l =? 0); [intros [= _ <- _]; simpl; lia|].
  apply read_u16_lt in E2. destruct (65535 <? l); [discriminate|].
  destruct (rd (N.to_nat l) s2) as [[m'|e|p] s3] eqn:E3; try discriminate.
  intros [= _ <- _]. apply rd_len in E3. lia.
Qed.

Lemma read_summary_np s : is_panic (fst (read_summary s)) = false.
Proof.
  unfold read_summary. pose proof (read_u32_np s) as H1.
  destruct (read_u32 s) as [[d|e|p] s1]; cbn in H1; try reflexivity; try discriminate.
  pose proof (read_u32_np s1) as H2.
  destruct (read_u32 s1) as [[l|e|p] s2]; cbn in H2; try reflexivity; discriminate.
Qed.

(* the duration fits an int64: no overflow in time.Duration(d) * time.Millisecond *)
Lemma read_summary_range s d l s' : read_summary s = (Ok (d, l), s') ->
  (0 <= d < 2 ^ 63)%Z /\ l < 2 ^ 32.
Proof.
  unfold read_summary. destruct (read_u32 s) as [[dd|e|p] s1] eqn:E1; try discriminate.
  destruct (read_u32 s1) as [[ll|e|p] s2] eqn:E2; try discriminate.
  intros [= <- <- _]. apply read_u32_lt in E1. apply read_u32_lt in E2.
  change (2 ^ 32) with 4294967296 in *. change (2 ^ 63)%Z with 9223372036854775808%Z. lia.
Qed.

(* ---------- download loop ---------- *)
Lemma download_loop_np fuel : forall remaining w acc,
  remaining <= N.of_nat fuel * st_chunkSize -> remaining < 2 ^ 32 ->
  is_panic (fst (download_loop fuel remaining w acc)) = false.
Proof.
  change (2 ^ 32) with 4294967296. unfold st_chunkSize.
  induction fuel as [|f IH]; intros remaining w acc Hf Hr.
  - cbn [download_loop]. destruct (remaining =? 0) eqn:E; [reflexivity|lia].
  - cbn [download_loop]. destruct (remaining =? 0) eqn:E; [reflexivity|].
    unfold st_chunkSize. change (2 ^ 32) with 4294967296.
    destruct (65536 <? remaining) eqn:E1.
    + change (65536 <? 65536) with false. cbv iota.
      destruct (wnext w) as [okw w']. destruct okw; [|reflexivity].
      apply IH; lia.
    + rewrite E1. destruct (wnext w) as [okw w']. destruct okw; [|reflexivity].
      apply IH; lia.
Qed.

Lemma handle_download_np s w : is_panic (r_res (handle_download s w)) = false.
Proof.
  unfold handle_download. pose proof (read_u32_np s) as H1.
  destruct (read_u32 s) as [[l|e|p] s1] eqn:E1; cbn in H1; try reflexivity; try discriminate.
  destruct (wnext w) as [ok1 w1]. destruct ok1; [|reflexivity]. cbn [r_res].
  apply read_u32_lt in E1. apply download_loop_np; [|exact E1].
  unfold st_chunkSize. lia.
Qed.

(* ---------- upload loop ---------- *)
Lemma read1_sdata n s : sdata s = fst (fst (read1 n s)) ++ sdata (snd (read1 n s)).
Proof.
  destruct s as [|[bs oe] t]; [reflexivity|]. cbn [read1].
  destruct (Nat.leb (length bs) n); cbn [fst snd]; rewrite !sdata_cons; [reflexivity|].
  now rewrite app_assoc, firstn_skipn.
Qed.

Lemma read1_le n s : (length (fst (fst (read1 n s))) <= n)%nat.
Proof.
  destruct s as [|[bs oe] t]; [simpl; lia|]. cbn [read1].
  destruct (Nat.leb (length bs) n) eqn:E; cbn [fst snd].
  - now apply Nat.leb_le in E.
  - rewrite firstn_length. lia.
Qed.

Lemma upload_loop_np fuel : forall remaining s calls,
  (length s + length (sdata s) < fuel)%nat ->
  is_panic (fst (fst (upload_loop fuel remaining s calls))) = false.
Proof.
  induction fuel as [|f IH]; intros remaining s calls Hf; [lia|].
  cbn [upload_loop]. destruct (remaining =? 0) eqn:E0; [reflexivity|].
  set (n := if st_chunkSize <? remaining then st_chunkSize else remaining).
  assert (Hn : 1 <= n /\ n <= st_chunkSize /\ n <= remaining).
  { unfold n, st_chunkSize. destruct (65536 <? remaining) eqn:E; lia. }
  destruct (st_chunkSize <? n) eqn:E1; [lia|].
  pose proof (read1_le (N.to_nat n) s) as Hle.
  pose proof (read1_sdata (N.to_nat n) s) as Hsd.
  pose proof (read1_progress (N.to_nat n) s ltac:(lia)) as Hpr.
  destruct (read1 (N.to_nat n) s) as [[bs oe] s'] eqn:Er. cbn [fst snd] in *.
  destruct (remaining <? N.of_nat (length bs)) eqn:E2; [lia|].
  assert (Hmu : s <> [] -> (length s' + length (sdata s') < length s + length (sdata s))%nat).
  { intros Hne. rewrite Hsd, app_length. destruct Hpr as [H|[H|(H1 & H2 & H3)]]; [lia|contradiction|lia]. }
  destruct oe as [e|].
  - destruct ((remaining - N.of_nat (length bs) =? 0) && match e with EEof => true | _ => false end) eqn:E3; [|reflexivity].
    destruct s as [|ev t].
    + cbn [read1] in Er. injection Er as <- _ <-. simpl in E3. lia.
    + apply IH. specialize (Hmu ltac:(discriminate)). lia.
  - destruct s as [|ev t]; [cbn [read1] in Er; discriminate Er|].
    apply IH. specialize (Hmu ltac:(discriminate)). lia.
Qed.

Lemma handle_upload_np s w : is_panic (r_res (handle_upload s w)) = false.
Proof.
  unfold handle_upload. pose proof (read_u32_np s) as H1.
  destruct (read_u32 s) as [[l|e|p] s1]; cbn in H1; try reflexivity; try discriminate.
  destruct (wnext w) as [ok1 w1]. destruct ok1; [|reflexivity].
  pose proof (upload_loop_np (upload_fuel s1) l s1 0 ltac:(unfold upload_fuel; lia)) as H2.
  destruct (upload_loop (upload_fuel s1) l s1 0) as [[[u|e|p] s2] calls]; cbn in H2; try discriminate.
  - destruct (wnext w1) as [ok2 w2]. destruct ok2; reflexivity.
  - reflexivity.
Qed.

Lemma server_never_panics : forall s w, is_panic (r_res (server s w)) = false.
Proof.
  intros s w. unfold server. pose proof (rd_np 1 s) as H1.
  destruct (rd 1 s) as [[t|e|p] s1]; cbn in H1; try reflexivity; try discriminate.
  destruct (_ =? st_typeDownload); [apply handle_download_np|].
  destruct (_ =? st_typeUpload); [apply handle_upload_np|reflexivity].
Qed.

Lemma st_readers_never_panic : forall s,
  is_panic (fst (read_u32 s)) = false /\ is_panic (fst (read_response s)) = false /\
  is_panic (fst (read_summary s)) = false.
Proof. intros s. split; [apply read_u32_np|split; [apply read_response_np|apply read_summary_np]]. Qed.

(* ---------- non-vacuity ---------- *)
Example speedtest_example :
  (* upload of 5 bytes delivered as 2 + zero-length read + 3, with the type byte and the request
     split across reads *)
  let s := [Chunk [x02; x00]; Chunk [x00; x00; x05; x61; x62]; ZeroRead; Chunk [x63; x64; x65; x66]] in
  r_res (server s []) = Ok tt /\ r_writes (server s []) = [5; 8] /\ r_rest (server s []) = [Chunk [x66]] /\
  r_calls (server s []) = 3 /\
  (* download of 70000 bytes: 65536 + 4464, and a failing third write *)
  r_writes (server [Chunk [x01; x00; x01; x11; x70]] []) = [5; 65536; 4464] /\
  r_res (server [Chunk [x01; x00; x01; x11; x70]] [true; true; false]) = Err EOther /\
  (* unknown type, truncated request *)
  r_res (server [Chunk [x07]] []) = Err EInvalid /\
  r_res (server [Chunk [x01; x00]] []) = Err EShort.
Proof. vm_compute. repeat split. Qed.

Lemma st_alloc_bounded : forall s,
  (forall ok m s', read_response s = (Ok (ok, m), s') -> N.of_nat (length m) <= 65535) /\
  (forall d l s', read_summary s = (Ok (d, l), s') -> (0 <= d < 2 ^ 63)%Z /\ l < 2 ^ 32).
Proof.
  intros s. split; [intros ok m s'; apply read_response_len|intros d l s'; apply read_summary_range].
Qed.
