(* C03, gap (c): the STUN handling around pion never panics, whatever pion answers. *)
From Hy Require Import model.C03_Stun.
From Coq Require Import ZArith Lia ZifyBool ZifyNat ZifyN.
Local Open Scope N_scope.

Lemma ip_port_np ip port : is_panic (ip_port_to_addrport ip port) = false.
Proof.
  unfold ip_port_to_addrport. destruct (_ || _); [reflexivity|].
  destruct (to4 ip); [reflexivity|]. destruct (to16 ip); reflexivity.
Qed.

Lemma copy_into_length n src : length (copy_into n src) = n.
Proof. unfold copy_into. rewrite app_length, firstn_length, repeat_length. lia. Qed.

(* an accepted address has 4 or 16 bytes and a port in 1..65535 *)
Lemma ip_port_shape ip port a p : ip_port_to_addrport ip port = Ok (a, p) ->
  (length a = 4 \/ length a = 16)%nat /\ (1 <= p <= 65535)%Z.
Proof.
  unfold ip_port_to_addrport. destruct (_ || _) eqn:E; [discriminate|].
  destruct (to4 ip) as [i4|]; [|destruct (to16 ip) as [i16|]; [|discriminate]];
    intros [= <- <-]; (split; [|lia]); rewrite copy_into_length; lia.
Qed.

Section Stun.
  Variable decode : list byte -> option stunmsg.
  Variable is_message : list byte -> bool.

  (* err == nil implies msg != nil *)
  Lemma parse_stun_msg p a : snd (parse_stun decode p) = Ok a -> exists m, fst (parse_stun decode p) = Some m.
  Proof.
    unfold parse_stun. destruct (decode p) as [m|]; [|cbn; discriminate].
    destruct (negb (sm_success m)); [cbn; discriminate|].
    destruct (sm_xor m) as [[ip port]|]; [cbn; eauto|].
    destruct (sm_mapped m) as [[ip2 port2]|]; [cbn; eauto|cbn; discriminate].
  Qed.

  Lemma parse_stun_np p : is_panic (snd (parse_stun decode p)) = false.
  Proof.
    unfold parse_stun. destruct (decode p) as [m|]; [|reflexivity].
    destruct (negb (sm_success m)); [reflexivity|].
    destruct (sm_xor m) as [[ip port]|]; [cbn [snd]; apply ip_port_np|].
    destruct (sm_mapped m) as [[ip2 port2]|]; [cbn [snd]; apply ip_port_np|reflexivity].
  Qed.

  Lemma decode_stun_packet_msg p e : decode_stun_packet decode is_message p = Some e -> exists m, fst e = Some m.
  Proof.
    unfold decode_stun_packet. destruct (negb (is_message p)); [discriminate|].
    destruct (parse_stun decode p) as [m r] eqn:E. destruct r as [a| |]; try discriminate.
    intros [= <-]. pose proof (parse_stun_msg p a) as H. rewrite E in H. exact (H eq_refl).
  Qed.

  Lemma discover_loop_np buflen rxs : forall pending acc,
    Forall (fun r => match r with RxPkt n _ => (0 <= n <= Z.of_nat buflen)%Z | _ => True end) rxs ->
    is_panic (discover_loop decode buflen pending rxs acc) = false.
  Proof.
    induction rxs as [|r t IH]; intros pending acc Hall; destruct pending as [|p0 pr]; try reflexivity.
    inversion Hall as [|? ? Hr Ht]; subst. cbn [discover_loop].
    destruct r as [n p| |]; try reflexivity.
    destruct ((n <? 0)%Z || (Z.of_nat buflen <? n)%Z) eqn:E; [lia|].
    pose proof (parse_stun_np (firstn (Z.to_nat n) p)) as Hnp.
    pose proof (parse_stun_msg (firstn (Z.to_nat n) p)) as Hm.
    destruct (parse_stun decode (firstn (Z.to_nat n) p)) as [m r]. cbn [fst snd] in *.
    destruct r as [a|e|s]; [|destruct m; apply IH; exact Ht|discriminate].
    destruct (Hm a eq_refl) as (m' & ->).
    destruct (tid_in (sm_tid m') (p0 :: pr)); apply IH; exact Ht.
  Qed.

  Lemma stun_events_some ps : Forall (fun e => exists m, fst e = Some m) (stun_events decode is_message ps).
  Proof.
    induction ps as [|p t IH]; [constructor|]. cbn [stun_events].
    destruct (decode_stun_packet decode is_message p) as [e|] eqn:E; [|exact IH].
    constructor; [eapply decode_stun_packet_msg; eauto|exact IH].
  Qed.

  Lemma demux_loop_np evs : forall pending acc,
    Forall (fun e : option stunmsg * (list byte * Z) => exists m, fst e = Some m) evs ->
    is_panic (demux_loop pending evs acc) = false.
  Proof.
    induction evs as [|[m a] t IH]; intros pending acc Hall; destruct pending as [|p0 pr]; try reflexivity.
    inversion Hall as [|? ? [m' Hm] Ht]; subst. cbn [fst] in Hm. subst m. cbn [demux_loop].
    destruct (tid_in (sm_tid m') (p0 :: pr)); apply IH; exact Ht.
  Qed.

  (* every packet sequence through the demultiplexer, then DiscoverWithDemux *)
  Lemma demux_discover_np ps pending :
    is_panic (demux_loop pending (stun_events decode is_message ps) []) = false.
  Proof. apply demux_loop_np, stun_events_some. Qed.
End Stun.

Lemma stun_never_panics : forall decode is_message,
  (forall p, is_panic (snd (parse_stun decode p)) = false) /\
  (forall buflen rxs pending,
     Forall (fun r => match r with RxPkt n _ => (0 <= n <= Z.of_nat buflen)%Z | _ => True end) rxs ->
     is_panic (discover_loop decode buflen pending rxs []) = false) /\
  (forall ps pending, is_panic (demux_loop pending (stun_events decode is_message ps) []) = false).
Proof.
  intros decode is_message. split; [apply parse_stun_np|]. split.
  - intros. now apply discover_loop_np.
  - intros. apply demux_discover_np.
Qed.

Example stun_example :
  let m := mkSM true [x01] (Some ([x7f;x00;x00;x01], 4242%Z)) None in
  let bad := mkSM true [x02] (Some ([x7f;x00;x00], 4242%Z)) None in
  let dec := fun p : list byte => match p with [x01] => Some m | [x02] => Some bad | _ => None end in
  discover_loop dec 1500 [[x01]; [x02]] [RxPkt 1 [x02; x09]; RxPkt 1 [x09]; RxPkt 1 [x01]; RxTimeout] []
    = Ok [([x7f;x00;x00;x01], 4242%Z)]
  /\ snd (parse_stun dec [x02]) = Err EInvalid
  /\ ip_port_to_addrport (v4_prefix ++ [x0a;x00;x00;x01]) 80 = Ok ([x0a;x00;x00;x01], 80%Z)
  /\ ip_port_to_addrport [x0a] 80 = Err EInvalid /\ ip_port_to_addrport [x0a;x00;x00;x01] 65536 = Err EInvalid.
Proof. vm_compute. repeat split. Qed.
