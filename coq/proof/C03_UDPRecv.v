(* C03, gap (a): the server and client datagram receive paths never panic, for every sequence of
   datagrams and every interleaving of the environment's actions. *)
From Hy Require Import model.C05_Frag proof.C05_Frag proof.C03_Defrag model.C03_UDPRecv.
From Coq Require Import ZArith Lia ZifyBool ZifyNat ZifyN.
Local Open Scope N_scope.

(* ---------- the parser only produces one-byte fragment ids and counts ---------- *)
Lemma parse_fields b m : parse b = Ok m -> fid m < 256 /\ fcount m < 256.
Proof.
  unfold parse. destruct (Nat.ltb (length b) 8); [discriminate|].
  destruct (varint_read (skipn 8 b)) as [[la bs]|]; [|discriminate].
  destruct ((la =? 0) || (MaxMessageLength <? la)); [discriminate|].
  destruct (Nat.leb (length bs) (N.to_nat la)); [discriminate|].
  intros [= <-]. cbn [fid fcount]. split; apply b2n_lt.
Qed.

Lemma parse_never_panics b : is_panic (parse b) = false.
Proof.
  unfold parse. destruct (Nat.ltb (length b) 8); [reflexivity|].
  destruct (varint_read (skipn 8 b)) as [[la bs]|]; [|reflexivity].
  destruct ((la =? 0) || (MaxMessageLength <? la)); [reflexivity|].
  destruct (Nat.leb (length bs) (N.to_nat la)); reflexivity.
Qed.

(* an accepted datagram yields a non-empty address of at most MaxMessageLength bytes and at
   least one byte of payload: nothing the later stages index can be empty *)
Lemma parse_bounds b m : parse b = Ok m ->
  (1 <= length (addr m))%nat /\ N.of_nat (length (addr m)) <= MaxMessageLength /\
  (1 <= length (data m))%nat /\ (length (addr m) + length (data m) < length b)%nat.
Proof.
  unfold parse. destruct (Nat.ltb (length b) 8) eqn:E8; [discriminate|].
  destruct (varint_read (skipn 8 b)) as [[la bs]|] eqn:Ev; [|discriminate].
  destruct ((la =? 0) || (MaxMessageLength <? la)) eqn:El; [discriminate|].
  destruct (Nat.leb (length bs) (N.to_nat la)) eqn:Eb; [discriminate|].
  intros [= <-]. cbn [addr data].
  apply Nat.leb_gt in Eb. apply Nat.ltb_ge in E8.
  rewrite firstn_length, skipn_length.
  assert (Hbs : (length bs < length (skipn 8 b))%nat).
  { destruct (skipn 8 b) as [|b0 r] eqn:Es; [discriminate Ev|].
    rewrite varint_read_cons in Ev. cbv zeta in Ev.
    destruct (Nat.ltb (length r) _); [discriminate|]. injection Ev as _ <-.
    rewrite skipn_length. simpl. lia. }
  rewrite skipn_length in Hbs. lia.
Qed.

(* ------------------------------------------------------------------ server *)

Definition sinv (t : stab) : Prop := Forall (fun p => dinv (se_d (snd p))) t.

Lemma sget_inv k t s : sinv t -> sget k t = Some s -> dinv (se_d s).
Proof.
  induction t as [|[k' s'] r IHr]; intros H E; [discriminate|].
  inversion H as [|? ? H1 H2]; subst. cbn [sget] in E.
  destruct (k =? k'); [injection E as <-; exact H1|exact (IHr H2 E)].
Qed.

Lemma sdel_inv k t : sinv t -> sinv (sdel k t).
Proof.
  induction t as [|[k' s'] r IH]; intros H; [constructor|].
  inversion H as [|? ? H1 H2]; subst. cbn [sdel].
  destruct (k =? k'); [exact (IH H2)|constructor; [exact H1|exact (IH H2)]].
Qed.

Lemma sset_inv k s t : sinv t -> dinv (se_d s) -> sinv (sset k s t).
Proof. intros H Hs. constructor; [exact Hs|now apply sdel_inv]. Qed.

Lemma srv_feed_ok t m dial_ok : sinv t -> fid m < 256 -> fcount m < 256 ->
  exists t' o, srv_feed t m dial_ok = Ok (t', o) /\ sinv t'.
Proof.
  intros Ht Hf Hc. unfold srv_feed.
  set (e := match sget (sid m) t with Some s => s | None => mkSess d_init false end).
  assert (He : dinv (se_d e)).
  { unfold e. destruct (sget (sid m) t) eqn:E; [eapply sget_inv; eauto|apply dinv_init]. }
  destruct (feed_any (se_d e) m He Hf Hc) as (d1 & o & E & Hd1). rewrite E. cbn [bind].
  destruct o as [df|].
  - destruct (se_conn e || dial_ok).
    + eexists _, _. split; [reflexivity|]. now apply sset_inv.
    + eexists _, _. split; [reflexivity|]. now apply sdel_inv.
  - eexists _, _. split; [reflexivity|]. now apply sset_inv.
Qed.

Lemma srv_reply_ok k pid from data tl : exists o, srv_reply k pid from data tl = Ok o.
Proof.
  unfold srv_reply. destruct (Nat.ltb _ _); [eauto|].
  destruct tl as [mx|]; [|eauto].
  destruct (frag_total (mkMsg k pid 0 1 from data) mx) as (fs & ->). cbn [bind]. eauto.
Qed.

Definition ssinv (s : sstate) : Prop := sinv (ss_tab s).

Lemma srv_step_ok s a : ssinv s -> exists s' o, srv_step s a = Ok (s', o) /\ ssinv s'.
Proof.
  intros Hs. unfold srv_step. destruct (ss_stopped s); [eauto|].
  destruct a as [b log_ok dial_ok|k|k pid from data tl|].
  - destruct (parse b) as [m|e|n] eqn:Ep.
    + destruct log_ok; [|eexists _, _; split; [reflexivity|constructor]].
      destruct (parse_fields b m Ep) as [Hf Hc].
      destruct (srv_feed_ok (ss_tab s) m dial_ok Hs Hf Hc) as (t' & o & E & Ht'). rewrite E.
      cbn [bind fst snd]. eauto.
    + eauto.
    + pose proof (parse_never_panics b) as H. rewrite Ep in H. discriminate.
  - eexists _, _. split; [reflexivity|]. now apply sdel_inv.
  - destruct (sget k (ss_tab s)) as [[d [|]]|]; eauto.
    destruct (srv_reply_ok k pid from data tl) as (o & ->). cbn [bind]. eauto.
  - eexists _, _. split; [reflexivity|constructor].
Qed.

Lemma srv_run_ok l : forall s, ssinv s -> exists s' outs, srv_run s l = Ok (s', outs) /\ ssinv s' /\ length outs = length l.
Proof.
  induction l as [|a t IH]; intros s Hs; [eexists _, _; split; [reflexivity|split; [assumption|reflexivity]]|].
  destruct (srv_step_ok s a Hs) as (s1 & o & E & H1).
  destruct (IH s1 H1) as (s2 & os & E2 & H2 & HL).
  cbn [srv_run]. rewrite E. cbn [bind fst snd]. rewrite E2. cbn [bind fst snd].
  eexists _, _. split; [reflexivity|]. split; [assumption|]. simpl. now rewrite HL.
Qed.

Lemma server_receive_never_panics : forall l,
  exists s' outs, srv_run ss_init l = Ok (s', outs) /\ length outs = length l.
Proof.
  intros l. destruct (srv_run_ok l ss_init) as (s' & outs & E & _ & HL); [constructor|]. eauto.
Qed.

(* ------------------------------------------------------------------ client *)

Definition mok (m : msg) : Prop := fid m < 256 /\ fcount m < 256.
Definition cok (c : cconn) : Prop := dinv (cc_d c) /\ Forall mok (cc_q c).

Definition cinv (s : cstate) : Prop :=
  (forall k h, mget k (cs_map s) = Some h ->
     exists c, nth_error (cs_conns s) h = Some c /\ cc_closed c = false /\ cc_id c = k) /\
  Forall cok (cs_conns s).

Lemma mget_mdel_same k t : mget k (mdel k t) = None.
Proof.
  induction t as [|[k' h] r IH]; [reflexivity|]. cbn [mdel].
  destruct (k =? k') eqn:E; [exact IH|]. cbn [mget]. now rewrite E.
Qed.

Lemma mget_mdel_other k k' t : k <> k' -> mget k (mdel k' t) = mget k t.
Proof.
  intros Hne. induction t as [|[k2 h] r IH]; [reflexivity|]. cbn [mdel mget].
  destruct (k' =? k2) eqn:E.
  - destruct (k =? k2) eqn:E2; [lia|exact IH].
  - cbn [mget]. now rewrite IH.
Qed.

Lemma Forall_upd {A} (P : A -> Prop) i x l : Forall P l -> P x -> Forall P (upd i x l).
Proof.
  revert i. induction l as [|h t IH]; intros i Hl Hx; [destruct i; constructor|].
  inversion Hl; subst. destruct i; cbn [upd]; constructor; auto.
Qed.

Lemma nth_error_Forall {A} (P : A -> Prop) l i x : Forall P l -> nth_error l i = Some x -> P x.
Proof. intros H E. rewrite Forall_forall in H. apply H. eapply nth_error_In; eauto. Qed.

(* replacing conn h by a conn with the same id and closed flag keeps the map part *)
Lemma map_part_upd s h c c2 :
  (forall k h', mget k (cs_map s) = Some h' ->
     exists c', nth_error (cs_conns s) h' = Some c' /\ cc_closed c' = false /\ cc_id c' = k) ->
  nth_error (cs_conns s) h = Some c -> cc_id c2 = cc_id c -> cc_closed c2 = cc_closed c ->
  forall k h', mget k (cs_map s) = Some h' ->
     exists c', nth_error (set_conn h c2 (cs_conns s)) h' = Some c' /\ cc_closed c' = false /\ cc_id c' = k.
Proof.
  intros Hm Ec Hid Hcl k h' E. destruct (Hm k h' E) as (c' & E' & Hc' & Hid').
  destruct (Nat.eq_dec h' h) as [->|Hne].
  - rewrite Ec in E'. injection E' as <-. exists c2. unfold set_conn.
    rewrite nth_error_upd_eq by (apply nth_error_Some; congruence).
    split; [reflexivity|]. split; congruence.
  - exists c'. unfold set_conn. rewrite nth_error_upd_neq by congruence. auto.
Qed.

Lemma c_close_ok s h : cinv s -> exists s', c_close s h = Ok s' /\ cinv s' /\ cs_closed s' = cs_closed s.
Proof.
  intros [Hm Hd]. unfold c_close.
  destruct (nth_error (cs_conns s) h) as [c|] eqn:Ec;
    [|exists s; split; [reflexivity|]; split; [split; assumption|reflexivity]].
  destruct (cc_closed c) eqn:Ecl;
    [exists s; split; [reflexivity|]; split; [split; assumption|reflexivity]|].
  eexists. split; [reflexivity|]. split; [|reflexivity]. split; cbn [cs_map cs_conns].
  - intros k h' E.
    destruct (N.eq_dec k (cc_id c)) as [->|Hne]; [now rewrite mget_mdel_same in E|].
    rewrite mget_mdel_other in E by exact Hne.
    destruct (Hm k h' E) as (c' & E' & Hc' & Hid).
    assert (h' <> h) by (intros ->; rewrite Ec in E'; injection E' as <-; congruence).
    exists c'. unfold set_conn. rewrite nth_error_upd_neq by congruence. auto.
  - apply Forall_upd; [exact Hd|]. exact (nth_error_Forall _ _ _ _ Hd Ec).
Qed.

Lemma c_close_all_ok hs : forall s, cinv s ->
  exists s', c_close_all s hs = Ok s' /\ cinv s' /\ cs_closed s' = cs_closed s.
Proof.
  induction hs as [|h t IH]; intros s Hs.
  - exists s. split; [reflexivity|]. split; [exact Hs|reflexivity].
  - destruct (c_close_ok s h Hs) as (s1 & E1 & H1 & C1). cbn [c_close_all]. rewrite E1. cbn [bind].
    destruct (IH s1 H1) as (s2 & E2 & H2 & C2). exists s2.
    split; [exact E2|]. split; [exact H2|congruence].
Qed.

Lemma cli_step_ok s a : cinv s -> exists s' o, cli_step s a = Ok (s', o) /\ cinv s'.
Proof.
  intros Hs. pose proof Hs as [Hm Hd]. unfold cli_step.
  destruct a as [b| |h|h|].
  - destruct (cs_closed s); [eauto|].
    destruct (parse b) as [m|e|n] eqn:Ep; [|eauto|].
    + destruct (mget (sid m) (cs_map s)) as [h|] eqn:Eg; [|eauto].
      destruct (Hm _ _ Eg) as (c & Ec & Hc & Hid). rewrite Ec, Hc.
      destruct (Nat.leb udpMessageChanSize (length (cc_q c))); [eauto|].
      eexists _, _. split; [reflexivity|]. split; cbn [cs_map cs_conns].
      * eapply map_part_upd; eauto.
      * apply Forall_upd; [exact Hd|]. destruct (nth_error_Forall _ _ _ _ Hd Ec) as [H1 H2].
        split; cbn [cc_d cc_q]; [exact H1|]. apply Forall_app. split; [exact H2|].
        constructor; [exact (parse_fields b m Ep)|constructor].
    + pose proof (parse_never_panics b) as H. rewrite Ep in H. discriminate.
  - destruct (cs_closed s); [eauto|].
    eexists _, _. split; [reflexivity|]. split; cbn [cs_map cs_conns].
    + intros k h E. cbn [mget] in E. destruct (k =? cs_next s) eqn:Ek.
      * injection E as <-. eexists. rewrite nth_error_app2 by lia. rewrite Nat.sub_diag.
        split; [reflexivity|]. cbn. split; [reflexivity|lia].
      * rewrite mget_mdel_other in E by lia.
        destruct (Hm k h E) as (c' & E' & Hc' & Hid'). exists c'.
        rewrite nth_error_app1 by (apply nth_error_Some; congruence). auto.
    + apply Forall_app. split; [exact Hd|].
      constructor; [split; [apply dinv_init|constructor]|constructor].
  - destruct (c_close_ok s h Hs) as (s1 & E1 & H1 & _). rewrite E1. cbn [bind]. eauto.
  - destruct (nth_error (cs_conns s) h) as [c|] eqn:Ec; [|eauto].
    destruct (cc_q c) as [|m q] eqn:Eq; [eauto|].
    destruct (nth_error_Forall _ _ _ _ Hd Ec) as [H1 H2]. rewrite Eq in H2.
    inversion H2 as [|? ? [Hf Hc] Hq]; subst.
    destruct (feed_any (cc_d c) m H1 Hf Hc) as (d1 & o & E & Hd1).
    rewrite E. cbn [bind]. eexists _, _. split; [reflexivity|]. split; cbn [cs_map cs_conns].
    + eapply map_part_upd; eauto.
    + apply Forall_upd; [exact Hd|]. split; cbn [cc_d cc_q]; assumption.
  - destruct (cs_closed s); [eauto|].
    destruct (c_close_all_ok (map snd (cs_map s)) s Hs) as (s1 & E1 & [Hm1 Hd1] & _).
    rewrite E1. cbn [bind]. eexists _, _. split; [reflexivity|]. split; assumption.
Qed.

Lemma cli_run_ok l : forall s, cinv s ->
  exists s' outs, cli_run s l = Ok (s', outs) /\ cinv s' /\ length outs = length l.
Proof.
  induction l as [|a t IH]; intros s Hs; [eexists _, _; split; [reflexivity|split; [assumption|reflexivity]]|].
  destruct (cli_step_ok s a Hs) as (s1 & o & E & H1).
  destruct (IH s1 H1) as (s2 & os & E2 & H2 & HL).
  cbn [cli_run]. rewrite E. cbn [bind fst snd]. rewrite E2. cbn [bind fst snd].
  eexists _, _. split; [reflexivity|]. split; [assumption|]. simpl. now rewrite HL.
Qed.

Lemma cinv_init : cinv cs_init.
Proof. split; [intros k h E; discriminate|constructor]. Qed.

Lemma client_receive_never_panics : forall l,
  exists s' outs, cli_run cs_init l = Ok (s', outs) /\ length outs = length l.
Proof.
  intros l. destruct (cli_run_ok l cs_init cinv_init) as (s' & outs & E & _ & HL). eauto.
Qed.

(* ---------- non-vacuity: a two-fragment message through the server path, then a hostile one ---------- *)
Example server_path_example :
  let f0 := [x00;x00;x00;x07; x00;x09; x00; x02; x01; x41; x61] in
  let f1 := [x00;x00;x00;x07; x00;x09; x01; x02; x01; x41; x62] in
  let bad := [x00;x00;x00;x07; x00;x09; xff; x02; x01; x41; x62] in
  exists s, srv_run ss_init [SDgram f0 true true; SDgram bad true true; SDgram [x01] true true; SDgram f1 true true]
    = Ok (s, [SOPending 7; SOPending 7; SODropped; SOWrite 7 [x41] [x61; x62]]).
Proof. vm_compute. eexists. reflexivity. Qed.

Example client_path_example :
  let f0 := [x00;x00;x00;x01; x00;x09; x00; x02; x01; x41; x61] in
  let f1 := [x00;x00;x00;x01; x00;x09; x01; x02; x01; x41; x62] in
  exists s, cli_run cs_init [CDgram f0; COpen; CDgram f0; CDgram f1; CReceive 0; CReceive 0; CClose 0; CDgram f0; CReceive 0]
    = Ok (s, [CODropped; COOpened 0 1; COQueued 0; COQueued 0; COMore; COData [x41] [x61; x62]; CONone; CODropped; COEof]).
Proof. vm_compute. eexists. reflexivity. Qed.
