(* C04 proofs, third part: the client's consumption of the response frame (model/C04_Client.v). *)
From Hy Require Import model.C04_Framing proof.C04_Framing model.C04_Client.
From Coq Require Import ZArith Lia ZifyBool ZifyNat ZifyN.
Local Open Scope N_scope.

(* ---------- TCP() and the first Read behind a success response ---------- *)
Lemma client_first_read_exact fo status wm wp msg pad payload post st n :
  b2n status = 0 ->
  fits wm (N.of_nat (length msg)) -> fits wp (N.of_nat (length pad)) ->
  N.of_nat (length msg) <= MaxMessageLength ->
  N.of_nat (length pad) <= MaxPaddingLength ->
  delivers (rs_script st) (response_frame status wm wp msg pad ++ payload) post ->
  exists st0 st1,
    client_tcp fo st = (Ok (TConn (negb fo)), st0) /\
    delivers (rs_script st1) payload post /\
    tcpconn_read (negb fo) n st0 =
      (Ok (RData (fst (fst (stream_read n st1))) (snd (fst (stream_read n st1))), true), snd (stream_read n st1)).
Proof.
  intros Hs Hwm Hwp Hm Hp Hd.
  destruct (response_read_exact status wm wp msg pad payload post st Hwm Hwp Hm Hp Hd) as (st' & R & D & _).
  rewrite Hs in R. change (0 =? 0) with true in R.
  destruct fo; cbn [negb].
  - exists st, st'. split; [reflexivity|]. split; [exact D|].
    unfold tcpconn_read. rewrite R. reflexivity.
  - exists st', st'. split; [unfold client_tcp; now rewrite R|]. split; [exact D|]. reflexivity.
Qed.

(* ---------- a failure response: DialError with the message, the payload stream untouched ---------- *)
Lemma client_dial_error_exact fo status wm wp msg pad payload post st n :
  b2n status <> 0 ->
  fits wm (N.of_nat (length msg)) -> fits wp (N.of_nat (length pad)) ->
  N.of_nat (length msg) <= MaxMessageLength ->
  N.of_nat (length pad) <= MaxPaddingLength ->
  delivers (rs_script st) (response_frame status wm wp msg pad ++ payload) post ->
  exists st1, delivers (rs_script st1) payload post /\
    (fo = true -> client_tcp fo st = (Ok (TConn false), st) /\ tcpconn_read false n st = (Ok (RDial msg, false), st1)) /\
    (fo = false -> client_tcp fo st = (Ok (TDial msg), st1)).
Proof.
  intros Hs Hwm Hwp Hm Hp Hd.
  destruct (response_read_exact status wm wp msg pad payload post st Hwm Hwp Hm Hp Hd) as (st' & R & D & _).
  apply N.eqb_neq in Hs. rewrite Hs in R.
  exists st'. split; [exact D|]. split; intros ->.
  - split; [reflexivity|]. unfold tcpconn_read. now rewrite R.
  - unfold client_tcp. now rewrite R.
Qed.

(* ---------- the application's Reads on an established connection drain the stream ---------- *)
Lemma last_pos (l : list nat) d :
  Forall (fun b => (1 <= b)%nat) l -> (1 <= d)%nat -> (1 <= last l d)%nat.
Proof.
  induction l as [|a l IH]; intros Hf Hd; [exact Hd|].
  inversion Hf as [|? ? Ha Hl]; subst. destruct l as [|a' l']; [exact Ha|].
  change (last (a :: a' :: l') d) with (last (a' :: l') d). now apply IH.
Qed.

Lemma buf_at_pos bufs i : Forall (fun b => (1 <= b)%nat) bufs -> (1 <= buf_at bufs i)%nat.
Proof.
  intros Hf. unfold buf_at.
  destruct (nth_in_or_default i bufs (last bufs (N.to_nat 4096))) as [H|H].
  - rewrite Forall_forall in Hf. now apply Hf.
  - rewrite H. apply last_pos; [exact Hf|]. change (N.to_nat 4096) with (Pos.to_nat 4096). lia.
Qed.

Lemma concat_rev_cons (bs : list byte) racc : concat (rev (bs :: racc)) = concat (rev racc) ++ bs.
Proof. cbn [rev]. rewrite concat_app. cbn [concat]. now rewrite app_nil_r. Qed.

Lemma app_reads_drain fuel : forall s i got racc c plen bufs,
  clean s -> Forall (fun b => (1 <= b)%nat) bufs ->
  (length (sdata s) + length s < fuel)%nat ->
  exists c', app_reads fuel i true true plen bufs got racc (mkRS s c) =
             (Ok (concat (rev racc) ++ sdata s, FErr EEof), mkRS [] c').
Proof.
  induction fuel as [|f IH]; intros s i got racc c plen bufs Hc Hb Hf; [lia|].
  cbn [app_reads orb]. unfold tcpconn_read, stream_read. cbn [rs_script rs_ctr].
  pose proof (buf_at_pos bufs i Hb) as Hn. set (n := buf_at bufs i) in *.
  destruct s as [|[bs oe] t].
  - cbn [read1 fst snd]. eexists. rewrite concat_rev_cons. reflexivity.
  - apply clean_cons in Hc as [-> Hc]. rewrite sdata_cons in *. cbn [read1].
    destruct (Nat.leb (length bs) n) eqn:E; cbn [fst snd].
    + destruct (IH t (S i) (got + length bs)%nat (bs :: racc) (tick n c) plen bufs Hc Hb) as (c' & R).
      { rewrite app_length in Hf. cbn [length] in Hf. lia. }
      exists c'. rewrite R, concat_rev_cons, <- app_assoc. reflexivity.
    + apply Nat.leb_gt in E.
      destruct (IH (Ev (skipn n bs) None :: t) (S i) (got + length (firstn n bs))%nat (firstn n bs :: racc)
                   (tick n c) plen bufs) as (c' & R).
      { apply clean_cons. now split. }
      { exact Hb. }
      { rewrite sdata_cons, !app_length in *. rewrite skipn_length. cbn [length] in *. lia. }
      exists c'. rewrite R, concat_rev_cons, sdata_cons, <- !app_assoc.
      rewrite (app_assoc (firstn n bs)), firstn_skipn. reflexivity.
Qed.

(* ---------- TCP() and all the application's Reads: exactly the payload, then io.EOF ---------- *)
Lemma app_reads_first f est fin plen bufs got racc st0 st1 :
  tcpconn_read est (buf_at bufs 0) st0 = tcpconn_read true (buf_at bufs 0) st1 ->
  app_reads (S f) 0 est fin plen bufs got racc st0 = app_reads (S f) 0 true fin plen bufs got racc st1.
Proof.
  intros H. cbn [app_reads].
  assert (C: fin || Nat.eqb 0 0 || Nat.ltb got plen = true) by (destruct fin; reflexivity).
  rewrite !C. now rewrite H.
Qed.

(* fuel only makes the application's loop total: from some amount on the result does not depend on it *)
Lemma client_session_exact fo wm wp status msg pad payload s bufs plen :
  b2n status = 0 ->
  fits wm (N.of_nat (length msg)) -> fits wp (N.of_nat (length pad)) ->
  N.of_nat (length msg) <= MaxMessageLength ->
  N.of_nat (length pad) <= MaxPaddingLength ->
  clean s -> sdata s = response_frame status wm wp msg pad ++ payload ->
  Forall (fun b => (1 <= b)%nat) bufs ->
  exists fuel0, forall fuel, (fuel0 <= fuel)%nat ->
    fst (client_session fo true plen bufs fuel (mkRS s ctr0)) = Ok (TConn (negb fo), (payload, FErr EEof)).
Proof.
  intros Hs Hwm Hwp Hm Hp Hc Hd Hb.
  destruct (client_first_read_exact fo status wm wp msg pad payload [] (mkRS s ctr0) (buf_at bufs 0)
              Hs Hwm Hwp Hm Hp (delivers_refl _ _ Hc Hd)) as (st0 & st1 & T & D & R).
  apply delivers_nil_post in D as [Hc1 Hd1].
  exists (S (S (length (sdata (rs_script st1)) + length (rs_script st1)))). intros fuel Hf.
  destruct fuel as [|f]; [lia|].
  unfold client_session. rewrite T.
  rewrite (app_reads_first f (negb fo) true plen bufs 0%nat [] st0 st1 R).
  destruct st1 as [s1 c1]. cbn [rs_script] in *.
  destruct (app_reads_drain (S f) s1 0%nat 0%nat [] c1 plen bufs Hc1 Hb ltac:(lia)) as (c' & E).
  rewrite E. cbn [fst rev concat app]. now rewrite Hd1.
Qed.

(* ---------- the theorems are not vacuous: a concrete session, byte-wise buffers, coalesced delivery ---------- *)
Example client_session_demo :
  let frame := response_frame x00 2 1 [x4f; x4b] [x61; x61; x61] in
  let payload := [x01; x02; x03; x04; x05] in
  (fst (client_session true true 5 [1%nat; 2%nat] 20 (mkRS [Chunk (frame ++ payload)] ctr0))
     = Ok (TConn false, (payload, FErr EEof))) /\
  (fst (client_session false true 5 [1%nat; 2%nat] 20 (mkRS [Chunk (frame ++ payload)] ctr0))
     = Ok (TConn true, (payload, FErr EEof))).
Proof. vm_compute. split; reflexivity. Qed.
