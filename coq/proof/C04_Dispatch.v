(* C04 proofs, second part: the dispatcher's Peek and the hijacker's Read decode the same varint, at every
   width; a dispatched request stream is decoded and exactly the trailing payload is left. *)
From Hy Require Import model.C04_Framing proof.C04_Framing model.C04_Dispatch.
From Coq Require Import ZArith Lia ZifyBool ZifyNat ZifyN.
Local Open Scope N_scope.

(* ---------- Peek hands out the next bytes of the stream ---------- *)
Lemma peek_pre pre : clean pre ->
  forall d t post, sdata pre = d ++ t -> peek_s (pre ++ post) (length d) = Ok d.
Proof.
  induction pre as [|[bs oe] p IH]; intros Hc d t post Hd.
  - destruct d; [|discriminate Hd]. destruct post; reflexivity.
  - apply clean_cons in Hc as [-> Hc]. rewrite sdata_cons in Hd.
    destruct d as [|d0 d'].
    + reflexivity.
    + remember (d0 :: d') as d eqn:Ed.
      assert (Hlen: length d = S (length d')) by (subst d; reflexivity).
      cbn [app peek_s]. rewrite Hlen. rewrite <- Hlen.
      destruct (Nat.leb (length d) (length bs)) eqn:E.
      * apply Nat.leb_le in E. symmetry in Hd.
        destruct (app_split_le _ _ _ _ Hd E) as (m & Hb & _).
        rewrite Hb. now rewrite firstn_app_exact.
      * apply Nat.leb_gt in E.
        destruct (app_split_le _ _ _ _ Hd ltac:(lia)) as (m & Hb & Hp).
        assert (Hm: (length d - length bs)%nat = length m) by (rewrite Hb, app_length; lia).
        rewrite Hm, (IH Hc m t post Hp). now rewrite Hb.
Qed.

Lemma peek_delivers s d t post :
  delivers s (d ++ t) post -> peek_s s (length d) = Ok d.
Proof. intros (pre & -> & Hc & Hd). exact (peek_pre pre Hc d t post Hd). Qed.

(* the first byte of an encoding announces its width *)
Lemma enc_w_shape w v : fits w v ->
  exists b0 tl, varint_enc_w w v = b0 :: tl /\ varint_width_of_first b0 = w /\ length tl = Nat.pred w.
Proof.
  intros [Hw Hv].
  pose proof (varint_enc_w_length w v) as L.
  pose proof (varint_read_enc_w w v [] Hw Hv) as R.
  destruct (varint_enc_w w v) as [|b0 tl] eqn:E.
  - simpl in L. subst w. discriminate Hw.
  - exists b0, tl. split; [reflexivity|].
    rewrite app_nil_r in R. rewrite varint_read_cons in R. cbv zeta in R.
    unfold varint_width_of_first.
    set (k := Nat.pred (N.to_nat (2 ^ (b2n b0 / 64)))) in *.
    destruct (Nat.ltb (length tl) k) eqn:E2; [discriminate R|]. apply Nat.ltb_ge in E2.
    injection R as _ R.
    assert (Hk: length (skipn k tl) = 0%nat) by now rewrite R.
    rewrite skipn_length in Hk. simpl in L.
    assert (Hpos: (1 <= N.to_nat (2 ^ (b2n b0 / 64)))%nat).
    { pose proof (N.pow_nonzero 2 (b2n b0 / 64) ltac:(lia)). lia. }
    unfold k in *. split; lia.
Qed.

(* quicvarint.Peek decodes the varint at the head of the stream, at every legal width, on partial data
   delivered in any chunking, and leaves the stream as it was *)
Lemma peek_varint_delivers s w v rest post :
  fits w v -> delivers s (varint_enc_w w v ++ rest) post -> peek_varint_s s = Ok v.
Proof.
  intros Hf Hd. pose proof Hf as [Hw Hv].
  destruct (enc_w_shape w v Hf) as (b0 & tl & E & W & Ltl).
  unfold peek_varint_s.
  assert (P1: peek_s s 1 = Ok [b0]).
  { rewrite E in Hd. change ((b0 :: tl) ++ rest) with ([b0] ++ (tl ++ rest)) in Hd.
    exact (peek_delivers s [b0] _ post Hd). }
  rewrite P1, W.
  pose proof (varint_read_enc_w w v [] Hw Hv) as R. rewrite app_nil_r in R.
  destruct (Nat.eqb w 1) eqn:E1.
  - apply Nat.eqb_eq in E1. rewrite E1 in *. simpl in Ltl. destruct tl; [|discriminate Ltl].
    rewrite E, varint_read_cons in R. cbv zeta in R. fold (varint_width_of_first b0) in R. rewrite W in R.
    cbn [Nat.pred length Nat.ltb Nat.leb firstn skipn be_dec] in R. injection R as R.
    f_equal. change (N.of_nat 0) with 0 in R. change (256 ^ 0) with 1 in R. lia.
  - assert (P2: peek_s s w = Ok (varint_enc_w w v)).
    { rewrite <- (varint_enc_w_length w v) at 1. exact (peek_delivers s _ rest post Hd). }
    rewrite P2, R. reflexivity.
Qed.

Lemma io_peek_varint_delivers st w v rest post :
  fits w v -> delivers (rs_script st) (varint_enc_w w v ++ rest) post -> io_peek_varint st = (Ok v, st).
Proof. intros Hf Hd. unfold io_peek_varint. now rewrite (peek_varint_delivers _ w v rest post Hf Hd). Qed.

(* ---------- dispatcher and hijacker agree on the bytes of the frame type ---------- *)
Lemma dispatcher_hijacker_agree w v rest post st :
  fits w v -> delivers (rs_script st) (varint_enc_w w v ++ rest) post ->
  io_peek_varint st = (Ok v, st) /\
  exists st', io_read_varint st = (Ok v, st') /\ delivers (rs_script st') rest post /\
              c_alloc (rs_ctr st') = c_alloc (rs_ctr st).
Proof.
  intros Hf Hd. split; [exact (io_peek_varint_delivers st w v rest post Hf Hd)|].
  destruct Hf as [Hw Hv].
  destruct (io_read_varint_delivers st _ _ _ post Hd (varint_read_enc_w w _ _ Hw Hv)) as (st1 & R1 & D1 & Q1).
  exists st1. split; [exact R1|]. split; [exact D1|]. now destruct Q1.
Qed.

(* ---------- the hijacker consumes the frame type at the width the peer chose, nothing else ---------- *)
Lemma server_read_exact_w wt wa wp addr pad trailing post st :
  fits wt FrameTypeTCPRequest ->
  fits wa (N.of_nat (length addr)) -> fits wp (N.of_nat (length pad)) ->
  1 <= N.of_nat (length addr) <= MaxAddressLength ->
  N.of_nat (length pad) <= MaxPaddingLength ->
  delivers (rs_script st) (varint_enc_w wt FrameTypeTCPRequest ++ request_frame wa wp addr pad ++ trailing) post ->
  exists st', server_read_request st = (Ok addr, st') /\ delivers (rs_script st') trailing post.
Proof.
  intros [Hwt Hvt] Hfa Hfp Ha Hp Hd. unfold server_read_request.
  destruct (io_read_varint_delivers st _ _ _ post Hd (varint_read_enc_w wt _ _ Hwt Hvt)) as (st1 & R1 & D1 & Q1).
  rewrite (io_bind_ok _ _ _ _ _ R1).
  destruct (request_read_exact wa wp addr pad trailing post st1 Hfa Hfp Ha Hp D1) as (st2 & R2 & D2 & _).
  exists st2. now split.
Qed.

(* the canonical two-byte form is the instance wt = 2 *)
Lemma frame_type_canonical : varint_enc_w 2 FrameTypeTCPRequest = [x44; x01] /\ fits 2 FrameTypeTCPRequest.
Proof. split; [reflexivity|]. split; [reflexivity|]. unfold FrameTypeTCPRequest. simpl. lia. Qed.

Lemma frame_type_fits_wide : fits 4 FrameTypeTCPRequest /\ fits 8 FrameTypeTCPRequest /\ ~ fits 1 FrameTypeTCPRequest.
Proof.
  unfold fits, FrameTypeTCPRequest. repeat split; try reflexivity; simpl; try lia.
Qed.

(* ---------- the whole path: dispatch, consume, parse ---------- *)
Lemma server_dispatch_exact wt wa wp addr pad trailing post st :
  fits wt FrameTypeTCPRequest ->
  fits wa (N.of_nat (length addr)) -> fits wp (N.of_nat (length pad)) ->
  1 <= N.of_nat (length addr) <= MaxAddressLength ->
  N.of_nat (length pad) <= MaxPaddingLength ->
  delivers (rs_script st) (varint_enc_w wt FrameTypeTCPRequest ++ request_frame wa wp addr pad ++ trailing) post ->
  exists st', server_dispatch st = (Ok (Some addr), st') /\ delivers (rs_script st') trailing post.
Proof.
  intros Hft Hfa Hfp Ha Hp Hd. unfold server_dispatch.
  rewrite (io_peek_varint_delivers st wt _ _ post Hft Hd). rewrite N.eqb_refl.
  destruct (server_read_exact_w wt wa wp addr pad trailing post st Hft Hfa Hfp Ha Hp Hd) as (st' & R & D).
  exists st'. split; [|exact D]. unfold io_bind. rewrite R. reflexivity.
Qed.

(* rejected length fields behind a frame type of any width: nothing is dialled (the result is the protocol
   error), the stream is left right behind the offending length field, only single-byte reads were made *)
Lemma server_dispatch_reject_addr wt w v rest post st :
  fits wt FrameTypeTCPRequest -> fits w v -> (v = 0 \/ MaxAddressLength < v) ->
  delivers (rs_script st) (varint_enc_w wt FrameTypeTCPRequest ++ varint_enc_w w v ++ rest) post ->
  exists st', server_dispatch st = (Err EInvalid, st') /\ delivers (rs_script st') rest post /\
              c_max (rs_ctr st') <= N.max (c_max (rs_ctr st)) 1 /\ c_alloc (rs_ctr st') = c_alloc (rs_ctr st).
Proof.
  intros Hft Hf Hbad Hd. unfold server_dispatch.
  rewrite (io_peek_varint_delivers st wt _ _ post Hft Hd). rewrite N.eqb_refl.
  destruct Hft as [Hwt Hvt].
  destruct (io_read_varint_delivers st _ _ _ post Hd (varint_read_enc_w wt _ _ Hwt Hvt)) as (st1 & R1 & D1 & Q1).
  destruct (request_reject_addr w v rest post st1 Hf Hbad D1) as (st2 & R2 & D2 & M2 & A2).
  exists st2. unfold io_bind at 1, server_read_request. rewrite (io_bind_ok _ _ _ _ _ R1), R2.
  split; [reflexivity|]. split; [exact D2|].
  destruct Q1 as (A1 & M1 & _). split; lia.
Qed.

(* any other frame type: not hijacked, and not one byte of the stream is consumed *)
Lemma server_dispatch_other w v rest post st :
  fits w v -> v <> FrameTypeTCPRequest ->
  delivers (rs_script st) (varint_enc_w w v ++ rest) post ->
  server_dispatch st = (Ok None, st).
Proof.
  intros Hf Hne Hd. unfold server_dispatch.
  rewrite (io_peek_varint_delivers st w v rest post Hf Hd).
  apply N.eqb_neq in Hne. now rewrite Hne.
Qed.

(* ---------- non-vacuity: 0x401 on 4 and 8 bytes, chunked inside the frame type ---------- *)
Definition dispatch_demo (wt : nat) : Res (option (list byte)) * list byte :=
  let stream := varint_enc_w wt FrameTypeTCPRequest ++ request_frame 4 8 [x61; x62; x63] [x70; x70] ++ [x7a] in
  let r := run_on server_dispatch [Chunk (firstn 3 stream); ZeroRead; Chunk (skipn 3 stream); ErrOther] in
  (fst r, sdata (rs_script (snd r))).

Example dispatch_wide_types :
  map dispatch_demo [2%nat; 4%nat; 8%nat] =
  let ok := (Ok (Some [x61; x62; x63]), [x7a]) in [ok; ok; ok].
Proof. vm_compute. reflexivity. Qed.
