(* C04 proofs, third part: an io.EOF that arrives in the very Read that delivers the last bytes of the
   stream (n > 0, io.EOF - what a QUIC stream does when the STREAM frame with the end of the data carries
   FIN) is indistinguishable, for the frame readers, from an io.EOF reported by the next Read.

   [soften s] turns the error of the LAST event of a script from io.EOF into "no error" (after which the
   exhausted script reads as io.EOF forever).  Every helper of lib/Reader.v returns the same result on s
   and on soften s and leaves scripts related in the same way; the counters differ (one more Read call
   may be made), so nothing is claimed about them.  The readers are compositions of the helpers. *)
From Hy Require Import model.C04_Framing proof.C04_Framing.
From Coq Require Import ZArith Lia ZifyBool ZifyNat ZifyN.
Local Open Scope N_scope.

Definition soften_ev (e : ev) : ev :=
  match e with Ev bs (Some EEof) => Ev bs None | _ => e end.

Fixpoint soften (s : script) : script :=
  match s with
  | [] => []
  | e :: t => match t with [] => [soften_ev e] | _ :: _ => e :: soften t end
  end.

Lemma soften_cons2 e e' t : soften (e :: e' :: t) = e :: soften (e' :: t).
Proof. reflexivity. Qed.

Lemma soften_length s : length (soften s) = length s.
Proof.
  induction s as [|e t IH]; [reflexivity|]. destruct t as [|e' t']; [reflexivity|].
  rewrite soften_cons2. simpl length in *. now rewrite IH.
Qed.

Lemma soften_app_last pre bs : soften (pre ++ [Ev bs (Some EEof)]) = pre ++ [Ev bs None].
Proof.
  induction pre as [|e p IH]; [reflexivity|].
  destruct p as [|e' p']; [reflexivity|].
  change ((e :: e' :: p') ++ [Ev bs (Some EEof)]) with (e :: e' :: (p' ++ [Ev bs (Some EEof)])).
  rewrite soften_cons2. cbn [app] in *. f_equal. exact IH.
Qed.

Lemma ev_data_soften e : ev_data (soften_ev e) = ev_data e.
Proof. destruct e as [bs [[]|]]; reflexivity. Qed.

Lemma sdata_soften s : sdata (soften s) = sdata s.
Proof.
  induction s as [|e t IH]; [reflexivity|]. destruct t as [|e' t'].
  - unfold sdata. cbn [soften map concat]. now rewrite ev_data_soften.
  - rewrite soften_cons2. destruct e as [bs oe]. rewrite !sdata_cons. now rewrite IH.
Qed.

(* ---------- byteReader.ReadByte ---------- *)
Lemma read_byte_soft s : forall c c',
  fst (fst (read_byte_s (soften s) c')) = fst (fst (read_byte_s s c)) /\
  snd (fst (read_byte_s (soften s) c')) = soften (snd (fst (read_byte_s s c))).
Proof.
  induction s as [|e t IH]; intros c c'; [split; reflexivity|].
  destruct t as [|e' t'].
  - destruct e as [[|b [|b1 bs]] [[]|]]; split; reflexivity.
  - rewrite soften_cons2. destruct e as [[|b [|b1 bs]] oe].
    + destruct oe as [e|].
      * split; reflexivity.
      * cbn [read_byte_s]. apply IH.
    + cbn [read_byte_s fst snd]. split; reflexivity.
    + cbn [read_byte_s fst snd]. split; [reflexivity|]. now rewrite soften_cons2.
Qed.

Lemma read_bytes_soft k : forall s c c',
  fst (fst (read_bytes_s k (soften s) c')) = fst (fst (read_bytes_s k s c)) /\
  snd (fst (read_bytes_s k (soften s) c')) = soften (snd (fst (read_bytes_s k s c))).
Proof.
  induction k as [|k IH]; intros s c c'; [split; reflexivity|].
  cbn [read_bytes_s].
  destruct (read_byte_soft s c c') as [R S].
  destruct (read_byte_s s c) as [[r1 s1] c1], (read_byte_s (soften s) c') as [[r2 s2] c2].
  cbn [fst snd] in R, S. subst r2 s2.
  destruct r1 as [b|e|p]; try (split; reflexivity).
  destruct (IH s1 c1 c2) as [R' S'].
  destruct (read_bytes_s k s1 c1) as [[r3 s3] c3], (read_bytes_s k (soften s1) c2) as [[r4 s4] c4].
  cbn [fst snd] in R', S'. subst r4 s4.
  destruct r3; split; reflexivity.
Qed.

Lemma read_varint_soft s c c' :
  fst (fst (read_varint_s (soften s) c')) = fst (fst (read_varint_s s c)) /\
  snd (fst (read_varint_s (soften s) c')) = soften (snd (fst (read_varint_s s c))).
Proof.
  unfold read_varint_s.
  destruct (read_byte_soft s c c') as [R S].
  destruct (read_byte_s s c) as [[r1 s1] c1], (read_byte_s (soften s) c') as [[r2 s2] c2].
  cbn [fst snd] in R, S. subst r2 s2.
  destruct r1 as [b|e|p]; try (split; reflexivity).
  destruct (read_bytes_soft (Nat.pred (varint_width_of_first b)) s1 c1 c2) as [R' S'].
  destruct (read_bytes_s _ s1 c1) as [[r3 s3] c3], (read_bytes_s _ (soften s1) c2) as [[r4 s4] c4].
  cbn [fst snd] in R', S'. subst r4 s4.
  destruct r3; split; reflexivity.
Qed.

(* ---------- io.ReadFull ---------- *)
Lemma read_full_soft s : forall need acc c c',
  fst (fst (read_full_s (soften s) need acc c')) = fst (fst (read_full_s s need acc c)) /\
  snd (fst (read_full_s (soften s) need acc c')) = soften (snd (fst (read_full_s s need acc c))).
Proof.
  induction s as [|e t IH]; intros need acc c c'.
  - destruct need; split; reflexivity.
  - destruct need as [|k]; [rewrite !read_full_s_0; split; reflexivity|].
    destruct t as [|e' t'].
    + destruct e as [bs oe]. cbn [soften].
      destruct oe as [[]|]; cbn [soften_ev read_full_s];
        (destruct (Nat.leb (length bs) (S k)) eqn:E; [|split; reflexivity]).
      all: try (destruct (Nat.eqb (length bs) (S k)); split; reflexivity).
      * (* data + io.EOF in the last event  vs  data, then the exhausted script *)
        apply Nat.leb_le in E.
        destruct (Nat.eqb (length bs) (S k)) eqn:E2.
        -- apply Nat.eqb_eq in E2. rewrite E2, Nat.sub_diag. split; reflexivity.
        -- apply Nat.eqb_neq in E2.
           destruct (S k - length bs)%nat as [|j] eqn:E3; [lia|]. split; reflexivity.
      * destruct (S k - length bs)%nat; split; reflexivity.
    + rewrite soften_cons2. destruct e as [bs oe]. cbn [read_full_s].
      destruct (Nat.leb (length bs) (S k)); [|split; [reflexivity|cbn [fst snd]; now rewrite soften_cons2]].
      destruct oe as [e|].
      * destruct (Nat.eqb (length bs) (S k)); split; reflexivity.
      * apply IH.
Qed.

(* ---------- io.CopyN to io.Discard ---------- *)
Lemma read1_soft_cons2 n e e' t :
  fst (read1 n (soften (e :: e' :: t))) = fst (read1 n (e :: e' :: t)) /\
  snd (read1 n (soften (e :: e' :: t))) = soften (snd (read1 n (e :: e' :: t))).
Proof.
  rewrite soften_cons2. destruct e as [bs oe]. cbn [read1].
  destruct (Nat.leb (length bs) n); cbn [fst snd]; split; reflexivity.
Qed.

Lemma copyn_f_soft fuel : forall s rem c c', (rem + length s <= fuel)%nat ->
  fst (fst (copyn_f fuel (soften s) rem c')) = fst (fst (copyn_f fuel s rem c)) /\
  snd (fst (copyn_f fuel (soften s) rem c')) = soften (snd (fst (copyn_f fuel s rem c))).
Proof.
  induction fuel as [|f IH]; intros s rem c c' Hf.
  - destruct rem; [|lia]. split; reflexivity.
  - destruct rem as [|r]; [split; reflexivity|].
    cbn [copyn_f]. cbv zeta.
    set (sz := Nat.min discard_buf (S r)).
    assert (Hsz: (1 <= sz <= S r)%nat) by (unfold sz, discard_buf; lia).
    destruct s as [|e t]; [split; reflexivity|].
    destruct t as [|e' t'].
    + (* the last event *)
      destruct e as [bs oe].
      assert (Hs: soften [Ev bs oe] = [soften_ev (Ev bs oe)]) by reflexivity. rewrite Hs.
      destruct (Nat.leb (length bs) sz) eqn:E.
      2: { (* the event is longer than this read *)
           assert (R1: read1 sz [soften_ev (Ev bs oe)] = ((firstn sz bs, None), soften [Ev (skipn sz bs) oe])).
           { destruct oe as [[]|]; cbn [soften_ev read1]; rewrite E; reflexivity. }
           assert (R2: read1 sz [Ev bs oe] = ((firstn sz bs, None), [Ev (skipn sz bs) oe])).
           { cbn [read1]. rewrite E. reflexivity. }
           rewrite R1, R2. cbn [fst snd]. apply IH.
           apply Nat.leb_gt in E. rewrite firstn_length. simpl length in *. lia. }
      destruct oe as [[]|]; cbn [soften_ev read1]; rewrite E; cbn [fst snd].
      all: try (destruct (Nat.eqb (S r - length bs) 0); split; reflexivity).
      * apply Nat.leb_le in E.
        destruct (Nat.eqb (S r - length bs) 0) eqn:E2.
        -- apply Nat.eqb_eq in E2. rewrite E2, copyn_f_0. split; reflexivity.
        -- apply Nat.eqb_neq in E2.
           destruct (S r - length bs)%nat as [|j] eqn:E3; [lia|].
           destruct f as [|f']; [simpl in Hf; lia|].
           cbn [copyn_f read1 fst snd length]. cbv zeta.
           replace (Nat.eqb (S j - 0) 0) with false by reflexivity. split; reflexivity.
      * apply (IH []). simpl length in *. lia.
    + destruct (read1_soft_cons2 sz e e' t') as [R1 R2].
      destruct (read1 sz (e :: e' :: t')) as [[bs oe] s1] eqn:E1.
      destruct (read1 sz (soften (e :: e' :: t'))) as [[bs2 oe2] s2].
      cbn [fst snd] in R1, R2 |- *. injection R1 as -> ->. subst s2.
      destruct oe as [e0|].
      * destruct (Nat.eqb (S r - length bs) 0); split; reflexivity.
      * apply IH.
        (* progress: an event was consumed or sz >= 1 bytes were taken *)
        pose proof (read1_progress sz (e :: e' :: t') ltac:(lia)) as P. rewrite E1 in P. cbn [fst snd] in P.
        destruct P as [P|[P|(P1 & P2 & _)]]; [|discriminate P|]; simpl length in *; lia.
Qed.

Lemma copyn_soft s n c c' :
  fst (fst (copyn (soften s) n c')) = fst (fst (copyn s n c)) /\
  snd (fst (copyn (soften s) n c')) = soften (snd (fst (copyn s n c))).
Proof. unfold copyn. rewrite soften_length. apply copyn_f_soft. lia. Qed.

(* ---------- the IO monad ---------- *)
Definition rel (st1 st2 : rstate) : Prop := rs_script st2 = soften (rs_script st1).

Definition resp {A} (m : IO A) : Prop :=
  forall st1 st2, rel st1 st2 -> fst (m st2) = fst (m st1) /\ rel (snd (m st1)) (snd (m st2)).

Lemma resp_ret {A} (a : A) : resp (io_ret a).
Proof. intros st1 st2 H. split; [reflexivity|exact H]. Qed.

Lemma resp_fail {A} e : resp (@io_fail A e).
Proof. intros st1 st2 H. split; [reflexivity|exact H]. Qed.

Lemma resp_bind {A B} (m : IO A) (f : A -> IO B) :
  resp m -> (forall a, resp (f a)) -> resp (io_bind m f).
Proof.
  intros Hm Hf st1 st2 H. unfold io_bind.
  destruct (Hm st1 st2 H) as [R S].
  destruct (m st1) as [r1 s1], (m st2) as [r2 s2]. cbn [fst snd] in R, S. subst r2.
  destruct r1 as [a|e|p]; [apply (Hf a s1 s2 S)|split; [reflexivity|exact S]..].
Qed.

Lemma resp_make site n : resp (io_make site n).
Proof.
  intros st1 st2 H. unfold io_make. destruct (n <=? go_make_limit); split; try reflexivity; exact H.
Qed.

Lemma resp_read_varint : resp io_read_varint.
Proof.
  intros [s1 c1] [s2 c2] H. unfold rel in H. cbn [rs_script] in H. subst s2.
  unfold io_read_varint, lift3, rel. cbn [fst snd rs_script rs_ctr].
  apply read_varint_soft.
Qed.

Lemma resp_read_full n : resp (io_read_full n).
Proof.
  intros [s1 c1] [s2 c2] H. unfold rel in H. cbn [rs_script] in H. subst s2.
  unfold io_read_full, lift3, rel. cbn [fst snd rs_script rs_ctr].
  apply read_full_soft.
Qed.

Lemma resp_copyn n : resp (io_copyn_discard n).
Proof.
  intros [s1 c1] [s2 c2] H. unfold rel in H. cbn [rs_script] in H. subst s2.
  unfold io_copyn_discard, lift3, rel. cbn [fst snd rs_script rs_ctr].
  apply copyn_soft.
Qed.

(* ---------- the frame readers ---------- *)
Lemma resp_read_padding {A} (a : A) : resp (read_padding a).
Proof.
  unfold read_padding. apply resp_bind; [apply resp_read_varint|]. intros v.
  destruct (MaxPaddingLength <? v); [apply resp_fail|].
  apply resp_bind; [|intros _; apply resp_ret].
  destruct (0 <? v); [apply resp_copyn|apply resp_ret].
Qed.

Lemma resp_read_tcp_request : resp read_tcp_request.
Proof.
  rewrite read_tcp_request_alt. apply resp_bind; [apply resp_read_varint|]. intros v.
  destruct ((v =? 0) || (MaxAddressLength <? v)); [apply resp_fail|].
  apply resp_bind; [apply resp_make|]. intros _.
  apply resp_bind; [apply resp_read_full|]. intros b. apply resp_read_padding.
Qed.

Lemma resp_read_tcp_response : resp read_tcp_response.
Proof.
  rewrite read_tcp_response_alt. apply resp_bind; [apply resp_read_full|]. intros status.
  apply resp_bind; [apply resp_read_varint|]. intros v.
  destruct (MaxMessageLength <? v); [apply resp_fail|].
  apply resp_bind.
  - destruct (0 <? v); [|apply resp_ret].
    apply resp_bind; [apply resp_make|]. intros _. apply resp_read_full.
  - intros b. apply resp_read_padding.
Qed.

Lemma resp_server_read_request : resp server_read_request.
Proof.
  unfold server_read_request. apply resp_bind; [apply resp_read_varint|]. intros _.
  apply resp_read_tcp_request.
Qed.

(* ---------- the statement ---------- *)
Lemma resp_final_eof {A} (m : IO A) : resp m -> forall pre bs,
  fst (run_on m (pre ++ [Ev bs (Some EEof)])) = fst (run_on m (pre ++ [Ev bs None])) /\
  sdata (rs_script (snd (run_on m (pre ++ [Ev bs (Some EEof)])))) =
  sdata (rs_script (snd (run_on m (pre ++ [Ev bs None])))).
Proof.
  intros Hm pre bs. unfold run_on.
  destruct (Hm (mkRS (pre ++ [Ev bs (Some EEof)]) ctr0) (mkRS (pre ++ [Ev bs None]) ctr0)) as [R S].
  { unfold rel. cbn [rs_script]. symmetry. apply soften_app_last. }
  split; [now symmetry|]. unfold rel in S. rewrite S. now rewrite sdata_soften.
Qed.

Lemma final_eof_coalesced : forall pre bs,
  (fst (run_on read_tcp_request (pre ++ [Ev bs (Some EEof)])) = fst (run_on read_tcp_request (pre ++ [Ev bs None])) /\
   sdata (rs_script (snd (run_on read_tcp_request (pre ++ [Ev bs (Some EEof)])))) =
   sdata (rs_script (snd (run_on read_tcp_request (pre ++ [Ev bs None]))))) /\
  (fst (run_on read_tcp_response (pre ++ [Ev bs (Some EEof)])) = fst (run_on read_tcp_response (pre ++ [Ev bs None])) /\
   sdata (rs_script (snd (run_on read_tcp_response (pre ++ [Ev bs (Some EEof)])))) =
   sdata (rs_script (snd (run_on read_tcp_response (pre ++ [Ev bs None]))))) /\
  (fst (run_on server_read_request (pre ++ [Ev bs (Some EEof)])) = fst (run_on server_read_request (pre ++ [Ev bs None])) /\
   sdata (rs_script (snd (run_on server_read_request (pre ++ [Ev bs (Some EEof)])))) =
   sdata (rs_script (snd (run_on server_read_request (pre ++ [Ev bs None]))))).
Proof.
  intros pre bs.
  split; [apply (resp_final_eof _ resp_read_tcp_request)|].
  split; [apply (resp_final_eof _ resp_read_tcp_response)|apply (resp_final_eof _ resp_server_read_request)].
Qed.

(* ---------- corollary: the round trip with FIN coalesced into the last read ----------
   The script is the written frame and a trailing payload, cut into reads in an arbitrary way, and the
   LAST read also reports io.EOF (FIN right behind the frame when trailing = []). *)
Lemma clean_app a b : clean a -> clean b -> clean (a ++ b).
Proof. unfold clean. intros Ha Hb. rewrite forallb_app. now rewrite Ha, Hb. Qed.

Lemma roundtrip_fin :
  (forall addr pad frame trailing pre bs,
     1 <= N.of_nat (length addr) <= MaxAddressLength ->
     drawable tcpRequestPaddingMin tcpRequestPaddingMax pad ->
     write_tcp_request addr pad = Ok frame ->
     clean pre -> sdata pre ++ bs = frame ++ trailing ->
     fst (run_on server_read_request (pre ++ [Ev bs (Some EEof)])) = Ok addr /\
     sdata (rs_script (snd (run_on server_read_request (pre ++ [Ev bs (Some EEof)])))) = trailing) /\
  (forall ok msg pad frame trailing pre bs,
     N.of_nat (length msg) <= MaxMessageLength ->
     drawable tcpResponsePaddingMin tcpResponsePaddingMax pad ->
     write_tcp_response ok msg pad = Ok frame ->
     clean pre -> sdata pre ++ bs = frame ++ trailing ->
     fst (run_on read_tcp_response (pre ++ [Ev bs (Some EEof)])) = Ok (ok, msg) /\
     sdata (rs_script (snd (run_on read_tcp_response (pre ++ [Ev bs (Some EEof)])))) = trailing).
Proof.
  split.
  - intros addr pad frame trailing pre bs Ha Hdr Hw Hc Hs.
    destruct (resp_final_eof _ resp_server_read_request pre bs) as [R S]. rewrite R, S.
    destruct (request_roundtrip_plain addr pad frame trailing (pre ++ [Ev bs None]) Ha Hdr Hw) as (st' & E & _ & D).
    + apply clean_app; [exact Hc|reflexivity].
    + rewrite sdata_app. unfold sdata at 2. cbn [map ev_data concat]. now rewrite app_nil_r.
    + rewrite E. now split.
  - intros ok msg pad frame trailing pre bs Hm Hdr Hw Hc Hs.
    destruct (resp_final_eof _ resp_read_tcp_response pre bs) as [R S]. rewrite R, S.
    destruct (response_roundtrip_plain ok msg pad frame trailing (pre ++ [Ev bs None]) Hm Hdr Hw) as (st' & E & _ & D).
    + apply clean_app; [exact Hc|reflexivity].
    + rewrite sdata_app. unfold sdata at 2. cbn [map ev_data concat]. now rewrite app_nil_r.
    + rewrite E. now split.
Qed.

(* non-vacuity: FIN with the last padding byte, with the last byte of a 4-byte padding-length varint
   (padding 0), byte-wise and in one read *)
Example fin_examples :
  let f1 := [x03; x61; x62; x63; x02; x70; x70] in              (* "abc", padding 2 *)
  let f2 := [x01; x61; x80; x00; x00; x00] in                  (* "a", padding 0 on 4 bytes *)
  fst (run_on read_tcp_request [Ev f1 (Some EEof)]) = Ok [x61; x62; x63] /\
  fst (run_on read_tcp_request [Chunk (firstn 6 f1); Ev (skipn 6 f1) (Some EEof)]) = Ok [x61; x62; x63] /\
  fst (run_on read_tcp_request [Chunk (firstn 5 f2); Ev (skipn 5 f2) (Some EEof)]) = Ok [x61] /\
  fst (run_on read_tcp_response [Ev (x00 :: f2) (Some EEof)]) = Ok (true, [x61]).
Proof. vm_compute. repeat split. Qed.
