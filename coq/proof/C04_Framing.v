(* C04 proofs: lemmas about the model of model/C04_Framing.v. *)
From Hy Require Import model.C04_Framing.
From Coq Require Import ZArith Lia ZifyBool ZifyNat ZifyN.
Local Open Scope N_scope.

(* ====================================================================== *)
(* Readers                                                                 *)
(* ====================================================================== *)

Lemma limits_below_make_limit : MaxAddressLength <= go_make_limit /\ MaxMessageLength <= go_make_limit.
Proof. unfold MaxAddressLength, MaxMessageLength, go_make_limit. split; lia. Qed.

(* the tail of both readers: padding length, limit check, discard *)
Definition read_padding {A} (a : A) : IO A :=
  paddingLen <~ io_read_varint ;;
  if MaxPaddingLength <? paddingLen then io_fail EInvalid else
  _ <~ (if 0 <? paddingLen then io_copyn_discard (N.to_nat paddingLen) else io_ret tt) ;;
  io_ret a.

Lemma read_padding_exact {A} (a : A) wp pad trailing post st :
  fits wp (N.of_nat (length pad)) -> N.of_nat (length pad) <= MaxPaddingLength ->
  delivers (rs_script st) (varint_enc_w wp (N.of_nat (length pad)) ++ pad ++ trailing) post ->
  exists st', read_padding a st = (Ok a, st') /\ delivers (rs_script st') trailing post /\
              c_alloc (rs_ctr st') = c_alloc (rs_ctr st).
Proof.
  intros [Hw Hv] Hp Hd. unfold read_padding.
  destruct (io_read_varint_delivers st _ _ _ post Hd (varint_read_enc_w wp _ _ Hw Hv)) as (st1 & R1 & D1 & Q1).
  rewrite (io_bind_ok _ _ _ _ _ R1).
  assert (E: MaxPaddingLength <? N.of_nat (length pad) = false) by (apply N.ltb_ge; exact Hp).
  rewrite E.
  destruct (0 <? N.of_nat (length pad)) eqn:E0.
  - rewrite Nat2N.id.
    destruct (io_copyn_delivers st1 pad trailing post D1) as (st2 & R2 & D2 & Q2).
    rewrite (io_bind_ok _ _ _ _ _ R2). exists st2. unfold io_ret.
    split; [reflexivity|]. split; [exact D2|]. destruct Q1 as [A1 _], Q2 as [A2 _]. congruence.
  - apply N.ltb_ge in E0. assert (pad = []) by (destruct pad; [reflexivity|simpl in E0; lia]). subst pad.
    exists st1. unfold io_bind, io_ret. split; [reflexivity|]. split; [exact D1|]. now destruct Q1.
Qed.

Lemma read_tcp_request_alt :
  read_tcp_request =
  (addrLen <~ io_read_varint ;;
   if (addrLen =? 0) || (MaxAddressLength <? addrLen) then io_fail EInvalid else
   _ <~ io_make 1 addrLen ;;
   addrBuf <~ io_read_full (N.to_nat addrLen) ;;
   read_padding addrBuf).
Proof. reflexivity. Qed.

Lemma read_tcp_response_alt :
  read_tcp_response =
  (status <~ io_read_full 1 ;;
   msgLen <~ io_read_varint ;;
   if MaxMessageLength <? msgLen then io_fail EInvalid else
   msgBuf <~ (if 0 <? msgLen
              then (_ <~ io_make 2 msgLen ;; io_read_full (N.to_nat msgLen))
              else io_ret []) ;;
   read_padding (b2n (hd x00 status) =? 0, msgBuf)).
Proof. reflexivity. Qed.

(* ---------- request: every width, every chunking, every trailing payload ---------- *)
Lemma request_read_exact wa wp addr pad trailing post st :
  fits wa (N.of_nat (length addr)) -> fits wp (N.of_nat (length pad)) ->
  1 <= N.of_nat (length addr) <= MaxAddressLength ->
  N.of_nat (length pad) <= MaxPaddingLength ->
  delivers (rs_script st) (request_frame wa wp addr pad ++ trailing) post ->
  exists st', read_tcp_request st = (Ok addr, st') /\ delivers (rs_script st') trailing post /\
              c_alloc (rs_ctr st') = c_alloc (rs_ctr st) + N.of_nat (length addr).
Proof.
  intros [Hwa Hva] Hfp [Ha1 Ha2] Hp Hd. rewrite read_tcp_request_alt.
  unfold request_frame in Hd. rewrite <- !app_assoc in Hd.
  destruct (io_read_varint_delivers st _ _ _ post Hd (varint_read_enc_w wa _ _ Hwa Hva)) as (st1 & R1 & D1 & Q1).
  rewrite (io_bind_ok _ _ _ _ _ R1).
  assert (E: (N.of_nat (length addr) =? 0) || (MaxAddressLength <? N.of_nat (length addr)) = false).
  { apply Bool.orb_false_iff. split; [apply N.eqb_neq; lia|apply N.ltb_ge; lia]. }
  rewrite E.
  rewrite (io_bind_ok _ _ _ _ _ (io_make_ok 1 (N.of_nat (length addr)) st1 ltac:(pose proof limits_below_make_limit; lia))).
  rewrite Nat2N.id.
  set (st1' := mkRS (rs_script st1) (charge (N.of_nat (length addr)) (rs_ctr st1))).
  destruct (io_read_full_delivers st1' addr _ post D1) as (st2 & R2 & D2 & Q2).
  rewrite (io_bind_ok _ _ _ _ _ R2).
  destruct (read_padding_exact addr wp pad trailing post st2 Hfp Hp D2) as (st3 & R3 & D3 & A3).
  exists st3. split; [exact R3|]. split; [exact D3|].
  destruct Q1 as [A1 _], Q2 as [A2 _]. rewrite A3, A2. unfold st1'. cbn [rs_ctr charge c_alloc]. lia.
Qed.

(* ---------- response ---------- *)
Lemma response_read_exact status wm wp msg pad trailing post st :
  fits wm (N.of_nat (length msg)) -> fits wp (N.of_nat (length pad)) ->
  N.of_nat (length msg) <= MaxMessageLength ->
  N.of_nat (length pad) <= MaxPaddingLength ->
  delivers (rs_script st) (response_frame status wm wp msg pad ++ trailing) post ->
  exists st', read_tcp_response st = (Ok (b2n status =? 0, msg), st') /\ delivers (rs_script st') trailing post /\
              c_alloc (rs_ctr st') = c_alloc (rs_ctr st) + N.of_nat (length msg).
Proof.
  intros [Hwm Hvm] Hfp Hm Hp Hd. rewrite read_tcp_response_alt.
  unfold response_frame in Hd. rewrite <- app_comm_cons in Hd. rewrite <- !app_assoc in Hd.
  change (status :: ?x) with ([status] ++ x) in Hd.
  destruct (io_read_full_delivers st [status] _ post Hd) as (st0 & R0 & D0 & Q0).
  change (length [status]) with 1%nat in R0.
  rewrite (io_bind_ok _ _ _ _ _ R0).
  destruct (io_read_varint_delivers st0 _ _ _ post D0 (varint_read_enc_w wm _ _ Hwm Hvm)) as (st1 & R1 & D1 & Q1).
  rewrite (io_bind_ok _ _ _ _ _ R1).
  assert (E: MaxMessageLength <? N.of_nat (length msg) = false) by (apply N.ltb_ge; exact Hm).
  rewrite E. cbn [hd].
  destruct (0 <? N.of_nat (length msg)) eqn:E0.
  - assert (Hmk: io_bind (io_make 2 (N.of_nat (length msg))) (fun _ => io_read_full (N.to_nat (N.of_nat (length msg)))) st1
                 = io_read_full (length msg) (mkRS (rs_script st1) (charge (N.of_nat (length msg)) (rs_ctr st1)))).
    { rewrite (io_bind_ok _ _ _ _ _ (io_make_ok 2 (N.of_nat (length msg)) st1 ltac:(pose proof limits_below_make_limit; lia))).
      now rewrite Nat2N.id. }
    set (st1' := mkRS (rs_script st1) (charge (N.of_nat (length msg)) (rs_ctr st1))) in *.
    destruct (io_read_full_delivers st1' msg _ post D1) as (st2 & R2 & D2 & Q2).
    rewrite <- Hmk in R2.
    rewrite (io_bind_ok _ _ _ _ _ R2).
    destruct (read_padding_exact (b2n status =? 0, msg) wp pad trailing post st2 Hfp Hp D2) as (st3 & R3 & D3 & A3).
    exists st3. split; [exact R3|]. split; [exact D3|].
    destruct Q0 as [A0 _], Q1 as [A1 _], Q2 as [A2 _]. rewrite A3, A2. unfold st1'. cbn [rs_ctr charge c_alloc]. lia.
  - apply N.ltb_ge in E0. assert (msg = []) by (destruct msg; [reflexivity|simpl in E0; lia]). subst msg.
    cbn [app] in D1.
    assert (Hr: io_bind (@io_ret (list byte) []) (fun msgBuf => read_padding (b2n status =? 0, msgBuf)) st1
                = read_padding (b2n status =? 0, []) st1) by reflexivity.
    rewrite Hr.
    destruct (read_padding_exact (b2n status =? 0, @nil byte) wp pad trailing post st1 Hfp Hp D1) as (st3 & R3 & D3 & A3).
    exists st3. split; [exact R3|]. split; [exact D3|].
    destruct Q0 as [A0 _], Q1 as [A1 _]. rewrite A3. simpl length. lia.
Qed.

(* ---------- rejection before the declared amount is read or allocated ---------- *)
Definition only_byte_reads (st st' : rstate) : Prop :=
  c_max (rs_ctr st') <= N.max (c_max (rs_ctr st)) 1 /\ c_alloc (rs_ctr st') = c_alloc (rs_ctr st).

Lemma request_reject_addr w v rest post st :
  fits w v -> (v = 0 \/ MaxAddressLength < v) ->
  delivers (rs_script st) (varint_enc_w w v ++ rest) post ->
  exists st', read_tcp_request st = (Err EInvalid, st') /\ delivers (rs_script st') rest post /\
              only_byte_reads st st'.
Proof.
  intros [Hw Hv] Hbad Hd. rewrite read_tcp_request_alt.
  destruct (io_read_varint_delivers st _ _ _ post Hd (varint_read_enc_w w _ _ Hw Hv)) as (st1 & R1 & D1 & Q1).
  rewrite (io_bind_ok _ _ _ _ _ R1).
  assert (E: (v =? 0) || (MaxAddressLength <? v) = true).
  { apply Bool.orb_true_iff. destruct Hbad; [left; apply N.eqb_eq|right; apply N.ltb_lt]; assumption. }
  rewrite E. exists st1. unfold io_fail. split; [reflexivity|]. split; [exact D1|].
  destruct Q1 as (A & M & _). split; assumption.
Qed.

Lemma read_padding_reject {A} (a : A) w v rest post st :
  fits w v -> MaxPaddingLength < v ->
  delivers (rs_script st) (varint_enc_w w v ++ rest) post ->
  exists st', read_padding a st = (Err EInvalid, st') /\ delivers (rs_script st') rest post /\
              only_byte_reads st st'.
Proof.
  intros [Hw Hv] Hbad Hd. unfold read_padding.
  destruct (io_read_varint_delivers st _ _ _ post Hd (varint_read_enc_w w _ _ Hw Hv)) as (st1 & R1 & D1 & Q1).
  rewrite (io_bind_ok _ _ _ _ _ R1).
  apply N.ltb_lt in Hbad. rewrite Hbad. exists st1. unfold io_fail. split; [reflexivity|]. split; [exact D1|].
  destruct Q1 as (A1 & M & _). split; assumption.
Qed.

Lemma request_reject_padding wa addr w v rest post st :
  fits wa (N.of_nat (length addr)) -> 1 <= N.of_nat (length addr) <= MaxAddressLength ->
  fits w v -> MaxPaddingLength < v ->
  delivers (rs_script st) (varint_enc_w wa (N.of_nat (length addr)) ++ addr ++ varint_enc_w w v ++ rest) post ->
  exists st', read_tcp_request st = (Err EInvalid, st') /\ delivers (rs_script st') rest post /\
              c_max (rs_ctr st') <= N.max (c_max (rs_ctr st)) (N.max 1 (N.of_nat (length addr))) /\
              c_alloc (rs_ctr st') = c_alloc (rs_ctr st) + N.of_nat (length addr).
Proof.
  intros [Hwa Hva] [Ha1 Ha2] Hf Hbad Hd. rewrite read_tcp_request_alt.
  destruct (io_read_varint_delivers st _ _ _ post Hd (varint_read_enc_w wa _ _ Hwa Hva)) as (st1 & R1 & D1 & Q1).
  rewrite (io_bind_ok _ _ _ _ _ R1).
  assert (E: (N.of_nat (length addr) =? 0) || (MaxAddressLength <? N.of_nat (length addr)) = false).
  { apply Bool.orb_false_iff. split; [apply N.eqb_neq; lia|apply N.ltb_ge; lia]. }
  rewrite E.
  rewrite (io_bind_ok _ _ _ _ _ (io_make_ok 1 (N.of_nat (length addr)) st1 ltac:(pose proof limits_below_make_limit; lia))).
  rewrite Nat2N.id.
  set (st1' := mkRS (rs_script st1) (charge (N.of_nat (length addr)) (rs_ctr st1))).
  destruct (io_read_full_delivers st1' addr _ post D1) as (st2 & R2 & D2 & Q2).
  rewrite (io_bind_ok _ _ _ _ _ R2).
  destruct (read_padding_reject addr w v rest post st2 Hf Hbad D2) as (st3 & R3 & D3 & M3 & A3).
  exists st3. split; [exact R3|]. split; [exact D3|].
  destruct Q1 as (A1 & M1 & _), Q2 as (A2 & M2 & _).
  unfold st1' in *. cbn [rs_ctr charge c_alloc c_max] in *. split; lia.
Qed.

Lemma response_reject_msg status w v rest post st :
  fits w v -> MaxMessageLength < v ->
  delivers (rs_script st) (status :: varint_enc_w w v ++ rest) post ->
  exists st', read_tcp_response st = (Err EInvalid, st') /\ delivers (rs_script st') rest post /\
              only_byte_reads st st'.
Proof.
  intros [Hw Hv] Hbad Hd. rewrite read_tcp_response_alt.
  change (status :: ?x) with ([status] ++ x) in Hd.
  destruct (io_read_full_delivers st [status] _ post Hd) as (st0 & R0 & D0 & Q0).
  change (length [status]) with 1%nat in R0, Q0.
  rewrite (io_bind_ok _ _ _ _ _ R0).
  destruct (io_read_varint_delivers st0 _ _ _ post D0 (varint_read_enc_w w _ _ Hw Hv)) as (st1 & R1 & D1 & Q1).
  rewrite (io_bind_ok _ _ _ _ _ R1).
  apply N.ltb_lt in Hbad. rewrite Hbad. exists st1. unfold io_fail. split; [reflexivity|]. split; [exact D1|].
  destruct Q0 as (A0 & M0 & _), Q1 as (A1 & M1 & _). change (N.of_nat 1) with 1 in M0. split; lia.
Qed.

Lemma response_reject_padding status wm msg w v rest post st :
  fits wm (N.of_nat (length msg)) -> N.of_nat (length msg) <= MaxMessageLength ->
  fits w v -> MaxPaddingLength < v ->
  delivers (rs_script st) (status :: varint_enc_w wm (N.of_nat (length msg)) ++ msg ++ varint_enc_w w v ++ rest) post ->
  exists st', read_tcp_response st = (Err EInvalid, st') /\ delivers (rs_script st') rest post /\
              c_max (rs_ctr st') <= N.max (c_max (rs_ctr st)) (N.max 1 (N.of_nat (length msg))) /\
              c_alloc (rs_ctr st') = c_alloc (rs_ctr st) + N.of_nat (length msg).
Proof.
  intros [Hwm Hvm] Hm Hf Hbad Hd. rewrite read_tcp_response_alt.
  change (status :: ?x) with ([status] ++ x) in Hd.
  destruct (io_read_full_delivers st [status] _ post Hd) as (st0 & R0 & D0 & Q0).
  change (length [status]) with 1%nat in R0, Q0.
  rewrite (io_bind_ok _ _ _ _ _ R0).
  destruct (io_read_varint_delivers st0 _ _ _ post D0 (varint_read_enc_w wm _ _ Hwm Hvm)) as (st1 & R1 & D1 & Q1).
  rewrite (io_bind_ok _ _ _ _ _ R1).
  assert (E: MaxMessageLength <? N.of_nat (length msg) = false) by (apply N.ltb_ge; exact Hm).
  rewrite E. cbn [hd].
  destruct Q0 as (A0 & M0 & _), Q1 as (A1 & M1 & _). change (N.of_nat 1) with 1 in M0.
  destruct (0 <? N.of_nat (length msg)) eqn:E0.
  - assert (Hmk: io_bind (io_make 2 (N.of_nat (length msg))) (fun _ => io_read_full (N.to_nat (N.of_nat (length msg)))) st1
                 = io_read_full (length msg) (mkRS (rs_script st1) (charge (N.of_nat (length msg)) (rs_ctr st1)))).
    { rewrite (io_bind_ok _ _ _ _ _ (io_make_ok 2 (N.of_nat (length msg)) st1 ltac:(pose proof limits_below_make_limit; lia))).
      now rewrite Nat2N.id. }
    set (st1' := mkRS (rs_script st1) (charge (N.of_nat (length msg)) (rs_ctr st1))) in *.
    destruct (io_read_full_delivers st1' msg _ post D1) as (st2 & R2 & D2 & Q2).
    rewrite <- Hmk in R2.
    rewrite (io_bind_ok _ _ _ _ _ R2).
    destruct (read_padding_reject (b2n status =? 0, msg) w v rest post st2 Hf Hbad D2) as (st3 & R3 & D3 & M3 & A3).
    exists st3. split; [exact R3|]. split; [exact D3|].
    destruct Q2 as (A2 & M2 & _). unfold st1' in *. cbn [rs_ctr charge c_alloc c_max] in *. split; lia.
  - apply N.ltb_ge in E0. assert (msg = []) by (destruct msg; [reflexivity|simpl in E0; lia]). subst msg.
    cbn [app] in D1.
    assert (Hr: io_bind (@io_ret (list byte) []) (fun msgBuf => read_padding (b2n status =? 0, msgBuf)) st1
                = read_padding (b2n status =? 0, []) st1) by reflexivity.
    rewrite Hr.
    destruct (read_padding_reject (b2n status =? 0, @nil byte) w v rest post st1 Hf Hbad D1) as (st3 & R3 & D3 & M3 & A3).
    exists st3. split; [exact R3|]. split; [exact D3|]. simpl length. split; lia.
Qed.

(* ---------- the readers never panic, on any script whatsoever ---------- *)
Lemma io_bind_never_panics {A B} (m : IO A) (f : A -> IO B) st :
  is_panic (fst (m st)) = false -> (forall a st', is_panic (fst (f a st')) = false) ->
  is_panic (fst (io_bind m f st)) = false.
Proof.
  intros Hm Hf. unfold io_bind. destruct (m st) as [[a|e|p] st']; cbn in *; [apply Hf|reflexivity|discriminate].
Qed.

Lemma read_padding_never_panics {A} (a : A) st : is_panic (fst (read_padding a st)) = false.
Proof.
  unfold read_padding. apply io_bind_never_panics; [apply io_read_varint_never_panics|].
  intros v st1. destruct (MaxPaddingLength <? v); [reflexivity|].
  apply io_bind_never_panics; [|reflexivity].
  destruct (0 <? v); [apply io_copyn_never_panics|reflexivity].
Qed.

Lemma io_make_never_panics site n st : n <= go_make_limit -> is_panic (fst (io_make site n st)) = false.
Proof. intros H. now rewrite io_make_ok. Qed.

Lemma read_tcp_request_never_panics st : is_panic (fst (read_tcp_request st)) = false.
Proof.
  rewrite read_tcp_request_alt. apply io_bind_never_panics; [apply io_read_varint_never_panics|].
  intros v st1. destruct ((v =? 0) || (MaxAddressLength <? v)) eqn:E; [reflexivity|].
  apply Bool.orb_false_iff in E as [_ E]. apply N.ltb_ge in E.
  apply io_bind_never_panics.
  - apply io_make_never_panics. pose proof limits_below_make_limit. lia.
  - intros _ st2. apply io_bind_never_panics; [apply io_read_full_never_panics|].
    intros b st3. apply read_padding_never_panics.
Qed.

Lemma read_tcp_response_never_panics st : is_panic (fst (read_tcp_response st)) = false.
Proof.
  rewrite read_tcp_response_alt. apply io_bind_never_panics; [apply io_read_full_never_panics|].
  intros s st0. apply io_bind_never_panics; [apply io_read_varint_never_panics|].
  intros v st1. destruct (MaxMessageLength <? v) eqn:E; [reflexivity|]. apply N.ltb_ge in E.
  apply io_bind_never_panics.
  - destruct (0 <? v); [|reflexivity]. apply io_bind_never_panics.
    + apply io_make_never_panics. pose proof limits_below_make_limit. lia.
    + intros _ st2. apply io_read_full_never_panics.
  - intros b st3. apply read_padding_never_panics.
Qed.

Lemma server_read_request_never_panics st : is_panic (fst (server_read_request st)) = false.
Proof.
  unfold server_read_request. apply io_bind_never_panics; [apply io_read_varint_never_panics|].
  intros _ st1. apply read_tcp_request_never_panics.
Qed.

(* accepted values respect the limits, on any script *)
Lemma io_read_full_length n st b st' : io_read_full n st = (Ok b, st') -> length b = n.
Proof.
  unfold io_read_full, lift3. intros H. injection H as H _.
  assert (G: forall s need acc c r, fst (fst (read_full_s s need acc c)) = Ok r -> length r = (length acc + need)%nat).
  { clear. induction s as [|[bs oe] t IH]; intros need acc c r H; destruct need as [|k].
    - cbn [read_full_s fst] in H. injection H as <-. lia.
    - cbn [read_full_s fst] in H. discriminate.
    - cbn [read_full_s fst] in H. injection H as <-. lia.
    - cbn [read_full_s] in H. destruct (Nat.leb (length bs) (S k)) eqn:E.
      + apply Nat.leb_le in E. destruct oe.
        * destruct (Nat.eqb (length bs) (S k)) eqn:E2; cbn [fst] in H; [|discriminate].
          injection H as <-. apply Nat.eqb_eq in E2. rewrite app_length. lia.
        * apply IH in H. rewrite app_length in H. lia.
      + apply Nat.leb_gt in E. cbn [fst] in H. injection H as <-.
        change (match bs with [] => [] | a :: l => a :: firstn k l end) with (firstn (S k) bs).
        rewrite app_length, firstn_length. lia. }
  apply G in H. simpl in H. exact H.
Qed.

Lemma read_tcp_request_bounded st addr st' :
  read_tcp_request st = (Ok addr, st') -> 1 <= N.of_nat (length addr) <= MaxAddressLength.
Proof.
  rewrite read_tcp_request_alt. unfold io_bind at 1.
  destruct (io_read_varint st) as [[v|e|p] st1]; try discriminate.
  destruct ((v =? 0) || (MaxAddressLength <? v)) eqn:E; [discriminate|].
  apply Bool.orb_false_iff in E as [E1 E2]. apply N.eqb_neq in E1. apply N.ltb_ge in E2.
  unfold io_bind at 1. destruct (io_make 1 v st1) as [[u|e|p] st2]; try discriminate.
  unfold io_bind at 1. destruct (io_read_full (N.to_nat v) st2) as [[b|e|p] st3] eqn:R; try discriminate.
  apply io_read_full_length in R.
  unfold read_padding, io_bind at 1. destruct (io_read_varint st3) as [[pl|e|p] st4]; try discriminate.
  destruct (MaxPaddingLength <? pl); [discriminate|].
  unfold io_bind. destruct ((if 0 <? pl then io_copyn_discard (N.to_nat pl) else io_ret tt) st4) as [[u'|e|p] st5]; try discriminate.
  unfold io_ret. intros H. injection H as <- _. lia.
Qed.

(* ---------- server: the frame type is consumed, nothing else ---------- *)
Lemma frame_type_bytes : varint_put FrameTypeTCPRequest = Some [x44; x01].
Proof. reflexivity. Qed.

Lemma server_read_exact wa wp addr pad trailing post st :
  fits wa (N.of_nat (length addr)) -> fits wp (N.of_nat (length pad)) ->
  1 <= N.of_nat (length addr) <= MaxAddressLength ->
  N.of_nat (length pad) <= MaxPaddingLength ->
  delivers (rs_script st) ([x44; x01] ++ request_frame wa wp addr pad ++ trailing) post ->
  exists st', server_read_request st = (Ok addr, st') /\ delivers (rs_script st') trailing post.
Proof.
  intros Hfa Hfp Ha Hp Hd. unfold server_read_request.
  destruct (io_read_varint_delivers st _ _ _ post Hd (varint_read_put _ _ _ frame_type_bytes)) as (st1 & R1 & D1 & Q1).
  rewrite (io_bind_ok _ _ _ _ _ R1).
  destruct (request_read_exact wa wp addr pad trailing post st1 Hfa Hfp Ha Hp D1) as (st2 & R2 & D2 & _).
  exists st2. now split.
Qed.

(* ====================================================================== *)
(* Writers                                                                 *)
(* ====================================================================== *)

Lemma land_small_pow2 x k : x < 2 ^ k -> N.land x (2 ^ k) = 0.
Proof.
  intros H. apply N.bits_inj. intros n. rewrite N.land_spec, N.pow2_bits_eqb, N.bits_0.
  destruct (N.eqb_spec k n) as [<-|_]; [|apply Bool.andb_false_r].
  rewrite <- (N.mod_small x (2 ^ k)) by exact H.
  now rewrite N.mod_pow2_bits_high by lia.
Qed.

Lemma lor_small_pow2 x k : x < 2 ^ k -> N.lor x (2 ^ k) = x + 2 ^ k.
Proof.
  intros H. pose proof (land_small_pow2 x k H) as L.
  now rewrite <- N.lxor_lor, <- N.add_nocarry_lxor.
Qed.

Lemma lor_64 x : x < 64 -> N.lor x 64 = x + 64.
Proof. apply (lor_small_pow2 x 6). Qed.
Lemma lor_128 x : x < 128 -> N.lor x 128 = x + 128.
Proof. apply (lor_small_pow2 x 7). Qed.
Lemma lor_192 x : x < 64 -> N.lor x 192 = x + 192.
Proof.
  intros H. change (N.lor x 192) with (N.lor x (N.lor 64 128)). rewrite N.lor_assoc, lor_64 by exact H.
  rewrite lor_128 by lia. lia.
Qed.

Lemma n2b_eq x y : x mod 256 = y mod 256 -> n2b x = n2b y.
Proof. intros H. now rewrite <- (n2b_mod x), <- (n2b_mod y), H. Qed.

(* varintPut stores exactly the minimal-width QUIC encoding *)
Lemma varintPut_bytes_spec v : varintPut_bytes v = varint_put v.
Proof.
  unfold varintPut_bytes, varint_put, varint_len, maxVarInt1, maxVarInt2, maxVarInt4, maxVarInt8, shr, u8.
  destruct (v <=? 63) eqn:E1.
  { f_equal. unfold varint_enc_w. cbn [be_enc width_tag]. f_equal. apply n2b_eq.
    change (N.of_nat 0) with 0. change (256 ^ 0) with 1. rewrite N.div_1_r. f_equal. lia. }
  destruct (v <=? 16383) eqn:E2.
  { f_equal. unfold varint_enc_w. cbn [be_enc width_tag].
    change (8 * N.of_nat 2 - 2) with 14. change (2 ^ 14) with 16384. change (2 ^ 8) with 256.
    change (N.of_nat 1) with 1. change (N.of_nat 0) with 0. change (256 ^ 1) with 256. change (256 ^ 0) with 1.
    rewrite N.div_1_r.
    assert (H1: (v / 256) mod 256 = v / 256) by lia. rewrite H1, lor_64 by lia.
    f_equal; [|f_equal]; apply n2b_eq; lia. }
  destruct (v <=? 1073741823) eqn:E3.
  { f_equal. unfold varint_enc_w. cbn [be_enc width_tag].
    change (8 * N.of_nat 4 - 2) with 30. change (2 ^ 30) with 1073741824.
    change (2 ^ 24) with 16777216. change (2 ^ 16) with 65536. change (2 ^ 8) with 256.
    change (N.of_nat 3) with 3. change (N.of_nat 2) with 2. change (N.of_nat 1) with 1. change (N.of_nat 0) with 0.
    change (256 ^ 3) with 16777216. change (256 ^ 2) with 65536. change (256 ^ 1) with 256. change (256 ^ 0) with 1.
    rewrite N.div_1_r.
    assert (H1: (v / 16777216) mod 256 = v / 16777216) by lia. rewrite H1, lor_128 by lia.
    repeat (f_equal; [apply n2b_eq; lia|]). f_equal. apply n2b_eq. lia. }
  destruct (v <=? 4611686018427387903) eqn:E4; [|reflexivity].
  { f_equal. unfold varint_enc_w. cbn [be_enc width_tag].
    change (8 * N.of_nat 8 - 2) with 62. change (2 ^ 62) with 4611686018427387904.
    change (2 ^ 56) with 72057594037927936. change (2 ^ 48) with 281474976710656.
    change (2 ^ 40) with 1099511627776. change (2 ^ 32) with 4294967296.
    change (2 ^ 24) with 16777216. change (2 ^ 16) with 65536. change (2 ^ 8) with 256.
    change (N.of_nat 7) with 7. change (N.of_nat 6) with 6. change (N.of_nat 5) with 5. change (N.of_nat 4) with 4.
    change (N.of_nat 3) with 3. change (N.of_nat 2) with 2. change (N.of_nat 1) with 1. change (N.of_nat 0) with 0.
    change (256 ^ 7) with 72057594037927936. change (256 ^ 6) with 281474976710656.
    change (256 ^ 5) with 1099511627776. change (256 ^ 4) with 4294967296.
    change (256 ^ 3) with 16777216. change (256 ^ 2) with 65536. change (256 ^ 1) with 256. change (256 ^ 0) with 1.
    rewrite N.div_1_r.
    assert (H1: (v / 72057594037927936) mod 256 = v / 72057594037927936) by lia. rewrite H1, lor_192 by lia.
    repeat (f_equal; [apply n2b_eq; lia|]). f_equal. apply n2b_eq. lia. }
Qed.

Lemma skipn_repeat {A} (x : A) n k : skipn n (repeat x (n + k)) = repeat x k.
Proof. induction n; simpl; auto. Qed.

Lemma varintPut_spec enc k v :
  varint_put v = Some enc ->
  varintPut (repeat x00 (length enc + k)) v = Ok (enc ++ repeat x00 k, length enc).
Proof.
  intros H. unfold varintPut. rewrite varintPut_bytes_spec, H, repeat_length.
  replace (Nat.leb (length enc) (length enc + k)) with true by (symmetry; apply Nat.leb_le; lia).
  now rewrite skipn_repeat.
Qed.

Lemma put_varint_at_spec w0 i enc k v :
  i = length w0 -> varint_put v = Some enc ->
  put_varint_at (w0 ++ repeat x00 (length enc + k)) i v = Ok (w0 ++ enc ++ repeat x00 k, length enc).
Proof.
  intros -> H. unfold put_varint_at, slice_from.
  replace (Nat.leb (length w0) (length (w0 ++ repeat x00 (length enc + k)))) with true
    by (symmetry; apply Nat.leb_le; rewrite app_length; lia).
  cbn [bind]. rewrite skipn_app_exact by reflexivity. rewrite (varintPut_spec enc k v H). cbn [bind fst snd].
  now rewrite firstn_app_exact by reflexivity.
Qed.

Lemma copy_at_spec w0 i src k :
  i = length w0 ->
  copy_at (w0 ++ repeat x00 (length src + k)) i src = Ok (w0 ++ src ++ repeat x00 k, length src).
Proof.
  intros ->. unfold copy_at, slice_from.
  replace (Nat.leb (length w0) (length (w0 ++ repeat x00 (length src + k)))) with true
    by (symmetry; apply Nat.leb_le; rewrite app_length; lia).
  cbn [bind]. rewrite skipn_app_exact by reflexivity. rewrite repeat_length.
  replace (Nat.min (length src + k) (length src)) with (length src) by lia.
  rewrite firstn_all, skipn_repeat. now rewrite firstn_app_exact by reflexivity.
Qed.

Definition minw (n : nat) : nat := match varint_len (N.of_nat n) with Some w => w | None => 8%nat end.

Lemma quic_len_ok n : N.of_nat n <= maxVarInt8 ->
  quic_len (N.of_nat n) = Ok (minw n) /\
  varint_put (N.of_nat n) = Some (varint_enc_w (minw n) (N.of_nat n)) /\
  fits (minw n) (N.of_nat n).
Proof.
  intros H. unfold quic_len, minw, varint_put, fits.
  destruct (varint_len (N.of_nat n)) as [w|] eqn:E.
  - repeat split; try reflexivity; now apply varint_len_bound in E.
  - exfalso. revert E. unfold varint_len, maxVarInt1, maxVarInt2, maxVarInt4, maxVarInt8 in *.
    repeat match goal with |- context[if ?c then _ else _] => destruct c eqn:? end; try discriminate. lia.
Qed.

Lemma write_tcp_request_exact addr pad :
  N.of_nat (length addr) <= maxVarInt8 -> N.of_nat (length pad) <= maxVarInt8 ->
  write_tcp_request addr pad =
  Ok ([x44; x01] ++ request_frame (minw (length addr)) (minw (length pad)) addr pad).
Proof.
  intros Ha Hp. unfold write_tcp_request, request_frame.
  destruct (quic_len_ok _ Ha) as (La & Pa & _). destruct (quic_len_ok _ Hp) as (Lp & Pp & _).
  change (quic_len FrameTypeTCPRequest) with (@Ok nat 2%nat). cbn [bind].
  rewrite La, Lp. cbn [bind].
  set (ea := varint_enc_w (minw (length addr)) (N.of_nat (length addr))) in *.
  set (ep := varint_enc_w (minw (length pad)) (N.of_nat (length pad))) in *.
  assert (Lea: length ea = minw (length addr)) by apply varint_enc_w_length.
  assert (Lep: length ep = minw (length pad)) by apply varint_enc_w_length.
  rewrite <- Lea, <- Lep.
  replace (2 + length ea + length addr + length ep + length pad)%nat
    with (length [x44; x01] + (length ea + (length addr + (length ep + (length pad + 0)))))%nat by (simpl; lia).
  rewrite (varintPut_spec [x44; x01] _ _ frame_type_bytes). cbn [bind fst snd].
  rewrite (put_varint_at_spec [x44; x01] _ ea) by (first [exact Pa|exact Pp|exact Pm|(rewrite ?app_length; simpl; lia)]). cbn [bind fst snd].
  replace ([x44; x01] ++ ea ++ repeat x00 (length addr + (length ep + (length pad + 0))))
    with (([x44; x01] ++ ea) ++ repeat x00 (length addr + (length ep + (length pad + 0)))) by now rewrite <- app_assoc.
  rewrite (copy_at_spec ([x44; x01] ++ ea) _ addr) by (first [exact Pa|exact Pp|exact Pm|(rewrite ?app_length; simpl; lia)]). cbn [bind fst snd].
  replace (([x44; x01] ++ ea) ++ addr ++ repeat x00 (length ep + (length pad + 0)))
    with ((([x44; x01] ++ ea) ++ addr) ++ repeat x00 (length ep + (length pad + 0))) by now rewrite <- !app_assoc.
  rewrite (put_varint_at_spec (([x44; x01] ++ ea) ++ addr) _ ep) by (first [exact Pa|exact Pp|exact Pm|(rewrite ?app_length; simpl; lia)]).
  cbn [bind fst snd].
  replace ((([x44; x01] ++ ea) ++ addr) ++ ep ++ repeat x00 (length pad + 0))
    with (((([x44; x01] ++ ea) ++ addr) ++ ep) ++ repeat x00 (length pad + 0)) by now rewrite <- !app_assoc.
  rewrite (copy_at_spec ((([x44; x01] ++ ea) ++ addr) ++ ep) _ pad 0) by (first [exact Pa|exact Pp|exact Pm|(rewrite ?app_length; simpl; lia)]).
  cbn [bind fst snd repeat]. f_equal. rewrite app_nil_r, <- !app_assoc. reflexivity.
Qed.

Lemma write_tcp_response_exact ok msg pad :
  N.of_nat (length msg) <= maxVarInt8 -> N.of_nat (length pad) <= maxVarInt8 ->
  write_tcp_response ok msg pad =
  Ok (response_frame (if ok then x00 else x01) (minw (length msg)) (minw (length pad)) msg pad).
Proof.
  intros Hm Hp. unfold write_tcp_response, response_frame.
  destruct (quic_len_ok _ Hm) as (Lm & Pm & _). destruct (quic_len_ok _ Hp) as (Lp & Pp & _).
  rewrite Lm, Lp. cbn [bind].
  set (em := varint_enc_w (minw (length msg)) (N.of_nat (length msg))) in *.
  set (ep := varint_enc_w (minw (length pad)) (N.of_nat (length pad))) in *.
  assert (Lem: length em = minw (length msg)) by apply varint_enc_w_length.
  assert (Lep: length ep = minw (length pad)) by apply varint_enc_w_length.
  rewrite <- Lem, <- Lep.
  set (s := if ok then x00 else x01).
  replace (1 + length em + length msg + length ep + length pad)%nat
    with (S (length em + (length msg + (length ep + (length pad + 0)))))%nat by lia.
  cbn [repeat skipn].
  change (s :: repeat x00 (length em + (length msg + (length ep + (length pad + 0)))))
    with ([s] ++ repeat x00 (length em + (length msg + (length ep + (length pad + 0))))).
  rewrite (put_varint_at_spec [s] _ em) by (first [exact Pa|exact Pp|exact Pm|(rewrite ?app_length; simpl; lia)]). cbn [bind fst snd].
  replace ([s] ++ em ++ repeat x00 (length msg + (length ep + (length pad + 0))))
    with (([s] ++ em) ++ repeat x00 (length msg + (length ep + (length pad + 0)))) by now rewrite <- app_assoc.
  rewrite (copy_at_spec ([s] ++ em) _ msg) by (first [exact Pa|exact Pp|exact Pm|(rewrite ?app_length; simpl; lia)]). cbn [bind fst snd].
  replace (([s] ++ em) ++ msg ++ repeat x00 (length ep + (length pad + 0)))
    with ((([s] ++ em) ++ msg) ++ repeat x00 (length ep + (length pad + 0))) by now rewrite <- !app_assoc.
  rewrite (put_varint_at_spec (([s] ++ em) ++ msg) _ ep) by (first [exact Pa|exact Pp|exact Pm|(rewrite ?app_length; simpl; lia)]).
  cbn [bind fst snd].
  replace ((([s] ++ em) ++ msg) ++ ep ++ repeat x00 (length pad + 0))
    with (((([s] ++ em) ++ msg) ++ ep) ++ repeat x00 (length pad + 0)) by now rewrite <- !app_assoc.
  rewrite (copy_at_spec ((([s] ++ em) ++ msg) ++ ep) _ pad 0) by (first [exact Pa|exact Pp|exact Pm|(rewrite ?app_length; simpl; lia)]).
  cbn [bind fst snd repeat]. f_equal. rewrite app_nil_r, <- !app_assoc. reflexivity.
Qed.

(* ---------- the writers' padding ranges fit the readers' limit ---------- *)
Lemma writer_fits_reader :
  (0 < tcpRequestPaddingMax - tcpRequestPaddingMin)%Z /\ (0 <= tcpRequestPaddingMin)%Z /\
  (0 < tcpResponsePaddingMax - tcpResponsePaddingMin)%Z /\ (0 <= tcpResponsePaddingMin)%Z /\
  (forall pad, drawable tcpRequestPaddingMin tcpRequestPaddingMax pad ->
               N.of_nat (length pad) <= MaxPaddingLength) /\
  (forall pad, drawable tcpResponsePaddingMin tcpResponsePaddingMax pad ->
               N.of_nat (length pad) <= MaxPaddingLength).
Proof.
  unfold drawable, tcpRequestPaddingMax, tcpRequestPaddingMin, tcpResponsePaddingMax,
    tcpResponsePaddingMin, MaxPaddingLength.
  repeat split; try lia; intros pad [H _]; lia.
Qed.

(* ====================================================================== *)
(* End to end: what a writer produces, a reader returns                     *)
(* ====================================================================== *)

Lemma limits_fit_varint : MaxAddressLength <= maxVarInt8 /\ MaxMessageLength <= maxVarInt8 /\ MaxPaddingLength <= maxVarInt8.
Proof. unfold MaxAddressLength, MaxMessageLength, MaxPaddingLength, maxVarInt8. lia. Qed.

Lemma request_roundtrip addr pad frame trailing post st :
  1 <= N.of_nat (length addr) <= MaxAddressLength ->
  drawable tcpRequestPaddingMin tcpRequestPaddingMax pad ->
  write_tcp_request addr pad = Ok frame ->
  delivers (rs_script st) (frame ++ trailing) post ->
  exists st', server_read_request st = (Ok addr, st') /\ delivers (rs_script st') trailing post.
Proof.
  intros Ha Hdr Hw Hd.
  destruct writer_fits_reader as (_ & _ & _ & _ & Hp & _). specialize (Hp pad Hdr).
  pose proof limits_fit_varint as (L1 & L2 & L3).
  rewrite write_tcp_request_exact in Hw by lia. injection Hw as <-.
  destruct (quic_len_ok (length addr) ltac:(lia)) as (_ & _ & Fa).
  destruct (quic_len_ok (length pad) ltac:(lia)) as (_ & _ & Fp).
  exact (server_read_exact _ _ addr pad trailing post st Fa Fp Ha Hp Hd).
Qed.

Lemma response_roundtrip ok msg pad frame trailing post st :
  N.of_nat (length msg) <= MaxMessageLength ->
  drawable tcpResponsePaddingMin tcpResponsePaddingMax pad ->
  write_tcp_response ok msg pad = Ok frame ->
  delivers (rs_script st) (frame ++ trailing) post ->
  exists st', read_tcp_response st = (Ok (ok, msg), st') /\ delivers (rs_script st') trailing post.
Proof.
  intros Hm Hdr Hw Hd.
  destruct writer_fits_reader as (_ & _ & _ & _ & _ & Hp). specialize (Hp pad Hdr).
  pose proof limits_fit_varint as (L1 & L2 & L3).
  rewrite write_tcp_response_exact in Hw by lia. injection Hw as <-.
  destruct (quic_len_ok (length msg) ltac:(lia)) as (_ & _ & Fm).
  destruct (quic_len_ok (length pad) ltac:(lia)) as (_ & _ & Fp).
  destruct (response_read_exact _ _ _ msg pad trailing post st Fm Fp Hm Hp Hd) as (st' & R & D & _).
  exists st'. split; [|exact D]. rewrite R. now destruct ok.
Qed.

(* the writers never panic for any value whose length a Go slice can have (< 2^62) *)
Lemma writers_never_panic addr pad :
  N.of_nat (length addr) <= maxVarInt8 -> N.of_nat (length pad) <= maxVarInt8 ->
  is_panic (write_tcp_request addr pad) = false /\
  forall ok, is_panic (write_tcp_response ok addr pad) = false.
Proof.
  intros Ha Hp. split; [now rewrite write_tcp_request_exact|]. intros ok. now rewrite write_tcp_response_exact.
Qed.

(* varintPut as the writers use it (value below 2^62, buffer large enough): no panic, minimal
   encoding stored at the front, rest of the buffer untouched, and quicvarint reads the value back *)
Lemma legal_width_le8 w : legal_width w = true -> (w <= 8)%nat.
Proof. destruct w as [|[|[|[|[|[|[|[|[|w]]]]]]]]]; simpl; intros H; try discriminate; lia. Qed.

Lemma varintPut_as_used v b : v <= maxVarInt8 -> (8 <= length b)%nat ->
  exists enc, varintPut b v = Ok (enc ++ skipn (length enc) b, length enc) /\ (length enc <= 8)%nat /\
              forall r, varint_read (enc ++ r) = Some (v, r).
Proof.
  intros Hv Hb. rewrite <- (N2Nat.id v) in Hv.
  destruct (quic_len_ok _ Hv) as (_ & P & F). rewrite N2Nat.id in P, F.
  set (enc := varint_enc_w (minw (N.to_nat v)) v) in *. exists enc.
  assert (L: (length enc <= 8)%nat).
  { unfold enc. rewrite varint_enc_w_length. apply legal_width_le8. apply F. }
  unfold varintPut. rewrite varintPut_bytes_spec, P.
  replace (Nat.leb (length enc) (length b)) with true by (symmetry; apply Nat.leb_le; lia).
  split; [reflexivity|]. split; [exact L|]. intros r. now apply varint_read_put.
Qed.

(* plain form of the round trip: the script is nothing but the frame and the trailing payload,
   cut into reads in an arbitrary way *)
Lemma request_roundtrip_plain addr pad frame trailing s :
  1 <= N.of_nat (length addr) <= MaxAddressLength ->
  drawable tcpRequestPaddingMin tcpRequestPaddingMax pad ->
  write_tcp_request addr pad = Ok frame ->
  clean s -> sdata s = frame ++ trailing ->
  exists st', run_on server_read_request s = (Ok addr, st') /\
              clean (rs_script st') /\ sdata (rs_script st') = trailing.
Proof.
  intros Ha Hdr Hw Hc Hs.
  destruct (request_roundtrip addr pad frame trailing [] (mkRS s ctr0) Ha Hdr Hw (delivers_refl _ _ Hc Hs))
    as (st' & R & D).
  exists st'. split; [exact R|]. now apply delivers_nil_post.
Qed.

Lemma response_roundtrip_plain ok msg pad frame trailing s :
  N.of_nat (length msg) <= MaxMessageLength ->
  drawable tcpResponsePaddingMin tcpResponsePaddingMax pad ->
  write_tcp_response ok msg pad = Ok frame ->
  clean s -> sdata s = frame ++ trailing ->
  exists st', run_on read_tcp_response s = (Ok (ok, msg), st') /\
              clean (rs_script st') /\ sdata (rs_script st') = trailing.
Proof.
  intros Hm Hdr Hw Hc Hs.
  destruct (response_roundtrip ok msg pad frame trailing [] (mkRS s ctr0) Hm Hdr Hw (delivers_refl _ _ Hc Hs))
    as (st' & R & D).
  exists st'. split; [exact R|]. now apply delivers_nil_post.
Qed.

Lemma readers_never_panic st :
  is_panic (fst (read_tcp_request st)) = false /\
  is_panic (fst (read_tcp_response st)) = false /\
  is_panic (fst (server_read_request st)) = false.
Proof.
  split; [apply read_tcp_request_never_panics|].
  split; [apply read_tcp_response_never_panics|apply server_read_request_never_panics].
Qed.

Lemma writers_exact addr pad :
  N.of_nat (length addr) <= maxVarInt8 -> N.of_nat (length pad) <= maxVarInt8 ->
  write_tcp_request addr pad =
    Ok ([x44; x01] ++ request_frame (minw (length addr)) (minw (length pad)) addr pad) /\
  (forall ok, write_tcp_response ok addr pad =
    Ok (response_frame (if ok then x00 else x01) (minw (length addr)) (minw (length pad)) addr pad)) /\
  fits (minw (length addr)) (N.of_nat (length addr)) /\ fits (minw (length pad)) (N.of_nat (length pad)).
Proof.
  intros Ha Hp. split; [now apply write_tcp_request_exact|].
  split; [intros ok; now apply write_tcp_response_exact|].
  split; [apply (quic_len_ok _ Ha)|apply (quic_len_ok _ Hp)].
Qed.

(* ---------- non-vacuity at the boundary values ---------- *)
Definition bytes_n (n : N) : list byte := repeat x61 (N.to_nat n).

Example boundary_frames_read_back :
  forallb (fun lp =>
    match write_tcp_request (bytes_n (fst lp)) (bytes_n (snd lp)) with
    | Ok f =>
        let r := run_on server_read_request [Chunk (firstn 3 f); ZeroRead; Chunk (skipn 3 f ++ [x7a])] in
        match fst r with
        | Ok a => Nat.eqb (length a) (N.to_nat (fst lp)) && Nat.eqb (length (sdata (rs_script (snd r)))) 1
        | _ => false
        end
    | _ => false
    end) [(1, 64); (63, 511); (64, 64); (2048, 100); (16, 63); (2048, 4096)] = true.
Proof. vm_compute. reflexivity. Qed.

Example boundary_frames_rejected :
  forallb (fun lw =>
    let r := run_on read_tcp_request [Chunk (varint_enc_w (snd lw) (fst lw) ++ bytes_n 50)] in
    match fst r with
    | Err EInvalid => (c_max (rs_ctr (snd r)) =? 1) && (c_alloc (rs_ctr (snd r)) =? 0)
                      && Nat.eqb (length (sdata (rs_script (snd r)))) 50
    | _ => false
    end) [(0, 1%nat); (0, 8%nat); (2049, 2%nat); (2049, 4%nat); (16384, 4%nat); (4611686018427387903, 8%nat)] = true.
Proof. vm_compute. reflexivity. Qed.

(* the hypotheses of the round-trip theorems are satisfiable: a 2048-byte address, the longest
   padding the request writer can draw, a chunked script with a zero-length read, one trailing
   byte and an error afterwards *)
Lemma drawableb_spec a b p : drawableb a b p = true -> drawable a b p.
Proof.
  unfold drawableb, drawable. intros H. apply andb_true_iff in H as [H H3]. apply andb_true_iff in H as [H1 H2].
  split; [lia|]. apply Forall_forall. intros x Hx. rewrite forallb_forall in H3. specialize (H3 x Hx).
  apply existsb_exists in H3 as (y & Hy & E). apply N.eqb_eq in E. now rewrite E.
Qed.

Example roundtrip_hypotheses_satisfiable :
  let addr := bytes_n 2048 in let pad := bytes_n 511 in
  exists frame,
    write_tcp_request addr pad = Ok frame /\
    1 <= N.of_nat (length addr) <= MaxAddressLength /\
    drawable tcpRequestPaddingMin tcpRequestPaddingMax pad /\
    delivers [Chunk (firstn 3 frame); ZeroRead; Chunk (skipn 3 frame ++ [x7a]); ErrOther]
             (frame ++ [x7a]) [ErrOther].
Proof.
  cbv zeta. destruct (write_tcp_request (bytes_n 2048) (bytes_n 511)) as [frame|e|p] eqn:E;
    [|vm_compute in E; discriminate..].
  exists frame. split; [reflexivity|]. split; [vm_compute; split; discriminate|].
  split; [apply drawableb_spec; vm_compute; reflexivity|].
  exists [Chunk (firstn 3 frame); ZeroRead; Chunk (skipn 3 frame ++ [x7a])].
  split; [reflexivity|]. split; [reflexivity|].
  unfold sdata. cbn [map ev_data concat app]. rewrite app_nil_r, app_assoc. now rewrite firstn_skipn.
Qed.
