(* C05 proofs: FragUDPMessage / Defragger.Feed / UDPMessage wire format (model/C05_Frag.v).
   The lemmas at the end carry exactly the statements of props/C05.v. *)
From Hy Require Import model.C05_Frag.
From Coq Require Import ZArith Lia ZifyBool ZifyNat ZifyN.
Ltac Zify.zify_post_hook ::= Z.div_mod_to_equations.
Local Open Scope nat_scope.

(* ------------------------------------------------------------------ *)
(* 1. list helpers                                                     *)
(* ------------------------------------------------------------------ *)

Lemma upd_length {A} i (x : A) l : length (upd i x l) = length l.
Proof. revert i; induction l as [|h t IH]; intros [|i]; simpl; auto. Qed.

Lemma upd_app {A} (pre : list A) x r0 rest :
  upd (length pre) x (pre ++ r0 :: rest) = pre ++ x :: rest.
Proof. induction pre as [|h t IH]; simpl; [reflexivity | now rewrite IH]. Qed.

Lemma nth_error_upd_eq {A} i (x : A) l : i < length l -> nth_error (upd i x l) i = Some x.
Proof.
  revert i; induction l as [|h t IH]; intros [|i] H; simpl in *; try lia; auto.
  apply IH; lia.
Qed.

Lemma nth_error_upd_neq {A} i j (x : A) l : i <> j -> nth_error (upd i x l) j = nth_error l j.
Proof.
  revert i j; induction l as [|h t IH]; intros [|i] [|j] H; simpl; auto; try congruence.
Qed.

Lemma nth_error_repeat_lt {A} (x : A) n i : i < n -> nth_error (repeat x n) i = Some x.
Proof.
  revert i; induction n as [|n IH]; intros [|i] H; simpl; try lia; auto. apply IH; lia.
Qed.

Lemma nth_error_repeat_inv {A} (x y : A) n i : nth_error (repeat x n) i = Some y -> y = x.
Proof. intros H. apply nth_error_In in H. now apply repeat_spec in H. Qed.

(* ------------------------------------------------------------------ *)
(* 2. the splitter                                                     *)
(* ------------------------------------------------------------------ *)

Fixpoint mk (m : msg) (cnt : N) (i : nat) (cs : list (list byte)) : list msg :=
  match cs with
  | [] => []
  | c :: t => set_frag m (N.of_nat i) cnt c :: mk m cnt (S i) t
  end.

Lemma mk_length m cnt i cs : length (mk m cnt i cs) = length cs.
Proof. revert i; induction cs as [|c t IH]; intros i; simpl; auto. Qed.

Lemma mk_data m cnt i cs : map data (mk m cnt i cs) = cs.
Proof. revert i; induction cs as [|c t IH]; intros i; simpl; auto. now rewrite IH. Qed.

Lemma mk_nth m cnt i cs j f : nth_error (mk m cnt i cs) j = Some f ->
  exists c, nth_error cs j = Some c /\ f = set_frag m (N.of_nat (i + j)) cnt c.
Proof.
  revert i j; induction cs as [|c t IH]; intros i [|j] H; simpl in *; try discriminate.
  - injection H as <-. exists c. split; auto. now rewrite Nat.add_0_r.
  - apply IH in H as (c' & H1 & H2). exists c'. split; auto.
    now replace (i + S j) with (S i + j) by lia.
Qed.

Lemma chunks_nil fuel mp : chunks fuel mp [] = [].
Proof. destruct fuel; reflexivity. Qed.

Lemma chunks_concat mp : 1 <= mp -> forall fuel d, length d <= fuel -> concat (chunks fuel mp d) = d.
Proof.
  intros Hmp. induction fuel as [|f IH]; intros d Hd.
  - destruct d; simpl in *; [reflexivity|lia].
  - destruct d as [|x d']; [reflexivity|].
    cbn [chunks concat]. rewrite IH.
    + apply firstn_skipn.
    + rewrite skipn_length. simpl length in *. lia.
Qed.

Lemma chunks_Forall mp : 1 <= mp -> forall fuel d,
  Forall (fun c => c <> [] /\ length c <= mp) (chunks fuel mp d).
Proof.
  intros Hmp. induction fuel as [|f IH]; intros d; [constructor|].
  destruct d as [|x d']; [constructor|].
  cbn [chunks]. constructor; [|apply IH].
  split; [|apply firstn_le_length].
  destruct mp as [|mp']; [lia|]. simpl. discriminate.
Qed.

Lemma chunks_length mp : 1 <= mp -> forall fuel d, length d <= fuel -> d <> [] ->
  length (chunks fuel mp d) = (length d - 1) / mp + 1.
Proof.
  intros Hmp. induction fuel as [|f IH]; intros d Hd Hne.
  - destruct d; simpl in *; [congruence|lia].
  - destruct d as [|x d']; [congruence|].
    cbn [chunks].
    assert (Hd1 : 1 <= length (x :: d')) by (simpl; lia).
    remember (x :: d') as d eqn:Ed.
    assert (Hsl : length (skipn mp d) = length d - mp) by apply skipn_length.
    cbn [length].
    destruct (skipn mp d) as [|y r] eqn:Es.
    + rewrite chunks_nil. cbn [length] in Hsl.
      rewrite Nat.div_small; [reflexivity|]. lia.
    + rewrite IH; [| rewrite Hsl; lia | discriminate].
      rewrite Hsl. cbn [length] in Hsl.
      replace (length d - 1) with ((length d - mp - 1) + 1 * mp) by lia.
      rewrite Nat.div_add by lia. lia.
Qed.

Lemma ceil_eq len mp : 1 <= mp -> 1 <= len -> (len + mp - 1) / mp = (len - 1) / mp + 1.
Proof.
  intros Hmp Hl. replace (len + mp - 1) with ((len - 1) + 1 * mp) by lia.
  now rewrite Nat.div_add by lia.
Qed.

Lemma frag_loop_spec m mp cnt : 1 <= mp -> forall fuel d pre rest,
  length d <= fuel ->
  length (chunks fuel mp d) <= length rest ->
  length pre + length (chunks fuel mp d) <= 255 ->
  frag_loop fuel m mp cnt d (N.of_nat (length pre)) (pre ++ rest) =
  Ok (pre ++ mk m cnt (length pre) (chunks fuel mp d) ++ skipn (length (chunks fuel mp d)) rest).
Proof.
  intros Hmp. induction fuel as [|f IH]; intros d pre rest Hd Hr Hb.
  - reflexivity.
  - destruct d as [|x d']; [reflexivity|].
    cbn [frag_loop chunks mk length] in *.
    destruct rest as [|r0 rest']; [simpl in Hr; lia|].
    rewrite Nat2N.id.
    replace (length pre <? length (pre ++ r0 :: rest')) with true
      by (symmetry; apply Nat.ltb_lt; rewrite app_length; simpl; lia).
    rewrite upd_app.
    set (fr := set_frag m (N.of_nat (length pre)) cnt (firstn mp (x :: d'))).
    replace ((N.of_nat (length pre) + 1) mod 256)%N with (N.of_nat (length (pre ++ [fr])))
      by (rewrite app_length; simpl; lia).
    replace (pre ++ fr :: rest') with ((pre ++ [fr]) ++ rest')
      by (rewrite <- app_assoc; reflexivity).
    simpl length in Hr.
    rewrite IH.
    + rewrite app_length. cbn [length]. rewrite Nat.add_1_r.
      rewrite <- app_assoc. reflexivity.
    + rewrite skipn_length. cbn [length]. lia.
    + lia.
    + rewrite app_length. simpl. lia.
Qed.

(* what a split looks like, as the reassembler needs it *)
Definition is_split (m : msg) (fs : list msg) : Prop :=
  2 <= length fs <= 255 /\
  concat (map data fs) = data m /\
  forall i f, nth_error fs i = Some f ->
     sid f = sid m /\ pid f = pid m /\ addr f = addr m /\
     fid f = N.of_nat i /\ fcount f = N.of_nat (length fs) /\ data f <> [] /\
     length (data f) <= size m - header_size m /\ header_size f = header_size m.

(* the three outcomes of frag, with the arithmetic of each *)
Lemma frag_cases m max :
  ((Z.of_nat (size m) <= max)%Z /\ frag m max = Ok [m]) \/
  ((Z.of_nat (size m) > max)%Z /\ (max - Z.of_nat (header_size m) <= 0)%Z /\ frag m max = Ok []) \/
  ((Z.of_nat (size m) > max)%Z /\ (0 < max - Z.of_nat (header_size m))%Z /\
   exists mp, Z.of_nat mp = (max - Z.of_nat (header_size m))%Z /\
     let cs := chunks (length (data m)) mp (data m) in
     2 <= length cs /\ length cs = (length (data m) - 1) / mp + 1 /\
     Forall (fun c => c <> [] /\ length c <= mp) cs /\
     concat cs = data m /\
     ((255 < length cs /\ frag m max = Ok []) \/
      (length cs <= 255 /\ frag m max = Ok (mk m (N.of_nat (length cs)) 0 cs)))).
Proof.
  unfold frag.
  destruct (Z.leb_spec (Z.of_nat (size m)) max) as [H1|H1]; [left; auto|right].
  destruct (Z.leb_spec (max - Z.of_nat (header_size m)) 0) as [H2|H2]; [left; split; [lia|auto]|right].
  split; [lia|]. split; [lia|].
  set (mp := Z.to_nat (max - Z.of_nat (header_size m))).
  exists mp. split; [unfold mp; lia|].
  assert (Hmp : 1 <= mp) by (unfold mp; lia).
  assert (Hlen : mp < length (data m)) by (unfold size in H1; unfold mp; lia).
  assert (Hne : data m <> []) by (intros E; rewrite E in Hlen; simpl in Hlen; lia).
  pose proof (chunks_length mp Hmp (length (data m)) (data m) (le_n _) Hne) as Hcl.
  cbv zeta. set (cs := chunks (length (data m)) mp (data m)) in *.
  rewrite ceil_eq by lia.
  split.
  { rewrite Hcl. assert (1 <= (length (data m) - 1) / mp); [|lia].
    apply Nat.div_le_lower_bound; lia. }
  split; [exact Hcl|].
  split; [apply chunks_Forall; exact Hmp|].
  split; [apply chunks_concat; auto|].
  rewrite <- Hcl.
  destruct (Nat.ltb_spec 255 (length cs)) as [H3|H3]; [left; auto|right].
  split; [exact H3|].
  pose proof (frag_loop_spec m mp (N.of_nat (length cs)) Hmp (length (data m)) (data m) []
                (repeat (mkMsg 0 0 0 0 [] []) (length cs))) as HL.
  cbn [length app] in HL. fold cs in HL. rewrite repeat_length in HL.
  change (N.of_nat 0) with 0%N in HL.
  rewrite HL by lia.
  rewrite skipn_all2 by (rewrite repeat_length; lia).
  now rewrite app_nil_r.
Qed.

Lemma header_size_set_frag m i c d : header_size (set_frag m i c d) = header_size m.
Proof. reflexivity. Qed.

Lemma mk_is_split m mp cs :
  2 <= length cs <= 255 -> concat cs = data m ->
  Forall (fun c => c <> [] /\ length c <= mp) cs ->
  mp <= length (data m) ->
  is_split m (mk m (N.of_nat (length cs)) 0 cs).
Proof.
  intros Hn Hc Hf Hmp. unfold is_split. rewrite mk_length, mk_data.
  split; [exact Hn|]. split; [exact Hc|].
  intros i f Hi. apply mk_nth in Hi as (c & Hci & ->). cbn.
  rewrite Forall_forall in Hf. destruct (Hf c (nth_error_In _ _ Hci)) as [Hne Hle].
  repeat split; auto. unfold size. lia.
Qed.

Lemma frag_split_cases m max fs : frag m max = Ok fs ->
  ((Z.of_nat (size m) <= max)%Z /\ fs = [m]) \/
  ((Z.of_nat (size m) > max)%Z /\ fs = []) \/
  ((Z.of_nat (size m) > max)%Z /\ is_split m fs /\
   Forall (fun f => (Z.of_nat (size f) <= max)%Z) fs).
Proof.
  intros H.
  destruct (frag_cases m max) as [[H1 E]|[(H1 & H2 & E)|(H1 & H2 & mp & Hmp & H3)]].
  - left. split; auto. congruence.
  - right; left. split; auto. congruence.
  - right. cbv zeta in H3. destruct H3 as (Hn & Hl & Hf & Hc & [[H4 E]|[H4 E]]).
    + left. split; auto. congruence.
    + right. rewrite E in H. injection H as <-. split; auto.
      assert (Hmpl : mp <= length (data m)) by (unfold size in H1; lia).
      split; [apply (mk_is_split m mp); auto|].
      apply Forall_forall. intros f Hin. apply In_nth_error in Hin as [i Hi].
      apply mk_nth in Hi as (c & Hci & ->).
      rewrite Forall_forall in Hf. destruct (Hf c (nth_error_In _ _ Hci)) as [_ Hle].
      unfold size. rewrite header_size_set_frag. cbn [data set_frag]. lia.
Qed.

(* ------------------------------------------------------------------ *)
(* 3. the reassembler                                                  *)
(* ------------------------------------------------------------------ *)

Definition is_some (o : option msg) : bool := match o with Some _ => true | None => false end.

Fixpoint nsome (l : list (option msg)) : nat :=
  match l with [] => 0 | o :: t => (if is_some o then 1 else 0) + nsome t end.

Definition tlen (l : list (option msg)) : nat := length (concat (map opt_data l)).

Lemma nsome_le l : nsome l <= length l.
Proof. induction l as [|[g|] t IH]; simpl; lia. Qed.

Lemma nsome_full l : nsome l = length l <-> forallb is_some l = true.
Proof.
  induction l as [|[g|] t IH]; simpl.
  - tauto.
  - rewrite <- IH. lia.
  - pose proof (nsome_le t). split; [lia|discriminate].
Qed.

Lemma forallb_filled l : forallb is_some l = true <->
  forall j, j < length l -> exists g, nth_error l j = Some (Some g).
Proof.
  rewrite forallb_forall. split.
  - intros H j Hj. destruct (nth_error l j) as [o|] eqn:E.
    + apply nth_error_In in E as Hin. apply H in Hin. destruct o; [eauto|discriminate].
    + apply nth_error_None in E. lia.
  - intros H o Hin. apply In_nth_error in Hin as [j Hj].
    assert (Hlt : j < length l) by (apply nth_error_Some; congruence).
    destruct (H j Hlt) as [g Hg]. rewrite Hj in Hg. injection Hg as ->. reflexivity.
Qed.

Lemma upd_nsome i f l : nth_error l i = Some None -> nsome (upd i (Some f) l) = S (nsome l).
Proof.
  revert i; induction l as [|o t IH]; intros [|i] H; simpl in *; try discriminate.
  - injection H as ->. reflexivity.
  - rewrite IH by exact H. lia.
Qed.

Lemma upd_tlen i f l : nth_error l i = Some None ->
  tlen (upd i (Some f) l) = tlen l + length (data f).
Proof.
  unfold tlen. revert i; induction l as [|o t IH]; intros [|i] H; simpl in *; try discriminate.
  - injection H as ->. simpl. rewrite app_length. lia.
  - rewrite !app_length, IH by exact H. lia.
Qed.

Lemma nsome_repeat n : nsome (repeat None n) = 0.
Proof. induction n; simpl; auto. Qed.

Lemma tlen_repeat n : tlen (repeat None n) = 0.
Proof. unfold tlen. induction n; simpl; auto. Qed.

Lemma full_map (l : list (option msg)) (fs : list msg) :
  length l = length fs -> forallb is_some l = true ->
  (forall i f, nth_error l i = Some (Some f) -> nth_error fs i = Some f) ->
  map opt_data l = map data fs.
Proof.
  revert fs; induction l as [|o t IH]; intros [|f0 fs] Hl Hf Hs; simpl in *; try discriminate; auto.
  apply andb_true_iff in Hf as [Ho Hf]. destruct o as [g|]; [|discriminate].
  pose proof (Hs 0 g eq_refl) as H0. simpl in H0. injection H0 as <-.
  f_equal. apply IH; auto. intros i f Hi. exact (Hs (S i) f Hi).
Qed.

Lemma pad_exact (X : list byte) sz : sz = length X ->
  (firstn sz X ++ repeat x00 (sz - length (firstn sz X)))%list = X.
Proof. intros ->. rewrite firstn_all, Nat.sub_diag. apply app_nil_r. Qed.

Record prog (p : N) (fs : list msg) (d : dstate) : Prop := mkProg {
  pg_pid : d_pid d = p;
  pg_len : length (d_frags d) = length fs;
  pg_slot : forall i f, nth_error (d_frags d) i = Some (Some f) -> nth_error fs i = Some f;
  pg_cnt : d_count d = N.of_nat (nsome (d_frags d));
  pg_size : d_size d = tlen (d_frags d) }.

Definition filled (d : dstate) (j : nat) : Prop := exists g, nth_error (d_frags d) j = Some (Some g).
Definition full (d : dstate) : bool := forallb is_some (d_frags d).

Lemma full_filled p fs d : prog p fs d ->
  (full d = true <-> forall j, j < length fs -> filled d j).
Proof. intros H. unfold full, filled. rewrite forallb_filled, (pg_len _ _ _ H). tauto. Qed.

Definition fresh (f : msg) (n i : nat) : dstate :=
  mkD (pid f) (upd i (Some f) (repeat None n)) 1 (length (data f)).

Lemma feed_reset d f n i :
  fcount f = N.of_nat n -> 2 <= n <= 255 -> fid f = N.of_nat i -> i < n ->
  (pid f <> d_pid d \/ fcount f <> (N.of_nat (length (d_frags d)) mod 256)%N) ->
  feed d f = Ok (fresh f n i, None).
Proof.
  intros Hc Hn Hi Hlt Hcond. unfold feed.
  destruct (N.leb_spec (fcount f) 1); [lia|].
  destruct (N.leb_spec (fcount f) (fid f)); [lia|].
  replace (negb (pid f =? d_pid d)%N || negb (fcount f =? N.of_nat (length (d_frags d)) mod 256)%N)
    with true.
  2:{ symmetry. destruct (N.eqb_spec (pid f) (d_pid d)); [|reflexivity].
      destruct (N.eqb_spec (fcount f) (N.of_nat (length (d_frags d)) mod 256)); [|reflexivity].
      tauto. }
  rewrite Hc, Hi, !Nat2N.id, repeat_length.
  replace (i <? n) with true by (symmetry; apply Nat.ltb_lt; lia).
  reflexivity.
Qed.

Lemma prog_fresh m fs i f : is_split m fs -> nth_error fs i = Some f ->
  prog (pid m) fs (fresh f (length fs) i) /\ (forall j, filled (fresh f (length fs) i) j <-> j = i).
Proof.
  intros (Hn & Hcat & Hsh) Hi.
  destruct (Hsh i f Hi) as (Hsid & Hpid & Haddr & Hfi & Hfcnt & Hne & _).
  assert (Hilt : i < length fs) by (apply nth_error_Some; congruence).
  assert (Hnone : nth_error (repeat (@None msg) (length fs)) i = Some None)
    by (apply nth_error_repeat_lt; auto).
  split.
  - constructor; cbn [fresh d_pid d_frags d_count d_size].
    + exact Hpid.
    + now rewrite upd_length, repeat_length.
    + intros j g Hj. destruct (Nat.eq_dec i j) as [<-|Hij].
      * rewrite nth_error_upd_eq in Hj by (rewrite repeat_length; auto). congruence.
      * rewrite nth_error_upd_neq in Hj by auto. apply nth_error_repeat_inv in Hj. discriminate.
    + rewrite upd_nsome, nsome_repeat by auto. reflexivity.
    + rewrite upd_tlen, tlen_repeat by auto. reflexivity.
  - intros j. unfold filled. cbn [fresh d_frags]. split.
    + intros [g Hj]. destruct (Nat.eq_dec i j) as [<-|Hij]; auto.
      rewrite nth_error_upd_neq in Hj by auto. apply nth_error_repeat_inv in Hj. discriminate.
    + intros ->. exists f. apply nth_error_upd_eq. now rewrite repeat_length.
Qed.

Lemma feed_cont m fs d i f :
  is_split m fs -> fid m = 0%N -> fcount m = 1%N ->
  prog (pid m) fs d -> nth_error fs i = Some f ->
  exists d' o, feed d f = Ok (d', o) /\ prog (pid m) fs d' /\
    (forall j, filled d' j <-> filled d j \/ j = i) /\
    o = if negb (full d) && full d' then Some m else None.
Proof.
  intros (Hn & Hcat & Hsh) Hfid Hfc Hprog Hi.
  pose proof Hprog as [Hp Hl Hs Hc Hz].
  destruct (Hsh i f Hi) as (Hsid & Hpid & Haddr & Hfi & Hfcnt & Hne & _).
  assert (Hilt : i < length fs) by (apply nth_error_Some; congruence).
  unfold feed.
  destruct (N.leb_spec (fcount f) 1); [lia|].
  destruct (N.leb_spec (fcount f) (fid f)); [lia|].
  assert (E1 : (pid f =? d_pid d)%N = true) by (apply N.eqb_eq; congruence).
  assert (E2 : (fcount f =? N.of_nat (length (d_frags d)) mod 256)%N = true)
    by (apply N.eqb_eq; rewrite Hl; lia).
  rewrite E1, E2. cbn [negb orb]. rewrite Hfi, Nat2N.id.
  destruct (nth_error (d_frags d) i) as [[g|]|] eqn:Eslot.
  - (* duplicate *)
    exists d, None. split; [reflexivity|]. split; [exact Hprog|]. split.
    + intros j. split; [tauto|]. intros [Hx| ->]; [exact Hx|]. exists g. exact Eslot.
    + destruct (full d); reflexivity.
  - (* an empty slot fills *)
    set (fr := upd i (Some f) (d_frags d)).
    assert (Hfrl : length fr = length fs) by (unfold fr; rewrite upd_length; auto).
    assert (Hns : nsome fr = S (nsome (d_frags d))) by (apply upd_nsome; auto).
    assert (Htl : tlen fr = tlen (d_frags d) + length (data f)) by (apply upd_tlen; auto).
    assert (Hc' : ((d_count d + 1) mod 256)%N = N.of_nat (nsome fr)).
    { rewrite Hc, Hns. pose proof (nsome_le fr). lia. }
    rewrite Hc'.
    set (d' := mkD (d_pid d) fr (N.of_nat (nsome fr)) (d_size d + length (data f))).
    assert (Hprog' : prog (pid m) fs d').
    { constructor; cbn [d' d_pid d_frags d_count d_size]; auto.
      - intros j g Hj. unfold fr in Hj. destruct (Nat.eq_dec i j) as [<-|Hij].
        + rewrite nth_error_upd_eq in Hj by lia. congruence.
        + rewrite nth_error_upd_neq in Hj by auto. auto.
      - rewrite Htl, Hz. reflexivity. }
    assert (Hfill : forall j, filled d' j <-> filled d j \/ j = i).
    { intros j. unfold filled. cbn [d' d_frags]. unfold fr. split.
      - intros [g Hj]. destruct (Nat.eq_dec j i) as [->|Hij]; [right; auto|left].
        rewrite nth_error_upd_neq in Hj by auto. eauto.
      - intros [[g Hj]| ->].
        + exists g. rewrite nth_error_upd_neq; auto. intros <-. congruence.
        + exists f. apply nth_error_upd_eq. lia. }
    assert (Hnf : full d = false).
    { destruct (full d) eqn:E; [|reflexivity]. exfalso.
      destruct (proj1 (full_filled _ _ _ Hprog) E i Hilt) as [g Hg]. congruence. }
    rewrite Hnf. cbn [negb andb].
    destruct (N.eqb_spec (N.of_nat (nsome fr)) (N.of_nat (length fr))) as [Efull|Efull].
    + assert (Hfull : forallb is_some fr = true) by (apply nsome_full; lia).
      assert (Hfull' : full d' = true) by exact Hfull.
      unfold is_some in Hfull. rewrite Hfull. cbv zeta.
      rewrite pad_exact.
      2:{ rewrite Hz. exact (eq_sym Htl). }
      rewrite (full_map fr fs Hfrl Hfull' (pg_slot _ _ _ Hprog')), Hcat.
      eexists d', _. split; [reflexivity|]. split; [exact Hprog'|]. split; [exact Hfill|].
      rewrite Hfull'. f_equal. rewrite Hsid, Hpid, Haddr, <- Hfid, <- Hfc. destruct m; reflexivity.
    + exists d', None. split; [reflexivity|]. split; [exact Hprog'|]. split; [exact Hfill|].
      destruct (full d') eqn:E; [|reflexivity]. exfalso. apply Efull. f_equal.
      apply nsome_full. exact E.
  - apply nth_error_None in Eslot. lia.
Qed.

(* feeding fragments of m into a state that is collecting m *)
Lemma feed_all_prog m fs : is_split m fs -> fid m = 0%N -> fcount m = 1%N ->
  forall seq d, prog (pid m) fs d -> (forall f, In f seq -> In f fs) ->
  exists d', feed_all d seq = Ok (d', if negb (full d) && full d' then [m] else []) /\
    prog (pid m) fs d' /\
    (forall j, filled d' j <-> filled d j \/ exists f, In f seq /\ nth_error fs j = Some f).
Proof.
  intros Hsp Hfid Hfc. induction seq as [|f t IH]; intros d Hprog Hin.
  - exists d. cbn [feed_all]. split; [|split; [exact Hprog|]].
    + destruct (full d); reflexivity.
    + intros j. split; [tauto|]. intros [H|(f & [] & _)]; exact H.
  - destruct (In_nth_error fs f (Hin f (or_introl eq_refl))) as [i Hi].
    destruct (feed_cont m fs d i f Hsp Hfid Hfc Hprog Hi) as (d1 & o & Hfeed & Hprog1 & Hfill1 & Ho).
    destruct (IH d1 Hprog1 (fun g Hg => Hin g (or_intror Hg))) as (d' & Hfa & Hprog' & Hfill').
    exists d'. cbn [feed_all]. rewrite Hfeed. cbn [bind]. rewrite Hfa. cbn [bind].
    assert (Hfill : forall j, filled d' j <-> filled d j \/ exists g, In g (f :: t) /\ nth_error fs j = Some g).
    { intros j. rewrite Hfill', Hfill1. split.
      - intros [[H| ->]|(g & Hg & Hj)]; [left; auto|right|right].
        + exists f. split; [left; auto|auto].
        + exists g. split; [right; auto|auto].
      - intros [H|(g & [<-|Hg] & Hj)]; [left; left; auto| |right; eauto].
        left; right. destruct Hsp as (_ & _ & Hsh).
        destruct (Hsh i f Hi) as (_ & _ & _ & Hfi & _).
        destruct (Hsh j f Hj) as (_ & _ & _ & Hfj & _). lia. }
    split; [|split; [exact Hprog'|exact Hfill]].
    (* monotonicity of full *)
    assert (M1 : full d = true -> full d1 = true).
    { intros E. apply (full_filled _ _ _ Hprog1). intros j Hj. apply Hfill1. left.
      exact (proj1 (full_filled _ _ _ Hprog) E j Hj). }
    assert (M2 : full d1 = true -> full d' = true).
    { intros E. apply (full_filled _ _ _ Hprog'). intros j Hj. apply Hfill'. left.
      exact (proj1 (full_filled _ _ _ Hprog1) E j Hj). }
    subst o. destruct (full d), (full d1), (full d'); cbn [negb andb]; try reflexivity;
      try (specialize (M1 eq_refl); discriminate); try (specialize (M2 eq_refl); discriminate).
Qed.

Lemma nodup_pid_inj ms : NoDup (map pid ms) ->
  forall a b, In a ms -> In b ms -> pid a = pid b -> a = b.
Proof.
  induction ms as [|x ms IH]; simpl; intros H a b Ha Hb E; [contradiction|].
  inversion H as [|? ? Hnin Hnd]; subst.
  destruct Ha as [<-|Ha], Hb as [<-|Hb]; auto.
  - exfalso. apply Hnin. rewrite E. now apply in_map.
  - exfalso. apply Hnin. rewrite <- E. now apply in_map.
Qed.

(* ------------------------------------------------------------------ *)
(* 4. the statements of props/C05.v                                    *)
(* ------------------------------------------------------------------ *)
Local Open Scope N_scope.

Lemma frag_total : forall m maxSize, exists fs, frag m maxSize = Ok fs.
Proof.
  intros m maxSize.
  destruct (frag_cases m maxSize) as [[_ E]|[(_ & _ & E)|(_ & _ & mp & _ & H)]]; eauto.
  cbv zeta in H. destruct H as (_ & _ & _ & _ & [[_ E]|[_ E]]); eauto.
Qed.

Lemma frag_fits : forall m maxSize fs, frag m maxSize = Ok fs ->
  Forall (fun f => (Z.of_nat (size f) <= maxSize)%Z) fs /\
  ((Z.of_nat (size m) <= maxSize)%Z -> fs = [m]).
Proof.
  intros m maxSize fs H.
  destruct (frag_split_cases m maxSize fs H) as [[H1 ->]|[[H1 ->]|(H1 & _ & HF)]].
  - split; auto.
  - split; [constructor|lia].
  - split; [exact HF|lia].
Qed.

Lemma frag_shape : forall m maxSize fs, frag m maxSize = Ok fs ->
  (Z.of_nat (size m) > maxSize)%Z ->
  (length fs <= 255)%nat /\
  concat (map data fs) = (if Nat.eqb (length fs) 0 then [] else data m) /\
  (forall i f, nth_error fs i = Some f ->
     sid f = sid m /\ pid f = pid m /\ addr f = addr m /\
     fid f = N.of_nat i /\ fcount f = N.of_nat (length fs) /\ data f <> []).
Proof.
  intros m maxSize fs H Hbig.
  destruct (frag_split_cases m maxSize fs H) as [[H1 ->]|[[H1 ->]|(H1 & (Hn & Hcat & Hsh) & _)]].
  - lia.
  - cbn. split; [lia|]. split; [reflexivity|]. intros [|i] f Hi; discriminate.
  - split; [lia|]. split.
    + destruct (Nat.eqb_spec (length fs) 0); [lia|exact Hcat].
    + intros i f Hi. destruct (Hsh i f Hi) as (A & B & C & D & E & F & _). auto 10.
Qed.

Lemma frag_discard_iff : forall m maxSize,
  frag m maxSize = Ok [] <->
  ((Z.of_nat (size m) > maxSize)%Z /\
   let mp := (maxSize - Z.of_nat (header_size m))%Z in
   ((mp <= 0)%Z \/ (255 * mp < Z.of_nat (length (data m)))%Z)).
Proof.
  intros m maxSize. cbv zeta.
  destruct (frag_cases m maxSize) as [[H1 E]|[(H1 & H2 & E)|(H1 & H2 & mp & Hmp & H3)]].
  - rewrite E. split; [discriminate|lia].
  - rewrite E. split; [auto|reflexivity].
  - cbv zeta in H3. destruct H3 as (Hn & Hl & _ & _ & [[H4 E]|[H4 E]]); rewrite E.
    + split; [|reflexivity]. intros _. split; [exact H1|right].
      destruct (le_lt_dec (mp * 255) (length (data m) - 1)) as [Hle|Hlt]; [lia|].
      apply Nat.div_lt_upper_bound in Hlt; lia.
    + split.
      * intros [= E0]. apply (f_equal (@length msg)) in E0. rewrite mk_length in E0.
        simpl in E0. lia.
      * intros [_ [Hc|Hc]]; [lia|]. exfalso.
        assert (Hle : (mp * 255 <= length (data m) - 1)%nat) by lia.
        apply Nat.div_le_lower_bound in Hle; lia.
Qed.

Lemma reassemble_any_order : forall m maxSize fs seq d,
  fid m = 0 -> fcount m = 1 ->
  frag m maxSize = Ok fs -> (2 <= length fs)%nat ->
  (forall f, In f seq -> In f fs) -> (forall f, In f fs -> In f seq) ->
  (d_pid d <> pid m \/ d_frags d = []) ->
  exists d', feed_all d seq = Ok (d', [m]).
Proof.
  intros m maxSize fs seq d Hfid Hfc Hfrag Hlen Hsub Hsup Hd.
  destruct (frag_split_cases m maxSize fs Hfrag) as [[_ ->]|[[_ ->]|(_ & Hsp & _)]];
    [simpl in Hlen; lia|simpl in Hlen; lia|].
  pose proof Hsp as (Hn & Hcat & Hsh).
  destruct seq as [|f0 t].
  { destruct fs as [|g fs']; [simpl in Hlen; lia|]. destruct (Hsup g (or_introl eq_refl)). }
  destruct (In_nth_error fs f0 (Hsub f0 (or_introl eq_refl))) as [i0 Hi0].
  destruct (Hsh i0 f0 Hi0) as (_ & Hpid0 & _ & Hfi0 & Hfc0 & _).
  assert (Hi0lt : (i0 < length fs)%nat) by (apply nth_error_Some; congruence).
  assert (Hreset : feed d f0 = Ok (fresh f0 (length fs) i0, None)).
  { apply feed_reset; auto. destruct Hd as [Hd|Hd].
    - left. congruence.
    - right. rewrite Hd. cbn [length]. lia. }
  destruct (prog_fresh m fs i0 f0 Hsp Hi0) as [Hprog1 Hfill1].
  set (d1 := fresh f0 (length fs) i0) in *.
  destruct (feed_all_prog m fs Hsp Hfid Hfc t d1 Hprog1 (fun g Hg => Hsub g (or_intror Hg)))
    as (d' & Hfa & Hprog' & Hfill').
  assert (Hnf : full d1 = false).
  { destruct (full d1) eqn:E; [|reflexivity]. exfalso.
    pose proof (proj1 (full_filled _ _ _ Hprog1) E) as Hall.
    assert (A : (0 = i0)%nat) by (apply Hfill1, Hall; lia).
    assert (B : (1 = i0)%nat) by (apply Hfill1, Hall; lia). lia. }
  assert (Hf : full d' = true).
  { apply (full_filled _ _ _ Hprog'). intros j Hj. apply Hfill'.
    destruct (nth_error fs j) as [g|] eqn:Ej; [|apply nth_error_None in Ej; lia].
    destruct (Hsup g (nth_error_In _ _ Ej)) as [<-|Hg].
    - left. apply Hfill1. destruct (Hsh j f0 Ej) as (_ & _ & _ & Hfj & _). lia.
    - right. eauto. }
  rewrite Hnf, Hf in Hfa. cbn [negb andb] in Hfa.
  exists d'. cbn [feed_all]. rewrite Hreset. cbn [bind]. rewrite Hfa. reflexivity.
Qed.

Section NoChimera.
  Variables (ms : list msg) (lim : msg -> Z).
  Hypothesis Hnd : NoDup (map pid ms).
  Hypothesis Hwf : forall m, In m ms -> fid m = 0 /\ fcount m = 1.

  Definition Inv (d : dstate) : Prop :=
    d_frags d = [] \/
    exists m fs, In m ms /\ frag m (lim m) = Ok fs /\ is_split m fs /\ prog (pid m) fs d.

  Lemma feed_step d f : Inv d ->
    (exists m fs, In m ms /\ frag m (lim m) = Ok fs /\ In f fs) ->
    exists d' o, feed d f = Ok (d', o) /\ Inv d' /\ (forall x, o = Some x -> In x ms).
  Proof.
    intros HInv (m & fs & Hm & Hfr & Hf). destruct (Hwf m Hm) as [Hfid Hfc].
    destruct (frag_split_cases m (lim m) fs Hfr) as [[_ ->]|[[_ ->]|(_ & Hsp & _)]].
    - destruct Hf as [<-|[]]. exists d, (Some m). unfold feed. rewrite Hfc. cbn.
      split; [reflexivity|]. split; [exact HInv|]. intros x [= <-]. exact Hm.
    - destruct Hf.
    - pose proof Hsp as (Hn & Hcat & Hsh).
      destruct (In_nth_error fs f Hf) as [i Hi].
      destruct (Hsh i f Hi) as (_ & Hpidf & _ & Hfi & Hfcf & _).
      assert (Hilt : (i < length fs)%nat) by (apply nth_error_Some; congruence).
      assert (Hfreshcase : (pid f <> d_pid d \/ fcount f <> N.of_nat (length (d_frags d)) mod 256) ->
        exists d' o, feed d f = Ok (d', o) /\ Inv d' /\ (forall x, o = Some x -> In x ms)).
      { intros Hc. exists (fresh f (length fs) i), None.
        split; [apply feed_reset; auto|]. split; [|discriminate].
        right. exists m, fs. destruct (prog_fresh m fs i f Hsp Hi) as [Hp _]. auto. }
      destruct (N.eq_dec (pid f) (d_pid d)) as [Ep|Ep]; [|auto].
      destruct (N.eq_dec (fcount f) (N.of_nat (length (d_frags d)) mod 256)) as [Ec|Ec]; [|auto].
      destruct HInv as [Hnil|(m' & fs' & Hm' & Hfr' & Hsp' & Hprog')].
      { rewrite Hnil in Ec. cbn [length] in Ec. lia. }
      assert (Emm : m = m').
      { apply (nodup_pid_inj ms Hnd); auto. rewrite <- Hpidf, Ep. exact (pg_pid _ _ _ Hprog'). }
      subst m'. assert (fs' = fs) by congruence. subst fs'.
      destruct (feed_cont m fs d i f Hsp Hfid Hfc Hprog' Hi) as (d' & o & Hfeed & Hp' & _ & Ho).
      exists d', o. split; [exact Hfeed|]. split.
      + right. exists m, fs. auto.
      + intros x Hx. subst o. destruct (negb (full d) && full d'); [|discriminate].
        injection Hx as <-. exact Hm.
  Qed.

  Lemma feed_all_inv : forall seq d, Inv d ->
    (forall f, In f seq -> exists m fs, In m ms /\ frag m (lim m) = Ok fs /\ In f fs) ->
    exists d' outs, feed_all d seq = Ok (d', outs) /\ forall o, In o outs -> In o ms.
  Proof.
    induction seq as [|f t IH]; intros d HInv Hseq.
    - exists d, []. split; [reflexivity|]. intros o [].
    - destruct (feed_step d f HInv (Hseq f (or_introl eq_refl))) as (d1 & o & Hfeed & HInv1 & Ho).
      destruct (IH d1 HInv1 (fun g Hg => Hseq g (or_intror Hg))) as (d' & outs & Hfa & Houts).
      cbn [feed_all]. rewrite Hfeed. cbn [bind]. rewrite Hfa. cbn [bind].
      eexists _, _. split; [reflexivity|].
      intros x Hx. destruct o as [y|]; [|auto].
      destruct Hx as [<-|Hx]; auto.
  Qed.
End NoChimera.

Lemma no_chimera : forall (ms : list msg) (lim : msg -> Z) (seq : list msg),
  NoDup (map pid ms) ->
  (forall m, In m ms -> fid m = 0 /\ fcount m = 1) ->
  (forall f, In f seq -> exists m fs, In m ms /\ frag m (lim m) = Ok fs /\ In f fs) ->
  exists d' outs, feed_all d_init seq = Ok (d', outs) /\ forall o, In o outs -> In o ms.
Proof.
  intros ms lim seq Hnd Hwf Hseq.
  apply (feed_all_inv ms lim Hnd Hwf seq d_init); [left; reflexivity|exact Hseq].
Qed.

(* ---------- wire format ---------- *)

Lemma hdr8 (a b : list byte) c d r : length a = 4%nat -> length b = 2%nat ->
  let s := (a ++ b ++ [c; d] ++ r)%list in
  firstn 4 s = a /\ firstn 2 (skipn 4 s) = b /\ nth 6 s x00 = c /\ nth 7 s x00 = d /\
  skipn 8 s = r.
Proof.
  intros Ha Hb.
  destruct a as [|a0 [|a1 [|a2 [|a3 [|]]]]]; try discriminate Ha.
  destruct b as [|b0 [|b1 [|]]]; try discriminate Hb.
  cbn. auto.
Qed.

Lemma wire_roundtrip : forall m, msg_wf m ->
  (1 <= length (addr m))%nat -> N.of_nat (length (addr m)) <= MaxMessageLength ->
  (1 <= length (data m))%nat ->
  parse (serialize m) = Ok m /\ length (serialize m) = size m.
Proof.
  intros m (Hs & Hp & Hf & Hc) Ha1 Ha2 Hd1. unfold MaxMessageLength in Ha2.
  destruct (varint_len (N.of_nat (length (addr m)))) as [w|] eqn:El.
  2:{ exfalso. unfold varint_len, maxVarInt1, maxVarInt2, maxVarInt4, maxVarInt8 in El.
      repeat match type of El with context [?a <=? ?b] => destruct (N.leb_spec a b) end;
        try discriminate; lia. }
  assert (Ev : varint_put (N.of_nat (length (addr m))) =
               Some (varint_enc_w w (N.of_nat (length (addr m)))))
    by (unfold varint_put; now rewrite El).
  set (v := varint_enc_w w (N.of_nat (length (addr m)))) in *.
  assert (Hvl : length v = w) by apply varint_enc_w_length.
  assert (Hser : serialize m =
    (be_enc 4 (sid m) ++ be_enc 2 (pid m) ++ [n2b (fid m); n2b (fcount m)] ++
     (v ++ addr m ++ data m))%list) by (unfold serialize; now rewrite Ev).
  split.
  - destruct (hdr8 (be_enc 4 (sid m)) (be_enc 2 (pid m)) (n2b (fid m)) (n2b (fcount m))
                (v ++ addr m ++ data m)%list (be_enc_length _ _) (be_enc_length _ _))
      as (H4 & H2 & H6 & H7 & H8).
    cbv zeta in H4, H2, H6, H7, H8. rewrite <- Hser in H4, H2, H6, H7, H8.
    unfold parse. rewrite H4, H2, H6, H7, H8.
    replace (length (serialize m) <? 8)%nat with false.
    2:{ symmetry. apply Nat.ltb_ge. rewrite Hser, !app_length, !be_enc_length. simpl. lia. }
    rewrite (varint_read_put _ _ _ Ev).
    replace (N.of_nat (length (addr m)) =? 0) with false by (symmetry; apply N.eqb_neq; lia).
    replace (MaxMessageLength <? N.of_nat (length (addr m))) with false
      by (symmetry; apply N.ltb_ge; unfold MaxMessageLength; lia).
    cbn [orb]. rewrite Nat2N.id.
    replace (length (addr m ++ data m) <=? length (addr m))%nat with false
      by (symmetry; apply Nat.leb_gt; rewrite app_length; lia).
    rewrite firstn_app_exact, skipn_app_exact by reflexivity.
    rewrite !be_dec_enc_small, !b2n_n2b_small; auto.
    destruct m; reflexivity.
  - rewrite Hser, !app_length, !be_enc_length. unfold size, header_size, vlen.
    rewrite El, Hvl. simpl. lia.
Qed.

Lemma frag_old_refuted : exists m maxSize, is_panic (frag_old m maxSize) = true.
Proof.
  exists (mkMsg 1 1 0 1 [x61] (repeat x00 256)), 11%Z. vm_compute. reflexivity.
Qed.

(* ------------------------------------------------------------------ *)
(* 5. the hypotheses are satisfiable on concrete inputs                *)
(* ------------------------------------------------------------------ *)

Definition ex_m1 : msg := mkMsg 7 42 0 1 [x61] [x01; x02; x03; x04; x05].
Definition ex_m2 : msg := mkMsg 7 43 0 1 [x62; x63] [x0a; x0b; x0c; x0d; x0e; x0f; x10].
Definition ex_m3 : msg := mkMsg 9 44 0 1 [x64] [xff].
Definition ex_fs1 : list msg :=
  [mkMsg 7 42 0 3 [x61] [x01; x02]; mkMsg 7 42 1 3 [x61] [x03; x04]; mkMsg 7 42 2 3 [x61] [x05]].
Definition ex_fs2 : list msg :=
  [mkMsg 7 43 0 4 [x62; x63] [x0a; x0b]; mkMsg 7 43 1 4 [x62; x63] [x0c; x0d];
   mkMsg 7 43 2 4 [x62; x63] [x0e; x0f]; mkMsg 7 43 3 4 [x62; x63] [x10]].
Definition ex_lim (m : msg) : Z := if pid m =? 43 then 13%Z else 12%Z.

Example ex_frag1 : frag ex_m1 12 = Ok ex_fs1.
Proof. vm_compute. reflexivity. Qed.
Example ex_frag2 : frag ex_m2 13 = Ok ex_fs2.
Proof. vm_compute. reflexivity. Qed.
Example ex_frag3 : frag ex_m3 12 = Ok [ex_m3].
Proof. vm_compute. reflexivity. Qed.

(* out of order, with duplicates, into a state still holding another packet's fragment *)
Definition ex_seq1 : list msg :=
  [nth 2 ex_fs1 ex_m1; nth 0 ex_fs1 ex_m1; nth 2 ex_fs1 ex_m1; nth 1 ex_fs1 ex_m1; nth 0 ex_fs1 ex_m1].
Definition ex_d : dstate := mkD 43 [None; Some (nth 1 ex_fs2 ex_m2); None; None] 1 2.

Example reassemble_any_order_hyps_sat :
  fid ex_m1 = 0 /\ fcount ex_m1 = 1 /\ frag ex_m1 12 = Ok ex_fs1 /\ (2 <= length ex_fs1)%nat /\
  (forall f, In f ex_seq1 -> In f ex_fs1) /\ (forall f, In f ex_fs1 -> In f ex_seq1) /\
  (d_pid ex_d <> pid ex_m1 \/ d_frags ex_d = []).
Proof.
  split; [reflexivity|]. split; [reflexivity|]. split; [exact ex_frag1|].
  split; [simpl; lia|].
  split; [|split].
  - intros f H. cbn in H |- *. tauto.
  - intros f H. cbn in H |- *. tauto.
  - left. cbn. discriminate.
Qed.

Example reassemble_any_order_concrete : exists d', feed_all ex_d ex_seq1 = Ok (d', [ex_m1]).
Proof.
  destruct reassemble_any_order_hyps_sat as (A & B & C & D & E & F & G).
  exact (reassemble_any_order ex_m1 12 ex_fs1 ex_seq1 ex_d A B C D E F G).
Qed.

(* three messages, interleaved, with a drop (ex_fs2 slot 3 never arrives), duplicates, a whole one *)
Definition ex_ms : list msg := [ex_m1; ex_m2; ex_m3].
Definition ex_seq : list msg :=
  [nth 1 ex_fs2 ex_m2; nth 2 ex_fs1 ex_m1; nth 0 ex_fs1 ex_m1; ex_m3; nth 0 ex_fs2 ex_m2;
   nth 1 ex_fs1 ex_m1; nth 2 ex_fs1 ex_m1; nth 0 ex_fs1 ex_m1; nth 1 ex_fs1 ex_m1; nth 2 ex_fs2 ex_m2].

Example no_chimera_hyps_sat :
  NoDup (map pid ex_ms) /\
  (forall m, In m ex_ms -> fid m = 0 /\ fcount m = 1) /\
  (forall f, In f ex_seq -> exists m fs, In m ex_ms /\ frag m (ex_lim m) = Ok fs /\ In f fs).
Proof.
  split; [|split].
  - cbn. repeat constructor; cbn; intros H; repeat destruct H as [H|H]; try discriminate H; exact H.
  - intros m H. cbn in H. repeat destruct H as [<-|H]; try (split; reflexivity). destruct H.
  - intros f H. cbn in H.
    repeat destruct H as [<-|H]; try (destruct H);
    first [ exists ex_m1, ex_fs1; split; [cbn; tauto|]; split; [exact ex_frag1|cbn; tauto]
          | exists ex_m2, ex_fs2; split; [cbn; tauto|]; split; [exact ex_frag2|cbn; tauto]
          | exists ex_m3, [ex_m3]; split; [cbn; tauto|]; split; [exact ex_frag3|cbn; tauto] ].
Qed.

Example no_chimera_concrete :
  exists d' outs, feed_all d_init ex_seq = Ok (d', outs) /\ forall o, In o outs -> In o ex_ms.
Proof.
  destruct no_chimera_hyps_sat as (A & B & C).
  exact (no_chimera ex_ms ex_lim ex_seq A B C).
Qed.

(* what the reassembler actually emits on that history: the whole message, then m1 exactly once *)
Example no_chimera_concrete_outs :
  match feed_all d_init ex_seq with Ok (_, outs) => outs = [ex_m3; ex_m1] | _ => False end.
Proof. vm_compute. reflexivity. Qed.
