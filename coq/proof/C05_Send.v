(* C05 proofs, send paths (model/C05_Send.v). *)
From Hy Require Import model.C05_Frag model.C05_Send proof.C05_Frag.
From Coq Require Import ZArith Lia ZifyBool ZifyNat ZifyN.
Ltac Zify.zify_post_hook ::= Z.div_mod_to_equations.
Local Open Scope nat_scope.

(* ------------------------------------------------------------------ *)
(* 1. the fragment loop                                                *)
(* ------------------------------------------------------------------ *)

Lemma in_firstn {A} (x : A) : forall n l, In x (firstn n l) -> In x l.
Proof.
  induction n as [|n IH]; intros [|h t] H; cbn in H; try contradiction.
  destruct H as [->|H]; [left; reflexivity|right; auto].
Qed.

Lemma ret_of_nil o : ret_of o = SNil <-> (o = OAccept \/ o = ODrop).
Proof. destruct o; cbn; split; intros H; auto; try discriminate; destruct H; discriminate. Qed.

(* complete characterisation of the loop: a prefix of the fragments is handed to the connection, each
   answered by the connection's behaviour at that call; every call but the last returned nil; the
   returned value is that of the last call; nil overall iff all fragments were handed in. *)
Lemma send_frags_spec buflen env : forall fs k evs r,
  send_frags buflen env k fs = (evs, r) ->
  (exists n, map fst evs = firstn n fs) /\
  (forall i f o, nth_error evs i = Some (f, o) -> o = io_send buflen (env (k + i)) f) /\
  (forall i f o, nth_error evs i = Some (f, o) -> S i < length evs -> ret_of o = SNil) /\
  (r = SNil -> map fst evs = fs /\ Forall (fun e => ret_of (snd e) = SNil) evs) /\
  (r <> SNil -> exists f o, nth_error evs (length evs - 1) = Some (f, o) /\ evs <> [] /\ ret_of o = r).
Proof.
  induction fs as [|f t IH]; intros k evs r H; cbn [send_frags] in H.
  - injection H as <- <-. repeat split.
    + exists 0. reflexivity.
    + intros [|i] ? ? Hn; discriminate.
    + intros [|i] ? ? Hn; discriminate.
    + constructor.
    + intros Hc. congruence.
  - destruct (ret_of (io_send buflen (env k) f)) eqn:Er.
    + destruct (send_frags buflen env (S k) t) as [evs1 r1] eqn:E1. cbn [fst snd] in H.
      injection H as <- <-.
      destruct (IH (S k) evs1 r1 E1) as ((n & Hn) & Hio & Hmid & Hnil & Herr).
      repeat split.
      * exists (S n). cbn. now rewrite Hn.
      * intros [|i] g o Hg; cbn in Hg.
        -- injection Hg as <- <-. now rewrite Nat.add_0_r.
        -- rewrite (Hio i g o Hg). f_equal. f_equal. lia.
      * intros [|i] g o Hg Hl; cbn in Hg.
        -- injection Hg as <- <-. exact Er.
        -- apply (Hmid i g o Hg). cbn in Hl. lia.
      * cbn. f_equal. now apply Hnil.
      * constructor; [exact Er|]. now apply Hnil.
      * intros Hne. destruct (Herr Hne) as (g & o & Hg & Hnn & Hr).
        exists g, o. split; [|split; [discriminate|exact Hr]].
        cbn [length]. destruct evs1 as [|e evs1']; [congruence|].
        cbn [length] in *. replace (S (S (length evs1')) - 1) with (S (S (length evs1') - 1)) by lia.
        exact Hg.
    + injection H as <- <-. repeat split.
      * exists 1. reflexivity.
      * intros [|[|i]] g o Hg; cbn in Hg; try discriminate.
        injection Hg as <- <-. now rewrite Nat.add_0_r.
      * intros [|i] g o Hg Hl; cbn in Hl; lia.
      * discriminate.
      * discriminate.
      * intros _. exists f, (io_send buflen (env k) f). cbn. repeat split; [discriminate|exact Er].
    + injection H as <- <-. repeat split.
      * exists 1. reflexivity.
      * intros [|[|i]] g o Hg; cbn in Hg; try discriminate.
        injection Hg as <- <-. now rewrite Nat.add_0_r.
      * intros [|i] g o Hg Hl; cbn in Hl; lia.
      * discriminate.
      * discriminate.
      * intros _. exists f, (io_send buflen (env k) f). cbn. repeat split; [discriminate|exact Er].
Qed.

(* all fragments fit the buffer and the (constant) limit: all are accepted *)
Lemma send_frags_all_accepted buflen env L : (forall i, env i = RLim L) -> forall fs k,
  Forall (fun f => size f <= buflen /\ (Z.of_nat (size f) <= L)%Z) fs ->
  send_frags buflen env k fs = (map (fun f => (f, OAccept)) fs, SNil).
Proof.
  intros Henv. induction fs as [|f t IH]; intros k HF; [reflexivity|].
  inversion HF as [|? ? [Hb HL] HF']; subst. cbn [send_frags].
  assert (E : io_send buflen (env k) f = OAccept).
  { unfold io_send. rewrite Henv.
    destruct (Nat.ltb_spec buflen (size f)); [lia|].
    destruct (Z.ltb_spec L (Z.of_nat (size f))); [lia|reflexivity]. }
  rewrite E. cbn [ret_of]. rewrite (IH (S k) HF'). reflexivity.
Qed.

Lemma accepted_all fs : accepted (map (fun f => (f, OAccept)) fs) = fs.
Proof. unfold accepted. induction fs as [|f t IH]; cbn; [reflexivity|]. now f_equal. Qed.

(* ------------------------------------------------------------------ *)
(* 2. one send                                                          *)
(* ------------------------------------------------------------------ *)

Lemma send_total buflen env np sid a d : exists evs r, send buflen env np sid a d = Ok (evs, r).
Proof.
  unfold send. destruct (io_send buflen (env 0) (whole sid 0 a d)) eqn:E; eauto.
  destruct (frag_total (whole sid np a d) L) as [fs ->]. cbn [bind]. eauto.
Qed.

Lemma io_send_toolarge buflen r m L : io_send buflen r m = OTooLarge L ->
  r = RLim L /\ size m <= buflen /\ (L < Z.of_nat (size m))%Z.
Proof.
  unfold io_send. destruct (Nat.ltb_spec buflen (size m)); [discriminate|].
  destruct r as [L'|]; [|discriminate].
  destruct (Z.ltb_spec L' (Z.of_nat (size m))); [|discriminate].
  intros [= <-]. auto.
Qed.

Lemma size_whole sid p a d : size (whole sid p a d) = size (whole sid 0 a d).
Proof. reflexivity. Qed.

(* The complete shape of one send, for every behaviour of the connection:
   the first call is the whole, unchanged message; only a DatagramTooLargeError{L} of THAT call leads to
   fragmentation, and then what follows is a prefix of frag(message with the fresh id, L) - L being the
   limit the connection reported for this very message -, so every fragment handed in fits L; the loop
   stops at the first error and returns it; nil means all fragments were handed in. *)
Lemma send_shape buflen env np sid a d evs r :
  send buflen env np sid a d = Ok (evs, r) ->
  let m := whole sid 0 a d in
  let o := io_send buflen (env 0) m in
  exists rest, evs = (m, o) :: rest /\
  ((forall L, o <> OTooLarge L) -> rest = [] /\ r = ret_of o) /\
  (forall L, o = OTooLarge L ->
     env 0 = RLim L /\ (L < Z.of_nat (size m))%Z /\
     exists fs, frag (whole sid np a d) L = Ok fs /\
       (exists n, map fst rest = firstn n fs) /\
       Forall (fun f => (Z.of_nat (size f) <= L)%Z) (map fst rest) /\
       (forall i f oi, nth_error rest i = Some (f, oi) -> oi = io_send buflen (env (S i)) f) /\
       (forall i f oi, nth_error rest i = Some (f, oi) -> S i < length rest -> ret_of oi = SNil) /\
       (r = SNil -> map fst rest = fs) /\
       (r <> SNil -> exists f oi, nth_error rest (length rest - 1) = Some (f, oi) /\ ret_of oi = r)).
Proof.
  intros H m o. unfold send in H. fold m in H. fold o in H.
  destruct o eqn:Eo.
  - injection H as <- <-. exists []. repeat split; auto; intros; discriminate.
  - injection H as <- <-. exists []. repeat split; auto; intros; discriminate.
  - destruct (frag_total (whole sid np a d) L) as [fs Efs]. rewrite Efs in H. cbn [bind] in H.
    destruct (send_frags buflen env 1 fs) as [evs1 r1] eqn:E1. cbn [fst snd] in H.
    injection H as <- <-. exists evs1. split; [reflexivity|]. split.
    { intros Hc. exfalso. exact (Hc L eq_refl). }
    intros L' [= <-].
    destruct (io_send_toolarge _ _ _ _ Eo) as (He & Hb & HL).
    split; [exact He|]. split; [exact HL|].
    exists fs. split; [exact Efs|].
    destruct (send_frags_spec buflen env fs 1 evs1 r1 E1) as ((n & Hn) & Hio & Hmid & Hnil & Herr).
    split; [eauto|]. split.
    { rewrite Hn. destruct (frag_fits _ _ _ Efs) as [HF _].
      rewrite Forall_forall in *. intros f Hf. apply HF. eapply in_firstn; eauto. }
    split; [intros i f oi Hi; exact (Hio i f oi Hi)|].
    split; [exact Hmid|]. split.
    + intros Hr. now apply Hnil.
    + intros Hr. destruct (Herr Hr) as (f & oi & Hf & _ & Hro). eauto.
  - injection H as <- <-. exists []. repeat split; auto; intros; discriminate.
Qed.

(* "dropped exactly when it cannot be split": the discard condition of frag in terms of [fits] *)
Lemma fits_false_of_discard buflen L m :
  (Z.of_nat (size m) > L)%Z -> frag m L = Ok [] -> fits buflen L m = false.
Proof.
  intros Hbig Hfr. apply frag_discard_iff in Hfr. cbv zeta in Hfr. destruct Hfr as [_ Hd].
  unfold fits. destruct (Z.leb_spec (Z.of_nat (size m)) L); [lia|]. cbn [orb].
  destruct (Z.ltb_spec 0 (L - Z.of_nat (header_size m))); cbn [andb]; [|now rewrite Bool.andb_false_r].
  destruct (Z.leb_spec (Z.of_nat (length (data m))) (255 * (L - Z.of_nat (header_size m)))); [lia|].
  now rewrite Bool.andb_false_r.
Qed.

Lemma fits_true_of_split buflen L m fs :
  size m <= buflen -> (Z.of_nat (size m) > L)%Z -> frag m L = Ok fs -> fs <> [] -> fits buflen L m = true.
Proof.
  intros Hb Hbig Hfr Hne. unfold fits.
  destruct (Nat.leb_spec (size m) buflen); [|lia]. cbn [andb].
  destruct (Z.leb_spec (Z.of_nat (size m)) L); [lia|]. cbn [orb].
  destruct (Z.ltb_spec 0 (L - Z.of_nat (header_size m))) as [Hp|Hp];
    [destruct (Z.leb_spec (Z.of_nat (length (data m))) (255 * (L - Z.of_nat (header_size m)))) as [Hq|Hq];
     [reflexivity|]|].
  - exfalso. apply Hne. assert (E : frag m L = Ok []) by (apply frag_discard_iff; cbv zeta; split; [lia|right; lia]).
    congruence.
  - exfalso. apply Hne. assert (E : frag m L = Ok []) by (apply frag_discard_iff; cbv zeta; split; [lia|left; lia]).
    congruence.
Qed.

Lemma feed_pid d m d' o : feed d m = Ok (d', o) -> d' = d \/ d_pid d' = pid m.
Proof.
  unfold feed. destruct (fcount m <=? 1)%N; [intros [= <- _]; auto|].
  destruct (fcount m <=? fid m)%N; [intros [= <- _]; auto|].
  destruct (negb (pid m =? d_pid d)%N || negb (fcount m =? N.of_nat (length (d_frags d)) mod 256)%N) eqn:Ec.
  - destruct (Nat.ltb _ _); [|discriminate]. intros [= <- _]. right. reflexivity.
  - apply Bool.orb_false_elim in Ec as [Ep _]. apply Bool.negb_false_iff, N.eqb_eq in Ep.
    destruct (nth_error (d_frags d) (N.to_nat (fid m))) as [[g|]|]; [intros [= <- _]; auto| |discriminate].
    destruct (_ =? _)%N.
    + destruct (forallb _ _); [|discriminate]. intros [= <- _]. right. cbn. now rewrite Ep.
    + intros [= <- _]. right. cbn. now rewrite Ep.
Qed.

Lemma feed_all_pid : forall l d d' outs, feed_all d l = Ok (d', outs) ->
  d' = d \/ exists f, In f l /\ d_pid d' = pid f.
Proof.
  induction l as [|m t IH]; intros d d' outs H; cbn [feed_all] in H.
  - injection H as <- _. auto.
  - destruct (feed d m) as [[d1 o]| |] eqn:E1; cbn [bind] in H; try discriminate.
    destruct (feed_all d1 t) as [[d2 os]| |] eqn:E2; cbn [bind] in H; try discriminate.
    injection H as <- _.
    destruct (IH d1 d2 os E2) as [->|(f & Hf & Hp)].
    + destruct (feed_pid d m d1 o E1) as [->|Hp]; [auto|]. right. exists m. split; [left; reflexivity|exact Hp].
    + right. exists f. split; [right; exact Hf|exact Hp].
Qed.

(* One send under a limit that stays L during the send: the caller gets nil, and the far side - a
   Defragger in any state that is not in the middle of the same packet id - emits exactly [delivered]:
   the message, byte-identical, when it fits (whole or in <= 255 fragments), nothing otherwise. *)
Lemma send_delivers buflen env L np sid a d d0 :
  (forall i, env i = RLim L) ->
  (d_pid d0 <> np \/ d_frags d0 = []) ->
  exists evs d', send buflen env np sid a d = Ok (evs, SNil) /\
    feed_all d0 (accepted evs) = Ok (d', delivered buflen sid L (mkStep env np a d)) /\
    (d' = d0 \/ d_pid d' = np).
Proof.
  intros Henv Hd0. unfold delivered. cbn [st_addr st_data step_msg st_pid].
  set (m := whole sid 0 a d). set (m' := whole sid np a d).
  assert (Hun : send buflen env np sid a d =
                match io_send buflen (env 0) m with
                | OTooLarge L0 => fs <- frag m' L0 ;; let r := send_frags buflen env 1 fs in
                                  Ok ((m, io_send buflen (env 0) m) :: fst r, snd r)
                | o => Ok ([(m, o)], ret_of o)
                end).
  { unfold send. fold m. fold m'. destruct (io_send buflen (env 0) m); reflexivity. }
  rewrite Hun. clear Hun.
  destruct (Nat.ltb_spec buflen (size m)) as [Hb|Hb].
  { (* larger than the buffer: silent drop *)
    assert (E : io_send buflen (env 0) m = ODrop).
    { unfold io_send. destruct (Nat.ltb_spec buflen (size m)); [reflexivity|lia]. }
    rewrite E. exists [(m, ODrop)], d0. split; [reflexivity|]. split; [|auto].
    unfold fits. destruct (Nat.leb_spec (size m) buflen); [lia|]. reflexivity. }
  destruct (Z.ltb_spec L (Z.of_nat (size m))) as [HL|HL].
  2:{ (* fits whole *)
    assert (E : io_send buflen (env 0) m = OAccept).
    { unfold io_send. rewrite Henv. destruct (Nat.ltb_spec buflen (size m)); [lia|].
      destruct (Z.ltb_spec L (Z.of_nat (size m))); [lia|reflexivity]. }
    rewrite E. exists [(m, OAccept)], d0. split; [reflexivity|]. split; [|auto].
    unfold fits. destruct (Nat.leb_spec (size m) buflen); [|lia].
    destruct (Z.leb_spec (Z.of_nat (size m)) L); [|lia]. reflexivity. }
  assert (E : io_send buflen (env 0) m = OTooLarge L).
  { unfold io_send. rewrite Henv. destruct (Nat.ltb_spec buflen (size m)); [lia|].
    destruct (Z.ltb_spec L (Z.of_nat (size m))); [reflexivity|lia]. }
  rewrite E.
  assert (Hbig : (Z.of_nat (size m') > L)%Z) by (unfold m'; rewrite size_whole; fold m; lia).
  destruct (frag_total m' L) as [fs Efs]. rewrite Efs. cbn [bind].
  destruct (Z.leb_spec (Z.of_nat (size m)) L) as [Hc|_]; [lia|].
  destruct (frag_split_cases m' L fs Efs) as [[Hc _]|[[_ ->]|(_ & Hsp & HF)]]; [lia| |].
  - (* cannot be split: discarded *)
    cbn [send_frags fst snd]. exists [(m, OTooLarge L)], d0. split; [reflexivity|]. split; [|auto].
    replace (fits buflen L m) with (fits buflen L m') by reflexivity.
    rewrite (fits_false_of_discard buflen L m' Hbig Efs). reflexivity.
  - (* split: all fragments accepted, the far side reassembles the message *)
    assert (HF2 : Forall (fun f => size f <= buflen /\ (Z.of_nat (size f) <= L)%Z) fs).
    { rewrite Forall_forall in *. intros f Hf. split; [|auto].
      destruct Hsp as (_ & _ & Hsh). destruct (In_nth_error fs f Hf) as [i Hi].
      destruct (Hsh i f Hi) as (_ & _ & _ & _ & _ & _ & Hlen & Hh).
      unfold size in *. rewrite Hh. change (header_size m') with (header_size m) in *.
      change (data m') with (data m) in *. lia. }
    rewrite (send_frags_all_accepted buflen env L Henv fs 1 HF2). cbn [fst snd].
    assert (Hlen : 2 <= length fs) by (destruct Hsp as ((? & _) & _); lia).
    assert (Hne : fs <> []) by (intros ->; cbn in Hlen; lia).
    destruct (reassemble_any_order m' L fs fs d0 eq_refl eq_refl Efs Hlen (fun f H => H) (fun f H => H))
      as [d' Hfa]; [exact Hd0|].
    exists ((m, OTooLarge L) :: map (fun f => (f, OAccept)) fs), d'. split; [reflexivity|].
    assert (Eacc : accepted ((m, OTooLarge L) :: map (fun f => (f, OAccept)) fs) = fs).
    { unfold accepted. cbn [filter snd]. apply accepted_all. }
    rewrite Eacc.
    replace (fits buflen L m) with (fits buflen L m') by reflexivity.
    rewrite (fits_true_of_split buflen L m' fs) by (auto; unfold m'; rewrite size_whole; exact Hb).
    split; [exact Hfa|].
    destruct (feed_all_pid fs d0 d' _ Hfa) as [->|(f & Hf & Hp)]; [auto|]. right.
    destruct Hsp as (_ & _ & Hsh). destruct (In_nth_error fs f Hf) as [i Hi].
    destruct (Hsh i f Hi) as (_ & Hpid & _). rewrite Hp, Hpid. reflexivity.
Qed.

(* ------------------------------------------------------------------ *)
(* 3. histories                                                         *)
(* ------------------------------------------------------------------ *)

(* every step of every history is an independent send: nothing is carried over from earlier steps *)
Lemma send_hist_independent buflen sid : forall steps rs,
  send_hist buflen sid steps = Ok rs ->
  length rs = length steps /\
  forall i s, nth_error steps i = Some s ->
    exists r, nth_error rs i = Some r /\
      send buflen (st_env s) (st_pid s) sid (st_addr s) (st_data s) = Ok r.
Proof.
  induction steps as [|s t IH]; intros rs H; cbn [send_hist] in H.
  - injection H as <-. split; [reflexivity|]. intros [|i] ? Hn; discriminate.
  - destruct (send buflen (st_env s) (st_pid s) sid (st_addr s) (st_data s)) as [r| |] eqn:E; cbn [bind] in H;
      try discriminate.
    destruct (send_hist buflen sid t) as [rs'| |] eqn:E2; cbn [bind] in H; try discriminate.
    injection H as <-. destruct (IH rs' eq_refl) as [Hl Hi]. split; [cbn; now rewrite Hl|].
    intros [|i] s' Hs; cbn in Hs.
    + injection Hs as <-. exists r. auto.
    + apply Hi. exact Hs.
Qed.

Lemma feed_all_app : forall l1 l2 d d1 o1 d2 o2,
  feed_all d l1 = Ok (d1, o1) -> feed_all d1 l2 = Ok (d2, o2) ->
  feed_all d (l1 ++ l2) = Ok (d2, o1 ++ o2).
Proof.
  induction l1 as [|m t IH]; intros l2 d d1 o1 d2 o2 H1 H2; cbn [feed_all app] in *.
  - injection H1 as <- <-. exact H2.
  - destruct (feed d m) as [[dm o]| |] eqn:E1; cbn [bind] in *; try discriminate.
    destruct (feed_all dm t) as [[dt os]| |] eqn:E2; cbn [bind] in *; try discriminate.
    injection H1 as <- <-.
    rewrite (IH l2 dm dt os d2 o2 E2 H2). cbn [bind]. destruct o; reflexivity.
Qed.

Definition hist_accepted (rs : list (list (msg * ioout) * sret)) : list msg :=
  concat (map (fun r => accepted (fst r)) rs).

Definition hist_delivered (buflen : nat) (sid : N) (ls : list (Z * sstep)) : list msg :=
  concat (map (fun p => delivered buflen sid (fst p) (snd p)) ls).

(* A whole history: the limit is arbitrary from one send to the next (constant, growing, shrinking,
   oscillating ...) and stays put during each send; the fresh ids are pairwise distinct.  Every send
   returns nil and the far side - one Defragger for the whole history - emits exactly the messages that fit
   the limit in force when they were sent, in order, byte-identical, and nothing else. *)
Lemma send_hist_delivers buflen sid : forall (ls : list (Z * sstep)) d0,
  (forall L s, In (L, s) ls -> forall i, st_env s i = RLim L) ->
  NoDup (map (fun p => st_pid (snd p)) ls) ->
  (d_frags d0 = [] \/ ~ In (d_pid d0) (map (fun p => st_pid (snd p)) ls)) ->
  exists rs d', send_hist buflen sid (map snd ls) = Ok rs /\
    Forall (fun r => snd r = SNil) rs /\
    feed_all d0 (hist_accepted rs) = Ok (d', hist_delivered buflen sid ls).
Proof.
  induction ls as [|[L s] t IH]; intros d0 Henv Hnd Hd0.
  - exists [], d0. repeat split; constructor.
  - cbn [map snd fst] in *. inversion Hnd as [|? ? Hnin Hnd']; subst.
    assert (Hd0' : d_pid d0 <> st_pid s \/ d_frags d0 = []).
    { destruct Hd0 as [H|H]; [right; exact H|left]. intros E. apply H. left. now rewrite E. }
    destruct (send_delivers buflen (st_env s) L (st_pid s) sid (st_addr s) (st_data s) d0
                (Henv L s (or_introl eq_refl)) Hd0') as (evs & d1 & Hs & Hf & Hd1).
    assert (Hd1' : d_frags d1 = [] \/ ~ In (d_pid d1) (map (fun p => st_pid (snd p)) t)).
    { destruct Hd1 as [->|E].
      - destruct Hd0 as [H|H]; [left; exact H|right]. intros Hin. apply H. right. exact Hin.
      - right. rewrite E. exact Hnin. }
    destruct (IH d1 (fun L' s' Hin => Henv L' s' (or_intror Hin)) Hnd' Hd1') as (rs & d' & Hh & Hall & Hfa).
    exists ((evs, SNil) :: rs), d'. cbn [send_hist]. rewrite Hs. cbn [bind]. rewrite Hh. cbn [bind].
    split; [reflexivity|]. split; [constructor; [reflexivity|exact Hall]|].
    unfold hist_accepted, hist_delivered. cbn [map concat fst snd].
    destruct s as [e p a d]. cbn [st_env st_pid st_addr st_data] in *.
    eapply feed_all_app; [exact Hf|exact Hfa].
Qed.

(* ------------------------------------------------------------------ *)
(* 4. non-vacuity: a concrete history with a limit that shrinks, grows and oscillates *)
(* ------------------------------------------------------------------ *)
Local Open Scope N_scope.

Definition ex_a : list byte := [x61; x3a; x35; x33].
Definition ex_hist : list (Z * sstep) :=
  [ (30%Z, mkStep (fun _ => RLim 30) 1001 ex_a (repeat x01 40));     (* split in 3 *)
    (17%Z, mkStep (fun _ => RLim 17) 1002 ex_a (repeat x02 40));     (* limit shrank: split in 10 *)
    (13%Z, mkStep (fun _ => RLim 13) 1003 ex_a (repeat x03 3));      (* budget 0: discarded *)
    (60%Z, mkStep (fun _ => RLim 60) 1004 ex_a (repeat x04 40));     (* grew: whole *)
    (14%Z, mkStep (fun _ => RLim 14) 1005 ex_a (repeat x05 255));    (* 255 fragments of 1 byte *)
    (14%Z, mkStep (fun _ => RLim 14) 1006 ex_a (repeat x06 256)) ].  (* 256 would be needed: discarded *)

Lemma ex_hist_delivered :
  map (fun m => (pid m, length (data m))) (hist_delivered 4096 7 ex_hist) =
  [(1001, 40%nat); (1002, 40%nat); (0, 40%nat); (1005, 255%nat)].
Proof. vm_compute. reflexivity. Qed.

Lemma ex_hist_run : exists rs d',
  send_hist 4096 7 (map snd ex_hist) = Ok rs /\
  map (fun r => length (fst r)) rs = [4; 11; 1; 1; 256; 1]%nat /\
  feed_all d_init (hist_accepted rs) = Ok (d', hist_delivered 4096 7 ex_hist).
Proof.
  destruct (send_hist 4096 7 (map snd ex_hist)) as [rs| |] eqn:E; try (vm_compute in E; discriminate).
  destruct (feed_all d_init (hist_accepted rs)) as [[d' o]| |] eqn:F;
    try (revert F; vm_compute in E; injection E as <-; vm_compute; discriminate).
  exists rs, d'. split; [reflexivity|].
  revert F. vm_compute in E. injection E as <-. vm_compute. intros [= <- <-]. split; reflexivity.
Qed.
