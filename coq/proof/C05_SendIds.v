(* C05 proofs: histories of sends under the exact id requirement [fresh_ids] and under the observable
   window form [win_distinct] (model/C05_SendIds.v). *)
From Hy Require Import model.C05_Frag model.C05_Send model.C05_SendIds proof.C05_Frag proof.C05_Send.
From Coq Require Import ZArith Lia ZifyBool ZifyNat ZifyN.
Ltac Zify.zify_post_hook ::= Z.div_mod_to_equations.
Local Open Scope nat_scope.

(* the first fragment of a new message takes the slot *)
Lemma feed_pid_new d m d' o :
  feed d m = Ok (d', o) -> (1 < fcount m)%N -> (fid m < fcount m)%N ->
  (d_pid d <> pid m \/ d_frags d = []) -> d_pid d' = pid m.
Proof.
  unfold feed. intros H Hc Hf Hd.
  destruct (N.leb_spec (fcount m) 1); [lia|].
  destruct (N.leb_spec (fcount m) (fid m)); [lia|].
  assert (E : negb (pid m =? d_pid d)%N || negb (fcount m =? N.of_nat (length (d_frags d)) mod 256)%N = true).
  { destruct Hd as [Hd|Hd].
    - destruct (N.eqb_spec (pid m) (d_pid d)); [congruence|reflexivity].
    - rewrite Hd. cbn [length]. change (N.of_nat 0 mod 256)%N with 0%N.
      destruct (N.eqb_spec (fcount m) 0); [lia|]. now rewrite Bool.orb_true_r. }
  rewrite E in H. destruct (Nat.ltb _ _); [|discriminate]. injection H as <- _. reflexivity.
Qed.

Lemma feed_all_keeps_pid np : forall l d d' outs,
  feed_all d l = Ok (d', outs) -> d_pid d = np -> (forall f, In f l -> pid f = np) -> d_pid d' = np.
Proof.
  intros l d d' outs H Hd Hl. destruct (feed_all_pid l d d' outs H) as [->|(f & Hf & Hp)]; [exact Hd|].
  rewrite Hp. now apply Hl.
Qed.

(* send_delivers once more, saying WHEN the far side's slot changes: only when the message was split; a message
   that goes out whole, is dropped or discarded leaves the Defragger exactly as it was - whatever id was drawn. *)
Lemma send_delivers_sharp buflen env L np sid a d d0 :
  (forall i, env i = RLim L) ->
  (splits buflen sid L (mkStep env np a d) = true -> d_pid d0 <> np \/ d_frags d0 = []) ->
  exists evs d', send buflen env np sid a d = Ok (evs, SNil) /\
    feed_all d0 (accepted evs) = Ok (d', delivered buflen sid L (mkStep env np a d)) /\
    ((d' = d0 /\ splits buflen sid L (mkStep env np a d) = false) \/
     (d_pid d' = np /\ splits buflen sid L (mkStep env np a d) = true)).
Proof.
  intros Henv Hd0. unfold delivered, splits in *. cbn [st_addr st_data step_msg st_pid] in *.
  set (m := whole sid 0 a d) in *. set (m' := whole sid np a d).
  assert (Hun : send buflen env np sid a d =
                match io_send buflen (env 0) m with
                | OTooLarge L0 => fs <- frag m' L0 ;; let r := send_frags buflen env 1 fs in
                                  Ok ((m, io_send buflen (env 0) m) :: fst r, snd r)
                | o => Ok ([(m, o)], ret_of o)
                end).
  { unfold send. fold m. fold m'. destruct (io_send buflen (env 0) m); reflexivity. }
  rewrite Hun. clear Hun.
  destruct (Nat.ltb_spec buflen (size m)) as [Hb|Hb].
  { assert (E : io_send buflen (env 0) m = ODrop).
    { unfold io_send. destruct (Nat.ltb_spec buflen (size m)); [reflexivity|lia]. }
    assert (Ef : fits buflen L m = false).
    { unfold fits. destruct (Nat.leb_spec (size m) buflen); [lia|]. reflexivity. }
    rewrite E, Ef. exists [(m, ODrop)], d0. split; [reflexivity|]. split; [reflexivity|]. left. auto. }
  destruct (Z.ltb_spec L (Z.of_nat (size m))) as [HL|HL].
  2:{ assert (E : io_send buflen (env 0) m = OAccept).
    { unfold io_send. rewrite Henv. destruct (Nat.ltb_spec buflen (size m)); [lia|].
      destruct (Z.ltb_spec L (Z.of_nat (size m))); [lia|reflexivity]. }
    assert (Ef : fits buflen L m = true).
    { unfold fits. destruct (Nat.leb_spec (size m) buflen); [|lia].
      destruct (Z.leb_spec (Z.of_nat (size m)) L); [|lia]. reflexivity. }
    rewrite E, Ef. exists [(m, OAccept)], d0. split; [reflexivity|].
    destruct (Z.leb_spec (Z.of_nat (size m)) L); [|lia].
    split; [reflexivity|]. left. split; [reflexivity|]. apply Bool.andb_false_r. }
  assert (E : io_send buflen (env 0) m = OTooLarge L).
  { unfold io_send. rewrite Henv. destruct (Nat.ltb_spec buflen (size m)); [lia|].
    destruct (Z.ltb_spec L (Z.of_nat (size m))); [reflexivity|lia]. }
  rewrite E.
  assert (Hbig : (Z.of_nat (size m') > L)%Z) by (unfold m'; rewrite size_whole; fold m; lia).
  destruct (frag_total m' L) as [fs Efs]. rewrite Efs. cbn [bind].
  destruct (Z.leb_spec (Z.of_nat (size m)) L) as [Hc|_]; [lia|].
  destruct (frag_split_cases m' L fs Efs) as [[Hc _]|[[_ ->]|(_ & Hsp & HF)]]; [lia| |].
  - assert (Ef : fits buflen L m = false).
    { replace (fits buflen L m) with (fits buflen L m') by reflexivity.
      apply (fits_false_of_discard buflen L m' Hbig Efs). }
    cbn [send_frags fst snd]. rewrite Ef. exists [(m, OTooLarge L)], d0. split; [reflexivity|].
    split; [reflexivity|]. left. auto.
  - assert (HF2 : Forall (fun f => size f <= buflen /\ (Z.of_nat (size f) <= L)%Z) fs).
    { rewrite Forall_forall in *. intros f Hf. split; [|auto].
      destruct Hsp as (_ & _ & Hsh). destruct (In_nth_error fs f Hf) as [i Hi].
      destruct (Hsh i f Hi) as (_ & _ & _ & _ & _ & _ & Hlen & Hh).
      unfold size in *. rewrite Hh. change (header_size m') with (header_size m) in *.
      change (data m') with (data m) in *. lia. }
    rewrite (send_frags_all_accepted buflen env L Henv fs 1 HF2). cbn [fst snd].
    assert (Hlen : 2 <= length fs) by (destruct Hsp as ((? & _) & _); lia).
    assert (Hne : fs <> []) by (intros ->; cbn in Hlen; lia).
    assert (Hfit : fits buflen L m = true).
    { replace (fits buflen L m) with (fits buflen L m') by reflexivity.
      apply (fits_true_of_split buflen L m' fs); auto; unfold m'; rewrite size_whole; exact Hb. }
    assert (Hspl : fits buflen L m && true = true) by (rewrite Hfit; reflexivity).
    specialize (Hd0 Hspl).
    destruct (reassemble_any_order m' L fs fs d0 eq_refl eq_refl Efs Hlen (fun f H => H) (fun f H => H))
      as [d' Hfa]; [exact Hd0|].
    exists ((m, OTooLarge L) :: map (fun f => (f, OAccept)) fs), d'. split; [reflexivity|].
    assert (Eacc : accepted ((m, OTooLarge L) :: map (fun f => (f, OAccept)) fs) = fs).
    { unfold accepted. cbn [filter snd]. apply accepted_all. }
    rewrite Eacc. rewrite Hfit.
    split; [exact Hfa|]. right. split; [|reflexivity].
    (* the first fragment takes the slot, the others keep it *)
    destruct Hsp as ((_ & Hle) & _ & Hsh).
    assert (Hpids : forall f, In f fs -> pid f = np).
    { intros f Hf. destruct (In_nth_error fs f Hf) as [i Hi]. destruct (Hsh i f Hi) as (_ & Hpid & _). exact Hpid. }
    destruct fs as [|f0 rest]; [congruence|].
    destruct (Hsh 0 f0 eq_refl) as (_ & Hp0 & _ & Hfid0 & Hfc0 & _).
    cbn [feed_all] in Hfa.
    destruct (feed d0 f0) as [[d1 o1]| |] eqn:E1; cbn [bind] in Hfa; try discriminate.
    destruct (feed_all d1 rest) as [[d2 os]| |] eqn:E2; cbn [bind] in Hfa; try discriminate.
    assert (Hd2 : d2 = d') by (injection Hfa as -> _; reflexivity). subst d2.
    assert (Hd1 : d_pid d1 = np).
    { assert (Hp0' : pid f0 = np) by exact Hp0.
      rewrite <- Hp0'. apply (feed_pid_new d0 f0 d1 o1 E1).
      - rewrite Hfc0. cbn [length] in *. lia.
      - rewrite Hfid0, Hfc0. cbn [length]. lia.
      - rewrite Hp0'. exact Hd0. }
    apply (feed_all_keeps_pid np rest d1 d' os E2 Hd1). intros f Hf. apply Hpids. right. exact Hf.
Qed.

(* Histories under the exact requirement: every message that is split carries an id different from the id of
   the most recent earlier message that was split (cur = what the far side's slot may hold at the start). *)
Lemma send_hist_delivers_fresh buflen sid : forall (ls : list (Z * sstep)) d0 cur,
  (forall L s, In (L, s) ls -> forall i, st_env s i = RLim L) ->
  (d_frags d0 = [] \/ cur = Some (d_pid d0)) ->
  fresh_ids buflen sid cur ls ->
  exists rs d', send_hist buflen sid (map snd ls) = Ok rs /\
    Forall (fun r => snd r = SNil) rs /\
    feed_all d0 (hist_accepted rs) = Ok (d', hist_delivered buflen sid ls).
Proof.
  induction ls as [|[L s] t IH]; intros d0 cur Henv Hd0 Hfr.
  - exists [], d0. repeat split; constructor.
  - cbn [map snd fst fresh_ids] in *.
    destruct s as [e p a d]. cbn [st_env st_pid st_addr st_data] in *.
    assert (Hd0' : splits buflen sid L (mkStep e p a d) = true -> d_pid d0 <> p \/ d_frags d0 = []).
    { intros Hs. rewrite Hs in Hfr. destruct Hfr as [Hne _].
      destruct Hd0 as [H|H]; [right; exact H|left]. intros E. apply Hne. rewrite H, E. reflexivity. }
    destruct (send_delivers_sharp buflen e L p sid a d d0 (Henv L _ (or_introl eq_refl)) Hd0')
      as (evs & d1 & Hs & Hf & Hd1).
    assert (Hnext : exists cur', (d_frags d1 = [] \/ cur' = Some (d_pid d1)) /\ fresh_ids buflen sid cur' t).
    { destruct Hd1 as [[-> Hspl]|[E Hspl]]; rewrite Hspl in Hfr.
      - exists cur. split; [exact Hd0|exact Hfr].
      - destruct Hfr as [_ Hfr]. exists (Some p). split; [right; now rewrite E|exact Hfr]. }
    destruct Hnext as (cur' & Hd1' & Hfr').
    destruct (IH d1 cur' (fun L' s' Hin => Henv L' s' (or_intror Hin)) Hd1' Hfr') as (rs & d' & Hh & Hall & Hfa).
    exists ((evs, SNil) :: rs), d'. cbn [send_hist st_env st_pid st_addr st_data]. rewrite Hs. cbn [bind]. rewrite Hh. cbn [bind].
    split; [reflexivity|]. split; [constructor; [reflexivity|exact Hall]|].
    unfold hist_accepted, hist_delivered. cbn [map concat fst snd].
    eapply feed_all_app; [exact Hf|exact Hfa].
Qed.

(* ------------------------------------------------------------------ *)
(* the observable form: window distinctness                             *)
(* ------------------------------------------------------------------ *)

Lemma win_distinct_head w x y t : 2 <= w -> win_distinct w (x :: y :: t) = true -> x <> y.
Proof.
  intros Hw H. cbn [win_distinct] in H. apply Bool.andb_true_iff in H as [H _].
  destruct w as [|[|w]]; try lia. cbn [Nat.sub notin_first] in H.
  apply Bool.andb_true_iff in H as [H _]. apply Bool.negb_true_iff in H.
  apply N.eqb_neq. exact H.
Qed.

Lemma win_distinct_tail w x t : win_distinct w (x :: t) = true -> win_distinct w t = true.
Proof. cbn [win_distinct]. intros H. apply Bool.andb_true_iff in H as [_ H]. exact H. Qed.

(* a history in which every message is split: ids distinct within any window of w >= 2 consecutive sends are fresh *)
Lemma fresh_of_window buflen sid w : 2 <= w -> forall (ls : list (Z * sstep)) cur,
  (forall p, In p ls -> splits buflen sid (fst p) (snd p) = true) ->
  win_distinct w (map (fun p => st_pid (snd p)) ls) = true ->
  (match ls with [] => True | p :: _ => cur <> Some (st_pid (snd p)) end) ->
  fresh_ids buflen sid cur ls.
Proof.
  intros Hw. induction ls as [|p t IH]; intros cur Hall Hwin Hcur; cbn [fresh_ids]; [exact I|].
  rewrite (Hall p (or_introl eq_refl)). split; [exact Hcur|].
  apply IH.
  - intros q Hq. apply Hall. right. exact Hq.
  - cbn [map] in Hwin. eapply win_distinct_tail. exact Hwin.
  - destruct t as [|q t']; [exact I|]. cbn [map] in Hwin.
    intros E. injection E as E. revert E. apply (win_distinct_head w _ _ _ Hw Hwin).
Qed.

(* NoDup is a special case of the exact requirement *)
Lemma fresh_of_nodup buflen sid : forall (ls : list (Z * sstep)) cur,
  NoDup (map (fun p => st_pid (snd p)) ls) ->
  (forall x, cur = Some x -> ~ In x (map (fun p => st_pid (snd p)) ls)) ->
  fresh_ids buflen sid cur ls.
Proof.
  induction ls as [|p t IH]; intros cur Hnd Hcur; cbn [fresh_ids]; [exact I|].
  cbn [map] in *. inversion Hnd as [|? ? Hnin Hnd']; subst.
  destruct (splits buflen sid (fst p) (snd p)).
  - split.
    + intros E. apply (Hcur _ E). left. reflexivity.
    + apply IH; [exact Hnd'|]. intros x [= <-]. exact Hnin.
  - apply IH; [exact Hnd'|]. intros x E Hin. apply (Hcur x E). right. exact Hin.
Qed.

Lemma send_hist_delivers_window buflen sid w : forall (ls : list (Z * sstep)) d0,
  (2 <= w)%nat ->
  (forall L s, In (L, s) ls -> forall i, st_env s i = RLim L) ->
  (forall p, In p ls -> splits buflen sid (fst p) (snd p) = true) ->
  win_distinct w (map (fun p => st_pid (snd p)) ls) = true ->
  d_frags d0 = [] ->
  exists rs d', send_hist buflen sid (map snd ls) = Ok rs /\
    Forall (fun r => snd r = SNil) rs /\
    feed_all d0 (hist_accepted rs) = Ok (d', hist_delivered buflen sid ls).
Proof.
  intros ls d0 Hw Henv Hall Hwin Hd0.
  apply (send_hist_delivers_fresh buflen sid ls d0 None Henv (or_introl Hd0)).
  apply (fresh_of_window buflen sid w Hw ls None Hall Hwin).
  destruct ls; [exact I|discriminate].
Qed.

(* the adjacent repeat the exact requirement excludes really loses a message: two messages split in two under the
   same id, back to back, loss-free channel - the far side returns the first and ignores the second *)
Local Open Scope N_scope.
Definition ex_rep : list (Z * sstep) :=
  [ (30%Z, mkStep (fun _ => RLim 30) 1 ex_a (repeat x01 30));
    (30%Z, mkStep (fun _ => RLim 30) 1 ex_a (repeat x02 30)) ].

Lemma ex_rep_loses : exists rs d' outs,
  send_hist 4096 7 (map snd ex_rep) = Ok rs /\
  feed_all d_init (hist_accepted rs) = Ok (d', outs) /\
  length outs = 1%nat /\ length (hist_delivered 4096 7 ex_rep) = 2%nat.
Proof. vm_compute. eexists _, _, _. repeat split. Qed.
