(* C05, reassembly through the session managers: proofs about model/C05_Sess.v.
   - sessions do not interfere: what a session is handed, and its table entry, depend only on the operations that
     concern it (sess_isolated);
   - a fragmented message that OPENS a session (no entry yet, or entry removed by the idle sweeper) is delivered
     exactly once, byte-identical, in every arrival order with duplicates, whatever other sessions do meanwhile
     (sess_opening_delivers, sess_reopen_delivers);
   - the two variants (stray-fragment guard, one shared reassembler) are refuted by concrete histories. *)
From Hy Require Import model.C05_Frag model.C05_Sess proof.C05_Frag.
From Coq Require Import ZArith Lia ZifyBool ZifyNat ZifyN.
Local Open Scope N_scope.

Definition agree (s : N) (a b : mstate) : Prop :=
  ms_tab a s = ms_tab b s /\ ms_now a = ms_now b /\ ms_next a = ms_next b.

Lemma agree_refl s a : agree s a a.
Proof. repeat split. Qed.

Lemma feed_out_sid d m d1 x : feed d m = Ok (d1, Some x) -> sid x = sid m.
Proof.
  unfold feed. intros H.
  destruct (fcount m <=? 1); [injection H as _ <-; reflexivity|].
  destruct (fcount m <=? fid m); [discriminate|].
  destruct (negb (pid m =? d_pid d) || negb (fcount m =? N.of_nat (length (d_frags d)) mod 256)).
  { destruct (Nat.ltb _ _); discriminate. }
  destruct (nth_error (d_frags d) (N.to_nat (fid m))) as [[g|]|]; try discriminate.
  destruct (_ =? _); [|discriminate].
  destruct (forallb _ _); [|discriminate].
  injection H as _ <-. reflexivity.
Qed.

(* ---- the sweeper acts on every entry by itself ---- *)
Lemma sweep_at_local timeout T t t' s : t s = t' s -> sweep_at timeout T t s = sweep_at timeout T t' s.
Proof. unfold sweep_at. intros ->. reflexivity. Qed.

Lemma sweep_ticks_local iv timeout s : forall k T t t',
  t s = t' s -> sweep_ticks iv timeout k T t s = sweep_ticks iv timeout k T t' s.
Proof.
  induction k as [|k IH]; intros T t t' H; cbn [sweep_ticks]; [exact H|].
  apply IH, sweep_at_local, H.
Qed.

Lemma sweep_ticks_none iv timeout s : forall k T t, t s = None -> sweep_ticks iv timeout k T t s = None.
Proof.
  induction k as [|k IH]; intros T t H; cbn [sweep_ticks]; [exact H|].
  apply IH. unfold sweep_at. rewrite H. reflexivity.
Qed.

(* an entry whose last traffic is more than the timeout before the LAST of k+1 ticks is gone after them *)
Lemma sweep_ticks_expires iv timeout s e : forall k T t,
  t s = Some e -> timeout < T + N.of_nat k * iv - se_last e ->
  sweep_ticks iv timeout (S k) T t s = None.
Proof.
  induction k as [|k IH]; intros T t Hs Hlt.
  - cbn [sweep_ticks]. unfold sweep_at. rewrite Hs.
    replace (timeout <? T - se_last e) with true; [reflexivity|]. symmetry. apply N.ltb_lt. lia.
  - change (sweep_ticks iv timeout (S (S k)) T t s) with (sweep_ticks iv timeout (S k) (T + iv) (sweep_at timeout T t) s).
    destruct (sweep_at timeout T t s) as [e'|] eqn:E.
    + assert (e' = e).
      { unfold sweep_at in E. rewrite Hs in E. destruct (timeout <? T - se_last e); congruence. }
      subst e'. apply IH; [exact E|]. lia.
    + apply sweep_ticks_none, E.
Qed.

(* ---- one step, seen from session s ---- *)
Lemma step_other iv timeout s st o st1 out :
  concerns s o = false -> sm_step iv timeout st o = Ok (st1, out) ->
  agree s st st1 /\ (forall x, out = Some x -> sid x <> s).
Proof.
  intros Hc H. destruct o as [m|m|d| |k]; cbn [concerns] in Hc; try discriminate.
  - cbn [sm_step] in H.
    destruct (feed _ m) as [[d1 o1]| |] eqn:F; cbn [bind] in H; try discriminate.
    injection H as <- <-. cbn [fst snd]. split.
    + repeat split. cbn [ms_tab]. unfold tab_set. rewrite N.eqb_sym, Hc. reflexivity.
    + intros x ->. rewrite (feed_out_sid _ _ _ _ F). apply N.eqb_neq, Hc.
  - cbn [sm_step] in H. destruct (ms_tab st (sid m)) as [e|].
    + destruct (feed _ m) as [[d1 o1]| |] eqn:F; cbn [bind] in H; try discriminate.
      injection H as <- <-. cbn [fst snd]. split.
      * repeat split. cbn [ms_tab]. unfold tab_set. rewrite N.eqb_sym, Hc. reflexivity.
      * intros x ->. rewrite (feed_out_sid _ _ _ _ F). apply N.eqb_neq, Hc.
    + injection H as <- <-. split; [apply agree_refl|discriminate].
  - cbn [sm_step] in H. injection H as <- <-. split; [|discriminate].
    repeat split. cbn [ms_tab]. unfold tab_del. rewrite N.eqb_sym, Hc. reflexivity.
Qed.

Lemma step_same iv timeout s st st' o st1 out :
  concerns s o = true -> agree s st st' -> sm_step iv timeout st o = Ok (st1, out) ->
  exists st1', sm_step iv timeout st' o = Ok (st1', out) /\ agree s st1 st1' /\
               (forall x, out = Some x -> sid x = s).
Proof.
  intros Hc (Ht & Hn & Hx) H. destruct o as [m|m|d| |k]; cbn [concerns] in Hc.
  - apply N.eqb_eq in Hc. cbn [sm_step] in *. rewrite Hc in *. rewrite <- Ht, <- Hn, <- Hx.
    destruct (feed _ m) as [[d1 o1]| |] eqn:F; cbn [bind] in *; try discriminate.
    injection H as <- <-. cbn [fst snd]. eexists. split; [reflexivity|]. split.
    + repeat split. cbn [ms_tab]. unfold tab_set. rewrite N.eqb_refl. reflexivity.
    + intros x ->. rewrite (feed_out_sid _ _ _ _ F). exact Hc.
  - apply N.eqb_eq in Hc. cbn [sm_step] in *. rewrite Hc in *. rewrite <- Ht.
    destruct (ms_tab st s) as [e|] eqn:E.
    + rewrite <- Hn, <- Hx.
      destruct (feed _ m) as [[d1 o1]| |] eqn:F; cbn [bind] in *; try discriminate.
      injection H as <- <-. cbn [fst snd]. eexists. split; [reflexivity|]. split.
      * repeat split. cbn [ms_tab]. unfold tab_set. rewrite N.eqb_refl. reflexivity.
      * intros x ->. rewrite (feed_out_sid _ _ _ _ F). exact Hc.
    + injection H as <- <-. eexists. split; [reflexivity|]. split; [repeat split; congruence|discriminate].
  - cbn [sm_step] in *. rewrite <- Hn, <- Hx. injection H as <- <-.
    eexists. split; [reflexivity|]. split; [|discriminate].
    repeat split. cbn [ms_tab]. unfold sleep_tab. apply sweep_ticks_local, Ht.
  - cbn [sm_step] in *. rewrite <- Hn, <- Hx. injection H as <- <-.
    eexists. split; [reflexivity|]. split; [|discriminate].
    repeat split. cbn [ms_tab]. unfold tab_set. destruct (s =? ms_next st); [reflexivity|exact Ht].
  - cbn [sm_step] in *. rewrite <- Hn, <- Hx. injection H as <- <-.
    eexists. split; [reflexivity|]. split; [|discriminate].
    repeat split. cbn [ms_tab]. unfold tab_del. destruct (s =? k); [reflexivity|exact Ht].
Qed.

(* ---- sessions do not interfere ---- *)
Lemma sess_isolated : forall iv timeout s ops st st' st1 outs,
  agree s st st' ->
  sm_run iv timeout st ops = Ok (st1, outs) ->
  exists st1', sm_run iv timeout st' (filter (concerns s) ops) = Ok (st1', of_session s outs) /\
               agree s st1 st1'.
Proof.
  intros iv timeout s. induction ops as [|o t IH]; intros st st' st1 outs Ha H.
  - cbn in H. injection H as <- <-. exists st'. split; [reflexivity|exact Ha].
  - cbn [sm_run] in H.
    destruct (sm_step iv timeout st o) as [[sta out]| |] eqn:S1; cbn [bind fst snd] in H; try discriminate.
    destruct (sm_run iv timeout sta t) as [[stb outs2]| |] eqn:R; cbn [bind fst snd] in H; try discriminate.
    injection H as <- <-. cbn [filter].
    destruct (concerns s o) eqn:Hc.
    + destruct (step_same iv timeout s st st' o sta out Hc Ha S1) as (sta' & S1' & Ha' & Hout).
      destruct (IH sta sta' stb outs2 Ha' R) as (stb' & R' & Hb).
      exists stb'. split; [|exact Hb].
      cbn [sm_run]. rewrite S1'. cbn [bind fst snd]. rewrite R'. cbn [bind fst snd].
      destruct out as [x|]; [|reflexivity].
      unfold of_session at 2. cbn [filter]. rewrite (Hout x eq_refl), N.eqb_refl. reflexivity.
    + destruct (step_other iv timeout s st o sta out Hc S1) as ((Ht & Hn & Hx) & Hout).
      assert (Ha' : agree s sta st').
      { destruct Ha as (A & B & C). repeat split; congruence. }
      destruct (IH sta st' stb outs2 Ha' R) as (stb' & R' & Hb).
      exists stb'. split; [|exact Hb]. rewrite R'.
      destruct out as [x|]; [|reflexivity].
      unfold of_session at 2. cbn [filter].
      replace (sid x =? s) with false; [reflexivity|]. symmetry. apply N.eqb_neq, (Hout x eq_refl).
Qed.

(* ---- a history of arrivals of ONE session on the server is a history of its reassembler ---- *)
Definition cur_d (st : mstate) (s : N) : dstate :=
  match ms_tab st s with Some e => se_d e | None => d_init end.

Lemma run_single iv timeout s : forall seq st d' outs,
  (forall f, In f seq -> sid f = s) ->
  feed_all (cur_d st s) seq = Ok (d', outs) ->
  exists st', sm_run iv timeout st (map MArrS seq) = Ok (st', outs) /\ cur_d st' s = d'.
Proof.
  induction seq as [|f t IH]; intros st d' outs Hs H.
  - cbn in H. injection H as <- <-. exists st. split; reflexivity.
  - cbn [feed_all] in H.
    destruct (feed (cur_d st s) f) as [[d1 o1]| |] eqn:F; cbn [bind] in H; try discriminate.
    destruct (feed_all d1 t) as [[d2 os]| |] eqn:FA; cbn [bind] in H; try discriminate.
    injection H as <- <-.
    assert (Hf : sid f = s) by (apply Hs; left; reflexivity).
    set (st1 := mkMS (tab_set s (mkSE d1 (ms_now st)) (ms_tab st)) (ms_now st) (ms_next st)).
    assert (S1 : sm_step iv timeout st (MArrS f) = Ok (st1, o1)).
    { cbn [sm_step]. rewrite Hf. unfold cur_d in F.
      destruct (ms_tab st s) as [e|]; cbn [se_d] in *; rewrite F; reflexivity. }
    assert (Hc : cur_d st1 s = d1).
    { unfold cur_d, st1. cbn [ms_tab]. unfold tab_set. rewrite N.eqb_refl. reflexivity. }
    rewrite <- Hc in FA.
    destruct (IH st1 d2 os (fun g Hg => Hs g (or_intror Hg)) FA) as (st' & R & Hd).
    exists st'. split; [|exact Hd].
    cbn [map sm_run]. rewrite S1. cbn [bind fst snd]. rewrite R. reflexivity.
Qed.

Lemma filter_arrivals s : forall ops, (forall o, In o ops -> is_arrS o) ->
  filter (concerns s) ops = map MArrS (arrivals_of s ops).
Proof.
  induction ops as [|o t IH]; intros H; [reflexivity|].
  pose proof (H o (or_introl eq_refl)) as Ho.
  destruct o as [m| | | |]; cbn in Ho; try contradiction.
  cbn [filter concerns arrivals_of].
  rewrite (IH (fun o Ho => H o (or_intror Ho))).
  destruct (sid m =? s); reflexivity.
Qed.

Lemma arrivals_sid s : forall ops f, In f (arrivals_of s ops) -> sid f = s.
Proof.
  induction ops as [|o t IH]; intros f H; [destruct H|].
  destruct o as [m| | | |]; cbn [arrivals_of] in H; try (apply IH; exact H).
  destruct (sid m =? s) eqn:E; [|apply IH; exact H].
  destruct H as [<-|H]; [apply N.eqb_eq, E|apply IH; exact H].
Qed.

(* ---- a fragmented message that opens its session ---- *)
Lemma sess_opening_delivers : forall iv timeout st ops m maxSize fs st1 outs,
  fid m = 0 -> fcount m = 1 ->
  frag m maxSize = Ok fs -> (2 <= length fs)%nat ->
  ms_tab st (sid m) = None ->
  (forall o, In o ops -> is_arrS o) ->
  (forall f, In f (arrivals_of (sid m) ops) -> In f fs) ->
  (forall f, In f fs -> In f (arrivals_of (sid m) ops)) ->
  sm_run iv timeout st ops = Ok (st1, outs) ->
  of_session (sid m) outs = [m].
Proof.
  intros iv timeout st ops m maxSize fs st1 outs Hfid Hfc Hfrag Hlen Hnone Harr Hsub Hsup Hrun.
  destruct (sess_isolated iv timeout (sid m) ops st st st1 outs (agree_refl _ _) Hrun) as (st1' & R & _).
  rewrite (filter_arrivals (sid m) ops Harr) in R.
  destruct (reassemble_any_order m maxSize fs (arrivals_of (sid m) ops) d_init Hfid Hfc Hfrag Hlen Hsub Hsup
              (or_intror eq_refl)) as (d' & FA).
  assert (Hcur : cur_d st (sid m) = d_init) by (unfold cur_d; rewrite Hnone; reflexivity).
  rewrite <- Hcur in FA.
  destruct (run_single iv timeout (sid m) _ st d' [m] (arrivals_sid (sid m) ops) FA) as (st2 & R2 & _).
  rewrite R2 in R. injection R as _ <-. reflexivity.
Qed.

(* the sweeper removes an entry that has been idle for the timeout plus one interval *)
Lemma sleep_expires iv timeout now d t s e :
  0 < iv -> iv <= d -> t s = Some e -> se_last e + timeout + iv <= now + d ->
  sleep_tab iv timeout now d t s = None.
Proof.
  intros Hiv Hd Hs Hidle. unfold sleep_tab.
  pose proof (N.div_mod' now iv) as Hq. pose proof (N.mod_lt now iv ltac:(lia)) as Hr.
  pose proof (N.div_mod' (now + d) iv) as Hq2. pose proof (N.mod_lt (now + d) iv ltac:(lia)) as Hr2.
  set (q := now / iv) in *. set (q2 := (now + d) / iv) in *.
  set (r := now mod iv) in *. set (r2 := (now + d) mod iv) in *.
  assert (Hqq : q < q2).
  { apply N.lt_nge. intros Hle.
    assert (iv * q2 <= iv * q) by (apply N.mul_le_mono_l; exact Hle). lia. }
  remember (N.to_nat (q2 - q)) as k eqn:Ek.
  destruct k as [|k]; [lia|].
  apply (sweep_ticks_expires iv timeout s e k); [exact Hs|].
  assert (Ek2 : N.of_nat k = q2 - q - 1) by lia.
  rewrite Ek2.
  replace ((q + 1) * iv + (q2 - q - 1) * iv) with (iv * q2).
  2:{ replace ((q + 1) * iv + (q2 - q - 1) * iv) with ((q + 1 + (q2 - q - 1)) * iv) by (rewrite N.mul_add_distr_r; reflexivity).
      replace (q + 1 + (q2 - q - 1)) with q2 by lia. apply N.mul_comm. }
  lia.
Qed.

(* ... so a fragmented message re-opens it in any arrival order *)
Lemma sess_reopen_delivers : forall iv timeout st d e ops m maxSize fs st1 outs,
  fid m = 0 -> fcount m = 1 ->
  frag m maxSize = Ok fs -> (2 <= length fs)%nat ->
  0 < iv -> iv <= d ->
  ms_tab st (sid m) = Some e -> se_last e + timeout + iv <= ms_now st + d ->
  (forall o, In o ops -> is_arrS o) ->
  (forall f, In f (arrivals_of (sid m) ops) -> In f fs) ->
  (forall f, In f fs -> In f (arrivals_of (sid m) ops)) ->
  sm_run iv timeout st (MSleep d :: ops) = Ok (st1, outs) ->
  of_session (sid m) outs = [m].
Proof.
  intros iv timeout st d e ops m maxSize fs st1 outs Hfid Hfc Hfrag Hlen Hiv Hd Hs Hidle Harr Hsub Hsup Hrun.
  cbn [sm_run sm_step bind fst snd] in Hrun.
  set (sta := mkMS (sleep_tab iv timeout (ms_now st) d (ms_tab st)) (ms_now st + d) (ms_next st)) in *.
  destruct (sm_run iv timeout sta ops) as [[stb outs2]| |] eqn:R; cbn [bind fst snd] in Hrun; try discriminate.
  injection Hrun as _ <-.
  apply (sess_opening_delivers iv timeout sta ops m maxSize fs stb outs2); auto.
  unfold sta. cbn [ms_tab]. apply (sleep_expires iv timeout (ms_now st) d (ms_tab st) (sid m) e); assumption.
Qed.

(* client: a message for a session that is not open changes nothing and is handed to nobody *)
Lemma client_unknown_ignored iv timeout st m :
  ms_tab st (sid m) = None -> sm_step iv timeout st (MArrC m) = Ok (st, None).
Proof. intros H. cbn [sm_step]. rewrite H. reflexivity. Qed.

(* ---- non-vacuity and the refuted variants: concrete histories ---- *)
Definition exs_A : msg := mkMsg 7 43 0 1 [x62; x63] [x0a; x0b; x0c; x0d; x0e; x0f; x10].
Definition exs_B : msg := mkMsg 9 43 0 1 [x62; x63] [x21; x22; x23; x24; x25; x26; x27].
Definition exs_fa : list msg := match frag exs_A 13 with Ok fs => fs | _ => [] end.
Definition exs_fb : list msg := match frag exs_B 13 with Ok fs => fs | _ => [] end.
Definition exs_nth (fs : list msg) (i : nat) : msg := nth i fs exs_A.

(* A (session 7) and B (session 9) carry the SAME packet id and count; each is split in 4; both open their session
   with a fragment other than fragment 0, the fragments alternate on the connection, one duplicate *)
Definition exs_ops : list mop :=
  [MArrS (exs_nth exs_fa 2); MArrS (exs_nth exs_fb 3); MArrS (exs_nth exs_fa 0); MArrS (exs_nth exs_fb 1);
   MArrS (exs_nth exs_fa 3); MArrS (exs_nth exs_fb 0); MArrS (exs_nth exs_fa 3); MArrS (exs_nth exs_fa 1);
   MArrS (exs_nth exs_fb 2)].

Lemma exs_run : length exs_fa = 4%nat /\ length exs_fb = 4%nat /\
  run_outs (sm_run 1000 3000 (ms_init 500) exs_ops) = Some [exs_A; exs_B].
Proof. split; [reflexivity|]. split; [reflexivity|]. vm_compute. reflexivity. Qed.

(* the stray-fragment guard loses A and B although every fragment arrived *)
Lemma sess_guard_refuted :
  run_outs (sm_run_guard 1000 3000 (ms_init 500) exs_ops) = Some [].
Proof. vm_compute. reflexivity. Qed.

(* one shared reassembler: with equal (id, count) across two sessions it hands on a payload nobody sent (where the
   table of per-session reassemblers hands on nothing); with distinct ids the alternating fragments of two sessions
   evict each other and both messages are lost (where the table delivers both) *)
Definition exs_ops_chimera : list mop := [MArrS (exs_nth exs_fa 0); MArrS (exs_nth exs_fb 1);
                                           MArrS (exs_nth exs_fa 2); MArrS (exs_nth exs_fb 3)].
Definition exs_C : msg := mkMsg 9 44 0 1 [x62; x63] [x21; x22; x23; x24; x25; x26; x27].
Definition exs_fc : list msg := match frag exs_C 13 with Ok fs => fs | _ => [] end.
Definition exs_ops_alt : list mop :=
  [MArrS (exs_nth exs_fa 0); MArrS (exs_nth exs_fc 0); MArrS (exs_nth exs_fa 1); MArrS (exs_nth exs_fc 1);
   MArrS (exs_nth exs_fa 2); MArrS (exs_nth exs_fc 2); MArrS (exs_nth exs_fa 3); MArrS (exs_nth exs_fc 3)].

Lemma sess_shared_refuted :
  (exists d' x, shared_run d_init exs_ops_chimera = Ok (d', [x]) /\ x <> exs_A /\ x <> exs_B) /\
  run_outs (sm_run 1000 3000 (ms_init 500) exs_ops_chimera) = Some [] /\
  (exists d', shared_run d_init exs_ops_alt = Ok (d', [])) /\
  run_outs (sm_run 1000 3000 (ms_init 500) exs_ops_alt) = Some [exs_A; exs_C].
Proof.
  split; [|split; [|split]].
  - eexists. eexists. split; [vm_compute; reflexivity|]. split; discriminate.
  - vm_compute. reflexivity.
  - eexists. vm_compute. reflexivity.
  - vm_compute. reflexivity.
Qed.
