(* C06 - proofs about the client's Close (model/C06_Close.v) *)
From Hy Require Import lib.Bytes model.C06_Relay model.C06_Request model.C06_Close.
From Coq Require Import List NArith.
Import ListNotations.

(* whatever the application did before - any Writes, any Reads or none, fast open or not - Close ends the send side
   with FIN: the server's end of the stream yields the request, every byte written behind it, then EOF *)
Lemma close_is_graceful write_req addr c0 h :
  upstream_of conn_close write_req addr c0 h = (client_stream write_req addr (payload_of h), Some UEOF).
Proof. reflexivity. Qed.

Lemma established_after c0 h : established (fold_left conn_after h c0) = established c0 || existsb (fun o => match o with CRead => true | _ => false end) h.
Proof.
  revert c0; induction h as [|o h IH]; intros c0; cbn.
  - destruct (established c0); auto.
  - rewrite IH. destruct o; cbn; auto. destruct (established c0); auto.
Qed.

(* the distinction matters: a Close that resets a connection that is not yet Established loses a one-way upload
   under fast open (TCP(); Write; Close, no Read), and only then *)
Lemma abort_unestablished_loses write_req addr p :
  snd (upstream_of conn_close_abort_unestablished write_req addr (mkConn false []) [CWrite p]) = Some UReset /\
  (forall c0 h, established c0 = true \/ In CRead h ->
     snd (upstream_of conn_close_abort_unestablished write_req addr c0 h) = Some UEOF).
Proof.
  split; [reflexivity|]. intros c0 h H. unfold upstream_of, conn_close_abort_unestablished. cbn.
  rewrite established_after. destruct H as [->|H]; [reflexivity|].
  replace (existsb _ h) with true; [destruct (established c0); reflexivity|].
  symmetry. apply existsb_exists. exists CRead. auto.
Qed.
