(* C06 - proofs about one proxied connection end to end over the real codecs (model/C06_E2E.v):
   the relay theorems of proof/C06_Relay.v composed with the round-trip / exact-consumption theorems of
   proof/C04_Framing.v.  No codec hypothesis is left. *)
From Hy Require Import model.C04_Framing proof.C04_Framing model.C06_Relay proof.C06_Relay model.C06_E2E gen.ParamsC06.
From Coq Require Import List NArith ZArith Bool Lia.
Import ListNotations.
Local Open Scope N_scope.

(* ------------------------------------------------------------------ scripts under the Reads of a copy loop *)
Lemma read1_data n s : sdata s = fst (fst (read1 n s)) ++ sdata (snd (read1 n s)).
Proof.
  destruct s as [|[bs oe] t]; [reflexivity|]. unfold read1.
  destruct (Nat.leb (length bs) n); cbn [fst snd]; rewrite !sdata_cons; [reflexivity|].
  rewrite app_assoc, firstn_skipn. reflexivity.
Qed.

Lemma reads_script_data l : forall s s', reads_script s l = Some s' -> sdata s = lsrc l ++ sdata s'.
Proof.
  induction l as [|a l IH]; intros s s' H.
  - cbn in H. injection H as <-. reflexivity.
  - destruct a as [bl c er| | |]; cbn [reads_script] in H.
    + destruct (beqb c (fst (fst (read1 (N.to_nat bl) s))) && eerr_eqb er (eerr_of (snd (fst (read1 (N.to_nat bl) s))))) eqn:E;
        [|discriminate].
      apply andb_true_iff in E as [E1 _]. apply beqb_eq in E1.
      change (lsrc (LRead bl c er :: l)) with (c ++ lsrc l).
      rewrite (read1_data (N.to_nat bl) s), <- E1, (IH _ _ H), app_assoc. reflexivity.
    + exact (IH _ _ H).
    + exact (IH _ _ H).
    + exact (IH _ _ H).
Qed.

Lemma read1_fin n s : fin_ok s = true ->
  fin_ok (snd (read1 n s)) = true /\ (snd (fst (read1 n s)) <> None -> snd (read1 n s) = []).
Proof.
  intros H. destruct s as [|[bs oe] t]; [cbn; auto|]. unfold read1.
  destruct (Nat.leb (length bs) n); cbn [fst snd].
  - destruct oe; cbn [fin_ok] in H.
    + destruct t; [|discriminate]. auto.
    + split; [exact H|]. intros X. contradiction.
  - split; [|intros X; contradiction]. destruct oe; exact H.
Qed.

Lemma reads_script_nil l : forall s', reads_script [] l = Some s' -> s' = [].
Proof.
  induction l as [|a l IH]; intros s' H; [cbn in H; injection H as <-; reflexivity|].
  destruct a as [bl c er| | |]; cbn [reads_script read1 fst snd] in H; auto.
  destruct (beqb c [] && eerr_eqb er (eerr_of (Some EEof))); [auto|discriminate].
Qed.

(* a Read that returned an error *)
Definition read_err (a : lact) : bool := match a with LRead _ _ EN => false | LRead _ _ _ => true | _ => false end.

Lemma reads_script_fin l : forall s s', fin_ok s = true -> reads_script s l = Some s' ->
  existsb read_err l = true -> s' = [].
Proof.
  induction l as [|a l IH]; intros s s' F H X; [discriminate X|].
  destruct a as [bl c er| | |]; cbn [reads_script existsb] in H, X.
  - destruct (beqb c (fst (fst (read1 (N.to_nat bl) s))) && eerr_eqb er (eerr_of (snd (fst (read1 (N.to_nat bl) s))))) eqn:E;
      [|discriminate].
    apply andb_true_iff in E as [_ E2]. apply eerr_eqb_eq in E2.
    destruct (read1_fin (N.to_nat bl) s F) as [F1 F2].
    destruct (snd (fst (read1 (N.to_nat bl) s))) as [e|] eqn:Eo.
    + rewrite F2 in H by discriminate. exact (reads_script_nil _ _ H).
    + cbn in E2. subst er. cbn in X. exact (IH _ _ F1 H X).
  - cbn in X. exact (IH _ _ F H X).
  - cbn in X. exact (IH _ _ F H X).
  - cbn in X. exact (IH _ _ F H X).
Qed.

Lemma fin_ok_clean_app pre post : clean pre -> fin_ok (pre ++ post) = fin_ok post.
Proof.
  induction pre as [|[bs oe] p IH]; intros Hc; [reflexivity|].
  apply clean_cons in Hc as [-> Hc]. cbn [app fin_ok]. auto.
Qed.

Lemma delivers_facts s d post : delivers s d post -> sdata s = d ++ sdata post /\ fin_ok s = fin_ok post.
Proof.
  intros (pre & -> & Hc & Hd). rewrite sdata_app, Hd. split; [reflexivity|]. apply fin_ok_clean_app; auto.
Qed.

Lemma in_firstn {A} (x : A) k l : In x (firstn k l) -> In x l.
Proof.
  revert l; induction k as [|k IH]; intros [|y l] H; cbn in H; try contradiction.
  destruct H as [H|H]; [left; auto|right; auto].
Qed.

(* ------------------------------------------------------------------ the shape of a run *)
Lemma run_shape m tr s : exec (init m) tr = Some s ->
  (exists k, tr = firstn k [AReadReq false; ACloseStream]) \/
  (exists msg k, tr = firstn k (dial_error_run msg)) \/
  (exists k, tr = firstn k accept_run) \/
  (exists tr', tr = accept_run ++ tr' /\ exec (relay_init m) tr' = Some s).
Proof.
  intros He.
  destruct tr as [|a1 t1]; [left; exists 0%nat; reflexivity|].
  pose proof He as He0.
  cbn in He. destruct a1; cbn in He; try discriminate.
  all: try (destruct d, a; discriminate).
  destruct ok.
  - destruct t1 as [|a2 t2]; [right; right; left; exists 1%nat; reflexivity|].
    cbn in He. destruct a2; cbn in He; try discriminate.
    all: try (destruct d, a; discriminate).
    destruct r as [msg|].
    + right; left. exists msg. eapply dial_error_shape; [exact He0|]. right; left; reflexivity.
    + destruct t2 as [|a3 t3]; [right; right; left; exists 2%nat; reflexivity|].
      cbn in He. destruct a3; cbn in He; try discriminate.
      all: try (destruct d, a; discriminate).
      destruct (ok && beqb msg Connected) eqn:Eb; [|discriminate].
      apply andb_true_iff in Eb as [E1 E2]. apply beqb_eq in E2. subst ok msg.
      right; right; right. exists t3. split; [reflexivity|]. destruct m; exact He.
  - left. destruct t1 as [|a2 t2]; [exists 1%nat; reflexivity|].
    cbn in He. destruct a2; cbn in He; try discriminate.
    all: try (destruct d, a; discriminate).
    destruct t2 as [|a3 t3]; [exists 2%nat; reflexivity|].
    cbn in He. rewrite step_done_idle in He; auto. discriminate.
Qed.

Definition relaying (q : ppc) : Prop :=
  match q with QWait | QCloseT _ | QCloseS _ | QCloseC | QDone => True | _ => False end.

Lemma step_relaying s a s' : relaying (par s) -> step s a = Some s' ->
  relaying (par s') /\ forall ok msg, a <> AWriteResp ok msg.
Proof.
  intros Hn Hs. destruct a; cbn in Hs.
  - destruct (par s); try discriminate. contradiction.
  - destruct (par s); try discriminate. contradiction.
  - destruct (par s); try discriminate; contradiction.
  - apply step_loop in Hs as (p' & _ & _ & Hp & _). rewrite Hp. split; auto. discriminate.
  - destruct (par s); try discriminate. destruct (chan s); try discriminate.
    destruct (gerr_eqb e g); inv Hs. cbn. split; auto. discriminate.
  - destruct (par s); inv Hs. cbn. split; auto. discriminate.
  - destruct (par s); inv Hs; cbn; try contradiction; split; try discriminate. destruct e; cbn; auto.
  - destruct (par s); inv Hs. cbn. split; auto. discriminate.
Qed.

Lemma relay_no_resp s tr s' : relaying (par s) -> exec s tr = Some s' -> forall ok msg, ~ In (AWriteResp ok msg) tr.
Proof.
  revert s. induction tr as [|a tr IH]; intros s Hn He ok msg; [auto|].
  cbn in He. destruct (step s a) as [s1|] eqn:Es; [|discriminate].
  destruct (step_relaying _ _ _ Hn Es) as [Hn1 Ha]. intros [H|H]; [eapply Ha; eauto|eapply IH; eauto].
Qed.

Lemma stream_out_no_resp wr tr : (forall ok msg, ~ In (AWriteResp ok msg) tr) ->
  stream_out wr tr = snkb Down tr /\ resp_out wr tr = [].
Proof.
  induction tr as [|a tr IH]; intros H; [split; reflexivity|].
  destruct IH as [I1 I2]; [intros ok msg X; apply (H ok msg); right; exact X|].
  destruct a as [ok|r|ok msg|d x|e| | |]; try (split; [exact I1|exact I2]).
  - exfalso. apply (H ok msg). left. reflexivity.
  - destruct d, x; try (split; [exact I1|exact I2]).
    split; [|exact I2].
    change (stream_out wr (ALoop Down (LWrite c nw ew) :: tr)) with (wrote c nw ++ stream_out wr tr).
    change (snkb Down (ALoop Down (LWrite c nw ew) :: tr)) with (wrote c nw ++ snkb Down tr).
    rewrite I1. reflexivity.
Qed.

Lemma accept_run_streams wr tr' :
  stream_out wr (accept_run ++ tr') = wr true Connected ++ stream_out wr tr' /\
  resp_out wr (accept_run ++ tr') = wr true Connected ++ resp_out wr tr' /\
  (forall d, proj d (accept_run ++ tr') = proj d tr').
Proof. repeat split. Qed.

(* clause (b): on the success path the server puts the success response and then exactly the Down sink on the stream *)
Lemma stream_out_success wr m tr s msg : exec (init m) tr = Some s -> In (AWriteResp true msg) tr ->
  msg = Connected /\ stream_out wr tr = wr true Connected ++ snkb Down tr /\
  exists tr', tr = accept_run ++ tr' /\ exec (relay_init m) tr' = Some s.
Proof.
  intros He Hin. destruct (run_shape _ _ _ He) as [[k ->]|[(msg0 & k & ->)|[[k Hk]|(tr' & -> & Hr)]]].
  - exfalso. apply in_firstn in Hin. cbn in Hin. destruct Hin as [X|[X|[]]]; discriminate.
  - exfalso. apply in_firstn in Hin. cbn in Hin. destruct Hin as [X|[X|[X|[X|[]]]]]; discriminate.
  - subst tr. destruct k as [|[|[|k]]]; cbn in Hin.
    + contradiction.
    + destruct Hin as [X|[]]; discriminate.
    + destruct Hin as [X|[X|[]]]; discriminate.
    + assert (Ek : firstn (S (S (S k))) accept_run = accept_run ++ []) by (cbn; rewrite firstn_nil; reflexivity).
      rewrite Ek in *. clear Ek.
      destruct Hin as [X|[X|[X|X]]]; try discriminate; [|rewrite firstn_nil in X; contradiction].
      injection X as <-. split; [reflexivity|]. split.
      * cbn. rewrite !app_nil_r. reflexivity.
      * exists []. split; [reflexivity|]. rewrite app_nil_r, relay_init_reachable in He. cbn. exact He.
  - assert (Hno := relay_no_resp (relay_init m) tr' s I Hr).
    destruct (stream_out_no_resp wr tr' Hno) as [S1 _].
    destruct (accept_run_streams wr tr') as (A1 & _ & A3).
    assert (msg = Connected).
    { apply in_app_or in Hin as [X|X]; [|exfalso; eapply Hno; eauto].
      cbn in X. destruct X as [X|[X|[X|[]]]]; try discriminate. injection X as <-. reflexivity. }
    split; [assumption|]. split.
    + rewrite A1, S1. unfold snkb. rewrite A3. reflexivity.
    + exists tr'. split; auto.
Qed.

(* ... and on every run: the bytes on the stream are the response frame (if any) followed by the Down sink *)
Lemma stream_out_every_run wr m tr s : exec (init m) tr = Some s ->
  stream_out wr tr = resp_out wr tr ++ snkb Down tr.
Proof.
  intros He. destruct (run_shape _ _ _ He) as [[k ->]|[(msg0 & k & ->)|[[k ->]|(tr' & -> & Hr)]]].
  - destruct k as [|[|[|k]]]; cbn; rewrite ?firstn_nil; reflexivity.
  - destruct k as [|[|[|[|k]]]]; cbn; rewrite ?firstn_nil, ?app_nil_r; reflexivity.
  - destruct k as [|[|[|k]]]; cbn; rewrite ?firstn_nil, ?app_nil_r; reflexivity.
  - assert (Hno := relay_no_resp (relay_init m) tr' s I Hr).
    destruct (stream_out_no_resp wr tr' Hno) as [S1 S2].
    destruct (accept_run_streams wr tr') as (A1 & A2 & A3).
    rewrite A1, A2, S1, S2, app_nil_r. unfold snkb. rewrite A3. reflexivity.
Qed.

(* a run whose request phase failed never starts the relay *)
Lemma no_request_no_relay m tr s : exec (init m) tr = Some s -> ~ In (AReadReq true) tr ->
  forall d, proj d tr = [].
Proof.
  intros He Hn d. destruct (run_shape _ _ _ He) as [[k ->]|[(msg0 & k & ->)|[[k ->]|(tr' & -> & Hr)]]].
  - destruct k as [|[|[|k]]]; cbn; rewrite ?firstn_nil; reflexivity.
  - destruct k as [|k]; [reflexivity|]. exfalso. apply Hn. left. reflexivity.
  - destruct k as [|k]; [reflexivity|]. exfalso. apply Hn. left. reflexivity.
  - exfalso. apply Hn. left. reflexivity.
Qed.

(* ------------------------------------------------------------------ the request in front of the client stream *)
Section Up.
  Variables (addr pad frame early : list byte) (su post : script).
  Hypothesis Haddr : 1 <= N.of_nat (length addr) <= MaxAddressLength.
  Hypothesis Hpad : drawable tcpRequestPaddingMin tcpRequestPaddingMax pad.
  Hypothesis Hframe : write_tcp_request addr pad = Ok frame.
  (* the request frame and the first `early` bytes of the payload arrive without an error, cut into reads in any way
     (a read may span the end of the frame: fast open); after them the stream goes on as post *)
  Hypothesis Hsu : delivers su (frame ++ early) post.

  Lemma request_phase_exact :
    exists st1, run_on server_read_request su = (Ok addr, st1) /\ delivers (rs_script st1) early post /\
                sdata (rs_script st1) = early ++ sdata post /\ fin_ok (rs_script st1) = fin_ok post.
  Proof.
    destruct (request_roundtrip addr pad frame early post (mkRS su ctr0) Haddr Hpad Hframe Hsu) as (st1 & R & D).
    exists st1. split; [exact R|]. split; [exact D|]. apply delivers_facts. exact D.
  Qed.

  Lemma e2e_up_prefix m tr s : exec (init m) tr = Some s -> wok_tr tr -> serves_io su tr ->
    exists rest, early ++ sdata post = snkb Up tr ++ rest.
  Proof.
    intros He Hw Hs. destruct request_phase_exact as (st1 & R & _ & D & _).
    unfold serves_io in Hs. rewrite R in Hs. destruct Hs as [left Hl].
    apply reads_script_data in Hl. destruct (run_prefix m tr s Up He Hw) as [r Hr].
    exists (r ++ sdata left). rewrite <- D, Hl. fold (srcb Up tr). rewrite Hr, app_assoc. reflexivity.
  Qed.

  Lemma e2e_up_whole m tr s : exec (init m) tr = Some s -> wok_tr tr -> serves_io su tr ->
    fin_ok post = true -> (pcof s Up = PRet GNil \/ pcof s Up = PDone GNil) ->
    snkb Up tr = early ++ sdata post /\ (m = Logged -> logged Up tr = blen (early ++ sdata post)).
  Proof.
    intros He Hw Hs Hf Hp. destruct request_phase_exact as (st1 & R & _ & D & F).
    unfold serves_io in Hs. rewrite R in Hs. destruct Hs as [left Hl].
    destruct (run_complete m tr s Up He Hw Hp) as (H1 & H2 & bl & c & H3).
    apply proj_in in H3.
    assert (left = []).
    { eapply reads_script_fin; [|exact Hl|]; [rewrite F; exact Hf|].
      apply existsb_exists. eexists. split; [exact H3|reflexivity]. }
    subst left. apply reads_script_data in Hl. cbn in Hl. rewrite app_nil_r in Hl.
    fold (srcb Up tr) in Hl. rewrite <- D, Hl, H1. split; [reflexivity|].
    intros Hm. rewrite (H2 Hm). reflexivity.
  Qed.
End Up.

(* a request that does not parse: nothing is relayed in either direction and nothing is written to the stream *)
Lemma e2e_bad_request su m tr s wr :
  (forall a st1, run_on server_read_request su <> (Ok a, st1)) ->
  exec (init m) tr = Some s -> serves_io su tr ->
  snkb Up tr = [] /\ snkb Down tr = [] /\ stream_out wr tr = [].
Proof.
  intros Hbad He Hs. unfold serves_io in Hs.
  assert (Hn : ~ In (AReadReq true) tr).
  { destruct (run_on server_read_request su) as [[a|e|p] st1] eqn:E; auto. exfalso. eapply Hbad; eauto. }
  pose proof (no_request_no_relay m tr s He Hn) as Hp.
  unfold snkb. rewrite !Hp. split; [reflexivity|]. split; [reflexivity|].
  rewrite (stream_out_every_run wr m tr s He). unfold snkb. rewrite Hp.
  destruct (run_shape _ _ _ He) as [[k ->]|[(msg0 & k & ->)|[[k ->]|(tr' & -> & Hr)]]].
  - destruct k as [|[|[|k]]]; cbn; rewrite ?firstn_nil; reflexivity.
  - destruct k as [|k]; [reflexivity|]. exfalso. apply Hn. left. reflexivity.
  - destruct k as [|k]; [reflexivity|]. exfalso. apply Hn. left. reflexivity.
  - exfalso. apply Hn. left. reflexivity.
Qed.

(* ------------------------------------------------------------------ client side *)
Lemma app_reads_established ns : forall st got e, app_reads (mkCC true st) ns = (got, e) ->
  (exists rest, sdata (rs_script st) = got ++ rest) /\
  (fin_ok (rs_script st) = true -> e <> None -> got = sdata (rs_script st)).
Proof.
  induction ns as [|n t IH]; intros st got e H.
  - cbn in H. injection H as <- <-. split; [exists (sdata (rs_script st)); reflexivity|]. intros _ X. contradiction.
  - cbn [app_reads conn_read c_est c_strm] in H. unfold stream_read in H. cbn [fst snd] in H.
    pose proof (read1_data n (rs_script st)) as Hd. pose proof (read1_fin n (rs_script st)) as Hf.
    destruct (read1 n (rs_script st)) as [[bs oe] s1]. cbn [fst snd] in *.
    destruct oe as [x|]; cbn [option_map] in H.
    + injection H as <- <-. split; [exists (sdata s1); exact Hd|].
      intros F _. destruct (Hf F) as [_ F2]. rewrite F2 in Hd by discriminate. rewrite Hd. cbn. rewrite app_nil_r. reflexivity.
    + destruct (app_reads (mkCC true (mkRS s1 (tick n (rs_ctr st)))) t) as [g' e'] eqn:Ea.
      cbn [fst snd] in H. injection H as <- <-.
      destruct (IH _ _ _ Ea) as [[rest Hr] Hc]. cbn [rs_script] in Hr, Hc. split.
      * exists rest. rewrite Hd, Hr, app_assoc. reflexivity.
      * intros F X. destruct (Hf F) as [F1 _]. rewrite (Hc F1 X). symmetry. exact Hd.
Qed.

Lemma app_reads_unestablished st st' m n t :
  read_tcp_response st = (Ok (true, m), st') ->
  app_reads (mkCC false st) (n :: t) = app_reads (mkCC true st') (n :: t).
Proof. intros R. cbn [app_reads conn_read c_est c_strm]. rewrite R. reflexivity. Qed.

Section Down.
  Variables (pad frame early : list byte) (msg : bytes) (sc postc : script).
  Hypothesis Hmsg : N.of_nat (length msg) <= MaxMessageLength.
  Hypothesis Hpad : drawable tcpResponsePaddingMin tcpResponsePaddingMax pad.

  (* the success response in front of the stream, any chunking; what follows is postc *)
  Lemma client_io_ok fo ns : write_tcp_response true msg pad = Ok frame -> delivers sc (frame ++ early) postc ->
    exists got e, client_io fo sc ns = inr (got, e) /\
      (exists rest, early ++ sdata postc = got ++ rest) /\
      (fin_ok postc = true -> e <> None -> got = early ++ sdata postc).
  Proof.
    intros Hframe Hsc.
    destruct (response_roundtrip true msg pad frame early postc (mkRS sc ctr0) Hmsg Hpad Hframe Hsc) as (st' & R & D).
    apply delivers_facts in D as [D F].
    assert (Hest : forall ns0, exists got e, app_reads (mkCC true st') ns0 = (got, e) /\
              (exists rest, early ++ sdata postc = got ++ rest) /\ (fin_ok postc = true -> e <> None -> got = early ++ sdata postc)).
    { intros ns0. destruct (app_reads (mkCC true st') ns0) as [got e] eqn:Ea. exists got, e. split; [reflexivity|].
      destruct (app_reads_established _ _ _ _ Ea) as [P C]. rewrite D in P, C. rewrite F in C. split; assumption. }
    unfold client_io, tcp_io. destruct fo.
    - destruct ns as [|n t].
      + exists [], None. split; [reflexivity|]. split; [exists (early ++ sdata postc); reflexivity|]. intros _ X. contradiction.
      + rewrite (app_reads_unestablished _ _ _ n t R). destruct (Hest (n :: t)) as (got & e & Ea & P & C).
        exists got, e. rewrite Ea. auto.
    - rewrite R. destruct (Hest ns) as (got & e & Ea & P & C). exists got, e. rewrite Ea. auto.
  Qed.

  (* the failure response: DialError msg from TCP() without fast open, from the first Read with fast open; no byte *)
  Lemma client_io_dial_error : write_tcp_response false msg pad = Ok frame -> delivers sc (frame ++ early) postc ->
    (forall ns, client_io false sc ns = inl (RDial msg)) /\
    (forall n ns, client_io true sc (n :: ns) = inr ([], Some (RDial msg))).
  Proof.
    intros Hframe Hsc.
    destruct (response_roundtrip false msg pad frame early postc (mkRS sc ctr0) Hmsg Hpad Hframe Hsc) as (st' & R & D).
    split.
    - intros ns. unfold client_io, tcp_io. rewrite R. reflexivity.
    - intros n ns. unfold client_io, tcp_io. cbn [app_reads conn_read c_est c_strm]. rewrite R. reflexivity.
  Qed.
End Down.

Lemma connected_fits : N.of_nat (length Connected) <= MaxMessageLength.
Proof. vm_compute. discriminate. Qed.

Lemma real_write_resp_ok pad ok msg frame : write_tcp_response ok msg pad = Ok frame -> real_write_resp pad ok msg = frame.
Proof. unfold real_write_resp. intros ->. reflexivity. Qed.

Lemma real_write_resp_total pad ok msg :
  N.of_nat (length msg) <= MaxMessageLength -> drawable tcpResponsePaddingMin tcpResponsePaddingMax pad ->
  write_tcp_response ok msg pad = Ok (real_write_resp pad ok msg).
Proof.
  intros Hm Hd. destruct writer_fits_reader as (_ & _ & _ & _ & _ & Hp). specialize (Hp pad Hd).
  pose proof limits_fit_varint as (L1 & L2 & L3).
  unfold real_write_resp. rewrite write_tcp_response_exact by lia. reflexivity.
Qed.

(* ------------------------------------------------------------------ end to end, Down *)
Section DownE2E.
  Variables (pad early : list byte) (sd sc postc : script) (lost : bytes).
  Hypothesis Hpad : drawable tcpResponsePaddingMin tcpResponsePaddingMax pad.

  Lemma e2e_down m tr s fo ns :
    exec (init m) tr = Some s -> wok_tr tr -> target_io sd tr ->
    In (AWriteResp true Connected) tr ->
    delivers sc (real_write_resp pad true Connected ++ early) postc ->
    stream_out (real_write_resp pad) tr = sdata sc ++ lost ->
    exists got e, client_io fo sc ns = inr (got, e) /\
      (exists rest, sdata sd = got ++ rest) /\
      (fin_ok sd = true -> fin_ok postc = true -> lost = [] -> e <> None ->
       (pcof s Down = PRet GNil \/ pcof s Down = PDone GNil) -> got = sdata sd).
  Proof.
    intros He Hw [left Ht] Hin Hsc Hout.
    pose proof (real_write_resp_total pad true Connected connected_fits Hpad) as Hframe.
    destruct (stream_out_success (real_write_resp pad) m tr s Connected He Hin) as (_ & Hs & _).
    rewrite Hs in Hout. rewrite (delivers_sdata _ _ _ Hsc), <- !app_assoc in Hout.
    apply app_inv_head in Hout. rewrite app_assoc in Hout.
    destruct (client_io_ok pad _ early Connected sc postc connected_fits Hpad fo ns Hframe Hsc) as (got & e & Hc & [r1 P] & C).
    exists got, e. split; [exact Hc|].
    destruct (run_prefix m tr s Down He Hw) as [r2 Hr]. pose proof (reads_script_data _ _ _ Ht) as Hdat. fold (srcb Down tr) in Hdat.
    split.
    - exists ((r1 ++ lost) ++ r2 ++ sdata left). rewrite Hdat, Hr, Hout, P. rewrite <- !app_assoc. reflexivity.
    - intros Fd Fc Hl Hne Hp. subst lost. rewrite app_nil_r in Hout.
      destruct (run_complete m tr s Down He Hw Hp) as (H1 & _ & bl & c & H3). apply proj_in in H3.
      assert (left = []).
      { eapply reads_script_fin; [exact Fd|exact Ht|].
        apply existsb_exists. eexists. split; [exact H3|reflexivity]. }
      subst left. cbn in Hdat. rewrite app_nil_r in Hdat. rewrite Hdat, H1, Hout. exact (C Fc Hne).
  Qed.
End DownE2E.

(* ------------------------------------------------------------------ end to end, failed dial *)
Lemma dial_error_e2e m tr s msg pad early sc postc :
  exec (init m) tr = Some s -> In (ADial (Some msg)) tr ->
  N.of_nat (length msg) <= MaxMessageLength -> drawable tcpResponsePaddingMin tcpResponsePaddingMax pad ->
  delivers sc (real_write_resp pad false msg ++ early) postc ->
  snkb Up tr = [] /\ snkb Down tr = [] /\
  (In (AWriteResp false msg) tr -> stream_out (real_write_resp pad) tr = real_write_resp pad false msg) /\
  (forall ns, client_io false sc ns = inl (RDial msg)) /\
  (forall n ns, client_io true sc (n :: ns) = inr ([], Some (RDial msg))).
Proof.
  intros He Hin Hm Hp Hd. destruct (dial_error_shape m tr s msg He Hin) as [k ->].
  split; [destruct k as [|[|[|[|k]]]]; cbn; rewrite ?firstn_nil; reflexivity|].
  split; [destruct k as [|[|[|[|k]]]]; cbn; rewrite ?firstn_nil; reflexivity|].
  split.
  - intros Hw. destruct k as [|[|[|[|k]]]]; cbn in Hw |- *; rewrite ?firstn_nil, ?app_nil_r; try reflexivity.
    + contradiction.
    + destruct Hw as [X|[]]; discriminate.
    + destruct Hw as [X|[X|[]]]; discriminate.
  - exact (client_io_dial_error pad _ early msg sc postc Hm Hp (real_write_resp_total pad false msg Hm Hp) Hd).
Qed.

(* ------------------------------------------------------------------ non-vacuity: one concrete connection, real frames *)
Definition ex_addr : bytes := [x61; x3a; x31].                 (* "a:1" *)
Definition ex_reqpad : list byte := repeat x61 64.
Definition ex_resppad : list byte := repeat x62 128.
Definition ex_reqframe : bytes := real_write_req ex_reqpad ex_addr.
Definition ex_respframe : bytes := real_write_resp ex_resppad true Connected.
(* fast open: the first payload byte "h" arrives in the same read as the tail of the request; "i" comes with the FIN *)
Definition ex_su : script :=
  [Chunk (firstn 5 ex_reqframe); ZeroRead; Chunk (skipn 5 ex_reqframe ++ [x68]); Ev [x69] (Some EEof)].
Definition ex_sd : script := [Chunk [x4f; x4b]].              (* the target answers "OK" and closes *)
(* the client's incoming stream: the response and the "O" in one read, "K" with the FIN *)
Definition ex_sc : script := [Chunk (ex_respframe ++ [x4f]); Ev [x4b] (Some EEof)].
Definition ex_run : list act :=
  accept_run ++
  [ALoop Up (LRead CopyBufSize [x68] EN); ALoop Up (LLog 1 0 true);
   ALoop Down (LRead CopyBufSize [x4f; x4b] EN); ALoop Up (LWrite [x68] 1 EN);
   ALoop Down (LLog 0 2 true); ALoop Down (LWrite [x4f; x4b] 2 EN);
   ALoop Up (LRead CopyBufSize [x69] EEOF); ALoop Up (LLog 1 0 true); ALoop Up (LWrite [x69] 1 EN);
   ALoop Down (LRead CopyBufSize [] EEOF);
   ALoop Up (LReturn GNil); AFirstReturn GNil; ACloseTarget; ACloseStream].

Lemma ex_e2e_ok :
  drawable tcpRequestPaddingMin tcpRequestPaddingMax ex_reqpad /\
  drawable tcpResponsePaddingMin tcpResponsePaddingMax ex_resppad /\
  write_tcp_request ex_addr ex_reqpad = Ok ex_reqframe /\
  delivers ex_su (ex_reqframe ++ [x68]) [Ev [x69] (Some EEof)] /\
  delivers ex_sc (ex_respframe ++ [x4f]) [Ev [x4b] (Some EEof)] /\
  exists s, exec (init Logged) ex_run = Some s /\ wok_tr ex_run /\ par s = QDone /\
    serves_io ex_su ex_run /\ target_io ex_sd ex_run /\
    pcof s Up = PDone GNil /\ pcof s Down = PRet GNil /\
    snkb Up ex_run = [x68; x69] /\
    stream_out (real_write_resp ex_resppad) ex_run = sdata ex_sc /\
    client_io true ex_sc [4; 4; 4]%nat = inr ([x4f; x4b], Some (RStream EEof)) /\
    client_io false ex_sc [1; 1; 1]%nat = inr ([x4f; x4b], Some (RStream EEof)).
Proof.
  split; [apply drawableb_spec; vm_compute; reflexivity|].
  split; [apply drawableb_spec; vm_compute; reflexivity|].
  split; [vm_compute; reflexivity|].
  split.
  { exists [Chunk (firstn 5 ex_reqframe); ZeroRead; Chunk (skipn 5 ex_reqframe ++ [x68])].
    split; [reflexivity|]. split; vm_compute; reflexivity. }
  split.
  { exists [Chunk (ex_respframe ++ [x4f])]. split; [reflexivity|]. split; vm_compute; reflexivity. }
  assert (He : exists s, exec (init Logged) ex_run = Some s /\ par s = QDone /\ pcof s Up = PDone GNil /\ pcof s Down = PRet GNil).
  { eexists. split; [vm_compute; reflexivity|]. repeat split. }
  destruct He as (s & He & Hq & HU & HD). exists s.
  split; [exact He|]. split.
  { intros d. destruct d; cbn; repeat constructor; cbn; try lia; intros; try lia. }
  split; [exact Hq|]. split.
  { unfold serves_io. vm_compute. eexists. reflexivity. }
  split; [unfold target_io; vm_compute; eexists; reflexivity|].
  split; [exact HU|]. split; [exact HD|].
  repeat split; vm_compute; reflexivity.
Qed.
