(* C06 proofs: the tail of handleTCPRequest with the optional EventLogger (model/C06_Events.v). *)
From Hy Require Import lib.Bytes model.C06_Relay model.C06_Events.
From Coq Require Import List NArith Bool.
Import ListNotations.

Lemma gerr_eqb_eq a b : gerr_eqb a b = true -> a = b.
Proof.
  destruct a as [x| | |], b as [y| | |]; cbn; try discriminate; auto.
  destruct x as [| |c], y as [| |c']; cbn; try discriminate; auto.
  intros H. apply N.eqb_eq in H. now subst.
Qed.

Lemma gerr_eqb_refl a : gerr_eqb a a = true.
Proof. destruct a as [[| |c]| | |]; cbn; auto. apply N.eqb_refl. Qed.

(* the tail is deterministic: its complete runs are exactly [tail_run] *)
Lemma tail_complete remap evlog e tr :
  texec remap (tail_init evlog e) tr = Some TEnd <-> tr = tail_run remap evlog e.
Proof.
  unfold tail_init, tail_run. split.
  - intros H. destruct evlog; cbn [andb app].
    + destruct tr as [|[e'| | |] t]; cbn in H; try discriminate.
      destruct (gerr_eqb e' (if remap then clean e else e)) eqn:E; [|discriminate].
      apply gerr_eqb_eq in E. subst e'.
      set (e1 := if remap then clean e else e) in *.
      destruct t as [|[| | |] t]; cbn in H; try discriminate.
      destruct t as [|[| | |] t]; cbn in H; try discriminate.
      destruct e1 as [x| | |]; cbn in H.
      * destruct t; [reflexivity|discriminate].
      * destruct t as [|[| | |] t]; cbn in H; try discriminate. destruct t; [reflexivity|discriminate].
      * destruct t; [reflexivity|discriminate].
      * destruct t; [reflexivity|discriminate].
    + destruct tr as [|[| | |] t]; cbn in H; try discriminate.
      destruct t as [|[| | |] t]; cbn in H; try discriminate.
      destruct e as [x| | |]; cbn in H.
      * destruct t; [reflexivity|discriminate].
      * destruct t as [|[| | |] t]; cbn in H; try discriminate. destruct t; [reflexivity|discriminate].
      * destruct t; [reflexivity|discriminate].
      * destruct t; [reflexivity|discriminate].
  - intros ->. destruct evlog; cbn [andb app].
    + cbn. rewrite gerr_eqb_refl. destruct (if remap then clean e else e) as [x| | |]; reflexivity.
    + destruct e as [x| | |]; reflexivity.
Qed.

(* The code as it is: whatever is configured next to the TrafficLogger, the user's QUIC connection is closed exactly
   when the copy returned errDisconnect; the close comes last, after both ends were closed; an EventLogger, when
   configured, is handed the copy's own result, once. *)
Lemma tail_closes_iff evlog e tr :
  texec false (tail_init evlog e) tr = Some TEnd ->
  (closes_conn tr = true <-> e = GDisconnect) /\
  events_of tr = (if evlog then [e] else []) /\
  (e = GDisconnect -> exists pre, tr = pre ++ [TCloseTarget; TCloseStream; TCloseConn]) /\
  (e <> GDisconnect -> exists pre, tr = pre ++ [TCloseTarget; TCloseStream]).
Proof.
  intros H. apply tail_complete in H. subst tr. unfold tail_run. rewrite andb_false_r.
  destruct evlog, e as [x| | |]; cbn; repeat split; try discriminate; try congruence; intros;
    try (eexists [_]; reflexivity); try (exists []; reflexivity).
Qed.

(* The configuration bit has no influence on the fate of the connection. *)
Lemma tail_evlog_irrelevant e tr1 tr2 :
  texec false (tail_init true e) tr1 = Some TEnd -> texec false (tail_init false e) tr2 = Some TEnd ->
  closes_conn tr1 = closes_conn tr2 /\ tr1 = TEvent e :: tr2.
Proof.
  intros H1 H2. apply tail_complete in H1, H2. subst. unfold tail_run. cbn [andb app].
  destruct e as [x| | |]; split; reflexivity.
Qed.

(* The variant that cleans the error for the EventLogger in place: with an EventLogger configured a veto no longer
   closes the connection - while without one it still does (so only the configuration dimension shows it). *)
Lemma remap_refuted :
  (exists tr, texec true (tail_init true GDisconnect) tr = Some TEnd /\ closes_conn tr = false) /\
  (forall tr, texec true (tail_init false GDisconnect) tr = Some TEnd -> closes_conn tr = true).
Proof.
  split.
  - exists (tail_run true true GDisconnect). split; reflexivity.
  - intros tr H. apply tail_complete in H. subst. reflexivity.
Qed.

(* Without an EventLogger the tail is the tail of the parent of model/C06_Relay.v; with one it is that tail behind the call. *)
Lemma tail_is_relay_tail evlog e s :
  par s = QCloseT e ->
  exec s (flat_map to_act (tail_run false evlog e)) = Some (setpar s QDone).
Proof.
  intros Hp. unfold tail_run. rewrite andb_false_r.
  destruct s as [m q u d ch tx rx]. cbn in Hp. subst q.
  destruct evlog, e as [x| | |]; reflexivity.
Qed.
