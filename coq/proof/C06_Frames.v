(* C06 - the frame readers of C04 on ARBITRARY scripts (errors anywhere, also inside the frame region):
   a reader that returns Ok has taken a well-formed frame off the front of the data (lib/ReaderData.v), and the
   frame grammar is deterministic, so if the data of the stream is a prefix of, or extends, `frame ++ rest` for a frame a
   writer produced, the reader returned that frame's content and left exactly `rest`.  With this the end-to-end
   statements of proof/C06_E2E.v lose their "the frame region arrives without an error" hypothesis. *)
From Hy Require Import model.C04_Framing proof.C04_Framing lib.ReaderData model.C06_Relay proof.C06_Relay model.C06_E2E proof.C06_E2E gen.ParamsC06.
From Coq Require Import List NArith ZArith Bool Lia.
Import ListNotations.
Local Open Scope N_scope.

Lemma app_eq_len {A} (a b x y : list A) : length a = length b -> a ++ x = b ++ y -> a = b /\ x = y.
Proof.
  revert b. induction a as [|h a IH]; intros [|h' b] Hl H; cbn in Hl; try discriminate.
  - auto.
  - cbn in H. injection H as -> H. injection Hl as Hl. destruct (IH b Hl H) as [-> ->]. auto.
Qed.

(* an encoding the streaming reader accepted against an encoding a writer produced, at the front of the same bytes *)
Lemma varint_front_unique enc v x w v' y :
  (forall r, varint_read (enc ++ r) = Some (v, r)) -> fits w v' ->
  enc ++ x = varint_enc_w w v' ++ y -> v = v' /\ x = y.
Proof.
  intros He [Hw Hv] Heq. specialize (He x). rewrite Heq, (varint_read_enc_w w v' y Hw Hv) in He.
  injection He as <- <-. auto.
Qed.

Lemma read_padding_data {A} (a a' : A) st st' : read_padding a st = (Ok a', st') ->
  a' = a /\ exists enc padb, sdata (rs_script st) = enc ++ padb ++ sdata (rs_script st') /\
    (forall r, varint_read (enc ++ r) = Some (N.of_nat (length padb), r)).
Proof.
  unfold read_padding. intros H.
  apply io_bind_inv in H as (pl & st1 & R1 & H).
  destruct (MaxPaddingLength <? pl); [discriminate H|].
  apply io_bind_inv in H as (u & st2 & R2 & H). unfold io_ret in H. injection H as <- <-.
  split; [reflexivity|].
  destruct (io_read_varint_data _ _ _ R1) as (enc & D1 & V1).
  destruct (0 <? pl) eqn:E0.
  - destruct u. destruct (io_copyn_data _ _ _ R2) as (got & Hl & D2).
    exists enc, got. split; [rewrite D1, D2; reflexivity|].
    intros r. rewrite Hl, N2Nat.id. apply V1.
  - unfold io_ret in R2. injection R2 as R2. subst st2. apply N.ltb_ge in E0. assert (pl = 0) by lia. subst pl.
    exists enc, []. split; [rewrite D1; reflexivity|]. exact V1.
Qed.

Lemma read_tcp_response_data st ok msg st' : read_tcp_response st = (Ok (ok, msg), st') ->
  exists status enc1 enc2 padb,
    sdata (rs_script st) = status :: enc1 ++ msg ++ enc2 ++ padb ++ sdata (rs_script st') /\
    ok = (b2n status =? 0) /\
    (forall r, varint_read (enc1 ++ r) = Some (N.of_nat (length msg), r)) /\
    (forall r, varint_read (enc2 ++ r) = Some (N.of_nat (length padb), r)).
Proof.
  rewrite read_tcp_response_alt. intros H.
  apply io_bind_inv in H as (stb & st1 & R1 & H).
  apply io_bind_inv in H as (ml & st2 & R2 & H).
  destruct (MaxMessageLength <? ml); [discriminate H|].
  apply io_bind_inv in H as (mb & st3 & R3 & H).
  apply read_padding_data in H as [Ha (enc2 & padb & D4 & V4)]. injection Ha as -> ->.
  destruct (io_read_full_data _ _ _ _ R1) as [L1 D1].
  destruct stb as [|status [|? ?]]; try discriminate L1. cbn [hd].
  destruct (io_read_varint_data _ _ _ R2) as (enc1 & D2 & V2).
  assert (Hm : sdata (rs_script st2) = mb ++ sdata (rs_script st3) /\ N.of_nat (length mb) = ml).
  { destruct (0 <? ml) eqn:E0.
    - apply io_bind_inv in R3 as (u & st2' & Rm & R3). destruct u.
      apply io_make_data in Rm. destruct (io_read_full_data _ _ _ _ R3) as [L3 D3].
      rewrite <- Rm, D3, L3, N2Nat.id. auto.
    - unfold io_ret in R3. injection R3 as <- <-. apply N.ltb_ge in E0. split; [reflexivity|cbn; lia]. }
  destruct Hm as [D3 L3].
  exists status, enc1, enc2, padb. split; [|split; [reflexivity|split; [|exact V4]]].
  - rewrite D1, D2, D3, D4. reflexivity.
  - intros r. rewrite L3. apply V2.
Qed.

Lemma read_tcp_request_data st addr st' : read_tcp_request st = (Ok addr, st') ->
  exists enc1 enc2 padb,
    sdata (rs_script st) = enc1 ++ addr ++ enc2 ++ padb ++ sdata (rs_script st') /\
    (forall r, varint_read (enc1 ++ r) = Some (N.of_nat (length addr), r)) /\
    (forall r, varint_read (enc2 ++ r) = Some (N.of_nat (length padb), r)).
Proof.
  rewrite read_tcp_request_alt. intros H.
  apply io_bind_inv in H as (al & st1 & R1 & H).
  destruct ((al =? 0) || (MaxAddressLength <? al)); [discriminate H|].
  apply io_bind_inv in H as (u & st2 & R2 & H). destruct u. apply io_make_data in R2.
  apply io_bind_inv in H as (ab & st3 & R3 & H).
  apply read_padding_data in H as [-> (enc2 & padb & D4 & V4)].
  destruct (io_read_varint_data _ _ _ R1) as (enc1 & D1 & V1).
  destruct (io_read_full_data _ _ _ _ R3) as [L3 D3].
  exists enc1, enc2, padb. split; [|split; [|exact V4]].
  - rewrite D1, <- R2, D3, D4. reflexivity.
  - intros r. rewrite L3, N2Nat.id. apply V1.
Qed.

(* ------------------------------------------------------------------ the frame boundary is pinned by the data *)
Lemma response_any_script ok0 msg0 pad frame rest st ok msg st' lost :
  N.of_nat (length msg0) <= MaxMessageLength -> drawable tcpResponsePaddingMin tcpResponsePaddingMax pad ->
  write_tcp_response ok0 msg0 pad = Ok frame ->
  sdata (rs_script st) ++ lost = frame ++ rest ->
  read_tcp_response st = (Ok (ok, msg), st') ->
  ok = ok0 /\ msg = msg0 /\ sdata (rs_script st') ++ lost = rest.
Proof.
  intros Hm Hdr Hw Hd R.
  destruct writer_fits_reader as (_ & _ & _ & _ & _ & Hp). specialize (Hp pad Hdr).
  pose proof limits_fit_varint as (L1 & L2 & L3).
  rewrite write_tcp_response_exact in Hw by lia. injection Hw as <-.
  destruct (quic_len_ok (length msg0) ltac:(lia)) as (_ & _ & Fm).
  destruct (quic_len_ok (length pad) ltac:(lia)) as (_ & _ & Fp).
  destruct (read_tcp_response_data _ _ _ _ R) as (status & enc1 & enc2 & padb & D & Hok & V1 & V2).
  rewrite D in Hd. unfold response_frame in Hd. cbn [app] in Hd. injection Hd as Hs Hd.
  rewrite <- !app_assoc in Hd.
  destruct (varint_front_unique _ _ _ _ _ _ V1 Fm Hd) as [Hl Hd1].
  apply Nat2N.inj in Hl. destruct (app_eq_len _ _ _ _ Hl Hd1) as [-> Hd2].
  destruct (varint_front_unique _ _ _ _ _ _ V2 Fp Hd2) as [Hl2 Hd3].
  apply Nat2N.inj in Hl2. destruct (app_eq_len _ _ _ _ Hl2 Hd3) as [_ Hd4].
  split; [|split; [reflexivity|exact Hd4]].
  subst ok status. destruct ok0; reflexivity.
Qed.

Lemma request_any_script addr0 pad frame rest st addr st' :
  1 <= N.of_nat (length addr0) <= MaxAddressLength -> drawable tcpRequestPaddingMin tcpRequestPaddingMax pad ->
  write_tcp_request addr0 pad = Ok frame ->
  sdata (rs_script st) = frame ++ rest ->
  server_read_request st = (Ok addr, st') ->
  addr = addr0 /\ sdata (rs_script st') = rest.
Proof.
  intros Ha Hdr Hw Hd R.
  destruct writer_fits_reader as (_ & _ & _ & _ & Hp & _). specialize (Hp pad Hdr).
  pose proof limits_fit_varint as (L1 & L2 & L3).
  rewrite write_tcp_request_exact in Hw by lia. injection Hw as <-.
  destruct (quic_len_ok (length addr0) ltac:(lia)) as (_ & _ & Fa).
  destruct (quic_len_ok (length pad) ltac:(lia)) as (_ & _ & Fp).
  unfold server_read_request in R. apply io_bind_inv in R as (ft & st1 & R0 & R).
  destruct (io_read_varint_data _ _ _ R0) as (enc0 & D0 & V0).
  destruct (read_tcp_request_data _ _ _ R) as (enc1 & enc2 & padb & D & V1 & V2).
  rewrite D0, D in Hd.
  (* the frame type: [x44; x01] is the 2-byte encoding of 0x401 *)
  assert (F0 : fits 2 FrameTypeTCPRequest) by (split; [reflexivity|vm_compute; reflexivity]).
  assert (E0 : forall X : list byte, (x44 :: x01 :: X) ++ rest = varint_enc_w 2 FrameTypeTCPRequest ++ (X ++ rest))
    by (intros X; vm_compute (varint_enc_w 2 FrameTypeTCPRequest); reflexivity).
  rewrite E0 in Hd. clear E0.
  destruct (varint_front_unique _ _ _ _ _ _ V0 F0 Hd) as [_ Hd0].
  unfold request_frame in Hd0. rewrite <- !app_assoc in Hd0.
  destruct (varint_front_unique _ _ _ _ _ _ V1 Fa Hd0) as [Hl Hd1].
  apply Nat2N.inj in Hl. destruct (app_eq_len _ _ _ _ Hl Hd1) as [-> Hd2].
  destruct (varint_front_unique _ _ _ _ _ _ V2 Fp Hd2) as [Hl2 Hd3].
  apply Nat2N.inj in Hl2. destruct (app_eq_len _ _ _ _ Hl2 Hd3) as [_ Hd4].
  auto.
Qed.

(* no frame reader succeeds on a stream that carries no data *)
Lemma response_needs_data st r st' : sdata (rs_script st) = [] -> read_tcp_response st <> (Ok r, st').
Proof.
  intros Hn H. destruct r as [ok msg]. destruct (read_tcp_response_data _ _ _ _ H) as (s0 & e1 & e2 & pb & D & _).
  rewrite Hn in D. discriminate D.
Qed.

(* ------------------------------------------------------------------ end to end, any script: Up *)
Lemma e2e_up_any_script addr pad frame payload su m tr s :
  1 <= N.of_nat (length addr) <= MaxAddressLength -> drawable tcpRequestPaddingMin tcpRequestPaddingMax pad ->
  write_tcp_request addr pad = Ok frame -> sdata su = frame ++ payload ->
  exec (init m) tr = Some s -> wok_tr tr -> serves_io su tr ->
  exists rest, payload = snkb Up tr ++ rest.
Proof.
  intros Ha Hp Hw Hd He Hwk Hs. unfold serves_io in Hs.
  destruct (run_on server_read_request su) as [[a|e|p] st1] eqn:R.
  - destruct Hs as [left Hl]. apply reads_script_data in Hl.
    destruct (request_any_script addr pad frame payload (mkRS su ctr0) a st1 Ha Hp Hw Hd R) as [_ D].
    destruct (run_prefix m tr s Up He Hwk) as [r Hr].
    exists (r ++ sdata left). rewrite <- D, Hl. fold (srcb Up tr). rewrite Hr, app_assoc. reflexivity.
  - exists payload. unfold snkb. rewrite (no_request_no_relay m tr s He Hs Up). reflexivity.
  - exists payload. unfold snkb. rewrite (no_request_no_relay m tr s He Hs Up). reflexivity.
Qed.

(* ------------------------------------------------------------------ end to end, any script: Down *)
Lemma app_reads_no_bytes_unest st ns :
  (forall m st', read_tcp_response st <> (Ok (true, m), st')) ->
  fst (app_reads (mkCC false st) ns) = [].
Proof.
  intros Hn. destruct ns as [|n t]; [reflexivity|].
  cbn [app_reads conn_read c_est c_strm].
  destruct (read_tcp_response st) as [[[[|] mm]|e|p] st'] eqn:R; try reflexivity.
  exfalso. eapply Hn. reflexivity.
Qed.

Lemma e2e_down_any_script pad sd sc lost m tr s fo ns :
  drawable tcpResponsePaddingMin tcpResponsePaddingMax pad ->
  exec (init m) tr = Some s -> wok_tr tr -> target_io sd tr ->
  In (AWriteResp true Connected) tr ->
  sdata sc ++ lost = stream_out (real_write_resp pad) tr ->
  match client_io fo sc ns with
  | inl e => forall msg, e <> RDial msg
  | inr (got, e) => (exists rest, sdata sd = got ++ rest) /\ forall msg, e <> Some (RDial msg)
  end.
Proof.
  intros Hp He Hw [left Ht] Hin Hout.
  pose proof (real_write_resp_total pad true Connected connected_fits Hp) as Hframe.
  destruct (stream_out_success (real_write_resp pad) m tr s Connected He Hin) as (_ & Hs & _).
  rewrite Hs in Hout.
  destruct (run_prefix m tr s Down He Hw) as [r2 Hr]. pose proof (reads_script_data _ _ _ Ht) as Hdat. fold (srcb Down tr) in Hdat.
  set (st0 := mkRS sc ctr0).
  (* whatever the response reader returns on sc *)
  assert (Hany : forall ok mm st', read_tcp_response st0 = (Ok (ok, mm), st') ->
                   ok = true /\ sdata (rs_script st') ++ lost = snkb Down tr).
  { intros ok mm st' R.
    destruct (response_any_script true Connected pad _ (snkb Down tr) st0 ok mm st' lost connected_fits Hp Hframe Hout R) as (H1 & _ & H3).
    auto. }
  assert (Hest : forall st' mm ns0, read_tcp_response st0 = (Ok (true, mm), st') ->
            (exists rest, sdata sd = fst (app_reads (mkCC true st') ns0) ++ rest) /\
            forall msg, snd (app_reads (mkCC true st') ns0) <> Some (RDial msg)).
  { intros st' mm ns0 R. destruct (Hany _ _ _ R) as [_ Hd].
    destruct (app_reads (mkCC true st') ns0) as [got e] eqn:Ea. cbn [fst snd].
    destruct (app_reads_established _ _ _ _ Ea) as [[r1 P] _]. split.
    - exists ((r1 ++ lost) ++ r2 ++ sdata left). rewrite Hdat, Hr, <- Hd, P, <- !app_assoc. reflexivity.
    - clear - Ea. revert st' got e Ea. induction ns0 as [|n t IH]; intros st' got e Ea msg.
      + cbn in Ea. injection Ea as <- <-. discriminate.
      + cbn [app_reads conn_read c_est c_strm] in Ea. unfold stream_read in Ea. cbn [fst snd] in Ea.
        destruct (read1 n (rs_script st')) as [[bs oe] s1]. cbn [fst snd] in Ea.
        destruct oe as [x|]; cbn [option_map] in Ea.
        * injection Ea as <- <-. discriminate.
        * destruct (app_reads (mkCC true (mkRS s1 (tick n (rs_ctr st')))) t) as [g' e'] eqn:Eb.
          cbn [fst snd] in Ea. injection Ea as <- <-. eapply IH. exact Eb. }
  unfold client_io, tcp_io. destruct fo.
  - (* fast open: the response is read by the first Read *)
    destruct ns as [|n t]; [cbn; split; [exists (sdata sd); reflexivity|discriminate]|].
    fold st0. destruct (read_tcp_response st0) as [[[[|] mm]|e|p] st'] eqn:R.
    + rewrite (app_reads_unestablished _ _ _ n t R).
      destruct (Hest st' mm (n :: t) eq_refl) as [P N]. destruct (app_reads (mkCC true st') (n :: t)) as [got e]. auto.
    + destruct (Hany _ _ _ eq_refl) as [X _]. discriminate X.
    + cbn [app_reads conn_read c_est c_strm]. rewrite R. cbn. split; [exists (sdata sd); reflexivity|discriminate].
    + cbn [app_reads conn_read c_est c_strm]. rewrite R. cbn. split; [exists (sdata sd); reflexivity|discriminate].
  - fold st0. destruct (read_tcp_response st0) as [[[[|] mm]|e|p] st'] eqn:R.
    + destruct (Hest st' mm ns eq_refl) as [P N]. destruct (app_reads (mkCC true st') ns) as [got e]. auto.
    + destruct (Hany _ _ _ eq_refl) as [X _]. discriminate X.
    + discriminate.
    + discriminate.
Qed.

(* ... and the failed dial: whatever reaches the client of the failure response, in whatever events, the application
   gets no byte, and if it gets a DialError it carries the server's message *)
Lemma e2e_dial_error_any_script pad sc lost m tr s msg fo ns :
  N.of_nat (length msg) <= MaxMessageLength -> drawable tcpResponsePaddingMin tcpResponsePaddingMax pad ->
  exec (init m) tr = Some s -> In (ADial (Some msg)) tr ->
  sdata sc ++ lost = stream_out (real_write_resp pad) tr ->
  match client_io fo sc ns with
  | inl e => forall m', e = RDial m' -> m' = msg
  | inr (got, e) => got = [] /\ forall m', e = Some (RDial m') -> m' = msg
  end.
Proof.
  intros Hm Hp He Hin Hout.
  pose proof (real_write_resp_total pad false msg Hm Hp) as Hframe.
  set (st0 := mkRS sc ctr0).
  assert (Hany : forall ok mm st', read_tcp_response st0 = (Ok (ok, mm), st') -> ok = false /\ mm = msg).
  { intros ok mm st' R. destruct (dial_error_shape m tr s msg He Hin) as [k Hk]. subst tr.
    destruct k as [|[|[|k]]].
    1-3: exfalso; cbn in Hout; apply app_eq_nil in Hout as [Hn _]; exact (response_needs_data st0 _ _ Hn R).
    assert (Eo : stream_out (real_write_resp pad) (firstn (S (S (S k))) (dial_error_run msg)) = real_write_resp pad false msg ++ []).
    { destruct k; cbn; rewrite ?firstn_nil, ?app_nil_r; reflexivity. }
    rewrite Eo in Hout.
    destruct (response_any_script false msg pad _ [] st0 ok mm st' lost Hm Hp Hframe Hout R) as (H1 & H2 & _). auto. }
  unfold client_io, tcp_io. destruct fo.
  - destruct ns as [|n t]; [cbn; split; [reflexivity|discriminate]|].
    fold st0. cbn [app_reads conn_read c_est c_strm].
    destruct (read_tcp_response st0) as [[[[|] mm]|e|p] st'] eqn:R.
    + destruct (Hany _ _ _ eq_refl) as [X _]. discriminate X.
    + destruct (Hany _ _ _ eq_refl) as [_ ->]. cbn. split; [reflexivity|]. intros m' X. injection X as <-. reflexivity.
    + cbn. split; [reflexivity|discriminate].
    + cbn. split; [reflexivity|discriminate].
  - fold st0. destruct (read_tcp_response st0) as [[[[|] mm]|e|p] st'] eqn:R.
    + destruct (Hany _ _ _ eq_refl) as [X _]. discriminate X.
    + destruct (Hany _ _ _ eq_refl) as [_ ->]. intros m' X. injection X as <-. reflexivity.
    + discriminate.
    + discriminate.
Qed.
