(* C06 - proofs about handleTCPRequest with the RequestHook branch (model/C06_Hook.v):
   every run writes at most one response frame on its stream; the bytes on the stream are that frame followed by
   exactly the Down sink of the relay; the relay phase of a hooked run is a run of the relay LTS (so every theorem of
   proof/C06_Relay.v applies to it); a failed dial relays nothing, hooked or not; and the variant that writes the
   failure response also on a hooked connection puts two frames on the stream, the second of which the client
   application reads as payload. *)
From Hy Require Import model.C04_Framing proof.C04_Framing model.C06_Relay proof.C06_Relay model.C06_E2E proof.C06_E2E proof.C06_Frames
  model.C06_Hook gen.ParamsC06.
From Coq Require Import List NArith ZArith Bool Lia.
Import ListNotations.
Local Open Scope N_scope.

Ltac inv H := inversion H; subst; clear H.

(* states from which no response frame can be written any more *)
Definition quiet (p : hpc) : Prop :=
  match p with
  | HHookTCP | HDial true _ | HPutback _ | HCloseOnly | HEnd => True
  | HRelay _ s => relaying (par s)
  | _ => False
  end.
(* the relay is only ever entered in a state of the copy / teardown phase *)
Definition good (p : hpc) : Prop := match p with HRelay _ s => relaying (par s) | _ => True end.

Lemma relay_init_relaying m : relaying (par (relay_init m)).
Proof. exact I. Qed.

Lemma hresps_app a b : hresps (a ++ b) = hresps a ++ hresps b.
Proof. unfold hresps. apply flat_map_app. Qed.

Lemma hstream_out_app wr a b : hstream_out wr (a ++ b) = hstream_out wr a ++ hstream_out wr b.
Proof. unfold hstream_out. apply flat_map_app. Qed.
Lemma relay_part_app a b : relay_part (a ++ b) = relay_part a ++ relay_part b.
Proof. unfold relay_part. apply flat_map_app. Qed.
Lemma htarget_in_app a b : htarget_in (a ++ b) = htarget_in a ++ htarget_in b.
Proof. unfold htarget_in. apply flat_map_app. Qed.
Lemma hputback_app a b : hputback (a ++ b) = hputback a ++ hputback b.
Proof. unfold hputback. apply flat_map_app. Qed.
Ltac split_run := rewrite ?hstream_out_app, ?hresps_app, ?relay_part_app, ?htarget_in_app, ?hputback_app.

Lemma hstep_good m p a q : good p -> hstep false m p a = Some q -> good q.
Proof.
  intros Hg Hs. destruct p, a; cbn in Hs; try discriminate.
  - destruct ok; inv Hs; exact I.
  - destruct hooked; inv Hs; exact I.
  - destruct (ok && beqb msg HookMsg); inv Hs. exact I.
  - destruct r; inv Hs; exact I.
  - destruct r as [msg|]; inv Hs.
    + destruct (negb hooked || false); exact I.
    + destruct hooked; [|exact I]. destruct pb; exact I.
  - destruct (ok && beqb msg Connected); inv Hs. exact I.
  - destruct (negb ok && beqb msg0 msg); inv Hs. exact I.
  - destruct (beqb c pb); inv Hs. exact I.
  - destruct (step s a) as [s'|] eqn:Es; inv Hs. cbn in *. exact (proj1 (step_relaying _ _ _ Hg Es)).
  - inv Hs. exact I.
Qed.

(* a step out of a quiet state writes no response and leads to a quiet state *)
Lemma hstep_quiet m p a q : quiet p -> hstep false m p a = Some q -> quiet q /\ hresps [a] = [].
Proof.
  intros Hq Hs. destruct p, a; cbn in Hq, Hs; try discriminate; try contradiction.
  - destruct r; inv Hs; split; exact I || reflexivity.
  - destruct hooked; [|contradiction]. destruct r as [msg|]; inv Hs; cbn.
    + split; [exact I|reflexivity].
    + split; [destruct pb; exact I|reflexivity].
  - destruct (beqb c pb); inv Hs. split; [exact I|reflexivity].
  - destruct (step s a) as [s'|] eqn:Es; inv Hs. destruct (step_relaying _ _ _ Hq Es) as [H1 H2].
    split; [exact H1|]. destruct a; try reflexivity. exfalso. eapply H2. reflexivity.
  - inv Hs. split; [exact I|reflexivity].
Qed.

(* any step of a good state writes at most one response, and after writing one the state is quiet *)
Lemma hstep_resp m p a q : good p -> hstep false m p a = Some q ->
  hresps [a] = [] \/ (exists r, hresps [a] = [r]) /\ quiet q.
Proof.
  intros Hg Hs. destruct p, a; cbn in Hs; try discriminate; try (left; reflexivity).
  - destruct (ok && beqb msg HookMsg); inv Hs. right. split; [eexists; reflexivity|exact I].
  - destruct (ok && beqb msg Connected); inv Hs. right. split; [eexists; reflexivity|exact I].
  - destruct (negb ok && beqb msg0 msg); inv Hs. right. split; [eexists; reflexivity|exact I].
  - destruct (step s a) as [s'|] eqn:Es; inv Hs. destruct (step_relaying _ _ _ Hg Es) as [_ H2].
    left. destruct a; try reflexivity. exfalso. eapply H2. reflexivity.
Qed.

Lemma hexec_quiet m tr : forall p q, quiet p -> hexec false m p tr = Some q -> hresps tr = [] /\ quiet q.
Proof.
  induction tr as [|a t IH]; intros p q Hq He; cbn in He.
  - inv He. split; [reflexivity|exact Hq].
  - destruct (hstep false m p a) as [p1|] eqn:Es; [|discriminate].
    destruct (hstep_quiet _ _ _ _ Hq Es) as [Q1 R1]. destruct (IH _ _ Q1 He) as [R2 Q2].
    change (a :: t) with ([a] ++ t). rewrite hresps_app, R1, R2. split; [reflexivity|exact Q2].
Qed.

Lemma hexec_one_response m tr : forall p q, good p -> hexec false m p tr = Some q -> (length (hresps tr) <= 1)%nat.
Proof.
  induction tr as [|a t IH]; intros p q Hg He; cbn in He.
  - cbn. lia.
  - destruct (hstep false m p a) as [p1|] eqn:Es; [|discriminate].
    change (a :: t) with ([a] ++ t). rewrite hresps_app, app_length.
    destruct (hstep_resp _ _ _ _ Hg Es) as [R|[[r R] Q]].
    + rewrite R. cbn. exact (IH _ _ (hstep_good _ _ _ _ Hg Es) He).
    + destruct (hexec_quiet _ _ _ _ Q He) as [R2 _]. rewrite R, R2. cbn. lia.
Qed.

(* ---- clause: at most one response frame is ever written on a stream, on every run *)
Lemma one_response_per_stream m tr p : hexec false m HReadReq tr = Some p -> (length (hresps tr) <= 1)%nat.
Proof. exact (hexec_one_response m tr HReadReq p I). Qed.

(* ------------------------------------------------------------------ the relay phase *)
Lemma hexec_relay m tr : forall tx0 s q, hexec false m (HRelay tx0 s) tr = Some q ->
  exists s', q = HRelay tx0 s' /\ exec s (relay_part tr) = Some s' /\ tr = map XRelay (relay_part tr).
Proof.
  induction tr as [|a t IH]; intros tx0 s q He; cbn in He.
  - inv He. exists s. repeat split.
  - destruct a; try discriminate. destruct (step s a) as [s1|] eqn:Es; [|discriminate].
    destruct (IH _ _ _ He) as (s' & -> & E & T). exists s'. split; [reflexivity|]. split.
    + cbn. rewrite Es. exact E.
    + cbn. f_equal. exact T.
Qed.

Lemma hexec_no_putback m t tx0 s q : hexec false m (HRelay tx0 s) t = Some q -> hputback t = [].
Proof.
  intros He. destruct (hexec_relay _ _ _ _ _ He) as (_ & _ & _ & T). rewrite T. clear.
  induction (relay_part t) as [|a l IH]; [reflexivity|exact IH].
Qed.

Lemma map_relay_out wr l : hstream_out wr (map XRelay l) = stream_out wr l /\
  htarget_in (map XRelay l) = snkb Up l /\ hresps (map XRelay l) = flat_map (fun a => match a with AWriteResp ok msg => [(ok, msg)] | _ => [] end) l.
Proof.
  induction l as [|a l (I1 & I2 & I3)]; [repeat split|].
  cbn [map]. split; [|split].
  - change (hstream_out wr (XRelay a :: map XRelay l)) with (stream_out wr [a] ++ hstream_out wr (map XRelay l)).
    rewrite I1. change (a :: l) with ([a] ++ l). unfold stream_out. rewrite flat_map_app. reflexivity.
  - change (htarget_in (XRelay a :: map XRelay l)) with
      (match a with ALoop Up (LWrite c nw _) => wrote c nw | _ => [] end ++ htarget_in (map XRelay l)).
    rewrite I2. destruct a as [| | |d x| | | |]; try reflexivity. destruct d, x; reflexivity.
  - change (hresps (XRelay a :: map XRelay l)) with
      (match a with AWriteResp ok msg => [(ok, msg)] | _ => [] end ++ hresps (map XRelay l)).
    rewrite I3. reflexivity.
Qed.

(* from a relaying state: nothing but the Down sink reaches the stream, nothing but the Up sink the target *)
Lemma relay_phase_out wr m tr tx0 s q : relaying (par s) -> hexec false m (HRelay tx0 s) tr = Some q ->
  exists s', q = HRelay tx0 s' /\ exec s (relay_part tr) = Some s' /\
    hstream_out wr tr = snkb Down (relay_part tr) /\ htarget_in tr = snkb Up (relay_part tr) /\ hresps tr = [].
Proof.
  intros Hr He. destruct (hexec_relay _ _ _ _ _ He) as (s' & -> & E & T).
  exists s'. split; [reflexivity|]. split; [exact E|].
  destruct (map_relay_out wr (relay_part tr)) as (M1 & M2 & _).
  assert (Hno := relay_no_resp s _ s' Hr E).
  destruct (stream_out_no_resp wr _ Hno) as [S1 _].
  split; [rewrite T at 1; rewrite M1; exact S1|]. split; [rewrite T at 1; exact M2|].
  exact (proj1 (hexec_quiet m tr (HRelay tx0 s) (HRelay tx0 s') Hr He)).
Qed.

(* ------------------------------------------------------------------ the shape of a run *)
Definition hooked_prefix (pb : bytes) : list hact := [XReadReq true; XCheck true; XWriteResp true HookMsg; XHookTCP (Some pb)].

Lemma hexec_closeonly m tr q : hexec false m HCloseOnly tr = Some q -> tr = [] \/ tr = [XCloseStream].
Proof.
  destruct tr as [|a t]; [left; reflexivity|]. cbn. destruct a; try discriminate.
  destruct t as [|b t]; [right; reflexivity|]. cbn. destruct b; discriminate.
Qed.

Lemma firstn_all_app {A} (l : list A) k : firstn (length l + k) l = l.
Proof. apply firstn_all2. lia. Qed.

(* every run from the start is a prefix of one of the five straight-line runs, or reaches the relay *)
Inductive hshape (m : mode) (tr : list hact) (p : hpc) : Prop :=
| ShBadReq k : tr = firstn k [XReadReq false; XCloseStream] -> hshape m tr p
| ShAbort k : tr = firstn k [XReadReq true; XCheck true; XWriteResp true HookMsg; XHookTCP None; XCloseStream] -> hshape m tr p
| ShHookedErr pb msg k : tr = firstn k (hooked_dial_error_run pb msg) -> hshape m tr p
| ShPlainErr msg k : tr = firstn k (plain_dial_error_run msg) -> hshape m tr p
| ShPlainPre k : tr = firstn k [XReadReq true; XCheck false; XDial None] -> hshape m tr p
| ShHookedPre pb k : (k <= 4)%nat \/ pb <> [] -> tr = firstn k (hooked_prefix pb ++ [XDial None]) -> hshape m tr p
| ShPlainRelay t : tr = [XReadReq true; XCheck false; XDial None; XWriteResp true Connected] ++ t ->
    hexec false m (HRelay 0 (relay_init m)) t = Some p -> hshape m tr p
| ShHookedRelay0 t : tr = hooked_prefix [] ++ [XDial None] ++ t ->
    hexec false m (HRelay 0 (relay_init m)) t = Some p -> hshape m tr p
| ShHookedRelay pb nw t : pb <> [] -> tr = hooked_prefix pb ++ [XDial None; XPutback pb nw] ++ t ->
    hexec false m (HRelay (u64z nw) (relay_init m)) t = Some p -> hshape m tr p.

Ltac stop_here c n := solve [eapply c with (k := n); reflexivity].

Lemma run_hshape m tr p : hexec false m HReadReq tr = Some p -> hshape m tr p.
Proof.
  intros He.
  destruct tr as [|a1 t1]; [stop_here ShBadReq 0%nat|].
  cbn in He. destruct a1; try discriminate. destruct ok.
  2:{ destruct (hexec_closeonly _ _ _ He) as [->| ->]; [stop_here ShBadReq 1%nat|stop_here ShBadReq 2%nat]. }
  destruct t1 as [|a2 t2]; [stop_here ShPlainPre 1%nat|].
  cbn in He. destruct a2; try discriminate. destruct hooked.
  - (* hooked *)
    destruct t2 as [|a3 t3]; [stop_here ShAbort 2%nat|].
    cbn in He. destruct a3; try discriminate.
    destruct (ok && beqb msg HookMsg) eqn:Eb; [|discriminate].
    apply andb_true_iff in Eb as [-> E2]. apply beqb_eq in E2. subst msg.
    destruct t3 as [|a4 t4]; [stop_here ShAbort 3%nat|].
    cbn in He. destruct a4; try discriminate. destruct r as [pb|].
    2:{ destruct (hexec_closeonly _ _ _ He) as [->| ->]; [stop_here ShAbort 4%nat|stop_here ShAbort 5%nat]. }
    destruct t4 as [|a5 t5]; [eapply ShHookedPre with (pb := pb) (k := 4%nat); [left; lia|reflexivity]|].
    cbn in He. destruct a5; try discriminate. destruct r as [msg|].
    + cbn in He. destruct (hexec_closeonly _ _ _ He) as [->| ->];
        [eapply ShHookedErr with (pb := pb) (msg := msg) (k := 5%nat)|eapply ShHookedErr with (pb := pb) (msg := msg) (k := 6%nat)]; reflexivity.
    + destruct pb as [|b pb].
      * cbn in He. eapply ShHookedRelay0 with (t := t5); [reflexivity|exact He].
      * cbn [after_dial_ok] in He.
        destruct t5 as [|a6 t6]; [eapply ShHookedPre with (pb := b :: pb) (k := 5%nat); [right; discriminate|reflexivity]|].
        cbn [hexec hstep] in He. destruct a6; try discriminate.
        destruct (beqb c (b :: pb)) eqn:Eb; [|discriminate]. apply beqb_eq in Eb. subst c.
        eapply ShHookedRelay with (pb := b :: pb) (nw := nw) (t := t6); [discriminate|reflexivity|exact He].
  - (* not hooked *)
    destruct t2 as [|a3 t3]; [stop_here ShPlainPre 2%nat|].
    cbn in He. destruct a3; try discriminate. destruct r as [msg|].
    + cbn in He. destruct t3 as [|a4 t4]; [eapply ShPlainErr with (msg := msg) (k := 3%nat); reflexivity|].
      cbn in He. destruct a4; try discriminate.
      destruct (negb ok && beqb msg0 msg) eqn:Eb; [|discriminate].
      apply andb_true_iff in Eb as [E1 E2]. apply beqb_eq in E2. subst msg0. destruct ok; [discriminate|].
      destruct (hexec_closeonly _ _ _ He) as [->| ->];
        [eapply ShPlainErr with (msg := msg) (k := 4%nat)|eapply ShPlainErr with (msg := msg) (k := 5%nat)]; reflexivity.
    + cbn in He. destruct t3 as [|a4 t4]; [stop_here ShPlainPre 3%nat|].
      cbn in He. destruct a4; try discriminate.
      destruct (ok && beqb msg Connected) eqn:Eb; [|discriminate].
      apply andb_true_iff in Eb as [-> E2]. apply beqb_eq in E2. subst msg.
      eapply ShPlainRelay with (t := t4); [reflexivity|exact He].
Qed.

Definition frames (wr : bool -> bytes -> bytes) (l : list (bool * bytes)) : bytes := flat_map (fun r => wr (fst r) (snd r)) l.

(* ---- on every run, hooked or not: the stream carries the response frame(s written so far - at most one) and then exactly
   the Down sink of the relay; the target holds what was put back and then exactly the Up sink *)
Lemma hstream_every_run wr m tr p : hexec false m HReadReq tr = Some p ->
  hstream_out wr tr = frames wr (hresps tr) ++ snkb Down (relay_part tr).
Proof.
  intros He. destruct (run_hshape _ _ _ He) as [k ->|k ->|pb msg k ->|msg k ->|k ->|pb k _ ->|t -> Ht|t -> Ht|pb nw t _ -> Ht].
  - destruct k as [|[|[|k]]]; cbn; rewrite ?firstn_nil, ?app_nil_r; reflexivity.
  - destruct k as [|[|[|[|[|[|k]]]]]]; cbn; rewrite ?firstn_nil, ?app_nil_r; reflexivity.
  - destruct k as [|[|[|[|[|[|[|k]]]]]]]; cbn; rewrite ?firstn_nil, ?app_nil_r; reflexivity.
  - destruct k as [|[|[|[|[|[|k]]]]]]; cbn; rewrite ?firstn_nil, ?app_nil_r; reflexivity.
  - destruct k as [|[|[|[|k]]]]; cbn; rewrite ?firstn_nil, ?app_nil_r; reflexivity.
  - destruct k as [|[|[|[|[|[|k]]]]]]; cbn; rewrite ?firstn_nil, ?app_nil_r; reflexivity.
  - destruct (relay_phase_out wr _ _ _ _ _ (relay_init_relaying m) Ht) as (s' & _ & _ & O1 & _ & O3).
    split_run. rewrite O1, O3. cbn. rewrite ?app_nil_r. reflexivity.
  - destruct (relay_phase_out wr _ _ _ _ _ (relay_init_relaying m) Ht) as (s' & _ & _ & O1 & _ & O3).
    split_run. rewrite O1, O3. cbn. rewrite ?app_nil_r. reflexivity.
  - destruct (relay_phase_out wr _ _ _ _ _ (relay_init_relaying m) Ht) as (s' & _ & _ & O1 & _ & O3).
    split_run. rewrite O1, O3. cbn. rewrite ?app_nil_r. reflexivity.
Qed.

(* ---- a run that reached the relay: its copy / teardown phase is a run of the relay LTS (after the three actions of
   an accepted un-hooked request, so that every theorem about exec (init m) applies to it), the stream carries ONE ok
   frame and then the Down sink, the target what the hook put back and then the Up sink *)
Lemma relay_of_run wr m tr tx0 s : hexec false m HReadReq tr = Some (HRelay tx0 s) ->
  exec (init m) (accept_run ++ relay_part tr) = Some s /\
  (exists msg, (msg = Connected \/ msg = HookMsg) /\ hresps tr = [(true, msg)] /\
     hstream_out wr tr = wr true msg ++ snkb Down (relay_part tr)) /\
  (exists nw, tx0 = (match hputback tr with [] => 0 | _ => u64z nw end) /\
     htarget_in tr = wrote (hputback tr) nw ++ snkb Up (relay_part tr)).
Proof.
  intros He.
  assert (Acc : forall t s', exec (relay_init m) t = Some s' -> exec (init m) (accept_run ++ t) = Some s').
  { intros t s' E. rewrite exec_app, relay_init_reachable. exact E. }
  destruct (run_hshape _ _ _ He) as [k E|k E|pb msg k E|msg k E|k E|pb k Hc E|t -> Ht|t -> Ht|pb nw t Hne -> Ht].
  1-6: apply (f_equal (hexec false m HReadReq)) in E; rewrite He in E.
  1-5: exfalso.
  - destruct k as [|[|[|k]]]; cbn in E; discriminate.
  - destruct k as [|[|[|[|[|[|k]]]]]]; cbn in E; discriminate.
  - destruct k as [|[|[|[|[|[|[|k]]]]]]]; cbn in E; discriminate.
  - destruct k as [|[|[|[|[|[|k]]]]]]; cbn in E; rewrite ?beqb_refl in E; cbn in E; discriminate.
  - destruct k as [|[|[|[|k]]]]; cbn in E; discriminate.
  - exfalso. destruct k as [|[|[|[|[|k]]]]]; cbn in E; try discriminate.
    destruct Hc as [Hc|Hc]; [lia|]. destruct pb; [contradiction|]. destruct k; cbn in E; discriminate.
  - destruct (relay_phase_out wr _ _ _ _ _ (relay_init_relaying m) Ht) as (s' & Eq & Ex & O1 & O2 & O3). inv Eq.
    split; [apply Acc; exact Ex|]. split.
    + exists Connected. split; [left; reflexivity|]. split_run. rewrite O1, O3. cbn. rewrite ?app_nil_r. split; reflexivity.
    + exists 0%Z. split_run. rewrite O2, (hexec_no_putback _ _ _ _ _ Ht). split; reflexivity.
  - destruct (relay_phase_out wr _ _ _ _ _ (relay_init_relaying m) Ht) as (s' & Eq & Ex & O1 & O2 & O3). inv Eq.
    split; [apply Acc; exact Ex|]. split.
    + exists HookMsg. split; [right; reflexivity|]. split_run. rewrite O1, O3. cbn. rewrite ?app_nil_r. split; reflexivity.
    + exists 0%Z. split_run. rewrite O2, (hexec_no_putback _ _ _ _ _ Ht). split; reflexivity.
  - destruct (relay_phase_out wr _ _ _ _ _ (relay_init_relaying m) Ht) as (s' & Eq & Ex & O1 & O2 & O3). inv Eq.
    split; [apply Acc; exact Ex|]. split.
    + exists HookMsg. split; [right; reflexivity|]. split_run. rewrite O1, O3. cbn. rewrite ?app_nil_r. split; reflexivity.
    + exists nw. split_run. rewrite O2, (hexec_no_putback _ _ _ _ _ Ht). cbn. rewrite ?app_nil_r.
      destruct pb; [contradiction|]. split; reflexivity.
Qed.

Lemma relay_up_prefix m t tx0 q : hexec false m (HRelay tx0 (relay_init m)) t = Some q -> wok_tr (relay_part t) ->
  exists rest, srcb Up (relay_part t) = htarget_in t ++ rest /\ hputback t = [].
Proof.
  intros Ht Hw.
  destruct (relay_phase_out (fun _ _ => []) _ _ _ _ _ (relay_init_relaying m) Ht) as (s' & _ & Ex & _ & O2 & _).
  assert (E0 : exec (init m) (accept_run ++ relay_part t) = Some s') by (rewrite exec_app, relay_init_reachable; exact Ex).
  destruct (accept_run_streams (fun _ _ => []) (relay_part t)) as (_ & _ & A3).
  destruct (run_prefix m _ s' Up E0) as [rest Hr].
  { intros d. rewrite A3. apply Hw. }
  unfold srcb, snkb in *. rewrite !A3 in Hr.
  exists rest. split; [rewrite O2; exact Hr|exact (hexec_no_putback _ _ _ _ _ Ht)].
Qed.

(* the hooked upstream: if the target accepted the whole putback (the code ignores both results of that Write) and the
   sinks obey the Writer contract, the target holds a prefix of (what the hook put back ++ what the Up loop read) *)
Lemma hooked_target_prefix m tr p : hexec false m HReadReq tr = Some p -> wok_tr (relay_part tr) ->
  (forall c nw, In (XPutback c nw) tr -> (Z.of_N (blen c) <= nw)%Z) ->
  exists rest, hputback tr ++ srcb Up (relay_part tr) = htarget_in tr ++ rest.
Proof.
  intros He Hw Hpb.
  destruct (run_hshape _ _ _ He) as [k ->|k ->|pb msg k ->|msg k ->|k ->|pb k _ ->|t -> Ht|t -> Ht|pb nw t Hne -> Ht].
  - exists []. destruct k as [|[|[|k]]]; cbn; rewrite ?firstn_nil; reflexivity.
  - exists []. destruct k as [|[|[|[|[|[|k]]]]]]; cbn; rewrite ?firstn_nil; reflexivity.
  - destruct k as [|[|[|[|[|[|[|k]]]]]]]; cbn; rewrite ?firstn_nil, ?app_nil_r; eexists; try reflexivity; symmetry; apply app_nil_l.
  - exists []. destruct k as [|[|[|[|[|[|k]]]]]]; cbn; rewrite ?firstn_nil; reflexivity.
  - exists []. destruct k as [|[|[|[|k]]]]; cbn; rewrite ?firstn_nil; reflexivity.
  - destruct k as [|[|[|[|[|[|k]]]]]]; cbn; rewrite ?firstn_nil, ?app_nil_r; eexists; try reflexivity; symmetry; apply app_nil_l.
  - change (relay_part ([XReadReq true; XCheck false; XDial None; XWriteResp true Connected] ++ t)) with (relay_part t) in *.
    destruct (relay_up_prefix _ _ _ _ Ht Hw) as (rest & Hr & Hn). exists rest.
    split_run. rewrite Hn. exact Hr.
  - change (relay_part (hooked_prefix [] ++ [XDial None] ++ t)) with (relay_part t) in *.
    destruct (relay_up_prefix _ _ _ _ Ht Hw) as (rest & Hr & Hn). exists rest.
    split_run. rewrite Hn. exact Hr.
  - change (relay_part (hooked_prefix pb ++ [XDial None; XPutback pb nw] ++ t)) with (relay_part t) in *.
    destruct (relay_up_prefix _ _ _ _ Ht Hw) as (rest & Hr & Hn). exists rest.
    assert (Hfull : wrote pb nw = pb).
    { apply wrote_full. apply Hpb. cbn. right; right; right; right; right. left. reflexivity. }
    split_run. rewrite Hn, Hr. cbn. rewrite ?app_nil_r, Hfull, app_assoc. reflexivity.
Qed.

(* ------------------------------------------------------------------ a failed dial *)
Lemma in_firstn' {A} (x : A) k l : In x (firstn k l) -> In x l.
Proof. revert l. induction k; intros [|y l] H; cbn in *; try contradiction. destruct H; auto. Qed.

Lemma relay_no_dial m t tx0 s q r : relaying (par s) -> hexec false m (HRelay tx0 s) t = Some q -> ~ In (XDial r) t.
Proof.
  intros _ He. destruct (hexec_relay _ _ _ _ _ He) as (_ & _ & _ & T). rewrite T. clear.
  induction (relay_part t) as [|a l IH]; cbn; [auto|]. intros [X|X]; [discriminate|auto].
Qed.

(* every run with a failed dial is a prefix of one of two straight-line runs *)
Lemma hooked_dial_error_shape m tr p msg : hexec false m HReadReq tr = Some p -> In (XDial (Some msg)) tr ->
  (exists pb k, tr = firstn k (hooked_dial_error_run pb msg)) \/ (exists k, tr = firstn k (plain_dial_error_run msg)).
Proof.
  intros He Hin.
  destruct (run_hshape _ _ _ He) as [k E|k E|pb msg' k E|msg' k E|k E|pb k Hc E|t E Ht|t E Ht|pb nw t Hne E Ht]; subst tr.
  - exfalso. apply in_firstn' in Hin. cbn in Hin. intuition discriminate.
  - exfalso. apply in_firstn' in Hin. cbn in Hin. intuition discriminate.
  - left. exists pb, k. assert (msg' = msg); [|subst; reflexivity].
    apply in_firstn' in Hin. cbn in Hin. destruct Hin as [X|[X|[X|[X|[X|[X|[]]]]]]]; try discriminate. inv X. reflexivity.
  - right. exists k. assert (msg' = msg); [|subst; reflexivity].
    apply in_firstn' in Hin. cbn in Hin. destruct Hin as [X|[X|[X|[X|[X|[]]]]]]; try discriminate. inv X. reflexivity.
  - exfalso. apply in_firstn' in Hin. cbn in Hin. intuition discriminate.
  - exfalso. apply in_firstn' in Hin. cbn in Hin. intuition discriminate.
  - exfalso. cbn in Hin. destruct Hin as [X|[X|[X|[X|X]]]]; try discriminate.
    exact (relay_no_dial _ _ _ _ _ _ (relay_init_relaying m) Ht X).
  - exfalso. cbn in Hin. destruct Hin as [X|[X|[X|[X|[X|X]]]]]; try discriminate.
    exact (relay_no_dial _ _ _ _ _ _ (relay_init_relaying m) Ht X).
  - exfalso. cbn in Hin. destruct Hin as [X|[X|[X|[X|[X|[X|X]]]]]]; try discriminate.
    exact (relay_no_dial _ _ _ _ _ _ (relay_init_relaying m) Ht X).
Qed.

(* ---- a failed dial relays nothing, hooked or not: no copy action, nothing to a target, and the stream carries nothing
   but the single response: the ok frame of the hook branch (written before the dial) on a hooked connection, the
   failure frame with the server's message otherwise - nothing behind it *)
Lemma hooked_dial_error_relays_nothing wr m tr p msg : hexec false m HReadReq tr = Some p -> In (XDial (Some msg)) tr ->
  relay_part tr = [] /\ htarget_in tr = [] /\
  (In (XCheck true) tr -> hstream_out wr tr = wr true HookMsg /\ hresps tr = [(true, HookMsg)]) /\
  (In (XCheck false) tr -> hstream_out wr tr = frames wr (hresps tr) /\ (hresps tr = [] \/ hresps tr = [(false, msg)])).
Proof.
  intros He Hin. destruct (hooked_dial_error_shape _ _ _ _ He Hin) as [(pb & k & ->)|(k & ->)].
  - destruct k as [|[|[|[|[|[|[|k]]]]]]]; cbn in Hin; try (exfalso; intuition discriminate); cbn; rewrite ?firstn_nil, ?app_nil_r;
      (split; [reflexivity|]; split; [reflexivity|]; split; [intros _; split; reflexivity|intros X; exfalso; intuition discriminate]).
  - destruct k as [|[|[|[|[|[|k]]]]]]; cbn in Hin; try (exfalso; intuition discriminate); cbn; rewrite ?firstn_nil, ?app_nil_r;
      (split; [reflexivity|]; split; [reflexivity|]; split; [intros X; exfalso; intuition discriminate|intros _; split; [reflexivity|auto]]).
Qed.

(* ------------------------------------------------------------------ what the client of a hooked connection sees *)
Lemma hookmsg_fits : N.of_nat (length HookMsg) <= MaxMessageLength.
Proof. vm_compute. discriminate. Qed.

(* one ok frame (any message that fits) in front of the stream, whatever part of the stream arrives, in any events:
   TCP() never reports a DialError and whatever the application reads is a prefix of what follows the frame *)
Lemma client_one_ok_frame pad msg0 rest sc lost fo ns :
  N.of_nat (length msg0) <= MaxMessageLength -> drawable tcpResponsePaddingMin tcpResponsePaddingMax pad ->
  sdata sc ++ lost = real_write_resp pad true msg0 ++ rest ->
  match client_io fo sc ns with
  | inl e => forall m', e <> RDial m'
  | inr (got, e) => (exists r, rest = got ++ r) /\ forall m', e <> Some (RDial m')
  end.
Proof.
  intros Hm Hp Hout.
  pose proof (real_write_resp_total pad true msg0 Hm Hp) as Hframe.
  set (st0 := mkRS sc ctr0).
  assert (Hany : forall ok mm st', read_tcp_response st0 = (Ok (ok, mm), st') ->
                   ok = true /\ sdata (rs_script st') ++ lost = rest).
  { intros ok mm st' R.
    destruct (response_any_script true msg0 pad _ rest st0 ok mm st' lost Hm Hp Hframe Hout R) as (H1 & _ & H3). auto. }
  assert (Hest : forall st' mm ns0, read_tcp_response st0 = (Ok (true, mm), st') ->
            (exists r, rest = fst (app_reads (mkCC true st') ns0) ++ r) /\
            forall msg, snd (app_reads (mkCC true st') ns0) <> Some (RDial msg)).
  { intros st' mm ns0 R. destruct (Hany _ _ _ R) as [_ Hd].
    destruct (app_reads (mkCC true st') ns0) as [got e] eqn:Ea. cbn [fst snd].
    destruct (app_reads_established _ _ _ _ Ea) as [[r1 P] _]. split.
    - exists (r1 ++ lost). rewrite <- Hd, P, <- app_assoc. reflexivity.
    - clear - Ea. revert st' got e Ea. induction ns0 as [|n t IH]; intros st' got e Ea msg.
      + cbn in Ea. injection Ea as <- <-. discriminate.
      + cbn [app_reads conn_read c_est c_strm] in Ea. unfold stream_read in Ea. cbn [fst snd] in Ea.
        destruct (read1 n (rs_script st')) as [[bs oe] s1]. cbn [fst snd] in Ea.
        destruct oe as [x|]; cbn [option_map] in Ea.
        * injection Ea as <- <-. discriminate.
        * destruct (app_reads (mkCC true (mkRS s1 (tick n (rs_ctr st')))) t) as [g' e'] eqn:Eb.
          cbn [fst snd] in Ea. injection Ea as <- <-. eapply IH. exact Eb. }
  unfold client_io, tcp_io. destruct fo.
  - destruct ns as [|n t]; [cbn; split; [exists rest; reflexivity|discriminate]|].
    fold st0. destruct (read_tcp_response st0) as [[[[|] mm]|e|p] st'] eqn:R.
    + rewrite (app_reads_unestablished _ _ _ n t R).
      destruct (Hest st' mm (n :: t) eq_refl) as [P N]. destruct (app_reads (mkCC true st') (n :: t)) as [got e]. auto.
    + destruct (Hany _ _ _ eq_refl) as [X _]. discriminate X.
    + cbn [app_reads conn_read c_est c_strm]. rewrite R. cbn. split; [exists rest; reflexivity|discriminate].
    + cbn [app_reads conn_read c_est c_strm]. rewrite R. cbn. split; [exists rest; reflexivity|discriminate].
  - fold st0. destruct (read_tcp_response st0) as [[[[|] mm]|e|p] st'] eqn:R.
    + destruct (Hest st' mm ns eq_refl) as [P N]. destruct (app_reads (mkCC true st') ns) as [got e]. auto.
    + destruct (Hany _ _ _ eq_refl) as [X _]. discriminate X.
    + discriminate.
    + discriminate.
Qed.

(* hooked connection, failed dial: the stream carries the ok frame and nothing else; whatever part of it arrives, in any
   chunking, with fast open on or off and any buffers, the application reads no byte and never sees a DialError: its
   Reads end with the end of the stream *)
Lemma hooked_dial_error_client m tr p msg pad sc lost fo ns :
  drawable tcpResponsePaddingMin tcpResponsePaddingMax pad ->
  hexec false m HReadReq tr = Some p -> In (XDial (Some msg)) tr -> In (XCheck true) tr ->
  sdata sc ++ lost = hstream_out (real_write_resp pad) tr ->
  match client_io fo sc ns with
  | inl e => forall m', e <> RDial m'
  | inr (got, e) => got = [] /\ forall m', e <> Some (RDial m')
  end.
Proof.
  intros Hpad He Hin Hck Hout.
  destruct (hooked_dial_error_relays_nothing (real_write_resp pad) _ _ _ _ He Hin) as (_ & _ & Hs & _).
  destruct (Hs Hck) as [Hs1 _]. rewrite Hs1, <- (app_nil_r (real_write_resp pad true HookMsg)) in Hout.
  pose proof (client_one_ok_frame pad HookMsg [] sc lost fo ns hookmsg_fits Hpad Hout) as C.
  destruct (client_io fo sc ns) as [e|[got e]]; [exact C|].
  destruct C as [[r Hr] N]. split; [|exact N]. symmetry in Hr. apply app_eq_nil in Hr. tauto.
Qed.

(* hooked connection that reached the relay: what the application reads is a prefix of what the target sent *)
Lemma hooked_client_reads_prefix m tr tx0 s pad sd sc lost fo ns :
  drawable tcpResponsePaddingMin tcpResponsePaddingMax pad ->
  hexec false m HReadReq tr = Some (HRelay tx0 s) -> wok_tr (relay_part tr) -> target_io sd (relay_part tr) ->
  sdata sc ++ lost = hstream_out (real_write_resp pad) tr ->
  match client_io fo sc ns with
  | inl e => forall m', e <> RDial m'
  | inr (got, e) => (exists rest, sdata sd = got ++ rest) /\ forall m', e <> Some (RDial m')
  end.
Proof.
  intros Hpad He Hw [left Ht] Hout.
  destruct (relay_of_run (real_write_resp pad) _ _ _ _ He) as (E0 & (msg & Hmsg & _ & Hs) & _).
  rewrite Hs in Hout.
  assert (Hfit : N.of_nat (length msg) <= MaxMessageLength) by (destruct Hmsg as [-> | ->]; [exact connected_fits|exact hookmsg_fits]).
  pose proof (client_one_ok_frame pad msg _ sc lost fo ns Hfit Hpad Hout) as C.
  destruct (accept_run_streams (real_write_resp pad) (relay_part tr)) as (_ & _ & A3).
  destruct (run_prefix m _ s Down E0) as [r2 Hr].
  { intros d. rewrite A3. apply Hw. }
  unfold srcb, snkb in Hr. rewrite !A3 in Hr.
  pose proof (reads_script_data _ _ _ Ht) as Hdat.
  destruct (client_io fo sc ns) as [e|[got e]]; [exact C|].
  destruct C as [[r Hr1] N]. split; [|exact N].
  exists (r ++ r2 ++ sdata left). rewrite Hdat, Hr. unfold snkb in Hr1. rewrite Hr1, <- !app_assoc. reflexivity.
Qed.

(* ------------------------------------------------------------------ the guard of the failure branch is needed *)
Definition hx_pad : list byte := repeat x70 128.
Definition hx_msg : bytes := [x6e; x6f].      (* "no" *)
Definition hx_wr := real_write_resp hx_pad.

(* always = true ("always tell the client why"): the run of a hooked connection whose dial fails puts TWO frames on the
   stream; the client took the first for the response, so the application reads the whole second frame as payload
   although no target was ever connected - with fast open on and off *)
Lemma unguarded_failure_response_injects :
  drawable tcpResponsePaddingMin tcpResponsePaddingMax hx_pad /\
  hexec true Logged HReadReq (double_response_run [] hx_msg) = Some HEnd /\
  hexec false Logged HReadReq (double_response_run [] hx_msg) = None /\
  hresps (double_response_run [] hx_msg) = [(true, HookMsg); (false, hx_msg)] /\
  relay_part (double_response_run [] hx_msg) = [] /\
  hstream_out hx_wr (double_response_run [] hx_msg) = hx_wr true HookMsg ++ hx_wr false hx_msg /\
  hx_wr false hx_msg <> [] /\
  forall fo, client_io fo [Chunk (hstream_out hx_wr (double_response_run [] hx_msg)); Ev [] (Some EEof)] [4096%nat; 4096%nat]
             = inr (hx_wr false hx_msg, Some (RStream EEof)).
Proof.
  split; [apply drawableb_spec; vm_compute; reflexivity|].
  split; [vm_compute; reflexivity|]. split; [vm_compute; reflexivity|]. split; [reflexivity|]. split; [reflexivity|].
  split; [cbn; rewrite ?app_nil_r; reflexivity|]. split; [vm_compute; discriminate|].
  intros [|]; vm_compute; reflexivity.
Qed.

(* non-vacuity: a hooked run with putback that relays in both directions *)
Definition hx_run : list hact :=
  hooked_prefix [x68] ++ [XDial None; XPutback [x68] 1] ++
  map XRelay [ALoop Up (LRead CopyBufSize [x69] EN); ALoop Up (LLog 1 0 true); ALoop Up (LWrite [x69] 1 EN);
              ALoop Down (LRead CopyBufSize [x4f; x4b] EEOF); ALoop Down (LLog 0 2 true); ALoop Down (LWrite [x4f; x4b] 2 EN);
              ALoop Down (LReturn GNil); AFirstReturn GNil; ACloseTarget; ACloseStream].

Lemma hx_run_ok : exists s, hexec false Logged HReadReq hx_run = Some (HRelay 1 s) /\ par s = QDone /\
  hresps hx_run = [(true, HookMsg)] /\ htarget_in hx_run = [x68; x69] /\ hputback hx_run = [x68] /\
  hstream_out hx_wr hx_run = hx_wr true HookMsg ++ [x4f; x4b] /\ hstats_tx (HRelay 1 s) = Some 2 /\ wok_tr (relay_part hx_run).
Proof.
  eexists. split; [vm_compute; reflexivity|]. split; [reflexivity|]. split; [reflexivity|]. split; [reflexivity|].
  split; [reflexivity|]. split; [cbn; rewrite ?app_nil_r; reflexivity|]. split; [vm_compute; reflexivity|].
  intros d. destruct d; cbn; repeat constructor; cbn; try lia; intros; try lia.
Qed.
