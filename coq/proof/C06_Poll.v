(* C06 - the fast-open client that polls with read deadlines (model/C06_E2E.v, app_polls): Reads that time out before
   the response has begun to arrive, and Reads that time out anywhere behind the response, are retried; the bytes the
   application gets are still exactly a prefix of the bytes behind the response frame.  The Once-guarded variant of the
   lazy response read hands the response frame itself to the application. *)
From Hy Require Import model.C04_Framing proof.C04_Framing model.C06_Relay proof.C06_Relay model.C06_E2E proof.C06_E2E gen.ParamsC06.
From Coq Require Import List NArith ZArith Bool Lia.
Import ListNotations.
Local Open Scope N_scope.

(* a Read of an unestablished connection while the stream has nothing but an expired deadline: the error, no byte,
   Established stays false, the stream has moved past the event only *)
Lemma conn_read_deadline e s c n :
  conn_read (mkCC false (mkRS (Fail e :: s) c)) n = (([], Some (RResp e)), mkCC false (mkRS s (tick 1 c))).
Proof.
  unfold conn_read. cbn [c_est c_strm].
  assert (R : read_tcp_response (mkRS (Fail e :: s) c) = (Err e, mkRS s (tick 1 c))).
  { unfold read_tcp_response, io_bind, io_read_full. cbn. destruct e; reflexivity. }
  rewrite R. reflexivity.
Qed.

Lemma app_polls_deadlines k : forall s c ns, (k <= length ns)%nat ->
  exists c', app_polls (mkCC false (mkRS (deadlines k ++ s) c)) ns = app_polls (mkCC false (mkRS s c')) (skipn k ns).
Proof.
  induction k as [|k IH]; intros s c ns Hk.
  - exists c. reflexivity.
  - destruct ns as [|n t]; [cbn in Hk; lia|].
    cbn [deadlines repeat app]. cbn [app_polls]. rewrite conn_read_deadline. cbn [fst snd transient app].
    destruct (IH s (tick 1 c) t ltac:(cbn in Hk; lia)) as [c' E]. exists c'.
    fold (deadlines k). rewrite E. cbn [skipn]. destruct (app_polls (mkCC false (mkRS s c')) (skipn k t)); reflexivity.
Qed.

(* once Established, every byte the application gets is the next byte of the stream, whatever errors it retries *)
Lemma app_polls_established ns : forall st, exists rest, sdata (rs_script st) = fst (app_polls (mkCC true st) ns) ++ rest.
Proof.
  induction ns as [|n t IH]; intros st.
  - exists (sdata (rs_script st)). reflexivity.
  - cbn [app_polls conn_read c_est c_strm]. unfold stream_read. cbn [fst snd].
    pose proof (read1_data n (rs_script st)) as Hd.
    destruct (read1 n (rs_script st)) as [[bs oe] s1]. cbn [fst snd] in *.
    destruct (IH (mkRS s1 (tick n (rs_ctr st)))) as [rest Hr]. cbn [rs_script] in Hr.
    destruct oe as [x|]; cbn [option_map].
    + destruct (transient (RStream x)); cbn [fst snd].
      * exists rest. rewrite Hd, Hr, app_assoc. reflexivity.
      * exists (sdata s1). exact Hd.
    + cbn [fst snd]. exists rest. rewrite Hd, Hr, app_assoc. reflexivity.
Qed.

Section Poll.
  Variables (pad frame early : list byte) (msg : bytes) (s postc : script).
  Hypothesis Hmsg : N.of_nat (length msg) <= MaxMessageLength.
  Hypothesis Hpad : drawable tcpResponsePaddingMin tcpResponsePaddingMax pad.
  Hypothesis Hframe : write_tcp_response true msg pad = Ok frame.
  (* the response frame and `early` arrive without an error inside them, in any chunking; behind them the stream goes on
     as postc: more data, further expired deadlines, its end *)
  Hypothesis Hs : delivers s (frame ++ early) postc.

  (* fast open; k Reads time out before the response has begun to arrive, then the stream s: the bytes the polling
     application gets are a prefix of the bytes behind the response frame - for every k, every buffer sizes *)
  Lemma client_polls_prefix k ns : (k <= length ns)%nat ->
    exists rest, early ++ sdata postc = fst (app_polls (mkCC false (mkRS (deadlines k ++ s) ctr0)) ns) ++ rest.
  Proof.
    intros Hk. destruct (app_polls_deadlines k s ctr0 ns Hk) as [c' E]. rewrite E.
    destruct (response_roundtrip true msg pad frame early postc (mkRS s c') Hmsg Hpad Hframe Hs) as (st' & R & D).
    apply delivers_facts in D as [D _].
    destruct (skipn k ns) as [|n t]; [exists (early ++ sdata postc); reflexivity|].
    assert (Eq : app_polls (mkCC false (mkRS s c')) (n :: t) = app_polls (mkCC true st') (n :: t)).
    { cbn [app_polls conn_read c_est c_strm]. rewrite R. reflexivity. }
    rewrite Eq. destruct (app_polls_established (n :: t) st') as [rest Hr]. exists rest. rewrite <- D. exact Hr.
  Qed.
End Poll.

(* ---- the Once-guarded variant: one expired deadline before the response, then the whole stream: the application
   gets the response frame in front of the target's bytes *)
Definition px_pad : list byte := repeat x70 128.
Definition px_frame : bytes := real_write_resp px_pad true Connected.
Definition px_data : bytes := [x68; x69].
Definition px_script : script := deadlines 1 ++ [Chunk px_frame; Ev px_data (Some EEof)].

Lemma once_guard_injects_response :
  drawable tcpResponsePaddingMin tcpResponsePaddingMax px_pad /\
  write_tcp_response true Connected px_pad = Ok px_frame /\
  delivers [Chunk px_frame; Ev px_data (Some EEof)] (px_frame ++ []) [Ev px_data (Some EEof)] /\
  app_polls (mkCC false (mkRS px_script ctr0)) [4096; 4096; 4096]%nat = (px_data, Some (RStream EEof)) /\
  app_polls_once (mkOC false false (mkRS px_script ctr0)) [4096; 4096; 4096]%nat = (px_frame ++ px_data, Some (RStream EEof)) /\
  px_frame <> [].
Proof.
  split; [apply drawableb_spec; vm_compute; reflexivity|].
  split; [vm_compute; reflexivity|].
  split; [exists [Chunk px_frame]; split; [reflexivity|]; split; vm_compute; reflexivity|].
  split; [vm_compute; reflexivity|]. split; [vm_compute; reflexivity|]. vm_compute. discriminate.
Qed.
