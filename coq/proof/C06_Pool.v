(* C06 - proofs about the world of relays sharing copyBufPool (model/C06_Pool.v) *)
From Hy Require Import lib.Bytes model.C06_Relay model.C06_Pool proof.C06_Relay gen.ParamsC06.
From Coq Require Import List NArith ZArith Bool Lia ZifyBool ZifyNat ZifyN PeanoNat.
Import ListNotations.
Local Open Scope N_scope.

(* ------------------------------------------------------------------ lists *)
Lemma upd_length {A} i (x : A) l : length (upd i x l) = length l.
Proof. revert i; induction l as [|h t IH]; intros [|i]; cbn; auto. Qed.

Lemma nth_upd {A} i j (x : A) l s sj :
  nth_error l i = Some s -> nth_error (upd i x l) j = Some sj ->
  (j = i /\ sj = x) \/ (j <> i /\ nth_error l j = Some sj).
Proof.
  revert i j; induction l as [|h t IH]; intros [|i] [|j]; cbn; try discriminate.
  - intros _ [= <-]. auto.
  - intros _ H. right. split; auto.
  - intros _ [= <-]. right. split; auto.
  - intros H1 H2. destruct (IH _ _ H1 H2) as [[-> ->]|[Hn H]]; [left|right]; auto.
Qed.

Lemma nth_upd_same {A} i (x : A) l s : nth_error l i = Some s -> nth_error (upd i x l) i = Some x.
Proof. revert i; induction l as [|h t IH]; intros [|i]; cbn; try discriminate; auto. Qed.

Lemma nth_upd_other {A} i j (x : A) l : j <> i -> nth_error (upd i x l) j = nth_error l j.
Proof.
  revert i j; induction l as [|h t IH]; intros [|i] [|j] H; cbn; auto; try congruence.
Qed.

Lemma nth_snoc {A} (l : list A) x j sj : nth_error (l ++ [x]) j = Some sj ->
  ((j < length l)%nat /\ nth_error l j = Some sj) \/ (j = length l /\ sj = x).
Proof.
  intros H. destruct (Nat.lt_ge_cases j (length l)) as [Hl|Hl].
  - rewrite nth_error_app1 in H; auto.
  - rewrite nth_error_app2 in H; auto. destruct (j - length l)%nat as [|k] eqn:E.
    + cbn in H. inversion H. right. split; auto. lia.
    + cbn in H. destruct k; discriminate.
Qed.

Lemma in_remove_N b x l : In x (remove N.eq_dec b l) -> In x l /\ x <> b.
Proof.
  induction l as [|h t IH]; cbn; [tauto|]. destruct (N.eq_dec b h) as [->|Hn].
  - intros H. destruct (IH H). auto.
  - intros [<-|H]; [split; auto|]. destruct (IH H). auto.
Qed.

Lemma nodup_remove_N b l : NoDup l -> NoDup (remove N.eq_dec b l).
Proof.
  induction 1 as [|h t Hn Hd IH]; cbn; [constructor|]. destruct (N.eq_dec b h); auto.
  constructor; auto. intros H. apply in_remove_N in H. tauto.
Qed.

Lemma existsb_eqb_in b l : existsb (N.eqb b) l = true -> In b l.
Proof. intros H. apply existsb_exists in H as (x & Hx & He). apply N.eqb_eq in He. subst; auto. Qed.

Lemma firstn_stored old c : firstn (length c) (stored old c) = c.
Proof.
  unfold stored. rewrite firstn_app, Nat.sub_diag, firstn_all. cbn. apply app_nil_r.
Qed.

(* ------------------------------------------------------------------ executions and projections *)
Lemma wexec_app e w l1 l2 :
  wexec e w (l1 ++ l2) = match wexec e w l1 with Some q => wexec e q l2 | None => None end.
Proof. revert w; induction l1 as [|a l1 IH]; intros w; cbn; auto. destruct (wstep e w a); auto. Qed.

Lemma wexec_snoc e w l a q :
  wexec e w (l ++ [a]) = Some q -> exists w', wexec e w l = Some w' /\ wstep e w' a = Some q.
Proof.
  rewrite wexec_app. destruct (wexec e w l) as [w'|]; [|discriminate]. cbn.
  destruct (wstep e w' a) as [q'|] eqn:E; [|discriminate]. intros [= <-]. eauto.
Qed.

Lemma wproj_snoc i tr a :
  wproj i (tr ++ [a]) = wproj i tr ++ match a with WLoop j x => if Nat.eqb i j then [x] else [] | _ => [] end.
Proof. unfold wproj. rewrite flat_map_app. cbn. rewrite app_nil_r. auto. Qed.

Lemma wproj_snoc_other i tr j x : i <> j -> wproj i (tr ++ [WLoop j x]) = wproj i tr.
Proof. intros H. rewrite wproj_snoc. apply Nat.eqb_neq in H. rewrite H. apply app_nil_r. Qed.

Lemma wproj_snoc_same i tr x : wproj i (tr ++ [WLoop i x]) = wproj i tr ++ [x].
Proof. rewrite wproj_snoc, Nat.eqb_refl. auto. Qed.

(* ------------------------------------------------------------------ one-loop steps *)
Lemma lstep_read_chunk m d p bl c er q c' er' :
  lstep m d p (LRead bl c er) = Some q -> (q = PLog c' er' \/ q = PWrite c' er') -> c' = c.
Proof.
  destruct p; cbn; try discriminate.
  destruct (bl =? CopyBufSize); [|discriminate]. destruct (bl <? blen c).
  - intros [= <-] [H|H]; discriminate.
  - destruct c as [|x c].
    + intros [= <-] [H|H]; destruct er; discriminate.
    + destruct m; intros [= <-] [H|H]; inversion H; auto.
Qed.

Lemma lstep_log_chunk m d p tx rx v q c' er' :
  lstep m d p (LLog tx rx v) = Some q -> (q = PLog c' er' \/ q = PWrite c' er') -> p = PLog c' er'.
Proof.
  destruct p; cbn; try discriminate.
  destruct (log_args d (blen c)) as [etx erx]. destruct ((tx =? etx) && (rx =? erx)); [|discriminate].
  destruct v; intros [= <-] [H|H]; inversion H; auto.
Qed.

Lemma after_rw_not_chunk er c' er' : after_rw er = PLog c' er' \/ after_rw er = PWrite c' er' -> False.
Proof. destruct er; cbn; intros [H|H]; discriminate. Qed.

Lemma lstep_write_not_chunk m d c er nw ew q c' er' :
  lstep m d (PWrite c er) (LWrite c nw ew) = Some q -> (q = PLog c' er' \/ q = PWrite c' er') -> False.
Proof.
  cbn. rewrite beqb_refl. destruct m.
  - destruct ew; intros [= <-] H; try (destruct H; discriminate). eapply after_rw_not_chunk; eauto.
  - destruct ew.
    + destruct ((nw <? 0) || (Z.of_N (blen c) <? nw))%Z.
      * intros [= <-] [H|H]; discriminate.
      * destruct (Z.of_N (blen c) =? nw)%Z; intros [= <-] H; try (destruct H; discriminate).
        eapply after_rw_not_chunk; eauto.
    + intros [= <-] [H|H]; discriminate.
    + intros [= <-] [H|H]; discriminate.
Qed.

Lemma lstep_return m d p e q : lstep m d p (LReturn e) = Some q -> exists e0, p = PRet e0 /\ q = PDone e0.
Proof.
  destruct p; cbn; try discriminate. destruct (gerr_eqb e e0); [|discriminate]. intros [= <-]. eauto.
Qed.

(* ------------------------------------------------------------------ the invariant of the world *)
Record WInv (w : world) (tr : list wact) : Prop := mkWInv {
  wi_excl : forall i j si sj b, i <> j -> nth_error (slots w) i = Some si -> nth_error (slots w) j = Some sj ->
            live si = Some b -> live sj = Some b -> False;
  wi_free : forall i si b, nth_error (slots w) i = Some si -> live si = Some b -> ~ In b (wfree w);
  wi_nodup : NoDup (wfree w);
  wi_bound1 : forall i si b, nth_error (slots w) i = Some si -> sbuf si = Some b -> b < wfresh w;
  wi_bound2 : forall b, In b (wfree w) -> b < wfresh w;
  wi_out : forall i, (length (slots w) <= i)%nat -> wproj i tr = [];
  wi_run : forall i s, nth_error (slots w) i = Some s -> lexec (sm s) (sd s) PRead (wproj i tr) = Some (spc s);
  wi_put : forall i s, nth_error (slots w) i = Some s -> sput s = true -> running (spc s) = false /\ sbuf s <> None;
  wi_nobuf : forall i s, nth_error (slots w) i = Some s -> sbuf s = None -> spc s = PRead;
  wi_mem : forall i s c er, nth_error (slots w) i = Some s -> spc s = PLog c er \/ spc s = PWrite c er ->
           exists b, sbuf s = Some b /\ firstn (length c) (wmem w b) = c
}.

Lemma winv_init : WInv w0 [].
Proof.
  constructor; cbn; intros; try (destruct i; discriminate); try tauto; try constructor.
Qed.

(* a slot holding a chunk is live *)
Lemma chunk_live w tr i s c er : WInv w tr -> nth_error (slots w) i = Some s ->
  spc s = PLog c er \/ spc s = PWrite c er -> exists b, live s = Some b /\ sbuf s = Some b /\ firstn (length c) (wmem w b) = c.
Proof.
  intros I Hn Hc. destruct (wi_mem _ _ I _ _ _ _ Hn Hc) as (b & Hb & Hm). exists b. repeat split; auto.
  unfold live. destruct (sput s) eqn:Ep; auto.
  destruct (wi_put _ _ I _ _ Hn Ep) as [Hr _]. destruct Hc as [Hc|Hc]; rewrite Hc in Hr; discriminate.
Qed.

(* slot i replaced by a slot with the same buffer and the same Put flag, pool untouched: ownership carries over *)
Lemma winv_keep w tr i s s' M tr' :
  WInv w tr -> nth_error (slots w) i = Some s ->
  sm s' = sm s -> sd s' = sd s -> sbuf s' = sbuf s -> sput s' = sput s ->
  (forall j, j <> i -> wproj j tr' = wproj j tr) ->
  lexec (sm s) (sd s) PRead (wproj i tr') = Some (spc s') ->
  (sput s = true -> running (spc s') = false) ->
  (sbuf s = None -> spc s' = PRead) ->
  (forall c er, spc s' = PLog c er \/ spc s' = PWrite c er -> exists b, sbuf s = Some b /\ firstn (length c) (M b) = c) ->
  (forall j sj c er, j <> i -> nth_error (slots w) j = Some sj -> spc sj = PLog c er \/ spc sj = PWrite c er ->
     exists b, sbuf sj = Some b /\ firstn (length c) (M b) = c) ->
  (forall j, (length (slots w) <= j)%nat -> wproj j tr' = []) ->
  WInv (mkW (upd i s' (slots w)) (wfree w) (wfresh w) M) tr'.
Proof.
  intros I Hn Em Ed Eb Ep Hoth Hrun Hput Hnb Hmi Hmo Hout.
  assert (El : live s' = live s) by (unfold live; rewrite Eb, Ep; auto).
  constructor; cbn.
  - intros a b0 sa sb x Hab Ha Hb La Lb.
    destruct (nth_upd _ _ _ _ _ _ Hn Ha) as [[-> ->]|[Hna Ha']];
    destruct (nth_upd _ _ _ _ _ _ Hn Hb) as [[-> ->]|[Hnb' Hb']]; try congruence.
    + rewrite El in La. eapply (wi_excl _ _ I i b0); eauto.
    + rewrite El in Lb. eapply (wi_excl _ _ I a i); eauto.
    + eapply (wi_excl _ _ I a b0); eauto.
  - intros a sa x Ha La. destruct (nth_upd _ _ _ _ _ _ Hn Ha) as [[-> ->]|[Hna Ha']].
    + rewrite El in La. eapply wi_free; eauto.
    + eapply wi_free; eauto.
  - apply (wi_nodup _ _ I).
  - intros a sa x Ha Sa. destruct (nth_upd _ _ _ _ _ _ Hn Ha) as [[-> ->]|[Hna Ha']].
    + rewrite Eb in Sa. eapply wi_bound1; eauto.
    + eapply wi_bound1; eauto.
  - apply (wi_bound2 _ _ I).
  - intros a Ha. rewrite upd_length in Ha. auto.
  - intros a sa Ha. destruct (nth_upd _ _ _ _ _ _ Hn Ha) as [[-> ->]|[Hna Ha']].
    + rewrite Em, Ed. auto.
    + rewrite Hoth; auto. eapply wi_run; eauto.
  - intros a sa Ha Pa. destruct (nth_upd _ _ _ _ _ _ Hn Ha) as [[-> ->]|[Hna Ha']].
    + rewrite Ep in Pa. destruct (wi_put _ _ I _ _ Hn Pa) as [_ H2]. split; auto. rewrite Eb; auto.
    + eapply wi_put; eauto.
  - intros a sa Ha Na. destruct (nth_upd _ _ _ _ _ _ Hn Ha) as [[-> ->]|[Hna Ha']].
    + rewrite Eb in Na. auto.
    + eapply wi_nobuf; eauto.
  - intros a sa c er Ha Ca. destruct (nth_upd _ _ _ _ _ _ Hn Ha) as [[-> ->]|[Hna Ha']].
    + rewrite Eb. eapply Hmi; eauto.
    + eapply Hmo; eauto.
Qed.

Ltac inv H := inversion H; subst; clear H.

Lemma nth_some_lt {A} (l : list A) i s : nth_error l i = Some s -> (i < length l)%nat.
Proof. intros H. apply nth_error_Some. congruence. Qed.

(* memory untouched: chunks of the other slots are where they were *)
Lemma mem_others_same w tr i : WInv w tr ->
  forall j sj c er, j <> i -> nth_error (slots w) j = Some sj -> spc sj = PLog c er \/ spc sj = PWrite c er ->
  exists b, sbuf sj = Some b /\ firstn (length c) (wmem w b) = c.
Proof. intros I j sj c er _ Hn Hc. eapply wi_mem; eauto. Qed.

Lemma winv_step w tr a w' : WInv w tr -> wstep false w a = Some w' -> WInv w' (tr ++ [a]).
Proof.
  intros I H. destruct a as [m d|i b|i x|i]; unfold wstep in H.
  - (* a new loop *)
    inv H. constructor; cbn.
    + intros a b sa sb x Hab Ha Hb La Lb.
      destruct (nth_snoc _ _ _ _ Ha) as [[_ Ha']|[_ ->]]; [|discriminate].
      destruct (nth_snoc _ _ _ _ Hb) as [[_ Hb']|[_ ->]]; [|discriminate].
      eapply (wi_excl _ _ I a b); eauto.
    + intros a sa x Ha La. destruct (nth_snoc _ _ _ _ Ha) as [[_ Ha']|[_ ->]]; [|discriminate].
      eapply wi_free; eauto.
    + apply (wi_nodup _ _ I).
    + intros a sa x Ha Sa. destruct (nth_snoc _ _ _ _ Ha) as [[_ Ha']|[_ ->]]; [|discriminate].
      eapply wi_bound1; eauto.
    + apply (wi_bound2 _ _ I).
    + intros a Ha. rewrite app_length in Ha. cbn in Ha. rewrite wproj_snoc, app_nil_r. apply (wi_out _ _ I). lia.
    + intros a sa Ha. rewrite wproj_snoc, app_nil_r. destruct (nth_snoc _ _ _ _ Ha) as [[_ Ha']|[-> ->]].
      * eapply wi_run; eauto.
      * cbn. rewrite (wi_out _ _ I); auto.
    + intros a sa Ha Pa. destruct (nth_snoc _ _ _ _ Ha) as [[_ Ha']|[_ ->]]; [|discriminate].
      eapply wi_put; eauto.
    + intros a sa Ha Na. destruct (nth_snoc _ _ _ _ Ha) as [[_ Ha']|[_ ->]]; auto.
      eapply wi_nobuf; eauto.
    + intros a sa c er Ha Ca. destruct (nth_snoc _ _ _ _ Ha) as [[_ Ha']|[_ ->]].
      * eapply wi_mem; eauto.
      * destruct Ca; discriminate.
  - (* copyBufPool.Get *)
    destruct (nth_error (slots w) i) as [s|] eqn:Hn; [|discriminate].
    destruct (sbuf s) as [b0|] eqn:Hb; [discriminate|].
    assert (Hpc : spc s = PRead) by (eapply wi_nobuf; eauto).
    assert (Hp : sput s = false).
    { destruct (sput s) eqn:Ep; auto. destruct (wi_put _ _ I _ _ Hn Ep) as [_ Hx]. congruence. }
    assert (Hli : live s = None) by (unfold live; rewrite Hp; auto).
    set (s' := mkSlot (sm s) (sd s) (spc s) (Some b) (sput s)) in *.
    assert (Hl' : live s' = Some b) by (unfold live, s'; cbn; rewrite Hp; auto).
    assert (Hcommon : forall F R,
       (forall j sj, j <> i -> nth_error (slots w) j = Some sj -> live sj = Some b -> False) ->
       ~ In b F -> NoDup F -> (forall x, In x F -> In x (wfree w)) -> b < R -> wfresh w <= R ->
       WInv (mkW (upd i s' (slots w)) F R (wmem w)) (tr ++ [WGet i b])).
    { intros F R Hno HbF HF Hsub HbR HR. constructor; cbn.
      - intros a c sa sc x Hac Ha Hc La Lc.
        destruct (nth_upd _ _ _ _ _ _ Hn Ha) as [[-> ->]|[Hna Ha']];
        destruct (nth_upd _ _ _ _ _ _ Hn Hc) as [[-> ->]|[Hnc Hc']]; try congruence.
        + rewrite Hl' in La. inv La. eapply Hno; eauto.
        + rewrite Hl' in Lc. inv Lc. eapply Hno; eauto.
        + eapply (wi_excl _ _ I a c); eauto.
      - intros a sa x Ha La. destruct (nth_upd _ _ _ _ _ _ Hn Ha) as [[-> ->]|[Hna Ha']].
        + rewrite Hl' in La. inv La. auto.
        + intros Hin. eapply wi_free; eauto.
      - auto.
      - intros a sa x Ha Sa. destruct (nth_upd _ _ _ _ _ _ Hn Ha) as [[-> ->]|[Hna Ha']].
        + cbn in Sa. inv Sa. auto.
        + pose proof (wi_bound1 _ _ I _ _ _ Ha' Sa). lia.
      - intros x Hx. pose proof (wi_bound2 _ _ I _ (Hsub _ Hx)). lia.
      - intros a Ha. rewrite upd_length in Ha. rewrite wproj_snoc, app_nil_r. apply (wi_out _ _ I); auto.
      - intros a sa Ha. rewrite wproj_snoc, app_nil_r. destruct (nth_upd _ _ _ _ _ _ Hn Ha) as [[-> ->]|[Hna Ha']].
        + cbn. eapply wi_run; eauto.
        + eapply wi_run; eauto.
      - intros a sa Ha Pa. destruct (nth_upd _ _ _ _ _ _ Hn Ha) as [[-> ->]|[Hna Ha']].
        + cbn in Pa. congruence.
        + eapply wi_put; eauto.
      - intros a sa Ha Na. destruct (nth_upd _ _ _ _ _ _ Hn Ha) as [[-> ->]|[Hna Ha']].
        + discriminate.
        + eapply wi_nobuf; eauto.
      - intros a sa c er Ha Ca. destruct (nth_upd _ _ _ _ _ _ Hn Ha) as [[-> ->]|[Hna Ha']].
        + cbn in Ca. rewrite Hpc in Ca. destruct Ca; discriminate.
        + eapply wi_mem; eauto. }
    destruct (b =? wfresh w) eqn:Ef.
    + (* a new buffer *)
      apply N.eqb_eq in Ef. inv H. apply Hcommon; try lia; auto.
      * intros j sj Hj Hnj Lj. assert (Sj : sbuf sj = Some (wfresh w)) by (unfold live in Lj; destruct (sput sj); congruence).
        pose proof (wi_bound1 _ _ I _ _ _ Hnj Sj). lia.
      * intros Hin. pose proof (wi_bound2 _ _ I _ Hin). lia.
      * apply (wi_nodup _ _ I).
    + (* a buffer of the pool *)
      destruct (sm s) eqn:Em; [|discriminate].
      destruct (existsb (N.eqb b) (wfree w)) eqn:Ex; [|discriminate]. inv H.
      apply existsb_eqb_in in Ex.
      apply Hcommon; auto.
      * intros j sj Hj Hnj Lj. eapply wi_free; eauto.
      * intros Hin. apply in_remove_N in Hin. tauto.
      * apply nodup_remove_N, (wi_nodup _ _ I).
      * intros x Hx. apply in_remove_N in Hx. tauto.
      * apply (wi_bound2 _ _ I _ Ex).
      * lia.
  - (* an action of loop i *)
    destruct (nth_error (slots w) i) as [s|] eqn:Hn; [|discriminate].
    destruct (sbuf s) as [b|] eqn:Hb; [|discriminate].
    assert (Hlt := nth_some_lt _ _ _ Hn).
    assert (Hout : forall j, (length (slots w) <= j)%nat -> wproj j (tr ++ [WLoop i x]) = []).
    { intros j Hj. rewrite wproj_snoc_other by lia. apply (wi_out _ _ I); auto. }
    assert (Hoth : forall j, j <> i -> wproj j (tr ++ [WLoop i x]) = wproj j tr).
    { intros j Hj. apply wproj_snoc_other; auto. }
    assert (Hrun : forall p, lstep (sm s) (sd s) (spc s) x = Some p ->
                   lexec (sm s) (sd s) PRead (wproj i (tr ++ [WLoop i x])) = Some p).
    { intros p Hs. rewrite wproj_snoc_same, lexec_app, (wi_run _ _ I _ _ Hn). cbn. rewrite Hs. auto. }
    destruct x as [bl c er|tx rx v|c nw ew|e].
    + (* Read: stores into the loop's own buffer *)
      destruct (sput s) eqn:Ep; cbn [andb negb] in H; [discriminate|].
      destruct (lstep (sm s) (sd s) (spc s) (LRead bl c er)) as [p|] eqn:Hs; [|discriminate]. inv H.
      apply winv_keep with (s := s) (tr := tr); auto.
      * congruence.
      * rewrite Hb; discriminate.
      * intros c' er' Hc. cbn in Hc. assert (c' = c) by (eapply lstep_read_chunk; eauto). subst c'.
        exists b. split; auto. unfold mupd. rewrite N.eqb_refl. apply firstn_stored.
      * intros j sj c' er' Hj Hnj Hc. destruct (chunk_live _ _ _ _ _ _ I Hnj Hc) as (b' & Lb' & Sb' & Hm).
        exists b'. split; auto. unfold mupd. destruct (b' =? b) eqn:E; auto.
        apply N.eqb_eq in E. subst b'. exfalso. eapply (wi_excl _ _ I j i); eauto.
        unfold live. rewrite Ep. auto.
    + (* LogTraffic *)
      destruct (sput s) eqn:Ep; cbn [andb negb] in H; [discriminate|].
      destruct (lstep (sm s) (sd s) (spc s) (LLog tx rx v)) as [p|] eqn:Hs; [|discriminate]. inv H.
      unfold set_slot. apply winv_keep with (s := s) (tr := tr); auto.
      * congruence.
      * rewrite Hb; discriminate.
      * intros c' er' Hc. cbn in Hc. pose proof (lstep_log_chunk _ _ _ _ _ _ _ _ _ Hs Hc) as Hp.
        eapply wi_mem; eauto.
      * apply mem_others_same with (tr := tr); auto.
    + (* Write: hands out what the buffer holds, which is the chunk this loop read *)
      destruct (sput s) eqn:Ep; cbn [andb negb] in H; [discriminate|].
      destruct (spc s) as [| |c1 e1|c0 er0| | |] eqn:Hpc; try discriminate.
      destruct (beqb c (firstn (length c0) (wmem w b))) eqn:Eq; [|discriminate].
      apply beqb_eq in Eq.
      destruct (wi_mem _ _ I _ _ _ _ Hn (or_intror Hpc)) as (b' & Hb' & Hm).
      assert (b' = b) by congruence. subst b'. rewrite Hm in Eq. subst c0.
      destruct (lstep (sm s) (sd s) (PWrite c er0) (LWrite c nw ew)) as [p|] eqn:Hs; [|discriminate]. inv H.
      unfold set_slot. apply winv_keep with (s := s) (tr := tr); auto.
      * congruence.
      * rewrite Hb; discriminate.
      * intros c' er' Hc. cbn in Hc. exfalso. eapply lstep_write_not_chunk; eauto.
      * apply mem_others_same with (tr := tr); auto.
    + (* errChan <- e, after the deferred Put *)
      destruct (sput s) eqn:Ep; [|discriminate].
      destruct (lstep (sm s) (sd s) (spc s) (LReturn e)) as [p|] eqn:Hs; [|discriminate]. inv H.
      destruct (lstep_return _ _ _ _ _ Hs) as (e0 & Hp0 & ->).
      unfold set_slot. apply winv_keep with (s := s) (tr := tr); auto.
      * rewrite Hb; discriminate.
      * intros c' er' Hc. cbn in Hc. destruct Hc; discriminate.
      * apply mem_others_same with (tr := tr); auto.
  - (* the deferred copyBufPool.Put *)
    destruct (nth_error (slots w) i) as [s|] eqn:Hn; [|discriminate].
    destruct (sbuf s) as [b|] eqn:Hb; [|discriminate].
    destruct (sput s) eqn:Ep; cbn [andb negb] in H; [discriminate|].
    destruct (is_pret (spc s)) eqn:Er; [|discriminate]. inv H.
    assert (Hl : live s = Some b) by (unfold live; rewrite Ep; auto).
    assert (HbF : ~ In b (wfree w)) by (eapply wi_free; eauto).
    set (s' := mkSlot (sm s) (sd s) (spc s) (sbuf s) true).
    set (F := match sm s with Logged => b :: wfree w | Fast => wfree w end).
    assert (HF : forall x, In x F -> x = b \/ In x (wfree w)).
    { unfold F. destruct (sm s); cbn; intros x Hx; auto. destruct Hx; auto. }
    constructor; cbn; fold s'; fold F.
    + intros a c sa sc x Hac Ha Hc La Lc.
      destruct (nth_upd _ _ _ _ _ _ Hn Ha) as [[-> ->]|[Hna Ha']]; [discriminate|].
      destruct (nth_upd _ _ _ _ _ _ Hn Hc) as [[-> ->]|[Hnc Hc']]; [discriminate|].
      eapply (wi_excl _ _ I a c); eauto.
    + intros a sa x Ha La. destruct (nth_upd _ _ _ _ _ _ Hn Ha) as [[-> ->]|[Hna Ha']]; [discriminate|].
      intros Hin. destruct (HF _ Hin) as [->|Hin'].
      * eapply (wi_excl _ _ I a i); eauto.
      * eapply wi_free; eauto.
    + unfold F. destruct (sm s); [constructor; auto|]; apply (wi_nodup _ _ I).
    + intros a sa x Ha Sa. destruct (nth_upd _ _ _ _ _ _ Hn Ha) as [[-> ->]|[Hna Ha']].
      * cbn in Sa. eapply wi_bound1; eauto. congruence.
      * eapply wi_bound1; eauto.
    + intros x Hx. destruct (HF _ Hx) as [->|Hx'].
      * eapply wi_bound1; eauto.
      * apply (wi_bound2 _ _ I); auto.
    + intros a Ha. rewrite upd_length in Ha. rewrite wproj_snoc, app_nil_r. apply (wi_out _ _ I); auto.
    + intros a sa Ha. rewrite wproj_snoc, app_nil_r. destruct (nth_upd _ _ _ _ _ _ Hn Ha) as [[-> ->]|[Hna Ha']].
      * cbn. eapply wi_run; eauto.
      * eapply wi_run; eauto.
    + intros a sa Ha Pa. destruct (nth_upd _ _ _ _ _ _ Hn Ha) as [[-> ->]|[Hna Ha']].
      * cbn. split; [|congruence]. destruct (spc s); cbn in *; auto; discriminate.
      * eapply wi_put; eauto.
    + intros a sa Ha Na. destruct (nth_upd _ _ _ _ _ _ Hn Ha) as [[-> ->]|[Hna Ha']].
      * cbn in Na. congruence.
      * eapply wi_nobuf; eauto.
    + intros a sa c er Ha Ca. destruct (nth_upd _ _ _ _ _ _ Hn Ha) as [[-> ->]|[Hna Ha']].
      * cbn in Ca. destruct (spc s); cbn in Er; try discriminate. destruct Ca; discriminate.
      * eapply wi_mem; eauto.
Qed.

Lemma winv tr w : wexec false w0 tr = Some w -> WInv w tr.
Proof.
  revert w. induction tr as [|a tr IH] using rev_ind; intros w He.
  - cbn in He. inv He. apply winv_init.
  - apply wexec_snoc in He as (w' & He & Hs). eapply winv_step; eauto.
Qed.

(* ------------------------------------------------------------------ theorems *)
(* a buffer is owned by at most one running loop, and never sits in the pool while a running loop holds it;
   the pool holds a buffer at most once *)
Lemma pool_exclusive tr w : wexec false w0 tr = Some w ->
  NoDup (wfree w) /\
  forall i si b, nth_error (slots w) i = Some si -> sbuf si = Some b -> running (spc si) = true ->
    ~ In b (wfree w) /\
    forall j sj, j <> i -> nth_error (slots w) j = Some sj -> sbuf sj = Some b -> running (spc sj) = false.
Proof.
  intros He. pose proof (winv _ _ He) as I. split; [apply (wi_nodup _ _ I)|].
  intros i si b Hi Hb Hr.
  assert (Li : live si = Some b).
  { unfold live. destruct (sput si) eqn:Ep; auto. destruct (wi_put _ _ I _ _ Hi Ep). congruence. }
  split; [eapply wi_free; eauto|].
  intros j sj Hj Hnj Hbj. destruct (running (spc sj)) eqn:Hrj; auto. exfalso.
  eapply (wi_excl _ _ I j i); eauto.
  unfold live. destruct (sput sj) eqn:Ep; auto. destruct (wi_put _ _ I _ _ Hnj Ep). congruence.
Qed.

(* what any one loop of the world did - its Writes taken from memory - is a run of the one-loop LTS *)
Lemma pool_loop_run tr w i s : wexec false w0 tr = Some w -> nth_error (slots w) i = Some s ->
  lexec (sm s) (sd s) PRead (wproj i tr) = Some (spc s).
Proof. intros He Hn. eapply wi_run; eauto. apply winv; auto. Qed.

(* so with any number of other relays alive, what a loop's sink received is a prefix of what ITS source produced,
   and all of it once the loop has returned nil *)
Lemma pool_isolation tr w i s : wexec false w0 tr = Some w -> nth_error (slots w) i = Some s ->
  wok (wproj i tr) ->
  (exists rest, lsrc (wproj i tr) = lsnk (wproj i tr) ++ rest) /\
  (spc s = PRet GNil \/ spc s = PDone GNil -> lsrc (wproj i tr) = lsnk (wproj i tr)).
Proof.
  intros He Hn Hw. pose proof (pool_loop_run _ _ _ _ He Hn) as Hl. split.
  - eapply loop_prefix; eauto.
  - intros Hp. destruct (loop_complete _ _ _ _ Hl Hw Hp) as [H _]. auto.
Qed.

(* ... and not if a buffer can go back to the pool while its loop is still running (copyTwoWayEx returning the
   buffers of both directions when the first direction finishes): loop 0 is parked in Read, its buffer is put back
   and handed to loop 1, which reads "AB" and has it approved; the late bytes "XX" of loop 0's source arrive; loop 1
   forwards "XX". *)
Definition early_put_run : list wact :=
  [WSpawn Logged Down; WGet 0 0; WPut 0;
   WSpawn Logged Up; WGet 1 0;
   WLoop 1 (LRead CopyBufSize [x41; x42] EN); WLoop 1 (LLog 2 0 true);
   WLoop 0 (LRead CopyBufSize [x58; x58] EN);
   WLoop 1 (LWrite [x58; x58] 2 EN)].

Lemma pool_early_put_injects :
  wexec false w0 early_put_run = None /\
  exists w, wexec true w0 early_put_run = Some w /\ wok (wproj 1 early_put_run) /\
    lsrc (wproj 1 early_put_run) = [x41; x42] /\ lsnk (wproj 1 early_put_run) = [x58; x58] /\
    ~ exists rest, lsrc (wproj 1 early_put_run) = lsnk (wproj 1 early_put_run) ++ rest.
Proof.
  split; [vm_compute; reflexivity|]. eexists. split; [vm_compute; reflexivity|].
  split; [|split; [vm_compute; reflexivity|split; [vm_compute; reflexivity|]]].
  - unfold wok; cbn; repeat (apply Forall_cons; [cbn|]); try apply Forall_nil; auto. split; [lia|intros; lia].
  - intros [rest H]. vm_compute in H. discriminate.
Qed.

(* non-vacuity of the safe world: two relays' worth of loops, the second reusing the buffer the first put back *)
Definition reuse_run : list wact :=
  [WSpawn Logged Down; WGet 0 0; WLoop 0 (LRead CopyBufSize [x58] EEOF); WLoop 0 (LLog 0 1 true);
   WSpawn Logged Up; WGet 1 1;
   WLoop 1 (LRead CopyBufSize [x41; x42] EN);
   WLoop 0 (LWrite [x58] 1 EN); WPut 0; WLoop 0 (LReturn GNil);
   WSpawn Logged Up; WGet 2 0;
   WLoop 2 (LRead CopyBufSize [x43] EN);
   WLoop 1 (LLog 2 0 true); WLoop 1 (LWrite [x41; x42] 2 EN);
   WLoop 2 (LLog 1 0 true); WLoop 2 (LWrite [x43] 1 EN)].

Lemma reuse_run_ok : exists w, wexec false w0 reuse_run = Some w /\
  lsnk (wproj 0 reuse_run) = [x58] /\ lsnk (wproj 1 reuse_run) = [x41; x42] /\ lsnk (wproj 2 reuse_run) = [x43] /\
  wfree w = [] /\ wfresh w = 2.
Proof. eexists. split; [vm_compute; reflexivity|]. repeat split; vm_compute; reflexivity. Qed.
