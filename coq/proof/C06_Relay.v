(* C06 - proofs about the relay LTS of model/C06_Relay.v *)
From Hy Require Import lib.Bytes model.C06_Relay gen.ParamsC06.
From Coq Require Import List NArith ZArith Bool Lia ZifyBool ZifyNat ZifyN.
Import ListNotations.
Local Open Scope N_scope.

Lemma relay_init_reachable m :
  exec (init m) [AReadReq true; ADial None; AWriteResp true Connected] = Some (relay_init m).
Proof. destruct m; reflexivity. Qed.

(* ------------------------------------------------------------------ equality tests *)
Lemma beqb_eq a b : beqb a b = true -> a = b.
Proof.
  revert b; induction a as [|x a IH]; intros [|y b] H; cbn in H; try discriminate; auto.
  apply andb_true_iff in H as [H1 H2]. apply Byte.byte_dec_bl in H1. f_equal; auto.
Qed.
Lemma beqb_refl a : beqb a a = true.
Proof. induction a as [|x a IH]; cbn; auto. rewrite IH, (Byte.byte_dec_lb eq_refl); auto. Qed.
Lemma eerr_eqb_eq a b : eerr_eqb a b = true -> a = b.
Proof. destruct a, b; cbn; intros H; try discriminate; auto. apply N.eqb_eq in H; subst; auto. Qed.
Lemma gerr_eqb_eq a b : gerr_eqb a b = true -> a = b.
Proof. destruct a, b; cbn; intros H; try discriminate; auto. f_equal; apply eerr_eqb_eq; auto. Qed.
Lemma dir_eqb_refl d : dir_eqb d d = true.
Proof. destruct d; auto. Qed.

(* ------------------------------------------------------------------ trace functions on snoc *)
Lemma lsrc_snoc l a : lsrc (l ++ [a]) = lsrc l ++ match a with LRead _ c _ => c | _ => [] end.
Proof. unfold lsrc. rewrite flat_map_app. cbn. rewrite app_nil_r. auto. Qed.
Lemma lsnk_snoc l a : lsnk (l ++ [a]) = lsnk l ++ match a with LWrite c nw _ => wrote c nw | _ => [] end.
Proof. unfold lsnk. rewrite flat_map_app. cbn. rewrite app_nil_r. auto. Qed.
Lemma llogged_snoc l a :
  llogged (l ++ [a]) = llogged l + match a with LLog tx rx true => tx + rx | _ => 0 end.
Proof.
  induction l as [|b l IH]; cbn [app llogged].
  - destruct a as [| ? ? [] | |]; lia.
  - destruct b as [| ? ? [] | |]; rewrite IH; lia.
Qed.
Lemma inflight_from_snoc x l a :
  inflight_from x (l ++ [a]) =
  match a with
  | LLog tx rx true => tx + rx
  | LWrite c nw _ => blen c - blen (wrote c nw)
  | _ => inflight_from x l
  end.
Proof.
  revert x; induction l as [|b l IH]; intros x; cbn [app inflight_from].
  - destruct a as [| ? ? [] | |]; auto.
  - destruct b as [| ? ? [] | |]; rewrite IH; auto.
Qed.
Lemma inflight_snoc l a :
  inflight (l ++ [a]) =
  match a with
  | LLog tx rx true => tx + rx
  | LWrite c nw _ => blen c - blen (wrote c nw)
  | _ => inflight l
  end.
Proof. apply inflight_from_snoc. Qed.

Lemma blen_app a b : blen (a ++ b) = blen a + blen b.
Proof. unfold blen. rewrite app_length. lia. Qed.
Lemma wrote_split c nw : c = wrote c nw ++ skipn (Z.to_nat nw) c.
Proof. unfold wrote. symmetry. apply firstn_skipn. Qed.
Lemma wrote_le c nw : blen (wrote c nw) <= blen c.
Proof. unfold wrote, blen. rewrite firstn_length. lia. Qed.
Lemma wrote_full c nw : (Z.of_N (blen c) <= nw)%Z -> wrote c nw = c.
Proof. unfold wrote, blen. intros H. apply firstn_all2. lia. Qed.

(* ------------------------------------------------------------------ executions *)
Lemma lexec_app m d p l1 l2 :
  lexec m d p (l1 ++ l2) = match lexec m d p l1 with Some q => lexec m d q l2 | None => None end.
Proof. revert p; induction l1 as [|a l1 IH]; intros p; cbn; auto. destruct (lstep m d p a); auto. Qed.
Lemma lexec_snoc m d p l a q :
  lexec m d p (l ++ [a]) = Some q -> exists p', lexec m d p l = Some p' /\ lstep m d p' a = Some q.
Proof.
  rewrite lexec_app. destruct (lexec m d p l) as [p'|]; [|discriminate]. cbn.
  destruct (lstep m d p' a) as [q'|] eqn:E; [|discriminate]. intros [= <-]. eauto.
Qed.
Lemma exec_app s l1 l2 :
  exec s (l1 ++ l2) = match exec s l1 with Some q => exec q l2 | None => None end.
Proof. revert s; induction l1 as [|a l1 IH]; intros s; cbn; auto. destruct (step s a); auto. Qed.
Lemma exec_snoc s l a q :
  exec s (l ++ [a]) = Some q -> exists s', exec s l = Some s' /\ step s' a = Some q.
Proof.
  rewrite exec_app. destruct (exec s l) as [s'|]; [|discriminate]. cbn.
  destruct (step s' a) as [q'|] eqn:E; [|discriminate]. intros [= <-]. eauto.
Qed.

Lemma wok_snoc l a : wok (l ++ [a]) -> wok l /\ wok_act a.
Proof. unfold wok. rewrite Forall_app. intros [H1 H2]. inversion H2; auto. Qed.

(* ------------------------------------------------------------------ the loop invariant *)
Definition lsuffix (m : mode) (d : dir) (l : list lact) (c : bytes) (er : eerr) : Prop :=
  match m with
  | Logged => exists pre bl, l = pre ++ [LRead bl c er; LLog (fst (log_args d (blen c))) (snd (log_args d (blen c))) true]
  | Fast => exists pre bl, l = pre ++ [LRead bl c er]
  end.

Definition LInv (m : mode) (d : dir) (l : list lact) (p : pc) : Prop :=
  exists rest, lsrc l = lsnk l ++ rest /\
  (m = Logged -> llogged l = blen (lsnk l) + inflight l) /\
  (m = Fast -> llogged l = 0) /\
  inflight l <= CopyBufSize /\
  match p with
  | PIdle => False
  | PRead => rest = [] /\ inflight l = 0
  | PLog c er => m = Logged /\ rest = c /\ c <> [] /\ blen c <= CopyBufSize /\ inflight l = 0 /\
                 exists pre bl, l = pre ++ [LRead bl c er]
  | PWrite c er => rest = c /\ c <> [] /\ blen c <= CopyBufSize /\ (m = Logged -> inflight l = blen c) /\
                   lsuffix m d l c er
  | PRet e | PDone e =>
      (e = GNil -> rest = [] /\ inflight l = 0 /\ exists bl c, In (LRead bl c EEOF) l) /\
      (e = GDisconnect -> m = Logged /\ exists tx rx, In (LLog tx rx false) l)
  | PPanic => True
  end.

Lemma log_args_sum d n : fst (log_args d n) + snd (log_args d n) = n.
Proof. destruct d; cbn; lia. Qed.

Ltac inv H := inversion H; subst; clear H.

Lemma after_rw_inv m d l er :
  (exists rest, lsrc l = lsnk l ++ rest /\
     (m = Logged -> llogged l = blen (lsnk l) + inflight l) /\ (m = Fast -> llogged l = 0) /\
     inflight l <= CopyBufSize /\ rest = [] /\ inflight l = 0) ->
  (er = EEOF -> exists bl c, In (LRead bl c EEOF) l) ->
  LInv m d l (after_rw er).
Proof.
  intros (rest & HR & HL & HF & HI & -> & H0) Heof.
  exists []. repeat split; auto.
  destruct er; cbn; repeat split; auto; try discriminate.
  all: intros [=].
Qed.

Lemma linv_step m d l p a q :
  LInv m d l p -> wok_act a -> lstep m d p a = Some q -> LInv m d (l ++ [a]) q.
Proof.
  intros (rest & HR & HL & HF & HI & Hp) Hw Hs.
  destruct p as [| |c er|c0 er|e|e|]; destruct a as [bl c' er'|tx rx v|cw nw ew|e']; cbn in Hs; try discriminate.
  - (* PRead, LRead *)
    destruct Hp as [-> H0]. rewrite app_nil_r in HR.
    destruct (bl =? CopyBufSize) eqn:Eb; [|discriminate]. apply N.eqb_eq in Eb. subst bl.
    destruct (CopyBufSize <? blen c') eqn:Eo.
    + inv Hs. exists c'. rewrite lsrc_snoc, lsnk_snoc, llogged_snoc, inflight_snoc, app_nil_r.
      repeat split; auto; try (intros Hm; rewrite ?(HL Hm), ?(HF Hm); lia). congruence.
    + apply N.ltb_ge in Eo.
      destruct c' as [|b c'].
      * inv Hs. apply after_rw_inv.
        -- exists []. rewrite lsrc_snoc, lsnk_snoc, llogged_snoc, inflight_snoc, !app_nil_r.
           repeat split; auto; try (intros Hm; rewrite ?(HL Hm), ?(HF Hm); lia).
        -- intros ->. exists CopyBufSize, []. apply in_or_app. right. left. auto.
      * exists (b :: c'). rewrite lsrc_snoc, lsnk_snoc, llogged_snoc, inflight_snoc, app_nil_r.
        split; [congruence|]. split; [intros Hm; rewrite (HL Hm); lia|]. split; [intros Hm; rewrite (HF Hm); lia|].
        split; [auto|].
        destruct m; inv Hs.
        -- repeat split; auto; try discriminate. exists l, CopyBufSize. auto.
        -- repeat split; auto; try discriminate. cbn. exists l, CopyBufSize. auto.
  - (* PLog, LLog *)
    destruct Hp as (Hm & -> & Hne & Hsz & H0 & pre & bl & Hl).
    destruct (log_args d (blen c)) as [etx erx] eqn:Ea.
    destruct ((tx =? etx) && (rx =? erx)) eqn:Eq; [|discriminate].
    apply andb_true_iff in Eq as [E1 E2]. apply N.eqb_eq in E1, E2. subst tx rx.
    pose proof (log_args_sum d (blen c)) as Hsum. rewrite Ea in Hsum. cbn in Hsum.
    inv Hs. exists c. rewrite lsrc_snoc, lsnk_snoc, llogged_snoc, inflight_snoc, !app_nil_r.
    destruct v.
    + split; auto. split; [intros Hm'; rewrite (HL Hm'); lia|]. split; [discriminate|]. split; [lia|].
      repeat split; auto. cbn. exists pre, bl. rewrite Ea. cbn. rewrite <- app_assoc. auto.
    + split; auto. split; [intros Hm'; rewrite (HL Hm'); lia|]. split; [discriminate|]. split; [auto|].
      split; [intros [=]|]. intros _. split; auto. exists etx, erx. apply in_or_app. right. left. auto.
  - (* PWrite, LWrite *)
    rename cw into c.
    destruct Hp as (-> & Hne & Hsz & Hfl & Hsuf).
    destruct (beqb c c0) eqn:Ec; [|discriminate]. apply beqb_eq in Ec. subst c0.
    cbn in Hw. destruct Hw as [[Hw0 Hw1] Hw2].
    pose proof (wrote_le c nw) as Hle.
    assert (Hgen : exists rest', lsrc (l ++ [LWrite c nw ew]) = lsnk (l ++ [LWrite c nw ew]) ++ rest' /\
                   (m = Logged -> llogged (l ++ [LWrite c nw ew]) = blen (lsnk (l ++ [LWrite c nw ew])) + inflight (l ++ [LWrite c nw ew])) /\
                   (m = Fast -> llogged (l ++ [LWrite c nw ew]) = 0) /\
                   inflight (l ++ [LWrite c nw ew]) <= CopyBufSize /\
                   (ew = EN -> rest' = [] /\ inflight (l ++ [LWrite c nw ew]) = 0)).
    { exists (skipn (Z.to_nat nw) c).
      rewrite lsrc_snoc, lsnk_snoc, llogged_snoc, inflight_snoc, app_nil_r, blen_app.
      split. { rewrite HR. rewrite <- app_assoc. f_equal. apply wrote_split. }
      split. { intros Hm. rewrite (HL Hm), (Hfl Hm). lia. }
      split. { intros Hm. rewrite (HF Hm). lia. }
      split. { lia. }
      intros ->. assert (Hnw : (Z.of_N (blen c) <= nw)%Z).
      { destruct (Z_lt_le_dec nw (Z.of_N (blen c))) as [Hlt|]; auto. exfalso. apply (Hw2 Hlt). auto. }
      assert (Hz : Z.to_nat nw = length c) by (unfold blen in *; lia).
      rewrite (wrote_full c nw Hnw). split; [|lia].
      rewrite Hz. apply skipn_all. }
    assert (Heof : er = EEOF -> exists bl c', In (LRead bl c' EEOF) (l ++ [LWrite c nw ew])).
    { intros ->. destruct m; cbn in Hsuf; destruct Hsuf as (pre & bl & ->); exists bl, c;
        apply in_or_app; left; apply in_or_app; right; left; auto. }
    assert (Herr : forall e, e <> GNil -> e <> GDisconnect -> LInv m d (l ++ [LWrite c nw ew]) (PRet e)).
    { intros e Hn1 Hn2. destruct Hgen as (rest' & G1 & G2 & G3 & G4 & _). exists rest'.
      repeat split; auto; intros; contradiction. }
    destruct m.
    + (* Logged *)
      destruct ew as [| |code]; inv Hs.
      * destruct Hgen as (rest' & G1 & G2 & G3 & G4 & G5). destruct (G5 eq_refl) as [-> G6].
        apply after_rw_inv; auto. exists []. repeat split; auto.
      * apply Herr; discriminate.
      * apply Herr; discriminate.
    + (* Fast *)
      destruct ew as [| |code].
      * destruct ((nw <? 0)%Z || (Z.of_N (blen c) <? nw)%Z) eqn:Ebad.
        -- inv Hs. apply Herr; discriminate.
        -- destruct (Z.of_N (blen c) =? nw)%Z eqn:Efull; inv Hs.
           ++ destruct Hgen as (rest' & G1 & G2 & G3 & G4 & G5). destruct (G5 eq_refl) as [-> G6].
              apply after_rw_inv; auto. exists []. repeat split; auto.
           ++ apply Herr; discriminate.
      * inv Hs. apply Herr; discriminate.
      * inv Hs. apply Herr; discriminate.
  - (* PRet, LReturn *)
    destruct (gerr_eqb e' e) eqn:Ee; [|discriminate]. inv Hs.
    exists rest. rewrite lsrc_snoc, lsnk_snoc, llogged_snoc, inflight_snoc, !app_nil_r.
    split; auto. split; [intros Hm; rewrite (HL Hm); lia|]. split; [intros Hm; rewrite (HF Hm); lia|].
    split; auto. destruct Hp as [Hp1 Hp2]. split.
    + intros He. destruct (Hp1 He) as (-> & H0 & bl & c & Hin). repeat split; auto.
      exists bl, c. apply in_or_app. auto.
    + intros He. destruct (Hp2 He) as (Hm & tx & rx & Hin). split; auto. exists tx, rx. apply in_or_app. auto.
Qed.

Lemma linv_init m d : LInv m d [] PRead.
Proof. exists []. cbn. repeat split; auto; try lia; try (unfold CopyBufSize; lia). Qed.

Lemma linv m d l p : lexec m d PRead l = Some p -> wok l -> LInv m d l p.
Proof.
  revert p. induction l as [|a l IH] using rev_ind; intros p He Hw.
  - cbn in He. inv He. apply linv_init.
  - apply lexec_snoc in He as (p' & He & Hs). apply wok_snoc in Hw as [Hw Ha].
    eapply linv_step; eauto.
Qed.

(* ------------------------------------------------------------------ per-loop theorems *)
Lemma loop_prefix m d l p : lexec m d PRead l = Some p -> wok l -> exists rest, lsrc l = lsnk l ++ rest.
Proof. intros He Hw. destruct (linv _ _ _ _ He Hw) as (rest & HR & _). eauto. Qed.

Lemma loop_complete m d l p : lexec m d PRead l = Some p -> wok l ->
  (p = PRet GNil \/ p = PDone GNil) ->
  lsrc l = lsnk l /\ (m = Logged -> llogged l = blen (lsnk l)) /\ exists bl c, In (LRead bl c EEOF) l.
Proof.
  intros He Hw Hp. destruct (linv _ _ _ _ He Hw) as (rest & HR & HL & _ & _ & Hq).
  assert (H : rest = [] /\ inflight l = 0 /\ exists bl c, In (LRead bl c EEOF) l).
  { destruct Hp as [-> | ->]; destruct Hq as [Hq _]; apply Hq; auto. }
  destruct H as (-> & H0 & Hin). rewrite app_nil_r in HR. repeat split; auto.
  intros Hm. rewrite (HL Hm). lia.
Qed.

Lemma loop_accounting l p d : lexec Logged d PRead l = Some p -> wok l ->
  llogged l = blen (lsnk l) + inflight l /\ inflight l <= CopyBufSize /\
  (match p with PRead | PLog _ _ => inflight l = 0 | PWrite c _ => inflight l = blen c | _ => True end).
Proof.
  intros He Hw. destruct (linv _ _ _ _ He Hw) as (rest & HR & HL & _ & HI & Hq).
  repeat split; auto. destruct p; auto; try tauto.
Qed.

(* every Write is directly preceded, in its loop, by the Read of that very chunk and (with a logger) by the
   approving LogTraffic carrying its size in the argument position of the direction *)
Lemma loop_order m d pre c nw ew p :
  lexec m d PRead (pre ++ [LWrite c nw ew]) = Some p -> wok pre ->
  match m with
  | Logged => exists pre' bl er, pre = pre' ++ [LRead bl c er; LLog (fst (log_args d (blen c))) (snd (log_args d (blen c))) true]
  | Fast => exists pre' bl er, pre = pre' ++ [LRead bl c er]
  end.
Proof.
  intros He Hw. apply lexec_snoc in He as (q & He & Hs).
  destruct (linv _ _ _ _ He Hw) as (rest & _ & _ & _ & _ & Hq).
  destruct q; cbn in Hs; try discriminate.
  destruct (beqb c c0) eqn:Ec; [|discriminate]. apply beqb_eq in Ec. subst c0.
  destruct Hq as (_ & _ & _ & _ & Hsuf). destruct m; cbn in Hsuf; destruct Hsuf as (pre' & bl & ->); eauto.
Qed.

(* the arguments of every LogTraffic call: the size of the chunk just read, in the position of the direction *)
Lemma loop_log_args m d pre tx rx v p :
  lexec m d PRead (pre ++ [LLog tx rx v]) = Some p -> wok pre ->
  m = Logged /\ exists pre' bl c er, pre = pre' ++ [LRead bl c er] /\ c <> [] /\ (tx, rx) = log_args d (blen c).
Proof.
  intros He Hw. apply lexec_snoc in He as (q & He & Hs).
  destruct (linv _ _ _ _ He Hw) as (rest & _ & _ & _ & _ & Hq).
  destruct q; cbn in Hs; try discriminate.
  destruct Hq as (Hm & _ & Hne & _ & _ & pre' & bl & ->). split; auto.
  exists pre', bl, c, er. repeat split; auto.
  destruct (log_args d (blen c)) as [etx erx].
  destruct ((tx =? etx) && (rx =? erx)) eqn:Eq; [|discriminate].
  apply andb_true_iff in Eq as [E1 E2]. apply N.eqb_eq in E1, E2. subst. auto.
Qed.

(* after a veto the loop does nothing but report errDisconnect *)
Lemma loop_after_veto m d pre tx rx post p :
  lexec m d PRead (pre ++ LLog tx rx false :: post) = Some p ->
  (post = [] /\ p = PRet GDisconnect) \/ (post = [LReturn GDisconnect] /\ p = PDone GDisconnect).
Proof.
  rewrite lexec_app. destruct (lexec m d PRead pre) as [q|]; [|discriminate]. cbn.
  destruct q; cbn; try discriminate.
  destruct (log_args d (blen c)) as [etx erx]. destruct ((tx =? etx) && (rx =? erx)); [|discriminate].
  destruct post as [|a post]; cbn.
  - intros [= <-]. auto.
  - destruct a; cbn; try discriminate. destruct (gerr_eqb e GDisconnect) eqn:Ee; [|discriminate].
    apply gerr_eqb_eq in Ee. subst e. destruct post as [|b post]; cbn.
    + intros [= <-]. auto.
    + destruct b; discriminate.
Qed.

(* without the io.Writer contract the logged loop can leave a hole: the count returned by Write is ignored *)
Lemma loop_prefix_needs_contract :
  exists l p, lexec Logged Up PRead l = Some p /\ ~ exists rest, lsrc l = lsnk l ++ rest.
Proof.
  exists [LRead CopyBufSize [x01; x02] EN; LLog 2 0 true; LWrite [x01; x02] 0 EN;
          LRead CopyBufSize [x03] EN; LLog 1 0 true; LWrite [x03] 1 EN], PRead.
  split; [reflexivity|]. intros [rest H]. cbn in H. discriminate.
Qed.


(* a loop reports errDisconnect only after a veto (no assumption on the sinks) *)
Lemma loop_disconnect_cause m d l p : lexec m d PRead l = Some p ->
  (p = PRet GDisconnect \/ p = PDone GDisconnect) -> exists tx rx, In (LLog tx rx false) l.
Proof.
  revert p. induction l as [|a l IH] using rev_ind; intros p He Hp.
  - cbn in He. inv He. destruct Hp; discriminate.
  - apply lexec_snoc in He as (q & He & Hs).
    assert (Hold : (q = PRet GDisconnect \/ q = PDone GDisconnect) -> exists tx rx, In (LLog tx rx false) (l ++ [a])).
    { intros Hq. destruct (IH _ He Hq) as (tx & rx & Hin). exists tx, rx. apply in_or_app. auto. }
    destruct q; destruct a; cbn in Hs; try discriminate.
    + destruct (bl =? CopyBufSize); [|discriminate]. destruct (bl <? blen c).
      * inv Hs. destruct Hp; discriminate.
      * destruct c; [|destruct m]; inv Hs; try (destruct Hp; discriminate).
        destruct er; cbn in Hp; destruct Hp; discriminate.
    + destruct (log_args d (blen c)) as [etx erx]. destruct ((tx =? etx) && (rx =? erx)); [|discriminate].
      destruct v; inv Hs.
      * destruct Hp; discriminate.
      * exists tx, rx. apply in_or_app. right. left. auto.
    + destruct (beqb c0 c); [|discriminate]. destruct m.
      * destruct ew; inv Hs; try (destruct Hp; discriminate).
        destruct er; cbn in Hp; destruct Hp; discriminate.
      * destruct ew.
        -- destruct ((nw <? 0)%Z || (Z.of_N (blen c) <? nw)%Z).
           ++ inv Hs. destruct Hp; discriminate.
           ++ destruct (Z.of_N (blen c) =? nw)%Z; inv Hs; try (destruct Hp; discriminate).
              destruct er; cbn in Hp; destruct Hp; discriminate.
        -- inv Hs. destruct Hp; discriminate.
        -- inv Hs. destruct Hp; discriminate.
    + destruct (gerr_eqb e0 e); [|discriminate]. inv Hs. apply Hold. left.
      destruct Hp as [Hp|Hp]; inv Hp. auto.
Qed.

(* ------------------------------------------------------------------ the whole connection *)
Lemma proj_snoc d tr a :
  proj d (tr ++ [a]) = proj d tr ++ match a with ALoop d' x => if dir_eqb d d' then [x] else [] | _ => [] end.
Proof. unfold proj. rewrite flat_map_app. cbn. rewrite app_nil_r. auto. Qed.
Lemma rets_snoc tr a :
  rets (tr ++ [a]) = rets tr ++ match a with ALoop _ (LReturn e) => [e] | _ => [] end.
Proof. unfold rets. rewrite flat_map_app. cbn. rewrite app_nil_r. auto. Qed.
Lemma recv_snoc tr a :
  recv (tr ++ [a]) = recv tr ++ match a with AFirstReturn e => [e] | _ => [] end.
Proof. unfold recv. rewrite flat_map_app. cbn. rewrite app_nil_r. auto. Qed.
Lemma in_snoc {A} (x : A) l a : In x (l ++ [a]) <-> In x l \/ a = x.
Proof. rewrite in_app_iff. cbn. tauto. Qed.

Definition other (d : dir) : dir := match d with Up => Down | Down => Up end.

Lemma step_loop s d x s' : step s (ALoop d x) = Some s' ->
  exists p', lstep (md s) d (pcof s d) x = Some p' /\
             md s' = md s /\ par s' = par s /\ pcof s' d = p' /\ pcof s' (other d) = pcof s (other d) /\
             chan s' = chan s ++ match x with LReturn e => [e] | _ => [] end.
Proof.
  cbn. destruct (lstep (md s) d (pcof s d) x) as [p'|]; [|discriminate]. intros [= <-].
  exists p'. split; auto. destruct d, x; cbn; rewrite ?app_nil_r; auto 10.
Qed.

Definition GI (m : mode) (tr : list act) (s : st) : Prop :=
  md s = m /\
  ((pU s = PIdle /\ pD s = PIdle /\ proj Up tr = [] /\ proj Down tr = [] /\ chan s = [] /\ rets tr = [] /\
    recv tr = [] /\ ~ In ACloseConn tr /\
    match par s with QWait | QCloseT _ | QCloseS _ | QCloseC => False | _ => True end)
   \/
   (lexec m Up PRead (proj Up tr) = Some (pU s) /\ lexec m Down PRead (proj Down tr) = Some (pD s) /\
    rets tr = recv tr ++ chan s /\
    match par s with
    | QWait => recv tr = [] /\ ~ In ACloseConn tr
    | QCloseT e | QCloseS e => recv tr = [e] /\ ~ In ACloseConn tr
    | QCloseC => recv tr = [GDisconnect] /\ ~ In ACloseConn tr
    | QDone => exists e, recv tr = [e] /\ (In ACloseConn tr <-> e = GDisconnect)
    | _ => False
    end)).

Lemma lstep_idle m d a : lstep m d PIdle a = None.
Proof. destruct a; auto. Qed.

Ltac snoc_norm :=
  cbn [par md pU pD chan sTx sRx setpar];
  rewrite ?proj_snoc, ?rets_snoc, ?recv_snoc, ?in_snoc, ?app_nil_r; cbn [app dir_eqb]; rewrite ?app_nil_r.

Lemma gi_step m tr s a s' : GI m tr s -> step s a = Some s' -> GI m (tr ++ [a]) s'.
Proof.
  intros [Hm HI] Hs. destruct a as [ok|r|ok msg|d x|e| | |].
  - (* AReadReq *)
    cbn in Hs. destruct (par s) eqn:Ep; try discriminate. inv Hs.
    destruct HI as [HA|HB]; [|try rewrite Ep in HB; tauto].
    destruct HA as (H1 & H2 & H3 & H4 & H5 & H6 & H7 & H8 & _).
    split; auto. left. snoc_norm.
    repeat split; auto; try (intros [?|?]; [tauto|discriminate]). destruct ok; auto.
  - (* ADial *)
    cbn in Hs. destruct (par s) eqn:Ep; try discriminate. inv Hs.
    destruct HI as [HA|HB]; [|try rewrite Ep in HB; tauto].
    destruct HA as (H1 & H2 & H3 & H4 & H5 & H6 & H7 & H8 & _).
    split; auto. left. snoc_norm.
    repeat split; auto; try (intros [?|?]; [tauto|discriminate]). destruct r; auto.
  - (* AWriteResp *)
    cbn in Hs. destruct (par s) eqn:Ep; try discriminate.
    + destruct (ok && beqb msg Connected); [|discriminate]. inv Hs.
      destruct HI as [HA|HB]; [|try rewrite Ep in HB; tauto].
      destruct HA as (H1 & H2 & H3 & H4 & H5 & H6 & H7 & H8 & _).
      split; auto. right. snoc_norm.
      rewrite H3, H4, H5, H6, H7. cbn. repeat split; auto. intros [?|?]; [tauto|discriminate].
    + destruct (negb ok && beqb msg msg0); [|discriminate]. inv Hs.
      destruct HI as [HA|HB]; [|try rewrite Ep in HB; tauto].
      destruct HA as (H1 & H2 & H3 & H4 & H5 & H6 & H7 & H8 & _).
      split; auto. left. snoc_norm.
      repeat split; auto; try (intros [?|?]; [tauto|discriminate]).
  - (* ALoop *)
    apply step_loop in Hs as (p' & Hl & Hmd & Hpar & Hpc & Hoth & Hch).
    destruct HI as [HA|HB].
    { destruct HA as (H1 & H2 & _). destruct d; cbn in Hl; rewrite ?H1, ?H2, lstep_idle in Hl; discriminate. }
    destruct HB as (HU & HD & HR & HP).
    split; [congruence|]. right. rewrite !proj_snoc, rets_snoc, recv_snoc, Hpar.
    assert (Hrets : rets tr ++ match x with LReturn e => [e] | _ => [] end = recv tr ++ chan s').
    { rewrite Hch, HR, app_assoc. auto. }
    assert (HPar : match par s with
                   | QWait => recv tr = [] /\ ~ In ACloseConn (tr ++ [ALoop d x])
                   | QCloseT e | QCloseS e => recv tr = [e] /\ ~ In ACloseConn (tr ++ [ALoop d x])
                   | QCloseC => recv tr = [GDisconnect] /\ ~ In ACloseConn (tr ++ [ALoop d x])
                   | QDone => exists e, recv tr = [e] /\ (In ACloseConn (tr ++ [ALoop d x]) <-> e = GDisconnect)
                   | _ => False
                   end).
    { destruct (par s); auto;
        try (destruct HP as [HP1 HP2]; split; auto; rewrite in_snoc; intros [?|?]; [tauto|discriminate]).
      destruct HP as (e & He1 & He2). exists e. split; auto. rewrite in_snoc.
      split; [intros [?|?]; [tauto|discriminate] | intros; left; tauto]. }
    rewrite Hm in Hl.
    destruct d; cbn in Hpc, Hoth, Hl |- *; rewrite !app_nil_r.
    + split. { rewrite lexec_app, HU. cbn. rewrite Hl, Hpc. auto. }
      split. { rewrite Hoth. auto. }
      split; auto.
    + split. { rewrite Hoth. auto. }
      split. { rewrite lexec_app, HD. cbn. rewrite Hl, Hpc. auto. }
      split; auto.
  - (* AFirstReturn *)
    cbn in Hs. destruct (par s) eqn:Ep; try discriminate. destruct (chan s) as [|e0 rest] eqn:Ec; try discriminate.
    destruct (gerr_eqb e e0) eqn:Ee; [|discriminate]. apply gerr_eqb_eq in Ee. subst e0. inv Hs.
    destruct HI as [HA|HB]; [try rewrite Ep in HA; tauto|]. try rewrite Ep in HB.
    destruct HB as (HU & HD & HR & Hrc & Hcc).
    split; auto. right. snoc_norm.
    rewrite Hrc in *. cbn in *. repeat split; auto. intros [?|?]; [tauto|discriminate].
  - (* ACloseTarget *)
    cbn in Hs. destruct (par s) eqn:Ep; try discriminate. inv Hs.
    destruct HI as [HA|HB]; [try rewrite Ep in HA; tauto|]. try rewrite Ep in HB.
    destruct HB as (HU & HD & HR & Hrc & Hcc).
    split; auto. right. snoc_norm.
    repeat split; auto. intros [?|?]; [tauto|discriminate].
  - (* ACloseStream *)
    cbn in Hs. destruct (par s) eqn:Ep; try discriminate.
    + inv Hs. destruct HI as [HA|HB]; [|try rewrite Ep in HB; tauto].
      destruct HA as (H1 & H2 & H3 & H4 & H5 & H6 & H7 & H8 & _).
      split; auto. left. snoc_norm.
      repeat split; auto; try (intros [?|?]; [tauto|discriminate]).
    + inv Hs. destruct HI as [HA|HB]; [try rewrite Ep in HA; tauto|]. try rewrite Ep in HB.
      destruct HB as (HU & HD & HR & Hrc & Hcc).
      split; auto. right. snoc_norm.
      split; auto. split; auto. split; auto.
      assert (HCC : ~ In ACloseConn (tr ++ [ACloseStream])).
      { rewrite in_snoc. intros [?|?]; [tauto|discriminate]. }
      destruct e as [e0| | |]; cbn; auto.
      all: eexists; split; [eauto|]; split; [tauto|discriminate].
    - (* ACloseConn *)
    cbn in Hs. destruct (par s) eqn:Ep; try discriminate. inv Hs.
    destruct HI as [HA|HB]; [try rewrite Ep in HA; tauto|]. try rewrite Ep in HB.
    destruct HB as (HU & HD & HR & Hrc & Hcc).
    split; auto. right. snoc_norm.
    repeat split; auto. exists GDisconnect. split; auto. split; auto.
    intros _. apply in_or_app. right. left. auto.
Qed.

Lemma gi m tr s : exec (init m) tr = Some s -> GI m tr s.
Proof.
  revert s. induction tr as [|a tr IH] using rev_ind; intros s He.
  - cbn in He. inv He. split; auto. left. cbn. repeat split; auto.
  - apply exec_snoc in He as (s0 & He & Hs). eapply gi_step; eauto.
Qed.

Lemma run_loop m tr s d : exec (init m) tr = Some s ->
  (proj d tr = [] /\ pcof s d = PIdle) \/ lexec m d PRead (proj d tr) = Some (pcof s d).
Proof.
  intros He. destruct (gi _ _ _ He) as [_ [HA|HB]].
  - left. destruct HA as (H1 & H2 & H3 & H4 & _). destruct d; auto.
  - right. destruct HB as (HU & HD & _). destruct d; auto.
Qed.

Lemma proj_in d x tr : In x (proj d tr) <-> In (ALoop d x) tr.
Proof.
  unfold proj. rewrite in_flat_map. split.
  - intros (a & Ha & Hx). destruct a; cbn in Hx; try contradiction.
    destruct (dir_eqb d d0) eqn:E; [|contradiction]. destruct Hx as [<-|[]].
    destruct d, d0; try discriminate; auto.
  - intros H. exists (ALoop d x). split; auto. rewrite dir_eqb_refl. left; auto.
Qed.
Lemma rets_in e tr : In e (rets tr) -> exists d, In (ALoop d (LReturn e)) tr.
Proof.
  unfold rets. rewrite in_flat_map. intros (a & Ha & Hx). destruct a; cbn in Hx; try contradiction.
  destruct a; cbn in Hx; try contradiction. destruct Hx as [<-|[]]. eauto.
Qed.
Lemma recv_in e tr : In e (recv tr) -> In (AFirstReturn e) tr.
Proof.
  unfold recv. rewrite in_flat_map. intros (a & Ha & Hx). destruct a; cbn in Hx; try contradiction.
  destruct Hx as [<-|[]]. auto.
Qed.

Lemma lexec_done m d e l p : lexec m d (PDone e) l = Some p -> l = [] /\ p = PDone e.
Proof. destruct l as [|a l]; cbn; [intros [= <-]; auto|]. destruct a; discriminate. Qed.

Lemma loop_returned m d l p e : lexec m d PRead l = Some p -> In (LReturn e) l -> p = PDone e.
Proof.
  intros He Hin. apply in_split in Hin as (l1 & l2 & ->). rewrite lexec_app in He.
  destruct (lexec m d PRead l1) as [q|]; [|discriminate]. cbn in He.
  destruct q; cbn in He; try discriminate.
  destruct (gerr_eqb e e0) eqn:Ee; [|discriminate]. apply gerr_eqb_eq in Ee. subst e0.
  apply lexec_done in He as [_ ->]. auto.
Qed.

Lemma run_prefix m tr s d : exec (init m) tr = Some s -> wok_tr tr ->
  exists rest, srcb d tr = snkb d tr ++ rest.
Proof.
  intros He Hw. destruct (run_loop _ _ _ d He) as [[Hn _]|Hl].
  - unfold srcb, snkb. rewrite Hn. exists []. auto.
  - eapply loop_prefix; eauto.
Qed.

Lemma run_complete m tr s d : exec (init m) tr = Some s -> wok_tr tr ->
  (pcof s d = PRet GNil \/ pcof s d = PDone GNil) ->
  srcb d tr = snkb d tr /\ (m = Logged -> logged d tr = blen (snkb d tr)) /\
  exists bl c, In (ALoop d (LRead bl c EEOF)) tr.
Proof.
  intros He Hw Hp. destruct (run_loop _ _ _ d He) as [[_ Hn]|Hl].
  - rewrite Hn in Hp. destruct Hp; discriminate.
  - destruct (loop_complete _ _ _ _ Hl (Hw d) Hp) as (H1 & H2 & bl & c & H3).
    repeat split; auto. exists bl, c. apply proj_in. auto.
Qed.

Lemma run_order m tr s d pre c nw ew post : exec (init m) tr = Some s -> wok_tr tr ->
  proj d tr = pre ++ LWrite c nw ew :: post ->
  match m with
  | Logged => exists pre' bl er, pre = pre' ++ [LRead bl c er; LLog (fst (log_args d (blen c))) (snd (log_args d (blen c))) true]
  | Fast => exists pre' bl er, pre = pre' ++ [LRead bl c er]
  end.
Proof.
  intros He Hw Hpr. destruct (run_loop _ _ _ d He) as [[Hn _]|Hl].
  - rewrite Hn in Hpr. destruct pre; discriminate.
  - specialize (Hw d). rewrite Hpr in Hl, Hw.
    change (pre ++ LWrite c nw ew :: post) with (pre ++ [LWrite c nw ew] ++ post) in Hl.
    rewrite app_assoc, lexec_app in Hl.
    destruct (lexec m d PRead (pre ++ [LWrite c nw ew])) as [q|] eqn:Eq; [|discriminate].
    apply Forall_app in Hw as [Hw _]. eapply loop_order; eauto.
Qed.

Lemma run_log_args m tr s d tx rx v : exec (init m) tr = Some s -> wok_tr tr ->
  In (ALoop d (LLog tx rx v)) tr ->
  m = Logged /\ exists pre bl c er post, proj d tr = pre ++ LRead bl c er :: LLog tx rx v :: post /\
                                       c <> [] /\ (tx, rx) = log_args d (blen c).
Proof.
  intros He Hw Hin. apply proj_in in Hin. apply in_split in Hin as (pre & post & Hpr).
  destruct (run_loop _ _ _ d He) as [[Hn _]|Hl].
  - rewrite Hn in Hpr. destruct pre; discriminate.
  - specialize (Hw d). rewrite Hpr in Hl, Hw.
    change (pre ++ LLog tx rx v :: post) with (pre ++ [LLog tx rx v] ++ post) in Hl.
    rewrite app_assoc, lexec_app in Hl.
    destruct (lexec m d PRead (pre ++ [LLog tx rx v])) as [q|] eqn:Eq; [|discriminate].
    apply Forall_app in Hw as [Hw _].
    destruct (loop_log_args _ _ _ _ _ _ _ Eq Hw) as (Hm & pre' & bl & c & er & -> & Hne & Ha).
    split; auto. exists pre', bl, c, er, post. rewrite Hpr, <- app_assoc. auto.
Qed.

Lemma run_after_veto m tr s d pre tx rx post : exec (init m) tr = Some s ->
  proj d tr = pre ++ LLog tx rx false :: post ->
  (post = [] /\ pcof s d = PRet GDisconnect) \/ (post = [LReturn GDisconnect] /\ pcof s d = PDone GDisconnect).
Proof.
  intros He Hpr. destruct (run_loop _ _ _ d He) as [[Hn _]|Hl].
  - rewrite Hn in Hpr. destruct pre; discriminate.
  - rewrite Hpr in Hl. eapply loop_after_veto; eauto.
Qed.

Lemma run_accounting tr s d : exec (init Logged) tr = Some s -> wok_tr tr ->
  logged d tr = blen (snkb d tr) + inflight (proj d tr) /\ inflight (proj d tr) <= CopyBufSize /\
  match pcof s d with
  | PRead | PLog _ _ | PRet (GEnv EN) | PDone (GEnv EN) => inflight (proj d tr) = 0
  | PWrite c _ => inflight (proj d tr) = blen c
  | _ => True
  end.
Proof.
  intros He Hw. destruct (run_loop _ _ _ d He) as [[Hn Hp]|Hl].
  - unfold logged, snkb. rewrite Hn, Hp. cbn. repeat split; auto. unfold CopyBufSize. lia.
  - destruct (loop_accounting _ _ _ Hl (Hw d)) as (H1 & H2 & H3). repeat split; auto.
    destruct (pcof s d) as [| |c er|c er|e|e|] eqn:Ep; auto.
    + destruct e as [[| |]| | |]; auto.
      destruct (loop_complete _ _ _ _ Hl (Hw d) (or_introl eq_refl)) as (_ & H4 & _).
      unfold logged, snkb in *. specialize (H4 eq_refl). lia.
    + destruct e as [[| |]| | |]; auto.
      destruct (loop_complete _ _ _ _ Hl (Hw d) (or_intror eq_refl)) as (_ & H4 & _).
      unfold logged, snkb in *. specialize (H4 eq_refl). lia.
Qed.

(* the QUIC connection is closed only when the copy returned errDisconnect, which only a veto produces *)
Lemma run_closeconn_only_if m tr s : exec (init m) tr = Some s -> In ACloseConn tr ->
  In (AFirstReturn GDisconnect) tr /\ exists d tx rx, In (ALoop d (LLog tx rx false)) tr.
Proof.
  intros He Hin. destruct (gi _ _ _ He) as [_ [HA|HB]].
  - destruct HA as (_ & _ & _ & _ & _ & _ & _ & H & _). contradiction.
  - destruct HB as (HU & HD & HR & HP).
    assert (Hrc : recv tr = [GDisconnect]).
    { destruct (par s); try tauto. destruct HP as (e & He1 & He2). apply He2 in Hin. subst. auto. }
    split. { apply recv_in. rewrite Hrc. left. auto. }
    assert (Hr : In GDisconnect (rets tr)) by (rewrite HR, Hrc; left; auto).
    apply rets_in in Hr as [d Hr]. exists d. apply proj_in in Hr.
    assert (Hl : lexec m d PRead (proj d tr) = Some (pcof s d)) by (destruct d; auto).
    pose proof (loop_returned _ _ _ _ _ Hl Hr) as Hp.
    destruct (loop_disconnect_cause _ _ _ _ Hl (or_intror Hp)) as (tx & rx & Hv).
    exists tx, rx. apply proj_in. auto.
Qed.

(* ... and it is closed whenever errDisconnect is the first value to reach the channel *)
Lemma run_closeconn_if m tr s : exec (init m) tr = Some s -> par s = QDone ->
  hd_error (rets tr) = Some GDisconnect -> In ACloseConn tr.
Proof.
  intros He Hd Hh. destruct (gi _ _ _ He) as [_ [HA|HB]].
  - destruct HA as (_ & _ & _ & _ & _ & H & _). rewrite H in Hh. discriminate.
  - destruct HB as (_ & _ & HR & HP). rewrite Hd in HP. destruct HP as (e & He1 & He2).
    rewrite HR, He1 in Hh. cbn in Hh. inv Hh. apply He2. auto.
Qed.

Definition veto_lost_run : list act :=
  [AReadReq true; ADial None; AWriteResp true Connected;
   ALoop Down (LRead CopyBufSize [x01; x02; x03; x04; x05; x06; x07] EN);   (* Down has a chunk and enters LogTraffic *)
   ALoop Up (LRead CopyBufSize [] EEOF); ALoop Up (LReturn GNil);             (* the client half-closes: Up returns nil *)
   AFirstReturn GNil; ACloseTarget; ACloseStream;                              (* the relay is torn down, err = nil *)
   ALoop Down (LLog 0 7 false); ALoop Down (LReturn GDisconnect)].            (* the veto arrives: nobody reads it *)

Lemma veto_closes_conn_refuted :
  exists tr s, exec (init Logged) tr = Some s /\ wok_tr tr /\
    par s = QDone /\ pU s = PDone GNil /\ pD s = PDone GDisconnect /\
    In (ALoop Down (LLog 0 7 false)) tr /\ snkb Down tr = [] /\ ~ In ACloseConn tr.
Proof.
  exists veto_lost_run. eexists. split; [reflexivity|]. split.
  { intros d. destruct d; cbn; repeat constructor. }
  cbn. repeat split; auto 20.
  intros H. repeat (destruct H as [H|H]; [discriminate|]). contradiction.
Qed.

(* non-vacuity: a veto in Down after two forwarded chunks, the vetoed loop reports first, connection closed *)
Definition veto_run : list act :=
  [AReadReq true; ADial None; AWriteResp true Connected;
   ALoop Down (LRead CopyBufSize [x61; x62] EN); ALoop Down (LLog 0 2 true); ALoop Down (LWrite [x61; x62] 2 EN);
   ALoop Up (LRead CopyBufSize [x7a] EN); ALoop Up (LLog 1 0 true);
   ALoop Down (LRead CopyBufSize [x63] EN); ALoop Down (LLog 0 1 true); ALoop Down (LWrite [x63] 1 EN);
   ALoop Up (LWrite [x7a] 1 EN);
   ALoop Down (LRead CopyBufSize [x64; x65] EN); ALoop Down (LLog 0 2 false); ALoop Down (LReturn GDisconnect);
   AFirstReturn GDisconnect; ACloseTarget; ACloseStream; ACloseConn;
   ALoop Up (LRead CopyBufSize [] (EE 90)); ALoop Up (LReturn (GEnv (EE 90)))].

Lemma veto_run_ok :
  exists s, exec (init Logged) veto_run = Some s /\ wok_tr veto_run /\ par s = QDone /\
    snkb Down veto_run = [x61; x62; x63] /\ srcb Down veto_run = [x61; x62; x63; x64; x65] /\
    logged Down veto_run = 3 /\ snkb Up veto_run = [x7a] /\ hd_error (rets veto_run) = Some GDisconnect /\
    In ACloseConn veto_run /\ sRx s = 5 /\ sTx s = 1.
Proof.
  destruct (exec (init Logged) veto_run) as [s|] eqn:E; [|vm_compute in E; discriminate].
  exists s. split; auto. vm_compute in E. inv E. split.
  { intros d. destruct d; cbn; repeat constructor; cbn; try lia; intros; try lia. }
  repeat split; try (vm_compute; reflexivity).
  vm_compute. auto 30.
Qed.

(* ------------------------------------------------------------------ dial error *)
Lemma step_done_idle s a : par s = QDone -> pU s = PIdle -> pD s = PIdle -> step s a = None.
Proof.
  intros H1 H2 H3. destruct a; cbn; rewrite ?H1; auto.
  destruct d; cbn; rewrite ?H2, ?H3, lstep_idle; auto.
Qed.

Definition not_dialing (q : ppc) : Prop := match q with QReadReq | QDial => False | _ => True end.
Lemma step_not_dialing s a s' : not_dialing (par s) -> step s a = Some s' -> not_dialing (par s') /\ forall r, a <> ADial r.
Proof.
  intros Hn Hs. destruct a; cbn in Hs.
  - destruct (par s); try discriminate. contradiction.
  - destruct (par s); try discriminate. contradiction.
  - destruct (par s); try discriminate.
    + destruct (ok && beqb msg Connected); inv Hs. cbn. split; auto. discriminate.
    + destruct (negb ok && beqb msg msg0); inv Hs. cbn. split; auto. discriminate.
  - apply step_loop in Hs as (p' & _ & _ & Hp & _). rewrite Hp. split; auto. discriminate.
  - destruct (par s); try discriminate. destruct (chan s); try discriminate.
    destruct (gerr_eqb e g); inv Hs. cbn. split; auto. discriminate.
  - destruct (par s); inv Hs. cbn. split; auto. discriminate.
  - destruct (par s); inv Hs; cbn; split; auto; try discriminate. destruct e; cbn; auto.
  - destruct (par s); inv Hs. cbn. split; auto. discriminate.
Qed.
Lemma no_dial_later s tr s' r : not_dialing (par s) -> exec s tr = Some s' -> ~ In (ADial r) tr.
Proof.
  revert s. induction tr as [|a tr IH]; intros s Hn He; [auto|].
  cbn in He. destruct (step s a) as [s1|] eqn:Es; [|discriminate].
  destruct (step_not_dialing _ _ _ Hn Es) as [Hn1 Ha]. intros [H|H]; [eapply Ha; eauto|eapply IH; eauto].
Qed.

Definition dial_error_run (msg : bytes) : list act :=
  [AReadReq true; ADial (Some msg); AWriteResp false msg; ACloseStream].

Lemma dial_error_shape m tr s msg : exec (init m) tr = Some s -> In (ADial (Some msg)) tr ->
  exists k, tr = firstn k (dial_error_run msg).
Proof.
  intros He Hin.
  destruct tr as [|a1 t1]; [contradiction|].
  cbn in He. destruct a1; cbn in He; try discriminate.
  all: try (destruct d, a; discriminate).
  destruct ok.
  2:{ exfalso. destruct Hin as [Hin|Hin]; [discriminate|].
      eapply (no_dial_later _ _ _ _ _ He); eauto. Unshelve. cbn. auto. }
  destruct t1 as [|a2 t2]; [destruct Hin as [Hin|[]]; discriminate|].
  cbn in He. destruct a2; cbn in He; try discriminate.
  all: try (destruct d, a; discriminate).
  destruct r as [msg'|].
  2:{ exfalso. destruct Hin as [Hin|[Hin|Hin]]; try discriminate.
      eapply (no_dial_later _ _ _ _ _ He); eauto. Unshelve. cbn. auto. }
  assert (msg' = msg).
  { destruct Hin as [Hin|[Hin|Hin]]; try discriminate. { inv Hin. auto. }
    exfalso. eapply (no_dial_later _ _ _ _ _ He); eauto. Unshelve. cbn. auto. }
  subst msg'. clear Hin.
  destruct t2 as [|a3 t3]; [exists 2%nat; auto|].
  cbn in He. destruct a3; cbn in He; try discriminate.
  all: try (destruct d, a; discriminate).
  destruct (negb ok && beqb msg0 msg) eqn:Eb; [|discriminate].
  apply andb_true_iff in Eb as [E1 E2]. apply beqb_eq in E2. subst msg0. destruct ok; [discriminate|].
  destruct t3 as [|a4 t4]; [exists 3%nat; auto|].
  cbn in He. destruct a4; cbn in He; try discriminate.
  all: try (destruct d, a; discriminate).
  destruct t4 as [|a5 t5]; [exists 4%nat; auto|].
  cbn in He. rewrite step_done_idle in He; auto. discriminate.
Qed.

(* ------------------------------------------------------------------ client side *)
Section ClientProofs.
  Variable read_resp : bytes -> option (bool * bytes * bytes).
  Variable write_resp : bool -> bytes -> bytes.
  Hypothesis resp_roundtrip : forall ok msg rest, read_resp (write_resp ok msg ++ rest) = Some (ok, msg, rest).

  Lemma client_ok fo msg payload :
    client_view read_resp fo (write_resp true msg ++ payload) = inr payload.
  Proof. destruct fo; unfold client_view, client_tcp, conn_read_all; cbn; rewrite resp_roundtrip; auto. Qed.

  Lemma client_dial_error msg rest :
    client_tcp read_resp false (write_resp false msg ++ rest) = inl (CDialError msg) /\
    (exists c, client_tcp read_resp true (write_resp false msg ++ rest) = inr c /\
               conn_read_all read_resp c = inl (CDialError msg)).
  Proof.
    split.
    - unfold client_tcp. rewrite resp_roundtrip. auto.
    - eexists. split; [reflexivity|]. unfold conn_read_all. cbn. rewrite resp_roundtrip. auto.
  Qed.

  Lemma dial_error_stream msg : stream_out write_resp (dial_error_run msg) = write_resp false msg.
  Proof. cbn. rewrite app_nil_r. auto. Qed.
End ClientProofs.

(* ------------------------------------------------------------------ the sender finishes first *)
Definition eof_tail (p : pc) : Prop :=
  match p with
  | PLog _ EEOF | PWrite _ EEOF | PRet (GEnv EN) | PDone (GEnv EN) | PPanic => True
  | _ => False
  end.

Lemma eof_tail_step m d p a q :
  eof_tail p -> wok_act a -> quiet_act a -> lstep m d p a = Some q -> eof_tail q.
Proof.
  intros Hp Hw Hq Hs.
  destruct p as [| |c er|c0 er|e|e|]; cbn in Hp; try contradiction;
    destruct a as [bl c' er'|tx rx v|cw nw ew|e']; cbn in Hs; try discriminate.
  - destruct er; try contradiction.
    destruct (log_args d (blen c)) as [etx erx]. destruct ((tx =? etx) && (rx =? erx)); [|discriminate].
    destruct v; [|cbn in Hq; contradiction]. inv Hs. cbn. auto.
  - rename cw into c. destruct er; try contradiction.
    destruct (beqb c c0) eqn:Ec; [|discriminate]. apply beqb_eq in Ec. subst c0.
    cbn in Hq. subst ew. cbn in Hw. destruct Hw as [[Hw0 Hw1] Hw2].
    assert (Hnw : nw = Z.of_N (blen c)).
    { destruct (Z_lt_le_dec nw (Z.of_N (blen c))) as [Hlt|]; [exfalso; apply (Hw2 Hlt); auto|lia]. }
    destruct m.
    + inv Hs. cbn. auto.
    + replace ((nw <? 0)%Z || (Z.of_N (blen c) <? nw)%Z) with false in Hs by lia.
      replace (Z.of_N (blen c) =? nw)%Z with true in Hs by lia. inv Hs. cbn. auto.
  - destruct e as [[| |]| | |]; try contradiction.
    destruct (gerr_eqb e' (GEnv EN)); [|discriminate]. inv Hs. cbn. auto.
Qed.

Lemma eof_tail_exec m d l p q :
  eof_tail p -> wok l -> Forall quiet_act l -> lexec m d p l = Some q -> eof_tail q.
Proof.
  revert p. induction l as [|a l IH]; intros p Hp Hw Hq He; cbn in He.
  - inv He. auto.
  - destruct (lstep m d p a) as [p1|] eqn:Es; [|discriminate].
    inversion Hw as [|? ? Hwa Hwl]; subst. inversion Hq as [|? ? Hqa Hql]; subst.
    apply (IH p1); auto. eapply eof_tail_step; eauto.
Qed.

(* once a loop has read EOF from its source, and no veto and no failing write follows, it can only
   deliver the last chunk and return nil *)
Lemma loop_sender_finishes m d l p bl c :
  lexec m d PRead l = Some p -> wok l -> In (LRead bl c EEOF) l -> Forall quiet_act l -> eof_tail p.
Proof.
  intros He Hw Hin Hq. apply in_split in Hin as (l1 & l2 & ->).
  rewrite lexec_app in He. destruct (lexec m d PRead l1) as [q|] eqn:E1; [|discriminate].
  cbn in He. destruct (lstep m d q (LRead bl c EEOF)) as [q1|] eqn:Es; [|discriminate].
  apply Forall_app in Hw as [_ Hw]. apply Forall_app in Hq as [_ Hq].
  inversion Hw as [|? ? Hwa Hwl]; subst. inversion Hq as [|? ? Hqa Hql]; subst.
  eapply eof_tail_exec; [| | |exact He]; auto.
  destruct q; cbn in Es; try discriminate.
  destruct (bl =? CopyBufSize); [|discriminate]. destruct (bl <? blen c).
  - inv Es. cbn. auto.
  - destruct c; [|destruct m]; inv Es; cbn; auto.
Qed.

Lemma run_sender_finishes m tr s d bl c : exec (init m) tr = Some s -> wok_tr tr ->
  In (ALoop d (LRead bl c EEOF)) tr -> Forall quiet_act (proj d tr) ->
  match pcof s d with
  | PRet e | PDone e => e = GNil /\ srcb d tr = snkb d tr
  | PLog _ _ | PWrite _ _ | PPanic => True
  | _ => False
  end.
Proof.
  intros He Hw Hin Hq. apply proj_in in Hin.
  destruct (run_loop _ _ _ d He) as [[Hn _]|Hl]; [rewrite Hn in Hin; contradiction|].
  pose proof (loop_sender_finishes _ _ _ _ _ _ Hl (Hw d) Hin Hq) as Ht.
  destruct (pcof s d) as [| |c1 er|c1 er|e|e|] eqn:Ep; cbn in Ht; try contradiction; auto.
  - destruct e as [[| |]| | |]; try contradiction. split; auto.
    destruct (loop_complete _ _ _ _ Hl (Hw d) (or_introl eq_refl)) as (H1 & _). auto.
  - destruct e as [[| |]| | |]; try contradiction. split; auto.
    destruct (loop_complete _ _ _ _ Hl (Hw d) (or_intror eq_refl)) as (H1 & _). auto.
Qed.
