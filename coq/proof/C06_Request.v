(* C06 - proofs about the request phase in front of the relay (model/C06_Request.v) *)
From Hy Require Import lib.Bytes model.C06_Relay model.C06_Request proof.C06_Relay gen.ParamsC06.
From Coq Require Import List NArith ZArith Bool Lia.
Import ListNotations.
Local Open Scope N_scope.

Section Req.
  Variable read_req : bytes -> option (bytes * bytes).
  Variable write_req : bytes -> bytes.
  Hypothesis exact : forall addr rest, read_req (write_req addr ++ rest) = Some (addr, rest).

  Lemma up_input_exact addr payload : up_input read_req (client_stream write_req addr payload) = Some payload.
  Proof. unfold up_input, client_stream. rewrite exact. reflexivity. Qed.

  Lemma target_prefix_of_client m tr s addr payload :
    exec (init m) tr = Some s -> wok_tr tr -> serves read_req (client_stream write_req addr payload) tr ->
    exists rest, payload = snkb Up tr ++ rest.
  Proof.
    intros He Hw Hs. unfold serves in Hs. rewrite up_input_exact in Hs. destruct Hs as [later Hl].
    destruct (run_prefix m tr s Up He Hw) as [r Hr]. exists (r ++ later). rewrite Hl, Hr, app_assoc. reflexivity.
  Qed.

  Lemma target_gets_all_of_client m tr s addr payload :
    exec (init m) tr = Some s -> wok_tr tr -> serves_all read_req (client_stream write_req addr payload) tr ->
    (pcof s Up = PRet GNil \/ pcof s Up = PDone GNil) ->
    snkb Up tr = payload /\ (m = Logged -> logged Up tr = blen payload).
  Proof.
    intros He Hw Hs Hp. unfold serves_all in Hs. rewrite up_input_exact in Hs. injection Hs as Hs.
    destruct (run_complete m tr s Up He Hw Hp) as (H1 & H2 & _). split.
    - rewrite <- H1. auto.
    - intros Hm. rewrite (H2 Hm), <- H1, <- Hs. reflexivity.
  Qed.
End Req.

(* the hypothesis `exact` is needed: a parser that reports the right address but reads ahead *)
Definition ra_frame : bytes := [x01; x61; x00].       (* any three bytes standing for a request frame *)
Definition ra_payload : bytes := [x68; x69].
Definition ra_run : list act :=
  [AReadReq true; ADial None; AWriteResp true Connected; ALoop Up (LRead CopyBufSize [] EEOF)].

Lemma read_ahead_loses_payload :
  exists (read_req : bytes -> option (bytes * bytes)) (write_req : bytes -> bytes) addr payload tr s,
    (forall rest, exists left, read_req (write_req addr ++ rest) = Some (addr, left)) /\
    exec (init Logged) tr = Some s /\ wok_tr tr /\
    serves_all read_req (client_stream write_req addr payload) tr /\
    pcof s Up = PRet GNil /\ snkb Up tr = [] /\ payload <> [] /\ logged Up tr = 0.
Proof.
  exists (greedy_read_req 3), (fun _ => ra_frame), ra_frame, ra_payload, ra_run.
  assert (He : exists s, exec (init Logged) ra_run = Some s /\ pcof s Up = PRet GNil).
  { eexists. split; [vm_compute; reflexivity | reflexivity]. }
  destruct He as (s & He & Hp). exists s.
  split; [|split; [|split; [|split; [|split; [|split; [|split]]]]]].
  - intros rest. exists []. reflexivity.
  - exact He.
  - intros d. destruct d; cbn; repeat constructor.
  - reflexivity.
  - exact Hp.
  - reflexivity.
  - unfold ra_payload. discriminate.
  - reflexivity.
Qed.
