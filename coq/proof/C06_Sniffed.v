(* C06 - proofs about the relay of a sniffed connection (model/C06_Sniffed.v): the sniffer's transparency
   (proof/C17_Sniff.v: replay ++ unread = sent, for every script) composed with the hooked path of handleTCPRequest
   (proof/C06_Hook.v: the target holds a prefix of putback ++ what the Up loop read): the target's stream is a prefix of
   the client's stream - whatever the chunking, wherever a deadline fires or the stream ends - and the whole of it once
   the Up direction has returned nil; and a sniffer that hands back fewer bytes than it consumed leaves a hole. *)
From Hy Require Import lib.Bytes lib.Res model.C06_Relay proof.C06_Relay model.C06_E2E proof.C06_E2E model.C06_Hook proof.C06_Hook
  model.C17_Sniff proof.C17_Sniff model.C06_Sniffed gen.ParamsC06.
From Coq Require Import List NArith ZArith Bool Lia.
Import ListNotations.
Local Open Scope N_scope.

Definition is_hook (a : hact) : bool := match a with XHookTCP _ => true | _ => false end.

Lemma hputback_no_hook tr : existsb is_hook tr = false -> hputback tr = [].
Proof.
  induction tr as [|a t IH]; [reflexivity|]. cbn [existsb]. intros H. apply orb_false_iff in H as [Ha Ht].
  unfold hputback in *. cbn [flat_map]. rewrite (IH Ht). destruct a; try reflexivity. discriminate.
Qed.

Lemma relay_no_hook m t tx0 s q r : hexec false m (HRelay tx0 s) t = Some q -> ~ In (XHookTCP r) t.
Proof.
  intros Ht Hi. destruct (hexec_relay _ _ _ _ _ Ht) as (s' & _ & _ & T). rewrite T in Hi.
  apply in_map_iff in Hi as (x & Hx & _). discriminate.
Qed.

Ltac kill_in H := apply in_firstn' in H; cbn in H; repeat (destruct H as [H|H]; [discriminate|]); contradiction.

(* in a run from the start the hook is called at most once: what it returned is the run's putback *)
Lemma hputback_of_hook m tr p r : hexec false m HReadReq tr = Some p -> In (XHookTCP r) tr ->
  hputback tr = match r with Some pb => pb | None => [] end.
Proof.
  intros He Hin.
  assert (Hrel : forall t tx0 q, hexec false m (HRelay tx0 (relay_init m)) t = Some q -> ~ In (XHookTCP r) t).
  { intros t tx0 q Ht. exact (relay_no_hook _ _ _ _ _ _ Ht). }
  destruct (run_hshape _ _ _ He) as [k ->|k ->|pb msg k ->|msg k ->|k ->|pb k _ ->|t -> Ht|t -> Ht|pb nw t Hne -> Ht].
  - apply in_firstn' in Hin. cbn in Hin. repeat (destruct Hin as [Hin|Hin]; [discriminate|]). contradiction.
  - destruct k as [|[|[|[|k]]]]; cbn in Hin; try (repeat (destruct Hin as [Hin|Hin]; [discriminate|]); contradiction).
    destruct Hin as [X|[X|[X|[X|Hin]]]]; try discriminate; [|kill_in Hin]. inversion X; subst r.
    destruct k as [|k]; cbn; rewrite ?firstn_nil; reflexivity.
  - destruct k as [|[|[|[|k]]]]; cbn in Hin; try (repeat (destruct Hin as [Hin|Hin]; [discriminate|]); contradiction).
    destruct Hin as [X|[X|[X|[X|Hin]]]]; try discriminate; [|kill_in Hin]. inversion X; subst r.
    destruct k as [|[|[|k]]]; cbn; rewrite ?firstn_nil, ?app_nil_r; reflexivity.
  - apply in_firstn' in Hin. cbn in Hin. repeat (destruct Hin as [Hin|Hin]; [discriminate|]). contradiction.
  - apply in_firstn' in Hin. cbn in Hin. repeat (destruct Hin as [Hin|Hin]; [discriminate|]). contradiction.
  - destruct k as [|[|[|[|k]]]]; cbn in Hin; try (repeat (destruct Hin as [Hin|Hin]; [discriminate|]); contradiction).
    destruct Hin as [X|[X|[X|[X|Hin]]]]; try discriminate; [|kill_in Hin]. inversion X; subst r.
    destruct k as [|[|k]]; cbn; rewrite ?firstn_nil, ?app_nil_r; reflexivity.
  - exfalso. cbn in Hin. repeat (destruct Hin as [Hin|Hin]; [discriminate|]). exact (Hrel _ _ _ Ht Hin).
  - cbn in Hin. destruct Hin as [X|[X|[X|[X|[X|Hin]]]]]; try discriminate.
    + inversion X; subst r. rewrite !hputback_app. rewrite (hexec_no_putback _ _ _ _ _ Ht). reflexivity.
    + exfalso. exact (Hrel _ _ _ Ht Hin).
  - cbn in Hin. destruct Hin as [X|[X|[X|[X|[X|[X|Hin]]]]]]; try discriminate.
    + inversion X; subst r. rewrite !hputback_app. rewrite (hexec_no_putback _ _ _ _ _ Ht). cbn. rewrite ?app_nil_r. reflexivity.
    + exfalso. exact (Hrel _ _ _ Ht Hin).
Qed.

Lemma existsb_hook_in tr : existsb is_hook tr = true -> exists r, In (XHookTCP r) tr.
Proof.
  intros H. apply existsb_exists in H as (a & Hin & Ha). destruct a; try discriminate. eauto.
Qed.

(* the client's stream, as the run saw it: what the hook handed back followed by what the Up loop read is the head of it *)
Lemma sniffed_stream fuel consumer sni s addr o m tr p :
  first_read_big consumer -> sniff_tcp fuel consumer sni false s addr = Ok o ->
  hexec false m HReadReq tr = Some p -> sniffed_over o s tr ->
  exists later, hputback tr ++ srcb Up (relay_part tr) ++ later = c17_unread s.
Proof.
  intros Hb Hs He [Hh [later Hl]].
  destruct (tcp_transparent _ _ _ _ _ _ _ Hb Hs) as [Tok Terr].
  change (fun a => match a with XHookTCP _ => true | _ => false end) with is_hook in Hl.
  destruct (existsb is_hook tr) eqn:Ex.
  - destruct (existsb_hook_in _ Ex) as [r Hin]. pose proof (Hh _ Hin) as Hr.
    rewrite (hputback_of_hook _ _ _ _ He Hin), Hr. unfold hook_result. destruct (o_err o) eqn:Eo.
    + (* the sniffer refused the stream: the run has no relay *)
      destruct (Terr eq_refl) as (_ & Hrep & _).
      assert (Hn : relay_part tr = []).
      { subst r. unfold hook_result in Hin. rewrite Eo in Hin.
        destruct (run_hshape _ _ _ He) as [k E|k E|pb msg k E|msg k E|k E|pb k _ E|t E Ht|t E Ht|pb nw t Hne E Ht]; subst tr.
        - destruct k as [|[|[|k]]]; reflexivity.
        - destruct k as [|[|[|[|[|[|k]]]]]]; reflexivity.
        - exfalso. apply in_firstn' in Hin. cbn in Hin. repeat (destruct Hin as [Hin|Hin]; [discriminate|]). contradiction.
        - destruct k as [|[|[|[|[|[|k]]]]]]; reflexivity.
        - destruct k as [|[|[|[|k]]]]; reflexivity.
        - exfalso. apply in_firstn' in Hin. apply in_app_or in Hin. cbn in Hin.
          destruct Hin as [Hin|Hin]; repeat (destruct Hin as [Hin|Hin]; [discriminate|]); contradiction.
        - exfalso. cbn in Hin. repeat (destruct Hin as [Hin|Hin]; [discriminate|]).
          exact (relay_no_hook _ _ _ _ _ _ Ht Hin).
        - exfalso. cbn in Hin. repeat (destruct Hin as [Hin|Hin]; [discriminate|]).
          exact (relay_no_hook _ _ _ _ _ _ Ht Hin).
        - exfalso. cbn in Hin. repeat (destruct Hin as [Hin|Hin]; [discriminate|]).
          exact (relay_no_hook _ _ _ _ _ _ Ht Hin). }
      exists (c17_unread s). rewrite Hn. cbn. reflexivity.
    + exists later. rewrite <- (Tok eq_refl), <- Hl. reflexivity.
  - exists later. rewrite (hputback_no_hook _ Ex). cbn. exact Hl.
Qed.

(* Up on a sniffed connection: the target holds a prefix of the client's stream *)
Lemma sniffed_target_prefix fuel consumer sni s addr o m tr p :
  first_read_big consumer -> sniff_tcp fuel consumer sni false s addr = Ok o ->
  hexec false m HReadReq tr = Some p -> wok_tr (relay_part tr) -> putback_accepted tr -> sniffed_over o s tr ->
  exists rest, c17_unread s = htarget_in tr ++ rest.
Proof.
  intros Hb Hs He Hw Hp Hso.
  destruct (sniffed_stream _ _ _ _ _ _ _ _ _ Hb Hs He Hso) as [later Hl].
  destruct (hooked_target_prefix _ _ _ He Hw Hp) as [rest Hr].
  exists (rest ++ later). rewrite <- Hl, app_assoc, Hr, <- app_assoc. reflexivity.
Qed.

(* ... and the whole of it once the Up direction has read the client's stream to its end and returned nil *)
Lemma sniffed_target_whole fuel consumer sni s addr o m tr tx0 st :
  first_read_big consumer -> sniff_tcp fuel consumer sni false s addr = Ok o ->
  hexec false m HReadReq tr = Some (HRelay tx0 st) -> wok_tr (relay_part tr) -> putback_accepted tr -> sniffed_over o s tr ->
  (pcof st Up = PRet GNil \/ pcof st Up = PDone GNil) ->
  exists later, c17_unread s = htarget_in tr ++ later /\
    (* nothing of what the sniffer and the Up loop took off the stream is missing: `later` was never read by the server *)
    hputback tr ++ srcb Up (relay_part tr) = htarget_in tr.
Proof.
  intros Hb Hs He Hw Hp Hso Hret.
  destruct (sniffed_stream _ _ _ _ _ _ _ _ _ Hb Hs He Hso) as [later Hl].
  destruct (relay_of_run (fun _ _ => []) _ _ _ _ He) as (Ex & _ & (nw & _ & Ht)).
  destruct (accept_run_streams (fun _ _ => []) (relay_part tr)) as (_ & _ & A3).
  assert (Hw' : wok_tr (accept_run ++ relay_part tr)) by (intros d; rewrite A3; apply Hw).
  destruct (run_complete _ _ _ Up Ex Hw' Hret) as (Hc & _).
  unfold srcb, snkb in Hc. rewrite !A3 in Hc. fold (srcb Up (relay_part tr)) in Hc. fold (snkb Up (relay_part tr)) in Hc.
  assert (Hfull : wrote (hputback tr) nw = hputback tr).
  { destruct (hputback tr) as [|b pb] eqn:Epb; [unfold wrote; apply firstn_nil|].
    (* a non-empty putback was written by the XPutback action of the run *)
    destruct (run_hshape _ _ _ He) as [k E|k E|pb0 msg k E|msg k E|k E|pb0 k Hc0 E|t E Ht0|t E Ht0|pb0 nw0 t Hne E Ht0].
    1-6: exfalso; apply (f_equal (hexec false m HReadReq)) in E; rewrite He in E.
    - destruct k as [|[|[|k]]]; cbn in E; discriminate.
    - destruct k as [|[|[|[|[|[|k]]]]]]; cbn in E; discriminate.
    - destruct k as [|[|[|[|[|[|[|k]]]]]]]; cbn in E; discriminate.
    - destruct k as [|[|[|[|[|[|k]]]]]]; cbn in E; rewrite ?beqb_refl in E; cbn in E; discriminate.
    - destruct k as [|[|[|[|k]]]]; cbn in E; discriminate.
    - destruct k as [|[|[|[|[|k]]]]]; cbn in E; try discriminate.
      destruct Hc0 as [Hc0|Hc0]; [lia|]. destruct pb0; [contradiction|]. destruct k; cbn in E; discriminate.
    - subst tr. rewrite !hputback_app, (hexec_no_putback _ _ _ _ _ Ht0) in Epb. discriminate.
    - subst tr. rewrite !hputback_app, (hexec_no_putback _ _ _ _ _ Ht0) in Epb. discriminate.
    - subst tr. rewrite !hputback_app, (hexec_no_putback _ _ _ _ _ Ht0) in Epb. cbn in Epb. rewrite ?app_nil_r in Epb. subst pb0.
      rewrite !htarget_in_app in Ht. cbn in Ht. rewrite ?app_nil_r in Ht.
      change (relay_part (hooked_prefix (b :: pb) ++ [XDial None; XPutback (b :: pb) nw0] ++ t)) with (relay_part t) in Ht.
      destruct (relay_phase_out (fun _ _ => []) _ _ _ _ _ (relay_init_relaying m) Ht0) as (s' & _ & _ & _ & O2 & _).
      rewrite O2 in Ht. apply app_inv_tail in Ht.
      assert (Hn : wrote (b :: pb) nw0 = b :: pb).
      { apply wrote_full. apply (Hp (b :: pb) nw0). apply in_or_app. right. cbn. right. left. reflexivity. }
      rewrite <- Ht. exact Hn. }
  exists later. split.
  - rewrite <- Hl, Ht, Hfull, Hc, <- app_assoc. reflexivity.
  - rewrite Ht, Hfull, Hc. reflexivity.
Qed.

(* ------------------------------------------------------------------ the sniffer must hand back all it consumed *)
(* the concrete run: the deadline fires 2 bytes into the body of a 300-byte record; the code's sniffer hands back all 7
   bytes it consumed and the target receives the client's stream; the variant that hands back 2 bytes fewer is accepted
   by the same handler, keeps every contract of the relay (writer contract, accounting) and leaves a hole: what the
   target received is not a prefix of what the client sent *)
Lemma sx_sniffed :
  exists o, sniff_tcp 0 sx_consumer sx_sni false sx_script sx_addr = Ok o /\ o_err o = false /\
    o_replay o = sx_head /\ c17_unread (o_rest o) = sx_late /\ o_addr o = sx_addr /\
    c17_unread sx_script = sx_head ++ sx_late.
Proof. eexists. split; [vm_compute; reflexivity|]. repeat split. Qed.

Lemma sx_run_ok : exists st, hexec false Logged HReadReq (sx_run sx_head) = Some (HRelay 7 st) /\ par st = QDone /\
  pcof st Up = PDone GNil /\ htarget_in (sx_run sx_head) = sx_head ++ sx_late /\ wok_tr (relay_part (sx_run sx_head)) /\
  putback_accepted (sx_run sx_head).
Proof.
  eexists. split; [vm_compute; reflexivity|]. split; [reflexivity|]. split; [reflexivity|]. split; [reflexivity|].
  split.
  - intros d. destruct d; cbn; repeat constructor; cbn; try lia; intros; try lia.
  - intros c nw Hin. cbn in Hin. repeat (destruct Hin as [Hin|Hin]; [try discriminate|]); try contradiction.
    inversion Hin; subst. cbn. lia.
Qed.

Lemma short_putback_leaves_a_hole :
  exists o st, sniff_tcp 0 sx_consumer sx_sni false sx_script sx_addr = Ok o /\
    let pb := o_replay (short_out 2 o) in
    hexec false Logged HReadReq (sx_run pb) = Some (HRelay 5 st) /\ par st = QDone /\ pcof st Up = PDone GNil /\
    wok_tr (relay_part (sx_run pb)) /\ putback_accepted (sx_run pb) /\
    hputback (sx_run pb) = pb /\ srcb Up (relay_part (sx_run pb)) = c17_unread (o_rest (short_out 2 o)) /\
    htarget_in (sx_run pb) = [x16; x03; x01; x01; x2c] ++ sx_late /\
    ~ exists rest, c17_unread sx_script = htarget_in (sx_run pb) ++ rest.
Proof.
  eexists. eexists. split; [vm_compute; reflexivity|]. cbv zeta.
  split; [vm_compute; reflexivity|]. split; [reflexivity|]. split; [reflexivity|].
  split.
  { intros d. destruct d; cbn; repeat constructor; cbn; try lia; intros; try lia. }
  split.
  { intros c nw Hin. vm_compute in Hin. repeat (destruct Hin as [Hin|Hin]; [try discriminate|]); try contradiction.
    inversion Hin; subst. cbn. lia. }
  split; [reflexivity|]. split; [reflexivity|]. split; [reflexivity|].
  intros [rest H]. vm_compute in H. discriminate.
Qed.

(* non-vacuity: the hypotheses of the two theorems hold of the concrete run, and the target received the client's stream *)
Lemma sx_example : first_read_big sx_consumer /\
  exists o st, sniff_tcp 0 sx_consumer sx_sni false sx_script sx_addr = Ok o /\
    hexec false Logged HReadReq (sx_run sx_head) = Some (HRelay 7 st) /\ pcof st Up = PDone GNil /\
    wok_tr (relay_part (sx_run sx_head)) /\ putback_accepted (sx_run sx_head) /\ sniffed_over o sx_script (sx_run sx_head) /\
    htarget_in (sx_run sx_head) = c17_unread sx_script.
Proof.
  split; [exact I|].
  destruct sx_run_ok as (st & He & _ & Hp & Ht & Hw & Hpb).
  eexists. exists st. split; [vm_compute; reflexivity|]. split; [exact He|]. split; [exact Hp|]. split; [exact Hw|].
  split; [exact Hpb|]. split; [|rewrite Ht; reflexivity].
  split.
  - intros r Hin. cbn in Hin. repeat (destruct Hin as [Hin|Hin]; [try discriminate|]); try contradiction.
    inversion Hin; subst. reflexivity.
  - exists []. vm_compute. reflexivity.
Qed.
