(* C07 proofs for model/C07_Birth.v.
   BirthP: inductive invariant of the one-entry LTS (any idle timeout, any start clock, any schedule of receive loop,
   sweeper, reply loop, final cleanup and clock), with udp.go:60 as it is (stamp_at_birth = true); the refutation of
   the same statements for the neighbouring design (stamp_at_birth = false).
   LocksP: threads that follow the discipline never deadlock on m.mutex and finish; the functions of udp.go follow it;
   a cleanup that re-acquires the read lock deadlocks with one writer. *)
From Hy Require Import model.C07_Birth.
From Coq Require Import NArith Arith PeanoNat List Bool Lia ZifyBool ZifyN.
Import ListNotations.
Local Open Scope N_scope.

Module BirthP.
Import Birth.

Inductive reachable (timeout : N) (sab : bool) (t0 : N) (more : nat) : bst -> Prop :=
| R_init : reachable timeout sab t0 more (binit t0 more)
| R_step s a s' : reachable timeout sab t0 more s -> bstep timeout sab s a = Some s' -> reachable timeout sab t0 more s'.

Lemma reachable_run timeout sab t0 more s acts s' :
  reachable timeout sab t0 more s -> brun timeout sab s acts = Some s' -> reachable timeout sab t0 more s'.
Proof.
  intros R. revert s R. induction acts as [|a t IH]; simpl; intros s R H.
  - inversion H; subst; auto.
  - destruct (bstep timeout sab s a) as [b|] eqn:E; try discriminate. apply (IH b); auto. eapply R_step; eauto.
Qed.

Section Inv.
Variable timeout : N.

Definition rl_final (p : brl) : bool := match p with BSnap | BF1 | BF2 | BF3 | BStop | BDone => true | _ => false end.
Definition rl_c23 (p : brl) : bool := match p with BC2 | BC3 => true | _ => false end.
Definition rl_owns (p : brl) : bool :=
  match p with BCreated _ | BFeed _ | BInit | BWrite | BC1 | BC2 | BC3 | BF1 | BF2 | BF3 => true | _ => false end.
Definition rl_created (p : brl) : bool := match p with BCreated _ => true | _ => false end.
Definition rl_unborn (p : brl) : bool := match p with BWait0 | BNew _ => true | _ => false end.
Definition rl_stopping (p : brl) : bool := match p with BStop | BDone => true | _ => false end.

(* threads between part 1 of CloseWithErr and logger.Close / between part 1 and the end of the table delete *)
Definition prl2 (p : brl) : N := match p with BC2 | BF2 => 1 | _ => 0 end.
Definition psw2 (p : bsw) : N := match p with SC2 => 1 | _ => 0 end.
Definition prp2 (p : brp) : N := match p with QC2 => 1 | _ => 0 end.
Definition drl (p : brl) : N := match p with BC2 | BC3 | BF2 | BF3 => 1 | _ => 0 end.
Definition dsw (p : bsw) : N := match p with SC2 | SC3 => 1 | _ => 0 end.
Definition drp (p : brp) : N := match p with QC2 | QC3 => 1 | _ => 0 end.
Definition pend (s : bst) : N := prl2 (b_rl s) + psw2 (b_sw s) + prp2 (b_rp s).
Definition deleters (s : bst) : N := drl (b_rl s) + dsw (b_sw s) + drp (b_rp s).

(* more than the idle timeout has passed since the entry was created *)
Definition old (s : bst) : Prop := match b_born s with Some t => t + timeout < b_now s | None => False end.
Definition stamped (s : bst) : Prop := match b_born s with Some t => t <= b_last s /\ b_last s <= b_now s | None => True end.

Record Inv (s : bst) : Prop := mkInv {
  j0 : b_born s = None -> b_vis s = false /\ b_closed s = false /\ rl_owns (b_rl s) = false /\ b_rp s = QNone /\
                          sw_selected s = false /\ b_sock s = false;
  j1 : rl_unborn (b_rl s) = true -> b_born s = None;
  j2 : rl_created (b_rl s) = true -> b_closed s = false /\ b_vis s = false;
  j3 : stamped s;
  j4 : sw_selected s = true \/ o_nil_early s = true -> old s;
  j5 : rl_final (b_rl s) = true -> b_lost s = true;
  j6 : b_closed s = true -> b_sock s = true \/ old s \/ rl_c23 (b_rl s) = true \/ (b_rl s = BIdle /\ b_vis s = false) \/ rl_final (b_rl s) = true;
  j7 : b_rp s <> QNone -> b_sock s = true;
  j8 : b_rl s = BInit -> b_sock s = false;
  j9 : o_closes s + pend s = b2 (b_closed s);
  j10 : b_vis s = true -> b_closed s = true -> 1 <= deleters s;
  j11 : rl_stopping (b_rl s) = true -> b_vis s = true -> b_closed s = true;
  j12 : b_born s <> None -> rl_created (b_rl s) = false -> b_vis s = true \/ b_closed s = true;
  j13 : (drl (b_rl s) = 1 -> b_closed s = true) /\ (dsw (b_sw s) = 1 -> b_closed s = true) /\ (drp (b_rp s) = 1 -> b_closed s = true);
  j14 : rl_created (b_rl s) = true -> sw_selected s = false /\ b_rp s = QNone }.

Lemma inv_init t0 more : Inv (binit t0 more).
Proof.
  constructor; unfold binit, old, stamped, pend, deleters, sw_selected; simpl; intros; try tauto; try congruence; try lia.
Qed.

Local Opaque N.add N.sub N.mul.

Lemma inv_step sab s a s' : sab = true -> Inv s -> bstep timeout sab s a = Some s' -> Inv s'.
Proof.
  intros -> [H0 H1 H2 H3 H4 H5 H6 H7 H8 H9 H10 H11 H12 H13 H14] St.
  destruct s as [now born last vis closed sock rl sw rp lost stopped more oh onw od odk ow one onl oe oc].
  unfold old, stamped, pend, deleters, sw_selected in *; simpl in *.
  destruct a; simpl in St;
    repeat match type of St with
           | context [match ?x with _ => _ end] => destruct x eqn:?; try discriminate St
           end;
    injection St as <-;
    (constructor; unfold old, stamped, pend, deleters, sw_selected, idle, set_rl, set_sw, set_rp, set_now, set_last, set_born, set_vis,
       set_closed, set_sock, set_lost, set_stopped, set_more, obs_dial, obs_write, obs_nil, obs_err in *; simpl in *; intros;
     subst; simpl in *);
    try (clear H0 H1 H2 H3 H4 H5 H6 H7 H8 H9 H10 H11 H12 H13 H14; congruence);
    repeat rewrite andb_true_iff in *; repeat rewrite andb_false_iff in *;
    try (destruct born; simpl in *);
    try solve [ intuition (try congruence; try lia) ].
  Show.
Abort.

End Inv.
End BirthP.
