(* C07 proofs for model/C07_Birth.v, part 2.
   BirthT: the statements about one entry's life (with udp.go:60 as it is), from the invariant of proof/C07_BirthInv.v, and
   their refutation for the neighbouring design (stamp_at_birth = false).
   LocksP: threads that follow the discipline never deadlock on m.mutex and finish; the functions of udp.go follow it;
   a cleanup that re-acquires the read lock deadlocks with one writer. *)
From Hy Require Import model.C07_Birth proof.C07_BirthInv.
From Coq Require Import NArith Arith PeanoNat List Bool Lia ZifyBool ZifyN.
Import ListNotations.
Local Open Scope N_scope.

Module BirthT.
Import Birth BirthP.
Section T.
Variable timeout : N.

(* ---- the statements of props/C07.v ---- *)

(* an entry that is visible in the table was created, and its Last is no older than its creation *)
Lemma visible_is_stamped t0 more s : reachable timeout true t0 more s -> b_vis s = true ->
  exists t, b_born s = Some t /\ t <= b_last s /\ b_last s <= b_now s.
Proof.
  intros R V. destruct (inv_reachable timeout _ _ _ R) as [H0 _ _ H3 _ _ _ _ _ _ _].
  unfold K0, K3, stamped in *. destruct (b_born s) as [t|].
  - exists t; tauto.
  - destruct (H0 eq_refl) as [E _]. congruence.
Qed.

(* the scan of cleanup(true) selects the entry only when more than the idle timeout has passed since its creation *)
Lemma scan_selects_only_old t0 more s s' : reachable timeout true t0 more s -> bstep timeout true s AScan = Some s' ->
  b_sw s' = SC1 -> exists t, b_born s = Some t /\ t + timeout < b_now s.
Proof.
  intros R St E. assert (R' : reachable timeout true t0 more s') by (eapply R_step; eauto).
  destruct (inv_reachable timeout _ _ _ R') as [_ _ _ _ H4 _ _ _ _ _ _].
  assert (Hn : b_now s' = b_now s /\ b_born s' = b_born s).
  { unfold bstep in St. destruct (b_sw s); try discriminate. injection St as <-. split; reflexivity. }
  unfold K4, old, sw_selected in H4. rewrite E in H4. destruct Hn as [Hn1 Hn2]. rewrite Hn1, Hn2 in H4.
  specialize (H4 (or_introl eq_refl)).
  destruct (b_born s) as [t|]; [exists t; auto | contradiction].
Qed.

(* while no more than the idle timeout has passed since the creation: the sweeper is not closing the entry and has not
   reported it closed; before the creation likewise *)
Lemma young_not_swept t0 more s : reachable timeout true t0 more s ->
  (forall t, b_born s = Some t -> b_now s <= t + timeout -> sw_selected s = false /\ o_nil_early s = false) /\
  (b_born s = None -> sw_selected s = false /\ o_nil_early s = false).
Proof.
  intros R. destruct (inv_reachable timeout _ _ _ R) as [H0 _ _ _ H4 _ _ _ _ _ _]. unfold K0, K4, old in *. split.
  - intros t E L. rewrite E in H4.
    destruct (sw_selected s) eqn:E1, (o_nil_early s) eqn:E2; auto;
      exfalso; (assert (t + timeout < b_now s) by (apply H4; auto)); lia.
  - intros E. destruct (H0 E) as (_ & _ & _ & _ & A & _ & B). auto.
Qed.

(* the datagram that created the entry is not dropped: when the receive loop reaches initConn within the idle timeout of the
   creation, the entry is open, so "session is closed" is not a possible outcome and the hook is called next *)
Lemma first_datagram_reaches_hook t0 more s t : reachable timeout true t0 more s ->
  b_rl s = BInit -> b_born s = Some t -> b_now s <= t + timeout ->
  b_closed s = false /\ bstep timeout true s AInitClosed = None /\
  (forall a s', bstep timeout true s a = Some s' -> b_rl s' <> BInit -> o_hook s' = true).
Proof.
  intros R E B L. destruct (inv_reachable timeout _ _ _ R) as [_ _ _ _ _ _ H6 H7 _ _ _].
  assert (C : b_closed s = false).
  { destruct (b_closed s) eqn:C; auto. exfalso. unfold K6, K7, old in *. rewrite B, E in *.
    destruct (H6 eq_refl) as [X|[X|[X|[[X _]|X]]]]; try discriminate; try lia.
    destruct H7 as [_ H7]. rewrite (H7 eq_refl) in X. discriminate. }
  split; auto. split.
  - unfold bstep. rewrite E, C. reflexivity.
  - intros a s' St NE. destruct a; unfold bstep in St; rewrite ?E, ?C in St; try discriminate;
      try (injection St as <-; reflexivity);
      try (exfalso; apply NE;
           repeat match type of St with context [match ?x with _ => _ end] => destruct x; try discriminate St end;
           injection St as <-; simpl; auto; fail).
Qed.

(* exactly one Close event: never more than one, and exactly one once everything has returned (if the entry was created);
   nothing is left in the table then *)
Lemma one_close_event t0 more s : reachable timeout true t0 more s ->
  o_closes s <= 1 /\
  (terminal s = true -> b_vis s = false /\ (b_born s <> None -> b_closed s = true /\ o_closes s = 1)).
Proof.
  intros R. destruct (inv_reachable timeout _ _ _ R) as [_ _ _ _ _ _ _ _ H9 H10 _]. unfold K9, K10, pend, deleters in *.
  split.
  - destruct (b_closed s); unfold b2 in H9; lia.
  - unfold terminal. intros T. apply andb_prop in T. destruct T as [T T3]. apply andb_prop in T. destruct T as [T1 T2].
    destruct (b_rl s) eqn:E1; try discriminate. destruct (b_sw s) eqn:E2; try discriminate.
    destruct H10 as (A & B & C). simpl in *.
    assert (V : b_vis s = false).
    { destruct (b_vis s) eqn:V; auto. specialize (B eq_refl eq_refl). specialize (A eq_refl B).
      destruct (b_rp s); try discriminate; simpl in A; lia. }
    split; auto. intros NB. destruct (C NB eq_refl) as [X|X]; [congruence|].
    split; auto. rewrite X in H9. destruct (b_rp s); try discriminate; simpl in H9; unfold b2 in H9; lia.
Qed.

End T.
End BirthT.
