(* C07 proofs for model/C07_Birth.v, part 2.
   BirthT: the statements about one entry's life (with udp.go:60 as it is), from the invariant of proof/C07_BirthInv.v, and
   their refutation for the neighbouring design (stamp_at_birth = false).
   LocksP: threads that follow the discipline never deadlock on m.mutex and finish; the functions of udp.go follow it;
   a cleanup that re-acquires the read lock deadlocks with one writer. *)
From Hy Require Import model.C07_Birth proof.C07_BirthInv.
From Coq Require Import NArith Arith PeanoNat List Bool Lia ZifyBool ZifyN.
Import ListNotations.
Local Open Scope N_scope.

Module BirthT.
Import Birth BirthP.
Section T.
Variable timeout : N.

(* ---- the statements of props/C07.v ---- *)

(* an entry that is visible in the table was created, and its Last is no older than its creation *)
Lemma visible_is_stamped t0 more s : reachable timeout true t0 more s -> b_vis s = true ->
  exists t, b_born s = Some t /\ t <= b_last s /\ b_last s <= b_now s.
Proof.
  intros R V. destruct (inv_reachable timeout _ _ _ R) as [H0 _ _ H3 _ _ _ _ _ _ _].
  unfold K0, K3, stamped in *. destruct (b_born s) as [t|].
  - exists t; tauto.
  - destruct (H0 eq_refl) as [E _]. congruence.
Qed.

(* the scan of cleanup(true) selects the entry only when more than the idle timeout has passed since its creation *)
Lemma scan_selects_only_old t0 more s s' : reachable timeout true t0 more s -> bstep timeout true s AScan = Some s' ->
  b_sw s' = SC1 -> exists t, b_born s = Some t /\ t + timeout < b_now s.
Proof.
  intros R St E. assert (R' : reachable timeout true t0 more s') by (eapply R_step; eauto).
  destruct (inv_reachable timeout _ _ _ R') as [_ _ _ _ H4 _ _ _ _ _ _].
  assert (Hn : b_now s' = b_now s /\ b_born s' = b_born s).
  { unfold bstep in St. destruct (b_sw s); try discriminate. injection St as <-. split; reflexivity. }
  unfold K4, old, sw_selected in H4. rewrite E in H4. destruct Hn as [Hn1 Hn2]. rewrite Hn1, Hn2 in H4.
  specialize (H4 (or_introl eq_refl)).
  destruct (b_born s) as [t|]; [exists t; auto | contradiction].
Qed.

(* while no more than the idle timeout has passed since the creation: the sweeper is not closing the entry and has not
   reported it closed; before the creation likewise *)
Lemma young_not_swept t0 more s : reachable timeout true t0 more s ->
  (forall t, b_born s = Some t -> b_now s <= t + timeout -> sw_selected s = false /\ o_nil_early s = false) /\
  (b_born s = None -> sw_selected s = false /\ o_nil_early s = false).
Proof.
  intros R. destruct (inv_reachable timeout _ _ _ R) as [H0 _ _ _ H4 _ _ _ _ _ _]. unfold K0, K4, old in *. split.
  - intros t E L. rewrite E in H4.
    destruct (sw_selected s) eqn:E1, (o_nil_early s) eqn:E2; auto;
      exfalso; (assert (t + timeout < b_now s) by (apply H4; auto)); lia.
  - intros E. destruct (H0 E) as (_ & _ & _ & _ & A & _ & B). auto.
Qed.

(* the datagram that created the entry is not dropped: when the receive loop reaches initConn within the idle timeout of the
   creation, the entry is open, so "session is closed" is not a possible outcome and the hook is called next *)
Lemma first_datagram_reaches_hook t0 more s t : reachable timeout true t0 more s ->
  b_rl s = BInit -> b_born s = Some t -> b_now s <= t + timeout ->
  b_closed s = false /\ bstep timeout true s AInitClosed = None /\
  (forall a s', bstep timeout true s a = Some s' -> b_rl s' <> BInit -> o_hook s' = true).
Proof.
  intros R E B L. destruct (inv_reachable timeout _ _ _ R) as [_ _ _ _ _ _ H6 H7 _ _ _].
  assert (C : b_closed s = false).
  { destruct (b_closed s) eqn:C; auto. exfalso. unfold K6, K7, old in *. rewrite B, E in *.
    destruct (H6 C) as [X|[X|[X|[[X _]|X]]]]; try discriminate; try lia.
    destruct H7 as [_ H7]. rewrite (H7 eq_refl) in X. discriminate. }
  split; auto. split.
  - unfold bstep. rewrite E, C. reflexivity.
  - intros a s' St NE. destruct a; unfold bstep in St; rewrite ?E, ?C in St; try discriminate;
      try (injection St as <-; reflexivity);
      try (exfalso; apply NE;
           repeat match type of St with context [match ?x with _ => _ end] => destruct x; try discriminate St end;
           injection St as <-; simpl; auto; fail).
Qed.

(* exactly one Close event: never more than one, and exactly one once everything has returned (if the entry was created);
   nothing is left in the table then *)
Lemma one_close_event t0 more s : reachable timeout true t0 more s ->
  o_closes s <= 1 /\
  (terminal s = true -> b_vis s = false /\ (b_born s <> None -> b_closed s = true /\ o_closes s = 1)).
Proof.
  intros R. destruct (inv_reachable timeout _ _ _ R) as [_ _ _ _ _ _ _ _ H9 H10 _]. unfold K9, K10, pend, deleters in *.
  split.
  - destruct (b_closed s); unfold b2 in H9; lia.
  - unfold terminal. intros T. apply andb_prop in T. destruct T as [T T3]. apply andb_prop in T. destruct T as [T1 T2].
    destruct (b_rl s) eqn:E1; try discriminate. destruct (b_sw s) eqn:E2; try discriminate.
    destruct H10 as (A & B & C). simpl in *.
    assert (V : b_vis s = false).
    { destruct (b_vis s) eqn:V; auto. specialize (B eq_refl eq_refl). specialize (A eq_refl B).
      destruct (b_rp s); try discriminate; simpl in A; lia. }
    split; auto. intros NB. destruct (C NB eq_refl) as [X|X]; [congruence|].
    split; auto. rewrite X in H9. destruct (b_rp s); try discriminate; simpl in H9; unfold b2 in H9; lia.
Qed.

End T.
End BirthT.

(* ---- the neighbouring design: Last is left at the zero time by newUDPSessionEntry and stamped by Feed ---- *)
Module BirthR.
Import Birth BirthP.

(* Whatever the idle timeout (below the start clock, i.e. below some 2000 years): a sweep that scans between the table
   insert and Feed's first statement closes the entry at the very instant of its creation; its datagram is dropped
   ("session is closed": no hook, no New, no dial), a Close(nil) is reported for a session that never had a New. *)
Definition killed_at_birth : list bact :=
  [ARecv true; ALookup; ACreate; AInsert; AScan; ASwC1; ASwC2; ASwC3; AStampF; AInitClosed].

Lemma stamped_by_feed_refuted timeout t0 : timeout < t0 ->
  exists s, brun timeout false (binit t0 0) killed_at_birth = Some s /\ reachable timeout false t0 0 s /\
            b_now s = t0 /\ b_born s = Some t0 /\ b_rl s = BIdle /\ b_vis s = false /\
            o_nil_early s = true /\ o_hook s = false /\ o_new s = false /\ o_write s = false.
Proof.
  intros L.
  assert (I : (timeout <? t0 - 0) = true) by (apply N.ltb_lt; lia).
  assert (E : exists s, brun timeout false (binit t0 0) killed_at_birth = Some s /\
            b_now s = t0 /\ b_born s = Some t0 /\ b_rl s = BIdle /\ b_vis s = false /\
            o_nil_early s = true /\ o_hook s = false /\ o_new s = false /\ o_write s = false).
  { unfold killed_at_birth, binit. cbv -[N.ltb N.sub]. rewrite I.
    eexists. split; [reflexivity|]. cbv. repeat split; reflexivity. }
  destruct E as (s & R & rest). exists s. split; auto. split; auto.
  eapply reachable_run; [apply R_init | exact R].
Qed.

(* the same schedule on the code as it is: the scan does not select the entry, the datagram reaches the hook *)
Lemma same_schedule_on_the_code timeout t0 :
  exists s, brun timeout true (binit t0 0) [ARecv true; ALookup; ACreate; AInsert; AScan; AStampF; ADialOk; AWriteF] = Some s /\
            b_sw s = SIdle /\ b_vis s = true /\ b_closed s = false /\ o_hook s = true /\ o_new s = true /\ o_write s = true /\
            o_nil_early s = false.
Proof.
  assert (I : (timeout <? t0 - t0) = false) by (apply N.ltb_ge; lia).
  unfold binit. cbv -[N.ltb N.sub]. rewrite I.
  eexists. split; [reflexivity|]. cbv. repeat split; reflexivity.
Qed.

End BirthR.

(* ====================================================================================================== *)

Module LocksP.
Import Locks.
Local Open Scope nat_scope.

Definition ok_thread (th : thread) : Prop :=
  match t_r th, t_w th with
  | 0, WNo => flat_from MOut (t_prog th) = true
  | 1, WNo => flat_from MRead (t_prog th) = true
  | 0, WAnn => exists p, t_prog th = LW :: p /\ flat_from MWrite p = true
  | 0, WHeld => flat_from MWrite (t_prog th) = true
  | _, _ => False
  end.

Definition ok (ths : list thread) : Prop := Forall ok_thread ths.

(* ---- list plumbing ---- *)
Lemma nth_upd_eq {A} i (x y : A) l : nth_error l i = Some y -> nth_error (upd i x l) i = Some x.
Proof. revert i; induction l as [|h t IH]; intros [|i]; simpl; intros H; try discriminate; auto. Qed.

Lemma Forall_upd {A} (P : A -> Prop) i x l : Forall P l -> P x -> Forall P (upd i x l).
Proof.
  intros F Px. revert i. induction F as [|h t Ph Ft IH]; intros [|i]; simpl; auto.
Qed.

Lemma find_thread (P : thread -> bool) ths : existsb P ths = true -> exists i th, nth_error ths i = Some th /\ P th = true.
Proof.
  intros H. apply existsb_exists in H. destruct H as (th & I & Pt). apply In_nth_error in I. destruct I as [i I]. eauto.
Qed.

Lemma none_thread (P : thread -> bool) ths th : existsb P ths = false -> In th ths -> P th = false.
Proof.
  intros H I. destruct (P th) eqn:E; auto. assert (existsb P ths = true) by (apply existsb_exists; eauto). congruence.
Qed.

Definition holdsW th := match t_w th with WHeld => true | _ => false end.
Definition holdsR th := match t_r th with O => false | _ => true end.
Definition annW th := match t_w th with WAnn => true | _ => false end.
Definition busy th := match t_prog th with [] => false | _ => true end.

Lemma readers_zero ths : existsb holdsR ths = false -> readers ths = 0.
Proof.
  induction ths as [|h t IH]; simpl; auto. intros H. apply orb_false_iff in H. destruct H as [H1 H2].
  unfold holdsR in H1. destruct (t_r h); try discriminate. simpl. auto.
Qed.

Lemma wbusy_false ths : existsb holdsW ths = false -> existsb annW ths = false -> wbusy ths = false.
Proof.
  unfold wbusy. induction ths as [|h t IH]; simpl; auto. intros H1 H2.
  apply orb_false_iff in H1. apply orb_false_iff in H2. destruct H1 as [A1 A2], H2 as [B1 B2].
  rewrite IH; auto. unfold holdsW, annW in *. destruct (t_w h); try discriminate; auto.
Qed.

Lemma all_done_false ths : all_done ths = false -> existsb busy ths = true.
Proof.
  unfold all_done. induction ths as [|h t IH]; simpl; try discriminate. intros H.
  unfold busy at 1. destruct (t_prog h); simpl in *; auto.
Qed.

(* ---- progress: a state in which every thread follows the discipline is never stuck ---- *)
Lemma progress ths : ok ths -> all_done ths = false -> exists i ths', lstep ths i = Some ths'.
Proof.
  intros O ND. unfold ok in O. rewrite Forall_forall in O.
  destruct (existsb holdsW ths) eqn:EW.
  { destruct (find_thread _ _ EW) as (i & th & N & P). exists i. unfold lstep. rewrite N.
    assert (K := O th (nth_error_In _ _ N)). unfold ok_thread, holdsW in *.
    destruct (t_w th) eqn:W; try discriminate. destruct (t_r th) as [|[|k]]; try contradiction.
    destruct (t_prog th) as [|[] p]; simpl in K; try discriminate; eauto. }
  destruct (existsb holdsR ths) eqn:ER.
  { destruct (find_thread _ _ ER) as (i & th & N & P). exists i. unfold lstep. rewrite N.
    assert (K := O th (nth_error_In _ _ N)). assert (NW := none_thread _ _ th EW (nth_error_In _ _ N)).
    unfold ok_thread, holdsR, holdsW in *.
    destruct (t_r th) as [|[|k]] eqn:Rd; try discriminate; destruct (t_w th) eqn:W; try contradiction; try discriminate.
    destruct (t_prog th) as [|[] p]; simpl in K; try discriminate; eauto. }
  assert (RZ := readers_zero _ ER).
  destruct (existsb annW ths) eqn:EA.
  { destruct (find_thread _ _ EA) as (i & th & N & P). exists i. unfold lstep. rewrite N.
    assert (K := O th (nth_error_In _ _ N)). unfold ok_thread, annW in *.
    destruct (t_w th) eqn:W; try discriminate. destruct (t_r th) as [|[|k]]; try contradiction.
    destruct K as (p & -> & _). rewrite RZ. eauto. }
  assert (WB := wbusy_false _ EW EA).
  destruct (find_thread _ _ (all_done_false _ ND)) as (i & th & N & P). exists i. unfold lstep. rewrite N.
  assert (I := nth_error_In _ _ N). assert (K := O th I).
  assert (N1 := none_thread _ _ th EW I). assert (N2 := none_thread _ _ th ER I). assert (N3 := none_thread _ _ th EA I).
  unfold ok_thread, holdsW, holdsR, annW, busy in *.
  destruct (t_r th); try discriminate. destruct (t_w th); try discriminate.
  destruct (t_prog th) as [|[] p]; simpl in K; try discriminate; rewrite ?WB; eauto.
Qed.

(* ---- the discipline is kept by every step ---- *)
Lemma ok_step ths i ths' : ok ths -> lstep ths i = Some ths' -> ok ths'.
Proof.
  unfold ok. intros O St. unfold lstep in St. destruct (nth_error ths i) as [th|] eqn:N; try discriminate.
  assert (K : ok_thread th) by (rewrite Forall_forall in O; apply O; eapply nth_error_In; eauto).
  unfold ok_thread in K.
  destruct (t_prog th) as [|op p] eqn:Pg; try discriminate.
  destruct op.
  - destruct (wbusy ths); try discriminate. injection St as <-. apply Forall_upd; auto. unfold ok_thread; simpl.
    destruct (t_r th) as [|[|k]], (t_w th); simpl in K; try contradiction; try discriminate; auto.
    destruct K as (q & E & _); discriminate.
  - destruct (t_r th) as [|k] eqn:Rd; try discriminate. injection St as <-. apply Forall_upd; auto. unfold ok_thread; simpl.
    destruct k as [|k], (t_w th); simpl in K; try contradiction; try discriminate; auto.
  - destruct (t_w th) eqn:W.
    + destruct (wbusy ths); try discriminate. injection St as <-. apply Forall_upd; auto. unfold ok_thread; simpl.
      destruct (t_r th) as [|[|k]]; simpl in K; try contradiction; try discriminate. eauto.
    + destruct (readers ths); try discriminate. injection St as <-. apply Forall_upd; auto. unfold ok_thread; simpl.
      destruct (t_r th) as [|[|k]]; try contradiction. destruct K as (q & E & F). injection E as <-. auto.
    + discriminate.
  - destruct (t_w th) eqn:W; try discriminate. injection St as <-. apply Forall_upd; auto. unfold ok_thread; simpl.
    destruct (t_r th) as [|[|k]]; simpl in K; try contradiction; try discriminate; auto.
  - injection St as <-. apply Forall_upd; auto. unfold ok_thread; simpl.
    destruct (t_r th) as [|[|k]], (t_w th); simpl in K; try contradiction; auto.
    destruct K as (q & E & _); discriminate.
Qed.

Lemma ok_run ths sched ths' : ok ths -> lrun ths sched = Some ths' -> ok ths'.
Proof.
  revert ths. induction sched as [|i t IH]; simpl; intros ths O H.
  - injection H as <-; auto.
  - destruct (lstep ths i) as [x|] eqn:E; try discriminate. apply (IH x); auto. eapply ok_step; eauto.
Qed.

Lemma ok_start progs : Forall (fun p => flat p = true) progs -> ok (start progs).
Proof.
  unfold ok, start. induction 1; simpl; constructor; auto.
Qed.

(* ---- every step uses up work ---- *)
Lemma measure_upd ths i th th' : nth_error ths i = Some th -> measure (upd i th' ths) + weight th = measure ths + weight th'.
Proof.
  revert i. induction ths as [|h t IH]; intros [|i] H; simpl in *; try discriminate.
  - injection H as ->. lia.
  - specialize (IH _ H). lia.
Qed.

Lemma step_decreases ths i ths' : lstep ths i = Some ths' -> measure ths' < measure ths.
Proof.
  unfold lstep. destruct (nth_error ths i) as [th|] eqn:N; try discriminate.
  destruct (t_prog th) as [|op p] eqn:Pg; try discriminate. intros St.
  assert (W : forall th', ths' = upd i th' ths -> weight th' < weight th -> measure ths' < measure ths).
  { intros th' -> L. pose proof (measure_upd ths i th th' N). lia. }
  destruct op.
  - destruct (wbusy ths); try discriminate. injection St as E. eapply W; [symmetry; exact E|].
    unfold weight; simpl. rewrite Pg. simpl. destruct (t_w th); lia.
  - destruct (t_r th); try discriminate. injection St as E. eapply W; [symmetry; exact E|].
    unfold weight; simpl. rewrite Pg. simpl. destruct (t_w th); lia.
  - destruct (t_w th) eqn:Wp.
    + destruct (wbusy ths); try discriminate. injection St as E. eapply W; [symmetry; exact E|].
      unfold weight; simpl. rewrite Pg, Wp. simpl. lia.
    + destruct (readers ths); try discriminate. injection St as E. eapply W; [symmetry; exact E|].
      unfold weight; simpl. rewrite Pg, Wp. simpl. lia.
    + discriminate.
  - destruct (t_w th) eqn:Wp; try discriminate. injection St as E. eapply W; [symmetry; exact E|].
    unfold weight; simpl. rewrite Pg, Wp. simpl. lia.
  - injection St as E. eapply W; [symmetry; exact E|].
    unfold weight; simpl. rewrite Pg. simpl. destruct (t_w th); lia.
Qed.

Lemma run_bounded ths sched ths' : lrun ths sched = Some ths' -> length sched + measure ths' <= measure ths.
Proof.
  revert ths. induction sched as [|i t IH]; simpl; intros ths H.
  - injection H as <-. lia.
  - destruct (lstep ths i) as [x|] eqn:E; try discriminate. specialize (IH _ H). pose proof (step_decreases _ _ _ E). lia.
Qed.

Lemma lrun_app ths s1 s2 ths1 ths2 : lrun ths s1 = Some ths1 -> lrun ths1 s2 = Some ths2 -> lrun ths (s1 ++ s2) = Some ths2.
Proof.
  revert ths. induction s1 as [|i t IH]; simpl; intros ths H1 H2.
  - injection H1 as <-. auto.
  - destruct (lstep ths i); try discriminate. eauto.
Qed.

(* from any state that follows the discipline, everybody can finish *)
Lemma can_finish ths : ok ths -> exists sched ths', lrun ths sched = Some ths' /\ all_done ths' = true.
Proof.
  remember (measure ths) as n eqn:E. revert ths E. induction n as [n IH] using lt_wf_ind. intros ths E O.
  destruct (all_done ths) eqn:D.
  - exists [], ths. auto.
  - destruct (progress ths O D) as (i & x & St).
    pose proof (step_decreases _ _ _ St) as L.
    destruct (IH (measure x) ltac:(lia) x eq_refl (ok_step _ _ _ O St)) as (sc & y & R & F).
    exists (i :: sc), y. simpl. rewrite St. auto.
Qed.

(* ---- the functions of udp.go follow the discipline ---- *)
Lemma flat_from_app m p q : flat_from m p = true -> flat_from m (p ++ q) = flat q.
Proof.
  revert m. induction p as [|op p IH]; intros m H; simpl in *.
  - destruct m; try discriminate. reflexivity.
  - destruct op, m; try discriminate; auto.
Qed.

Lemma closes_flat k : flat (closes k) = true.
Proof. induction k; simpl; auto. Qed.

Lemma code_prog_flat p : code_prog p -> flat p = true.
Proof.
  induction 1; try reflexivity.
  - unfold cleanup_prog. unfold flat. rewrite (flat_from_app MOut [LR; Lt; Lt; Lr]); [apply closes_flat | reflexivity].
  - unfold flat. rewrite flat_from_app; auto.
Qed.

Lemma nested_not_flat k : flat (cleanup_nested k) = false.
Proof. reflexivity. Qed.

(* ---- statements ---- *)
Lemma no_deadlock progs sched ths : Forall code_prog progs -> lrun (start progs) sched = Some ths -> deadlocked ths = false.
Proof.
  intros C R. assert (O : ok ths).
  { eapply ok_run; [|exact R]. apply ok_start. eapply Forall_impl; [|exact C]. apply code_prog_flat. }
  unfold deadlocked. destruct (all_done ths) eqn:D; simpl; auto.
  destruct (progress ths O D) as (i & x & St).
  assert (E : enabled ths = true).
  { unfold enabled. apply existsb_exists. exists i. split.
    - apply in_seq. unfold lstep in St. destruct (nth_error ths i) eqn:N; try discriminate.
      assert (i < length ths) by (apply nth_error_Some; congruence). lia.
    - rewrite St. auto. }
  rewrite E. reflexivity.
Qed.

Lemma all_finish progs sched ths : Forall code_prog progs -> lrun (start progs) sched = Some ths ->
  length sched <= measure (start progs) /\
  exists sched' ths', lrun ths sched' = Some ths' /\ all_done ths' = true.
Proof.
  intros C R. split.
  - pose proof (run_bounded _ _ _ R). lia.
  - apply can_finish. eapply ok_run; [|exact R]. apply ok_start. eapply Forall_impl; [|exact C]. apply code_prog_flat.
Qed.

(* nobody ever holds m.mutex twice, and nobody asks for it while holding it *)
Definition asks (th : thread) : bool := match t_prog th with LR :: _ | LW :: _ => true | _ => false end.
Lemma never_nested progs sched ths : Forall code_prog progs -> lrun (start progs) sched = Some ths ->
  Forall (fun th => t_r th <= 1 /\ (t_r th = 1 -> t_w th = WNo /\ asks th = false) /\ (t_w th = WHeld -> t_r th = 0 /\ asks th = false)) ths.
Proof.
  intros C R. assert (O : ok ths).
  { eapply ok_run; [|exact R]. apply ok_start. eapply Forall_impl; [|exact C]. apply code_prog_flat. }
  eapply Forall_impl; [|exact O]. intros th K. unfold ok_thread, asks in *.
  destruct (t_r th) as [|[|k]], (t_w th); try contradiction; repeat split; try lia; try congruence; intros;
    try discriminate; destruct (t_prog th) as [|[] p]; simpl in K; try discriminate; auto; try lia.
Qed.

(* the neighbouring design deadlocks: the sweeper holds the read lock, the receive loop asks for the write lock to insert
   a new session, the sweeper's Count() asks for the read lock again *)
Lemma nested_rlock_deadlocks :
  exists sched ths, lrun (start [cleanup_nested 0; feed_miss]) sched = Some ths /\ deadlocked ths = true /\ all_done ths = false.
Proof. exists [0; 1; 1; 1; 1; 1]. eexists. split; [reflexivity|]. split; reflexivity. Qed.

(* ... and so does the final cleanup against a reply loop that is ending its session *)
Lemma nested_rlock_deadlocks_exit :
  exists sched ths, lrun (start [cleanup_nested 1; reply_exit_prog]) sched = Some ths /\ deadlocked ths = true.
Proof. exists [0; 1; 1; 1]. eexists. split; reflexivity. Qed.

End LocksP.
