(* C07 proofs for model/C07_Birth.v, part 1: the inductive invariant of the one-entry LTS (proof/C07_Birth.v has the statements).
   BirthP: inductive invariant of the one-entry LTS (any idle timeout, any start clock, any schedule of receive loop,
   sweeper, reply loop, final cleanup and clock), with udp.go:60 as it is (stamp_at_birth = true); the refutation of
   the same statements for the neighbouring design (stamp_at_birth = false).
   LocksP: threads that follow the discipline never deadlock on m.mutex and finish; the functions of udp.go follow it;
   a cleanup that re-acquires the read lock deadlocks with one writer. *)
From Hy Require Import model.C07_Birth.
From Coq Require Import NArith Arith PeanoNat List Bool Lia ZifyBool ZifyN.
Import ListNotations.
Local Open Scope N_scope.

Module BirthP.
Import Birth.

Inductive reachable (timeout : N) (sab : bool) (t0 : N) (more : nat) : bst -> Prop :=
| R_init : reachable timeout sab t0 more (binit t0 more)
| R_step s a s' : reachable timeout sab t0 more s -> bstep timeout sab s a = Some s' -> reachable timeout sab t0 more s'.

Lemma reachable_run timeout sab t0 more s acts s' :
  reachable timeout sab t0 more s -> brun timeout sab s acts = Some s' -> reachable timeout sab t0 more s'.
Proof.
  intros R. revert s R. induction acts as [|a t IH]; simpl; intros s R H.
  - inversion H; subst; auto.
  - destruct (bstep timeout sab s a) as [b|] eqn:E; try discriminate. apply (IH b); auto. eapply R_step; eauto.
Qed.

Section Inv.
Variable timeout : N.

Definition rl_final (p : brl) : bool := match p with BSnap | BF1 | BF2 | BF3 | BStop | BDone => true | _ => false end.
Definition rl_c23 (p : brl) : bool := match p with BC2 | BC3 => true | _ => false end.
Definition rl_owns (p : brl) : bool :=
  match p with BCreated _ | BFeed _ | BInit | BWrite | BC1 | BC2 | BC3 | BF1 | BF2 | BF3 => true | _ => false end.
Definition rl_created (p : brl) : bool := match p with BCreated _ => true | _ => false end.
Definition rl_unborn (p : brl) : bool := match p with BWait0 | BNew _ => true | _ => false end.
Definition rl_stopping (p : brl) : bool := match p with BStop | BDone => true | _ => false end.

(* threads between part 1 of CloseWithErr and logger.Close / between part 1 and the end of the table delete *)
Definition prl2 (p : brl) : N := match p with BC2 | BF2 => 1 | _ => 0 end.
Definition psw2 (p : bsw) : N := match p with SC2 => 1 | _ => 0 end.
Definition prp2 (p : brp) : N := match p with QC2 => 1 | _ => 0 end.
Definition drl (p : brl) : N := match p with BC2 | BC3 | BF2 | BF3 => 1 | _ => 0 end.
Definition dsw (p : bsw) : N := match p with SC2 | SC3 => 1 | _ => 0 end.
Definition drp (p : brp) : N := match p with QC2 | QC3 => 1 | _ => 0 end.
Definition pend (s : bst) : N := prl2 (b_rl s) + psw2 (b_sw s) + prp2 (b_rp s).
Definition deleters (s : bst) : N := drl (b_rl s) + dsw (b_sw s) + drp (b_rp s).

(* more than the idle timeout has passed since the entry was created *)
Definition old (s : bst) : Prop := match b_born s with Some t => t + timeout < b_now s | None => False end.
Definition stamped (s : bst) : Prop := match b_born s with Some t => t <= b_last s /\ b_last s <= b_now s | None => True end.

(* the invariant, in layers (each proved from the ones before it) *)
Definition K1 (s : bst) : Prop := rl_unborn (b_rl s) = true -> b_born s = None.
Definition K0 (s : bst) : Prop :=
  b_born s = None -> b_vis s = false /\ b_closed s = false /\ rl_owns (b_rl s) = false /\ b_rp s = QNone /\
                     sw_selected s = false /\ b_sock s = false /\ o_nil_early s = false.
Definition K7 (s : bst) : Prop := (b_rp s <> QNone -> b_sock s = true) /\ (b_rl s = BInit -> b_sock s = false).
Definition K5 (s : bst) : Prop := rl_final (b_rl s) = true -> b_lost s = true.
Definition K3 (s : bst) : Prop := stamped s.
Definition K2 (s : bst) : Prop :=
  rl_created (b_rl s) = true -> b_closed s = false /\ b_vis s = false /\ sw_selected s = false /\ b_rp s = QNone.
Definition K4 (s : bst) : Prop := sw_selected s = true \/ o_nil_early s = true -> old s.
Definition K13 (s : bst) : Prop :=
  (drl (b_rl s) = 1 -> b_closed s = true) /\ (dsw (b_sw s) = 1 -> b_closed s = true) /\ (drp (b_rp s) = 1 -> b_closed s = true).
Definition K9 (s : bst) : Prop := o_closes s + pend s = b2 (b_closed s).
Definition K6 (s : bst) : Prop :=
  b_closed s = true -> b_sock s = true \/ old s \/ rl_c23 (b_rl s) = true \/ (b_rl s = BIdle /\ b_vis s = false) \/ rl_final (b_rl s) = true.
Definition K10 (s : bst) : Prop :=
  (b_vis s = true -> b_closed s = true -> 1 <= deleters s) /\
  (rl_stopping (b_rl s) = true -> b_vis s = true -> b_closed s = true) /\
  (b_born s <> None -> rl_created (b_rl s) = false -> b_vis s = true \/ b_closed s = true).

Ltac step_cases St :=
  match type of St with
  | bstep _ _ ?s ?a = Some _ =>
      destruct s as [now born last vis closed sock rl sw rp lost stopped more oh onw od odk ow one onl oe oc];
      destruct a; simpl in St;
      repeat match type of St with
             | context [match ?x with _ => _ end] => destruct x eqn:?; try discriminate St
             end;
      injection St as <-;
      repeat match goal with
             | H : (_ && _) = true |- _ => apply andb_prop in H; destruct H
             | H : (_ && _) = false |- _ => apply andb_false_iff in H
             end
  end.

Ltac unf :=
  cbv beta iota delta [K0 K1 K2 K3 K4 K5 K6 K7 K9 K10 K13 old stamped pend deleters sw_selected idle set_rl set_sw set_rp set_now
    set_last set_born set_vis set_closed set_sock set_lost set_stopped set_more obs_dial obs_write obs_nil obs_err
    b_now b_born b_last b_vis b_closed b_sock b_rl b_sw b_rp b_lost b_stopped b_more o_hook o_new o_dial o_dialok o_write
    o_nil_early o_nil_late o_err o_closes rl_final rl_c23 rl_owns rl_created rl_unborn rl_stopping prl2 psw2 prp2 drl dsw drp b2 orb andb negb] in *.

Ltac fin0 := unf; try (match goal with b : option N |- _ => destruct b end); intuition congruence.
Ltac fin := unf; try (match goal with b : option N |- _ => destruct b end); intuition (try congruence; try lia).

Lemma k1_step s a s' : K1 s -> bstep timeout true s a = Some s' -> K1 s'.
Proof. intros H St. step_cases St; fin0. Qed.

Lemma k0_step s a s' : K1 s -> K0 s -> bstep timeout true s a = Some s' -> K0 s'.
Proof. intros H1 H St. step_cases St; fin0. Qed.

Lemma k7_step s a s' : K7 s -> bstep timeout true s a = Some s' -> K7 s'.
Proof. intros H St. step_cases St; fin0. Qed.

Lemma k5_step s a s' : K5 s -> bstep timeout true s a = Some s' -> K5 s'.
Proof. intros H St. step_cases St; fin0. Qed.

Lemma k3_step s a s' : K3 s -> bstep timeout true s a = Some s' -> K3 s'.
Proof. intros H St. step_cases St; fin. Qed.

Lemma k2_step s a s' : K1 s -> K0 s -> K2 s -> bstep timeout true s a = Some s' -> K2 s'.
Proof. intros H1 H0 H St. step_cases St; fin0. Qed.

Lemma k4_step s a s' : K1 s -> K0 s -> K3 s -> K5 s -> K4 s -> bstep timeout true s a = Some s' -> K4 s'.
Proof. intros H1 H0 H3 H5 H St. step_cases St; fin. Qed.

Lemma k13_step s a s' : K13 s -> bstep timeout true s a = Some s' -> K13 s'.
Proof. intros H St. step_cases St; fin0. Qed.

Lemma k9_step s a s' : K9 s -> bstep timeout true s a = Some s' -> K9 s'.
Proof. intros H St. step_cases St; unf; try (match goal with b : bool |- _ => destruct b; lia end); try lia. Qed.

Lemma k6_step s a s' : K1 s -> K4 s -> K7 s -> K6 s -> bstep timeout true s a = Some s' -> K6 s'.
Proof. intros H1 H4 H7 H St. step_cases St; fin. Qed.

Lemma k10_step s a s' : K2 s -> K13 s -> K10 s -> bstep timeout true s a = Some s' -> K10 s'.
Proof. intros H2 H13 H St. step_cases St; fin. Qed.

Record Inv (s : bst) : Prop := mkInv {
  i0 : K0 s; i1 : K1 s; i2 : K2 s; i3 : K3 s; i4 : K4 s; i5 : K5 s; i6 : K6 s; i7 : K7 s; i9 : K9 s; i10 : K10 s; i13 : K13 s }.

Lemma inv_init t0 more : Inv (binit t0 more).
Proof. constructor; unfold binit; unf; intuition (try congruence; try lia). Qed.

Lemma inv_step s a s' : Inv s -> bstep timeout true s a = Some s' -> Inv s'.
Proof.
  intros [H0 H1 H2 H3 H4 H5 H6 H7 H9 H10 H13] St. constructor.
  - eapply k0_step; eauto.
  - eapply k1_step; eauto.
  - eapply k2_step; eauto.
  - eapply k3_step; eauto.
  - eapply k4_step; eauto.
  - eapply k5_step; eauto.
  - eapply k6_step; eauto.
  - eapply k7_step; eauto.
  - eapply k9_step; eauto.
  - eapply k10_step; eauto.
  - eapply k13_step; eauto.
Qed.

Lemma inv_reachable t0 more s : reachable timeout true t0 more s -> Inv s.
Proof. induction 1; [apply inv_init | eapply inv_step; eauto]. Qed.

End Inv.
End BirthP.
