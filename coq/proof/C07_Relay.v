(* C07 proofs, reply direction: every datagram ReadFrom returns with a nil error - of ANY length, the empty
   datagram (n = 0) included - is counted as traffic (Last := now) and handed to SendMessage with the entry's
   session id and the same length; nothing else can move a reply loop that holds a datagram.
   udp.go:186-214: after `udpN, rAddr, err := e.conn.ReadFrom(udpBuf)` only `err != nil` leaves the straight line
   to e.Last.Set and sendMessageAutoFrag; udpN is not inspected. *)
From Hy Require Import model.C07_UDPSessions proof.C07_UDPSessions.
From Coq Require Import NArith Arith PeanoNat List Bool Lia.
Import ListNotations.
Local Open Scope N_scope.

Section Relay.
Variable timeout : N.
Notation step := (step timeout).
Notation run := (run timeout).

Ltac dmatch H :=
  repeat match type of H with
         | context [match ?x with _ => _ end] => let E := fresh "E" in destruct x eqn:E; try discriminate H
         end.

(* the reply loop of the entry holds a datagram of n bytes it has read and not yet handed to SendMessage *)
Definition holds (en : entry) (n : N) : Prop := e_pc en = PGot n \/ e_pc en = PSend n.

(* ReadFrom may return a datagram of any length on an open socket: the action is enabled for every n, 0 included *)
Lemma read_any_length s e en k n :
  nth_error (heap s) e = Some en -> e_pc en = PRead -> e_sock en = Some k -> e_closes en = 0%nat ->
  step s (ARead e true n) = Some (set_entry s e (set_pc en (PGot n)), [ERead k true n]).
Proof.
  intros G P K C. simpl. unfold get. rewrite G, P, K, C. reflexivity.
Qed.

(* ... it counts as traffic: the next own action stores Last := now, whatever n ... *)
Lemma stamp_any_length s e en n :
  nth_error (heap s) e = Some en -> e_pc en = PGot n ->
  step s (AStamp e) = Some (set_entry s e (set_pc (set_last en (now s)) (PSend n)), []).
Proof.
  intros G P. simpl. unfold get. rewrite G, P. reflexivity.
Qed.

(* ... and goes to SendMessage with the entry's session id and the same length *)
Lemma send_any_length s e en k n ok :
  nth_error (heap s) e = Some en -> e_pc en = PSend n -> e_sock en = Some k ->
  step s (ASend e ok) = Some (set_entry s e (set_pc en (if ok then PRead else PC1)), [ESend k (e_sid en) ok n]).
Proof.
  intros G P K. simpl. unfold get. rewrite G, P, K. reflexivity.
Qed.

(* ---- the receive loop is inside initConn only for an entry without a socket ---- *)
Definition rinit_ok (s : state) : Prop :=
  match rl s with
  | RInit e _ => forall en, nth_error (heap s) e = Some en -> e_sock en = None
  | _ => True
  end.

Lemma rl_rl_after s cl x e sid : rl (rl_after s cl x) <> RInit e sid.
Proof. unfold rl_after. destruct cl as [[|] [|]]; try destruct x; simpl; discriminate. Qed.

Lemma rl_sw_after s cl : rl (sw_after s cl) = rl s.
Proof. unfold sw_after. destruct cl as [[|] [|]]; reflexivity. Qed.

Lemma close1_sock s e s' won ev e2 en2' :
  close1 s e = Some (s', won, ev) -> nth_error (heap s') e2 = Some en2' ->
  exists en2, nth_error (heap s) e2 = Some en2 /\ e_sock en2' = e_sock en2 /\ e_pc en2' = e_pc en2.
Proof.
  intros H G. apply close1_spec in H. destruct H as (en & Ge & [(_ & -> & _)|(_ & _ & -> & _)]).
  - exists en2'. auto.
  - simpl in G. unfold get in Ge. destruct (Nat.eq_dec e e2) as [->|N].
    + rewrite (nth_upd_eq _ _ _ _ Ge) in G. inversion G; subst. exists en. auto.
    + rewrite nth_upd_neq in G by auto. exists en2'. auto.
Qed.

(* what one step does to an entry that exists afterwards: it existed before with the same socket and pc, unless
   the step is the dial into it, an action of its own reply loop, or the insert that created it *)
Lemma step_entry s a s' ev e en' :
  step s a = Some (s', ev) -> nth_error (heap s') e = Some en' ->
  (exists en, nth_error (heap s) e = Some en /\ e_sock en' = e_sock en /\ e_pc en' = e_pc en) \/
  (a = ADial true /\ exists sid, rl s = RInit e sid) \/
  (exists ok n, a = ARead e ok n) \/ a = AStamp e \/ (exists ok, a = ASend e ok) \/
  (exists x, a = AClose1 (TRP e) x) \/ a = ACloseLog (TRP e) \/ a = ACloseDel (TRP e) \/
  (a = AInsert /\ nth_error (heap s) e = None /\ e_sock en' = None).
Proof.
  destruct a as [sid c| | | | | | |ok|ok| |e0 ok n|e0|e0 ok|t e0|t|t| | | |d]; simpl; intros H G.
  all: try (dmatch H; inversion H; subst; clear H; simpl in G;
            rewrite ?heap_rl_after, ?heap_sw_after in G; simpl in G; unfold get in *).
  all: try (left; eexists; split; [exact G|split; reflexivity]).
  all: try match goal with
       | G0 : nth_error (heap ?s0) ?e1 = Some ?x, G : nth_error (upd ?e1 _ (heap ?s0)) ?e2 = Some _ |- _ =>
           destruct (Nat.eq_dec e1 e2) as [Q|Q];
           [subst; rewrite (nth_upd_eq _ _ _ _ G0) in G; inversion G; subst; clear G
           |rewrite nth_upd_neq in G by auto; left; eexists; split; [exact G|split; reflexivity]]
       end.
  all: try (left; eexists; split; [eassumption|split; reflexivity]).
  all: try (right; left; split; [reflexivity|eexists; eassumption]).
  all: try (right; right; left; eauto; fail).
  all: try (right; right; right; left; reflexivity).
  all: try (right; right; right; right; left; eauto; fail).
  all: try (right; right; right; right; right; right; left; reflexivity).
  all: try (right; right; right; right; right; right; right; left; reflexivity).
  - (* AInsert *)
    destruct (Nat.lt_ge_cases e (length (heap s))) as [L|L].
    + left. rewrite nth_error_app1 in G by auto. eexists; split; [exact G|split; reflexivity].
    + do 8 right. split; [reflexivity|]. split; [now apply nth_error_None|].
      rewrite nth_error_app2 in G by auto. destruct (e - length (heap s))%nat as [|[|m]]; simpl in G; try discriminate.
      now inversion G.
  - (* ADial true *) right; left. split; [reflexivity|]. eexists; reflexivity.
  - (* AClose1 TRL *) left. apply closer_c1_spec in E1. destruct E1 as (won & C & _). eapply close1_sock; eauto.
  - (* AClose1 TSW *) left. apply closer_c1_spec in E1. destruct E1 as (won & C & _). eapply close1_sock; eauto.
  - (* AClose1 (TRP e0) e0, won *)
    apply Nat.eqb_eq in E0. subst e1. destruct (Nat.eq_dec e0 e) as [->|Q].
    + do 5 right. left. eexists; reflexivity.
    + left. rewrite nth_upd_neq in G by auto. eapply close1_sock; eauto.
  - (* AClose1 (TRP e0) e0, lost *)
    apply Nat.eqb_eq in E0. subst e1. destruct (Nat.eq_dec e0 e) as [->|Q].
    + do 5 right. left. eexists; reflexivity.
    + left. rewrite nth_upd_neq in G by auto. eapply close1_sock; eauto.
  - (* ACloseDel TRL *) left. unfold closer_del in E1. dmatch E1. inversion E1; subst. simpl in G. eexists; split; [exact G|split; reflexivity].
  - (* ACloseDel TSW *) left. unfold closer_del in E1. dmatch E1. inversion E1; subst. simpl in G. eexists; split; [exact G|split; reflexivity].
Qed.

Lemma close1_rl s e s' won ev : close1 s e = Some (s', won, ev) -> rl s' = rl s.
Proof.
  intros H. apply close1_spec in H. destruct H as (en & _ & [(_ & -> & _)|(_ & _ & -> & _)]); reflexivity.
Qed.

(* how the receive loop gets to RInit e: through AFeed on an entry without a socket, or it was there already *)
Lemma step_rinit s a s' ev e sid :
  step s a = Some (s', ev) -> rl s' = RInit e sid ->
  (rl s = RInit e sid /\ a <> ADial true) \/
  (a = AFeed /\ forall en', nth_error (heap s') e = Some en' -> e_sock en' = None).
Proof.
  destruct a as [sid0 c| | | | | | |ok|ok| |e0 ok n|e0|e0 ok|t e0|t|t| | | |d]; simpl; intros H R.
  all: dmatch H; inversion H; subst; clear H; simpl in R; unfold get in *.
  all: try (exfalso; eapply rl_rl_after; exact R).
  all: rewrite ?rl_sw_after in R; simpl in R.
  all: try discriminate R.
  all: try (left; split; [assumption|discriminate]).
  all: try (left; split; [congruence|discriminate]).
  - (* AFeed *) right. split; [reflexivity|]. inversion R; subst. simpl. intros en' G.
    rewrite (nth_upd_eq _ _ _ _ E0) in G. inversion G; subst. exact E2.
  - (* AClose1 TSW *) left. split; [|discriminate].
    match goal with H : closer_c1 _ _ _ = Some _ |- _ => apply closer_c1_spec in H; destruct H as (won & C & _) end.
    now rewrite <- (close1_rl _ _ _ _ _ C).
  - left. split; [|discriminate]. simpl in R.
    match goal with H : close1 _ _ = Some _ |- _ => now rewrite <- (close1_rl _ _ _ _ _ H) end.
  - left. split; [|discriminate]. simpl in R.
    match goal with H : close1 _ _ = Some _ |- _ => now rewrite <- (close1_rl _ _ _ _ _ H) end.
  - (* ACloseDel TSW *) left. split; [|discriminate].
    match goal with H : closer_del _ _ = Some _ |- _ => unfold closer_del in H; dmatch H; inversion H; subst end. exact R.
Qed.

Lemma step_rinit_ok s a s' ev : rinit_ok s -> step s a = Some (s', ev) -> rinit_ok s'.
Proof.
  intros I H. unfold rinit_ok. destruct (rl s') as [| | | |e sid| | | |] eqn:R; auto.
  intros en' G. destruct (step_rinit _ _ _ _ _ _ H R) as [[R0 ND]|[_ F]]; [|now apply F].
  unfold rinit_ok in I. rewrite R0 in I.
  destruct (step_entry _ _ _ _ _ _ H G) as [(en & G0 & K & _)|[[-> _]|[(ok & n & ->)|[->|[(ok & ->)|[(x & ->)|[->|[->|(-> & N0 & K)]]]]]]]].
  - rewrite K. now apply I.
  - congruence.
  - (* own actions of the reply loop of e: they need a socket-holding pc, the entry has none; they keep the socket *)
    simpl in H. unfold get in H. dmatch H; inversion H; subst; clear H; simpl in G;
      rewrite (nth_upd_eq _ _ _ _ E) in G; inversion G; subst; simpl; now apply I.
  - simpl in H. unfold get in H. dmatch H; inversion H; subst; clear H; simpl in G;
      rewrite (nth_upd_eq _ _ _ _ E) in G; inversion G; subst; simpl; now apply I.
  - simpl in H. unfold get in H. dmatch H; inversion H; subst; clear H; simpl in G;
      rewrite (nth_upd_eq _ _ _ _ E) in G; inversion G; subst; simpl; now apply I.
  - (* AClose1 (TRP e) x *)
    simpl in H. unfold get in H. dmatch H; inversion H; subst; clear H; simpl in G.
    all: match goal with E0 : (_ =? _)%nat = true |- _ => apply Nat.eqb_eq in E0; subst end.
    all: match goal with G0 : nth_error (heap ?s0) ?e1 = Some ?y, G : nth_error (upd ?e1 _ (heap ?s0)) ?e1 = Some _ |- _ =>
           rewrite (nth_upd_eq _ _ _ _ G0) in G; inversion G; subst; simpl end.
    all: match goal with C : close1 _ _ = Some _, G0 : nth_error (heap ?s0) _ = Some ?y |- e_sock ?y = None =>
           destruct (close1_sock _ _ _ _ _ _ _ C G0) as (en2 & G2 & K2 & _); rewrite K2; now apply I end.
  - simpl in H. unfold get in H. dmatch H; inversion H; subst; clear H; simpl in G;
      rewrite (nth_upd_eq _ _ _ _ E) in G; inversion G; subst; simpl; now apply I.
  - simpl in H. unfold get in H. dmatch H; inversion H; subst; clear H; simpl in G;
      rewrite (nth_upd_eq _ _ _ _ E) in G; inversion G; subst; simpl; now apply I.
  - discriminate ND || (exfalso; simpl in H; rewrite R0 in H; discriminate H).
Qed.

Lemma run_rinit_ok acts : forall s s' tr, rinit_ok s -> run s acts = Some (s', tr) -> rinit_ok s'.
Proof.
  induction acts as [|a t IH]; simpl; intros s s' tr G H.
  - inversion H; subst; auto.
  - destruct (step s a) as [[s1 ev]|] eqn:S; [|discriminate].
    destruct (run s1 t) as [[s2 tr']|] eqn:R; [|discriminate].
    inversion H; subst. eapply IH; [|exact R]. eapply step_rinit_ok; eauto.
Qed.

Lemma reachable_rinit_ok s : reachable timeout s -> rinit_ok s.
Proof. intros (acts & tr & H). eapply run_rinit_ok; [|exact H]. exact I. Qed.

(* A reply loop that holds a datagram (of any length) is moved only by its own two actions: the Last store and
   the SendMessage call.  No other action of any thread changes its program counter or its socket - in
   particular there is no way back to ReadFrom that skips the store or the send. *)
Lemma relay_only_own s a s' ev e en n :
  reachable timeout s -> nth_error (heap s) e = Some en -> holds en n -> step s a = Some (s', ev) ->
  a = AStamp e \/ (exists ok, a = ASend e ok) \/
  (exists en', nth_error (heap s') e = Some en' /\ e_pc en' = e_pc en /\ e_sock en' = e_sock en).
Proof.
  intros R G Hd H.
  destruct (step_hrel _ _ _ _ _ H) as [F _]. destruct (F e en G) as (en' & G' & _).
  destruct (step_entry _ _ _ _ _ _ H G') as [(en0 & G0 & K & P)|[[-> [sid R0]]|[(ok & m & ->)|[->|[(ok & ->)|[(x & ->)|[->|[->|(-> & N0 & _)]]]]]]]].
  - right; right. rewrite G in G0. inversion G0; subst. exists en'. auto.
  - (* the dial goes into an entry without a socket; this one has a reply loop *)
    exfalso. pose proof (reachable_rinit_ok _ R) as RI. unfold rinit_ok in RI. rewrite R0 in RI.
    pose proof (reachable_Inv _ _ R) as (_ & _ & _ & EI). destruct (EI e en G) as [_ PO].
    apply PO in RI; [|exact G]. destruct Hd as [X|X]; congruence.
  - exfalso. simpl in H. unfold get in H. rewrite G in H. destruct Hd as [X|X]; rewrite X in H; discriminate H.
  - now left.
  - right; left. eauto.
  - exfalso. simpl in H. unfold get in H. destruct (Nat.eqb e x) eqn:Q; [|discriminate H].
    apply Nat.eqb_eq in Q. subst x. rewrite G in H. destruct Hd as [X|X]; rewrite X in H; discriminate H.
  - exfalso. simpl in H. unfold get in H. rewrite G in H. destruct Hd as [X|X]; rewrite X in H; discriminate H.
  - exfalso. simpl in H. unfold get in H. rewrite G in H. destruct Hd as [X|X]; rewrite X in H; discriminate H.
  - congruence.
Qed.
End Relay.
