(* C07 proofs (model/C07_UDPSessions.v).  The lemmas at the end carry the statements of props/C07.v.
   Structure: every action changes at most one existing entry, by a composition of four entry-level
   moves (estep), or appends one fresh entry (step_hrel).  Per-entry invariants are then proved on
   estep once; table / program-counter invariants on step. *)
From Hy Require Import model.C07_UDPSessions.
From Coq Require Import NArith Arith PeanoNat List Bool Lia Relations.
Import ListNotations.
Local Open Scope N_scope.

(* ------------------------------------------------------------------ *)
(* list helpers                                                        *)
(* ------------------------------------------------------------------ *)
Lemma upd_length {A} i (x : A) l : length (upd i x l) = length l.
Proof. revert i; induction l as [|h t IH]; intros [|i]; simpl; auto. Qed.

Lemma nth_upd_eq {A} i (x y : A) l : nth_error l i = Some y -> nth_error (upd i x l) i = Some x.
Proof. revert i; induction l as [|h t IH]; intros [|i]; simpl; intros H; try discriminate; auto. Qed.

Lemma nth_upd_neq {A} i j (x : A) l : i <> j -> nth_error (upd i x l) j = nth_error l j.
Proof. revert i j; induction l as [|h t IH]; intros [|i] [|j] H; simpl; auto; congruence. Qed.

Lemma nth_upd_none {A} i j (x : A) l : nth_error l j = None -> nth_error (upd i x l) j = None.
Proof.
  intros H. apply nth_error_None. rewrite upd_length. now apply nth_error_None.
Qed.

Lemma upd_upd {A} i (x y : A) l : upd i x (upd i y l) = upd i x l.
Proof. revert i; induction l as [|h t IH]; intros [|i]; simpl; auto. now rewrite IH. Qed.

(* ------------------------------------------------------------------ *)
(* entry-level moves                                                   *)
(* ------------------------------------------------------------------ *)
Definition has_sock (en : entry) : bool := match e_sock en with Some _ => true | None => false end.

Inductive estep (ns : N) : entry -> entry -> Prop :=
| ES_pc en p : p <> PNone -> e_pc en <> PNone -> estep ns en (set_pc en p)
| ES_last en t : estep ns en (set_last en t)
| ES_dial en : e_closed en = false ->
    estep ns en (mkE (e_sid en) (Some ns) false (e_last en) (e_closes en) PRead)
| ES_close en : e_closed en = false ->
    estep ns en (mkE (e_sid en) (e_sock en) true (e_last en)
                     (match e_sock en with Some _ => S (e_closes en) | None => e_closes en end) (e_pc en)).

Definition erel (ns : N) := clos_refl_trans entry (estep ns).

Definition fresh (en : entry) : Prop :=
  e_sock en = None /\ e_closed en = false /\ e_closes en = 0%nat /\ e_pc en = PNone.

Definition hrel (ns : N) (h h' : list entry) : Prop :=
  (forall e en, nth_error h e = Some en -> exists en', nth_error h' e = Some en' /\ erel ns en en') /\
  (forall e en', nth_error h' e = Some en' -> nth_error h e = None -> fresh en').

Lemma hrel_refl ns h : hrel ns h h.
Proof.
  split.
  - intros e en H. exists en. split; auto. apply rt_refl.
  - intros e en' H1 H2. congruence.
Qed.

Lemma hrel_upd ns h e0 en0 x : nth_error h e0 = Some en0 -> erel ns en0 x -> hrel ns h (upd e0 x h).
Proof.
  intros H0 R. split.
  - intros e en H. destruct (Nat.eq_dec e0 e) as [->|N].
    + exists x. split; [eapply nth_upd_eq; eauto|]. congruence.
    + exists en. split; [rewrite nth_upd_neq; auto | apply rt_refl].
  - intros e en' H1 H2. rewrite nth_upd_none in H1; congruence.
Qed.

Lemma hrel_app ns h en : fresh en -> hrel ns h (h ++ [en]).
Proof.
  intros F. split.
  - intros e x H. exists x. split; [|apply rt_refl]. rewrite nth_error_app1; auto. apply nth_error_Some. congruence.
  - intros e en' H1 H2. apply nth_error_None in H2.
    rewrite nth_error_app2 in H1 by lia. destruct (e - length h)%nat as [|n]; simpl in H1.
    + now inversion H1; subst.
    + destruct n; discriminate.
Qed.

(* ------------------------------------------------------------------ *)
(* every action respects hrel                                          *)
(* ------------------------------------------------------------------ *)
Section Step.
Variable timeout : N.
Notation step := (step timeout).
Notation run := (run timeout).

Lemma close1_spec s e s' won ev : close1 s e = Some (s', won, ev) ->
  exists en, get s e = Some en /\
    ((e_closed en = true /\ s' = s /\ won = false /\ ev = []) \/
     (e_closed en = false /\ won = true /\
      s' = set_entry s e (mkE (e_sid en) (e_sock en) true (e_last en)
                              (match e_sock en with Some _ => S (e_closes en) | None => e_closes en end) (e_pc en)) /\
      ev = match e_sock en with Some k => [EClose k] | None => [] end)).
Proof.
  unfold close1. destruct (get s e) as [en|] eqn:G; [|discriminate].
  destruct (e_closed en) eqn:C; intros H; inversion H; subst; exists en; (split; [auto|]); [left|right]; repeat split; auto.
Qed.

Lemma close1_hrel s e s' won ev : close1 s e = Some (s', won, ev) -> hrel (nsock s) (heap s) (heap s').
Proof.
  intros H. apply close1_spec in H. destruct H as (en & G & [(C & -> & _)|(C & _ & -> & _)]).
  - apply hrel_refl.
  - simpl. eapply hrel_upd; eauto. apply rt_step. now apply ES_close.
Qed.

Lemma closer_c1_spec s cl e s' cl' ev : closer_c1 s cl e = Some (s', cl', ev) ->
  exists won, close1 s e = Some (s', won, ev) /\ snd cl = None /\ cl' = (remove_nat e (fst cl), if won then Some (e, false) else None).
Proof.
  unfold closer_c1. destruct cl as [todo [c|]]; [discriminate|].
  destruct (mem_nat e todo); [|discriminate].
  destruct (close1 s e) as [[[s1 won] ev1]|] eqn:C; [|discriminate].
  intros H; inversion H; subst. exists won. auto.
Qed.

Lemma heap_rl_after s cl x : heap (rl_after s cl x) = heap s.
Proof. unfold rl_after. destruct cl as [[|] [|]]; try destruct x; reflexivity. Qed.
Lemma heap_sw_after s cl : heap (sw_after s cl) = heap s.
Proof. unfold sw_after. destruct cl as [[|] [|]]; reflexivity. Qed.
Lemma nsock_rl_after s cl x : nsock (rl_after s cl x) = nsock s.
Proof. unfold rl_after. destruct cl as [[|] [|]]; try destruct x; reflexivity. Qed.
Lemma nsock_sw_after s cl : nsock (sw_after s cl) = nsock s.
Proof. unfold sw_after. destruct cl as [[|] [|]]; reflexivity. Qed.
Lemma table_rl_after s cl x : table (rl_after s cl x) = table s.
Proof. unfold rl_after. destruct cl as [[|] [|]]; try destruct x; reflexivity. Qed.
Lemma table_sw_after s cl : table (sw_after s cl) = table s.
Proof. unfold sw_after. destruct cl as [[|] [|]]; reflexivity. Qed.

Ltac dmatch H :=
  repeat match type of H with
         | context [match ?x with _ => _ end] => let E := fresh "E" in destruct x eqn:E; try discriminate H
         end.

Lemma step_hrel s a s' ev : step s a = Some (s', ev) -> hrel (nsock s) (heap s) (heap s').
Proof.
  destruct a as [sid c| | | | | | |ok|ok| |e ok|e|e ok|t e|t|t| | | |d]; simpl; intros H.
  all: try (dmatch H; inversion H; subst; clear H; simpl;
            rewrite ?heap_rl_after, ?heap_sw_after; simpl; try apply hrel_refl).
  all: unfold get in *.
  all: try match goal with
       | G : nth_error (heap ?s) ?e = Some ?en |- hrel _ (heap ?s) (upd ?e _ (heap ?s)) =>
           eapply hrel_upd; [exact G|];
           first [ apply rt_step; apply ES_last
                 | apply rt_step; apply ES_dial; assumption
                 | apply rt_step; apply ES_pc; congruence
                 | eapply rt_trans; [apply rt_step, (ES_last _ _ (now s))|]; apply rt_step; apply ES_pc; simpl; congruence ]
       end.
  all: try match goal with
       | H : closer_c1 _ _ _ = Some _ |- _ =>
           apply closer_c1_spec in H; destruct H as (won & C & _); eapply close1_hrel; eauto
       | H : closer_del _ _ = Some _ |- _ =>
           unfold closer_del, get in H; dmatch H; inversion H; subst; simpl; apply hrel_refl
       end.
  - (* AInsert *) apply hrel_app. repeat split.
  - (* AClose1 TRP, won *)
    match goal with H : (_ =? _)%nat = true |- _ => apply Nat.eqb_eq in H; subst end.
    match goal with H : close1 _ _ = Some _ |- _ => apply close1_spec in H;
      destruct H as (en & G & [(C & -> & X & _)|(C & _ & -> & _)]); [discriminate|] end.
    simpl in *. unfold get in G.
    match goal with H : nth_error (upd _ _ _) _ = Some _ |- _ => erewrite nth_upd_eq in H by eauto; inversion H; subst; clear H end.
    rewrite upd_upd. eapply hrel_upd; eauto.
    match goal with H : nth_error (heap s) e = Some ?x |- erel _ ?x _ => idtac end.
    eapply rt_trans; [apply rt_step, ES_close; congruence|]. apply rt_step. apply ES_pc; simpl; congruence.
  - (* AClose1 TRP, lost *)
    match goal with H : (_ =? _)%nat = true |- _ => apply Nat.eqb_eq in H; subst end.
    match goal with H : close1 _ _ = Some _ |- _ => apply close1_spec in H;
      destruct H as (en & G & [(C & -> & _)|(C & X & _)]); [|discriminate] end.
    unfold get in G. eapply hrel_upd; eauto.
    apply rt_step.
    match goal with |- estep _ ?a (set_pc ?b _) => assert (a = b) by congruence; subst end.
    apply ES_pc; congruence.
Qed.
End Step.

(* ------------------------------------------------------------------ *)
(* per-entry invariants                                                *)
(* ------------------------------------------------------------------ *)
Definition closes_ok (en : entry) : Prop :=
  e_closes en = if e_closed en && has_sock en then 1%nat else 0%nat.
Definition pc_ok (en : entry) : Prop := e_pc en = PNone <-> e_sock en = None.
Definition einv (en : entry) : Prop := closes_ok en /\ pc_ok en.

Lemma fresh_einv en : fresh en -> einv en.
Proof.
  intros (A & B & C & D). unfold einv, closes_ok, pc_ok, has_sock. rewrite A, B, C, D. simpl. tauto.
Qed.

Lemma estep_einv ns en en' : estep ns en en' -> einv en -> einv en'.
Proof.
  unfold einv, closes_ok, pc_ok, has_sock. intros H [A B]; inversion H; subst; simpl in *.
  - split; auto. split; intros X; [congruence|]. apply B in X. contradiction.
  - auto.
  - rewrite H0 in A. simpl in A. split; auto. split; discriminate.
  - rewrite H0 in A. simpl in A. rewrite A. split; auto. destruct (e_sock en); auto.
Qed.

Lemma erel_einv ns en en' : erel ns en en' -> einv en -> einv en'.
Proof. induction 1; eauto using estep_einv. Qed.

Lemma estep_keeps ns en en' : estep ns en en' ->
  e_sid en' = e_sid en /\ (e_closed en = true -> e_closed en' = true /\ e_sock en' = e_sock en /\ e_closes en' = e_closes en).
Proof. intros H; inversion H; subst; simpl; split; auto; intros; try congruence; auto. Qed.

Lemma erel_keeps ns en en' : erel ns en en' ->
  e_sid en' = e_sid en /\ (e_closed en = true -> e_closed en' = true /\ e_sock en' = e_sock en /\ e_closes en' = e_closes en).
Proof.
  induction 1.
  - eapply estep_keeps; eauto.
  - auto.
  - destruct IHclos_refl_trans1 as [A B], IHclos_refl_trans2 as [C D]. split; [congruence|].
    intros X. destruct (B X) as (B1 & B2 & B3). destruct (D B1) as (D1 & D2 & D3). repeat split; congruence.
Qed.

(* ------------------------------------------------------------------ *)
(* the table / closed-flag / pending-closer core, on plain functions   *)
(* ------------------------------------------------------------------ *)
Section Core.
Definition Core (tab : list (N * nat)) (n : nat) (f : nat -> N) (c : nat -> bool) (p : nat -> nat) : Prop :=
  (forall sid e, In (sid, e) tab -> (e < n)%nat /\ f e = sid) /\
  NoDup (map fst tab) /\
  (forall e, (e < n)%nat -> c e = false -> In (f e, e) tab /\ p e = 0%nat) /\
  (forall e, (e < n)%nat -> c e = true ->
     (p e = 1%nat /\ In (f e, e) tab) \/ (p e = 0%nat /\ forall sid, ~ In (sid, e) tab)).

Lemma remove_sid_In sid tab x : In x (remove_sid sid tab) <-> In x tab /\ fst x <> sid.
Proof.
  induction tab as [|[k e] t IH]; simpl; [tauto|].
  destruct (k =? sid) eqn:E.
  - apply N.eqb_eq in E. subst. rewrite IH. split; [tauto|]. intros [[<-|H] N]; simpl in *; tauto.
  - apply N.eqb_neq in E. simpl. rewrite IH. split.
    + intros [<-|[H N]]; simpl; auto.
    + intros [[<-|H] N]; auto.
Qed.

Lemma remove_sid_nodup sid tab : NoDup (map fst tab) -> NoDup (map fst (remove_sid sid tab)).
Proof.
  induction tab as [|[k e] t IH]; simpl; intros H; auto.
  inversion H; subst. destruct (k =? sid); auto. simpl. constructor; auto.
  intros X. apply H2. apply in_map_iff in X. destruct X as (x & <- & X). apply remove_sid_In in X.
  apply in_map. tauto.
Qed.

Lemma nodup_fst_inj (tab : list (N * nat)) k a b : NoDup (map fst tab) -> In (k, a) tab -> In (k, b) tab -> a = b.
Proof.
  induction tab as [|[k0 e0] t IH]; simpl; intros H A B; [contradiction|].
  inversion H; subst. destruct A as [A|A], B as [B|B].
  - congruence.
  - inversion A; subst. exfalso. apply H2. change k with (fst (k, b)). now apply in_map.
  - inversion B; subst. exfalso. apply H2. change k with (fst (k, a)). now apply in_map.
  - auto.
Qed.

Lemma core_ext tab n f c p f' c' p' :
  Core tab n f c p -> (forall e, (e < n)%nat -> f' e = f e /\ c' e = c e /\ p' e = p e) -> Core tab n f' c' p'.
Proof.
  intros (A & B & C & D) H. split; [|split; [|split]]; auto.
  - intros sid e I. apply A in I. destruct I as [L <-]. split; auto. now apply H.
  - intros e L E. destruct (H e L) as (X & Y & Z). rewrite X, Z. apply C; congruence.
  - intros e L E. destruct (H e L) as (X & Y & Z). rewrite X, Z. apply D; congruence.
Qed.

Lemma core_close tab n f c p c' p' e :
  Core tab n f c p -> (e < n)%nat -> c e = false -> c' e = true -> p' e = 1%nat ->
  (forall x, x <> e -> c' x = c x /\ p' x = p x) -> Core tab n f c' p'.
Proof.
  intros (A & B & C & D) L E E' P' H. split; [|split; [|split]]; auto.
  - intros e0 L0 E0. destruct (Nat.eq_dec e0 e) as [->|N]; [congruence|]. destruct (H e0 N) as [X Y]. rewrite Y. apply C; congruence.
  - intros x Lx Ex. destruct (Nat.eq_dec x e) as [->|N].
    + left. split; auto. now apply C.
    + destruct (H x N) as [X Y]. rewrite Y. apply D; congruence.
Qed.

Lemma core_del tab n f c p p' e :
  Core tab n f c p -> (e < n)%nat -> c e = true -> p e = 1%nat -> p' e = 0%nat ->
  (forall x, x <> e -> p' x = p x) -> Core (remove_sid (f e) tab) n f c p'.
Proof.
  intros (A & B & C & D) L E P P' H.
  assert (Ine : In (f e, e) tab).
  { destruct (D e L E) as [[_ X]|[X _]]; auto. congruence. }
  assert (K : forall x, x <> e -> (x < n)%nat -> In (f x, x) tab -> In (f x, x) (remove_sid (f e) tab)).
  { intros x N Lx I. apply remove_sid_In. split; auto. simpl. intros Q. apply N.
    rewrite Q in I. eapply nodup_fst_inj; eauto. }
  split; [|split; [|split]].
  - intros sid e0 I. apply remove_sid_In in I. now apply A.
  - now apply remove_sid_nodup.
  - intros e0 L0 E0. destruct (Nat.eq_dec e0 e) as [->|N]; [congruence|]. rewrite (H e0 N). split; [|now apply C].
    apply K; auto. now apply C.
  - intros x Lx Ex. destruct (Nat.eq_dec x e) as [->|N].
    + right. split; auto. intros sid I. apply remove_sid_In in I. destruct I as [I Q]. simpl in Q.
      apply A in I. destruct I. congruence.
    + rewrite (H x N). destruct (D x Lx Ex) as [[X Y]|[X Y]].
      * left. split; auto.
      * right. split; auto. intros sid I. apply remove_sid_In in I. now apply (Y sid).
Qed.

Lemma remove_sid_id sid tab : (forall e, ~ In (sid, e) tab) -> remove_sid sid tab = tab.
Proof.
  induction tab as [|[k e] t IH]; simpl; intros H; auto.
  destruct (k =? sid) eqn:E.
  - apply N.eqb_eq in E. subst. exfalso. apply (H e). now left.
  - f_equal. apply IH. intros x I. apply (H x). now right.
Qed.

Lemma core_insert tab n f c p f' c' p' sid :
  Core tab n f c p -> (forall e, ~ In (sid, e) tab) ->
  f' n = sid -> c' n = false -> p' n = 0%nat ->
  (forall x, (x < n)%nat -> f' x = f x /\ c' x = c x /\ p' x = p x) ->
  Core ((sid, n) :: remove_sid sid tab) (S n) f' c' p'.
Proof.
  intros HC Hno F' C' P' H. rewrite (remove_sid_id _ _ Hno).
  pose proof (core_ext _ _ _ _ _ _ _ _ HC H) as (A & B & C & D). clear HC.
  split; [|split; [|split]].
  - intros k e [X|X]; [inversion X; subst; split; [lia|auto]|]. apply A in X. split; [lia|tauto].
  - simpl. constructor; auto. intros X. apply in_map_iff in X. destruct X as ([k e] & Q & X). simpl in Q. subst.
    now apply (Hno e).
  - intros e Le Ee. destruct (Nat.eq_dec e n) as [->|N]; [split; [left; congruence|auto]|].
    assert (Le' : (e < n)%nat) by lia. destruct (C e Le' Ee). split; auto. now right.
  - intros x Lx Ex. destruct (Nat.eq_dec x n) as [->|N]; [congruence|].
    assert (Lx' : (x < n)%nat) by lia. destruct (D x Lx' Ex) as [[X Y]|[X Y]].
    + left. split; auto. now right.
    + right. split; auto. intros k [I|I]; [inversion I; subst; lia|]. now apply (Y k).
Qed.
End Core.

(* ------------------------------------------------------------------ *)
(* the state invariant                                                 *)
(* ------------------------------------------------------------------ *)
Definition sidf (s : state) (e : nat) : N :=
  match nth_error (heap s) e with Some en => e_sid en | None => 0 end.
Definition closedf (s : state) (e : nat) : bool :=
  match nth_error (heap s) e with Some en => e_closed en | None => true end.
Definition b2n (b : bool) : nat := if b then 1%nat else 0%nat.
Definition cur_is (c : option (nat * bool)) (e : nat) : bool :=
  match c with Some (x, _) => Nat.eqb x e | None => false end.
Definition rl_cur (s : state) : option (nat * bool) := match rl s with RClose cl _ => snd cl | _ => None end.
Definition sw_cur (s : state) : option (nat * bool) := match sw s with SClose cl => snd cl | _ => None end.
Definition pc_pend (en : entry) : bool := match e_pc en with PC2 | PC3 => true | _ => false end.
Definition hp (s : state) (e : nat) : nat :=
  match nth_error (heap s) e with Some en => b2n (pc_pend en) | None => 0%nat end.
(* number of threads that have won part 1 of CloseWithErr on entry e and still owe its part 2 *)
Definition pend (s : state) (e : nat) : nat :=
  (b2n (cur_is (rl_cur s) e) + b2n (cur_is (sw_cur s) e) + hp s e)%nat.

Definition rl_ok (s : state) : Prop :=
  match rl s with
  | RNew sid _ => forall e, ~ In (sid, e) (table s)
  | RFeed e sid _ | RInit e sid | RWrite e sid => (e < length (heap s))%nat /\ sidf s e = sid
  | RClose (todo, _) true => forall e, (e < length (heap s))%nat -> closedf s e = false -> In e todo
  | RDone => forall e, (e < length (heap s))%nat -> closedf s e = true
  | _ => True
  end.

Definition curv (s : state) : Prop :=
  forall e, cur_is (rl_cur s) e = true \/ cur_is (sw_cur s) e = true -> (e < length (heap s))%nat.

Definition all_einv (s : state) : Prop := forall e en, nth_error (heap s) e = Some en -> einv en.

Definition Inv (s : state) : Prop :=
  Core (table s) (length (heap s)) (sidf s) (closedf s) (pend s) /\ curv s /\ rl_ok s /\ all_einv s.

Lemma Inv_init : Inv init.
Proof.
  unfold Inv, init, Core, curv, rl_ok, all_einv; simpl.
  split; [split; [|split; [|split]]|split; [|split]].
  - intros sid e [].
  - constructor.
  - intros e L. inversion L.
  - intros e L. inversion L.
  - intros e [H|H]; discriminate.
  - exact I.
  - intros [|e] en H; discriminate.
Qed.

Definition ptw (s s' : state) : Prop :=
  forall e, (e < length (heap s))%nat -> sidf s' e = sidf s e /\ closedf s' e = closedf s e /\ pend s' e = pend s e.

Definition same_cur (s s' : state) : Prop :=
  forall e, cur_is (rl_cur s') e = cur_is (rl_cur s) e /\ cur_is (sw_cur s') e = cur_is (sw_cur s) e.

Lemma ptw_same s s' : heap s' = heap s -> same_cur s s' -> ptw s s'.
Proof. intros A B e L. destruct (B e) as [B1 B2]. unfold sidf, closedf, pend, hp. now rewrite A, B1, B2. Qed.

Lemma ptw_upd s s' e0 en en' :
  nth_error (heap s) e0 = Some en -> heap s' = upd e0 en' (heap s) ->
  e_sid en' = e_sid en -> e_closed en' = e_closed en -> pc_pend en' = pc_pend en ->
  same_cur s s' -> ptw s s'.
Proof.
  intros G A S1 S2 S3 B e L. destruct (B e) as [B1 B2]. unfold sidf, closedf, pend, hp. rewrite A, B1, B2.
  destruct (Nat.eq_dec e0 e) as [->|N].
  - rewrite (nth_upd_eq _ _ _ _ G), G. rewrite S1, S2, S3. auto.
  - rewrite nth_upd_neq by auto. auto.
Qed.

Lemma Inv_frame s s' :
  Inv s -> table s' = table s -> length (heap s') = length (heap s) -> ptw s s' ->
  same_cur s s' -> rl_ok s' -> all_einv s' -> Inv s'.
Proof.
  intros (A & B & C & D) T L P Q R E. split; [|split; [|split]]; auto.
  - rewrite T, L. eapply core_ext; eauto.
  - intros e H. destruct (Q e) as [Q1 Q2]. rewrite Q1, Q2 in H. rewrite L. now apply B.
Qed.

Lemma rl_ok_mono s s' :
  rl_ok s -> rl s' = rl s -> length (heap s') = length (heap s) ->
  (forall e, (e < length (heap s))%nat -> sidf s' e = sidf s e /\ (closedf s e = true -> closedf s' e = true)) ->
  (forall sid e, In (sid, e) (table s') -> In (sid, e) (table s)) -> rl_ok s'.
Proof.
  unfold rl_ok. intros H R L P T. rewrite R, L. destruct (rl s) as [| | | | | |[todo cur] [|]| |]; auto.
  - intros e I. apply (H e). now apply T.
  - destruct H as [A B]. split; auto. rewrite <- B. now apply P.
  - destruct H as [A B]. split; auto. rewrite <- B. now apply P.
  - destruct H as [A B]. split; auto. rewrite <- B. now apply P.
  - intros e Le C. apply H; auto. destruct (closedf s e) eqn:X; auto. apply (P e Le) in X. congruence.
  - intros e Le. apply P; auto.
Qed.

Lemma ptw_mono s s' : ptw s s' ->
  forall e, (e < length (heap s))%nat -> sidf s' e = sidf s e /\ (closedf s e = true -> closedf s' e = true).
Proof. intros P e L. destruct (P e L) as (A & B & _). split; auto. congruence. Qed.

Lemma find_In sid tab e : C07_UDPSessions.find sid tab = Some e -> In (sid, e) tab.
Proof.
  induction tab as [|[k x] t IH]; simpl; [discriminate|]. destruct (k =? sid) eqn:E.
  - apply N.eqb_eq in E. intros H; inversion H; subst. now left.
  - intros H. right. auto.
Qed.

Lemma find_None sid tab : C07_UDPSessions.find sid tab = None -> forall e, ~ In (sid, e) tab.
Proof.
  induction tab as [|[k x] t IH]; simpl; intros H e; [tauto|]. destruct (k =? sid) eqn:E; [discriminate|].
  apply N.eqb_neq in E. intros [X|X]; [inversion X; congruence|]. now apply (IH H e).
Qed.

Lemma Inv_rl_after s cl x : Inv (set_rl s (RClose cl x)) -> Inv (rl_after s cl x).
Proof.
  intros HI. unfold rl_after. destruct cl as [[|a todo] [c|]]; try exact HI. destruct x; [|exact HI].
  eapply Inv_frame; [exact HI| reflexivity | reflexivity | apply ptw_same; [reflexivity|] | | | apply HI].
  - intros e. split; reflexivity.
  - intros e. split; reflexivity.
  - destruct HI as (_ & _ & R & _). unfold rl_ok in *. simpl in *. intros e Le.
    destruct (closedf _ e) eqn:X; auto. exfalso. apply (R e Le). exact X.
Qed.

Lemma Inv_sw_after s cl : Inv (set_sw s (SClose cl)) -> Inv (sw_after s cl).
Proof.
  intros HI. unfold sw_after. destruct cl as [[|a todo] [c|]]; exact HI.
Qed.

Lemma sidf_upd s e0 en en' h' x : nth_error (heap s) e0 = Some en -> h' = upd e0 en' (heap s) -> e_sid en' = e_sid en ->
  match nth_error h' x with Some y => e_sid y | None => 0 end = sidf s x.
Proof.
  intros G -> S. unfold sidf. destruct (Nat.eq_dec e0 x) as [->|N].
  - rewrite (nth_upd_eq _ _ _ _ G), G. auto.
  - rewrite nth_upd_neq; auto.
Qed.

Lemma Inv_core s : Inv s -> Core (table s) (length (heap s)) (sidf s) (closedf s) (pend s).
Proof. intros H; apply H. Qed.

Lemma pend_pos s e : Inv s -> (e < length (heap s))%nat -> (1 <= pend s e)%nat -> closedf s e = true /\ pend s e = 1%nat.
Proof.
  intros HI L P. destruct (Inv_core _ HI) as (A & B & C & D).
  destruct (closedf s e) eqn:X.
  - split; auto. destruct (D e L X) as [[Y _]|[Y _]]; lia.
  - destruct (C e L X). lia.
Qed.

Lemma Inv_close_won s s' e en en' :
  Inv s -> nth_error (heap s) e = Some en -> e_closed en = false ->
  heap s' = upd e en' (heap s) -> e_sid en' = e_sid en -> e_closed en' = true ->
  table s' = table s ->
  pend s' e = 1%nat -> (forall x, x <> e -> pend s' x = pend s x) ->
  curv s' -> rl_ok s' -> all_einv s' -> Inv s'.
Proof.
  intros HI G C0 HH S1 C1 T P1 P2 CV RO EI.
  assert (L : (e < length (heap s))%nat) by (apply nth_error_Some; congruence).
  split; [|split; [|split]]; auto.
  rewrite T, HH, upd_length.
  eapply core_ext with (f := sidf s) (c := closedf s') (p := pend s').
  - eapply core_close with (e := e); [apply (Inv_core _ HI) | exact L | | | exact P1 |].
    + unfold closedf. now rewrite G.
    + unfold closedf. rewrite HH, (nth_upd_eq _ _ _ _ G). exact C1.
    + intros x N. split; [|now apply P2]. unfold closedf. rewrite HH, nth_upd_neq; auto.
  - intros x Lx. repeat split; auto. unfold sidf at 1. rewrite HH. eapply sidf_upd; eauto.
Qed.

Lemma Inv_del s s' e en :
  Inv s -> nth_error (heap s) e = Some en -> (1 <= pend s e)%nat ->
  table s' = remove_sid (e_sid en) (table s) -> length (heap s') = length (heap s) ->
  (forall x, sidf s' x = sidf s x /\ closedf s' x = closedf s x) ->
  pend s' e = 0%nat -> (forall x, x <> e -> pend s' x = pend s x) ->
  curv s' -> rl_ok s' -> all_einv s' -> Inv s'.
Proof.
  intros HI G P T LL SC P0 P2 CV RO EI.
  assert (L : (e < length (heap s))%nat) by (apply nth_error_Some; congruence).
  destruct (pend_pos _ _ HI L P) as [CL P1].
  split; [|split; [|split]]; auto.
  rewrite T, LL.
  eapply core_ext with (f := sidf s) (c := closedf s) (p := pend s').
  - replace (e_sid en) with (sidf s e) by (unfold sidf; now rewrite G).
    eapply core_del; [apply (Inv_core _ HI) | exact L | exact CL | exact P1 | exact P0 | exact P2].
  - intros x Lx. destruct (SC x). auto.
Qed.

Lemma In_remove_nat x e l : In x l -> x <> e -> In x (remove_nat e l).
Proof.
  induction l as [|h t IH]; simpl; intros H N; auto. destruct (Nat.eqb h e) eqn:E.
  - apply Nat.eqb_eq in E. destruct H; [congruence|auto].
  - destruct H; [now left|right; auto].
Qed.

Lemma pend_zero s e en : Inv s -> nth_error (heap s) e = Some en -> e_closed en = false ->
  cur_is (rl_cur s) e = false /\ cur_is (sw_cur s) e = false /\ pc_pend en = false.
Proof.
  intros HI G C. destruct (Inv_core _ HI) as (_ & _ & CC & _).
  assert (L : (e < length (heap s))%nat) by (apply nth_error_Some; congruence).
  assert (X : closedf s e = false) by (unfold closedf; now rewrite G).
  destruct (CC e L X) as [_ P]. unfold pend, hp in P. rewrite G in P.
  destruct (cur_is (rl_cur s) e), (cur_is (sw_cur s) e), (pc_pend en); simpl in P; auto; lia.
Qed.

Lemma close_won_state s s' e en en' :
  Inv s -> nth_error (heap s) e = Some en -> e_closed en = false ->
  heap s' = upd e en' (heap s) -> e_sid en' = e_sid en -> e_closed en' = true -> table s' = table s ->
  (b2n (cur_is (rl_cur s') e) + b2n (cur_is (sw_cur s') e) + b2n (pc_pend en') = 1)%nat ->
  (forall x, x <> e -> cur_is (rl_cur s') x = cur_is (rl_cur s) x /\ cur_is (sw_cur s') x = cur_is (sw_cur s) x) ->
  rl_ok s' -> all_einv s' -> Inv s'.
Proof.
  intros HI G C0 HH S1 C1 T P1 P2 RO EI.
  assert (L : (e < length (heap s))%nat) by (apply nth_error_Some; congruence).
  eapply Inv_close_won; eauto.
  - unfold pend, hp. rewrite HH, (nth_upd_eq _ _ _ _ G). exact P1.
  - intros x N. destruct (P2 x N) as [A B]. unfold pend, hp. rewrite A, B, HH, nth_upd_neq; auto.
  - intros x X. rewrite HH, upd_length. destruct (Nat.eq_dec x e) as [->|N]; auto.
    destruct (P2 x N) as [A B]. rewrite A, B in X. destruct HI as (_ & CV & _). now apply CV.
Qed.

Lemma del_state s s' e en :
  Inv s -> nth_error (heap s) e = Some en ->
  (1 <= b2n (cur_is (rl_cur s) e) + b2n (cur_is (sw_cur s) e) + b2n (pc_pend en))%nat ->
  table s' = remove_sid (e_sid en) (table s) ->
  (heap s' = heap s \/ exists en', heap s' = upd e en' (heap s) /\ e_sid en' = e_sid en /\ e_closed en' = e_closed en) ->
  pend s' e = 0%nat ->
  (forall x, x <> e -> cur_is (rl_cur s') x = cur_is (rl_cur s) x /\ cur_is (sw_cur s') x = cur_is (sw_cur s) x) ->
  (forall x, cur_is (rl_cur s') x = true \/ cur_is (sw_cur s') x = true ->
             cur_is (rl_cur s) x = true \/ cur_is (sw_cur s) x = true) ->
  rl_ok s' -> all_einv s' -> Inv s'.
Proof.
  intros HI G P T HH P0 P2 P3 RO EI.
  assert (LL : length (heap s') = length (heap s)).
  { destruct HH as [->|(en' & -> & _)]; auto. apply upd_length. }
  eapply Inv_del; eauto.
  - unfold pend, hp. now rewrite G.
  - intros x. unfold sidf, closedf. destruct HH as [->|(en' & -> & S1 & S2)]; auto.
    destruct (Nat.eq_dec e x) as [->|N].
    + rewrite (nth_upd_eq _ _ _ _ G), G. auto.
    + rewrite nth_upd_neq; auto.
  - intros x N. destruct (P2 x N) as [A B]. unfold pend, hp. rewrite A, B.
    destruct HH as [->|(en' & -> & _)]; auto. rewrite nth_upd_neq; auto.
  - intros x X. rewrite LL. apply P3 in X. destruct HI as (_ & CV & _). now apply CV.
Qed.

Section Pres.
Variable timeout : N.

Ltac dmatch H :=
  repeat match type of H with
         | context [match ?x with _ => _ end] => let E := fresh "E" in destruct x eqn:E; try discriminate H
         end.

Lemma step_einv s a s' ev : Inv s -> step timeout s a = Some (s', ev) -> all_einv s'.
Proof.
  intros HI H. pose proof (step_hrel timeout _ _ _ _ H) as [H1 H2]. intros e en' G.
  destruct (nth_error (heap s) e) as [en|] eqn:G0.
  - destruct (H1 e en G0) as (en2 & G2 & R). rewrite G in G2. inversion G2; subst.
    eapply erel_einv; eauto. destruct HI as (_ & _ & _ & D). eapply D; eauto.
  - apply fresh_einv. eapply H2; eauto.
Qed.

Ltac ei_tac EI := (let x := fresh in let y := fresh in let Hx := fresh in
  intros x y Hx; eapply EI; rewrite ?heap_rl_after, ?heap_sw_after; simpl; exact Hx).

Ltac curs := intros x; unfold rl_cur, sw_cur; simpl;
  repeat match goal with E : rl _ = _ |- _ => rewrite E | E : sw _ = _ |- _ => rewrite E end; split; reflexivity.

Lemma rl_ok_upd s e0 en en' :
  rl_ok s -> nth_error (heap s) e0 = Some en -> e_sid en' = e_sid en -> (e_closed en = true -> e_closed en' = true) ->
  rl_ok (set_entry s e0 en').
Proof.
  intros RO G S1 S2. eapply rl_ok_mono; [exact RO | reflexivity | simpl; apply upd_length | | auto].
  intros x Lx. unfold sidf, closedf. simpl. destruct (Nat.eq_dec e0 x) as [->|N].
  - rewrite (nth_upd_eq _ _ _ _ G), G. split; auto.
  - rewrite nth_upd_neq; auto.
Qed.

Lemma step_Inv s a s' ev : Inv s -> step timeout s a = Some (s', ev) -> Inv s'.
Proof.
  intros HI H. pose proof (step_einv _ _ _ _ HI H) as EI. revert EI H.
  pose proof (Inv_core _ HI) as (CA & CB & CC & CD).
  pose proof HI as (_ & CV & RO & _).
  destruct a as [sid c| | | | | | |ok|ok| |e ok|e|e ok|t e|t|t| | | |d]; simpl; intros EI H.
  all: dmatch H; inversion H; subst; clear H.
  all: unfold get in *.
  (* frame actions whose heap is unchanged *)
  all: try (eapply Inv_frame; [exact HI | reflexivity | reflexivity | apply ptw_same; [reflexivity|] | | | exact EI];
            [ curs | curs | ]).
  all: try (unfold rl_ok; simpl; exact I).
  all: try exact RO.
  (* frame actions that update one entry without touching id, closed flag, pending status *)
  all: try (match goal with G : nth_error (heap ?s) ?e = Some ?en |- Inv _ =>
              eapply Inv_frame; [exact HI | reflexivity | simpl; apply upd_length
                                | eapply ptw_upd; [exact G | reflexivity | reflexivity | reflexivity | | ] | | | exact EI];
              [ unfold pc_pend; simpl; repeat match goal with E : e_pc _ = _ |- _ => rewrite E end; reflexivity
              | curs | curs | ]
            end).
  all: try (match goal with G : nth_error (heap ?s) ?e = Some ?en |- rl_ok (set_entry ?s ?e _) =>
              apply (rl_ok_upd _ _ _ _ RO G); simpl; auto end).
  all: try (unfold rl_ok; simpl; exact I).
  - (* ALookup hit *) unfold rl_ok; simpl. apply find_In in E0. apply CA in E0. exact E0.
  - (* ALookup miss *) unfold rl_ok; simpl. now apply find_None.
  - (* AInsert *)
    unfold rl_ok in RO. rewrite E in RO.
    assert (NS : forall x, cur_is (sw_cur s) x = true -> (x < length (heap s))%nat) by (intros x Hx; apply CV; auto).
    assert (RC : rl_cur s = None) by (unfold rl_cur; now rewrite E).
    split; [|split; [|split]]; auto.
    + simpl. rewrite app_length. simpl. rewrite Nat.add_1_r.
      eapply core_insert; [split; [exact CA|split; [exact CB|split; [exact CC|exact CD]]] | exact RO | | | |].
      * unfold sidf. simpl. rewrite nth_error_app2 by lia. rewrite Nat.sub_diag. reflexivity.
      * unfold closedf. simpl. rewrite nth_error_app2 by lia. rewrite Nat.sub_diag. reflexivity.
      * unfold pend, hp, rl_cur, sw_cur. simpl. rewrite nth_error_app2 by lia. rewrite Nat.sub_diag. simpl.
        destruct (cur_is (sw_cur s) (length (heap s))) eqn:X; [apply NS in X; lia|]. unfold sw_cur in X. rewrite X. reflexivity.
      * intros x Lx. unfold sidf, closedf, pend, hp, rl_cur, sw_cur. simpl. rewrite nth_error_app1 by lia.
        unfold rl_cur in RC. rewrite RC. auto.
    + intros x [X|X]; simpl in *; [discriminate|]. rewrite app_length. simpl. apply NS in X. lia.
    + unfold rl_ok. simpl. rewrite app_length. simpl. split; [lia|].
      unfold sidf. simpl. rewrite nth_error_app2 by lia. rewrite Nat.sub_diag. reflexivity.
  - (* AFeed -> RWrite *)
    unfold rl_ok in *. rewrite E in RO. simpl. rewrite upd_length. destruct RO as [L S]. split; auto.
    unfold sidf in *. simpl. rewrite (nth_upd_eq _ _ _ _ E0). rewrite E0 in S. exact S.
  - (* AFeed -> RInit *)
    unfold rl_ok in *. rewrite E in RO. simpl. rewrite upd_length. destruct RO as [L S]. split; auto.
    unfold sidf in *. simpl. rewrite (nth_upd_eq _ _ _ _ E0). rewrite E0 in S. exact S.
  - (* ADial true *)
    assert (L : (e < length (heap s))%nat) by (apply nth_error_Some; congruence).
    assert (PP : pc_pend e0 = false).
    { assert (X : closedf s e = false) by (unfold closedf; now rewrite E0).
      destruct (CC e L X) as [_ P]. unfold pend, hp in P. rewrite E0 in P. destruct (pc_pend e0); auto. simpl in P. lia. }
    eapply Inv_frame; [exact HI | reflexivity | simpl; apply upd_length
                      | eapply ptw_upd; [exact E0 | reflexivity | reflexivity | simpl; now rewrite E1 | simpl; now rewrite PP | ] | | | exact EI].
    + curs.
    + curs.
    + unfold rl_ok in *. rewrite E in RO. simpl. rewrite upd_length. destruct RO as [L' S]. split; auto.
      unfold sidf in *. simpl. rewrite (nth_upd_eq _ _ _ _ E0). rewrite E0 in S. exact S.
  - (* AClose1 TRL *)
    apply Inv_rl_after.
    match goal with E : rl s = RClose _ _, H : closer_c1 s _ e = Some _ |- _ => rename E into ER; rename H into HC end.
    destruct cl as [todo cur0]. apply closer_c1_spec in HC. destruct HC as (won & C1 & CN & ->). simpl in CN. subst cur0. simpl.
    apply close1_spec in C1. destruct C1 as (en & G & [(C & -> & -> & _)|(C & -> & -> & _)]); unfold get in G.
    + (* already closed *)
      eapply Inv_frame; [exact HI | reflexivity | reflexivity | apply ptw_same; [reflexivity|] | | | ei_tac EI]; [curs|curs|].
      unfold rl_ok in *. rewrite ER in RO. simpl. destruct exiting; auto.
      intros x Lx Cx. apply In_remove_nat; auto. intros ->. unfold closedf in Cx. simpl in Cx. rewrite G in Cx. congruence.
    + destruct (pend_zero _ _ _ HI G C) as (Z1 & Z2 & Z3).
      eapply close_won_state; [exact HI | exact G | exact C | reflexivity | reflexivity | reflexivity | reflexivity | | | | ei_tac EI].
      * unfold rl_cur, sw_cur in *. simpl. rewrite Nat.eqb_refl. simpl in Z2. rewrite Z2. unfold pc_pend in *. simpl. rewrite Z3. reflexivity.
      * intros x N. unfold rl_cur, sw_cur. simpl. rewrite ER. simpl. split; auto. apply Nat.eqb_neq. auto.
      * unfold rl_ok in *. rewrite ER in RO. simpl. destruct exiting; auto. rewrite upd_length.
        intros x Lx Cx. assert (x <> e).
        { intros ->. unfold closedf in Cx. simpl in Cx. rewrite (nth_upd_eq _ _ _ _ G) in Cx. discriminate. }
        apply In_remove_nat; auto. apply RO; auto. unfold closedf in *. simpl in Cx. rewrite nth_upd_neq in Cx; auto.
  - (* AClose1 TSW *)
    apply Inv_sw_after.
    match goal with E : sw s = SClose _, H : closer_c1 s _ e = Some _ |- _ => rename E into ES; rename H into HC end.
    destruct cl as [todo cur0]. apply closer_c1_spec in HC. destruct HC as (won & C1 & CN & ->). simpl in CN. subst cur0. simpl.
    apply close1_spec in C1. destruct C1 as (en & G & [(C & -> & -> & _)|(C & -> & -> & _)]); unfold get in G.
    + eapply Inv_frame; [exact HI | reflexivity | reflexivity | apply ptw_same; [reflexivity|] | | exact RO | ei_tac EI]; [curs|curs].
    + destruct (pend_zero _ _ _ HI G C) as (Z1 & Z2 & Z3).
      eapply close_won_state; [exact HI | exact G | exact C | reflexivity | reflexivity | reflexivity | reflexivity | | | | ei_tac EI].
      * unfold rl_cur, sw_cur in *. simpl. rewrite Nat.eqb_refl. simpl in Z1. rewrite Z1. unfold pc_pend in *. simpl. rewrite Z3. reflexivity.
      * intros x N. unfold rl_cur, sw_cur. simpl. rewrite ES. simpl. split; auto. apply Nat.eqb_neq. auto.
      * apply (rl_ok_upd _ _ _ _ RO G); simpl; auto.
  - (* AClose1 TRP won *)
    match goal with H : (_ =? _)%nat = true |- _ => apply Nat.eqb_eq in H; subst end.
    match goal with H : close1 _ _ = Some _ |- _ => apply close1_spec in H;
      destruct H as (en & G & [(C & -> & X & _)|(C & _ & -> & _)]); [discriminate|] end.
    unfold get in G. simpl in *.
    match goal with H : nth_error (upd _ _ _) _ = Some _ |- _ => rewrite (nth_upd_eq _ _ _ _ G) in H; inversion H; subst; clear H end.
    destruct (pend_zero _ _ _ HI G C) as (Z1 & Z2 & Z3).
    eapply close_won_state; [exact HI | exact G | exact C | simpl; apply upd_upd | reflexivity | reflexivity | reflexivity | | | | exact EI].
    + unfold rl_cur, sw_cur in *. simpl. rewrite Z1, Z2. reflexivity.
    + intros x N. split; reflexivity.
    + eapply rl_ok_upd; [apply (rl_ok_upd _ _ _ _ RO G); simpl; auto | simpl; eapply nth_upd_eq; eauto | reflexivity | auto].
  - (* AClose1 TRP lost *)
    match goal with H : (_ =? _)%nat = true |- _ => apply Nat.eqb_eq in H; subst end.
    match goal with H : close1 _ _ = Some _ |- _ => apply close1_spec in H;
      destruct H as (en & G & [(C & -> & _)|(C & X & _)]); [|discriminate] end.
    unfold get in G.
    match goal with H : nth_error (heap s) e = Some ?y |- Inv (set_entry s e (set_pc ?y _)) =>
      assert (y = en) by congruence; subst end.
    repeat match goal with A : nth_error (heap s) e = Some ?a, B : nth_error (heap s) e = Some ?b |- _ =>
      first [constr_eq a b; fail 1 | assert (a = b) by congruence; subst a] end.
    eapply Inv_frame; [exact HI | reflexivity | simpl; apply upd_length
                      | eapply ptw_upd; [exact G | reflexivity | reflexivity | reflexivity | | ] | | | exact EI].
    + unfold pc_pend; simpl. repeat match goal with E : e_pc _ = _ |- _ => rewrite E end. reflexivity.
    + curs.
    + curs.
    + apply (rl_ok_upd _ _ _ _ RO G); simpl; auto.
  - (* ACloseLog TRL *)
    match goal with E : rl s = RClose _ _, H : closer_log s _ = Some _ |- _ => rename E into ER; rename H into HC end.
    unfold closer_log in HC. destruct cl as [todo [[x0 b]|]]; [|discriminate]. destruct b; [discriminate|].
    destruct (get s x0); [|discriminate]. inversion HC; subst; clear HC.
    eapply Inv_frame; [exact HI | reflexivity | reflexivity | apply ptw_same; [reflexivity|] | | | exact EI]; [curs|curs|].
    unfold rl_ok in *. rewrite ER in RO. simpl. exact RO.
  - (* ACloseLog TSW *)
    match goal with E : sw s = SClose _, H : closer_log s _ = Some _ |- _ => rename E into ES; rename H into HC end.
    unfold closer_log in HC. destruct cl as [todo [[x0 b]|]]; [|discriminate]. destruct b; [discriminate|].
    destruct (get s x0); [|discriminate]. inversion HC; subst; clear HC.
    eapply Inv_frame; [exact HI | reflexivity | reflexivity | apply ptw_same; [reflexivity|] | | exact RO | exact EI]; [curs|curs].
  - (* ACloseDel TRL *)
    apply Inv_rl_after.
    match goal with E : rl s = RClose _ _, H : closer_del s _ = Some _ |- _ => rename E into ER; rename H into HC end.
    unfold closer_del in HC. destruct cl as [todo [[x0 b]|]]; [|discriminate]. destruct b; [|discriminate].
    destruct (get s x0) as [en|] eqn:G; [|discriminate]. unfold get in G. inversion HC; subst; clear HC.
    assert (L : (x0 < length (heap s))%nat) by (apply nth_error_Some; congruence).
    assert (R1 : cur_is (rl_cur s) x0 = true) by (unfold rl_cur; rewrite ER; simpl; apply Nat.eqb_refl).
    assert (P1 : (1 <= pend s x0)%nat) by (unfold pend; rewrite R1; simpl; lia).
    destruct (pend_pos _ _ HI L P1) as [_ P]. unfold pend in P. rewrite R1 in P. simpl in P.
    eapply del_state with (e := x0); [exact HI | exact G | rewrite R1; simpl; lia | reflexivity | left; reflexivity | | | | | ei_tac EI].
    + unfold pend, rl_cur, sw_cur. simpl. fold (sw_cur s). unfold hp in *. simpl. lia.
    + intros x N. unfold rl_cur, sw_cur. simpl. rewrite ER. simpl. split; auto. symmetry. apply Nat.eqb_neq. auto.
    + intros x [X|X]; [discriminate|right; exact X].
    + unfold rl_ok in *. rewrite ER in RO. simpl. exact RO.
  - (* ACloseDel TSW *)
    apply Inv_sw_after.
    match goal with E : sw s = SClose _, H : closer_del s _ = Some _ |- _ => rename E into ES; rename H into HC end.
    unfold closer_del in HC. destruct cl as [todo [[x0 b]|]]; [|discriminate]. destruct b; [|discriminate].
    destruct (get s x0) as [en|] eqn:G; [|discriminate]. unfold get in G. inversion HC; subst; clear HC.
    assert (L : (x0 < length (heap s))%nat) by (apply nth_error_Some; congruence).
    assert (R1 : cur_is (sw_cur s) x0 = true) by (unfold sw_cur; rewrite ES; simpl; apply Nat.eqb_refl).
    assert (P1 : (1 <= pend s x0)%nat) by (unfold pend; rewrite R1; simpl; lia).
    destruct (pend_pos _ _ HI L P1) as [_ P]. unfold pend in P. rewrite R1 in P. simpl in P.
    eapply del_state with (e := x0); [exact HI | exact G | rewrite R1; simpl; lia | reflexivity | left; reflexivity | | | | | ei_tac EI].
    + unfold pend, rl_cur, sw_cur. simpl. fold (rl_cur s). unfold hp in *. simpl. lia.
    + intros x N. unfold rl_cur, sw_cur. simpl. rewrite ES. simpl. split; auto. symmetry. apply Nat.eqb_neq. auto.
    + intros x [X|X]; [left; exact X|discriminate].
    + eapply rl_ok_mono; [exact RO | reflexivity | reflexivity | intros x Lx; split; auto | ].
      intros k x I. simpl in I. apply remove_sid_In in I. tauto.
  - (* ACloseDel TRP *)
    match goal with G : nth_error (heap s) e = Some ?y, P : e_pc ?y = PC3 |- _ => rename G into GG; rename P into PP end.
    assert (L : (e < length (heap s))%nat) by (apply nth_error_Some; congruence).
    assert (H1 : hp s e = 1%nat) by (unfold hp, pc_pend; rewrite GG, PP; reflexivity).
    assert (P1 : (1 <= pend s e)%nat) by (unfold pend; lia).
    destruct (pend_pos _ _ HI L P1) as [_ P]. unfold pend in P.
    eapply del_state with (e := e); [exact HI | exact GG | unfold pc_pend; rewrite PP; simpl; lia | reflexivity
                                    | right; eexists; split; [reflexivity|split; reflexivity] | | | | | exact EI].
    + unfold pend, hp, rl_cur, sw_cur. simpl. fold (rl_cur s). fold (sw_cur s). rewrite (nth_upd_eq _ _ _ _ GG). simpl. lia.
    + intros x N. split; reflexivity.
    + intros x X. exact X.
    + eapply rl_ok_mono; [apply (rl_ok_upd s e e0 (set_pc e0 PDone) RO GG); simpl; auto | reflexivity | reflexivity | intros x Lx; split; auto | ].
      intros k x I. simpl in I. apply remove_sid_In in I. tauto.
  - (* ASnapAll, empty table *)
    unfold rl_ok. simpl. intros x Lx. destruct (closedf s x) eqn:X; auto. exfalso.
    destruct (CC x Lx X) as [I _]. apply (in_map snd) in I. simpl in I.
    match goal with E : map snd (table s) = [] |- _ => rewrite E in I end. destruct I.
  - (* ASnapAll *)
    unfold rl_ok. simpl. intros x Lx X. destruct (CC x Lx X) as [I _]. apply (in_map snd) in I. simpl in I.
    match goal with E : map snd (table s) = _ |- _ => rewrite E in I end. exact I.
Qed.

(* ------------------------------------------------------------------ *)
(* runs                                                                *)
(* ------------------------------------------------------------------ *)
Lemma run_Inv acts : forall s s' tr, Inv s -> run timeout s acts = Some (s', tr) -> Inv s'.
Proof.
  induction acts as [|a t IH]; simpl; intros s s' tr HI H.
  - inversion H; subst; auto.
  - destruct (step timeout s a) as [[s1 ev]|] eqn:S; [|discriminate].
    destruct (run timeout s1 t) as [[s2 tr']|] eqn:R; [|discriminate].
    inversion H; subst. eapply IH; [|exact R]. eapply step_Inv; eauto.
Qed.

Lemma reach_Inv acts s tr : run timeout init acts = Some (s, tr) -> Inv s.
Proof. apply run_Inv. apply Inv_init. Qed.
End Pres.

(* ------------------------------------------------------------------ *)
(* sockets: allocation indices are unique                              *)
(* ------------------------------------------------------------------ *)
Definition socks (s : state) : list (option N) := map e_sock (heap s).

Definition good (l : list (option N)) (n : N) : Prop :=
  forall i k, nth_error l i = Some (Some k) -> k < n /\ forall j, nth_error l j = Some (Some k) -> i = j.

Lemma map_upd {A B} (f : A -> B) i x l : map f (upd i x l) = upd i (f x) (map f l).
Proof. revert i; induction l as [|h t IH]; intros [|i]; simpl; auto. now rewrite IH. Qed.

Lemma upd_same {A} i (x : A) l : nth_error l i = Some x -> upd i x l = l.
Proof. revert i; induction l as [|h t IH]; intros [|i]; simpl; intros H; try discriminate; auto.
  - now inversion H. - now rewrite IH. Qed.

Lemma good_app l n : good l n -> good (l ++ [None]) n.
Proof.
  intros G i k H.
  assert (Hi : nth_error l i = Some (Some k)).
  { destruct (Nat.lt_ge_cases i (length l)) as [L|L].
    - now rewrite nth_error_app1 in H.
    - rewrite nth_error_app2 in H by auto. destruct (i - length l)%nat as [|[|m]]; simpl in H; discriminate. }
  destruct (G i k Hi) as [A B]. split; auto. intros j Hj. apply B.
  destruct (Nat.lt_ge_cases j (length l)) as [L|L].
  - now rewrite nth_error_app1 in Hj.
  - rewrite nth_error_app2 in Hj by auto. destruct (j - length l)%nat as [|[|m]]; simpl in Hj; discriminate.
Qed.

Lemma good_dial l n e : good l n -> good (upd e (Some n) l) (n + 1).
Proof.
  intros G i k H. destruct (Nat.eq_dec e i) as [->|N].
  - destruct (nth_error l i) as [y|] eqn:Y.
    + rewrite (nth_upd_eq _ _ _ _ Y) in H. inversion H; subst. split; [lia|].
      intros j Hj. destruct (Nat.eq_dec i j) as [|N]; auto. rewrite nth_upd_neq in Hj by auto.
      apply G in Hj. lia.
    + rewrite nth_upd_none in H; auto. discriminate.
  - rewrite nth_upd_neq in H by auto. destruct (G i k H) as [A B]. split; [lia|].
    intros j Hj. destruct (Nat.eq_dec e j) as [->|N2].
    + destruct (nth_error l j) as [y|] eqn:Y.
      * rewrite (nth_upd_eq _ _ _ _ Y) in Hj. inversion Hj; subst. lia.
      * rewrite nth_upd_none in Hj; auto. discriminate.
    + rewrite nth_upd_neq in Hj by auto. auto.
Qed.

Section Socks.
Variable timeout : N.

Ltac dmatch H :=
  repeat match type of H with
         | context [match ?x with _ => _ end] => let E := fresh "E" in destruct x eqn:E; try discriminate H
         end.

Lemma close1_socks s e s' won ev : close1 s e = Some (s', won, ev) -> socks s' = socks s /\ nsock s' = nsock s.
Proof.
  intros H. apply close1_spec in H. destruct H as (en & G & [(C & -> & _)|(C & _ & -> & _)]); auto.
  unfold socks. simpl. rewrite map_upd. simpl. split; auto. apply upd_same. unfold get in G. now rewrite (map_nth_error _ _ _ G).
Qed.

Lemma step_socks s a s' ev : step timeout s a = Some (s', ev) ->
  (socks s' = socks s /\ nsock s' = nsock s) \/
  (socks s' = socks s ++ [None] /\ nsock s' = nsock s) \/
  (exists e, socks s' = upd e (Some (nsock s)) (socks s) /\ nsock s' = nsock s + 1).
Proof.
  destruct a as [sid c| | | | | | |ok|ok| |e ok|e|e ok|t e|t|t| | | |d]; simpl; intros H.
  all: dmatch H; inversion H; subst; clear H; unfold get in *.
  all: try (left; unfold socks; simpl; rewrite ?heap_rl_after, ?heap_sw_after, ?nsock_rl_after, ?nsock_sw_after; simpl; split; reflexivity).
  all: try (left; unfold socks; simpl; rewrite map_upd; simpl; split; [|reflexivity];
            match goal with G : nth_error (heap ?s) ?e = Some ?en |- upd ?e _ (map _ (heap ?s)) = _ => apply upd_same; now rewrite (map_nth_error _ _ _ G) end).
  - (* AInsert *) right; left. unfold socks. simpl. rewrite map_app. auto.
  - (* ADial true *) right; right. exists e. unfold socks. simpl. rewrite map_upd. auto.
  - (* AClose1 TRL *)
    left. rewrite nsock_rl_after. unfold socks. rewrite heap_rl_after.
    match goal with H : closer_c1 _ _ _ = Some _ |- _ => apply closer_c1_spec in H; destruct H as (won & C & _) end.
    eapply close1_socks; eauto.
  - (* AClose1 TSW *)
    left. rewrite nsock_sw_after. unfold socks. rewrite heap_sw_after.
    match goal with H : closer_c1 _ _ _ = Some _ |- _ => apply closer_c1_spec in H; destruct H as (won & C & _) end.
    eapply close1_socks; eauto.
  - (* AClose1 TRP won *)
    left. match goal with H : close1 _ _ = Some _ |- _ => destruct (close1_socks _ _ _ _ _ H) as [A B] end.
    unfold socks in *. simpl. rewrite map_upd. simpl. rewrite <- A, <- B. split; auto.
    apply upd_same. match goal with G : nth_error (heap s0) e = Some _ |- _ => now rewrite (map_nth_error _ _ _ G) end.
  - (* AClose1 TRP lost *)
    left. match goal with H : close1 _ _ = Some _ |- _ => destruct (close1_socks _ _ _ _ _ H) as [A B] end.
    unfold socks in *. simpl. rewrite map_upd. simpl. rewrite <- A, <- B. split; auto.
    apply upd_same. match goal with G : nth_error (heap s0) e = Some _ |- _ => now rewrite (map_nth_error _ _ _ G) end.
  - (* ACloseDel TRL *)
    left. rewrite nsock_rl_after. unfold socks. rewrite heap_rl_after.
    match goal with H : closer_del _ _ = Some _ |- _ => unfold closer_del in H; dmatch H; inversion H; subst end. auto.
  - (* ACloseDel TSW *)
    left. rewrite nsock_sw_after. unfold socks. rewrite heap_sw_after.
    match goal with H : closer_del _ _ = Some _ |- _ => unfold closer_del in H; dmatch H; inversion H; subst end. auto.
Qed.

Lemma step_good s a s' ev : good (socks s) (nsock s) -> step timeout s a = Some (s', ev) -> good (socks s') (nsock s').
Proof.
  intros G H. destruct (step_socks _ _ _ _ H) as [[A B]|[[A B]|(e & A & B)]]; rewrite A, B.
  - exact G.
  - now apply good_app.
  - now apply good_dial.
Qed.

Lemma run_good acts : forall s s' tr, good (socks s) (nsock s) -> run timeout s acts = Some (s', tr) -> good (socks s') (nsock s').
Proof.
  induction acts as [|a t IH]; simpl; intros s s' tr G H.
  - inversion H; subst; auto.
  - destruct (step timeout s a) as [[s1 ev]|] eqn:S; [|discriminate].
    destruct (run timeout s1 t) as [[s2 tr']|] eqn:R; [|discriminate].
    inversion H; subst. eapply IH; [|exact R]. eapply step_good; eauto.
Qed.

Lemma reach_good acts s tr : run timeout init acts = Some (s, tr) -> good (socks s) (nsock s).
Proof. apply run_good. intros [|i] k H; discriminate. Qed.

(* the owner of a socket is well defined *)
Lemma owner_unique s e en k :
  good (socks s) (nsock s) -> nth_error (heap s) e = Some en -> e_sock en = Some k -> owner s k = Some (e_sid en).
Proof.
  intros G H K. unfold owner.
  assert (U : forall e2 en2, nth_error (heap s) e2 = Some en2 -> e_sock en2 = Some k -> e2 = e).
  { intros e2 en2 H2 K2. symmetry.
    assert (A : nth_error (socks s) e = Some (Some k)) by (unfold socks; rewrite (map_nth_error _ _ _ H); now rewrite K).
    assert (B : nth_error (socks s) e2 = Some (Some k)) by (unfold socks; rewrite (map_nth_error _ _ _ H2); now rewrite K2).
    destruct (G e k A) as [_ X]. now apply X. }
  clear G. revert e H U. induction (heap s) as [|h t IH]; intros e H U; [destruct e; discriminate|].
  simpl. destruct (e_sock h) as [k'|] eqn:Kh.
  - destruct (k' =? k) eqn:Q.
    + apply N.eqb_eq in Q. subst. assert (0%nat = e) by (apply (U 0%nat h); auto). subst. simpl in H. now inversion H.
    + destruct e as [|e]; simpl in H.
      * inversion H; subst. rewrite K in Kh. inversion Kh; subst. rewrite N.eqb_refl in Q. discriminate.
      * apply (IH e H). intros e2 en2 H2 K2. assert (S e2 = S e) by (apply (U (S e2) en2); auto). lia.
  - destruct e as [|e]; simpl in H.
    + inversion H; subst. congruence.
    + apply (IH e H). intros e2 en2 H2 K2. assert (S e2 = S e) by (apply (U (S e2) en2); auto). lia.
Qed.
End Socks.

(* ------------------------------------------------------------------ *)
(* the statements of props/C07.v                                       *)
(* ------------------------------------------------------------------ *)
Section Final.
Variable timeout : N.

Ltac dmatch H :=
  repeat match type of H with
         | context [match ?x with _ => _ end] => let E := fresh "E" in destruct x eqn:E; try discriminate H
         end.

Definition reachable (s : state) : Prop := exists acts tr, run timeout init acts = Some (s, tr).

Lemma reachable_Inv s : reachable s -> Inv s.
Proof. intros (acts & tr & H). eapply reach_Inv; eauto. Qed.
Lemma reachable_good s : reachable s -> good (socks s) (nsock s).
Proof. intros (acts & tr & H). eapply reach_good; eauto. Qed.

Lemma close1_ev s e s' won ev x : close1 s e = Some (s', won, ev) -> In x ev ->
  exists en k, nth_error (heap s) e = Some en /\ e_sock en = Some k /\ e_closed en = false /\ e_closes en = 0%nat -> x = EClose k.
Proof.
  intros H I. apply close1_spec in H. destruct H as (en & G & [(_ & _ & _ & ->)|(C & _ & _ & ->)]); [destruct I|].
  destruct (e_sock en) as [k|] eqn:K; [|destruct I]. exists en, k. intros _. destruct I as [<-|[]]. reflexivity.
Qed.

(* which action emits which event *)
Lemma ev_write s a s' ev k sid ok : step timeout s a = Some (s', ev) -> In (EWrite k sid ok) ev ->
  exists e en, rl s = RWrite e sid /\ nth_error (heap s) e = Some en /\ e_sock en = Some k /\ (ok = true -> e_closes en = 0%nat).
Proof.
  destruct a as [sid0 c| | | | | | |ok0|ok0| |e ok0|e|e ok0|t e|t|t| | | |d]; simpl; intros H I.
  all: dmatch H; inversion H; subst; clear H; unfold get in *; simpl in I.
  all: try contradiction.
  all: try (destruct I as [X|[]]; discriminate X).
  all: try (match goal with H : closer_c1 _ _ _ = Some _ |- _ => apply closer_c1_spec in H; destruct H as (won & C & _) end).
  all: try (match goal with H : close1 _ _ = Some _ |- _ => apply close1_spec in H;
              destruct H as (en & G & [(_ & _ & _ & ->)|(_ & _ & _ & ->)]); [destruct I|];
              destruct (e_sock en); [destruct I as [X|[]]; discriminate X|destruct I] end).
  all: try (match goal with H : closer_log _ _ = Some _ |- _ => unfold closer_log in H; dmatch H; inversion H; subst;
              destruct I as [X|[]]; discriminate X end).
  destruct I as [X|[]]. inversion X; subst. exists e, e0. repeat split; auto.
  intros ->. simpl in *. apply negb_false_iff, Nat.eqb_eq in E2. exact E2.
Qed.

Lemma ev_read s a s' ev k n : step timeout s a = Some (s', ev) -> In (ERead k true n) ev ->
  exists e en, nth_error (heap s) e = Some en /\ e_sock en = Some k /\ e_closes en = 0%nat.
Proof.
  destruct a as [sid0 c| | | | | | |ok0|ok0| |e ok0|e|e ok0|t e|t|t| | | |d]; simpl; intros H I.
  all: dmatch H; inversion H; subst; clear H; unfold get in *; simpl in I.
  all: try contradiction.
  all: try (destruct I as [X|[]]; discriminate X).
  all: try (match goal with H : closer_c1 _ _ _ = Some _ |- _ => apply closer_c1_spec in H; destruct H as (won & C & _) end).
  all: try (match goal with H : close1 _ _ = Some _ |- _ => apply close1_spec in H;
              destruct H as (en & G & [(_ & _ & _ & ->)|(_ & _ & _ & ->)]); [destruct I|];
              destruct (e_sock en); [destruct I as [X|[]]; discriminate X|destruct I] end).
  all: try (match goal with H : closer_log _ _ = Some _ |- _ => unfold closer_log in H; dmatch H; inversion H; subst;
              destruct I as [X|[]]; discriminate X end).
  destruct I as [X|[]]. inversion X; subst. exists e, e0. repeat split; auto.
  match goal with H : (_ =? 0)%nat = true |- _ => now apply Nat.eqb_eq in H end.
Qed.

Lemma ev_send s a s' ev k sid ok n : step timeout s a = Some (s', ev) -> In (ESend k sid ok n) ev ->
  exists e en, nth_error (heap s) e = Some en /\ e_sock en = Some k /\ e_sid en = sid.
Proof.
  destruct a as [sid0 c| | | | | | |ok0|ok0| |e ok0|e|e ok0|t e|t|t| | | |d]; simpl; intros H I.
  all: dmatch H; inversion H; subst; clear H; unfold get in *; simpl in I.
  all: try contradiction.
  all: try (destruct I as [X|[]]; discriminate X).
  all: try (match goal with H : closer_c1 _ _ _ = Some _ |- _ => apply closer_c1_spec in H; destruct H as (won & C & _) end).
  all: try (match goal with H : close1 _ _ = Some _ |- _ => apply close1_spec in H;
              destruct H as (en & G & [(_ & _ & _ & ->)|(_ & _ & _ & ->)]); [destruct I|];
              destruct (e_sock en); [destruct I as [X|[]]; discriminate X|destruct I] end).
  all: try (match goal with H : closer_log _ _ = Some _ |- _ => unfold closer_log in H; dmatch H; inversion H; subst;
              destruct I as [X|[]]; discriminate X end).
  all: destruct I as [X|[]]; inversion X; subst; exists e, e0; repeat split; auto.
Qed.

Lemma ev_dial s a s' ev sid r : step timeout s a = Some (s', ev) -> In (EDial sid r) ev ->
  exists e sid' en, rl s = RInit e sid' /\ nth_error (heap s) e = Some en /\ e_sid en = sid /\ e_closed en = false /\
    (forall k, r = Some k -> k = nsock s).
Proof.
  destruct a as [sid0 c| | | | | | |ok0|ok0| |e ok0|e|e ok0|t e|t|t| | | |d]; simpl; intros H I.
  all: dmatch H; inversion H; subst; clear H; unfold get in *; simpl in I.
  all: try contradiction.
  all: try (destruct I as [X|[]]; discriminate X).
  all: try (match goal with H : closer_c1 _ _ _ = Some _ |- _ => apply closer_c1_spec in H; destruct H as (won & C & _) end).
  all: try (match goal with H : close1 _ _ = Some _ |- _ => apply close1_spec in H;
              destruct H as (en & G & [(_ & _ & _ & ->)|(_ & _ & _ & ->)]); [destruct I|];
              destruct (e_sock en); [destruct I as [X|[]]; discriminate X|destruct I] end).
  all: try (match goal with H : closer_log _ _ = Some _ |- _ => unfold closer_log in H; dmatch H; inversion H; subst;
              destruct I as [X|[]]; discriminate X end).
  - destruct I as [X|[]]. inversion X; subst. exists e, sid0, e0. repeat split; auto. intros k Q. now inversion Q.
  - destruct I as [X|[]]. inversion X; subst. exists e, sid0, e0. repeat split; auto. intros k Q. discriminate.
Qed.

(* C07_isolation_out *)
Lemma isolation_out s a s' ev k sid ok :
  reachable s -> step timeout s a = Some (s', ev) -> In (EWrite k sid ok) ev -> owner s k = Some sid.
Proof.
  intros R H I. destruct (ev_write _ _ _ _ _ _ _ H I) as (e & en & RW & G & K & _).
  pose proof (reachable_Inv _ R) as (_ & _ & RO & _). unfold rl_ok in RO. rewrite RW in RO. destruct RO as [_ S].
  unfold sidf in S. rewrite G in S. subst sid. eapply owner_unique; eauto. now apply reachable_good.
Qed.

(* C07_isolation_back *)
Lemma isolation_back s a s' ev k sid ok n :
  reachable s -> step timeout s a = Some (s', ev) -> In (ESend k sid ok n) ev -> owner s k = Some sid.
Proof.
  intros R H I. destruct (ev_send _ _ _ _ _ _ _ _ H I) as (e & en & G & K & <-).
  eapply owner_unique; eauto. now apply reachable_good.
Qed.

(* C07_close_exactly_once *)
Lemma close_exactly_once s : reachable s ->
  forall e en, nth_error (heap s) e = Some en ->
    e_closes en = (if e_closed en && has_sock en then 1%nat else 0%nat) /\ (e_closes en <= 1)%nat.
Proof.
  intros R e en G. pose proof (reachable_Inv _ R) as (_ & _ & _ & EI). destruct (EI e en G) as [C _].
  split; auto. rewrite C. destruct (e_closed en && has_sock en); lia.
Qed.

Lemma no_io_after_close s a s' ev k : step timeout s a = Some (s', ev) ->
  (exists sid, In (EWrite k sid true) ev) \/ (exists n, In (ERead k true n) ev) ->
  exists e en, nth_error (heap s) e = Some en /\ e_sock en = Some k /\ e_closes en = 0%nat.
Proof.
  intros H [[sid I]|[n I]].
  - destruct (ev_write _ _ _ _ _ _ _ H I) as (e & en & _ & G & K & C). exists e, en. auto.
  - eapply ev_read; eauto.
Qed.

(* closed is forever, and a closed entry keeps its socket and close count *)
Lemma closed_forever s a s' ev e en : step timeout s a = Some (s', ev) ->
  nth_error (heap s) e = Some en -> e_closed en = true ->
  exists en', nth_error (heap s') e = Some en' /\ e_closed en' = true /\ e_sock en' = e_sock en /\ e_closes en' = e_closes en /\ e_sid en' = e_sid en.
Proof.
  intros H G C. destruct (step_hrel _ _ _ _ _ H) as [H1 _]. destruct (H1 e en G) as (en' & G' & R).
  destruct (erel_keeps _ _ _ R) as [S K]. destruct (K C) as (A & B & D). exists en'. auto.
Qed.

(* C07_no_dial_after_exit *)
Lemma no_dial_after_exit s a s' ev sid r : step timeout s a = Some (s', ev) -> In (EDial sid r) ev ->
  exists e sid' en, rl s = RInit e sid' /\ nth_error (heap s) e = Some en /\ e_sid en = sid /\ e_closed en = false.
Proof.
  intros H I. destruct (ev_dial _ _ _ _ _ _ H I) as (e & sid' & en & A & B & C & D & _). exists e, sid', en. auto.
Qed.

(* C07_dial_into_listed_entry: the socket a successful dial returns is installed, in the same atomic section as the
   closed check (connLock is held across DialFunc), into an entry that is open and is the table's entry for that id -
   before and after the step - so the sweeper and the final cleanup still reach it *)
Lemma dial_into_listed_entry s a s' ev sid k :
  reachable s -> step timeout s a = Some (s', ev) -> In (EDial sid (Some k)) ev ->
  exists e en', In (sid, e) (table s) /\ table s' = table s /\
    nth_error (heap s') e = Some en' /\ e_sid en' = sid /\ e_sock en' = Some k /\ e_closed en' = false /\
    e_closes en' = 0%nat /\ e_pc en' = PRead.
Proof.
  intros R H I. pose proof (reachable_Inv _ R) as HI.
  destruct (Inv_core _ HI) as (_ & _ & CC & _). destruct HI as (_ & _ & _ & EI).
  revert H I.
  destruct a as [sid0 c| | | | | | |ok0|ok0| |e ok0|e|e ok0|t e|t|t| | | |d]; simpl; intros H I.
  all: dmatch H; inversion H; subst; clear H; unfold get in *; simpl in I.
  all: try contradiction.
  all: try (destruct I as [X|[]]; discriminate X).
  all: try (match goal with H : closer_c1 _ _ _ = Some _ |- _ => apply closer_c1_spec in H; destruct H as (won & C & _) end).
  all: try (match goal with H : close1 _ _ = Some _ |- _ => apply close1_spec in H;
              destruct H as (en & G & [(_ & _ & _ & ->)|(_ & _ & _ & ->)]); [destruct I|];
              destruct (e_sock en); [destruct I as [X|[]]; discriminate X|destruct I] end).
  all: try (match goal with H : closer_log _ _ = Some _ |- _ => unfold closer_log in H; dmatch H; inversion H; subst;
              destruct I as [X|[]]; discriminate X end).
  destruct I as [X|[]]. inversion X; subst. clear X.
  assert (L : (e < length (heap s))%nat) by (apply nth_error_Some; congruence).
  assert (CF : closedf s e = false) by (unfold closedf; now rewrite E0).
  destruct (CC e L CF) as [IT _]. unfold sidf in IT. rewrite E0 in IT.
  destruct (EI e e0 E0) as [CO _]. unfold closes_ok in CO. rewrite E1 in CO. simpl in CO.
  eexists e, _. simpl. split; [exact IT|]. split; [reflexivity|].
  split; [eapply nth_upd_eq; eauto|]. simpl. repeat split; auto.
Qed.

(* C07_fresh_after_expiry *)
Lemma fresh_after_expiry s :
  reachable s ->
  (forall sid c s' ev, rl s = RGot sid c -> C07_UDPSessions.find sid (table s) = None ->
     step timeout s ALookup = Some (s', ev) -> rl s' = RNew sid c) /\
  (forall sid c s' ev, rl s = RNew sid c -> step timeout s AInsert = Some (s', ev) ->
     rl s' = RFeed (length (heap s)) sid c /\ nth_error (heap s) (length (heap s)) = None /\
     exists en, nth_error (heap s') (length (heap s)) = Some en /\ e_sid en = sid /\ fresh en) /\
  (forall a s' ev sid k, step timeout s a = Some (s', ev) -> In (EDial sid (Some k)) ev ->
     k = nsock s /\ forall e en, nth_error (heap s) e = Some en -> e_sock en <> Some k).
Proof.
  intros R. split; [|split].
  - intros sid c s' ev E F H. simpl in H. rewrite E, F in H. inversion H; subst. reflexivity.
  - intros sid c s' ev E H. simpl in H. rewrite E in H. inversion H; subst; clear H. simpl. split; auto.
    split; [apply nth_error_None; lia|]. eexists. split; [rewrite nth_error_app2 by lia; rewrite Nat.sub_diag; reflexivity|].
    repeat split.
  - intros a s' ev sid k H I. destruct (ev_dial _ _ _ _ _ _ H I) as (e & sid' & en & _ & _ & _ & _ & Q).
    specialize (Q k eq_refl). subst. split; auto. intros e2 en2 G K.
    assert (A : nth_error (socks s) e2 = Some (Some (nsock s))) by (unfold socks; rewrite (map_nth_error _ _ _ G); now rewrite K).
    apply (reachable_good _ R) in A. lia.
Qed.

(* C07_no_leak_at_exit *)
Lemma no_leak_at_exit s : reachable s -> terminal s = true ->
  table s = [] /\
  forall e en, nth_error (heap s) e = Some en ->
    e_closed en = true /\ reply_running en = false /\
    (forall k, e_sock en = Some k -> e_closes en = 1%nat /\ e_pc en = PDone).
Proof.
  intros R T. pose proof (reachable_Inv _ R) as HI.
  destruct (Inv_core _ HI) as (CA & CB & CC & CD). destruct HI as (_ & CV & RO & EI).
  unfold terminal in T. apply andb_true_iff in T. destruct T as [T PCs]. apply andb_true_iff in T. destruct T as [TR TS].
  destruct (rl s) eqn:ER; try discriminate. destruct (sw s) eqn:ES; try discriminate.
  unfold rl_ok in RO. rewrite ER in RO. rewrite forallb_forall in PCs.
  assert (AC : forall e en, nth_error (heap s) e = Some en -> e_closed en = true /\ pend s e = 0%nat /\
                 match e_pc en with PNone | PDone => True | PRead => e_closes en = 0%nat | _ => False end).
  { intros e en G. assert (L : (e < length (heap s))%nat) by (apply nth_error_Some; congruence).
    pose proof (RO e L) as C. unfold closedf in C. rewrite G in C. split; auto.
    pose proof (PCs en (nth_error_In _ _ G)) as P.
    unfold pend, hp, rl_cur, sw_cur. rewrite ER, ES, G. simpl. unfold pc_pend.
    destruct (e_pc en); try discriminate; simpl; auto. split; auto. now apply Nat.eqb_eq. }
  assert (TE : table s = []).
  { destruct (table s) as [|[sid e] t] eqn:TT; auto. exfalso.
    assert (I : In (sid, e) ((sid, e) :: t)) by now left.
    destruct (CA sid e I) as [L _]. destruct (nth_error (heap s) e) as [en|] eqn:G; [|apply nth_error_None in G; lia].
    destruct (AC e en G) as (C & P & _).
    assert (X : closedf s e = true) by (unfold closedf; now rewrite G).
    destruct (CD e L X) as [[Q _]|[_ Q]]; [lia|]. now apply (Q sid). }
  split; auto. intros e en G. destruct (AC e en G) as (C & P & PC). split; auto.
  destruct (EI e en G) as [CO PO]. unfold closes_ok, pc_ok, has_sock in *. rewrite C in CO. simpl in CO.
  split.
  - unfold reply_running. destruct (e_pc en) eqn:Q; auto; try contradiction.
    destruct (e_sock en) eqn:K; [lia|]. destruct PO as [_ PO]. discriminate (PO eq_refl).
  - intros k K. rewrite K in CO. split; auto.
    destruct (e_pc en) eqn:Q; auto; try contradiction; try lia.
    destruct PO as [PO _]. pose proof (PO eq_refl) as Z. rewrite K in Z. discriminate Z.
Qed.

(* C07_active_kept / C07_idle_expiry, relative to the tick *)
Definition sw_todo (s : state) : list nat := match sw s with SClose cl => fst cl | _ => [] end.
Definition is_closed (s : state) (e : nat) : Prop := exists en, nth_error (heap s) e = Some en /\ e_closed en = true.

Lemma sw_todo_rl_after s cl x : sw_todo (rl_after s cl x) = sw_todo s.
Proof. unfold rl_after, sw_todo. destruct cl as [[|] [|]]; try destruct x; reflexivity. Qed.
Lemma sw_todo_sw_after s cl : sw_todo (sw_after s cl) = fst cl.
Proof. unfold sw_after, sw_todo. destruct cl as [[|] [|]]; reflexivity. Qed.

Lemma tick_snapshot s s' ev : step timeout s ATick = Some (s', ev) ->
  next_tick s <= now s /\ next_tick s' = next_tick s + idleCleanupIntervalMs /\
  forall e, In e (sw_todo s') <-> In e (map snd (table s)) /\ idle timeout s e = true.
Proof.
  simpl. destruct (sw s) eqn:ES; try discriminate. destruct (next_tick s <=? now s) eqn:Q; [|discriminate].
  intros H; inversion H; subst; clear H. apply N.leb_le in Q. split; auto. split.
  - unfold sw_after. destruct (filter _ _); reflexivity.
  - intros e. rewrite <- (filter_In (idle timeout s)). destruct (filter (idle timeout s) (map snd (table s))); simpl; tauto.
Qed.

Lemma is_closed_step s a s' ev e : step timeout s a = Some (s', ev) -> is_closed s e -> is_closed s' e.
Proof.
  intros H (en & G & C). destruct (closed_forever _ _ _ _ _ _ H G C) as (en' & G' & C' & _). exists en'. auto.
Qed.

Lemma close1_sw s e s' won ev : close1 s e = Some (s', won, ev) -> sw s' = sw s.
Proof.
  intros H. apply close1_spec in H. destruct H as (en & G & [(C & -> & _)|(C & _ & -> & _)]); reflexivity.
Qed.

Lemma sw_todo_step s a s' ev e : step timeout s a = Some (s', ev) -> In e (sw_todo s) -> In e (sw_todo s') \/ is_closed s' e.
Proof.
  destruct a as [sid0 c| | | | | | |ok0|ok0| |e1 ok0|e1|e1 ok0|t e1|t|t| | | |d]; simpl; intros H I.
  all: dmatch H; inversion H; subst; clear H; unfold get in *.
  all: try (left; rewrite ?sw_todo_rl_after; exact I).
  all: try (unfold sw_todo in I; simpl in I;
            repeat match goal with E : sw _ = _ |- _ => rewrite E in I end; simpl in I; contradiction).
  - (* AClose1 TRL *)
    left. rewrite sw_todo_rl_after.
    match goal with H : closer_c1 _ _ _ = Some _ |- _ => apply closer_c1_spec in H; destruct H as (won & C1 & _) end.
    unfold sw_todo in *. now rewrite (close1_sw _ _ _ _ _ C1).
  - (* AClose1 TSW *)
    rewrite sw_todo_sw_after.
    match goal with E : sw s = SClose _, H : closer_c1 s _ _ = Some _ |- _ => rename E into ES; rename H into HC end.
    unfold sw_todo in I. rewrite ES in I. apply closer_c1_spec in HC. destruct HC as (won & C1 & _ & ->).
    destruct (Nat.eq_dec e e1) as [->|N]; [right|left; now apply In_remove_nat].
    unfold is_closed. rewrite heap_sw_after.
    apply close1_spec in C1. destruct C1 as (en & G & [(C & -> & _)|(C & _ & -> & _)]); unfold get in G.
    + exists en. split; auto.
    + eexists. split; [simpl; eapply nth_upd_eq; eauto|reflexivity].
  - (* AClose1 TRP won *)
    left. match goal with H : close1 _ _ = Some _ |- _ => pose proof (close1_sw _ _ _ _ _ H) as W end.
    unfold sw_todo in *. simpl. now rewrite W.
  - (* AClose1 TRP lost *)
    left. match goal with H : close1 _ _ = Some _ |- _ => pose proof (close1_sw _ _ _ _ _ H) as W end.
    unfold sw_todo in *. simpl. now rewrite W.
  - (* ACloseLog TSW *)
    left. match goal with H : closer_log _ _ = Some _ |- _ => unfold closer_log in H; dmatch H; inversion H; subst end.
    unfold sw_todo in *. simpl. match goal with E : sw s = _ |- _ => rewrite E in I end. exact I.
  - (* ACloseDel TRL *)
    left. rewrite sw_todo_rl_after.
    match goal with H : closer_del _ _ = Some _ |- _ => unfold closer_del in H; dmatch H; inversion H; subst end. exact I.
  - (* ACloseDel TSW *)
    left. rewrite sw_todo_sw_after.
    match goal with H : closer_del _ _ = Some _ |- _ => unfold closer_del in H; dmatch H; inversion H; subst end.
    unfold sw_todo in *. match goal with E : sw s = _ |- _ => rewrite E in I end. exact I.
Qed.

Lemma sweep_closes acts : forall s s' tr e, run timeout s acts = Some (s', tr) ->
  In e (sw_todo s) \/ is_closed s e -> In e (sw_todo s') \/ is_closed s' e.
Proof.
  induction acts as [|a t IH]; simpl; intros s s' tr e H I.
  - inversion H; subst; auto.
  - destruct (step timeout s a) as [[s1 ev]|] eqn:S; [|discriminate].
    destruct (run timeout s1 t) as [[s2 tr']|] eqn:R; [|discriminate].
    inversion H; subst. eapply IH; [exact R|]. destruct I as [I|I].
    + eapply sw_todo_step; eauto.
    + right. eapply is_closed_step; eauto.
Qed.

(* C07_idle_expiry: an entry of the table that is idle at a tick is in the sweeper's list, and whenever
   the sweeper is back waiting for the next tick (or has returned) that entry is closed *)
Lemma idle_expiry s s1 ev e acts s2 tr :
  step timeout s ATick = Some (s1, ev) -> In e (map snd (table s)) -> idle timeout s e = true ->
  run timeout s1 acts = Some (s2, tr) -> sw_todo s2 = [] -> is_closed s2 e.
Proof.
  intros T I D R W. destruct (tick_snapshot _ _ _ T) as (_ & _ & X).
  assert (A : In e (sw_todo s1)) by (apply X; auto).
  destruct (sweep_closes _ _ _ _ e R (or_introl A)) as [B|B]; auto. rewrite W in B. destruct B.
Qed.

(* C07_active_kept: the tick selects nothing but idle entries, and the sweeper closes nothing but
   selected entries *)
Lemma active_kept s s1 ev e :
  step timeout s ATick = Some (s1, ev) -> idle timeout s e = false -> ~ In e (sw_todo s1).
Proof.
  intros T D I. destruct (tick_snapshot _ _ _ T) as (_ & _ & X). apply X in I. destruct I. congruence.
Qed.

Lemma sweeper_closes_only_listed s e s' ev : step timeout s (AClose1 TSW e) = Some (s', ev) -> In e (sw_todo s).
Proof.
  simpl. destruct (sw s) as [|cl|] eqn:ES; try discriminate. destruct (closer_c1 s cl e) as [[[s0 c] ev0]|] eqn:C; [|discriminate].
  intros _. unfold sw_todo. rewrite ES. unfold closer_c1 in C. destruct cl as [todo [x|]]; [discriminate|].
  simpl. destruct (mem_nat e todo) eqn:M; [|discriminate]. clear C.
  clear ES. induction todo as [|h t IH]; simpl in *; [discriminate|]. apply orb_true_iff in M. destruct M as [M|M].
  - apply Nat.eqb_eq in M. now left.
  - right. auto.
Qed.
End Final.

(* non-vacuity: two sessions, one expires at the third sweep (the other one is kept by an EMPTY datagram from the
   remote, relayed with length 0), its id is reused on a new socket, the connection is lost; the run is accepted by
   the LTS and ends in a terminal state *)
Definition ex_acts : list action :=
  [ARecv 1 true; ALookup; AInsert; AFeed; ADial true; AWrite true;
   ARecv 2 true; ALookup; AInsert; AFeed; ADial true; AWrite true;
   AAdvance 1000; ATick;
   ARead 1 true 0; AStamp 1; ASend 1 true;
   AAdvance 1000; ATick;
   AAdvance 1000; ATick;
   AClose1 TSW 0; ACloseLog TSW; ACloseDel TSW;
   ARead 0 false 0; AClose1 (TRP 0) 0;
   ARecv 1 true; ALookup; AInsert; AFeed; ADial true; AWrite true;
   ARecvErr; ASnapAll;
   AClose1 TRL 2; ACloseLog TRL; ACloseDel TRL; AClose1 TRL 1; ACloseLog TRL; ACloseDel TRL;
   AStop; ARead 1 false 0; AClose1 (TRP 1) 1; ARead 2 false 0; AClose1 (TRP 2) 2].

Lemma example_run :
  exists s tr, run 2000 init ex_acts = Some (s, tr) /\ terminal s = true /\ table s = [] /\
    length (heap s) = 3%nat /\ nsock s = 3 /\
    tr = [ERecv 1 true; EDial 1 (Some 0); EWrite 0 1 true; ERecv 2 true; EDial 2 (Some 1); EWrite 1 2 true;
          EAdvance 1000; ERead 1 true 0; ESend 1 2 true 0; EAdvance 1000; EAdvance 1000;
          EClose 0; ELogClose 1; ERead 0 false 0;
          ERecv 1 true; EDial 1 (Some 2); EWrite 2 1 true; ERecvErr;
          EClose 2; ELogClose 1; EClose 1; ELogClose 2; ERead 1 false 0; ERead 2 false 0].
Proof. eexists; eexists. vm_compute. repeat split. Qed.
