(* C07 proofs (model/C07_UDPSessions.v).  The lemmas at the end carry the statements of props/C07.v.
   Structure: every action changes at most one existing entry, by a composition of four entry-level
   moves (estep), or appends one fresh entry (step_hrel).  Per-entry invariants are then proved on
   estep once; table / program-counter invariants on step. *)
From Hy Require Import model.C07_UDPSessions.
From Coq Require Import NArith Arith PeanoNat List Bool Lia Relations.
Import ListNotations.
Local Open Scope N_scope.

(* ------------------------------------------------------------------ *)
(* list helpers                                                        *)
(* ------------------------------------------------------------------ *)
Lemma upd_length {A} i (x : A) l : length (upd i x l) = length l.
Proof. revert i; induction l as [|h t IH]; intros [|i]; simpl; auto. Qed.

Lemma nth_upd_eq {A} i (x y : A) l : nth_error l i = Some y -> nth_error (upd i x l) i = Some x.
Proof. revert i; induction l as [|h t IH]; intros [|i]; simpl; intros H; try discriminate; auto. Qed.

Lemma nth_upd_neq {A} i j (x : A) l : i <> j -> nth_error (upd i x l) j = nth_error l j.
Proof. revert i j; induction l as [|h t IH]; intros [|i] [|j] H; simpl; auto; congruence. Qed.

Lemma nth_upd_none {A} i j (x : A) l : nth_error l j = None -> nth_error (upd i x l) j = None.
Proof.
  intros H. apply nth_error_None. rewrite upd_length. now apply nth_error_None.
Qed.

Lemma upd_upd {A} i (x y : A) l : upd i x (upd i y l) = upd i x l.
Proof. revert i; induction l as [|h t IH]; intros [|i]; simpl; auto. now rewrite IH. Qed.

(* ------------------------------------------------------------------ *)
(* entry-level moves                                                   *)
(* ------------------------------------------------------------------ *)
Definition has_sock (en : entry) : bool := match e_sock en with Some _ => true | None => false end.

Inductive estep (ns : N) : entry -> entry -> Prop :=
| ES_pc en p : p <> PNone -> e_pc en <> PNone -> estep ns en (set_pc en p)
| ES_last en t : estep ns en (set_last en t)
| ES_dial en : e_closed en = false ->
    estep ns en (mkE (e_sid en) (Some ns) false (e_last en) (e_closes en) PRead)
| ES_close en : e_closed en = false ->
    estep ns en (mkE (e_sid en) (e_sock en) true (e_last en)
                     (match e_sock en with Some _ => S (e_closes en) | None => e_closes en end) (e_pc en)).

Definition erel (ns : N) := clos_refl_trans entry (estep ns).

Definition fresh (en : entry) : Prop :=
  e_sock en = None /\ e_closed en = false /\ e_closes en = 0%nat /\ e_pc en = PNone.

Definition hrel (ns : N) (h h' : list entry) : Prop :=
  (forall e en, nth_error h e = Some en -> exists en', nth_error h' e = Some en' /\ erel ns en en') /\
  (forall e en', nth_error h' e = Some en' -> nth_error h e = None -> fresh en').

Lemma hrel_refl ns h : hrel ns h h.
Proof.
  split.
  - intros e en H. exists en. split; auto. apply rt_refl.
  - intros e en' H1 H2. congruence.
Qed.

Lemma hrel_upd ns h e0 en0 x : nth_error h e0 = Some en0 -> erel ns en0 x -> hrel ns h (upd e0 x h).
Proof.
  intros H0 R. split.
  - intros e en H. destruct (Nat.eq_dec e0 e) as [->|N].
    + exists x. split; [eapply nth_upd_eq; eauto|]. congruence.
    + exists en. split; [rewrite nth_upd_neq; auto | apply rt_refl].
  - intros e en' H1 H2. rewrite nth_upd_none in H1; congruence.
Qed.

Lemma hrel_app ns h en : fresh en -> hrel ns h (h ++ [en]).
Proof.
  intros F. split.
  - intros e x H. exists x. split; [|apply rt_refl]. rewrite nth_error_app1; auto. apply nth_error_Some. congruence.
  - intros e en' H1 H2. apply nth_error_None in H2.
    rewrite nth_error_app2 in H1 by lia. destruct (e - length h)%nat as [|n]; simpl in H1.
    + now inversion H1; subst.
    + destruct n; discriminate.
Qed.

(* ------------------------------------------------------------------ *)
(* every action respects hrel                                          *)
(* ------------------------------------------------------------------ *)
Section Step.
Variable timeout : N.
Notation step := (step timeout).
Notation run := (run timeout).

Lemma close1_spec s e s' won ev : close1 s e = Some (s', won, ev) ->
  exists en, get s e = Some en /\
    ((e_closed en = true /\ s' = s /\ won = false /\ ev = []) \/
     (e_closed en = false /\ won = true /\
      s' = set_entry s e (mkE (e_sid en) (e_sock en) true (e_last en)
                              (match e_sock en with Some _ => S (e_closes en) | None => e_closes en end) (e_pc en)) /\
      ev = match e_sock en with Some k => [EClose k] | None => [] end)).
Proof.
  unfold close1. destruct (get s e) as [en|] eqn:G; [|discriminate].
  destruct (e_closed en) eqn:C; intros H; inversion H; subst; exists en; (split; [auto|]); [left|right]; repeat split; auto.
Qed.

Lemma close1_hrel s e s' won ev : close1 s e = Some (s', won, ev) -> hrel (nsock s) (heap s) (heap s').
Proof.
  intros H. apply close1_spec in H. destruct H as (en & G & [(C & -> & _)|(C & _ & -> & _)]).
  - apply hrel_refl.
  - simpl. eapply hrel_upd; eauto. apply rt_step. now apply ES_close.
Qed.

Lemma closer_c1_spec s cl e s' cl' ev : closer_c1 s cl e = Some (s', cl', ev) ->
  exists won, close1 s e = Some (s', won, ev) /\ snd cl = None /\ cl' = (remove_nat e (fst cl), if won then Some (e, false) else None).
Proof.
  unfold closer_c1. destruct cl as [todo [c|]]; [discriminate|].
  destruct (mem_nat e todo); [|discriminate].
  destruct (close1 s e) as [[[s1 won] ev1]|] eqn:C; [|discriminate].
  intros H; inversion H; subst. exists won. auto.
Qed.

Lemma heap_rl_after s cl x : heap (rl_after s cl x) = heap s.
Proof. unfold rl_after. destruct cl as [[|] [|]]; try destruct x; reflexivity. Qed.
Lemma heap_sw_after s cl : heap (sw_after s cl) = heap s.
Proof. unfold sw_after. destruct cl as [[|] [|]]; reflexivity. Qed.
Lemma nsock_rl_after s cl x : nsock (rl_after s cl x) = nsock s.
Proof. unfold rl_after. destruct cl as [[|] [|]]; try destruct x; reflexivity. Qed.
Lemma nsock_sw_after s cl : nsock (sw_after s cl) = nsock s.
Proof. unfold sw_after. destruct cl as [[|] [|]]; reflexivity. Qed.
Lemma table_rl_after s cl x : table (rl_after s cl x) = table s.
Proof. unfold rl_after. destruct cl as [[|] [|]]; try destruct x; reflexivity. Qed.
Lemma table_sw_after s cl : table (sw_after s cl) = table s.
Proof. unfold sw_after. destruct cl as [[|] [|]]; reflexivity. Qed.

Ltac dmatch H :=
  repeat match type of H with
         | context [match ?x with _ => _ end] => let E := fresh "E" in destruct x eqn:E; try discriminate H
         end.

Lemma step_hrel s a s' ev : step s a = Some (s', ev) -> hrel (nsock s) (heap s) (heap s').
Proof.
  destruct a as [sid c| | | | | | |ok|ok| |e ok|e|e ok|t e|t|t| | | |d]; simpl; intros H.
  all: try (dmatch H; inversion H; subst; clear H; simpl;
            rewrite ?heap_rl_after, ?heap_sw_after; simpl; try apply hrel_refl).
  all: unfold get in *.
  all: try match goal with
       | G : nth_error (heap ?s) ?e = Some ?en |- hrel _ (heap ?s) (upd ?e _ (heap ?s)) =>
           eapply hrel_upd; [exact G|];
           first [ apply rt_step; apply ES_last
                 | apply rt_step; apply ES_dial; assumption
                 | apply rt_step; apply ES_pc; congruence
                 | eapply rt_trans; [apply rt_step, (ES_last _ _ (now s))|]; apply rt_step; apply ES_pc; simpl; congruence ]
       end.
  all: try match goal with
       | H : closer_c1 _ _ _ = Some _ |- _ =>
           apply closer_c1_spec in H; destruct H as (won & C & _); eapply close1_hrel; eauto
       | H : closer_del _ _ = Some _ |- _ =>
           unfold closer_del, get in H; dmatch H; inversion H; subst; simpl; apply hrel_refl
       end.
  - (* AInsert *) apply hrel_app. repeat split.
  - (* AClose1 TRP, won *)
    match goal with H : (_ =? _)%nat = true |- _ => apply Nat.eqb_eq in H; subst end.
    match goal with H : close1 _ _ = Some _ |- _ => apply close1_spec in H;
      destruct H as (en & G & [(C & -> & X & _)|(C & _ & -> & _)]); [discriminate|] end.
    simpl in *. unfold get in G.
    match goal with H : nth_error (upd _ _ _) _ = Some _ |- _ => erewrite nth_upd_eq in H by eauto; inversion H; subst; clear H end.
    rewrite upd_upd. eapply hrel_upd; eauto.
    match goal with H : nth_error (heap s) e = Some ?x |- erel _ ?x _ => idtac end.
    eapply rt_trans; [apply rt_step, ES_close; congruence|]. apply rt_step. apply ES_pc; simpl; congruence.
  - (* AClose1 TRP, lost *)
    match goal with H : (_ =? _)%nat = true |- _ => apply Nat.eqb_eq in H; subst end.
    match goal with H : close1 _ _ = Some _ |- _ => apply close1_spec in H;
      destruct H as (en & G & [(C & -> & _)|(C & X & _)]); [|discriminate] end.
    unfold get in G. eapply hrel_upd; eauto.
    apply rt_step.
    match goal with |- estep _ ?a (set_pc ?b _) => assert (a = b) by congruence; subst end.
    apply ES_pc; congruence.
Qed.
End Step.

(* ------------------------------------------------------------------ *)
(* per-entry invariants                                                *)
(* ------------------------------------------------------------------ *)
Definition closes_ok (en : entry) : Prop :=
  e_closes en = if e_closed en && has_sock en then 1%nat else 0%nat.
Definition pc_ok (en : entry) : Prop := e_pc en = PNone <-> e_sock en = None.
Definition einv (en : entry) : Prop := closes_ok en /\ pc_ok en.

Lemma fresh_einv en : fresh en -> einv en.
Proof.
  intros (A & B & C & D). unfold einv, closes_ok, pc_ok, has_sock. rewrite A, B, C, D. simpl. tauto.
Qed.

Lemma estep_einv ns en en' : estep ns en en' -> einv en -> einv en'.
Proof.
  unfold einv, closes_ok, pc_ok, has_sock. intros H [A B]; inversion H; subst; simpl in *.
  - split; auto. split; intros X; [congruence|]. apply B in X. contradiction.
  - auto.
  - rewrite H0 in A. simpl in A. split; auto. split; discriminate.
  - rewrite H0 in A. simpl in A. rewrite A. split; auto. destruct (e_sock en); auto.
Qed.

Lemma erel_einv ns en en' : erel ns en en' -> einv en -> einv en'.
Proof. induction 1; eauto using estep_einv. Qed.

Lemma estep_keeps ns en en' : estep ns en en' ->
  e_sid en' = e_sid en /\ (e_closed en = true -> e_closed en' = true /\ e_sock en' = e_sock en /\ e_closes en' = e_closes en).
Proof. intros H; inversion H; subst; simpl; split; auto; intros; try congruence; auto. Qed.

Lemma erel_keeps ns en en' : erel ns en en' ->
  e_sid en' = e_sid en /\ (e_closed en = true -> e_closed en' = true /\ e_sock en' = e_sock en /\ e_closes en' = e_closes en).
Proof.
  induction 1.
  - eapply estep_keeps; eauto.
  - auto.
  - destruct IHclos_refl_trans1 as [A B], IHclos_refl_trans2 as [C D]. split; [congruence|].
    intros X. destruct (B X) as (B1 & B2 & B3). destruct (D B1) as (D1 & D2 & D3). repeat split; congruence.
Qed.

(* ------------------------------------------------------------------ *)
(* the table / closed-flag / pending-closer core, on plain functions   *)
(* ------------------------------------------------------------------ *)
Section Core.
Definition Core (tab : list (N * nat)) (n : nat) (f : nat -> N) (c : nat -> bool) (p : nat -> nat) : Prop :=
  (forall sid e, In (sid, e) tab -> (e < n)%nat /\ f e = sid) /\
  NoDup (map fst tab) /\
  (forall e, (e < n)%nat -> c e = false -> In (f e, e) tab /\ p e = 0%nat) /\
  (forall e, (e < n)%nat -> c e = true ->
     (p e = 1%nat /\ In (f e, e) tab) \/ (p e = 0%nat /\ forall sid, ~ In (sid, e) tab)).

Lemma remove_sid_In sid tab x : In x (remove_sid sid tab) <-> In x tab /\ fst x <> sid.
Proof.
  induction tab as [|[k e] t IH]; simpl; [tauto|].
  destruct (k =? sid) eqn:E.
  - apply N.eqb_eq in E. subst. rewrite IH. split; [tauto|]. intros [[<-|H] N]; simpl in *; tauto.
  - apply N.eqb_neq in E. simpl. rewrite IH. split.
    + intros [<-|[H N]]; simpl; auto.
    + intros [[<-|H] N]; auto.
Qed.

Lemma remove_sid_nodup sid tab : NoDup (map fst tab) -> NoDup (map fst (remove_sid sid tab)).
Proof.
  induction tab as [|[k e] t IH]; simpl; intros H; auto.
  inversion H; subst. destruct (k =? sid); auto. simpl. constructor; auto.
  intros X. apply H2. apply in_map_iff in X. destruct X as (x & <- & X). apply remove_sid_In in X.
  apply in_map. tauto.
Qed.

Lemma nodup_fst_inj (tab : list (N * nat)) k a b : NoDup (map fst tab) -> In (k, a) tab -> In (k, b) tab -> a = b.
Proof.
  induction tab as [|[k0 e0] t IH]; simpl; intros H A B; [contradiction|].
  inversion H; subst. destruct A as [A|A], B as [B|B].
  - congruence.
  - inversion A; subst. exfalso. apply H2. change k with (fst (k, b)). now apply in_map.
  - inversion B; subst. exfalso. apply H2. change k with (fst (k, a)). now apply in_map.
  - auto.
Qed.

Lemma core_ext tab n f c p f' c' p' :
  Core tab n f c p -> (forall e, (e < n)%nat -> f' e = f e /\ c' e = c e /\ p' e = p e) -> Core tab n f' c' p'.
Proof.
  intros (A & B & C & D) H. split; [|split; [|split]]; auto.
  - intros sid e I. apply A in I. destruct I as [L <-]. split; auto. now apply H.
  - intros e L E. destruct (H e L) as (X & Y & Z). rewrite X, Z. apply C; congruence.
  - intros e L E. destruct (H e L) as (X & Y & Z). rewrite X, Z. apply D; congruence.
Qed.

Lemma core_close tab n f c p c' p' e :
  Core tab n f c p -> (e < n)%nat -> c e = false -> c' e = true -> p' e = 1%nat ->
  (forall x, x <> e -> c' x = c x /\ p' x = p x) -> Core tab n f c' p'.
Proof.
  intros (A & B & C & D) L E E' P' H. split; [|split; [|split]]; auto.
  - intros e0 L0 E0. destruct (Nat.eq_dec e0 e) as [->|N]; [congruence|]. destruct (H e0 N) as [X Y]. rewrite Y. apply C; congruence.
  - intros x Lx Ex. destruct (Nat.eq_dec x e) as [->|N].
    + left. split; auto. now apply C.
    + destruct (H x N) as [X Y]. rewrite Y. apply D; congruence.
Qed.

Lemma core_del tab n f c p p' e :
  Core tab n f c p -> (e < n)%nat -> c e = true -> p e = 1%nat -> p' e = 0%nat ->
  (forall x, x <> e -> p' x = p x) -> Core (remove_sid (f e) tab) n f c p'.
Proof.
  intros (A & B & C & D) L E P P' H.
  assert (Ine : In (f e, e) tab).
  { destruct (D e L E) as [[_ X]|[X _]]; auto. congruence. }
  assert (K : forall x, x <> e -> (x < n)%nat -> In (f x, x) tab -> In (f x, x) (remove_sid (f e) tab)).
  { intros x N Lx I. apply remove_sid_In. split; auto. simpl. intros Q. apply N.
    rewrite Q in I. eapply nodup_fst_inj; eauto. }
  split; [|split; [|split]].
  - intros sid e0 I. apply remove_sid_In in I. now apply A.
  - now apply remove_sid_nodup.
  - intros e0 L0 E0. destruct (Nat.eq_dec e0 e) as [->|N]; [congruence|]. rewrite (H e0 N). split; [|now apply C].
    apply K; auto. now apply C.
  - intros x Lx Ex. destruct (Nat.eq_dec x e) as [->|N].
    + right. split; auto. intros sid I. apply remove_sid_In in I. destruct I as [I Q]. simpl in Q.
      apply A in I. destruct I. congruence.
    + rewrite (H x N). destruct (D x Lx Ex) as [[X Y]|[X Y]].
      * left. split; auto.
      * right. split; auto. intros sid I. apply remove_sid_In in I. now apply (Y sid).
Qed.

Lemma remove_sid_id sid tab : (forall e, ~ In (sid, e) tab) -> remove_sid sid tab = tab.
Proof.
  induction tab as [|[k e] t IH]; simpl; intros H; auto.
  destruct (k =? sid) eqn:E.
  - apply N.eqb_eq in E. subst. exfalso. apply (H e). now left.
  - f_equal. apply IH. intros x I. apply (H x). now right.
Qed.

Lemma core_insert tab n f c p f' c' p' sid :
  Core tab n f c p -> (forall e, ~ In (sid, e) tab) ->
  f' n = sid -> c' n = false -> p' n = 0%nat ->
  (forall x, (x < n)%nat -> f' x = f x /\ c' x = c x /\ p' x = p x) ->
  Core ((sid, n) :: remove_sid sid tab) (S n) f' c' p'.
Proof.
  intros HC Hno F' C' P' H. rewrite (remove_sid_id _ _ Hno).
  pose proof (core_ext _ _ _ _ _ _ _ _ HC H) as (A & B & C & D). clear HC.
  split; [|split; [|split]].
  - intros k e [X|X]; [inversion X; subst; split; [lia|auto]|]. apply A in X. split; [lia|tauto].
  - simpl. constructor; auto. intros X. apply in_map_iff in X. destruct X as ([k e] & Q & X). simpl in Q. subst.
    now apply (Hno e).
  - intros e Le Ee. destruct (Nat.eq_dec e n) as [->|N]; [split; [left; congruence|auto]|].
    assert (Le' : (e < n)%nat) by lia. destruct (C e Le' Ee). split; auto. now right.
  - intros x Lx Ex. destruct (Nat.eq_dec x n) as [->|N]; [congruence|].
    assert (Lx' : (x < n)%nat) by lia. destruct (D x Lx' Ex) as [[X Y]|[X Y]].
    + left. split; auto. now right.
    + right. split; auto. intros k [I|I]; [inversion I; subst; lia|]. now apply (Y k).
Qed.
End Core.

(* ------------------------------------------------------------------ *)
(* the state invariant                                                 *)
(* ------------------------------------------------------------------ *)
Definition sidf (s : state) (e : nat) : N :=
  match nth_error (heap s) e with Some en => e_sid en | None => 0 end.
Definition closedf (s : state) (e : nat) : bool :=
  match nth_error (heap s) e with Some en => e_closed en | None => true end.
Definition b2n (b : bool) : nat := if b then 1%nat else 0%nat.
Definition cur_is (c : option (nat * bool)) (e : nat) : bool :=
  match c with Some (x, _) => Nat.eqb x e | None => false end.
Definition rl_cur (s : state) : option (nat * bool) := match rl s with RClose cl _ => snd cl | _ => None end.
Definition sw_cur (s : state) : option (nat * bool) := match sw s with SClose cl => snd cl | _ => None end.
Definition pc_pend (en : entry) : bool := match e_pc en with PC2 | PC3 => true | _ => false end.
Definition hp (s : state) (e : nat) : nat :=
  match nth_error (heap s) e with Some en => b2n (pc_pend en) | None => 0%nat end.
(* number of threads that have won part 1 of CloseWithErr on entry e and still owe its part 2 *)
Definition pend (s : state) (e : nat) : nat :=
  (b2n (cur_is (rl_cur s) e) + b2n (cur_is (sw_cur s) e) + hp s e)%nat.

Definition rl_ok (s : state) : Prop :=
  match rl s with
  | RNew sid _ => forall e, ~ In (sid, e) (table s)
  | RFeed e sid _ | RInit e sid | RWrite e sid => (e < length (heap s))%nat /\ sidf s e = sid
  | RClose (todo, _) true => forall e, (e < length (heap s))%nat -> closedf s e = false -> In e todo
  | RDone => forall e, (e < length (heap s))%nat -> closedf s e = true
  | _ => True
  end.

Definition curv (s : state) : Prop :=
  forall e, cur_is (rl_cur s) e = true \/ cur_is (sw_cur s) e = true -> (e < length (heap s))%nat.

Definition all_einv (s : state) : Prop := forall e en, nth_error (heap s) e = Some en -> einv en.

Definition Inv (s : state) : Prop :=
  Core (table s) (length (heap s)) (sidf s) (closedf s) (pend s) /\ curv s /\ rl_ok s /\ all_einv s.

Lemma Inv_init : Inv init.
Proof.
  unfold Inv, init, Core, curv, rl_ok, all_einv; simpl.
  split; [split; [|split; [|split]]|split; [|split]].
  - intros sid e [].
  - constructor.
  - intros e L. inversion L.
  - intros e L. inversion L.
  - intros e [H|H]; discriminate.
  - exact I.
  - intros [|e] en H; discriminate.
Qed.

Definition ptw (s s' : state) : Prop :=
  forall e, (e < length (heap s))%nat -> sidf s' e = sidf s e /\ closedf s' e = closedf s e /\ pend s' e = pend s e.

Definition same_cur (s s' : state) : Prop :=
  forall e, cur_is (rl_cur s') e = cur_is (rl_cur s) e /\ cur_is (sw_cur s') e = cur_is (sw_cur s) e.

Lemma ptw_same s s' : heap s' = heap s -> same_cur s s' -> ptw s s'.
Proof. intros A B e L. destruct (B e) as [B1 B2]. unfold sidf, closedf, pend, hp. now rewrite A, B1, B2. Qed.

Lemma ptw_upd s s' e0 en en' :
  nth_error (heap s) e0 = Some en -> heap s' = upd e0 en' (heap s) ->
  e_sid en' = e_sid en -> e_closed en' = e_closed en -> pc_pend en' = pc_pend en ->
  same_cur s s' -> ptw s s'.
Proof.
  intros G A S1 S2 S3 B e L. destruct (B e) as [B1 B2]. unfold sidf, closedf, pend, hp. rewrite A, B1, B2.
  destruct (Nat.eq_dec e0 e) as [->|N].
  - rewrite (nth_upd_eq _ _ _ _ G), G. rewrite S1, S2, S3. auto.
  - rewrite nth_upd_neq by auto. auto.
Qed.

Lemma Inv_frame s s' :
  Inv s -> table s' = table s -> length (heap s') = length (heap s) -> ptw s s' ->
  same_cur s s' -> rl_ok s' -> all_einv s' -> Inv s'.
Proof.
  intros (A & B & C & D) T L P Q R E. split; [|split; [|split]]; auto.
  - rewrite T, L. eapply core_ext; eauto.
  - intros e H. destruct (Q e) as [Q1 Q2]. rewrite Q1, Q2 in H. rewrite L. now apply B.
Qed.

Lemma rl_ok_mono s s' :
  rl_ok s -> rl s' = rl s -> length (heap s') = length (heap s) ->
  (forall e, (e < length (heap s))%nat -> sidf s' e = sidf s e /\ (closedf s e = true -> closedf s' e = true)) ->
  (forall sid e, In (sid, e) (table s') -> In (sid, e) (table s)) -> rl_ok s'.
Proof.
  unfold rl_ok. intros H R L P T. rewrite R, L. destruct (rl s) as [| | | | | |[todo cur] [|]| |]; auto.
  - intros e I. apply (H e). now apply T.
  - destruct H as [A B]. split; auto. rewrite <- B. now apply P.
  - destruct H as [A B]. split; auto. rewrite <- B. now apply P.
  - destruct H as [A B]. split; auto. rewrite <- B. now apply P.
  - intros e Le C. apply H; auto. destruct (closedf s e) eqn:X; auto. apply (P e Le) in X. congruence.
  - intros e Le. apply P; auto.
Qed.

Lemma ptw_mono s s' : ptw s s' ->
  forall e, (e < length (heap s))%nat -> sidf s' e = sidf s e /\ (closedf s e = true -> closedf s' e = true).
Proof. intros P e L. destruct (P e L) as (A & B & _). split; auto. congruence. Qed.

Lemma find_In sid tab e : C07_UDPSessions.find sid tab = Some e -> In (sid, e) tab.
Proof.
  induction tab as [|[k x] t IH]; simpl; [discriminate|]. destruct (k =? sid) eqn:E.
  - apply N.eqb_eq in E. intros H; inversion H; subst. now left.
  - intros H. right. auto.
Qed.

Lemma find_None sid tab : C07_UDPSessions.find sid tab = None -> forall e, ~ In (sid, e) tab.
Proof.
  induction tab as [|[k x] t IH]; simpl; intros H e; [tauto|]. destruct (k =? sid) eqn:E; [discriminate|].
  apply N.eqb_neq in E. intros [X|X]; [inversion X; congruence|]. now apply (IH H e).
Qed.

Lemma Inv_rl_after s cl x : Inv (set_rl s (RClose cl x)) -> Inv (rl_after s cl x).
Proof.
  intros HI. unfold rl_after. destruct cl as [[|a todo] [c|]]; try exact HI. destruct x; [|exact HI].
  eapply Inv_frame; [exact HI| reflexivity | reflexivity | apply ptw_same; [reflexivity|] | | | apply HI].
  - intros e. split; reflexivity.
  - intros e. split; reflexivity.
  - destruct HI as (_ & _ & R & _). unfold rl_ok in *. simpl in *. intros e Le.
    destruct (closedf _ e) eqn:X; auto. exfalso. apply (R e Le). exact X.
Qed.

Lemma Inv_sw_after s cl : Inv (set_sw s (SClose cl)) -> Inv (sw_after s cl).
Proof.
  intros HI. unfold sw_after. destruct cl as [[|a todo] [c|]]; exact HI.
Qed.

Lemma sidf_upd s e0 en en' h' x : nth_error (heap s) e0 = Some en -> h' = upd e0 en' (heap s) -> e_sid en' = e_sid en ->
  match nth_error h' x with Some y => e_sid y | None => 0 end = sidf s x.
Proof.
  intros G -> S. unfold sidf. destruct (Nat.eq_dec e0 x) as [->|N].
  - rewrite (nth_upd_eq _ _ _ _ G), G. auto.
  - rewrite nth_upd_neq; auto.
Qed.

Lemma Inv_core s : Inv s -> Core (table s) (length (heap s)) (sidf s) (closedf s) (pend s).
Proof. intros H; apply H. Qed.

Lemma pend_pos s e : Inv s -> (e < length (heap s))%nat -> (1 <= pend s e)%nat -> closedf s e = true /\ pend s e = 1%nat.
Proof.
  intros HI L P. destruct (Inv_core _ HI) as (A & B & C & D).
  destruct (closedf s e) eqn:X.
  - split; auto. destruct (D e L X) as [[Y _]|[Y _]]; lia.
  - destruct (C e L X). lia.
Qed.

Lemma Inv_close_won s s' e en en' :
  Inv s -> nth_error (heap s) e = Some en -> e_closed en = false ->
  heap s' = upd e en' (heap s) -> e_sid en' = e_sid en -> e_closed en' = true ->
  table s' = table s ->
  pend s' e = 1%nat -> (forall x, x <> e -> pend s' x = pend s x) ->
  curv s' -> rl_ok s' -> all_einv s' -> Inv s'.
Proof.
  intros HI G C0 HH S1 C1 T P1 P2 CV RO EI.
  assert (L : (e < length (heap s))%nat) by (apply nth_error_Some; congruence).
  split; [|split; [|split]]; auto.
  rewrite T, HH, upd_length.
  eapply core_ext with (f := sidf s) (c := closedf s') (p := pend s').
  - eapply core_close with (e := e); [apply (Inv_core _ HI) | exact L | | | exact P1 |].
    + unfold closedf. now rewrite G.
    + unfold closedf. rewrite HH, (nth_upd_eq _ _ _ _ G). exact C1.
    + intros x N. split; [|now apply P2]. unfold closedf. rewrite HH, nth_upd_neq; auto.
  - intros x Lx. repeat split; auto. unfold sidf at 1. rewrite HH. eapply sidf_upd; eauto.
Qed.

Lemma Inv_del s s' e en :
  Inv s -> nth_error (heap s) e = Some en -> (1 <= pend s e)%nat ->
  table s' = remove_sid (e_sid en) (table s) -> length (heap s') = length (heap s) ->
  (forall x, sidf s' x = sidf s x /\ closedf s' x = closedf s x) ->
  pend s' e = 0%nat -> (forall x, x <> e -> pend s' x = pend s x) ->
  curv s' -> rl_ok s' -> all_einv s' -> Inv s'.
Proof.
  intros HI G P T LL SC P0 P2 CV RO EI.
  assert (L : (e < length (heap s))%nat) by (apply nth_error_Some; congruence).
  destruct (pend_pos _ _ HI L P) as [CL P1].
  split; [|split; [|split]]; auto.
  rewrite T, LL.
  eapply core_ext with (f := sidf s) (c := closedf s) (p := pend s').
  - replace (e_sid en) with (sidf s e) by (unfold sidf; now rewrite G).
    eapply core_del; [apply (Inv_core _ HI) | exact L | exact CL | exact P1 | exact P0 | exact P2].
  - intros x Lx. destruct (SC x). auto.
Qed.

Section Pres.
Variable timeout : N.

Ltac dmatch H :=
  repeat match type of H with
         | context [match ?x with _ => _ end] => let E := fresh "E" in destruct x eqn:E; try discriminate H
         end.

Lemma step_einv s a s' ev : Inv s -> step timeout s a = Some (s', ev) -> all_einv s'.
Proof.
  intros HI H. pose proof (step_hrel timeout _ _ _ _ H) as [H1 H2]. intros e en' G.
  destruct (nth_error (heap s) e) as [en|] eqn:G0.
  - destruct (H1 e en G0) as (en2 & G2 & R). rewrite G in G2. inversion G2; subst.
    eapply erel_einv; eauto. destruct HI as (_ & _ & _ & D). eapply D; eauto.
  - apply fresh_einv. eapply H2; eauto.
Qed.
