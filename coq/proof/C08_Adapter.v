(* C08, policy adapter: lemmas about model/C08_Adapter.v *)
From Hy Require Import model.C09_ACL proof.C09_ACL model.C08_Adapter.
From Coq Require Import NArith List.
Import ListNotations.
Local Open Scope N_scope.

Lemma adapter_same_walk ip_str rs dflt resolve h p :
  adapter_check_udp ip_str rs dflt resolve h p = adapter_udp ip_str rs dflt resolve h p.
Proof. reflexivity. Qed.

Lemma adapter_same_policy ip_str rs dflt resolve accepts h p :
  check_allows ip_str rs dflt resolve accepts h p = dial_allows ip_str rs dflt resolve accepts h p.
Proof. reflexivity. Qed.

(* the host the rules see: the name with the addresses the resolver stage stored *)
Definition seen_host (resolve : str -> option (ip * ip)) (h : str) : host :=
  match resolve h with Some (v4, v6) => mkHost h v4 v6 | None => mkHost h [] [] end.

Lemma req_host_resolver resolve h p :
  req_host (resolver_stage resolve (mkReq h p None)) = seen_host resolve h.
Proof. unfold req_host, resolver_stage, seen_host; cbn. destruct (resolve h) as [[v4 v6]|]; reflexivity. Qed.

Lemma adapter_check_default ip_str rs dflt resolve h p :
  Forall (fun x => rule_match x (norm_host (seen_host resolve h)) ProtocolUDP p = false) rs ->
  adapter_check_udp ip_str rs dflt resolve h p = (dflt, mkReq h p (resolve h)).
Proof.
  intros H. unfold adapter_check_udp, acl_check_udp.
  rewrite (engine_default rs dflt (resolver_stage resolve (mkReq h p None)) ProtocolUDP).
  - reflexivity.
  - rewrite req_host_resolver. exact H.
Qed.

Lemma adapter_check_first ip_str rs dflt resolve h p pre r post :
  rs = pre ++ r :: post ->
  Forall (fun x => rule_match x (norm_host (seen_host resolve h)) ProtocolUDP p = false) pre ->
  rule_match r (norm_host (seen_host resolve h)) ProtocolUDP p = true ->
  fst (adapter_check_udp ip_str rs dflt resolve h p) = r_ob r /\
  (r_hijack r = [] -> snd (adapter_check_udp ip_str rs dflt resolve h p) = mkReq h p (resolve h)).
Proof.
  intros E Hpre Hr. unfold adapter_check_udp, acl_check_udp.
  rewrite (engine_first rs dflt (resolver_stage resolve (mkReq h p None)) ProtocolUDP pre r post E).
  - split; [reflexivity|]. intros Hh. rewrite Hh. reflexivity.
  - rewrite req_host_resolver. exact Hpre.
  - rewrite req_host_resolver. exact Hr.
Qed.

(* ---- a concrete pipeline: reject(10.0.0.0/8) ; ob1(all), internal.example -> 10.1.2.3 *)
Definition ex_REJECT : N := 1001.
Definition ex_rules : list rule :=
  [ mkRule ex_REJECT (MCIDR [x0a;x00;x00;x00] [xff;x00;x00;x00]) ProtocolBoth 0 65535 [];
    mkRule 1 MAll ProtocolBoth 0 65535 [] ].
Definition ex_name : str := ["i"%byte;"n"%byte;"t"%byte;"e"%byte;"r"%byte;"n"%byte;"a"%byte;"l"%byte;"."%byte;"e"%byte;"x"%byte;"a"%byte;"m"%byte;"p"%byte;"l"%byte;"e"%byte].
Definition ex_resolve (h : str) : option (ip * ip) :=
  if beqb h ex_name then Some ([x0a;x01;x02;x03], []) else Some ([], []).

Lemma example_resolved_name_refused :
  fst (adapter_check_udp ip_str_hex ex_rules 1 ex_resolve ex_name 53) = ex_REJECT /\
  fst (adapter_udp ip_str_hex ex_rules 1 ex_resolve ex_name 53) = ex_REJECT.
Proof. split; vm_compute; reflexivity. Qed.

(* evaluating the rules on Host and Port only is a different policy *)
Lemma hostport_only_refuted :
  exists rs dflt resolve h p,
    fst (adapter_check_udp_hostport ip_str_hex rs dflt h p) <> fst (adapter_udp ip_str_hex rs dflt resolve h p).
Proof.
  exists ex_rules, 1, ex_resolve, ex_name, 53. vm_compute. discriminate.
Qed.
