(* C08 proofs, third layer (model/C08_Fail.v): policies that fail, dial-time policy and per-datagram policy as two
   functions.  The lemmas at the end carry the statements of props/C08.v. *)
From Hy Require Import model.C08_UDPPolicy proof.C08_UDPPolicy model.C08_Fail.
From Coq Require Import NArith List Bool.
Import ListNotations.

(* what the code between checkAddr and the outbound may do with the outbound's three outcomes without breaking the
   property: report "allowed" only when the outbound said so *)
Definition wrapper_safe (iow : pres -> Res bool) : Prop := forall r, iow r = Ok true -> r = PAllow.

Lemma io_result_safe : wrapper_safe io_result.
Proof. intros [| |]; simpl; intros H; congruence. Qed.

Lemma io_recover_into_result_safe : wrapper_safe io_recover_into_result.
Proof. intros [| |]; simpl; intros H; congruence. Qed.

Lemma io_recover_into_local_unsafe : ~ wrapper_safe io_recover_into_local.
Proof. intros H. specialize (H PFail eq_refl). discriminate. Qed.

Section Proofs3.
Variable addr : Type.
Variable aeqb : addr -> addr -> bool.
Hypothesis aeqb_spec : forall a b, aeqb a b = true <-> a = b.
Variable empty : addr.
Variable Qd : addr -> pres.
Variable Qc : addr -> pres.
Variable hook : addr -> option (hookres addr).
Variable iow : pres -> Res bool.
Hypothesis Hsafe : wrapper_safe iow.
(* the hypothesis on the outbound: the per-datagram query never allows what the dial refuses *)
Hypothesis Hcons : forall a, Qc a = PAllow -> Qd a = PAllow.

Notation lookup := (lookup addr aeqb).
Notation checkAddr3 := (checkAddr3 addr aeqb Qc iow).
Notation dial3 := (dial3 addr aeqb empty Qd hook).
Notation feed_tail3 := (feed_tail3 addr aeqb empty Qc iow).
Notation step3 := (step3 addr aeqb empty Qd Qc hook iow).
Notation run3 := (run3 addr aeqb empty Qd Qc hook iow).
Notation wf := (wf_input addr empty).

Let refl3 a : aeqb a a = true.
Proof. now apply aeqb_spec. Qed.

Lemma remove_key_incl3 c k x : In x (remove_key addr aeqb c k) -> In x c.
Proof.
  induction c as [|[k0 w] t IH]; simpl; intros H; auto.
  destruct (aeqb k0 k); simpl in *; intuition.
Qed.

Lemma evict_incl3 c ev x : In x (evict addr aeqb c ev) -> In x c.
Proof.
  unfold evict. destruct (evicted_key addr aeqb c ev); auto. apply remove_key_incl3.
Qed.

(* only destinations for which a FRESH session could be dialed are cached as allowed *)
Definition cache_ok3 (c : cache addr) : Prop := forall a, In (a, true) c -> Qd a = PAllow.

Lemma checkAddr3_ok c a ev r :
  cache_ok3 c -> checkAddr3 c a ev = Ok r ->
  cache_ok3 (c_cache _ r) /\ (c_verdict _ r = true -> Qd a = PAllow).
Proof.
  intros Hc. unfold C08_Fail.checkAddr3. destruct (lookup c a) as [v|] eqn:L.
  - intros H. inversion H; subst; clear H. simpl. split; auto.
    intros V. subst. apply Hc. now apply (lookup_In addr aeqb aeqb_spec).
  - destruct (iow (Qc a)) as [b| |] eqn:W; simpl; intros H; inversion H; subst; clear H. simpl.
    assert (b = true -> Qd a = PAllow) as K.
    { intros E. subst. apply Hcons. now apply Hsafe. }
    split; auto. intros x [E|H].
    + inversion E; subst. now apply K.
    + destruct (N.leb _ _); [apply evict_incl3 in H|]; now apply Hc.
Qed.

Definition inv3 (st : state3 addr) : Prop :=
  match st with
  | S3 _ (Some s) => cache_ok3 (s_cache _ s) /\ (aeqb (s_orig _ s) empty = false -> Qd (s_ov _ s) = PAllow)
  | _ => True
  end.

Lemma dial3_inv a f s d : a <> empty -> dial3 a f = Ok (Some s, d) -> inv3 (S3 _ (Some s)).
Proof.
  unfold C08_Fail.dial3. intros Hne H.
  assert (forall actual,
            match Qd actual with
            | PFail => Panic 3
            | r => if allows r && negb f
                   then Ok (Some (mkSess addr (if aeqb a actual then empty else actual) (if aeqb a actual then empty else a)
                              (if aeqb (if aeqb a actual then empty else a) empty then [(a, true)] else [])), Some actual)
                   else Ok (None, Some actual)
            end = Ok (Some s, d) -> inv3 (S3 _ (Some s))) as K.
  { intros actual H0. destruct (Qd actual) eqn:Qa; simpl in H0; try discriminate.
    destruct (negb f); simpl in H0; [|discriminate].
    inversion H0; subst; clear H0. simpl.
    destruct (aeqb a actual) eqn:E.
    - apply aeqb_spec in E. subst. rewrite !refl3. split.
      + intros b [X|[]]. inversion X; subst. exact Qa.
      + intros X. discriminate.
    - assert (aeqb a empty = false) as Hn.
      { destruct (aeqb a empty) eqn:X; auto. apply aeqb_spec in X. contradiction. }
      rewrite Hn. split; [intros b []|auto]. }
  destruct (hook a) as [[|a'|]|] eqn:Hh; try discriminate.
  - apply (K a); auto.
  - apply (K a'); auto.
Qed.

Lemma tail3_spec s a ev d st o :
  inv3 (S3 _ (Some s)) -> feed_tail3 s a ev d = (st, o) ->
  inv3 st /\ (forall x, o3_out _ o = O3 _ (OFwd _ x) -> Qd x = PAllow) /\
  (o3_out _ o = OPanic _ -> st = S3 _ (Some s)).
Proof.
  intros [Hc Ho]. unfold C08_Fail.feed_tail3.
  destruct (aeqb (s_orig _ s) empty) eqn:E; simpl.
  - destruct (checkAddr3 (s_cache _ s) a ev) as [r| |] eqn:C; intros H; inversion H; subst; clear H; simpl.
    + destruct (checkAddr3_ok _ _ _ _ Hc C) as [Hc' V]. repeat split; auto.
      * intros X. congruence.
      * intros x. destruct (c_verdict _ r); intros X; inversion X; subst. now apply V.
      * destruct (c_verdict _ r); discriminate.
    + split; [split; [auto|intros X; congruence]|]. split; [intros x X; discriminate|auto].
    + split; [split; [auto|intros X; congruence]|]. split; [intros x X; discriminate|auto].
  - intros H; inversion H; subst; clear H; simpl. split; [split; auto|]. split.
    + intros x X. inversion X; subst. now apply Ho.
    + intros X. discriminate.
Qed.

Lemma step3_spec st i st' o :
  wf i -> inv3 st -> step3 st i = (st', o) ->
  inv3 st' /\ (forall x, o3_out _ o = O3 _ (OFwd _ x) -> Qd x = PAllow).
Proof.
  intros Hw Hi. destruct st as [st0|]; simpl.
  2:{ intros H; inversion H; subst; simpl. split; [exact I|discriminate]. }
  destruct i as [a f ev|r|]; simpl.
  - destruct st0 as [s|].
    + intros H. destruct (tail3_spec _ _ _ _ _ _ Hi H) as (A & B & _). auto.
    + destruct (dial3 a f) as [[[s|] d]| |] eqn:D.
      * intros H. destruct (tail3_spec _ _ _ _ _ _ (dial3_inv _ _ _ _ Hw D) H) as (A & B & _). auto.
      * intros H; inversion H; subst; simpl. split; [exact I|discriminate].
      * intros H; inversion H; subst; simpl. split; [exact I|discriminate].
      * intros H; inversion H; subst; simpl. split; [exact I|discriminate].
  - destruct st0; intros H; inversion H; subst; simpl; (split; [auto|discriminate]).
  - intros H; inversion H; subst; simpl. split; [exact I|discriminate].
Qed.

Lemma run3_spec ins : forall st st' os, Forall wf ins -> inv3 st -> run3 st ins = (st', os) ->
  inv3 st' /\ forall o x, In o os -> o3_out _ o = O3 _ (OFwd _ x) -> Qd x = PAllow.
Proof.
  induction ins as [|i t IH]; simpl; intros st st' os Hw Hi H.
  - inversion H; subst. split; auto. intros o x [].
  - destruct (step3 st i) as [st1 o1] eqn:S. destruct (run3 st1 t) as [st2 os'] eqn:R.
    inversion Hw; subst. inversion H; subst.
    destruct (step3_spec _ _ _ _ H2 Hi S) as [Hi1 F1].
    destruct (IH _ _ _ H3 Hi1 R) as [Hi2 F2]. split; auto.
    intros o x [E|Hin]; [subst; now apply F1 | now apply (F2 o x)].
Qed.

(* ---- statements ---- *)

(* whatever failed on the way: a destination is cached as allowed only if a fresh session could be dialed for it *)
Lemma fail_cache_only_allowed ins st os :
  Forall wf ins -> run3 (S3 _ None) ins = (st, os) ->
  match st with S3 _ (Some s) => forall a, In (a, true) (s_cache _ s) -> Qd a = PAllow | _ => True end.
Proof.
  intros Hw H. destruct (run3_spec ins (S3 _ None) st os Hw I H) as [Hi _].
  destruct st as [[s|]|]; auto. destruct Hi as [Hc _]. exact Hc.
Qed.

(* a destination on which the policy did not say "allowed" is never written to, neither by the Feed in which the
   policy failed nor by any later one *)
Lemma fail_never_written ins st os x :
  Forall wf ins -> run3 (S3 _ None) ins = (st, os) -> Qd x <> PAllow ->
  forall o, In o os -> o3_out _ o <> O3 _ (OFwd _ x).
Proof.
  intros Hw H Q o Hin E. destruct (run3_spec ins (S3 _ None) st os Hw I H) as [_ F]. apply Q. now apply (F o x).
Qed.

End Proofs3.

(* a Feed out of which the policy's failure propagates leaves the entry as it was (or wedged, when it was the dial);
   needs nothing of the wrapper or the policy *)
Section Abort.
Variable addr : Type.
Variable aeqb : addr -> addr -> bool.
Hypothesis aeqb_spec : forall a b, aeqb a b = true <-> a = b.
Variable empty : addr.
Variable Qd Qc : addr -> pres.
Variable hook : addr -> option (hookres addr).
Variable iow : pres -> Res bool.

Lemma fresh_tail_answers a f s d :
  dial3 addr aeqb empty Qd hook a f = Ok (Some s, d) ->
  forall ev, o3_out _ (snd (feed_tail3 addr aeqb empty Qc iow s a ev d)) <> OPanic _.
Proof.
  unfold dial3. intros H ev.
  assert (forall actual,
            match Qd actual with
            | PFail => Panic 3
            | r => if allows r && negb f
                   then Ok (Some (mkSess addr (if aeqb a actual then empty else actual) (if aeqb a actual then empty else a)
                              (if aeqb (if aeqb a actual then empty else a) empty then [(a, true)] else [])), Some actual)
                   else Ok (None, Some actual)
            end = Ok (Some s, d) ->
            o3_out _ (snd (feed_tail3 addr aeqb empty Qc iow s a ev d)) <> OPanic _) as K.
  { intros actual H0. destruct (Qd actual); simpl in H0; try discriminate.
    destruct (negb f); simpl in H0; [|discriminate].
    inversion H0; subst; clear H0. unfold feed_tail3, checkAddr3. simpl.
    destruct (aeqb (if aeqb a actual then empty else a) empty) eqn:E; simpl.
    - assert (aeqb a a = true) as R by now apply aeqb_spec. rewrite R. simpl. destruct (aeqb a actual); discriminate.
    - discriminate. }
  destruct (hook a) as [[|a'|]|]; try discriminate; eapply K; eauto.
Qed.

Lemma fail_changes_nothing st i st' o :
  step3 addr aeqb empty Qd Qc hook iow st i = (st', o) -> o3_out _ o = OPanic _ ->
  st' = st \/ (st = S3 _ None /\ st' = SDead _).
Proof.
  destruct st as [st0|]; simpl.
  2:{ intros H; inversion H; subst; simpl. discriminate. }
  destruct i as [a f ev|r|]; simpl.
  - destruct st0 as [s|].
    + unfold feed_tail3. destruct (negb (aeqb (s_orig _ s) empty)).
      * intros H; inversion H; subst; simpl. discriminate.
      * destruct (checkAddr3 addr aeqb Qc iow (s_cache _ s) a ev) as [r| |]; intros H; inversion H; subst; simpl; auto.
        destruct (c_verdict _ r); discriminate.
    + destruct (dial3 addr aeqb empty Qd hook a f) as [[[s|] d]| |] eqn:D.
      * intros H X. exfalso. apply (fresh_tail_answers a f s d D ev). now rewrite H.
      * intros H; inversion H; subst; simpl. discriminate.
      * intros H; inversion H; subst; simpl. auto.
      * intros H; inversion H; subst; simpl. auto.
  - destruct st0; intros H; inversion H; subst; simpl; discriminate.
  - intros H; inversion H; subst; simpl. discriminate.
Qed.
End Abort.

(* ---- the first layer is this layer with one two-valued policy behind both entry points, a hook that does not panic
   and the code's wrapper ---- *)
Section Refines.
Variable addr : Type.
Variable aeqb : addr -> addr -> bool.
Variable empty : addr.
Variable P : addr -> bool.
Variable hook : addr -> hookres addr.

Let Q (a : addr) := pres_of_bool (P a).
Let hk (a : addr) := Some (hook a).

Lemma checkAddr3_refines c a ev :
  checkAddr3 addr aeqb Q io_result c a ev = Ok (checkAddr addr aeqb P c a ev).
Proof.
  unfold checkAddr3, checkAddr. destruct (lookup addr aeqb c a); auto.
  unfold Q, pres_of_bool. destruct (P a); reflexivity.
Qed.

Lemma dial3_refines a f : dial3 addr aeqb empty Q hk a f = Ok (dial addr aeqb empty P hook a f).
Proof.
  unfold dial3, dial, hk, Q, pres_of_bool. destruct (hook a) as [|a'|]; auto.
  - destruct (P a); simpl; destruct (negb f); reflexivity.
  - destruct (P a'); simpl; destruct (negb f); reflexivity.
Qed.

Lemma tail3_refines s a ev d :
  feed_tail3 addr aeqb empty Q io_result s a ev d =
  (S3 _ (fst (feed_tail addr aeqb empty P s a ev d)), lift_obs _ (snd (feed_tail addr aeqb empty P s a ev d))).
Proof.
  unfold feed_tail3, feed_tail. destruct (negb (aeqb (s_orig _ s) empty)); auto.
  rewrite checkAddr3_refines. reflexivity.
Qed.

Lemma step3_refines st i :
  step3 addr aeqb empty Q Q hk io_result (S3 _ st) i =
  (S3 _ (fst (step addr aeqb empty P hook st i)), lift_obs _ (snd (step addr aeqb empty P hook st i))).
Proof.
  destruct i as [a f ev|r|]; simpl.
  - destruct st as [s|]; [apply tail3_refines|].
    rewrite dial3_refines. destruct (dial addr aeqb empty P hook a f) as [[s|] d]; [apply tail3_refines|reflexivity].
  - destruct st; reflexivity.
  - reflexivity.
Qed.

Lemma run3_refines ins : forall st,
  run3 addr aeqb empty Q Q hk io_result (S3 _ st) ins =
  (S3 _ (fst (run addr aeqb empty P hook st ins)), map (lift_obs _) (snd (run addr aeqb empty P hook st ins))).
Proof.
  induction ins as [|i t IH]; intros st; [reflexivity|]. cbn [run3 run].
  rewrite step3_refines. destruct (step addr aeqb empty P hook st i) as [st1 o]. simpl.
  rewrite IH. destruct (run addr aeqb empty P hook st1 t) as [st2 os]. reflexivity.
Qed.
End Refines.

(* ---- non-vacuity and refutation.  Destinations 1 allowed, 2 the policy fails, everything else rejected; no hook;
   the session comes up on 1, then 2, 3, 1, 2 ---- *)
Definition exq (a : N) : pres := if N.eqb a 1 then PAllow else if N.eqb a 2 then PFail else PDeny.
Definition exq_ins : list (input N) :=
  [IDgram N 1%N false 0%N; IDgram N 2%N false 0%N; IDgram N 3%N false 0%N; IDgram N 1%N false 0%N; IDgram N 2%N false 0%N].

Lemma example_policy_fails :
  let r := run3 N N.eqb 0%N exq exq (fun _ => Some HKeep) io_result (S3 N None) exq_ins in
  map (o3_out N) (snd r) = [O3 N (OFwd N 1%N); OPanic N; O3 N (ODrop N); O3 N (OFwd N 1%N); OPanic N] /\
  fst r = S3 N (Some (mkSess N 0%N 0%N [(3%N, false); (1%N, true)])).
Proof. vm_compute. split; reflexivity. Qed.

(* a wrapper that recovers the panic into a local while its own result is unnamed: the failing destination is
   written to, in the Feed in which the policy failed and - from the cache - in every later one *)
Lemma recover_into_local_refuted :
  exists (Q : N -> pres) ins x,
    Q x = PFail /\ Forall (wf_input N 0%N) ins /\
    let r := run3 N N.eqb 0%N Q Q (fun _ => Some HKeep) io_recover_into_local (S3 N None) ins in
    In (O3 N (OFwd N x)) (map (o3_out N) (snd r)) /\
    match fst r with S3 _ (Some s) => In (x, true) (s_cache N s) | _ => False end.
Proof.
  exists exq, exq_ins, 2%N. split; [reflexivity|]. split.
  - unfold exq_ins. repeat constructor; simpl; discriminate.
  - vm_compute. split; [right; left; reflexivity | right; left; reflexivity].
Qed.

(* the dial-time policy and the per-datagram policy must be tied: with a CheckUDP that allows what UDP refuses
   (3 here) the refused destination is written to inside a session opened on another one *)
Lemma inconsistent_check_refuted :
  exists (Qd Qc : N -> pres) ins x,
    Qd x = PDeny /\ Forall (wf_input N 0%N) ins /\
    In (O3 N (OFwd N x))
       (map (o3_out N) (snd (run3 N N.eqb 0%N Qd Qc (fun _ => Some HKeep) io_result (S3 N None) ins))).
Proof.
  exists exq, (fun a => if N.eqb a 3 then PAllow else exq a), exq_ins, 3%N. split; [reflexivity|]. split.
  - unfold exq_ins. repeat constructor; simpl; discriminate.
  - vm_compute. right; right; left; reflexivity.
Qed.

(* ---- leaves ---- *)
Lemma leaf_consistent_real l : l <> LSocks5 false -> leaf_consistent leaf_check leaf_udp l.
Proof. intros H. destruct l as [|[|]| | |b]; unfold leaf_consistent; simpl; auto; try congruence. Qed.

Lemma leaf_http_nil_inconsistent : ~ leaf_consistent leaf_check_http_nil leaf_udp LHttp.
Proof. unfold leaf_consistent. simpl. intros H. specialize (H eq_refl). discriminate. Qed.
