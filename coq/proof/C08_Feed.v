(* C08 proofs for the second layer (model/C08_Feed.v): fragments that disagree about the destination,
   write errors, sessions without a socket.  The lemmas at the end carry statements of props/C08.v. *)
From Hy Require Import model.C08_UDPPolicy proof.C08_UDPPolicy model.C08_Feed.
From Coq Require Import NArith List Bool Lia.
Import ListNotations.

Section FeedProofs.
Variable addr : Type.
Variable aeqb : addr -> addr -> bool.
Hypothesis aeqb_spec : forall a b, aeqb a b = true <-> a = b.
Variable empty : addr.
Variable P : addr -> bool.
Variable hook : addr -> hookres addr.

Notation umsg := (umsg addr).
Notation dfs := (dfs addr).
Notation dfeed := (dfeed addr).
Notation feed_tail_w := (feed_tail_w addr aeqb empty P).
Notation fstep := (fstep addr aeqb empty P hook).
Notation frun := (frun addr aeqb empty P hook).
Notation fstate := (fstate addr).
Notation fwf := (fwf addr empty).
Notation inv := (inv addr aeqb empty P).
Notation dial := (dial addr aeqb empty P hook).

(* ---- the Defragger hands out a message carrying the address of the message just fed ---- *)
Lemma dfeed_addr d m d1 dfm : dfeed d m = (d1, Some dfm) -> u_addr _ dfm = u_addr _ m.
Proof.
  unfold dfeed. destruct (N.leb (u_cnt _ m) 1); [intros H; now inversion H|].
  destruct (N.leb (u_cnt _ m) (u_fid _ m)); [discriminate|].
  destruct (_ || _); [discriminate|].
  destruct (nth_error _ _) as [[x|]|]; try discriminate.
  destruct (N.eqb _ _); [|discriminate]. intros H; inversion H; subst. reflexivity.
Qed.

(* a complete message passes through untouched *)
Lemma dfeed_complete d m : N.leb (u_cnt _ m) 1 = true -> dfeed d m = (d, Some m).
Proof. intros H. unfold dfeed. now rewrite H. Qed.

(* ---- the tail: what is checked is what is written ---- *)
Definition tail_post (s : sess addr) (a : addr) (werr : bool) (ob : fobs addr) : Prop :=
  match fo_out _ ob with
  | FWrite _ (Some c) x ok =>
      c = x /\ x = a /\ P x = true /\ ok = negb werr /\ aeqb (s_orig _ s) empty = true
  | FWrite _ None x ok =>
      x = s_ov _ s /\ P x = true /\ ok = negb werr /\ aeqb (s_orig _ s) empty = false /\
      fo_consulted _ ob = false /\ fo_evicted _ ob = None
  | FDrop _ c => c = a /\ P c = false /\ aeqb (s_orig _ s) empty = true
  | _ => False
  end.

Lemma tailw_spec s dfm ev werr dl s1 ob :
  inv (Some s) -> feed_tail_w s dfm ev werr dl = (s1, ob) ->
  inv (Some s1) /\ tail_post s (u_addr _ dfm) werr ob /\ fo_dialed _ ob = dl /\
  s_ov _ s1 = s_ov _ s /\ s_orig _ s1 = s_orig _ s.
Proof.
  intros [Hc Ho]. unfold feed_tail_w, tail_post.
  destruct (aeqb (s_orig _ s) empty) eqn:E; simpl; intros H; inversion H; subst; clear H; simpl.
  - destruct (checkAddr_sound addr aeqb aeqb_spec empty P hook (s_cache _ s) (u_addr _ dfm) ev Hc) as [Hc' V].
    rewrite V. split; [split; [exact Hc'|simpl; intros X; congruence]|].
    destruct (P (u_addr _ dfm)) eqn:Pa; simpl; repeat split; auto.
  - repeat split; auto.
Qed.

(* ---- invariant of the three-state session ---- *)
Definition finv (fs : fstate) : Prop :=
  match fs with Some (_, Some s) => inv (Some s) | _ => True end.

(* what one Feed may do, in terms of the message just received *)
Definition step_post (fs : fstate) (i : finput addr) (o : fobs addr) : Prop :=
  match i with
  | FMsg _ m fault ev werr =>
      match fo_out _ o with
      | FWrite _ (Some c) x ok => c = x /\ x = u_addr _ m /\ P x = true /\ ok = negb werr
      | FWrite _ None x ok => P x = true /\ ok = negb werr /\ fo_consulted _ o = false
      | FDrop _ c => c = u_addr _ m /\ P c = false
      | FRep _ _ => False
      | _ => True
      end
  | _ => match fo_out _ o with FWrite _ _ _ _ | FDrop _ _ | FDialFail _ => False | _ => True end
  end.

Lemma fstep_spec fs i fs' o :
  fwf i -> finv fs -> fstep fs i = (fs', o) -> finv fs' /\ step_post fs i o.
Proof.
  intros Hw Hi. destruct i as [m fault ev werr|r|]; simpl.
  - destruct (match fs with Some p => p | None => (df_init addr, None) end) as [d so] eqn:Efs.
    assert (Hso : match so with Some s => inv (Some s) | None => True end).
    { destruct fs as [[d0 so0]|]; inversion Efs; subst; simpl in *; auto. }
    destruct (dfeed d m) as [d1 [dfm|]] eqn:D.
    + pose proof (dfeed_addr _ _ _ _ D) as Ea.
      destruct so as [s|].
      * destruct (feed_tail_w s dfm ev werr None) as [s1 ob] eqn:T. intros H; inversion H; subst; clear H.
        destruct (tailw_spec _ _ _ _ _ _ _ Hso T) as (I1 & TP & _).
        split; [exact I1|]. unfold tail_post in TP. rewrite Ea in TP.
        destruct (fo_out _ o) as [| |c|[c|] x ok|x]; try contradiction; intuition.
      * destruct (dial (u_addr _ dfm) fault) as [[s|] dl] eqn:Dl.
        -- assert (inv (Some s)) as Is.
           { eapply (dial_inv addr aeqb aeqb_spec empty P hook); [|exact Dl]. rewrite Ea. exact Hw. }
           destruct (feed_tail_w s dfm ev werr dl) as [s1 ob] eqn:T. intros H; inversion H; subst; clear H.
           destruct (tailw_spec _ _ _ _ _ _ _ Is T) as (I1 & TP & _).
           split; [exact I1|]. unfold tail_post in TP. rewrite Ea in TP.
           destruct (fo_out _ o) as [| |c|[c|] x ok|x]; try contradiction; intuition.
        -- intros H; inversion H; subst; simpl. auto.
    + intros H; inversion H; subst; simpl. split; auto.
  - destruct fs as [[d [s|]]|]; intros H; inversion H; subst; simpl; auto.
  - intros H; inversion H; subst; simpl; auto.
Qed.

Lemma frun_inv ins : forall fs fs' os, Forall fwf ins -> finv fs -> frun fs ins = (fs', os) -> finv fs'.
Proof.
  induction ins as [|i t IH]; simpl; intros fs fs' os Hw Hi H.
  - now inversion H; subst.
  - destruct (fstep fs i) as [fs1 o] eqn:S. destruct (frun fs1 t) as [fs2 os'] eqn:R.
    inversion Hw; subst. inversion H; subst.
    apply (IH fs1 fs' os'); auto. eapply fstep_spec; eauto.
Qed.

(* ---- nothing is ever handed to WriteTo for a destination the policy rejects: fragments that disagree
   about the destination, write errors, dial faults, hooks, closes - whatever the history ---- *)
Lemma frun_written_allowed ins : forall fs fs' os, Forall fwf ins -> finv fs -> frun fs ins = (fs', os) ->
  forall o x, In o os -> In x (written addr o) -> P x = true.
Proof.
  induction ins as [|i t IH]; simpl; intros fs fs' os Hw Hi H o x Hin Hx.
  - inversion H; subst. destruct Hin.
  - destruct (fstep fs i) as [fs1 o1] eqn:S. destruct (frun fs1 t) as [fs2 os'] eqn:R.
    inversion Hw; subst. inversion H; subst.
    destruct (fstep_spec _ _ _ _ H2 Hi S) as [I1 SP].
    destruct Hin as [E|Hin].
    + subst o1. unfold written in Hx. unfold step_post in SP.
      destruct i as [m fault ev werr|r|]; destruct (fo_out _ o) as [| |c|[c|] y ok|y]; simpl in Hx;
        try contradiction; destruct Hx as [<-|[]]; intuition; subst; auto.
    + eapply (IH fs1 fs' os'); eauto.
Qed.

Lemma feed_denied_never_written ins fs os x :
  Forall fwf ins -> frun None ins = (fs, os) -> P x = false ->
  forall o, In o os -> ~ In x (written addr o).
Proof.
  intros Hw H Px o Hin Hx.
  assert (P x = true) by (eapply frun_written_allowed; eauto; exact I). congruence.
Qed.

(* ---- the address the policy is asked about is the address written, and it is the address of the
   message that completed the datagram; a write error changes nothing but the reported result ---- *)
Lemma feed_check_is_write ins fs os m fault ev werr fs' o :
  Forall fwf ins -> frun None ins = (fs, os) -> u_addr _ m <> empty ->
  fstep fs (FMsg _ m fault ev werr) = (fs', o) ->
  match fo_out _ o with
  | FWrite _ (Some c) x ok => c = x /\ x = u_addr _ m /\ P x = true /\ ok = negb werr
  | FWrite _ None x ok => P x = true /\ ok = negb werr /\ fo_consulted _ o = false
  | FDrop _ c => c = u_addr _ m /\ P c = false
  | FRep _ _ => False
  | _ => True
  end.
Proof.
  intros Hw H Hm S.
  assert (finv fs) as Hi by (eapply frun_inv; eauto; exact I).
  destruct (fstep_spec fs (FMsg _ m fault ev werr) fs' o Hm Hi S) as [_ SP]. exact SP.
Qed.

(* the session state does not depend on whether the write failed *)
Lemma fstep_werr_state fs m fault ev : fst (fstep fs (FMsg _ m fault ev true)) = fst (fstep fs (FMsg _ m fault ev false)).
Proof.
  simpl. destruct (match fs with Some p => p | None => (df_init addr, None) end) as [d so].
  destruct (dfeed d m) as [d1 [dfm|]]; auto.
  assert (T : forall s dl, fst (feed_tail_w s dfm ev true dl) = fst (feed_tail_w s dfm ev false dl)).
  { intros s dl. unfold feed_tail_w. destruct (negb _); reflexivity. }
  destruct so as [s|].
  - specialize (T s None). destruct (feed_tail_w s dfm ev true None), (feed_tail_w s dfm ev false None).
    simpl in *. now subst.
  - destruct (dial (u_addr _ dfm) fault) as [[s|] dl]; auto.
    specialize (T s dl). destruct (feed_tail_w s dfm ev true dl), (feed_tail_w s dfm ev false dl).
    simpl in *. now subst.
Qed.

(* ---- the first layer is this one restricted to complete messages and successful writes ---- *)
Lemma tailw_refines s a ev dl :
  let '(s1, ob) := feed_tail_w s (mkU _ 0 0 1 a) ev false dl in
  feed_tail addr aeqb empty P s a ev dl = (Some s1, proj_obs addr ob).
Proof.
  unfold feed_tail_w, feed_tail, proj_obs. simpl.
  destruct (negb (aeqb (s_orig _ s) empty)); simpl; [reflexivity|].
  destruct (c_verdict _ _); reflexivity.
Qed.

Lemma fstep_refines fs i :
  let '(fs1, o) := fstep fs (embed addr i) in
  step addr aeqb empty P hook (proj_state addr fs) i = (proj_state addr fs1, proj_obs addr o).
Proof.
  destruct i as [a fault ev|r|]; simpl.
  - destruct fs as [[d so]|]; simpl.
    + destruct so as [s|]; simpl.
      * pose proof (tailw_refines s a ev None) as T.
        destruct (feed_tail_w s (mkU _ 0 0 1 a) ev false None) as [s1 ob]. exact T.
      * destruct (dial a fault) as [[s|] dl]; simpl; [|reflexivity].
        pose proof (tailw_refines s a ev dl) as T.
        destruct (feed_tail_w s (mkU _ 0 0 1 a) ev false dl) as [s1 ob]. exact T.
    + destruct (dial a fault) as [[s|] dl]; simpl; [|reflexivity].
      pose proof (tailw_refines s a ev dl) as T.
      destruct (feed_tail_w s (mkU _ 0 0 1 a) ev false dl) as [s1 ob]. exact T.
  - destruct fs as [[d [s|]]|]; reflexivity.
  - reflexivity.
Qed.

Lemma frun_refines ins : forall fs,
  let '(fs1, os) := frun fs (map (embed addr) ins) in
  run addr aeqb empty P hook (proj_state addr fs) ins = (proj_state addr fs1, map (proj_obs addr) os).
Proof.
  induction ins as [|i t IH]; intros fs; simpl; [reflexivity|].
  pose proof (fstep_refines fs i) as S.
  destruct (fstep fs (embed addr i)) as [fs1 o]. rewrite S.
  specialize (IH fs1). destruct (frun fs1 (map (embed addr) t)) as [fs2 os]. rewrite IH. reflexivity.
Qed.

Lemma feed_refines ins fs os :
  frun None (map (embed addr) ins) = (fs, os) ->
  run addr aeqb empty P hook None ins = (proj_state addr fs, map (proj_obs addr) os).
Proof. intros H. pose proof (frun_refines ins None) as R. rewrite H in R. exact R. Qed.

(* ---- overridden session: whatever arrives (fragments, any addresses, write errors), WriteTo is only ever
   called with the rewritten destination, once per datagram, and CheckUDP is never consulted ---- *)
Definition ov_post (a a' : addr) (i : finput addr) (o : fobs addr) : Prop :=
  fo_consulted _ o = false /\ fo_dialed _ o = None /\ fo_evicted _ o = None /\
  match i with
  | FMsg _ _ _ _ werr => fo_out _ o = FNone _ \/ fo_out _ o = FWrite _ None a' (negb werr)
  | FReply _ _ => fo_out _ o = FRep _ a
  | FClose _ => True
  end.

Lemma override_frun rest : forall d s fs os,
  aeqb (s_orig _ s) empty = false ->
  forallb (fun i => negb (is_fclose addr i)) rest = true ->
  frun (Some (d, Some s)) rest = (fs, os) ->
  Forall2 (ov_post (s_orig _ s) (s_ov _ s)) rest os /\ exists d', fs = Some (d', Some s).
Proof.
  induction rest as [|i t IH]; simpl; intros d s fs os Hg Hc H.
  - inversion H; subst. split; [constructor|eauto].
  - apply andb_true_iff in Hc. destruct Hc as [Hi Hc].
    destruct i as [m fault ev werr|r|]; simpl in *; try discriminate.
    + destruct (dfeed d m) as [d1 [dfm|]] eqn:D.
      * unfold feed_tail_w in H. rewrite Hg in H. simpl in H.
        destruct (frun (Some (d1, Some s)) t) as [fs2 os'] eqn:R. inversion H; subst; clear H.
        destruct (IH d1 s fs os' Hg Hc R) as (A & B).
        split; [|exact B]. constructor; [|exact A]. unfold ov_post; simpl. auto.
      * destruct (frun (Some (d1, Some s)) t) as [fs2 os'] eqn:R. inversion H; subst; clear H.
        destruct (IH d1 s fs os' Hg Hc R) as (A & B).
        split; [|exact B]. constructor; [|exact A]. unfold ov_post; simpl. auto.
    + rewrite Hg in H.
      destruct (frun (Some (d, Some s)) t) as [fs2 os'] eqn:R. inversion H; subst; clear H.
      destruct (IH d s fs os' Hg Hc R) as (A & B).
      split; [|exact B]. constructor; [|exact A]. unfold ov_post; simpl. auto.
Qed.

Lemma feed_override m ev werr a' rest fs os :
  N.leb (u_cnt _ m) 1 = true ->
  hook (u_addr _ m) = HRewrite a' -> u_addr _ m <> a' -> u_addr _ m <> empty -> P a' = true ->
  forallb (fun i => negb (is_fclose addr i)) rest = true ->
  frun None (FMsg _ m false ev werr :: rest) = (fs, os) ->
  exists o os', os = o :: os' /\
    fo_out _ o = FWrite _ None a' (negb werr) /\ fo_dialed _ o = Some a' /\ fo_consulted _ o = false /\
    Forall2 (ov_post (u_addr _ m) a') rest os'.
Proof.
  intros Hc1 Hh Hne Ha Pa Hc H.
  assert (F : forall x y, x <> y -> aeqb x y = false).
  { intros x y N. destruct (aeqb x y) eqn:E; auto. apply aeqb_spec in E. contradiction. }
  simpl in H. rewrite (dfeed_complete _ m Hc1) in H.
  unfold C08_UDPPolicy.dial in H. rewrite Hh, Pa in H. simpl in H. rewrite (F _ _ Hne) in H.
  unfold feed_tail_w in H. simpl in H. rewrite (F _ _ Ha) in H. simpl in H.
  set (s := mkSess addr a' (u_addr _ m) []) in *.
  destruct (frun (Some (df_init addr, Some s)) rest) as [fs2 os'] eqn:R. inversion H; subst; clear H.
  destruct (override_frun rest (df_init addr) s fs os' (F _ _ Ha) Hc R) as (A & _).
  eexists _, os'. repeat split; auto.
Qed.

End FeedProofs.

(* ---- non-vacuity: a live plain session; one datagram in two fragments, the head names the rejected
   destination 2, the tail the allowed destination 1, in both arrival orders; then the WriteTo of a
   hooked session fails ---- *)
Definition exf_P (a : N) : bool := negb (N.eqb a 2).
Definition exf_ins : list (finput N) :=
  [ FMsg N (mkU N 0 0 1 1%N) false 0%N false;
    FMsg N (mkU N 7 0 2 2%N) false 0%N false; FMsg N (mkU N 7 1 2 1%N) false 0%N false;
    FMsg N (mkU N 8 1 2 1%N) false 0%N false; FMsg N (mkU N 8 0 2 2%N) false 0%N true ].

Lemma example_fragments :
  map (fo_out N) (snd (frun N N.eqb 0%N exf_P (fun _ => HKeep) None exf_ins)) =
  [ FWrite N (Some 1%N) 1%N true; FNone N; FWrite N (Some 1%N) 1%N true; FNone N; FDrop N 2%N ].
Proof. vm_compute. reflexivity. Qed.

Lemma example_hooked_write_error :
  map (fo_out N) (snd (frun N N.eqb 0%N exf_P (fun _ => HRewrite 1%N) None
                        [ FMsg N (mkU N 0 0 1 2%N) false 0%N false; FMsg N (mkU N 0 0 1 2%N) false 0%N true;
                          FMsg N (mkU N 0 0 1 2%N) false 0%N false ])) =
  [ FWrite N None 1%N true; FWrite N None 1%N false; FWrite N None 1%N true ].
Proof. vm_compute. reflexivity. Qed.
