(* C08 / C05 composition: the Defragger of the session model (model/C08_Feed.v, dfeed) is the C05 model of
   frag.Defragger.Feed (model/C05_Frag.v, feed) with the payload and the session id forgotten.  So everything
   proof/C05_Frag.v shows about which message Feed hands out carries over, and the address of the handed-out
   message - the one udpSessionEntry.Feed checks and writes to - is the address C05's feed puts there:
   the last arrived fragment's. *)
From Hy Require Import model.C05_Frag model.C08_Feed proof.C08_Feed.
From Coq Require Import NArith List Bool Lia.
Import ListNotations.
Local Open Scope N_scope.

Definition am (m : msg) : umsg (list byte) := mkU _ (pid m) (fid m) (fcount m) (C05_Frag.addr m).
Definition ad (d : dstate) : dfs (list byte) := mkDf _ (d_pid d) (map (option_map am) (d_frags d)) (d_count d).

Lemma map_upd {A B} (f : A -> B) i x l : map f (upd i x l) = updo i (f x) (map f l).
Proof. revert i. induction l as [|h t IH]; intros [|j]; simpl; auto. now rewrite IH. Qed.

Lemma map_repeat {A B} (f : A -> B) x n : map f (repeat x n) = repeat (f x) n.
Proof. induction n; simpl; auto. now rewrite IHn. Qed.

Lemma nth_error_map' {A B} (f : A -> B) l i : nth_error (map f l) i = option_map f (nth_error l i).
Proof. revert i. induction l as [|h t IH]; intros [|j]; simpl; auto. Qed.

Lemma length_upd {A} i (x : A) l : length (upd i x l) = length l.
Proof. revert i. induction l as [|h t IH]; intros [|j]; simpl; auto. Qed.

Lemma dfeed_is_C05_feed d m d' o :
  feed d m = Ok (d', o) -> dfeed (list byte) (ad d) (am m) = (ad d', option_map am o).
Proof.
  unfold feed, dfeed. simpl.
  destruct (fcount m <=? 1); [intros H; inversion H; subst; reflexivity|].
  destruct (fcount m <=? fid m); [intros H; inversion H; subst; reflexivity|].
  rewrite map_length.
  destruct (negb (pid m =? d_pid d) || negb (fcount m =? N.of_nat (length (d_frags d)) mod 256)).
  - destruct (Nat.ltb _ _); [|discriminate]. intros H; inversion H; subst; clear H.
    unfold ad. simpl. rewrite map_upd, map_repeat. reflexivity.
  - rewrite nth_error_map'. destruct (nth_error (d_frags d) (N.to_nat (fid m))) as [[x|]|]; simpl.
    + intros H; inversion H; subst. reflexivity.
    + change (Some (am m)) with (option_map am (Some m)). rewrite <- map_upd, map_length.
      destruct ((d_count d + 1) mod 256 =? N.of_nat (length (upd (N.to_nat (fid m)) (Some m) (d_frags d)))).
      * destruct (forallb _ _); [|discriminate]. intros H; inversion H; subst; clear H. reflexivity.
      * intros H; inversion H; subst; clear H. reflexivity.
    + discriminate.
Qed.

(* the address of the message C05's Feed hands out is the address of the message just fed *)
Lemma C05_feed_emits_last_addr d m d' x :
  feed d m = Ok (d', Some x) -> C05_Frag.addr x = C05_Frag.addr m.
Proof.
  intros H. apply dfeed_is_C05_feed in H. simpl in H.
  apply dfeed_addr in H. exact H.
Qed.
