(* C08: the leaf outbounds behind the ACL pipeline (model/C08_Adapter.v) and the session layer with two policies
   (model/C08_Fail.v) put together.  The C09 names first: the session model's win where both use a name. *)
From Hy Require Import model.C09_ACL proof.C09_ACL model.C08_Adapter proof.C08_Adapter.
From Hy Require Import model.C08_UDPPolicy model.C08_Fail proof.C08_Fail.
From Coq Require Import NArith List Bool.
Import ListNotations.

Section LeafPipeline.
  Variable ip_str : ip -> str.
  Variable rs : list rule.
  Variable dflt : N.
  Variable resolve : str -> option (ip * ip).
  Variable leaves : N -> leaf.                 (* the outbound behind every handle of the compiled rule set *)
  Variable chk udp : leaf -> bool.             (* what a leaf's CheckUDP / UDP answers: leaf_check / leaf_udp for the code *)

  (* PluggableOutboundAdapter.UDP / .CheckUDP of the pipeline resolver -> aclEngine -> leaf *)
  Definition pipe_dial (h : str) (p : N) : bool := dial_allows ip_str rs dflt resolve (fun ob _ => udp (leaves ob)) h p.
  Definition pipe_check (h : str) (p : N) : bool := check_allows ip_str rs dflt resolve (fun ob _ => chk (leaves ob)) h p.

  (* whichever leaf the rules select for a destination: if no leaf's CheckUDP allows what its own UDP refuses, the
     pipeline's CheckUDP never allows what the pipeline's UDP refuses *)
  Lemma pipe_check_implies_dial :
    (forall ob, leaf_consistent chk udp (leaves ob)) ->
    forall h p, pipe_check h p = true -> pipe_dial h p = true.
  Proof.
    intros H h p. unfold pipe_check, pipe_dial, check_allows, dial_allows.
    rewrite adapter_same_walk. destruct (adapter_udp ip_str rs dflt resolve h p) as [ob a]. apply H.
  Qed.

  (* the destination string -> (host, port) of net.SplitHostPort + parsePortUint16; None: either fails, and then both
     entry points of the adapter return that error before the pipeline is asked (interface.go:82-127) *)
  Variable addr : Type.
  Variable split : addr -> option (str * N).

  Definition Qd_pipe (a : addr) : pres :=
    match split a with Some (h, p) => pres_of_bool (pipe_dial h p) | None => PDeny end.
  Definition Qc_pipe (a : addr) : pres :=
    match split a with Some (h, p) => pres_of_bool (pipe_check h p) | None => PDeny end.

  Lemma pipe_policies_consistent :
    (forall ob, leaf_consistent chk udp (leaves ob)) -> forall a, Qc_pipe a = PAllow -> Qd_pipe a = PAllow.
  Proof.
    intros H a. unfold Qc_pipe, Qd_pipe. destruct (split a) as [[h p]|]; auto.
    destruct (pipe_check h p) eqn:C; simpl; [|discriminate].
    intros _. now rewrite (pipe_check_implies_dial H h p C).
  Qed.

  (* sessions over such a pipeline: nothing is ever written to a destination for which a fresh session could not be
     dialed, whatever leaves the rules route the destinations of one session to *)
  Lemma pipe_session_never_written
        (aeqb : addr -> addr -> bool) (aeqb_spec : forall a b, aeqb a b = true <-> a = b) (empty : addr)
        (hook : addr -> option (hookres addr)) ins st os x :
    (forall ob, leaf_consistent chk udp (leaves ob)) ->
    Forall (wf_input addr empty) ins ->
    run3 addr aeqb empty Qd_pipe Qc_pipe hook io_result (S3 _ None) ins = (st, os) ->
    Qd_pipe x <> PAllow -> forall o, In o os -> o3_out _ o <> O3 _ (OFwd _ x).
  Proof.
    intros H. apply (fail_never_written addr aeqb aeqb_spec empty Qd_pipe Qc_pipe hook io_result io_result_safe
                                         (pipe_policies_consistent H)).
  Qed.
End LeafPipeline.

(* with the leaves of extras/outbounds (a SOCKS5 proxy that grants UDP ASSOCIATE) the hypothesis holds ... *)
Lemma real_leaves_consistent (leaves : N -> leaf) :
  (forall ob, leaves ob <> LSocks5 false) -> forall ob, leaf_consistent leaf_check leaf_udp (leaves ob).
Proof. intros H ob. apply leaf_consistent_real. apply H. Qed.

(* ... and with an HTTP-proxy leaf whose CheckUDP says nil it does not: one rule set, two destinations, the first goes
   direct, the second to the proxy: the pipeline's CheckUDP allows the second although its UDP refuses it, and a session
   opened on the first writes to the second.  Destinations are (host, port) pairs coded as N: 1 -> ("a", 53), 2 -> ("b", 53) *)
Definition exl_a : str := ["a"%byte].
Definition exl_b : str := ["b"%byte].
Definition exl_rules : list rule := [ mkRule 1 (MExact exl_a) ProtocolBoth 0 65535 [] ].   (* direct(a) ; default: the proxy *)
Definition exl_leaves (ob : N) : leaf := if N.eqb ob 1 then LDirect else LHttp.
Definition exl_split (a : N) : option (str * N) :=
  if N.eqb a 1 then Some (exl_a, 53%N) else if N.eqb a 2 then Some (exl_b, 53%N) else None.
Definition exl_resolve (h : str) : option (ip * ip) := Some ([], []).
Definition exl_ins : list (input N) := [IDgram N 1%N false 0%N; IDgram N 2%N false 0%N; IDgram N 1%N false 0%N; IDgram N 2%N false 0%N].

Lemma example_leaf_pipeline :
  map (o3_out N)
      (snd (run3 N N.eqb 0%N (Qd_pipe ip_str_hex exl_rules 2 exl_resolve exl_leaves leaf_udp N exl_split)
                 (Qc_pipe ip_str_hex exl_rules 2 exl_resolve exl_leaves leaf_check N exl_split)
                 (fun _ => Some HKeep) io_result (S3 N None) exl_ins)) =
  [O3 N (OFwd N 1%N); O3 N (ODrop N); O3 N (OFwd N 1%N); O3 N (ODrop N)].
Proof. vm_compute. reflexivity. Qed.

Lemma http_check_nil_refuted :
  pipe_check ip_str_hex exl_rules 2 exl_resolve exl_leaves leaf_check_http_nil exl_b 53 = true /\
  pipe_dial ip_str_hex exl_rules 2 exl_resolve exl_leaves leaf_udp exl_b 53 = false /\
  In (O3 N (OFwd N 2%N))
     (map (o3_out N)
          (snd (run3 N N.eqb 0%N (Qd_pipe ip_str_hex exl_rules 2 exl_resolve exl_leaves leaf_udp N exl_split)
                     (Qc_pipe ip_str_hex exl_rules 2 exl_resolve exl_leaves leaf_check_http_nil N exl_split)
                     (fun _ => Some HKeep) io_result (S3 N None) exl_ins))).
Proof. vm_compute. repeat split; auto. Qed.
