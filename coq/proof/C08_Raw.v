(* C05 o C08 - proofs: the input hypothesis of the C08 theorems ("a client datagram never carries the empty
   address") discharged from C05's model of ParseUDPMessage, giving C08 theorems over raw datagram bytes. *)
From Hy Require Import model.C08_Raw proof.C08_Feed.
From Coq Require Import NArith Arith List Bool Lia.
Import ListNotations.
Local Open Scope N_scope.

(* ParseUDPMessage: lAddr == 0 is rejected, and the address is the first lAddr of more than lAddr bytes *)
Lemma parse_addr_nonempty b m : parse b = Ok m -> C05_Frag.addr m <> [].
Proof.
  unfold parse. destruct (Nat.ltb (length b) 8); [discriminate|].
  destruct (varint_read (skipn 8 b)) as [[la bs]|]; [|discriminate].
  destruct (N.eqb_spec la 0) as [E0|E0]; cbn [orb]; [discriminate|].
  destruct (MaxMessageLength <? la); [discriminate|].
  destruct (Nat.leb (length bs) (N.to_nat la)) eqn:L; [discriminate|]. apply Nat.leb_gt in L.
  intro H. injection H as <-. cbn [C05_Frag.addr].
  intro E. apply (f_equal (@length byte)) in E. rewrite firstn_length in E. cbn [length] in E.
  assert (N.to_nat la <> 0%nat) by lia. lia.
Qed.

Lemma str_eqb_eq a : forall b, str_eqb a b = true <-> a = b.
Proof.
  induction a as [|x a IH]; intros [|y b]; cbn [str_eqb]; split; intro H; try congruence; try reflexivity.
  - apply andb_true_iff in H. destruct H as [H1 H2]. apply Byte.byte_dec_bl in H1. apply IH in H2. congruence.
  - injection H as -> ->. apply andb_true_iff. split; [apply Byte.byte_dec_lb; reflexivity|now apply IH].
Qed.

(* whatever bytes arrive, what reaches Feed satisfies the input hypothesis of the session theorems *)
Lemma feed_inputs_wf rs : Forall (fwf (list byte) []) (feed_inputs rs).
Proof.
  unfold feed_inputs. induction rs as [|r rs IH]; [constructor|].
  cbn [flat_map]. apply Forall_app. split; [|exact IH].
  destruct r as [b fault ev werr|a|]; cbn [feed_input]; try (repeat constructor).
  destruct (parse b) as [m| |] eqn:E; repeat constructor.
  cbn [fwf umsg_of u_addr]. exact (parse_addr_nonempty b m E).
Qed.

Section Raw.
Variable P : list byte -> bool.
Variable hook : list byte -> hookres (list byte).

Notation frun := (frun (list byte) str_eqb [] P hook).
Notation fstep := (fstep (list byte) str_eqb [] P hook).

(* no WriteTo for a destination the policy rejects, for EVERY sequence of raw datagrams / socket reads / closes *)
Theorem raw_denied_never_written rs fs os x :
  frun None (feed_inputs rs) = (fs, os) -> P x = false ->
  forall o, In o os -> ~ In x (written (list byte) o).
Proof.
  intro H. exact (feed_denied_never_written (list byte) str_eqb str_eqb_eq [] P hook _ fs os x (feed_inputs_wf rs) H).
Qed.

(* after any raw history, for the next raw datagram that parses: the address checked is the address written, it is the
   address field of THAT datagram, and the policy allows it (a rejected datagram is dropped for that same address) *)
Theorem raw_check_is_write rs fs os b m fault ev werr fs' o :
  frun None (feed_inputs rs) = (fs, os) -> parse b = Ok m ->
  fstep fs (FMsg _ (umsg_of m) fault ev werr) = (fs', o) ->
  match fo_out _ o with
  | FWrite _ (Some c) x ok => c = x /\ x = C05_Frag.addr m /\ P x = true /\ ok = negb werr
  | FWrite _ None x ok => P x = true /\ ok = negb werr /\ fo_consulted _ o = false
  | FDrop _ c => c = C05_Frag.addr m /\ P c = false
  | FRep _ _ => False
  | _ => True
  end.
Proof.
  intros H Hp S.
  exact (feed_check_is_write (list byte) str_eqb str_eqb_eq [] P hook _ fs os (umsg_of m) fault ev werr fs' o
           (feed_inputs_wf rs) H (parse_addr_nonempty b m Hp) S).
Qed.

(* a datagram ParseUDPMessage rejects changes nothing and calls nothing *)
Lemma raw_unparsable_skipped b fault ev werr : (forall m, parse b <> Ok m) -> feed_input (RDgram b fault ev werr) = [].
Proof. intro H. cbn [feed_input]. destruct (parse b) as [m| |]; [exfalso; exact (H m eq_refl)|reflexivity|reflexivity]. Qed.
End Raw.

(* non-vacuity: session id 1, packet 7, complete datagram to "a:53" (allowed) and one to "b:53" (rejected), a datagram
   with a zero-length address and a truncated one in between: one write to a:53, one drop for b:53, nothing else *)
Definition ex_a : list byte := [x61;x3a;x35;x33].
Definition ex_b : list byte := [x62;x3a;x35;x33].
Definition ex_dgram (a : list byte) : list byte := [x00;x00;x00;x01; x00;x07; x00; x01; x04] ++ a ++ [xff].
Definition ex_raws : list raw_input :=
  [ RDgram (ex_dgram ex_a) false [] false;
    RDgram [x00;x00;x00;x01; x00;x07; x00; x01; x00; xff] false [] false;   (* lAddr = 0 *)
    RDgram [x00;x00;x00;x01; x00] false [] false;                             (* truncated *)
    RDgram (ex_dgram ex_b) false [] false ].

Example raw_example :
  map (fo_out (list byte))
      (snd (frun (list byte) str_eqb [] (fun a => str_eqb a ex_a) (fun _ => HKeep) None (feed_inputs ex_raws)))
  = [ FWrite _ (Some ex_a) ex_a true; FDrop _ ex_b ].
Proof. vm_compute. reflexivity. Qed.
