(* C08 proofs (model/C08_UDPPolicy.v).  The lemmas at the end carry the statements of props/C08.v. *)
From Hy Require Import model.C08_UDPPolicy.
From Coq Require Import NArith List Bool Lia.
Import ListNotations.

Section Proofs.
Variable addr : Type.
Variable aeqb : addr -> addr -> bool.
Hypothesis aeqb_spec : forall a b, aeqb a b = true <-> a = b.
Variable empty : addr.
Variable P : addr -> bool.
Variable hook : addr -> hookres addr.

Notation lookup := (lookup addr aeqb).
Notation remove_key := (remove_key addr aeqb).
Notation evict := (evict addr aeqb).
Notation checkAddr := (checkAddr addr aeqb P).
Notation dial := (dial addr aeqb empty P hook).
Notation step := (step addr aeqb empty P hook).
Notation run := (run addr aeqb empty P hook).
Notation ref_step := (ref_step addr aeqb empty P hook).
Notation ref_run := (ref_run addr aeqb empty P hook).

Lemma aeqb_refl a : aeqb a a = true.
Proof. now apply aeqb_spec. Qed.

Lemma aeqb_false a b : aeqb a b = false <-> a <> b.
Proof.
  split; intros H.
  - intros E. apply aeqb_spec in E. congruence.
  - destruct (aeqb a b) eqn:E; auto. apply aeqb_spec in E. contradiction.
Qed.

Definition cache_ok (c : cache addr) : Prop := forall a v, In (a, v) c -> v = P a.

Lemma lookup_In c a v : lookup c a = Some v -> In (a, v) c.
Proof.
  induction c as [|[k w] t IH]; simpl; intros H; [discriminate|].
  destruct (aeqb k a) eqn:E.
  - apply aeqb_spec in E. inversion H; subst. now left.
  - right. auto.
Qed.

Lemma remove_key_incl c k x : In x (remove_key c k) -> In x c.
Proof.
  induction c as [|[k0 w] t IH]; simpl; intros H; auto.
  destruct (aeqb k0 k); simpl in *; intuition.
Qed.

Lemma evict_incl c ev x : In x (evict c ev) -> In x c.
Proof.
  unfold evict. destruct (evicted_key addr aeqb c ev); auto. apply remove_key_incl.
Qed.

Lemma checkAddr_sound c a ev :
  cache_ok c -> cache_ok (c_cache _ (checkAddr c a ev)) /\ c_verdict _ (checkAddr c a ev) = P a.
Proof.
  intros Hc. unfold checkAddr. destruct (lookup c a) as [v|] eqn:L; simpl.
  - split; auto. apply lookup_In in L. now apply Hc.
  - split; auto. intros b w [E|H].
    + now inversion E; subst.
    + destruct (N.leb _ _); [apply evict_incl in H|]; now apply Hc.
Qed.

Lemma checkAddr_hit_not_consulted c a ev v :
  lookup c a = Some v -> c_consulted _ (checkAddr c a ev) = false.
Proof. intros L. unfold checkAddr. now rewrite L. Qed.

(* the session invariant: the cache holds only the policy's own verdicts, an override destination passed the dial *)
Definition inv (st : state addr) : Prop :=
  match st with
  | None => True
  | Some s => cache_ok (s_cache _ s) /\ (aeqb (s_orig _ s) empty = false -> P (s_ov _ s) = true)
  end.

Notation wf := (wf_input addr empty).

Lemma dial_inv a f s d : a <> empty -> dial a f = (Some s, d) -> inv (Some s).
Proof.
  unfold dial. intros Hne H.
  assert (forall actual,
            (if P actual && negb f
             then (Some (mkSess addr (if aeqb a actual then empty else actual) (if aeqb a actual then empty else a)
                      (if aeqb (if aeqb a actual then empty else a) empty then [(a, true)] else [])), Some actual)
             else (None, Some actual)) = (Some s, d) -> inv (Some s)) as K.
  { intros actual H0. destruct (P actual && negb f) eqn:Pa; [|discriminate].
    apply andb_true_iff in Pa. destruct Pa as [Pa _]. inversion H0; subst; clear H0. simpl.
    destruct (aeqb a actual) eqn:E.
    - apply aeqb_spec in E. subst. rewrite !aeqb_refl. split.
      + intros b w [X|[]]. inversion X; subst. now rewrite Pa.
      + intros X. discriminate.
    - apply aeqb_false in Hne. rewrite Hne. split; [intros b w []|auto]. }
  destruct (hook a) as [|a'|] eqn:Hh.
  - apply (K a); auto.
  - apply (K a'); auto.
  - discriminate.
Qed.

Lemma tail_inv s a ev d st o : inv (Some s) -> feed_tail addr aeqb empty P s a ev d = (st, o) -> inv st.
Proof.
  intros [Hc Ho]. unfold feed_tail. destruct (negb (aeqb (s_orig _ s) empty)) eqn:E; intros H; inversion H; subst; clear H.
  - simpl. auto.
  - simpl. split; auto. now apply checkAddr_sound.
Qed.

Lemma step_inv st i st' o : wf i -> inv st -> step st i = (st', o) -> inv st'.
Proof.
  intros Hw Hi. destruct i as [a f ev|r|]; simpl.
  - destruct st as [s|].
    + now apply tail_inv.
    + destruct (dial a f) as [[s|] d] eqn:D.
      * apply tail_inv. now apply (dial_inv a f s d Hw).
      * intros H. now inversion H.
  - destruct st; intros H; inversion H; subst; auto.
  - intros H; inversion H; subst; simpl; auto.
Qed.

Lemma run_inv ins : forall st st' os, Forall wf ins -> inv st -> run st ins = (st', os) -> inv st'.
Proof.
  induction ins as [|i t IH]; simpl; intros st st' os Hw Hi H.
  - now inversion H; subst.
  - destruct (step st i) as [st1 o] eqn:S. destruct (run st1 t) as [st2 os'] eqn:R.
    inversion Hw; subst.
    inversion H; subst. apply (IH st1 st' os'); [assumption | eapply step_inv; eauto | exact R].
Qed.

(* ---- cache soundness ---- *)
Lemma cache_sound ins st os :
  Forall wf ins -> run None ins = (st, os) ->
  match st with Some s => forall a v, In (a, v) (s_cache _ s) -> v = P a | None => True end.
Proof.
  intros Hw H. assert (inv st) as Hi by (eapply run_inv; eauto; exact I).
  destruct st as [s|]; auto. destruct Hi as [Hc _]. exact Hc.
Qed.

(* ---- every forwarded datagram goes to an allowed destination ---- *)
Lemma step_fwd_allowed st i st' o x : wf i -> inv st -> step st i = (st', o) -> o_out _ o = OFwd _ x -> P x = true.
Proof.
  intros Hw Hi.
  assert (forall s a ev d, inv (Some s) -> feed_tail addr aeqb empty P s a ev d = (st', o) -> o_out _ o = OFwd _ x -> P x = true) as T.
  { intros s a ev d [Hc Ho]. unfold feed_tail. destruct (aeqb (s_orig _ s) empty) eqn:E; simpl; intros H; inversion H; subst; clear H; simpl.
    - destruct (checkAddr_sound (s_cache _ s) a ev Hc) as [_ V]. rewrite V.
      destruct (P a) eqn:Pa; intros X; inversion X; subst; auto.
    - intros X; inversion X; subst. auto. }
  destruct i as [a f ev|r|]; simpl.
  - destruct st as [s|]; [now apply T|].
    destruct (dial a f) as [[s|] d] eqn:D.
    + apply T. now apply (dial_inv a f s d Hw).
    + intros H; inversion H; subst; simpl. discriminate.
  - destruct st; intros H; inversion H; subst; simpl; discriminate.
  - intros H; inversion H; subst; simpl; discriminate.
Qed.

Lemma run_fwd_allowed ins : forall st st' os, Forall wf ins -> inv st -> run st ins = (st', os) ->
  forall o x, In o os -> o_out _ o = OFwd _ x -> P x = true.
Proof.
  induction ins as [|i t IH]; simpl; intros st st' os Hw Hi H o x Hin.
  - inversion H; subst. destruct Hin.
  - destruct (step st i) as [st1 o1] eqn:S. destruct (run st1 t) as [st2 os'] eqn:R.
    inversion Hw; subst.
    inversion H; subst. destruct Hin as [E|Hin].
    + subst. eapply step_fwd_allowed; eauto.
    + apply (IH st1 st' os' H3 (step_inv _ _ _ _ H2 Hi S) R o x Hin).
Qed.

Lemma denied_never_receives ins st os x :
  Forall wf ins -> run None ins = (st, os) -> P x = false -> forall o, In o os -> o_out _ o <> OFwd _ x.
Proof.
  intros Hw H Px o Hin E. assert (P x = true) by (eapply run_fwd_allowed; eauto; exact I). congruence.
Qed.

(* ---- the cache is transparent: same outcomes as asking the policy every time ---- *)
Definition sim (st rst : state addr) : Prop :=
  match st, rst with
  | None, None => True
  | Some s, Some r => s_ov _ s = s_ov _ r /\ s_orig _ s = s_orig _ r /\ inv (Some s)
  | _, _ => False
  end.

Lemma step_sim st rst i st' o rst' ro : wf i ->
  sim st rst -> step st i = (st', o) -> ref_step rst i = (rst', ro) -> sim st' rst' /\ o_out _ o = ro.
Proof.
  intros Hw Hs.
  assert (forall s r a ev d, s_ov _ s = s_ov _ r -> s_orig _ s = s_orig _ r -> inv (Some s) ->
            feed_tail addr aeqb empty P s a ev d = (st', o) ->
            sim st' (Some (mkSess _ (s_ov _ r) (s_orig _ r) (s_cache _ r))) /\
            o_out _ o = (if negb (aeqb (s_orig _ r) empty) then OFwd _ (s_ov _ r) else if P a then OFwd _ a else ODrop _)) as T.
  { intros s r a ev d E1 E2 Hi. pose proof Hi as [Hc Ho]. unfold feed_tail. rewrite <- E1, <- E2.
    destruct (aeqb (s_orig _ s) empty) eqn:E; simpl; intros H; inversion H; subst; clear H; simpl.
    - destruct (checkAddr_sound (s_cache _ s) a ev Hc) as [Hc' V]. rewrite V. unfold sim, inv. simpl. repeat split; auto. intros X; congruence.
    - unfold sim, inv. simpl. repeat split; auto. }
  destruct i as [a f ev|r|]; simpl; [|clear T..].
  - destruct st as [s|], rst as [r|]; simpl in Hs; try contradiction.
    + destruct Hs as (E1 & E2 & Hi). intros H1 H2. inversion H2; subst; clear H2.
      destruct (T s r a ev None E1 E2 Hi H1) as [A B]. split; auto.
    + destruct (dial a f) as [[s|] d] eqn:D.
      * intros H1 H2. inversion H2; subst; clear H2.
        destruct (T s s a ev d eq_refl eq_refl (dial_inv a f s d Hw D) H1) as [A B]. split; auto.
      * intros H1 H2. inversion H1; inversion H2; subst. simpl. auto.
  - destruct st as [s|], rst as [r0|]; simpl in Hs; try contradiction; intros H1 H2; inversion H1; inversion H2; subst; simpl.
    + destruct Hs as (E1 & E2 & [Hc Ho]). unfold sim, inv. rewrite <- E2. repeat split; auto.
    + auto.
  - intros H1 H2; inversion H1; inversion H2; subst; simpl. auto.
Qed.

Lemma run_sim ins : forall st rst st' os, Forall wf ins -> sim st rst -> run st ins = (st', os) -> map (o_out _) os = ref_run rst ins.
Proof.
  induction ins as [|i t IH]; simpl; intros st rst st' os Hw Hs H.
  - now inversion H; subst.
  - destruct (step st i) as [st1 o] eqn:S. destruct (run st1 t) as [st2 os'] eqn:R.
    destruct (ref_step rst i) as [rst1 ro] eqn:RS. inversion H; subst. simpl. inversion Hw; subst.
    destruct (step_sim _ _ _ _ _ _ _ H2 Hs S RS) as [Hs1 Eo]. rewrite Eo. f_equal. eapply IH; eauto.
Qed.

Lemma cache_transparent ins st os : Forall wf ins -> run None ins = (st, os) -> map (o_out _) os = ref_run None ins.
Proof. intros Hw. apply run_sim; auto. exact I. Qed.

End Proofs.

(* ---- sessions without hook: exactly the allowed destinations are forwarded ---- *)
Section NoHook.
Variable addr : Type.
Variable aeqb : addr -> addr -> bool.
Hypothesis aeqb_spec : forall a b, aeqb a b = true <-> a = b.
Variable empty : addr.
Variable P : addr -> bool.
Variable hook : addr -> hookres addr.
Hypothesis hook_keep : forall a, hook a = HKeep.

Lemma ref_nohook ins : forall st,
  match st with Some s => s_ov _ s = empty /\ s_orig _ s = empty | None => True end ->
  ref_run addr aeqb empty P hook st ins = spec_nohook addr P (match st with Some _ => true | None => false end) ins.
Proof.
  assert (R : forall a, aeqb a a = true) by (intros; now apply aeqb_spec).
  induction ins as [|i t IH]; intros st Hst; simpl; auto.
  destruct i as [a f ev|r|]; simpl.
  - destruct st as [s|].
    + destruct Hst as [E1 E2]. rewrite E2, R. simpl. f_equal. apply (IH (Some s)). auto.
    + unfold dial. rewrite hook_keep. destruct (P a && negb f) eqn:D.
      * rewrite !R. simpl. apply andb_true_iff in D. destruct D as [Pa _]. rewrite Pa. f_equal.
        apply (IH (Some (mkSess _ empty empty []))). auto.
      * f_equal. apply (IH None). exact I.
  - destruct st as [s|].
    + destruct Hst as [E1 E2]. rewrite E2, R. f_equal. apply (IH (Some s)). auto.
    + f_equal. apply (IH None). exact I.
  - f_equal. apply (IH None). exact I.
Qed.

Lemma forward_only_allowed ins st os :
  Forall (wf_input addr empty) ins ->
  run addr aeqb empty P hook None ins = (st, os) -> map (o_out _) os = spec_nohook addr P false ins.
Proof.
  intros Hw H. rewrite (cache_transparent addr aeqb aeqb_spec empty P hook) with (ins := ins) (st := st); auto.
  apply (ref_nohook ins None). exact I.
Qed.
End NoHook.

(* ---- hooked session ---- *)
Section Override.
Variable addr : Type.
Variable aeqb : addr -> addr -> bool.
Hypothesis aeqb_spec : forall a b, aeqb a b = true <-> a = b.
Variable empty : addr.
Variable P : addr -> bool.
Variable hook : addr -> hookres addr.

Lemma override_run rest : forall s st os,
  aeqb (s_orig _ s) empty = false ->
  forallb (fun i => negb (is_close addr i)) rest = true ->
  run addr aeqb empty P hook (Some s) rest = (st, os) ->
  map (o_out _) os = map (spec_override addr (s_orig _ s) (s_ov _ s)) rest /\
  Forall (fun o => o_consulted _ o = false /\ o_dialed _ o = None /\ o_evicted _ o = None) os /\
  st = Some s.
Proof.
  induction rest as [|i t IH]; simpl; intros s st os Hg Hc H.
  - inversion H; subst. auto.
  - apply andb_true_iff in Hc. destruct Hc as [Hi Hc].
    destruct i as [a f ev|r|]; simpl in *; try discriminate.
    + unfold feed_tail in H. rewrite Hg in H. simpl in H.
      destruct (run addr aeqb empty P hook (Some s) t) as [st2 os'] eqn:R. inversion H; subst; clear H.
      destruct (IH s st os' Hg Hc R) as (A & B & C). simpl. rewrite A. repeat split; auto.
    + rewrite Hg in H.
      destruct (run addr aeqb empty P hook (Some s) t) as [st2 os'] eqn:R. inversion H; subst; clear H.
      destruct (IH s st os' Hg Hc R) as (A & B & C). simpl. rewrite A. repeat split; auto.
Qed.

Lemma override a a' ev rest st os :
  hook a = HRewrite a' -> a <> a' -> a <> empty -> P a' = true ->
  forallb (fun i => negb (is_close addr i)) rest = true ->
  run addr aeqb empty P hook None (IDgram _ a false ev :: rest) = (st, os) ->
  map (o_out _) os = map (spec_override addr a a') (IDgram _ a false ev :: rest) /\
  Forall (fun o => o_consulted _ o = false /\ o_evicted _ o = None) os /\
  (forall o, In o (tl os) -> o_dialed _ o = None) /\ (exists o, hd_error os = Some o /\ o_dialed _ o = Some a').
Proof.
  intros Hh Hne Ha Pa Hc H.
  assert (F : forall x y, x <> y -> aeqb x y = false).
  { intros x y N. destruct (aeqb x y) eqn:E; auto. apply aeqb_spec in E. contradiction. }
  simpl in H. unfold dial in H. rewrite Hh, Pa in H. simpl in H. rewrite (F a a' Hne) in H.
  unfold feed_tail in H. simpl in H. rewrite (F a empty Ha) in H. simpl in H.
  set (s := mkSess addr a' a []) in *.
  destruct (run addr aeqb empty P hook (Some s) rest) as [st2 os'] eqn:R. inversion H; subst; clear H.
  destruct (override_run rest s st os' (F _ _ Ha) Hc R) as (A & B & C).
  simpl. simpl in A. rewrite A. repeat split; auto.
  - constructor; [simpl; auto|]. eapply Forall_impl; [|exact B]. simpl. intuition.
  - intros o Hin. rewrite Forall_forall in B. now apply B.
  - eexists; split; [reflexivity|]. reflexivity.
Qed.
End Override.

(* ---- the hypothesis on client datagram addresses is needed: an empty first address in a hooked session ---- *)
Lemma empty_first_address_refuted :
  exists (P : N -> bool) (hook : N -> hookres N) ins x,
    P x = false /\
    In (OFwd N x) (map (o_out N) (snd (run N N.eqb 0%N P hook None ins))).
Proof.
  exists (fun a => N.eqb a 5), (fun _ => HRewrite 5%N), [IDgram N 0%N false 0%N; IDgram N 0%N false 0%N], 0%N.
  split; [reflexivity|]. vm_compute. auto.
Qed.

(* non-vacuity: 300 destinations, policy denies every third, cap 256: evictions happen, outcomes exact *)
Definition ex_P (a : N) : bool := negb (N.eqb (a mod 3) 0).
Definition ex_ins : list (input N) :=
  map (fun i => IDgram N (N.of_nat i) false (N.of_nat (i - 200))) (seq 1 300 ++ seq 1 300).

Lemma example_300 :
  let r := run N N.eqb 0%N ex_P (fun _ => HKeep) None ex_ins in
  map (o_out N) (snd r) = spec_nohook N ex_P false ex_ins /\
  length (filter (fun o => match o_evicted N o with Some _ => true | None => false end) (snd r)) = 89%nat /\
  length (filter (fun o => match o_out N o with ODrop _ => true | _ => false end) (snd r)) = 200%nat.
Proof. vm_compute. auto. Qed.

(* the finding fixed by /repo bbf8060, on the model of the old code: non-empty first address 1, the hook
   rewrites to the empty string 0, the policy allows only 0: destination 1 receives both datagrams *)
Lemma old_refuted :
  exists (P : N -> bool) (hook : N -> hookres N) ins x,
    Forall (wf_input N 0%N) ins /\ P x = false /\
    In (OFwd N x) (map (o_out N) (snd (run_old N N.eqb 0%N P hook None ins))).
Proof.
  exists (fun a => N.eqb a 0), (fun _ => HRewrite 0%N), [IDgram N 1%N false 0%N; IDgram N 1%N false 0%N], 1%N.
  split; [repeat constructor; discriminate|]. split; [reflexivity|]. vm_compute. auto.
Qed.
