(* C09 proofs: first-match characterisation, matcher specifications, normalisation, cache-key
   injectivity and invisibility of the decision cache for every eviction oracle. *)
From Hy Require Import model.C09_ACL.
From Coq Require Import ZArith Lia.
Local Open Scope N_scope.

(* ---------- a concrete rendering that satisfies what the theorems assume of net.IP.String ---------- *)

Definition hex_digit (n : N) : byte := if n <? 10 then n2b (48 + n) else n2b (87 + n).
Fixpoint hex_of (l : list byte) : str :=
  match l with
  | [] => []
  | b :: t => hex_digit (b2n b / 16) :: hex_digit (b2n b mod 16) :: hex_of t
  end.

(* To4 normalisation: the value both net.IP.String and the matchers look at *)
Definition canon (a : ip) : ip := match to4 a with Some x => x | None => a end.

Definition ip_str_hex (a : ip) : str := hex_of (canon a).

(* a bounded FIFO as one instance of the eviction oracle (newest entry first in the list) *)
Definition pol_fifo (cap : nat) (n : nat) (c : cache) : list key := map fst (skipn cap c).

(* ---------- basic facts ---------- *)

Lemma byte_eqb_true a b : Byte.eqb a b = true <-> a = b.
Proof. split; [apply Byte.byte_dec_bl | apply Byte.byte_dec_lb]. Qed.

Lemma byte_eqb_refl a : Byte.eqb a a = true.
Proof. now apply byte_eqb_true. Qed.

Lemma beqb_true a b : beqb a b = true <-> a = b.
Proof.
  revert b. induction a as [|x a IH]; intros [|y b]; cbn [beqb]; split; intros H; try reflexivity; try discriminate.
  - apply andb_prop in H as [H1 H2]. apply byte_eqb_true in H1. apply IH in H2. now subst.
  - inversion H; subst. rewrite byte_eqb_refl. cbn. now apply IH.
Qed.

Lemma beqb_refl a : beqb a a = true.
Proof. now apply beqb_true. Qed.

Lemma bool_eq_iff (a b : bool) : (a = true <-> b = true) -> a = b.
Proof. destruct a, b; intros [H1 H2]; try reflexivity; [symmetry; now apply H1 | now apply H2]. Qed.

(* ---------- first match ---------- *)

Lemma first_match_spec rs h p port :
  (exists pre r post,
      rs = pre ++ r :: post /\
      Forall (fun x => rule_match x h p port = false) pre /\
      rule_match r h p port = true /\
      first_match rs h p port = (Some (r_ob r), r_hijack r))
  \/ (Forall (fun x => rule_match x h p port = false) rs /\ first_match rs h p port = (None, [])).
Proof.
  induction rs as [|r rs IH].
  - right. split; [constructor | reflexivity].
  - cbn [first_match]. destruct (rule_match r h p port) eqn:E.
    + left. exists [], r, rs. repeat split; auto.
    + destruct IH as [(pre & r' & post & -> & Hpre & Hr & Hf) | [Hall Hf]].
      * left. exists (r :: pre), r', post. repeat split; auto.
      * right. split; auto.
Qed.

(* the decomposition is unique: the deciding rule is the first matching one in list order *)
Lemma first_match_unique rs h p port pre r post :
  rs = pre ++ r :: post ->
  Forall (fun x => rule_match x h p port = false) pre ->
  rule_match r h p port = true ->
  first_match rs h p port = (Some (r_ob r), r_hijack r).
Proof.
  intros -> Hpre Hr. induction pre as [|x pre IH]; cbn [app first_match].
  - now rewrite Hr.
  - inversion Hpre; subst. rewrite H1. now apply IH.
Qed.

Lemma first_match_none rs h p port :
  Forall (fun x => rule_match x h p port = false) rs -> first_match rs h p port = (None, []).
Proof.
  induction 1 as [|x l Hx Hl IH]; cbn [first_match]; [reflexivity | now rewrite Hx].
Qed.

(* ---------- protocol and port predicate ---------- *)

Definition proto_ok (r : rule) (p : N) : Prop := r_proto r = ProtocolBoth \/ r_proto r = p.
Definition port_ok (r : rule) (port : N) : Prop := r_sp r <= port /\ port <= r_ep r.

Lemma rule_match_spec r h p port :
  rule_match r h p port = true <-> proto_ok r p /\ port_ok r port /\ matcher_match (r_m r) h = true.
Proof.
  unfold rule_match, proto_ok, port_ok.
  destruct (r_proto r =? ProtocolBoth) eqn:E1; destruct (r_proto r =? p) eqn:E2;
    destruct (port <? r_sp r) eqn:E3; destruct (r_ep r <? port) eqn:E4; cbn;
    rewrite ?N.eqb_eq, ?N.eqb_neq, ?N.ltb_lt, ?N.ltb_ge in *;
    split; try (intros (H1 & H2 & H3)); try intros H; try discriminate; try lia;
    try (repeat split; auto; lia); try (destruct H1; contradiction); auto.
Qed.

(* ---------- wildcard patterns ---------- *)

(* what a wildcard pattern means: '*' stands for any run of bytes (also empty, also across dots),
   every other byte for itself *)
Inductive wmatch : str -> str -> Prop :=
| WNil : wmatch [] []
| WChar c p s : c <> "*"%byte -> wmatch p s -> wmatch (c :: p) (c :: s)
| WStar p s1 s2 : wmatch p s2 -> wmatch ("*"%byte :: p) (s1 ++ s2).

Lemma deep_match_star p s :
  deep_match ("*"%byte :: p) s =
  deep_match p s || match s with [] => false | _ :: s' => deep_match ("*"%byte :: p) s' end.
Proof. destruct s; reflexivity. Qed.

Lemma deep_match_char c p s :
  c <> "*"%byte ->
  deep_match (c :: p) s = match s with [] => false | d :: s' => Byte.eqb d c && deep_match p s' end.
Proof.
  intros Hc. cbn [deep_match]. destruct (Byte.eqb c "*"%byte) eqn:E.
  - apply byte_eqb_true in E. contradiction.
  - destruct s; reflexivity.
Qed.

Lemma deep_match_sound p : forall s, deep_match p s = true -> wmatch p s.
Proof.
  induction p as [|c p IH]; intros s H.
  - destruct s; [constructor | discriminate].
  - destruct (Byte.eqb c "*"%byte) eqn:E.
    + apply byte_eqb_true in E. subst c.
      induction s as [|d s IHs].
      * rewrite deep_match_star in H. rewrite orb_false_r in H.
        apply (WStar p [] []). now apply IH.
      * rewrite deep_match_star in H. apply orb_prop in H as [H|H].
        -- apply (WStar p [] (d :: s)). now apply IH.
        -- specialize (IHs H). inversion IHs; subst.
           ++ exfalso. now apply H2.
           ++ apply (WStar p (d :: s1) s2). assumption.
    + assert (Hc : c <> "*"%byte) by (intros ->; rewrite byte_eqb_refl in E; discriminate).
      rewrite (deep_match_char c p s Hc) in H. destruct s as [|d s]; [discriminate|].
      apply andb_prop in H as [H1 H2]. apply byte_eqb_true in H1. subst d.
      constructor; auto.
Qed.

Lemma deep_match_complete p s : wmatch p s -> deep_match p s = true.
Proof.
  induction 1 as [|c p s Hc Hm IH|p s1 s2 Hm IH].
  - reflexivity.
  - rewrite (deep_match_char c p _ Hc). now rewrite byte_eqb_refl, IH.
  - induction s1 as [|d s1 IHs]; cbn [app].
    + rewrite deep_match_star, IH. reflexivity.
    + rewrite deep_match_star, IHs. apply orb_true_r.
Qed.

Lemma deep_match_spec p s : deep_match p s = true <-> wmatch p s.
Proof. split; [apply deep_match_sound | apply deep_match_complete]. Qed.

(* ---------- suffix rules ---------- *)

Lemma has_suffix_spec s suf : has_suffix s suf = true <-> exists pre, s = pre ++ suf.
Proof.
  unfold has_suffix. split.
  - intros H. apply andb_prop in H as [H1 H2]. apply beqb_true in H2.
    exists (firstn (length s - length suf) s). rewrite <- H2 at 2. now rewrite firstn_skipn.
  - intros [pre ->]. rewrite app_length.
    replace (length pre + length suf - length suf)%nat with (length pre) by lia.
    rewrite skipn_app, skipn_all, Nat.sub_diag. cbn [skipn app].
    rewrite beqb_refl, andb_true_r. apply Nat.leb_le. lia.
Qed.

(* the dot boundary: a suffix rule matches the domain itself and names ending in "." ++ domain *)
Lemma suffix_match_spec p n :
  suffix_match p n = true <-> n = p \/ exists pre, n = pre ++ "."%byte :: p.
Proof.
  unfold suffix_match. rewrite orb_true_iff, beqb_true, has_suffix_spec. tauto.
Qed.

(* ---------- normalisation ---------- *)

Lemma lower_idem c : lower (lower c) = lower c.
Proof. destruct c; reflexivity. Qed.

Lemma to_lower_idem s : to_lower (to_lower s) = to_lower s.
Proof. unfold to_lower. rewrite map_map. apply map_ext. apply lower_idem. Qed.

Lemma trim_right_dots_cons c t :
  trim_right_dots (c :: t) =
  match trim_right_dots t with
  | [] => if Byte.eqb c "."%byte then [] else [c]
  | t' => c :: t'
  end.
Proof. reflexivity. Qed.

Lemma trim_right_dots_snoc s : trim_right_dots (s ++ ["."%byte]) = trim_right_dots s.
Proof.
  induction s as [|c s IH]; [reflexivity|].
  cbn [app trim_right_dots]. now rewrite IH.
Qed.

Lemma trim_right_dots_dots s k : trim_right_dots (s ++ repeat "."%byte k) = trim_right_dots s.
Proof.
  revert s. induction k as [|k IH]; intros s; cbn [repeat].
  - now rewrite app_nil_r.
  - change ("."%byte :: repeat "."%byte k) with (["."%byte] ++ repeat "."%byte k).
    now rewrite app_assoc, IH, trim_right_dots_snoc.
Qed.

Lemma to_lower_dots s k : to_lower (s ++ repeat "."%byte k) = to_lower s ++ repeat "."%byte k.
Proof.
  unfold to_lower. rewrite map_app. f_equal. induction k; cbn; congruence.
Qed.

(* trailing dots are ignored *)
Lemma norm_name_dots s k : norm_name (s ++ repeat "."%byte k) = norm_name s.
Proof. unfold norm_name. now rewrite to_lower_dots, trim_right_dots_dots. Qed.

(* names that differ only in letter case normalise alike *)
Lemma norm_name_case s s' : to_lower s = to_lower s' -> norm_name s = norm_name s'.
Proof. unfold norm_name. now intros ->. Qed.

Lemma norm_name_idem s : norm_name (norm_name s) = norm_name s.
Proof.
  unfold norm_name.
  assert (L : forall t, to_lower t = t -> to_lower (trim_right_dots t) = trim_right_dots t).
  { induction t as [|c t IH]; [reflexivity|]. cbn [to_lower map trim_right_dots]. intros H.
    injection H as Hc Ht. fold (to_lower t) in Ht. specialize (IH Ht).
    destruct (trim_right_dots t) eqn:E.
    - destruct (Byte.eqb c "."%byte); [reflexivity|]. cbn. now rewrite Hc.
    - cbn [to_lower map]. rewrite Hc. f_equal. exact IH. }
  assert (T : forall t, trim_right_dots (trim_right_dots t) = trim_right_dots t).
  { induction t as [|c t IH]; [reflexivity|]. rewrite (trim_right_dots_cons c t).
    destruct (trim_right_dots t) as [|b l] eqn:E.
    - destruct (Byte.eqb c "."%byte) eqn:E2; [reflexivity|]. cbn [trim_right_dots]. now rewrite E2.
    - rewrite (trim_right_dots_cons c (b :: l)). rewrite IH. reflexivity. }
  rewrite (L _ (to_lower_idem s)). apply T.
Qed.

(* ---------- net.IP: To4 normalisation is all the matchers look at ---------- *)

Lemma split_12 (x : list byte) p :
  length p = 12%nat -> (firstn 12 x = p <-> x = p ++ skipn 12 x).
Proof.
  intros Hp. split; intros H.
  - rewrite <- H. now rewrite firstn_skipn.
  - rewrite H at 1. rewrite firstn_app, Hp, Nat.sub_diag, firstn_O, app_nil_r.
    rewrite <- Hp. apply firstn_all.
Qed.

Lemma to4_cases a :
  (length a = 4%nat /\ to4 a = Some a) \/
  (length a = 16%nat /\ a = v4in6_prefix ++ skipn 12 a /\ to4 a = Some (skipn 12 a)) \/
  (length a <> 4%nat /\ (length a <> 16%nat \/ firstn 12 a <> v4in6_prefix) /\ to4 a = None).
Proof.
  unfold to4. destruct (Nat.eqb_spec (length a) 4) as [H4|H4]; [left; auto|].
  destruct (Nat.eqb_spec (length a) 16) as [H16|H16]; cbn [andb].
  - destruct (beqb (firstn 12 a) v4in6_prefix) eqn:E.
    + apply beqb_true in E. right; left. repeat split; auto.
      now apply (split_12 a v4in6_prefix eq_refl).
    + right; right. repeat split; auto. right. intros H. rewrite H, beqb_refl in E. discriminate.
  - right; right. repeat split; auto.
Qed.

Lemma skipn12_length (a : list byte) : length a = 16%nat -> length (skipn 12 a) = 4%nat.
Proof. intros H. rewrite skipn_length, H. reflexivity. Qed.

Lemma to4_len4 y : length y = 4%nat -> to4 y = Some y.
Proof. intros H. unfold to4. now rewrite H. Qed.

Lemma canon_idem a : canon (canon a) = canon a.
Proof.
  unfold canon. destruct (to4_cases a) as [[H1 H2]|[(H1 & H2 & H3)|(H1 & H2 & H3)]].
  - repeat rewrite H2. reflexivity.
  - rewrite H3. now rewrite (to4_len4 _ (skipn12_length a H1)).
  - repeat rewrite H3. reflexivity.
Qed.

Lemma app_inv_12 (p a b : list byte) : p ++ a = p ++ b -> a = b.
Proof. apply app_inv_head. Qed.

Lemma ip_equal_canon a x : ip_equal a x = ip_equal a (canon x).
Proof.
  unfold canon. destruct (to4_cases x) as [[H1 H2]|[(H1 & H2 & H3)|(H1 & H2 & H3)]];
    [now rewrite H2 | rewrite H3 | now rewrite H3].
  set (y := skipn 12 x) in *. assert (Hy : length y = 4%nat) by (apply skipn12_length; auto).
  unfold ip_equal. rewrite H1, Hy.
  destruct (Nat.eqb_spec (length a) 16) as [A16|A16].
  - (* a has 16 bytes *)
    try rewrite A16. cbn [Nat.eqb andb].
    apply bool_eq_iff. rewrite andb_true_iff, !beqb_true.
    rewrite (split_12 a v4in6_prefix eq_refl). fold y. split.
    + intros ->. split; [exact H2 | reflexivity].
    + intros [Ha Hs]. rewrite Ha, H2. now rewrite Hs.
  - destruct (Nat.eqb_spec (length a) 4) as [A4|A4].
    + try rewrite A4. cbn [Nat.eqb andb]. fold y.
      assert (E : beqb (firstn 12 x) v4in6_prefix = true).
      { apply beqb_true. now apply (split_12 x v4in6_prefix eq_refl). }
      rewrite E. reflexivity.
    + cbn [andb]. reflexivity.
Qed.

Lemma ipnet_contains_canon n m x : ipnet_contains n m x = ipnet_contains n m (canon x).
Proof.
  unfold ipnet_contains. destruct (net_num_mask n m) as [nn mm].
  fold (canon x). fold (canon (canon x)). now rewrite canon_idem.
Qed.

Lemma matcher_match_canon m n a b :
  matcher_match m (mkHost n a b) = matcher_match m (mkHost n (canon a) (canon b)).
Proof.
  destruct m; cbn [matcher_match h_name h_v4 h_v6]; auto.
  - now rewrite (ip_equal_canon a0 a), (ip_equal_canon a0 b).
  - now rewrite (ipnet_contains_canon nip mask a), (ipnet_contains_canon nip mask b).
Qed.

Lemma first_match_canon rs n a b p port :
  first_match rs (mkHost n a b) p port = first_match rs (mkHost n (canon a) (canon b)) p port.
Proof.
  induction rs as [|r rs IH]; [reflexivity|]. cbn [first_match]. unfold rule_match.
  rewrite (matcher_match_canon (r_m r) n a b), IH. reflexivity.
Qed.

(* what an IP rule means: same address, a 4-byte and a v4-mapped 16-byte form being the same *)
Definition ip_same (a x : ip) : Prop :=
  (length a = length x /\ a = x) \/
  (length a = 4%nat /\ x = v4in6_prefix ++ a) \/
  (length x = 4%nat /\ a = v4in6_prefix ++ x).

Lemma ip_equal_spec a x : ip_equal a x = true <-> ip_same a x.
Proof.
  unfold ip_equal, ip_same.
  destruct (Nat.eqb_spec (length a) (length x)) as [E|E].
  - rewrite beqb_true. split.
    + intros ->. left; auto.
    + intros [[_ H]|[[H1 H2]|[H1 H2]]]; auto; exfalso; subst; rewrite app_length in E; cbn in E; lia.
  - destruct (Nat.eqb_spec (length a) 4) as [A4|A4]; destruct (Nat.eqb_spec (length x) 16) as [X16|X16]; cbn [andb].
    + rewrite andb_true_iff, !beqb_true, (split_12 x v4in6_prefix eq_refl). split.
      * intros [H1 H2]. right; left. split; auto. now rewrite H2.
      * intros [[H _]|[[_ H]|[H1 H2]]]; [contradiction| |lia].
        subst x. rewrite skipn_app. cbn [length v4in6_prefix Nat.sub skipn app]. auto.
    + destruct (Nat.eqb_spec (length a) 16) as [A16|A16]; [lia|]. cbn [andb]. split; [discriminate|].
      intros [[H _]|[[_ H]|[H1 H2]]]; [contradiction| |]; subst; rewrite app_length in *; cbn in *; lia.
    + destruct (Nat.eqb_spec (length a) 16) as [A16|A16]; destruct (Nat.eqb_spec (length x) 4) as [X4|X4]; cbn [andb].
      * rewrite andb_true_iff, !beqb_true, (split_12 a v4in6_prefix eq_refl). split.
        -- intros [H1 H2]. right; right. split; auto. now rewrite <- H2.
        -- intros [[H _]|[[H _]|[_ H]]]; [contradiction|contradiction|].
           subst a. rewrite skipn_app. cbn [length v4in6_prefix Nat.sub skipn app]. auto.
      * split; [discriminate|]. intros [[H _]|[[H _]|[H _]]]; contradiction.
      * split; [discriminate|]. intros [[H _]|[[H _]|[_ H]]]; [contradiction|contradiction|].
        subst; rewrite app_length in *; cbn in *; lia.
      * split; [discriminate|]. intros [[H _]|[[H _]|[H _]]]; contradiction.
    + destruct (Nat.eqb_spec (length a) 16) as [A16|A16]; destruct (Nat.eqb_spec (length x) 4) as [X4|X4]; cbn [andb].
      * rewrite andb_true_iff, !beqb_true, (split_12 a v4in6_prefix eq_refl). split.
        -- intros [H1 H2]. right; right. split; auto. now rewrite <- H2.
        -- intros [[H _]|[[H _]|[_ H]]]; [contradiction|contradiction|].
           subst a. rewrite skipn_app. cbn [length v4in6_prefix Nat.sub skipn app]. auto.
      * split; [discriminate|]. intros [[H _]|[[H _]|[H _]]]; contradiction.
      * split; [discriminate|]. intros [[H _]|[[H _]|[_ H]]]; [contradiction|contradiction|].
        subst; rewrite app_length in *; cbn in *; lia.
      * split; [discriminate|]. intros [[H _]|[[H _]|[H _]]]; contradiction.
Qed.

(* ---------- cache key ---------- *)

Lemma split_at_last_sep (sep : byte) : forall a b x y,
  a ++ sep :: x = b ++ sep :: y -> ~ In sep x -> ~ In sep y -> a = b /\ x = y.
Proof.
  induction a as [|c a IH]; intros [|d b] x y H Hx Hy; cbn [app] in H.
  - injection H as H. auto.
  - injection H as H1 H2. subst. exfalso. apply Hx. apply in_or_app. right. now left.
  - injection H as H1 H2. subst. exfalso. apply Hy. apply in_or_app. right. now left.
  - injection H as H1 H2. subst. destruct (IH b x y H2 Hx Hy) as [-> ->]. auto.
Qed.

Lemma key_eqb_true a b : key_eqb a b = true <-> a = b.
Proof.
  destruct a as [[s1 p1] n1], b as [[s2 p2] n2]. unfold key_eqb. cbn [fst snd].
  rewrite !andb_true_iff, beqb_true, !N.eqb_eq. split.
  - intros [[-> ->] ->]. reflexivity.
  - intros H. injection H as -> -> ->. auto.
Qed.

Lemma key_eqb_refl a : key_eqb a a = true.
Proof. now apply key_eqb_true. Qed.

Section CacheProofs.
  Variable ip_str : ip -> str.
  (* what is assumed of net.IP.String(): the rendering never contains '|', and two addresses are
     rendered alike only if they are the same after To4 normalisation *)
  Hypothesis ip_str_nobar : forall a, ~ In "|"%byte (ip_str a).
  Hypothesis ip_str_inj : forall a b, ip_str a = ip_str b -> canon a = canon b.

  Lemma host_string_inj h1 h2 :
    host_string ip_str h1 = host_string ip_str h2 ->
    h_name h1 = h_name h2 /\ canon (h_v4 h1) = canon (h_v4 h2) /\ canon (h_v6 h1) = canon (h_v6 h2).
  Proof.
    unfold host_string. intros H.
    rewrite !app_comm_cons in H.
    change (h_name h1 ++ "|"%byte :: ip_str (h_v4 h1) ++ "|"%byte :: ip_str (h_v6 h1))
      with (h_name h1 ++ ("|"%byte :: ip_str (h_v4 h1)) ++ "|"%byte :: ip_str (h_v6 h1)) in H.
    change (h_name h2 ++ "|"%byte :: ip_str (h_v4 h2) ++ "|"%byte :: ip_str (h_v6 h2))
      with (h_name h2 ++ ("|"%byte :: ip_str (h_v4 h2)) ++ "|"%byte :: ip_str (h_v6 h2)) in H.
    rewrite !app_assoc in H.
    apply split_at_last_sep in H; try apply ip_str_nobar. destruct H as [H1 H6].
    apply split_at_last_sep in H1; try apply ip_str_nobar. destruct H1 as [Hn H4].
    repeat split; auto.
  Qed.

  (* two queries with the same cache key have the same fresh evaluation, for every rule list *)
  Lemma key_injective rs q1 q2 :
    mk_key ip_str q1 = mk_key ip_str q2 -> fresh rs q1 = fresh rs q2.
  Proof.
    unfold mk_key, fresh. intros H. injection H as Hs Hp Hport.
    apply host_string_inj in Hs. cbn [norm_host h_name h_v4 h_v6] in Hs. destruct Hs as (Hn & H4 & H6).
    rewrite Hp, Hport. unfold norm_host.
    rewrite (first_match_canon rs _ (h_v4 (q_host q1))), (first_match_canon rs _ (h_v4 (q_host q2))).
    now rewrite Hn, H4, H6.
  Qed.

  (* the cache invariant: every entry is the fresh evaluation of every query that has its key *)
  Definition cache_ok (rs : list rule) (c : cache) : Prop :=
    forall k r, In (k, r) c -> forall q, mk_key ip_str q = k -> r = fresh rs q.

  Lemma cache_ok_nil rs : cache_ok rs [].
  Proof. intros k r []. Qed.

  Lemma cache_ok_incl rs c c' : incl c' c -> cache_ok rs c -> cache_ok rs c'.
  Proof. intros Hi Hc k r Hin. apply Hc. now apply Hi. Qed.

  Lemma cache_ok_add rs c q :
    cache_ok rs c -> cache_ok rs ((mk_key ip_str q, fresh rs q) :: c).
  Proof.
    intros Hc k r [Hin|Hin] q' Hk.
    - injection Hin as <- <-. now apply key_injective.
    - now apply (Hc k r Hin).
  Qed.

  Lemma cache_get_in c k r : cache_get c k = Some r -> In (k, r) c.
  Proof.
    induction c as [|[k' r'] c IH]; cbn [cache_get]; [discriminate|].
    destruct (key_eqb k' k) eqn:E.
    - apply key_eqb_true in E. intros H. injection H as ->. subst. now left.
    - intros H. right. auto.
  Qed.

  Lemma filter_incl {A} (f : A -> bool) l : incl (filter f l) l.
  Proof. intros x Hx. now apply filter_In in Hx. Qed.

  Section Oracle.
    Variable pol : nat -> cache -> list key.

    Lemma match_step_ok rs n c q :
      cache_ok rs c ->
      cache_ok rs (fst (match_step ip_str pol rs n c q)) /\ snd (match_step ip_str pol rs n c q) = fresh rs q.
    Proof.
      intros Hc. unfold match_step.
      destruct (cache_get c (mk_key ip_str q)) as [r|] eqn:E; cbn [fst snd].
      - split.
        + eapply cache_ok_incl; [apply filter_incl | exact Hc].
        + apply cache_get_in in E. now apply (Hc _ _ E q).
      - split; [|reflexivity].
        eapply cache_ok_incl; [apply filter_incl|].
        apply cache_ok_add. eapply cache_ok_incl; [apply filter_incl | exact Hc].
    Qed.

    Lemma run_from_fresh rs : forall qs n c,
      cache_ok rs c -> run_from ip_str pol rs n c qs = map (fresh rs) qs.
    Proof.
      induction qs as [|q qs IH]; intros n c Hc; [reflexivity|].
      cbn [run_from map]. destruct (match_step_ok rs n c q Hc) as [H1 H2].
      destruct (match_step ip_str pol rs n c q) as [c' r]. cbn [fst snd] in *.
      now rewrite H2, (IH (S n) c' H1).
    Qed.

    (* decision caching is invisible *)
    Lemma cache_invisible rs qs : run ip_str pol rs qs = map (fresh rs) qs.
    Proof. unfold run. apply run_from_fresh. apply cache_ok_nil. Qed.
  End Oracle.

  Lemma cop_step_ok rs c o :
    cache_ok rs c ->
    cache_ok rs (fst (cop_step ip_str rs c o)) /\
    (forall q r, snd (cop_step ip_str rs c o) = Some (q, r) -> r = fresh rs q).
  Proof.
    intros Hc. destruct o as [q|q|ks]; cbn [cop_step fst snd].
    - split; [exact Hc|]. intros q' r H.
      destruct (cache_get c (mk_key ip_str q)) as [r0|] eqn:E; [|discriminate].
      injection H as <- <-. apply cache_get_in in E. now apply (Hc _ _ E q).
    - split; [|discriminate]. apply cache_ok_add. eapply cache_ok_incl; [apply filter_incl | exact Hc].
    - split; [|discriminate]. eapply cache_ok_incl; [apply filter_incl | exact Hc].
  Qed.

  Lemma cop_hits_fresh rs : forall os c,
    cache_ok rs c -> Forall (fun x => snd x = fresh rs (fst x)) (cop_hits ip_str rs c os).
  Proof.
    induction os as [|o os IH]; intros c Hc; cbn [cop_hits]; [constructor|].
    destruct (cop_step_ok rs c o Hc) as [H1 H2].
    destruct (cop_step ip_str rs c o) as [c' obs]. cbn [fst snd] in *.
    destruct obs as [[q r]|].
    - constructor; [cbn [fst snd]; now apply H2 | now apply IH].
    - now apply IH.
  Qed.

  (* every interleaving of the atomic cache sections of concurrent lookups, with evictions anywhere *)
  Lemma cache_invisible_concurrent rs os :
    Forall (fun x => snd x = fresh rs (fst x)) (cop_hits ip_str rs [] os).
  Proof. apply cop_hits_fresh. apply cache_ok_nil. Qed.
End CacheProofs.

(* the hypotheses on the rendering are satisfiable: the hexadecimal rendering of the normalised address *)
Lemma hex_digit_nobar n : n < 16 -> hex_digit n <> "|"%byte.
Proof.
  intros H. assert (C : n = 0 \/ n = 1 \/ n = 2 \/ n = 3 \/ n = 4 \/ n = 5 \/ n = 6 \/ n = 7 \/ n = 8 \/ n = 9 \/
                        n = 10 \/ n = 11 \/ n = 12 \/ n = 13 \/ n = 14 \/ n = 15) by lia.
  repeat (destruct C as [->|C]; [discriminate|]). subst. discriminate.
Qed.

Lemma hex_of_nobar l : ~ In "|"%byte (hex_of l).
Proof.
  induction l as [|b l IH]; cbn [hex_of]; [intros []|].
  intros [H|[H|H]]; auto.
  - revert H. apply hex_digit_nobar. apply N.div_lt_upper_bound; [lia|]. pose proof (b2n_lt b). lia.
  - revert H. apply hex_digit_nobar. apply N.mod_lt. lia.
Qed.

Lemma hex_digit_inj a b : a < 16 -> b < 16 -> hex_digit a = hex_digit b -> a = b.
Proof.
  intros Ha Hb H. apply (f_equal b2n) in H. unfold hex_digit in H.
  destruct (a <? 10) eqn:Ea; destruct (b <? 10) eqn:Eb;
    rewrite ?N.ltb_lt, ?N.ltb_ge in *; rewrite !b2n_n2b_small in H by lia; lia.
Qed.

Lemma hex_of_inj : forall l1 l2, hex_of l1 = hex_of l2 -> l1 = l2.
Proof.
  induction l1 as [|a l1 IH]; intros [|b l2] H; cbn [hex_of] in H; try discriminate; [reflexivity|].
  injection H as H1 H2 H3. f_equal; [|now apply IH].
  pose proof (b2n_lt a). pose proof (b2n_lt b).
  apply hex_digit_inj in H1; [|apply N.div_lt_upper_bound; lia|apply N.div_lt_upper_bound; lia].
  apply hex_digit_inj in H2; [|apply N.mod_lt; lia|apply N.mod_lt; lia].
  apply b2n_inj. rewrite (N.div_mod (b2n a) 16), (N.div_mod (b2n b) 16) by lia. now rewrite H1, H2.
Qed.

Lemma ip_str_hex_nobar a : ~ In "|"%byte (ip_str_hex a).
Proof. apply hex_of_nobar. Qed.

Lemma ip_str_hex_inj a b : ip_str_hex a = ip_str_hex b -> canon a = canon b.
Proof. apply hex_of_inj. Qed.

(* ---------- parseProtoPort always yields a well-formed predicate ---------- *)

Lemma parse_uint16_le s n : parse_uint16 s = Some n -> n <= 65535.
Proof.
  unfold parse_uint16. destruct (parse_dec s) as [m|]; [|discriminate].
  destruct (m <=? 65535) eqn:E; [|discriminate]. intros H. injection H as <-. now apply N.leb_le.
Qed.

Lemma parse_proto_port_wf s p a b :
  parse_proto_port s = Some (p, a, b) ->
  (p = ProtocolBoth \/ p = ProtocolTCP \/ p = ProtocolUDP) /\ a <= b /\ b <= 65535.
Proof.
  unfold parse_proto_port.
  destruct (beqb (to_lower s) [] || beqb (to_lower s) s_star || beqb (to_lower s) s_starstar).
  { intros H. injection H as <- <- <-. repeat split; auto; lia. }
  destruct (cut "/"%byte (to_lower s)) as [[p0 p1]|].
  - set (pr := if beqb p0 s_tcp then Some ProtocolTCP
               else if beqb p0 s_udp then Some ProtocolUDP
               else if beqb p0 s_star then Some ProtocolBoth else None).
    assert (Hpr : forall x, pr = Some x -> x = ProtocolBoth \/ x = ProtocolTCP \/ x = ProtocolUDP).
    { unfold pr. intros x. destruct (beqb p0 s_tcp); [intros H; injection H as <-; auto|].
      destruct (beqb p0 s_udp); [intros H; injection H as <-; auto|].
      destruct (beqb p0 s_star); [intros H; injection H as <-; auto|discriminate]. }
    destruct pr as [proto|]; [|discriminate]. specialize (Hpr proto eq_refl).
    destruct (beqb p1 s_star).
    { intros H. injection H as <- <- <-. repeat split; auto; lia. }
    destruct (cut "-"%byte (trim_space p1)) as [[x y]|].
    + destruct (parse_uint16 x) as [sx|] eqn:Ex; [|discriminate].
      destruct (parse_uint16 y) as [sy|] eqn:Ey; [|discriminate].
      destruct (sy <? sx) eqn:E; [discriminate|].
      intros H. injection H as <- <- <-. apply N.ltb_ge in E. apply parse_uint16_le in Ey. auto.
    + destruct (parse_uint16 p1) as [sx|] eqn:Ex; [|discriminate].
      intros H. injection H as <- <- <-. apply parse_uint16_le in Ex. repeat split; auto; lia.
  - destruct (beqb (to_lower s) s_tcp); [intros H; injection H as <- <- <-; repeat split; auto; lia|].
    destruct (beqb (to_lower s) s_udp); [intros H; injection H as <- <- <-; repeat split; auto; lia|discriminate].
Qed.

(* ---------- aclEngine.handle ---------- *)

Lemma engine_default rs d a p :
  Forall (fun x => rule_match x (norm_host (req_host a)) p (ra_port a) = false) rs ->
  engine_handle rs d a p = (d, RwNone).
Proof.
  intros H. unfold engine_handle, fresh. cbn [q_host q_proto q_port].
  now rewrite (first_match_none _ _ _ _ H).
Qed.

Lemma engine_first rs d a p pre r post :
  rs = pre ++ r :: post ->
  Forall (fun x => rule_match x (norm_host (req_host a)) p (ra_port a) = false) pre ->
  rule_match r (norm_host (req_host a)) p (ra_port a) = true ->
  engine_handle rs d a p =
    (r_ob r,
     match r_hijack r with
     | [] => RwNone
     | _ => match to4 (r_hijack r) with
            | Some x => RwHijack (r_hijack r) x []
            | None => RwHijack (r_hijack r) [] (r_hijack r)
            end
     end).
Proof.
  intros E Hpre Hr. unfold engine_handle, fresh. cbn [q_host q_proto q_port].
  rewrite (first_match_unique _ _ _ _ _ _ _ E Hpre Hr). unfold handle_result.
  destruct (r_hijack r) as [|b l]; [reflexivity|]. cbn [length Nat.eqb].
  destruct (to4 (b :: l)); reflexivity.
Qed.

(* ---------- Compile keeps file order ---------- *)

Lemma compile_rules_order obs : forall ts rs,
  compile_rules obs ts = Ok rs -> Forall2 (fun t r => compile_rule obs t = Ok r) ts rs.
Proof.
  induction ts as [|t ts IH]; intros rs H; cbn [compile_rules] in H.
  - injection H as <-. constructor.
  - destruct (compile_rule obs t) as [r|e|s] eqn:E; cbn [bind] in H; try discriminate.
    destruct (compile_rules obs ts) as [rs'|e|s] eqn:E2; cbn [bind] in H; try discriminate.
    injection H as <-. constructor; auto.
Qed.

Lemma compile_order obs ts csize rs :
  compile obs ts csize = Ok rs -> Forall2 (fun t r => compile_rule obs t = Ok r) ts rs.
Proof.
  unfold compile. destruct (compile_rules obs ts) as [rs'|e|s] eqn:E; cbn [bind]; try discriminate.
  destruct (csize <=? 0)%Z; [discriminate|]. intros H. injection H as <-. now apply compile_rules_order.
Qed.

(* ---------- statements used by props/C09.v ---------- *)

Definition matcher_spec (m : matcher) (h : host) : Prop :=
  match m with
  | MAll => True
  | MExact p => h_name h = p
  | MSuffix p => h_name h = p \/ exists pre, h_name h = pre ++ "."%byte :: p
  | MWild p => wmatch p (h_name h)
  | MIP a => ip_same a (h_v4 h) \/ ip_same a (h_v6 h)
  | MCIDR n m => ipnet_contains n m (canon (h_v4 h)) = true \/ ipnet_contains n m (canon (h_v6 h)) = true
  end.

Lemma matcher_match_spec m h : matcher_match m h = true <-> matcher_spec m h.
Proof.
  destruct m; cbn [matcher_match matcher_spec].
  - tauto.
  - apply beqb_true.
  - apply suffix_match_spec.
  - apply deep_match_spec.
  - rewrite orb_true_iff, !ip_equal_spec. tauto.
  - rewrite orb_true_iff, <- !ipnet_contains_canon. tauto.
Qed.

Lemma fresh_spec rs q :
  let h := norm_host (q_host q) in
  (exists pre r post,
      rs = pre ++ r :: post /\
      Forall (fun x => rule_match x h (q_proto q) (q_port q) = false) pre /\
      rule_match r h (q_proto q) (q_port q) = true /\
      fresh rs q = (Some (r_ob r), r_hijack r))
  \/ (Forall (fun x => rule_match x h (q_proto q) (q_port q) = false) rs /\ fresh rs q = (None, [])).
Proof. apply first_match_spec. Qed.

Lemma rule_match_full r h p port :
  rule_match r h p port = true <->
  (r_proto r = ProtocolBoth \/ r_proto r = p) /\ (r_sp r <= port /\ port <= r_ep r) /\ matcher_spec (r_m r) h.
Proof. rewrite rule_match_spec, matcher_match_spec. reflexivity. Qed.

Lemma normalization rs n n' v4 v6 p port k k' :
  to_lower n = to_lower n' ->
  fresh rs (mkQuery (mkHost (n ++ repeat "."%byte k) v4 v6) p port) =
  fresh rs (mkQuery (mkHost (n' ++ repeat "."%byte k') v4 v6) p port).
Proof.
  intros H. unfold fresh, norm_host. cbn [q_host q_proto q_port h_name h_v4 h_v6].
  now rewrite !norm_name_dots, (norm_name_case n n' H).
Qed.

Lemma pattern_normalization a a' k k' :
  to_lower a = to_lower a' ->
  compile_host_matcher (a ++ repeat "."%byte k) = compile_host_matcher (a' ++ repeat "."%byte k').
Proof.
  intros H. unfold compile_host_matcher. now rewrite !norm_name_dots, (norm_name_case a a' H).
Qed.

(* the name a domain rule sees is already normalised: matching is on norm_name of the queried name *)
Lemma fresh_norm rs h p port :
  fresh rs (mkQuery h p port) = fresh rs (mkQuery (norm_host h) p port).
Proof.
  unfold fresh, norm_host. cbn [q_host q_proto q_port h_name h_v4 h_v6]. now rewrite norm_name_idem.
Qed.

(* the predicate the code had before the repair: a range starting at 0 matched every port *)
Lemma port_any_old_refuted :
  exists r h, parse_proto_port [x74;x63;x70;x2f;x30;x2d;x31;x30;x30] = Some (r_proto r, r_sp r, r_ep r) /\
              rule_match_old r h ProtocolTCP 443 = true /\ rule_match r h ProtocolTCP 443 = false.
Proof.
  exists (mkRule 1 MAll ProtocolTCP 0 100 []), (mkHost [] [] []). vm_compute. auto.
Qed.

(* ---------- non-vacuity: concrete rule lists evaluated in the kernel ---------- *)

Definition bs (l : list byte) : str := l.
Definition ex_obs : obmap := [([x61], 1); ([x62], 2)].
(* four rules: a [suffix:example.com, tcp/80-90, hijack 1.1.1.1]; B [star.Example.COM., udp]; a [1.2.3.0/24, tcp/0-100]; b [2001:db8::/32] *)
Definition ex_rules : list trule :=
  [mkTRule [x61] [x73;x75;x66;x66;x69;x78;x3a;x65;x78;x61;x6d;x70;x6c;x65;x2e;x63;x6f;x6d] [x74;x63;x70;x2f;x38;x30;x2d;x39;x30] [x31;x2e;x31;x2e;x31;x2e;x31];
   mkTRule [x42] [x2a;x2e;x45;x78;x61;x6d;x70;x6c;x65;x2e;x43;x4f;x4d;x2e] [x75;x64;x70] [];
   mkTRule [x61] [x31;x2e;x32;x2e;x33;x2e;x30;x2f;x32;x34] [x74;x63;x70;x2f;x30;x2d;x31;x30;x30] [];
   mkTRule [x62] [x32;x30;x30;x31;x3a;x64;x62;x38;x3a;x3a;x2f;x33;x32] [] []].
Definition ex_name_www : str := [x57;x57;x57;x2e;x65;x78;x61;x6d;x70;x6c;x65;x2e;x63;x6f;x6d;x2e].   (* WWW.example.com. *)
Definition ex_name_not : str := [x6e;x6f;x74;x65;x78;x61;x6d;x70;x6c;x65;x2e;x63;x6f;x6d].           (* notexample.com *)
Definition ex_name_deep : str := [x61;x2e;x62;x2e;x65;x78;x61;x6d;x70;x6c;x65;x2e;x63;x6f;x6d].       (* a.b.example.com *)
Definition ex_v6 : ip := [x20;x01;x0d;xb8;x00;x00;x00;x00;x00;x00;x00;x00;x00;x00;x00;x09].
Definition ex_queries : list query :=
  [mkQuery (mkHost ex_name_www [] []) 1 80;          (* rule 1, hijack 1.1.1.1 *)
   mkQuery (mkHost ex_name_www [] []) 1 91;          (* port just above the range: no rule *)
   mkQuery (mkHost ex_name_not [] []) 1 80;          (* no dot boundary: no rule *)
   mkQuery (mkHost ex_name_deep [] []) 2 53;         (* wildcard across dots: rule 2 *)
   mkQuery (mkHost [] [x01;x02;x03;x04] []) 1 100;   (* rule 3 *)
   mkQuery (mkHost [] [x01;x02;x03;x04] []) 1 443;   (* range starting at 0 does not mean any port *)
   mkQuery (mkHost [] (v4in6_prefix ++ [x01;x02;x03;xff]) []) 1 0;   (* v4-mapped form, port 0: rule 3 *)
   mkQuery (mkHost [] [] ex_v6) 2 65535;             (* rule 4 *)
   mkQuery (mkHost ex_name_www [] []) 1 80].         (* repeated *)

Example ex_compiles : exists rs, compile ex_obs ex_rules 1 = Ok rs /\ length rs = 4%nat.
Proof. eexists. split; vm_compute; reflexivity. Qed.

Example ex_answers :
  forall rs, compile ex_obs ex_rules 1 = Ok rs ->
  map (fresh rs) ex_queries =
  [(Some 1, v4in6_prefix ++ [x01;x01;x01;x01]); (None, []); (None, []); (Some 2, []); (Some 1, []); (None, []);
   (Some 1, []); (Some 2, []); (Some 1, v4in6_prefix ++ [x01;x01;x01;x01])] /\
  run ip_str_hex (pol_fifo 1) rs ex_queries = map (fresh rs) ex_queries.
Proof. intros rs H. vm_compute in H. injection H as <-. split; vm_compute; reflexivity. Qed.

Example ex_wildcard : wmatch [x2a;x2e;x63] [x61;x2e;x62;x2e;x63] /\ ~ wmatch [x2a;x2e;x63] [x61;x63].
Proof.
  split.
  - apply deep_match_spec. vm_compute. reflexivity.
  - intros H. apply deep_match_spec in H. vm_compute in H. discriminate.
Qed.
