(* C09 proofs: what a CIDR rule means.  The model of net.ParseCIDR / net.CIDRMask / IP.Mask /
   IPNet.Contains (model/C09_ACL.v) is executable only; here is the declarative reading:
   an address lies in ip/n iff its first n bits are the first n bits of ip, for IPv4 networks (4-byte and
   v4-mapped 16-byte addresses alike), for IPv6 networks, and for networks written in v4-mapped form;
   with the edge cases n = 0, 32, 128, n larger than the address size, and a network address that has
   bits set beyond the prefix. *)
From Hy Require Import model.C09_ACL proof.C09_ACL.
From Coq Require Import ZArith Lia.
Local Open Scope N_scope.

(* ---------- bits ---------- *)

(* the bits of a byte / of an address, most significant first *)
Definition bits8 (c : byte) : list bool := map (N.testbit (b2n c)) [7;6;5;4;3;2;1;0].
Fixpoint bits (l : list byte) : list bool :=
  match l with [] => [] | c :: t => bits8 c ++ bits t end.

(* a and b agree on their first n bits *)
Definition prefix_eq (n : N) (a b : list byte) : Prop :=
  firstn (N.to_nat n) (bits a) = firstn (N.to_nat n) (bits b).

Definition unbits8 (l : list bool) : byte :=
  n2b (fold_left (fun acc (b : bool) => 2 * acc + (if b then 1 else 0)) l 0).

(* the mask byte with k leading ones: ^byte(0xff >> k) *)
Definition mkb (k : N) : byte := n2b (255 - 255 / 2 ^ k).

(* ---------- facts about single bytes, by evaluation over all 256 bytes ---------- *)

Definition all_bytes : list byte := map (fun k => n2b (N.of_nat k)) (seq 0 256).

Lemma in_all_bytes b : In b all_bytes.
Proof.
  unfold all_bytes. apply in_map_iff. exists (N.to_nat (b2n b)). split.
  - rewrite N2Nat.id. apply n2b_b2n.
  - apply in_seq. pose proof (b2n_lt b). lia.
Qed.

Lemma forall_bytes (P : byte -> bool) : forallb P all_bytes = true -> forall b, P b = true.
Proof. intros H b. rewrite forallb_forall in H. apply H, in_all_bytes. Qed.

Fixpoint bools_eqb (a b : list bool) : bool :=
  match a, b with
  | [], [] => true
  | x :: a', y :: b' => Bool.eqb x y && bools_eqb a' b'
  | _, _ => false
  end.

Lemma bools_eqb_true a : forall b, bools_eqb a b = true -> a = b.
Proof.
  induction a as [|x a IH]; intros [|y b] H; cbn [bools_eqb] in H; try discriminate; [reflexivity|].
  apply andb_prop in H as [H1 H2]. apply Bool.eqb_prop in H1. subst. f_equal. now apply IH.
Qed.

Lemma unbits8_bits8 a : unbits8 (bits8 a) = a.
Proof.
  apply byte_eqb_true. revert a.
  apply (forall_bytes (fun a => Byte.eqb (unbits8 (bits8 a)) a)). vm_compute. reflexivity.
Qed.

Lemma band_ff a : band a xff = a.
Proof.
  apply byte_eqb_true. revert a.
  apply (forall_bytes (fun a => Byte.eqb (band a xff) a)). vm_compute. reflexivity.
Qed.

Lemma band_00 a : band a x00 = x00.
Proof.
  apply byte_eqb_true. revert a.
  apply (forall_bytes (fun a => Byte.eqb (band a x00) x00)). vm_compute. reflexivity.
Qed.

Definition ks : list N := [0;1;2;3;4;5;6;7;8].

Lemma le8_in_ks k : k <= 8 -> In k ks.
Proof. intros H. unfold ks. cbn [In]. lia. Qed.

(* masking with k leading ones keeps the first k bits and clears the others *)
Lemma bits8_band a k : k <= 8 ->
  bits8 (band a (mkb k)) = firstn (N.to_nat k) (bits8 a) ++ repeat false (8 - N.to_nat k).
Proof.
  intros Hk. apply bools_eqb_true.
  assert (H : forallb (fun a => forallb (fun k =>
              bools_eqb (bits8 (band a (mkb k))) (firstn (N.to_nat k) (bits8 a) ++ repeat false (8 - N.to_nat k))) ks)
            all_bytes = true) by (vm_compute; reflexivity).
  pose proof (forall_bytes _ H a) as Ha. cbv beta in Ha. rewrite forallb_forall in Ha.
  apply Ha. now apply le8_in_ks.
Qed.

Lemma mkb_8 : mkb 8 = xff.
Proof. vm_compute. reflexivity. Qed.

Lemma mkb_0 : mkb 0 = x00.
Proof. vm_compute. reflexivity. Qed.

Lemma mkb_not_ff k : k < 8 -> mkb k <> xff.
Proof.
  intros H. assert (C : k = 0 \/ k = 1 \/ k = 2 \/ k = 3 \/ k = 4 \/ k = 5 \/ k = 6 \/ k = 7) by lia.
  repeat (destruct C as [->|C]; [vm_compute; discriminate|]). subst. vm_compute. discriminate.
Qed.

(* a masked byte is 0xff only under a full mask byte *)
Lemma band_ff_mask a m : band a m = xff -> m = xff.
Proof.
  intros H. apply byte_eqb_true.
  assert (C : forallb (fun a => forallb (fun m => negb (Byte.eqb (band a m) xff) || Byte.eqb m xff) all_bytes) all_bytes = true)
    by (vm_compute; reflexivity).
  pose proof (forall_bytes _ C a) as Ha. cbv beta in Ha. rewrite forallb_forall in Ha.
  specialize (Ha m (in_all_bytes m)). rewrite H in Ha. exact Ha.
Qed.

Lemma bits8_length c : length (bits8 c) = 8%nat.
Proof. reflexivity. Qed.

Lemma bits8_inj a b : bits8 a = bits8 b -> a = b.
Proof. intros H. rewrite <- (unbits8_bits8 a), <- (unbits8_bits8 b). now rewrite H. Qed.

Lemma app_inj_len {A} (a b c d : list A) : length a = length b -> a ++ c = b ++ d -> a = b /\ c = d.
Proof.
  revert b. induction a as [|x a IH]; intros [|y b] L H; try discriminate; [auto|].
  cbn [app] in H. injection H as -> H. injection L as L. destruct (IH b L H) as [-> ->]. auto.
Qed.

Lemma bits_length l : length (bits l) = (8 * length l)%nat.
Proof. induction l as [|c l IH]; [reflexivity|]. cbn [bits length]. rewrite app_length, IH, bits8_length. lia. Qed.

Lemma bits_inj : forall a b, length a = length b -> bits a = bits b -> a = b.
Proof.
  induction a as [|x a IH]; intros [|y b] L H; try discriminate; [reflexivity|].
  cbn [bits] in H. apply app_inj_len in H as [H1 H2]; [|reflexivity].
  apply bits8_inj in H1. injection L as L. subst. f_equal. now apply IH.
Qed.

(* one byte of IPNet.Contains against a network byte that was masked by IP.Mask *)
Lemma byte_contains a x k : k <= 8 ->
  Byte.eqb (band (band a (mkb k)) (mkb k)) (band x (mkb k)) = true <->
  firstn (N.to_nat k) (bits8 x) = firstn (N.to_nat k) (bits8 a).
Proof.
  intros Hk. rewrite byte_eqb_true. split.
  - intros H. apply (f_equal bits8) in H. rewrite !bits8_band in H by assumption.
    rewrite firstn_app, firstn_firstn, Nat.min_id in H.
    rewrite firstn_length, bits8_length in H.
    replace (N.to_nat k - Nat.min (N.to_nat k) 8)%nat with O in H by lia. cbn [firstn] in H. rewrite app_nil_r in H.
    apply app_inv_tail in H. now symmetry.
  - intros H. apply bits8_inj. rewrite !bits8_band by assumption.
    rewrite firstn_app, firstn_firstn, Nat.min_id, firstn_length, bits8_length.
    replace (N.to_nat k - Nat.min (N.to_nat k) 8)%nat with O by lia. cbn [firstn]. rewrite app_nil_r. now rewrite H.
Qed.

(* ---------- net.CIDRMask ---------- *)

Lemma cmb_length l : forall n, length (cidr_mask_bytes l n) = l.
Proof. induction l as [|l IH]; intros n; [reflexivity|]. cbn [cidr_mask_bytes]. destruct (8 <=? n); cbn [length]; now rewrite IH. Qed.

Lemma cmb_S l n : cidr_mask_bytes (S l) n =
  if 8 <=? n then xff :: cidr_mask_bytes l (n - 8) else mkb n :: cidr_mask_bytes l 0.
Proof. reflexivity. Qed.

(* the leading full bytes *)
Lemma cmb_split k : forall l n, 8 * N.of_nat k <= n ->
  cidr_mask_bytes (k + l) n = repeat xff k ++ cidr_mask_bytes l (n - 8 * N.of_nat k).
Proof.
  induction k as [|k IH]; intros l n H.
  - cbn [plus repeat app N.of_nat]. now rewrite N.mul_0_r, N.sub_0_r.
  - cbn [plus]. rewrite cmb_S. destruct (8 <=? n) eqn:E; [|apply N.leb_gt in E; lia].
    cbn [repeat app]. f_equal. rewrite IH by lia. f_equal. f_equal. lia.
Qed.

(* a mask byte is 0xff only if the prefix covers it entirely *)
Lemma cmb_nth_ff : forall l n j, (j < l)%nat -> nth j (cidr_mask_bytes l n) x00 = xff -> 8 * (N.of_nat j + 1) <= n.
Proof.
  induction l as [|l IH]; intros n j Hj H; [lia|]. rewrite cmb_S in H.
  destruct (8 <=? n) eqn:E.
  - apply N.leb_le in E. destruct j as [|j]; [cbn [N.of_nat]; lia|]. cbn [nth] in H.
    apply IH in H; [|lia]. lia.
  - apply N.leb_gt in E. destruct j as [|j]; cbn [nth] in H.
    + exfalso. now apply (mkb_not_ff n E).
    + apply IH in H; [|lia]. lia.
Qed.

(* ---------- IP.Mask and the loop of IPNet.Contains ---------- *)

Lemma map2_band_length : forall a m, length a = length m -> length (map2_band a m) = length a.
Proof.
  induction a as [|x a IH]; intros [|y m] L; try discriminate; [reflexivity|].
  cbn [map2_band length]. injection L as L. now rewrite IH.
Qed.

Lemma map2_band_app : forall a1 m1 a2 m2, length a1 = length m1 ->
  map2_band (a1 ++ a2) (m1 ++ m2) = map2_band a1 m1 ++ map2_band a2 m2.
Proof.
  induction a1 as [|x a IH]; intros [|y m] a2 m2 L; try discriminate; [reflexivity|].
  cbn [app map2_band]. injection L as L. now rewrite IH.
Qed.

Lemma map2_band_ff : forall a, map2_band a (repeat xff (length a)) = a.
Proof. induction a as [|x a IH]; [reflexivity|]. cbn [length repeat map2_band]. now rewrite band_ff, IH. Qed.

Lemma map2_band_nth : forall a m j, (j < length a)%nat -> length a = length m ->
  nth j (map2_band a m) x00 = band (nth j a x00) (nth j m x00).
Proof.
  induction a as [|x a IH]; intros [|y m] j Hj L; cbn [length] in *; try lia.
  destruct j as [|j]; [reflexivity|]. cbn [map2_band nth]. apply IH; lia.
Qed.

Lemma firstn8 c : firstn (N.to_nat 8) (bits8 c) = bits8 c.
Proof. reflexivity. Qed.

Lemma firstn_bits_ge c t k : firstn (8 + k) (bits8 c ++ t) = bits8 c ++ firstn k t.
Proof. change 8%nat with (length (bits8 c)). apply firstn_app_2. Qed.

Lemma firstn_bits_lt c t k : (k <= 8)%nat -> firstn k (bits8 c ++ t) = firstn k (bits8 c).
Proof.
  intros H. rewrite firstn_app, bits8_length. replace (k - 8)%nat with O by lia. cbn [firstn]. apply app_nil_r.
Qed.

(* the comparison loop on a network that IP.Mask produced from address a with an n-bit mask *)
Lemma contains_loop_prefix : forall l a x n,
  length a = l -> length x = l -> n <= 8 * N.of_nat l ->
  contains_loop (map2_band a (cidr_mask_bytes l n)) (cidr_mask_bytes l n) x = true <-> prefix_eq n x a.
Proof.
  unfold prefix_eq. induction l as [|l IH]; intros a x n La Lx Hn.
  - destruct a; [|discriminate]. destruct x; [|discriminate]. cbn. tauto.
  - destruct a as [|a0 a]; [discriminate|]. destruct x as [|x0 x]; [discriminate|].
    injection La as La. injection Lx as Lx. rewrite cmb_S. destruct (8 <=? n) eqn:E.
    + apply N.leb_le in E. cbn [map2_band contains_loop bits]. rewrite <- mkb_8.
      rewrite andb_true_iff, (byte_contains a0 x0 8), (IH a x (n - 8) La Lx) by lia.
      rewrite !firstn8.
      replace (N.to_nat n) with (8 + N.to_nat (n - 8))%nat by lia.
      rewrite !firstn_bits_ge.
      split.
      * intros [-> ->]. reflexivity.
      * intros H. now apply app_inj_len in H.
    + apply N.leb_gt in E. cbn [map2_band contains_loop bits].
      rewrite andb_true_iff, (byte_contains a0 x0 n) by lia.
      rewrite (IH a x 0 La Lx) by lia. cbn [N.to_nat firstn].
      rewrite !firstn_bits_lt by lia. tauto.
Qed.

(* ---------- the declarative reading ---------- *)

(* x (one resolved-address slot of the query: nil, 4 bytes, 16 bytes, anything) lies in the IPv4 network a/n:
   it has a 4-byte form (it is 4 bytes long or v4-mapped) whose first n bits are those of a *)
Definition in_net4 (a : ip) (n : N) (x : ip) : Prop := exists y, to4 x = Some y /\ prefix_eq n y a.

(* x lies in the IPv6 network a/n: 16 bytes, not v4-mapped, first n bits those of a *)
Definition in_net6 (a : ip) (n : N) (x : ip) : Prop := length x = 16%nat /\ to4 x = None /\ prefix_eq n x a.

Definition is_mapped (a : ip) : bool := beqb (firstn 12 a) v4in6_prefix.

Lemma to4_some_len x y : to4 x = Some y -> length y = 4%nat.
Proof.
  destruct (to4_cases x) as [[H1 H2]|[(H1 & H2 & H3)|(H1 & H2 & H3)]].
  - rewrite H2. intros H. injection H as <-. exact H1.
  - rewrite H3. intros H. injection H as <-. now apply skipn12_length.
  - rewrite H3. discriminate.
Qed.

Lemma to4_none_len x : to4 x = None -> length x <> 4%nat.
Proof.
  destruct (to4_cases x) as [[H1 H2]|[(H1 & H2 & H3)|(H1 & H2 & H3)]].
  - rewrite H2. discriminate.
  - rewrite H3. discriminate.
  - intros _. exact H1.
Qed.

(* IPNet.Contains after networkNumberAndMask *)
Definition contains_with (nn m x : list byte) : bool :=
  let x1 := match to4 x with Some y => y | None => x end in
  if Nat.eqb (length x1) (length nn) then contains_loop nn m x1 else false.

Lemma ipnet_contains_unfold nip mask x :
  ipnet_contains nip mask x = contains_with (fst (net_num_mask nip mask)) (snd (net_num_mask nip mask)) x.
Proof. unfold ipnet_contains, contains_with. now destruct (net_num_mask nip mask). Qed.

Lemma nnm_4_4 a m : length a = 4%nat -> length m = 4%nat -> net_num_mask a m = (a, m).
Proof. intros La Lm. unfold net_num_mask. rewrite (to4_len4 _ La), Lm. cbn [Nat.eqb]. now rewrite La. Qed.

Lemma nnm_16_16 a m : length a = 16%nat -> to4 a = None -> length m = 16%nat -> net_num_mask a m = (a, m).
Proof. intros La T Lm. unfold net_num_mask. rewrite T, La, Lm. cbn [Nat.eqb]. now rewrite La. Qed.

Lemma nnm_mapped_16 a y m : to4 a = Some y -> length m = 16%nat -> net_num_mask a m = (y, skipn 12 m).
Proof.
  intros T Lm. unfold net_num_mask. rewrite T, Lm. cbn [Nat.eqb]. now rewrite (to4_some_len _ _ T).
Qed.

Lemma contains4 a4 n x : length a4 = 4%nat -> n <= 32 ->
  contains_with (map2_band a4 (cidr_mask_bytes 4 n)) (cidr_mask_bytes 4 n) x = true <-> in_net4 a4 n x.
Proof.
  intros La Hn. unfold contains_with, in_net4.
  rewrite map2_band_length by (now rewrite cmb_length). rewrite La.
  destruct (to4 x) as [y|] eqn:E.
  - rewrite (to4_some_len _ _ E). cbn [Nat.eqb].
    rewrite (contains_loop_prefix 4 a4 y n La (to4_some_len _ _ E)) by (cbn; lia).
    split; [intros H; exists y; auto | intros [y' [Hy H]]; now inversion Hy; subst].
  - destruct (Nat.eqb_spec (length x) 4) as [L|L]; [now apply to4_none_len in E|].
    split; [discriminate | intros [y [Hy _]]; discriminate].
Qed.

Lemma ip_mask_v4 a m : length a = 4%nat -> length m = 4%nat -> ip_mask (v4in6_prefix ++ a) m = map2_band a m.
Proof.
  intros La Lm. unfold ip_mask. cbv zeta. rewrite Lm. cbn [Nat.eqb andb]. rewrite Lm. cbn [Nat.eqb andb].
  change (firstn 12 (v4in6_prefix ++ a)) with v4in6_prefix. rewrite beqb_refl.
  change (skipn 12 (v4in6_prefix ++ a)) with a. rewrite app_length, La. cbn [length v4in6_prefix plus Nat.eqb andb].
  rewrite La. reflexivity.
Qed.

Lemma ip_mask_v6 a m : length a = 16%nat -> length m = 16%nat -> ip_mask a m = map2_band a m.
Proof.
  intros La Lm. unfold ip_mask. cbv zeta. rewrite Lm, La. cbn [Nat.eqb andb]. rewrite Lm. cbn [Nat.eqb andb].
  rewrite La. reflexivity.
Qed.

(* IPv4 network, written a.b.c.d/n *)
Theorem cidr_v4 a n x : length a = 4%nat -> n <= 32 ->
  ipnet_contains (ip_mask (v4in6_prefix ++ a) (cidr_mask n 32)) (cidr_mask n 32) x = true <-> in_net4 a n x.
Proof.
  intros La Hn. unfold cidr_mask. change (N.to_nat (32 / 8)) with 4%nat.
  pose proof (cmb_length 4 n) as Lm.
  rewrite (ip_mask_v4 a _ La Lm), ipnet_contains_unfold, nnm_4_4; [| rewrite map2_band_length; congruence | exact Lm].
  cbn [fst snd]. now apply contains4.
Qed.

Lemma firstn12_mapped (a4 : list byte) : firstn 12 (v4in6_prefix ++ a4) = v4in6_prefix.
Proof. reflexivity. Qed.

Lemma skipn12_mapped (a4 : list byte) : skipn 12 (v4in6_prefix ++ a4) = a4.
Proof. reflexivity. Qed.

(* IPv6 network, written as an IPv6 text /n - including a v4-mapped text, which with n >= 96 is the IPv4
   network a'/(n-96) of its last four bytes, and with n < 96 an IPv6 network no 4-byte or v4-mapped address
   can lie in *)
Theorem cidr_v6 a n x : length a = 16%nat -> n <= 128 ->
  ipnet_contains (ip_mask a (cidr_mask n 128)) (cidr_mask n 128) x = true <->
  if (96 <=? n) && is_mapped a then in_net4 (skipn 12 a) (n - 96) x else in_net6 a n x.
Proof.
  intros La Hn. unfold cidr_mask. change (N.to_nat (128 / 8)) with 16%nat.
  pose proof (cmb_length 16 n) as Lm.
  rewrite (ip_mask_v6 a _ La Lm), ipnet_contains_unfold.
  assert (Ln : length (map2_band a (cidr_mask_bytes 16 n)) = 16%nat) by (rewrite map2_band_length; congruence).
  assert (H11 : firstn 12 (map2_band a (cidr_mask_bytes 16 n)) = v4in6_prefix -> 96 <= n).
  { intros B.
    assert (H : nth 11 (map2_band a (cidr_mask_bytes 16 n)) x00 = xff).
    { rewrite <- (firstn_skipn 12 (map2_band a (cidr_mask_bytes 16 n))), B, app_nth1 by (cbn; lia). reflexivity. }
    rewrite map2_band_nth in H by lia. apply band_ff_mask in H.
    apply cmb_nth_ff in H; [|lia]. cbn in H. lia. }
  assert (Hge : 96 <= n -> cidr_mask_bytes 16 n = repeat xff 12 ++ cidr_mask_bytes 4 (n - 96)).
  { intros G. change 16%nat with (12 + 4)%nat. rewrite cmb_split by (cbn; lia). reflexivity. }
  destruct ((96 <=? n) && is_mapped a) eqn:C.
  - (* a v4-mapped text with a prefix that covers the mapping *)
    apply andb_prop in C as [C1 C2]. apply N.leb_le in C1. unfold is_mapped in C2. apply beqb_true in C2.
    assert (Ea : a = v4in6_prefix ++ skipn 12 a) by (rewrite <- C2 at 1; symmetry; apply firstn_skipn).
    set (a4 := skipn 12 a) in *.
    assert (La4 : length a4 = 4%nat) by (unfold a4; now apply skipn12_length).
    pose proof (cmb_length 4 (n - 96)) as Lm4.
    assert (En : map2_band a (cidr_mask_bytes 16 n) = v4in6_prefix ++ map2_band a4 (cidr_mask_bytes 4 (n - 96))).
    { rewrite (Hge C1), Ea, map2_band_app by reflexivity. reflexivity. }
    assert (L4 : length (map2_band a4 (cidr_mask_bytes 4 (n - 96))) = 4%nat) by (rewrite map2_band_length; congruence).
    assert (T : to4 (map2_band a (cidr_mask_bytes 16 n)) = Some (map2_band a4 (cidr_mask_bytes 4 (n - 96)))).
    { unfold to4. rewrite Ln. cbn [Nat.eqb andb]. now rewrite En, firstn12_mapped, beqb_refl, skipn12_mapped. }
    rewrite (nnm_mapped_16 _ _ _ T Lm). cbn [fst snd].
    replace (skipn 12 (cidr_mask_bytes 16 n)) with (cidr_mask_bytes 4 (n - 96)) by (rewrite (Hge C1); reflexivity).
    apply contains4; [exact La4 | lia].
  - (* a genuine IPv6 network *)
    assert (T : to4 (map2_band a (cidr_mask_bytes 16 n)) = None).
    { unfold to4. rewrite Ln. cbn [Nat.eqb andb].
      destruct (beqb (firstn 12 (map2_band a (cidr_mask_bytes 16 n))) v4in6_prefix) eqn:B; [|reflexivity]. exfalso.
      apply beqb_true in B. pose proof (H11 B) as G. apply andb_false_iff in C as [C|C]; [apply N.leb_gt in C; lia|].
      unfold is_mapped in C.
      assert (F : firstn 12 (map2_band a (cidr_mask_bytes 16 n)) = firstn 12 a).
      { rewrite (Hge G). rewrite <- (firstn_skipn 12 a) at 1.
        assert (L12 : length (firstn 12 a) = 12%nat) by (rewrite firstn_length, La; reflexivity).
        rewrite map2_band_app by (now rewrite L12).
        replace (repeat xff 12) with (repeat xff (length (firstn 12 a))) by (now rewrite L12).
        rewrite map2_band_ff.
        rewrite firstn_app, L12, Nat.sub_diag, firstn_O, app_nil_r. apply firstn_all2. lia. }
      rewrite F in B. rewrite B, beqb_refl in C. discriminate. }
    rewrite (nnm_16_16 _ _ Ln T Lm). cbn [fst snd]. unfold contains_with, in_net6. rewrite Ln.
    destruct (to4 x) as [y|] eqn:E.
    + rewrite (to4_some_len _ _ E). cbn [Nat.eqb]. split; [discriminate | intros (_ & H & _); discriminate].
    + destruct (Nat.eqb_spec (length x) 16) as [Lx|Lx].
      * rewrite (contains_loop_prefix 16 a x n La Lx) by (cbn; lia). tauto.
      * split; [discriminate | intros (H & _); contradiction].
Qed.

(* ---------- edge cases ---------- *)

Lemma prefix_eq_0 a b : prefix_eq 0 a b.
Proof. reflexivity. Qed.

Lemma prefix_eq_full a b : length a = length b -> (prefix_eq (8 * N.of_nat (length a)) a b <-> a = b).
Proof.
  intros L. unfold prefix_eq. split; [|now intros ->].
  replace (N.to_nat (8 * N.of_nat (length a))) with (length (bits a)) at 1 by (rewrite bits_length; lia).
  replace (N.to_nat (8 * N.of_nat (length a))) with (length (bits b)) by (rewrite bits_length; lia).
  rewrite !firstn_all. now apply bits_inj.
Qed.

(* /0: every address of the family, and none of the other *)
Theorem cidr_v4_zero a x : in_net4 a 0 x <-> exists y, to4 x = Some y.
Proof. unfold in_net4. split; intros [y H]; exists y; [tauto | split; [exact H | apply prefix_eq_0]]. Qed.

Theorem cidr_v6_zero a x : in_net6 a 0 x <-> length x = 16%nat /\ to4 x = None.
Proof. unfold in_net6. pose proof (prefix_eq_0 x a). tauto. Qed.

(* /32 and /128: exactly that address (in either of its forms for IPv4) *)
Theorem cidr_v4_full a x : length a = 4%nat -> (in_net4 a 32 x <-> to4 x = Some a).
Proof.
  intros La. unfold in_net4. split.
  - intros [y [Hy H]]. pose proof (to4_some_len _ _ Hy) as Ly.
    change 32 with (8 * N.of_nat 4) in H. rewrite <- Ly in H. apply prefix_eq_full in H; [now subst | now rewrite Ly, La].
  - intros H. exists a. split; [exact H | reflexivity].
Qed.

Theorem cidr_v6_full a x : length a = 16%nat -> (in_net6 a 128 x <-> x = a /\ to4 a = None).
Proof.
  intros La. unfold in_net6. split.
  - intros (Lx & T & H). change 128 with (8 * N.of_nat 16) in H. rewrite <- Lx in H.
    apply prefix_eq_full in H; [|now rewrite Lx, La]. subst. auto.
  - intros [-> T]. repeat split; auto.
Qed.

(* bits of the written network address beyond the prefix do not matter *)
Theorem cidr_noncanonical n a a' x : prefix_eq n a a' ->
  (in_net4 a n x <-> in_net4 a' n x) /\ (in_net6 a n x <-> in_net6 a' n x).
Proof.
  unfold in_net4, in_net6, prefix_eq. intros H. split; split.
  - intros [y [Hy E]]. exists y. split; [exact Hy | congruence].
  - intros [y [Hy E]]. exists y. split; [exact Hy | congruence].
  - intros (A & B & E). repeat split; auto. congruence.
  - intros (A & B & E). repeat split; auto. congruence.
Qed.

(* ---------- the address parsers return 4 resp. 16 bytes ---------- *)

Lemma v4_loop_len : forall s first prevdot val diglen fields r,
  (length fields <= 3)%nat -> v4_loop s first prevdot val diglen fields = Some r -> length r = 4%nat.
Proof.
  induction s as [|c t IH]; intros first prevdot val diglen fields r Hf H; cbn [v4_loop] in H.
  - destruct (Nat.ltb (length fields) 3) eqn:E; [discriminate|]. apply Nat.ltb_ge in E.
    injection H as <-. rewrite app_length. cbn [length]. lia.
  - destruct (is_digit c).
    + destruct ((diglen =? 1) && (val =? 0)); [discriminate|].
      destruct (255 <? val * 10 + digit_val c); [discriminate|]. eapply IH; eauto.
    + destruct (Byte.eqb c "."%byte); [|discriminate].
      destruct (first || match t with [] => true | _ => false end || prevdot); [discriminate|].
      destruct (Nat.eqb_spec (length fields) 3); [discriminate|].
      eapply IH; [|exact H]. rewrite app_length. cbn [length]. lia.
Qed.

Lemma parse_ipv4_fields_len s r : parse_ipv4_fields s = Some r -> length r = 4%nat.
Proof. apply v4_loop_len. cbn. lia. Qed.

Lemma v6_loop_len : forall fuel s i ipb ell rest i' ipb' ell',
  length ipb = i -> Nat.even i = true -> (i <= 16)%nat ->
  v6_loop fuel s i ipb ell = Some (rest, i', ipb', ell') -> length ipb' = i' /\ (i' <= 16)%nat.
Proof.
  induction fuel as [|f IH]; intros s i ipb ell rest i' ipb' ell' Hl He Hi H; cbn [v6_loop] in H; [discriminate|].
  destruct (Nat.leb 16 i) eqn:E16.
  { injection H as <- <- <- <-. auto. }
  apply Nat.leb_gt in E16.
  assert (Hi2 : (i + 2 <= 16)%nat).
  { destruct (Nat.eq_dec i 15) as [->|]; [discriminate He | lia]. }
  assert (He2 : Nat.even (i + 2) = true).
  { replace (i + 2)%nat with (S (S i)) by lia. exact He. }
  assert (Hl2 : forall x y, length (ipb ++ [x; y]) = (i + 2)%nat).
  { intros. rewrite app_length. cbn [length]. lia. }
  destruct (hex_group s 0 0) as [[[off acc] rst]|]; [|discriminate].
  destruct (Nat.eqb off 0); [discriminate|].
  destruct (match rst with c :: _ => Byte.eqb c "."%byte | [] => false end).
  - destruct (match ell with None => true | Some _ => false end && negb (Nat.eqb i 12)); [discriminate|].
    destruct (Nat.ltb 16 (i + 4)) eqn:E4; [discriminate|]. apply Nat.ltb_ge in E4.
    destruct (parse_ipv4_fields s) as [fl|] eqn:EF; [|discriminate].
    injection H as <- <- <- <-. split; [|exact E4].
    rewrite app_length, (parse_ipv4_fields_len _ _ EF). lia.
  - destruct rst as [|c r1].
    + injection H as <- <- <- <-. auto.
    + destruct (negb (Byte.eqb c ":"%byte)); [discriminate|].
      destruct r1 as [|c2 r2]; [discriminate|].
      destruct (Byte.eqb c2 ":"%byte).
      * destruct ell; [discriminate|]. destruct r2 as [|c3 r3].
        -- injection H as <- <- <- <-. auto.
        -- eapply IH; [| | |exact H]; auto.
      * eapply IH; [| | |exact H]; auto.
Qed.

Lemma parse_ipv6_len s r : parse_ipv6 s = Some r -> length r = 16%nat.
Proof.
  unfold parse_ipv6.
  match goal with |- context [if ?b then skipn 2 s else s] => set (lead := b) end.
  destruct (lead && Nat.eqb (length (if lead then skipn 2 s else s)) 0).
  { intros H. injection H as <-. apply repeat_length. }
  match goal with |- context [v6_loop ?f ?b ?c ?d ?e] =>
    destruct (v6_loop f b c d e) as [[[[rest i] ipb] ell]|] eqn:E; [|discriminate] end.
  apply v6_loop_len in E as [L I]; [|reflexivity|reflexivity|lia].
  destruct (negb (Nat.eqb (length rest) 0)); [discriminate|].
  destruct (Nat.ltb i 16) eqn:E16.
  - apply Nat.ltb_lt in E16. destruct ell as [e|]; [|discriminate]. intros H. injection H as <-.
    rewrite !app_length, firstn_length, skipn_length. unfold zeros. rewrite repeat_length.
    match goal with |- (_ + (?m + _))%nat = _ => change m with (16 - i)%nat end. lia.
  - apply Nat.ltb_ge in E16. destruct ell; [discriminate|]. intros H. injection H as <-. lia.
Qed.

Lemma parse_addr_len s r : parse_addr s = Some r -> length (snd r) = if fst r then 4%nat else 16%nat.
Proof.
  unfold parse_addr. destruct (first_sep s) as [c|]; [|discriminate].
  destruct (Byte.eqb c "."%byte).
  - destruct (parse_ipv4_fields s) as [f|] eqn:E; [|discriminate]. intros H. injection H as <-. cbn. now apply parse_ipv4_fields_len in E.
  - destruct (Byte.eqb c ":"%byte); [|discriminate]. destruct (has_byte "%"%byte s); [discriminate|].
    destruct (parse_ipv6 s) as [a|] eqn:E; [|discriminate]. intros H. injection H as <-. cbn. now apply parse_ipv6_len in E.
Qed.

(* ---------- net.ParseCIDR: the text level ---------- *)

(* the text ip/n yields the matcher whose meaning is given by cidr_v4 / cidr_v6; n larger than the
   address size (and any other malformed text) yields no matcher: the rule file is rejected *)
Theorem parse_cidr_meaning s nip mk :
  parse_cidr s = Some (nip, mk) ->
  exists ta tn r n,
    cut "/"%byte s = Some (ta, tn) /\ parse_addr ta = Some r /\ parse_dec tn = Some n /\
    ((fst r = true /\ n <= 32 /\ length (snd r) = 4%nat /\
      forall x, ipnet_contains nip mk x = true <-> in_net4 (snd r) n x)
     \/
     (fst r = false /\ n <= 128 /\ length (snd r) = 16%nat /\
      forall x, ipnet_contains nip mk x = true <->
                if (96 <=? n) && is_mapped (snd r) then in_net4 (skipn 12 (snd r)) (n - 96) x else in_net6 (snd r) n x)).
Proof.
  unfold parse_cidr. destruct (cut "/"%byte s) as [[ta tn]|]; [|discriminate].
  destruct (parse_addr ta) as [r|] eqn:Er; [|discriminate].
  destruct (parse_dec tn) as [n|] eqn:En; [|discriminate].
  pose proof (parse_addr_len _ _ Er) as Lr. destruct r as [is4 a]. cbn [fst snd] in *.
  destruct is4.
  - destruct (32 <? n) eqn:E; [discriminate|]. apply N.ltb_ge in E. intros H. injection H as <- <-.
    exists ta, tn, (true, a), n. repeat split; auto. left. cbn [fst snd as16]. repeat split; auto.
    + now apply cidr_v4.
    + now apply cidr_v4.
  - destruct (128 <? n) eqn:E; [discriminate|]. apply N.ltb_ge in E. intros H. injection H as <- <-.
    exists ta, tn, (false, a), n. repeat split; auto. right. cbn [fst snd as16]. repeat split; auto.
    + now apply cidr_v6.
    + now apply cidr_v6.
Qed.

Theorem parse_cidr_too_long s ta tn r n :
  cut "/"%byte s = Some (ta, tn) -> parse_addr ta = Some r -> parse_dec tn = Some n ->
  (if fst r then 32 else 128) < n -> parse_cidr s = None.
Proof.
  intros H1 H2 H3 H4. unfold parse_cidr. rewrite H1, H2, H3. apply N.ltb_lt in H4. now rewrite H4.
Qed.

(* a rule whose address compiles to a CIDR matcher is one whose normalised address text ParseCIDR accepts *)
Lemma compile_host_matcher_cidr addr nip mk :
  compile_host_matcher addr = Ok (MCIDR nip mk) -> parse_cidr (norm_name addr) = Some (nip, mk).
Proof.
  unfold compile_host_matcher.
  destruct (beqb (norm_name addr) s_star || beqb (norm_name addr) s_all); [discriminate|].
  destruct (has_prefix s_geoip (norm_name addr)); [discriminate|].
  destruct (has_prefix s_geosite (norm_name addr)); [discriminate|].
  destruct (has_prefix s_suffix (norm_name addr)).
  { destruct (Nat.eqb (length (skipn 7 (norm_name addr))) 0); discriminate. }
  destruct (has_byte "/"%byte (norm_name addr)).
  - destruct (parse_cidr (norm_name addr)) as [[n m]|]; [|discriminate]. intros H. now injection H as <- <-.
  - destruct (parse_ip (norm_name addr)); [discriminate|]. destruct (has_byte "*"%byte (norm_name addr)); discriminate.
Qed.

Lemma cidr_edges a x :
  (in_net4 a 0 x <-> exists y, to4 x = Some y) /\
  (in_net6 a 0 x <-> length x = 16%nat /\ to4 x = None) /\
  (length a = 4%nat -> (in_net4 a 32 x <-> to4 x = Some a)) /\
  (length a = 16%nat -> (in_net6 a 128 x <-> x = a /\ to4 a = None)) /\
  (forall n a', prefix_eq n a a' -> (in_net4 a n x <-> in_net4 a' n x) /\ (in_net6 a n x <-> in_net6 a' n x)).
Proof.
  split; [apply cidr_v4_zero|]. split; [apply cidr_v6_zero|]. split; [apply cidr_v4_full|].
  split; [apply cidr_v6_full|]. intros n a'. apply cidr_noncanonical.
Qed.

Lemma cidr_rule addr nip mk :
  compile_host_matcher addr = Ok (MCIDR nip mk) ->
  exists ta tn r n,
    cut "/"%byte (norm_name addr) = Some (ta, tn) /\ parse_addr ta = Some r /\ parse_dec tn = Some n /\
    ((fst r = true /\ n <= 32 /\ length (snd r) = 4%nat /\
      forall x, ipnet_contains nip mk x = true <-> in_net4 (snd r) n x)
     \/
     (fst r = false /\ n <= 128 /\ length (snd r) = 16%nat /\
      forall x, ipnet_contains nip mk x = true <->
                if (96 <=? n) && is_mapped (snd r) then in_net4 (skipn 12 (snd r)) (n - 96) x else in_net6 (snd r) n x)).
Proof. intros H. apply parse_cidr_meaning. now apply compile_host_matcher_cidr. Qed.

(* ---------- examples ---------- *)

(* 10.1.2.3/12 (a network address with bits beyond the prefix): 10.15.255.255 in both forms is inside, 10.16.0.0 is not,
   and no genuine IPv6 address is *)
Example ex_cidr_v4 :
  let s := [x31;x30;x2e;x31;x2e;x32;x2e;x33;x2f;x31;x32] in
  exists nip mk, parse_cidr s = Some (nip, mk) /\
    ipnet_contains nip mk [x0a;x0f;xff;xff] = true /\
    ipnet_contains nip mk (v4in6_prefix ++ [x0a;x0f;xff;xff]) = true /\
    ipnet_contains nip mk [x0a;x10;x00;x00] = false /\
    ipnet_contains nip mk (zeros 16) = false.
Proof. eexists. eexists. split; [vm_compute; reflexivity|]. repeat split; vm_compute; reflexivity. Qed.
