(* C09 proofs for the concurrent-callers LTS of model/C09_Conc.v: along every schedule, every caller
   that has returned has returned the fresh first-match evaluation of its own query. *)
From Hy Require Import model.C09_ACL model.C09_Conc proof.C09_ACL.
From Coq Require Import ZArith Lia.
Local Open Scope N_scope.

Section ConcProofs.
  Variable ip_str : ip -> str.
  Hypothesis ip_str_nobar : forall a, ~ In "|"%byte (ip_str a).
  Hypothesis ip_str_inj : forall a b, ip_str a = ip_str b -> canon a = canon b.
  Variable pol : cache -> list key.

  Definition done_ok (rs : list rule) (t : tstate) : Prop :=
    match t with TDone q r => r = fresh rs q | _ => True end.

  Lemma thread_step_ok rs c t :
    cache_ok ip_str rs c -> done_ok rs t ->
    cache_ok ip_str rs (fst (thread_step ip_str pol rs c t)) /\ done_ok rs (snd (thread_step ip_str pol rs c t)).
  Proof.
    intros Hc Ht. destruct t as [q|q|q r]; cbn [thread_step].
    - destruct (cache_get c (mk_key ip_str q)) as [r|] eqn:E; cbn [fst snd done_ok]; split; auto.
      apply cache_get_in in E. now apply (Hc _ _ E q).
    - cbn [fst snd done_ok]. split; [|reflexivity].
      eapply cache_ok_incl; [apply filter_incl|].
      apply cache_ok_add; [exact ip_str_nobar | exact ip_str_inj |].
      eapply cache_ok_incl; [apply filter_incl | exact Hc].
    - cbn [fst snd]. split; assumption.
  Qed.

  Lemma set_nth_Forall {A} (P : A -> Prop) x : forall l i, P x -> Forall P l -> Forall P (set_nth i x l).
  Proof.
    induction l as [|y l IH]; intros i Hx Hl; [destruct i; constructor|].
    inversion Hl; subst. destruct i; cbn [set_nth]; constructor; auto.
  Qed.

  Definition inv (rs : list rule) (st : cache * list tstate) : Prop :=
    cache_ok ip_str rs (fst st) /\ Forall (done_ok rs) (snd st).

  Lemma conc_step_ok rs st e : inv rs st -> inv rs (conc_step ip_str pol rs st e).
  Proof.
    destruct st as [c ts]. intros [Hc Ht]. cbn [fst snd] in *. destruct e as [q|i|ks]; cbn [conc_step].
    - split; cbn [fst snd]; [exact Hc|]. apply Forall_app. split; [exact Ht|]. constructor; [exact I|constructor].
    - destruct (nth_error ts i) as [t|] eqn:E; [|split; assumption].
      assert (Hti : done_ok rs t).
      { apply nth_error_In in E. rewrite Forall_forall in Ht. now apply Ht. }
      destruct (thread_step_ok rs c t Hc Hti) as [H1 H2].
      destruct (thread_step ip_str pol rs c t) as [c' t']. cbn [fst snd] in *.
      split; cbn [fst snd]; [exact H1|]. now apply set_nth_Forall.
    - split; cbn [fst snd]; [|exact Ht]. eapply cache_ok_incl; [apply filter_incl | exact Hc].
  Qed.

  Lemma fold_inv rs : forall es st, inv rs st -> inv rs (fold_left (conc_step ip_str pol rs) es st).
  Proof.
    induction es as [|e es IH]; intros st H; cbn [fold_left]; [exact H|].
    apply IH. now apply conc_step_ok.
  Qed.

  (* every schedule: new callers anywhere, any interleaving of the atomic sections, evictions anywhere *)
  Lemma conc_answers_fresh rs es :
    forall q r, In (Some (q, r)) (answers (snd (conc_run ip_str pol rs es))) -> r = fresh rs q.
  Proof.
    intros q r Hin. unfold conc_run in Hin.
    assert (H : inv rs (fold_left (conc_step ip_str pol rs) es ([], []))).
    { apply fold_inv. split; cbn [fst snd]; [apply cache_ok_nil | constructor]. }
    destruct H as [_ Ht]. unfold answers in Hin. apply in_map_iff in Hin. destruct Hin as (t & Heq & Hin).
    rewrite Forall_forall in Ht. specialize (Ht t Hin).
    destruct t as [q'|q'|q' r']; try discriminate. injection Heq as <- <-. exact Ht.
  Qed.

  (* non-vacuity: a caller returns after at most two of its own steps, whatever happens in between *)
  Lemma thread_returns rs c c' q :
    let '(c1, t1) := thread_step ip_str pol rs c (TStart q) in
    exists r, snd (thread_step ip_str pol rs c' t1) = TDone q r.
  Proof.
    cbn [thread_step]. destruct (cache_get c (mk_key ip_str q)) as [r|]; cbn [thread_step snd]; eauto.
  Qed.
End ConcProofs.

(* a concrete overlapping schedule on the example rule list of proof/C09_ACL.v: caller 0 misses and is
   suspended in its scan; caller 1 asks the same query, misses too, completes; caller 0 completes;
   caller 2 hits.  All three answer the first rule's outbound and hijack address. *)
Example ex_overlap :
  forall rs, compile ex_obs ex_rules 1 = Ok rs ->
  let q := nth 0 ex_queries (mkQuery (mkHost [] [] []) 0 0) in
  answers (snd (conc_run ip_str_hex (pol_fifo 1 0) rs
                         [ESpawn q; EStep 0; ESpawn q; EStep 1; EStep 1; EStep 0; ESpawn q; EStep 2])) =
  [Some (q, fresh rs q); Some (q, fresh rs q); Some (q, fresh rs q)] /\
  fst (fresh rs q) = Some 1.
Proof. intros rs H. vm_compute in H. injection H as <-. split; vm_compute; reflexivity. Qed.
