(* C09 proofs, engine adapter (model/C09_Engine.v): the decision of aclEngine.TCP / UDP / CheckUDP is the first-match
   decision on exactly (Host, ResolveInfo.IPv4, ResolveInfo.IPv6); ResolveInfo.Err is carried along and never read. *)
From Hy Require Import model.C09_ACL proof.C09_ACL model.C09_Engine model.C09_Text model.C09_IPString.
From Coq Require Import ZArith Lia.
Local Open Scope N_scope.

Lemma reqx_host_forget a : req_host (reqx_forget a) = reqx_host a.
Proof. destruct a as [n p [[v4 v6 e]|]]; reflexivity. Qed.

Lemma reqx_port_forget a : ra_port (reqx_forget a) = rx_port a.
Proof. destruct a as [n p [[v4 v6 e]|]]; reflexivity. Qed.

(* the lookup handle makes: the query (Host, IPv4, IPv6, proto, Port), whatever Err is *)
Lemma enginex_lookup ip_str rs d a op :
  engine_call ip_str rs d a op =
  let dec := handle_result d (fresh rs (mkQuery (reqx_host a) (op_proto op) (rx_port a))) in
  (fst dec, op, reqx_after ip_str a (snd dec)).
Proof.
  unfold engine_call, engine_handle. now rewrite reqx_host_forget, reqx_port_forget.
Qed.

(* two requests that differ only in the error they carry get the same outbound, the same method and the same
   rewrite; a ResolveInfo without addresses - with or without an error - is looked up like no ResolveInfo at all *)
Lemma enginex_err_irrelevant ip_str rs d n port v4 v6 e e' op :
  let c := engine_call ip_str rs d (mkReqX n port (Some (mkRI v4 v6 e))) op in
  let c' := engine_call ip_str rs d (mkReqX n port (Some (mkRI v4 v6 e'))) op in
  fst c = fst c' /\
  engine_handle rs d (reqx_forget (mkReqX n port (Some (mkRI v4 v6 e)))) (op_proto op) =
  engine_handle rs d (mkReq n port (Some (v4, v6))) (op_proto op) /\
  (* the request the outbound sees: the caller's own (its error included) unless a hijack address replaces it *)
  (snd c = mkReqX n port (Some (mkRI v4 v6 e)) /\ snd c' = mkReqX n port (Some (mkRI v4 v6 e')) \/
   snd c = snd c' /\ exists h a b, rx_ri (snd c) = Some (mkRI a b false) /\ rx_host (snd c) = ip_str h).
Proof.
  cbv zeta. unfold engine_call, reqx_forget. cbn [rx_host rx_port rx_ri ri_v4 ri_v6 fst snd].
  destruct (engine_handle rs d (mkReq n port (Some (v4, v6))) (op_proto op)) as [ob rw].
  cbn [fst snd]. split; [reflexivity|]. split; [reflexivity|].
  destruct rw as [|hj a b]; cbn [reqx_after rx_port].
  - left. split; reflexivity.
  - right. split; [reflexivity|]. exists hj, a, b. split; reflexivity.
Qed.

Lemma enginex_nil_ri rs d n port e op :
  engine_handle rs d (reqx_forget (mkReqX n port (Some (mkRI [] [] e)))) (op_proto op) =
  engine_handle rs d (reqx_forget (mkReqX n port None)) (op_proto op).
Proof. reflexivity. Qed.

Lemma enginex_default ip_str rs d a op :
  Forall (fun x => rule_match x (norm_host (reqx_host a)) (op_proto op) (rx_port a) = false) rs ->
  engine_call ip_str rs d a op = (d, op, a).
Proof.
  intros H. unfold engine_call.
  rewrite (engine_default rs d (reqx_forget a) (op_proto op)).
  - reflexivity.
  - now rewrite reqx_host_forget, reqx_port_forget.
Qed.

Lemma enginex_first ip_str rs d a op pre r post :
  rs = pre ++ r :: post ->
  Forall (fun x => rule_match x (norm_host (reqx_host a)) (op_proto op) (rx_port a) = false) pre ->
  rule_match r (norm_host (reqx_host a)) (op_proto op) (rx_port a) = true ->
  engine_call ip_str rs d a op =
    (r_ob r, op,
     match r_hijack r with
     | [] => a
     | _ => match to4 (r_hijack r) with
            | Some x => mkReqX (ip_str (r_hijack r)) (rx_port a) (Some (mkRI x [] false))
            | None => mkReqX (ip_str (r_hijack r)) (rx_port a) (Some (mkRI [] (r_hijack r) false))
            end
     end).
Proof.
  intros E Hpre Hr. unfold engine_call.
  rewrite (engine_first rs d (reqx_forget a) (op_proto op) pre r post E).
  - cbn [fst snd]. destruct (r_hijack r) as [|b l]; [reflexivity|].
    destruct (to4 (b :: l)); reflexivity.
  - now rewrite reqx_host_forget, reqx_port_forget.
  - now rewrite reqx_host_forget, reqx_port_forget.
Qed.

(* ---------- the hypotheses are satisfiable: a partial resolver failure in front of a CIDR rule ---------- *)

(* reject(10.0.0.0/8) / ob1(all): the A answer 10.1.2.3 arrives together with the error of the AAAA query *)
Definition ex_text : str :=
  ["r";"e";"j";"e";"c";"t";"(";"1";"0";".";"0";".";"0";".";"0";"/";"8";")"]%byte ++ [x0a] ++
  ["o";"b";"1";"(";"a";"l";"l";")"]%byte ++ [x0a].
Definition ex_entries : list (str * N) := [(["o";"b";"1"]%byte, 1)].
Definition ex_name : str := ["i";"n";"t";"r";"a";".";"e";"x";"a";"m";"p";"l";"e"]%byte.

Example enginex_partial_failure :
  let m := outbounds_to_map ex_entries 1000 1001 in
  exists rs, compile_text m ex_text 1024 = Ok rs /\
    let a e := mkReqX ex_name 443 (Some (mkRI [x0a;x01;x02;x03] [] e)) in
    engine_call ip_string rs 1 (a true) OpTCP = (1001, OpTCP, a true) /\
    engine_call ip_string rs 1 (a false) OpCheckUDP = (1001, OpCheckUDP, a false) /\
    engine_call ip_string rs 1 (mkReqX ex_name 443 (Some (mkRI [] [] true))) OpUDP =
      (1, OpUDP, mkReqX ex_name 443 (Some (mkRI [] [] true))) /\
    dispatched 1001 1001 OpTCP = None /\ dispatched 1001 1 OpUDP = Some OpUDP.
Proof.
  cbv zeta. eexists. split; [vm_compute; reflexivity|]. vm_compute. repeat split; reflexivity.
Qed.
