(* C09 proofs about the model of net.IP.String (model/C09_IPString.v): the rendering never contains '|'
   and determines the address up to To4 normalisation ([ip_unstring] is a left inverse of it), i.e. the
   two facts the cache theorems used to assume of an abstract rendering hold of the modelled one. *)
From Hy Require Import model.C09_ACL model.C09_IPString proof.C09_ACL.
From Coq Require Import ZArith Lia ZifyBool ZifyNat ZifyN.
Ltac Zify.zify_post_hook ::= Z.div_mod_to_equations.
Local Open Scope N_scope.

(* ---------- digits ---------- *)

Lemma lt16_cases n : n < 16 ->
  n = 0 \/ n = 1 \/ n = 2 \/ n = 3 \/ n = 4 \/ n = 5 \/ n = 6 \/ n = 7 \/ n = 8 \/ n = 9 \/
  n = 10 \/ n = 11 \/ n = 12 \/ n = 13 \/ n = 14 \/ n = 15.
Proof. lia. Qed.

Ltac cases16 H :=
  apply lt16_cases in H;
  repeat (destruct H as [H|H]; [subst; reflexivity|]); subst; reflexivity.

Definition hexc (c : byte) : bool := match hex_val c with Some _ => true | None => false end.

Lemma hv_hexd n : n < 16 -> hv (hexd n) = n.
Proof. intros H. cases16 H. Qed.

Lemma hexc_hexd n : n < 16 -> hexc (hexd n) = true.
Proof. intros H. cases16 H. Qed.

Ltac leb_cases := repeat match goal with
  | H : (_ <=? _) = true |- _ => apply N.leb_le in H
  | H : (_ <=? _) = false |- _ => apply N.leb_gt in H
  end.

Lemma unhex_hex16 x : x < 65536 -> unhex (hex16 x) = x.
Proof.
  intros Hx. unfold hex16, unhex.
  destruct (4096 <=? x) eqn:E1; destruct (256 <=? x) eqn:E2; destruct (16 <=? x) eqn:E3; leb_cases;
    try lia; cbn [app fold_left]; rewrite !hv_hexd by lia; lia.
Qed.

Lemma undec_dec8 x : x < 256 -> undec (dec8 x) = x.
Proof.
  intros Hx. unfold dec8, undec.
  destruct (100 <=? x) eqn:E1; destruct (10 <=? x) eqn:E2; leb_cases;
    try lia; cbn [app fold_left]; rewrite !hv_hexd by lia; lia.
Qed.

Lemma hex16_chars x : x < 65536 -> forallb hexc (hex16 x) = true.
Proof.
  intros Hx. unfold hex16.
  destruct (4096 <=? x); destruct (256 <=? x); destruct (16 <=? x);
    cbn [app forallb]; rewrite !hexc_hexd by lia; reflexivity.
Qed.

Lemma dec8_chars x : x < 256 -> forallb hexc (dec8 x) = true.
Proof.
  intros Hx. unfold dec8.
  destruct (100 <=? x); destruct (10 <=? x);
    cbn [app forallb]; rewrite !hexc_hexd by lia; reflexivity.
Qed.

Lemma hex16_nonempty x : nonempty (hex16 x) = true.
Proof. unfold hex16. destruct (4096 <=? x); destruct (256 <=? x); destruct (16 <=? x); reflexivity. Qed.

Lemma hex_string_chars l : forallb hexc (hex_string l) = true.
Proof.
  induction l as [|b l IH]; [reflexivity|]. pose proof (b2n_lt b).
  cbn [hex_string forallb]. rewrite !hexc_hexd by lia. exact IH.
Qed.

Lemma unhex_pairs_hex_string l : unhex_pairs (hex_string l) = l.
Proof.
  induction l as [|b l IH]; [reflexivity|]. pose proof (b2n_lt b).
  cbn [hex_string unhex_pairs]. rewrite !hv_hexd by lia. rewrite IH. f_equal.
  replace (b2n b / 16 * 16 + b2n b mod 16) with (b2n b) by lia. apply n2b_b2n.
Qed.

(* ---------- character sets ---------- *)

Lemma forallb_has_byte P s c : forallb P s = true -> P c = false -> has_byte c s = false.
Proof.
  intros Hs Hc. induction s as [|d s IH]; [reflexivity|]. cbn [forallb has_byte] in *.
  apply andb_prop in Hs as [Hd Hs]. rewrite (IH Hs), orb_false_r.
  destruct (Byte.eqb d c) eqn:E; [|reflexivity]. apply byte_eqb_true in E. subst. congruence.
Qed.

Lemma has_byte_In c s : has_byte c s = false -> ~ In c s.
Proof.
  induction s as [|d s IH]; [intros _ []|]. cbn [has_byte]. intros H [Hd|Hin].
  - subst. rewrite byte_eqb_refl in H. discriminate.
  - apply orb_false_elim in H as [_ H]. now apply IH.
Qed.

Lemma has_byte_app_mid c x r : has_byte c (x ++ c :: r) = true.
Proof.
  induction x as [|d x IH]; cbn [app has_byte]; [now rewrite byte_eqb_refl|]. rewrite IH. apply orb_true_r.
Qed.

Lemma forallb_weaken (P Q : byte -> bool) s : (forall c, P c = true -> Q c = true) -> forallb P s = true -> forallb Q s = true.
Proof.
  intros HPQ. induction s as [|c s IH]; [reflexivity|]. cbn [forallb]. intros H.
  apply andb_prop in H as [H1 H2]. now rewrite (HPQ _ H1), IH.
Qed.

(* ---------- Split and Join ---------- *)

Lemma join_cons2 sep x y t : join sep (x :: y :: t) = x ++ sep :: join sep (y :: t).
Proof. reflexivity. Qed.

Lemma split_on_nosep sep x : has_byte sep x = false -> split_on sep x = [x].
Proof.
  induction x as [|c x IH]; [reflexivity|]. cbn [has_byte split_on]. intros H.
  apply orb_false_elim in H as [H1 H2]. rewrite H1, (IH H2). reflexivity.
Qed.

Lemma split_on_app sep x r : has_byte sep x = false -> split_on sep (x ++ sep :: r) = x :: split_on sep r.
Proof.
  induction x as [|c x IH]; cbn [app has_byte split_on].
  - intros _. now rewrite byte_eqb_refl.
  - intros H. apply orb_false_elim in H as [H1 H2]. rewrite H1, (IH H2). reflexivity.
Qed.

Lemma split_join sep l :
  l <> [] -> Forall (fun x => has_byte sep x = false) l -> split_on sep (join sep l) = l.
Proof.
  induction l as [|x l IH]; [congruence|]. intros _ H. inversion H as [|? ? Hx Hl]; subst.
  destruct l as [|y t].
  - cbn [join]. now apply split_on_nosep.
  - rewrite join_cons2, (split_on_app _ _ _ Hx). f_equal. apply IH; [discriminate | exact Hl].
Qed.

Lemma forallb_join P sep l :
  P sep = true -> Forall (fun x => forallb P x = true) l -> forallb P (join sep l) = true.
Proof.
  intros Hsep. induction 1 as [|x l Hx Hl IH]; [reflexivity|].
  destruct l as [|y t]; [exact Hx|]. rewrite join_cons2, forallb_app.
  change (forallb P (sep :: join sep (y :: t))) with (P sep && forallb P (join sep (y :: t))).
  now rewrite Hx, Hsep, IH.
Qed.

(* ---------- IPv4: dotted decimal ---------- *)

Definition dotc (c : byte) : bool := hexc c || Byte.eqb c "."%byte.

Lemma string4_chars a : forallb dotc (string4 a) = true.
Proof.
  unfold string4. apply forallb_join; [reflexivity|]. apply Forall_forall. intros x Hx.
  apply in_map_iff in Hx as [b [<- _]]. pose proof (b2n_lt b).
  apply (forallb_weaken hexc); [|now apply dec8_chars]. intros c Hc. unfold dotc. now rewrite Hc.
Qed.

Lemma dec4_string4 a : a <> [] -> dec4 (string4 a) = a.
Proof.
  intros Ha. unfold dec4, string4. rewrite split_join.
  - rewrite map_map. rewrite <- (map_id a) at 2. apply map_ext. intros b. pose proof (b2n_lt b).
    rewrite undec_dec8 by lia. apply n2b_b2n.
  - destruct a; [congruence | discriminate].
  - apply Forall_forall. intros x Hx. apply in_map_iff in Hx as [b [<- _]]. pose proof (b2n_lt b).
    apply (forallb_has_byte hexc); [now apply dec8_chars | reflexivity].
Qed.

Lemma string4_has_dot a0 a1 t : has_byte "."%byte (string4 (a0 :: a1 :: t)) = true.
Proof. unfold string4. cbn [map]. rewrite join_cons2. apply has_byte_app_mid. Qed.

(* ---------- IPv6: groups ---------- *)

Lemma groups_lt : forall n a, (length a <= n)%nat -> Forall (fun x => x < 65536) (groups a).
Proof.
  induction n as [|n IH]; intros a Ha.
  - destruct a; [constructor | cbn in Ha; lia].
  - destruct a as [|hi [|lo t]]; try constructor.
    + pose proof (b2n_lt hi). pose proof (b2n_lt lo). lia.
    + apply IH. cbn [length] in Ha. lia.
Qed.

Lemma ungroups_groups : forall n a, length a = (2 * n)%nat -> ungroups (groups a) = a.
Proof.
  induction n as [|n IH]; intros a Ha.
  - destruct a; [reflexivity | discriminate].
  - destruct a as [|hi [|lo t]]; cbn [length] in Ha; try lia.
    pose proof (b2n_lt hi). pose proof (b2n_lt lo).
    cbn [groups ungroups]. rewrite IH by lia.
    replace ((b2n hi * 256 + b2n lo) / 256) with (b2n hi) by lia.
    replace ((b2n hi * 256 + b2n lo) mod 256) with (b2n lo) by lia.
    now rewrite !n2b_b2n.
Qed.

Lemma groups_length : forall n a, length a = (2 * n)%nat -> length (groups a) = n.
Proof.
  induction n as [|n IH]; intros a Ha.
  - destruct a; [reflexivity | discriminate].
  - destruct a as [|hi [|lo t]]; cbn [length] in Ha; try lia. cbn [groups length]. rewrite IH by lia. reflexivity.
Qed.

(* ---------- the zero run ---------- *)

Lemma zero_run_le gs : (zero_run gs <= length gs)%nat.
Proof. induction gs as [|g t IH]; cbn [zero_run length]; [lia|]. destruct (g =? 0); lia. Qed.

Lemma zero_run_zeros gs : firstn (zero_run gs) gs = repeat 0 (zero_run gs).
Proof.
  induction gs as [|g t IH]; [reflexivity|]. cbn [zero_run]. destruct (g =? 0) eqn:E; [|reflexivity].
  apply N.eqb_eq in E. subst. cbn [firstn repeat]. now rewrite IH.
Qed.

(* a candidate (zeroStart, zeroEnd) lies inside the address and covers zero groups only *)
Definition run_ok (g : list N) (b : option (nat * nat)) : Prop :=
  match b with
  | None => True
  | Some (s, e) => (s <= e)%nat /\ (e <= length g)%nat /\ firstn (e - s) (skipn s g) = repeat 0 (e - s)%nat
  end.

Lemma skipn_add {A} (l : list A) : forall b a, skipn a (skipn b l) = skipn (b + a) l.
Proof.
  induction l as [|x l IH]; intros b a.
  - now rewrite !skipn_nil.
  - destruct b as [|b]; [reflexivity|]. cbn [skipn plus]. apply IH.
Qed.

Lemma skipn_S_tail {A} (g : list A) i x t : skipn i g = x :: t -> skipn (S i) g = t.
Proof.
  intros H. replace (S i) with (i + 1)%nat by lia. rewrite <- skipn_add, H. reflexivity.
Qed.

Lemma best_run_ok g : forall gs i best, skipn i g = gs -> run_ok g best -> run_ok g (best_run gs i best).
Proof.
  induction gs as [|x t IH]; intros i best Hs Hb; [exact Hb|].
  cbn [best_run]. apply IH; [now apply (skipn_S_tail g i x)|].
  destruct (Nat.leb 2 (zero_run (x :: t)) && Nat.ltb _ _); [|exact Hb].
  pose proof (zero_run_le (x :: t)) as Hle.
  assert (Hlen : length (x :: t) = (length g - i)%nat) by (rewrite <- Hs; apply skipn_length).
  cbn [length] in Hle, Hlen.
  cbn [run_ok]. repeat split; try lia.
  replace (i + zero_run (x :: t) - i)%nat with (zero_run (x :: t)) by lia.
  rewrite Hs. apply zero_run_zeros.
Qed.

Lemma run_ok_split g s e :
  run_ok g (Some (s, e)) -> g = firstn s g ++ repeat 0 (e - s)%nat ++ skipn e g.
Proof.
  intros (H1 & H2 & H3). rewrite <- H3.
  replace (skipn e g) with (skipn (e - s) (skipn s g)).
  - now rewrite firstn_skipn, firstn_skipn.
  - rewrite skipn_add. f_equal. lia.
Qed.

(* ---------- IPv6: the decoder inverts the rendering ---------- *)

Definition ne_nocolon (x : str) : Prop := nonempty x = true /\ has_byte colon x = false.

Lemma take_drop_ne_all l : Forall ne_nocolon l -> take_ne l = l /\ drop_ne l = [].
Proof.
  induction 1 as [|x l [Hx _] Hl [IH1 IH2]]; [split; reflexivity|].
  cbn [take_ne drop_ne]. rewrite Hx, IH1, IH2. split; reflexivity.
Qed.

Lemma take_drop_ne_gap A X : Forall ne_nocolon A -> take_ne (A ++ [] :: X) = A /\ drop_ne (A ++ [] :: X) = [] :: X.
Proof.
  induction 1 as [|x l [Hx _] Hl [IH1 IH2]]; [split; reflexivity|].
  cbn [app take_ne drop_ne]. rewrite Hx, IH1, IH2. split; reflexivity.
Qed.

Lemma filter_ne_all l : Forall ne_nocolon l -> filter nonempty l = l.
Proof. induction 1 as [|x l [Hx _] Hl IH]; [reflexivity|]. cbn [filter]. now rewrite Hx, IH. Qed.

Lemma forall_nocolon l : Forall ne_nocolon l -> Forall (fun x => has_byte colon x = false) l.
Proof. apply Forall_impl. now intros x [_ H]. Qed.

Lemma filter_ne_split_join B : Forall ne_nocolon B -> filter nonempty (split_on colon (join colon B)) = B.
Proof.
  intros HB. destruct B as [|y t]; [reflexivity|].
  rewrite split_join; [now apply filter_ne_all | discriminate | now apply forall_nocolon].
Qed.

Lemma split_gap A rest :
  Forall ne_nocolon A ->
  split_on colon (join colon A ++ colon :: colon :: rest) =
  match A with [] => [] :: [] :: split_on colon rest | _ => A ++ [] :: split_on colon rest end.
Proof.
  induction 1 as [|x l [_ Hx] Hl IH].
  - cbn [join app split_on]. unfold colon. now rewrite !byte_eqb_refl.
  - destruct l as [|y t].
    + cbn [join app]. rewrite (split_on_app _ _ _ Hx). cbn [split_on]. unfold colon. now rewrite byte_eqb_refl.
    + rewrite join_cons2, <- app_assoc. cbn [app]. rewrite (split_on_app _ _ _ Hx). now rewrite IH.
Qed.

Lemma hex16_ne_nocolon l : Forall (fun x => x < 65536) l -> Forall ne_nocolon (map hex16 l).
Proof.
  induction 1 as [|x l Hx Hl IH]; cbn [map]; constructor; [|exact IH]. split.
  - apply hex16_nonempty.
  - apply (forallb_has_byte hexc); [now apply hex16_chars | reflexivity].
Qed.

Lemma map_unhex_hex16 l : Forall (fun x => x < 65536) l -> map unhex (map hex16 l) = l.
Proof.
  induction 1 as [|x l Hx Hl IH]; [reflexivity|]. cbn [map]. now rewrite unhex_hex16, IH.
Qed.

Lemma Forall_firstn_skipn {A} (P : A -> Prop) n l : Forall P l -> Forall P (firstn n l) /\ Forall P (skipn n l).
Proof. intros H. rewrite <- (firstn_skipn n l) in H. now apply Forall_app in H. Qed.

(* the decomposition used by both the decoder and the character-set lemma *)
Definition render6 (g : list N) : str :=
  match best_run g 0 None with
  | None => join colon (map hex16 g)
  | Some (zs, ze) => join colon (map hex16 (firstn zs g)) ++ colon :: colon :: join colon (map hex16 (skipn ze g))
  end.

Lemma dec6_render6 g :
  length g = 8%nat -> Forall (fun x => x < 65536) g -> dec6_groups (render6 g) = g.
Proof.
  intros Hlen Hlt. unfold render6.
  assert (Hok : run_ok g (best_run g 0 None)) by (apply best_run_ok; [reflexivity | exact I]).
  destruct (best_run g 0 None) as [[s e]|].
  - pose proof (run_ok_split g s e Hok) as Hsplit. destruct Hok as (H1 & H2 & H3).
    destruct (Forall_firstn_skipn _ s g Hlt) as [HL _]. destruct (Forall_firstn_skipn _ e g Hlt) as [_ HR].
    set (L := firstn s g) in *. set (R := skipn e g) in *.
    assert (HA := hex16_ne_nocolon L HL). assert (HB := hex16_ne_nocolon R HR).
    unfold dec6_groups. rewrite (split_gap _ _ HA).
    assert (E : take_ne (match map hex16 L with
                         | [] => [] :: [] :: split_on colon (join colon (map hex16 R))
                         | _ => map hex16 L ++ [] :: split_on colon (join colon (map hex16 R)) end) = map hex16 L /\
                filter nonempty (drop_ne (match map hex16 L with
                         | [] => [] :: [] :: split_on colon (join colon (map hex16 R))
                         | _ => map hex16 L ++ [] :: split_on colon (join colon (map hex16 R)) end)) = map hex16 R).
    { destruct (map hex16 L) as [|a0 A'] eqn:EA.
      - cbn [take_ne drop_ne nonempty filter]. split; [reflexivity | now apply filter_ne_split_join].
      - destruct (take_drop_ne_gap (a0 :: A') (split_on colon (join colon (map hex16 R))) HA) as [T D].
        rewrite T, D. cbn [filter nonempty]. split; [reflexivity | now apply filter_ne_split_join]. }
    destruct E as [E1 E2]. rewrite E1, E2, !map_length, !map_unhex_hex16 by assumption.
    replace (8 - length L - length R)%nat with (e - s)%nat.
    + symmetry. exact Hsplit.
    + unfold L, R. rewrite firstn_length, skipn_length. lia.
  - assert (HA := hex16_ne_nocolon g Hlt).
    unfold dec6_groups. rewrite split_join; [| destruct g; [discriminate Hlen | discriminate] | now apply forall_nocolon].
    destruct (take_drop_ne_all _ HA) as [T D]. rewrite T, D. cbn [filter map length app].
    rewrite map_length, Hlen, map_unhex_hex16 by assumption. cbn [Nat.sub repeat app]. apply app_nil_r.
Qed.

Definition colc (c : byte) : bool := hexc c || Byte.eqb c colon.

Lemma render6_chars g : Forall (fun x => x < 65536) g -> forallb colc (render6 g) = true.
Proof.
  intros Hlt.
  assert (J : forall l, Forall (fun x => x < 65536) l -> forallb colc (join colon (map hex16 l)) = true).
  { intros l Hl. apply forallb_join; [reflexivity|]. apply Forall_forall. intros x Hx.
    apply in_map_iff in Hx as [y [<- Hy]]. rewrite Forall_forall in Hl.
    apply (forallb_weaken hexc); [|apply hex16_chars; now apply Hl]. intros c Hc. unfold colc. now rewrite Hc. }
  unfold render6. destruct (best_run g 0 None) as [[s e]|]; [|now apply J].
  destruct (Forall_firstn_skipn _ s g Hlt) as [HL _]. destruct (Forall_firstn_skipn _ e g Hlt) as [_ HR].
  rewrite forallb_app. cbn [forallb]. now rewrite (J _ HL), (J _ HR).
Qed.

Lemma string6_render6 a : string6 a = render6 (groups a).
Proof. reflexivity. Qed.

(* ---------- net.IP.String ---------- *)

Lemma len_eqb_false (a : list byte) n : length a <> n -> Nat.eqb (length a) n = false.
Proof. now intros H; apply Nat.eqb_neq. Qed.

Lemma string4_unstring p : length p = 4%nat -> ip_unstring (string4 p) = p.
Proof.
  intros Hp. destruct p as [|a0 [|a1 t]]; try discriminate.
  unfold ip_unstring.
  rewrite (forallb_has_byte dotc _ "<"%byte (string4_chars _) eq_refl).
  rewrite (forallb_has_byte dotc _ "?"%byte (string4_chars _) eq_refl).
  rewrite string4_has_dot. apply dec4_string4. discriminate.
Qed.

Lemma string6_unstring a : length a = 16%nat -> ip_unstring (string6 a) = a.
Proof.
  intros Ha. rewrite string6_render6.
  assert (Hlt := groups_lt 16 a ltac:(lia)).
  assert (Hlen := groups_length 8 a Ha).
  unfold ip_unstring.
  rewrite (forallb_has_byte colc _ "<"%byte (render6_chars _ Hlt) eq_refl).
  rewrite (forallb_has_byte colc _ "?"%byte (render6_chars _ Hlt) eq_refl).
  rewrite (forallb_has_byte colc _ "."%byte (render6_chars _ Hlt) eq_refl).
  rewrite (dec6_render6 _ Hlen Hlt). now apply (ungroups_groups 8).
Qed.

(* the rendering determines the address up to To4 normalisation *)
Theorem ip_unstring_string a : ip_unstring (ip_string a) = canon a.
Proof.
  unfold ip_string, canon.
  destruct (to4_cases a) as [[H1 H2]|[(H1 & H2 & H3)|(H1 & H2 & H3)]].
  - rewrite H1, H2. cbn [Nat.eqb negb andb]. now apply string4_unstring.
  - rewrite H1, H3. cbn [Nat.eqb negb andb]. apply string4_unstring. now apply skipn12_length.
  - rewrite H3. destruct (Nat.eqb_spec (length a) 0) as [L0|L0].
    + destruct a; [reflexivity | discriminate].
    + rewrite (len_eqb_false a 4 H1). cbn [negb andb].
      destruct (Nat.eqb_spec (length a) 16) as [L16|L16]; cbn [negb].
      * now apply string6_unstring.
      * unfold ip_unstring.
        assert (Hc : forallb (fun c => hexc c || Byte.eqb c "?"%byte) ("?"%byte :: hex_string a) = true).
        { cbn [forallb]. apply (forallb_weaken hexc); [|apply hex_string_chars]. intros c Hc. now rewrite Hc. }
        rewrite (forallb_has_byte _ _ "<"%byte Hc eq_refl).
        cbn [has_byte]. rewrite byte_eqb_refl. cbn [orb tl]. apply unhex_pairs_hex_string.
Qed.

Theorem ip_string_inj a b : ip_string a = ip_string b -> canon a = canon b.
Proof. intros H. rewrite <- (ip_unstring_string a), <- (ip_unstring_string b). now rewrite H. Qed.

Theorem ip_string_nobar a : ~ In "|"%byte (ip_string a).
Proof.
  apply has_byte_In. unfold ip_string.
  destruct (Nat.eqb (length a) 0); [reflexivity|].
  destruct (negb (Nat.eqb (length a) 4) && negb (Nat.eqb (length a) 16)).
  - cbn [has_byte]. rewrite (forallb_has_byte hexc _ "|"%byte (hex_string_chars a) eq_refl). reflexivity.
  - destruct (to4 a) as [p|].
    + exact (forallb_has_byte dotc _ "|"%byte (string4_chars p) eq_refl).
    + rewrite string6_render6.
      exact (forallb_has_byte colc _ "|"%byte (render6_chars _ (groups_lt (length a) a (le_n _))) eq_refl).
Qed.

(* ---------- which run "::" replaces (RFC 5952 4.2.2 / 4.2.3 as netip implements them) ---------- *)

(* [s, e) is a run of zero groups of g *)
Definition zero_range (g : list N) (s e : nat) : Prop :=
  (s <= e)%nat /\ (e <= length g)%nat /\ forall k, (s <= k < e)%nat -> nth k g 1 = 0.

Lemma zero_run_nth gs : forall k, (k < zero_run gs)%nat -> nth k gs 1 = 0.
Proof.
  induction gs as [|g t IH]; cbn [zero_run]; [lia|]. destruct (g =? 0) eqn:E; [|lia].
  apply N.eqb_eq in E. subst. intros [|k] Hk; [reflexivity|]. cbn [nth]. apply IH. lia.
Qed.

Lemma zero_run_max gs : forall n, (n <= length gs)%nat -> (forall k, (k < n)%nat -> nth k gs 1 = 0) -> (n <= zero_run gs)%nat.
Proof.
  induction gs as [|g t IH]; intros n Hn Hz; cbn [length] in Hn; [lia|].
  destruct n as [|n]; [lia|]. cbn [zero_run].
  assert (Hg : g = 0) by (apply (Hz O); lia). subst. cbn [N.eqb].
  apply le_n_S. apply IH; [lia|]. intros k Hk. apply (Hz (S k)). lia.
Qed.

(* the loop invariant of the first loop of appendTo6 at index i: the candidate is a zero range of
   length >= 2 starting below i, at least as long as every zero range starting below i, and strictly
   longer than every zero range starting before it *)
Definition run_best (g : list N) (i : nat) (b : option (nat * nat)) : Prop :=
  match b with
  | None => forall s e, (s < i)%nat -> zero_range g s e -> (e - s < 2)%nat
  | Some (bs, be) =>
      (bs < i)%nat /\ (2 <= be - bs)%nat /\ zero_range g bs be /\
      (forall s e, (s < i)%nat -> zero_range g s e -> (e - s <= be - bs)%nat) /\
      (forall s e, (s < bs)%nat -> zero_range g s e -> (e - s < be - bs)%nat)
  end.

Lemma nth_skipn {A} (g : list A) i k d : nth k (skipn i g) d = nth (i + k) g d.
Proof.
  revert g. induction i as [|i IH]; intros g; [reflexivity|]. destruct g as [|x g]; cbn [skipn plus nth].
  - now destruct k.
  - apply IH.
Qed.

Lemma best_run_best g : forall gs i best,
  skipn i g = gs -> run_best g i best -> run_best g (i + length gs) (best_run gs i best).
Proof.
  induction gs as [|x t IH]; intros i best Hs Hb.
  - cbn [length best_run]. now rewrite Nat.add_0_r.
  - cbn [best_run length]. replace (i + S (length t))%nat with (S i + length t)%nat by lia.
    apply IH; [now apply (skipn_S_tail g i x)|].
    set (l := zero_run (x :: t)).
    assert (Hlen : length (x :: t) = (length g - i)%nat) by (rewrite <- Hs; apply skipn_length).
    pose proof (zero_run_le (x :: t)) as Hle. fold l in Hle. cbn [length] in Hlen, Hle.
    (* every zero range starting at i is at most l long *)
    assert (Hi : forall e, zero_range g i e -> (e - i <= l)%nat).
    { intros e (E1 & E2 & E3). apply zero_run_max; [cbn [length]; lia|].
      intros k Hk. rewrite <- Hs, nth_skipn. apply E3. lia. }
    assert (Hzr : zero_range g i (i + l)).
    { repeat split; try lia. intros k Hk. replace k with (i + (k - i))%nat by lia.
      rewrite <- nth_skipn, Hs. apply zero_run_nth. fold l. lia. }
    destruct best as [[bs be]|].
    + destruct Hb as (B1 & B2 & B3 & B4 & B5).
      destruct (Nat.leb 2 l && Nat.ltb (be - bs) l) eqn:C.
      * apply andb_prop in C as [C1 C2]. apply Nat.leb_le in C1. apply Nat.ltb_lt in C2.
        cbn [run_best]. repeat split; try lia; try apply Hzr.
        -- intros s e Hs' Hr. destruct (Nat.eq_dec s i) as [->|Hne]; [specialize (Hi e Hr); lia|].
           specialize (B4 s e ltac:(lia) Hr). lia.
        -- intros s e Hs' Hr. specialize (B4 s e ltac:(lia) Hr). lia.
      * cbn [run_best]. repeat split; try lia; try apply B3; auto.
        intros s e Hs' Hr. destruct (Nat.eq_dec s i) as [->|Hne]; [|apply B4; [lia | exact Hr]].
        specialize (Hi e Hr). apply andb_false_iff in C as [C|C].
        -- apply Nat.leb_gt in C. lia.
        -- apply Nat.ltb_ge in C. lia.
    + cbn [run_best] in Hb. cbn [Nat.sub].
      destruct (Nat.leb 2 l && Nat.ltb 0 l) eqn:C.
      * apply andb_prop in C as [C1 C2]. apply Nat.leb_le in C1.
        cbn [run_best]. repeat split; try lia; try apply Hzr.
        -- intros s e Hs' Hr. destruct (Nat.eq_dec s i) as [->|Hne]; [specialize (Hi e Hr); lia|].
           specialize (Hb s e ltac:(lia) Hr). lia.
        -- intros s e Hs' Hr. specialize (Hb s e ltac:(lia) Hr). lia.
      * cbn [run_best]. intros s e Hs' Hr.
        destruct (Nat.eq_dec s i) as [->|Hne]; [|apply Hb; [lia | exact Hr]].
        specialize (Hi e Hr). apply andb_false_iff in C as [C|C].
        -- apply Nat.leb_gt in C. lia.
        -- apply Nat.ltb_ge in C. lia.
Qed.

(* "::" stands for the leftmost longest run of at least two zero groups; without such a run nothing is
   compressed *)
Theorem best_run_spec g :
  match best_run g 0 None with
  | Some (bs, be) =>
      (2 <= be - bs)%nat /\ zero_range g bs be /\
      (forall s e, zero_range g s e -> (e - s <= be - bs)%nat) /\
      (forall s e, (s < bs)%nat -> zero_range g s e -> (e - s < be - bs)%nat)
  | None => forall s e, zero_range g s e -> (e - s < 2)%nat
  end.
Proof.
  assert (H := best_run_best g g 0 None eq_refl). cbn [run_best plus] in H.
  specialize (H ltac:(intros; lia)).
  destruct (best_run g 0 None) as [[bs be]|]; cbn [run_best] in H.
  - destruct H as (B1 & B2 & B3 & B4 & B5). repeat split; try apply B3; auto.
    intros s e Hr. destruct (Nat.lt_ge_cases s (length g)) as [Hlt|Hge]; [now apply B4|].
    destruct Hr as (E1 & E2 & _). lia.
  - intros s e Hr. destruct (Nat.lt_ge_cases s (length g)) as [Hlt|Hge]; [now apply H|].
    destruct Hr as (E1 & E2 & _). lia.
Qed.

(* ---------- examples (evaluated in the kernel) ---------- *)

Example ex_string_v6 :
  ip_string [x20;x01;x0d;xb8;x00;x00;x00;x00;x00;x01;x00;x00;x00;x00;x00;x09] =
  [x32;x30;x30;x31;x3a;x64;x62;x38;x3a;x3a;x31;x3a;x30;x3a;x30;x3a;x39].      (* 2001:db8::1:0:0:9 - the leftmost of two equal runs *)
Proof. vm_compute. reflexivity. Qed.

Example ex_string_mapped :
  ip_string (v4in6_prefix ++ [x0a;x00;xff;x07]) = [x31;x30;x2e;x30;x2e;x32;x35;x35;x2e;x37] /\
  ip_string [x0a;x00;xff;x07] = [x31;x30;x2e;x30;x2e;x32;x35;x35;x2e;x37].
Proof. split; vm_compute; reflexivity. Qed.
